//go:build c19

package harness

import (
	"fmt"
	"math/big"
	"sort"
	"testing"

	"cosmossdk.io/log"
	sdkmath "cosmossdk.io/math"
	storetypes "cosmossdk.io/store/types"
	sdk "github.com/cosmos/cosmos-sdk/types"
	authtypes "github.com/cosmos/cosmos-sdk/x/auth/types"
	banktypes "github.com/cosmos/cosmos-sdk/x/bank/types"

	"github.com/provenance-io/provenance/internal/antewrapper"
	"github.com/provenance-io/provenance/internal/pioconfig"
	attributetypes "github.com/provenance-io/provenance/x/attribute/types"
	"github.com/provenance-io/provenance/x/exchange"
	exchangekeeper "github.com/provenance-io/provenance/x/exchange/keeper"
	nametypes "github.com/provenance-io/provenance/x/name/types"
	markertypes "github.com/provenance-io/provenance/x/marker/types"
	msgfeestypes "github.com/provenance-io/provenance/x/msgfees/types"
)

// intOK reports whether the value can be an sdkmath.Int at all (|x| < 2^256).
func intOK(x *big.Int) bool { return x.BitLen() <= 256 }

func TestC19(t *testing.T) {
	r := newRand("C19")
	pool := boundaryAmounts()
	w := NewCaseWriter("C19", "PV.Corr.C19", "check_all", 1000)
	app, baseCtx := newApp(t)
	feeDenom := pioconfig.GetProvenanceConfig().FeeDenom

	type desc map[string]any
	n := scale(400, 20000)

	// --- QuoIntRoundUp, all sign combinations ---
	for i := 0; i < n; i++ {
		a := randAmount(r, pool)
		b := randAmount(r, pool)
		switch r.Intn(8) {
		case 0:
			a.Neg(a)
		case 1:
			b.Neg(b)
		case 2:
			a.Neg(a)
			b.Neg(b)
		case 3: // exact multiple
			a.Mul(b, big.NewInt(r.Int63n(1000)))
		case 4: // off by one from a multiple
			a.Mul(b, big.NewInt(r.Int63n(1000)))
			a.Add(a, big.NewInt(int64(r.Intn(3)-1)))
		}
		if !intOK(a) || !intOK(b) {
			continue
		}
		var res sdkmath.Int
		err := try(func() error {
			res = exchange.QuoIntRoundUp(sdkmath.NewIntFromBigInt(a), sdkmath.NewIntFromBigInt(b))
			return nil
		})
		obs := coqOpt(err == nil, func() string {
			if err == nil {
				return zInt(res)
			}
			return ""
		}())
		w.Add("CQuoUp "+zBig(a)+" "+zBig(b)+" "+obs, desc{"fn": "QuoIntRoundUp", "a": a.String(), "b": b.String(), "ok": err == nil})
		w.Count("quo_round_up")
		if err == nil && b.Sign() != 0 && new(big.Int).Rem(a, b).Sign() != 0 {
			w.Nontrivial("q/" + a.String() + "/" + b.String())
		}
		if err != nil {
			w.Count("quo_round_up_failed")
		}
	}

	// --- FeeRatio.ApplyToLoosely / ApplyTo ---
	for i := 0; i < n; i++ {
		rp := randAmount(r, pool)
		rf := randAmount(r, pool)
		p := randAmount(r, pool)
		switch r.Intn(6) {
		case 0: // price an exact multiple of the ratio price
			p.Mul(rp, big.NewInt(r.Int63n(100000)))
		case 1:
			p.Mul(rp, big.NewInt(r.Int63n(100000)))
			p.Add(p, big.NewInt(int64(r.Intn(3)-1)))
			if p.Sign() < 0 {
				p.SetInt64(0)
			}
		case 2:
			rp.SetInt64(0) // division by zero error path
		}
		if !intOK(rp) || !intOK(rf) || !intOK(p) {
			continue
		}
		ratio := exchange.FeeRatio{Price: sdk.Coin{Denom: "price", Amount: sdkmath.NewIntFromBigInt(rp)}, Fee: sdk.Coin{Denom: "fee", Amount: sdkmath.NewIntFromBigInt(rf)}}
		price := sdk.Coin{Denom: "price", Amount: sdkmath.NewIntFromBigInt(p)}
		big256 := new(big.Int).Mul(p, rf).BitLen() > 64
		for _, loose := range []bool{true, false} {
			var res sdk.Coin
			err := try(func() error {
				var e error
				if loose {
					res, e = ratio.ApplyToLoosely(price)
				} else {
					res, e = ratio.ApplyTo(price)
				}
				return e
			})
			v := ""
			if err == nil {
				v = zInt(res.Amount)
			}
			name := "CApplyTo"
			if loose {
				name = "CApplyLoosely"
			}
			w.Add(name+" "+zBig(rp)+" "+zBig(rf)+" "+zBig(p)+" "+coqOpt(err == nil, v),
				desc{"fn": name, "ratio_price": rp.String(), "ratio_fee": rf.String(), "price": p.String(), "ok": err == nil})
			w.Count(name)
			if err == nil && rp.Sign() != 0 && new(big.Int).Rem(new(big.Int).Mul(p, rf), rp).Sign() != 0 {
				w.Nontrivial(name + "/" + rp.String() + "/" + rf.String() + "/" + p.String())
			}
			if err != nil {
				w.Count(name + "_failed")
			}
			if big256 {
				w.Count("product_above_2^64")
			}
		}
	}

	// --- Keeper.CalculateExchangeSplit through the real params store ---
	{
		splits := []uint32{0, 1, 2, 3, 499, 500, 501, 3333, 5000, 9999, 10000}
		for i := 0; i < n; i++ {
			amt := randAmount(r, pool)
			var split uint32
			if r.Intn(3) == 0 {
				split = uint32(r.Intn(10001))
			} else {
				split = splits[r.Intn(len(splits))]
			}
			switch r.Intn(4) {
			case 0: // a multiple of 10000/gcd neighbourhood
				amt.Mul(big.NewInt(r.Int63n(1000000)), big.NewInt(10000))
				amt.Add(amt, big.NewInt(int64(r.Intn(3)-1)))
				if amt.Sign() < 0 {
					amt.SetInt64(0)
				}
			}
			if !intOK(amt) {
				continue
			}
			ctx, _ := baseCtx.CacheContext()
			app.ExchangeKeeper.SetParams(ctx, &exchange.Params{DefaultSplit: 77, DenomSplits: []exchange.DenomSplit{{Denom: "splitcoin", Split: split}}})
			var res sdk.Coins
			err := try(func() error {
				res = app.ExchangeKeeper.CalculateExchangeSplit(ctx, sdk.Coins{sdk.Coin{Denom: "splitcoin", Amount: sdkmath.NewIntFromBigInt(amt)}})
				return nil
			})
			v := ""
			if err == nil {
				v = zInt(res.AmountOf("splitcoin"))
			}
			w.Add("CExSplit "+zBig(amt)+" "+zI64(int64(split))+" "+coqOpt(err == nil, v),
				desc{"fn": "CalculateExchangeSplit", "amount": amt.String(), "split": split, "ok": err == nil})
			w.Count("exchange_split")
			if err == nil && split > 0 && amt.Sign() > 0 {
				w.Nontrivial("x/" + amt.String() + "/" + fmt.Sprint(split))
			}
			if err != nil {
				w.Count("exchange_split_failed")
			}
		}
	}

	// --- msgfees SplitCoinByBips ---
	for i := 0; i < n; i++ {
		amt := randAmount(r, pool)
		var bips uint32
		switch r.Intn(4) {
		case 0:
			bips = uint32(r.Intn(10001))
		case 1:
			bips = []uint32{0, 1, 9999, 10000, 10001, 20000, 5000, 2500, 3333}[r.Intn(9)]
		default:
			bips = uint32(r.Intn(12000))
		}
		if r.Intn(3) == 0 {
			amt.Mul(big.NewInt(r.Int63n(1000000)), big.NewInt(10000))
			amt.Add(amt, big.NewInt(int64(r.Intn(3)-1)))
			if amt.Sign() < 0 {
				amt.SetInt64(0)
			}
		}
		if !intOK(amt) {
			continue
		}
		var rc, pc sdk.Coin
		err := try(func() error {
			var e error
			rc, pc, e = msgfeestypes.SplitCoinByBips(sdk.Coin{Denom: "feecoin", Amount: sdkmath.NewIntFromBigInt(amt)}, bips)
			return e
		})
		v := ""
		if err == nil {
			v = "(" + zInt(rc.Amount) + ", " + zInt(pc.Amount) + ")"
		}
		w.Add("CBips "+zBig(amt)+" "+zI64(int64(bips))+" "+coqOpt(err == nil, v),
			desc{"fn": "SplitCoinByBips", "amount": amt.String(), "bips": bips, "ok": err == nil})
		w.Count("split_by_bips")
		if err == nil && bips > 0 && bips < 10000 && amt.Sign() > 0 {
			w.Nontrivial("b/" + amt.String() + "/" + fmt.Sprint(bips))
		}
		if err != nil {
			w.Count("split_by_bips_failed")
		}
		if amt.BitLen() > 63 {
			w.Count("split_by_bips_amount_above_2^63")
		}
	}

	// --- CalculateCommitmentSettlementFee through the real keeper ---
	{
		marketID, err := app.ExchangeKeeper.CreateMarket(baseCtx, exchange.Market{
			MarketDetails:            exchange.MarketDetails{Name: "c19"},
			FeeCreateCommitmentFlat:  []sdk.Coin{sdk.NewInt64Coin(feeDenom, 1)},
			CommitmentSettlementBips: 50,
			IntermediaryDenom:        "interm",
		})
		if err != nil {
			t.Fatalf("create market: %v", err)
		}
		otherDenoms := []string{"otheraa", "otherbb", "othercc"}
		nc := scale(300, 10000)
		for i := 0; i < nc; i++ {
			ctx, _ := baseCtx.CacheContext()
			bips := uint32(1 + r.Intn(10000)) // 0 means "leave the bips as they are" to UpdateFees
			if r.Intn(3) == 0 {
				bips = []uint32{1, 50, 9999, 10000, 2, 3}[r.Intn(6)]
			}
			sameDenom := r.Intn(5) == 0
			interm := "interm"
			if sameDenom {
				interm = feeDenom
			}
			app.ExchangeKeeper.UpdateFees(ctx, &exchange.MsgGovManageFeesRequest{MarketId: marketID, SetFeeCommitmentSettlementBips: bips})
			app.ExchangeKeeper.UpdateIntermediaryDenom(ctx, marketID, interm, "")
			small := func() *big.Int {
				a := randAmount(r, pool)
				if a.BitLen() > 100 {
					a.Rsh(a, uint(a.BitLen()-100+r.Intn(60)))
				}
				if a.Sign() == 0 {
					a.SetInt64(1)
				}
				return a
			}
			var inputs sdk.Coins
			var navs []exchange.NetAssetPrice
			feeAmt, convAmt := big.NewInt(0), big.NewInt(0)
			if r.Intn(3) != 0 {
				feeAmt = small()
				inputs = inputs.Add(sdk.NewCoin(feeDenom, sdkmath.NewIntFromBigInt(feeAmt)))
			}
			if !sameDenom && r.Intn(3) != 0 {
				convAmt = small()
				inputs = inputs.Add(sdk.NewCoin(interm, sdkmath.NewIntFromBigInt(convAmt)))
			}
			var others []string
			var othersDesc []map[string]string
			// one case in five: every conversion is a repeating decimal over a common divisor and
			// the exact total is a whole number (the truncated 18-decimal sum then sits just below it)
			wholeSum := r.Intn(5) == 0
			q := []int64{3, 7, 9, 11, 13, 17}[r.Intn(6)]
			resSum := int64(0)
			for oi, od := range otherDenoms {
				if !wholeSum && r.Intn(2) == 0 {
					continue
				}
				a, np, na := small(), small(), small()
				switch {
				case wholeSum:
					res := 1 + r.Int63n(q-1)
					if oi == len(otherDenoms)-1 {
						res = (q - resSum%q) % q
						if res == 0 {
							res = q // a whole term
						}
					}
					resSum += res
					a.Mul(big.NewInt(q), new(big.Int).Rsh(a, 4))
					a.Add(a, big.NewInt(res))
					np.SetInt64(1)
					na.SetInt64(q)
				case r.Intn(4) == 0: // exact conversion
					a.Mul(na, big.NewInt(r.Int63n(1000)+1))
				case r.Intn(3) == 0: // repeating decimal
					na.SetInt64([]int64{3, 7, 9, 11, 13, 17}[r.Intn(6)])
				}
				inputs = inputs.Add(sdk.NewCoin(od, sdkmath.NewIntFromBigInt(a)))
				right := exchange.NetAssetPrice{Assets: sdk.NewCoin(od, sdkmath.NewIntFromBigInt(na)), Price: sdk.NewCoin(interm, sdkmath.NewIntFromBigInt(np))}
				if !sameDenom && r.Intn(3) == 0 {
					// a second NAV of the same assets denom priced in the FEE denom, before or after the right one
					decoy := exchange.NetAssetPrice{Assets: sdk.NewCoin(od, sdkmath.NewIntFromBigInt(small())), Price: sdk.NewCoin(feeDenom, sdkmath.NewIntFromBigInt(small()))}
					if r.Intn(2) == 0 {
						navs = append(navs, decoy, right)
					} else {
						navs = append(navs, right, decoy)
					}
					w.Count("commitment_fee_two_navs_for_one_assets_denom")
				} else {
					navs = append(navs, right)
				}
				others = append(others, "("+zBig(a)+", "+zBig(np)+", "+zBig(na)+")")
				othersDesc = append(othersDesc, map[string]string{"denom": od, "amount": a.String(), "nav_price": np.String(), "nav_assets": na.String()})
			}
			if len(inputs) == 0 {
				continue
			}
			tfp, tfa := big.NewInt(1), big.NewInt(1)
			if !sameDenom {
				tfp, tfa = small(), small()
				navs = append(navs, exchange.NetAssetPrice{Assets: sdk.NewCoin(interm, sdkmath.NewIntFromBigInt(tfa)), Price: sdk.NewCoin(feeDenom, sdkmath.NewIntFromBigInt(tfp))})
			}
			// the inputs come from one to three accounts; the charge is on the total
			nacc := 1 + r.Intn(3)
			parts := make([]sdk.Coins, nacc)
			for _, c := range inputs {
				rest := c.Amount
				for k := 0; k < nacc-1 && rest.IsPositive(); k++ {
					if r.Intn(2) == 0 {
						continue
					}
					p := sdkmath.NewIntFromBigInt(new(big.Int).Rand(r, new(big.Int).Add(rest.BigInt(), big.NewInt(1))))
					if p.IsPositive() {
						parts[k] = parts[k].Add(sdk.NewCoin(c.Denom, p))
						rest = rest.Sub(p)
					}
				}
				if rest.IsPositive() {
					parts[nacc-1] = parts[nacc-1].Add(sdk.NewCoin(c.Denom, rest))
				}
			}
			var aa []exchange.AccountAmount
			for k, pc := range parts {
				if !pc.IsZero() {
					aa = append(aa, exchange.AccountAmount{Account: addrN(1 + 10*k).String(), Amount: pc})
				}
			}
			if len(aa) > 1 {
				w.Count("commitment_fee_inputs_from_several_accounts")
			}
			req := &exchange.MsgMarketCommitmentSettleRequest{Admin: addrN(2).String(), MarketId: marketID, Inputs: aa, Outputs: aa, Navs: navs}
			var resp *exchange.QueryCommitmentSettlementFeeCalcResponse
			err := try(func() error {
				var e error
				resp, e = app.ExchangeKeeper.CalculateCommitmentSettlementFee(ctx, req)
				return e
			})
			v := ""
			if err == nil {
				conv := resp.ConvertedTotal.AmountOf(interm)
				if sameDenom {
					// the converted amount was merged into the fee-denom coin of the total
					conv = conv.Sub(sdkmath.NewIntFromBigInt(feeAmt))
				}
				v = "(" + zInt(conv) + ", " + zInt(sdk.Coins(resp.ExchangeFees).AmountOf(feeDenom)) + ")"
			}
			term := "CCommit {| ci_fee := " + zBig(feeAmt) + "; ci_conv := " + zBig(convAmt) + "; ci_others := " + coqList(others) +
				"; ci_tfp := " + zBig(tfp) + "; ci_tfa := " + zBig(tfa) + "; ci_bips := " + zI64(int64(bips)) + " |} " + coqOpt(err == nil, v)
			w.Add(term, desc{"fn": "CalculateCommitmentSettlementFee", "fee_denom_amount": feeAmt.String(), "intermediary_amount": convAmt.String(),
				"others": othersDesc, "to_fee_nav_price": tfp.String(), "to_fee_nav_assets": tfa.String(), "bips": bips, "same_denom": sameDenom, "ok": err == nil})
			w.Count("commitment_fee")
			if wholeSum {
				w.Count("commitment_fee_repeating_decimals_with_whole_total")
			}
			if err == nil && len(others) > 0 {
				w.Nontrivial("c/" + term)
			}
			if err != nil {
				w.Count("commitment_fee_failed")
			}
		}
	}
	// --- commitment settlement charge with NAVs read from the marker module's store ---
	// (the request provides no NAV for the denom, so lookupNav falls back to Keeper.GetNav, which
	// rebuilds the assets amount from the stored uint64 volume)
	{
		marketID, err := app.ExchangeKeeper.CreateMarket(baseCtx, exchange.Market{
			MarketDetails:            exchange.MarketDetails{Name: "c19stored"},
			FeeCreateCommitmentFlat:  []sdk.Coin{sdk.NewInt64Coin(feeDenom, 1)},
			CommitmentSettlementBips: 50,
			IntermediaryDenom:        "interm",
		})
		if err != nil {
			t.Fatalf("create market: %v", err)
		}
		mgr := addrN(31)
		ensureAccount(app, baseCtx, mgr)
		vols := []uint64{1, 2, 3, 7, 1000, 1 << 31, 1<<63 - 1, 1 << 63, 1<<63 + 1, 1<<64 - 1, 0}
		ns := scale(120, 3000)
		for i := 0; i < ns; i++ {
			ctx, _ := baseCtx.CacheContext()
			denom := fmt.Sprintf("navcoin%d", i%7)
			maddr := markertypes.MustGetMarkerAddress(denom)
			ma := markertypes.NewMarkerAccount(authtypes.NewBaseAccountWithAddress(maddr), sdk.NewInt64Coin(denom, 1000), mgr,
				[]markertypes.AccessGrant{*markertypes.NewAccessGrant(mgr, markertypes.AccessList{markertypes.Access_Admin, markertypes.Access_Mint})},
				markertypes.StatusProposed, markertypes.MarkerType_Coin, true, true, false, nil)
			if err := app.MarkerKeeper.AddFinalizeAndActivateMarker(ctx, ma); err != nil {
				t.Fatalf("marker: %v", err)
			}
			vol := vols[r.Intn(len(vols))]
			np := randAmount(r, pool)
			if np.BitLen() > 100 {
				np.Rsh(np, uint(np.BitLen()-100))
			}
			if vol == 0 {
				np.SetInt64(0) // the marker module only accepts volume 0 together with price 0
			} else if np.Sign() == 0 {
				np.SetInt64(1)
			}
			m, err := app.MarkerKeeper.GetMarker(ctx, maddr)
			if err != nil || m == nil {
				t.Fatalf("get marker: %v", err)
			}
			if err := app.MarkerKeeper.SetNetAssetValue(ctx, m, markertypes.NewNetAssetValue(sdk.NewCoin("interm", sdkmath.NewIntFromBigInt(np)), vol), "c19"); err != nil {
				t.Fatalf("set nav (%s, %d): %v", np, vol, err)
			}
			bips := uint32(1 + r.Intn(10000))
			app.ExchangeKeeper.UpdateFees(ctx, &exchange.MsgGovManageFeesRequest{MarketId: marketID, SetFeeCommitmentSettlementBips: bips})
			amt := randAmount(r, pool)
			if amt.BitLen() > 100 {
				amt.Rsh(amt, uint(amt.BitLen()-100))
			}
			if amt.Sign() == 0 {
				amt.SetInt64(1)
			}
			tfp, tfa := big.NewInt(int64(1+r.Intn(50))), big.NewInt(int64(1+r.Intn(50)))
			inputs := sdk.NewCoins(sdk.NewCoin(denom, sdkmath.NewIntFromBigInt(amt)))
			navs := []exchange.NetAssetPrice{{Assets: sdk.NewCoin("interm", sdkmath.NewIntFromBigInt(tfa)), Price: sdk.NewCoin(feeDenom, sdkmath.NewIntFromBigInt(tfp))}}
			aa := []exchange.AccountAmount{{Account: addrN(1).String(), Amount: inputs}}
			req := &exchange.MsgMarketCommitmentSettleRequest{Admin: addrN(2).String(), MarketId: marketID, Inputs: aa, Outputs: aa, Navs: navs}
			var resp *exchange.QueryCommitmentSettlementFeeCalcResponse
			err = try(func() error {
				var e error
				resp, e = app.ExchangeKeeper.CalculateCommitmentSettlementFee(ctx, req)
				return e
			})
			v := ""
			if err == nil {
				v = "(" + zInt(resp.ConvertedTotal.AmountOf("interm")) + ", " + zInt(sdk.Coins(resp.ExchangeFees).AmountOf(feeDenom)) + ")"
			}
			volZ := new(big.Int).SetUint64(vol)
			term := "CCommit {| ci_fee := 0; ci_conv := 0; ci_others := [(" + zBig(amt) + ", " + zBig(np) + ", " + zBig(volZ) + ")]" +
				"; ci_tfp := " + zBig(tfp) + "; ci_tfa := " + zBig(tfa) + "; ci_bips := " + zI64(int64(bips)) + " |} " + coqOpt(err == nil, v)
			w.Add(term, desc{"fn": "CalculateCommitmentSettlementFee (NAV read from the marker store)", "amount": amt.String(), "stored_nav_price": np.String(),
				"stored_nav_volume": volZ.String(), "to_fee_nav_price": tfp.String(), "to_fee_nav_assets": tfa.String(), "bips": bips, "ok": err == nil, "error": fmt.Sprint(err)})
			w.Count("commitment_fee_stored_nav")
			if vol >= 1<<63 {
				w.Count("commitment_fee_stored_nav_volume_ge_2^63")
			}
			if err != nil {
				w.Count("commitment_fee_stored_nav_failed")
			} else {
				w.Nontrivial("cs/" + term)
			}
		}
	}
	// --- MsgFeesDistribution.Increase over the messages of one transaction ---
	{
		nd := scale(150, 5000)
		for i := 0; i < nd; i++ {
			nrec := 1 + r.Intn(3)
			recs := make([]string, nrec)
			for j := range recs {
				recs[j] = addrN(40 + j).String()
			}
			dist := msgfeestypes.MsgFeesDistribution{RecipientDistributions: map[string]sdk.Coins{}}
			nops := 1 + r.Intn(6)
			var ops []string
			var opsDesc []map[string]any
			for k := 0; k < nops; k++ {
				amt := randAmount(r, pool)
				if r.Intn(8) == 0 {
					amt.SetInt64(0)
				}
				if amt.BitLen() > 250 {
					amt.Rsh(amt, 10)
				}
				bips := uint32(r.Intn(10001))
				if r.Intn(4) == 0 {
					bips = []uint32{0, 1, 5000, 9999, 10000}[r.Intn(5)]
				}
				rid := -1
				recip := ""
				if r.Intn(4) != 0 {
					rid = r.Intn(nrec)
					recip = recs[rid]
				}
				err := try(func() error {
					return dist.Increase(sdk.Coin{Denom: "feecoin", Amount: sdkmath.NewIntFromBigInt(amt)}, bips, recip)
				})
				if err != nil {
					t.Fatalf("Increase(%s, %d): %v", amt, bips, err)
				}
				ro := "None"
				if rid >= 0 {
					ro = fmt.Sprintf("(Some %d%%N)", rid)
				}
				ops = append(ops, "("+zBig(amt)+", "+zI64(int64(bips))+", "+ro+")")
				opsDesc = append(opsDesc, map[string]any{"amount": amt.String(), "bips": bips, "recipient": rid})
			}
			var recAmts []string
			for j := range recs {
				recAmts = append(recAmts, zInt(dist.RecipientDistributions[recs[j]].AmountOf("feecoin")))
			}
			term := "CDist " + coqList(ops) + " " + fmt.Sprintf("%d%%N", nrec) + " (" + zInt(dist.TotalAdditionalFees.AmountOf("feecoin")) + ", " +
				zInt(dist.AdditionalModuleFees.AmountOf("feecoin")) + ", " + coqList(recAmts) + ")"
			w.Add(term, desc{"fn": "MsgFeesDistribution.Increase", "ops": opsDesc})
			w.Count("fee_distribution_sequences")
			w.Nontrivial("d/" + term)
		}
	}
	// --- ratio fee options quoted by the OrderFeeCalc query ---
	// Markets whose ratio tables use price denoms that are prefixes of one another; the denom
	// numbers are the positions in this byte-ordered list, so number order = store order.
	{
		denoms := []string{"fig", "figs", "pea", "peach", "peachy", "plum", "plums"}
		qs := exchangekeeper.NewQueryServer(app.ExchangeKeeper)
		small := func() *big.Int {
			a := randAmount(r, pool)
			if a.BitLen() > 100 {
				a.Rsh(a, uint(a.BitLen()-100+r.Intn(60)))
			}
			if a.Sign() == 0 {
				a.SetInt64(1)
			}
			return a
		}
		nq := scale(250, 8000)
		for i := 0; i < nq; i++ {
			ctx, _ := baseCtx.CacheContext()
			type rt struct {
				pd, fd int
				rp, rf *big.Int
			}
			var buyer, seller []rt
			seen := map[[2]int]bool{}
			pds := r.Perm(len(denoms))[:1+r.Intn(4)]
			if r.Intn(12) != 0 {
				for _, pd := range pds {
					nf := 1 + r.Intn(3)
					for _, fd := range r.Perm(len(denoms))[:nf] {
						if seen[[2]int{pd, fd}] {
							continue
						}
						seen[[2]int{pd, fd}] = true
						buyer = append(buyer, rt{pd, fd, small(), small()})
					}
				}
			}
			if r.Intn(6) != 0 {
				for _, pd := range r.Perm(len(denoms))[:1+r.Intn(3)] {
					rp := small()
					rf := new(big.Int).Rsh(rp, uint(r.Intn(12)))
					seller = append(seller, rt{pd, pd, rp, rf})
				}
			}
			less := func(l []rt) func(a, b int) bool {
				return func(a, b int) bool {
					if l[a].pd != l[b].pd {
						return l[a].pd < l[b].pd
					}
					return l[a].fd < l[b].fd
				}
			}
			sort.Slice(buyer, less(buyer))
			sort.Slice(seller, less(seller))
			toRatios := func(l []rt) []exchange.FeeRatio {
				var rv []exchange.FeeRatio
				for _, x := range l {
					rv = append(rv, exchange.FeeRatio{Price: sdk.Coin{Denom: denoms[x.pd], Amount: sdkmath.NewIntFromBigInt(x.rp)},
						Fee: sdk.Coin{Denom: denoms[x.fd], Amount: sdkmath.NewIntFromBigInt(x.rf)}})
				}
				return rv
			}
			coqRatios := func(l []rt) string {
				var it []string
				for _, x := range l {
					it = append(it, fmt.Sprintf("{| r_pd := %d%%N; r_fd := %d%%N; r_p := %s; r_f := %s |}", x.pd, x.fd, zBig(x.rp), zBig(x.rf)))
				}
				return coqList(it)
			}
			marketID, err := app.ExchangeKeeper.CreateMarket(ctx, exchange.Market{
				MarketDetails:             exchange.MarketDetails{Name: "c19 quotes"},
				FeeBuyerSettlementRatios:  toRatios(buyer),
				FeeSellerSettlementRatios: toRatios(seller),
			})
			if err != nil {
				t.Fatalf("create quote market: %v", err)
			}
			for probe := 0; probe < 3; probe++ {
				pd := r.Intn(len(denoms))
				if r.Intn(3) != 0 && len(buyer) > 0 {
					pd = buyer[r.Intn(len(buyer))].pd
				}
				p := small()
				var tbl []rt
				tbl = append(tbl, buyer...)
				tbl = append(tbl, seller...)
				if r.Intn(2) == 0 && len(tbl) > 0 {
					x := tbl[r.Intn(len(tbl))]
					if r.Intn(2) == 0 {
						pd = x.pd
					}
					p.Mul(x.rp, big.NewInt(r.Int63n(100000)))
					p.Add(p, big.NewInt(int64(r.Intn(3)-1)))
					if p.Sign() < 0 {
						p.SetInt64(0)
					}
				}
				price := sdk.Coin{Denom: denoms[pd], Amount: sdkmath.NewIntFromBigInt(p)}
				// bid
				var bresp *exchange.QueryOrderFeeCalcResponse
				berr := try(func() error {
					var e error
					bresp, e = qs.OrderFeeCalc(ctx, &exchange.QueryOrderFeeCalcRequest{BidOrder: &exchange.BidOrder{MarketId: marketID,
						Buyer: addrN(1).String(), Assets: sdk.NewInt64Coin("thing", 1), Price: price}})
					return e
				})
				bobs := "None"
				if berr == nil {
					var it []string
					for _, c := range bresp.SettlementRatioFeeOptions {
						id := -1
						for k, d := range denoms {
							if d == c.Denom {
								id = k
							}
						}
						if id < 0 {
							id = 999
						}
						it = append(it, fmt.Sprintf("(%d%%N, %s)", id, zInt(c.Amount)))
					}
					bobs = "(Some " + coqList(it) + ")"
				}
				term := fmt.Sprintf("CBuyerOpts %s %d%%N %s %s", coqRatios(buyer), pd, zBig(p), bobs)
				w.Add(term, desc{"fn": "OrderFeeCalc (bid)", "buyer_ratios": fmt.Sprint(toRatios(buyer)), "price": price.String(), "ok": berr == nil})
				w.Count("order_fee_calc_bid")
				if berr != nil {
					w.Count("order_fee_calc_bid_failed")
				} else if len(bresp.SettlementRatioFeeOptions) > 0 {
					w.Nontrivial("bo/" + term)
					if len(bresp.SettlementRatioFeeOptions) > 1 {
						w.Count("order_fee_calc_bid_several_options")
					}
				}
				// ask
				if len(seller) > 0 && r.Intn(3) != 0 {
					pd = seller[r.Intn(len(seller))].pd
					price = sdk.Coin{Denom: denoms[pd], Amount: price.Amount}
				}
				var aresp *exchange.QueryOrderFeeCalcResponse
				aerr := try(func() error {
					var e error
					aresp, e = qs.OrderFeeCalc(ctx, &exchange.QueryOrderFeeCalcRequest{AskOrder: &exchange.AskOrder{MarketId: marketID,
						Seller: addrN(1).String(), Assets: sdk.NewInt64Coin("thing", 1), Price: price}})
					return e
				})
				aobs := "None"
				if aerr == nil {
					switch len(aresp.SettlementRatioFeeOptions) {
					case 0:
						aobs = "(Some None)"
					case 1:
						c := aresp.SettlementRatioFeeOptions[0]
						if c.Denom != price.Denom {
							aobs = "(Some (Some (-1)))"
						} else {
							aobs = "(Some (Some " + zInt(c.Amount) + "))"
						}
					default:
						aobs = "(Some (Some (-2)))"
					}
				}
				term = fmt.Sprintf("CSellerFee %s %d%%N %s %s", coqRatios(seller), pd, zBig(p), aobs)
				w.Add(term, desc{"fn": "OrderFeeCalc (ask)", "seller_ratios": fmt.Sprint(toRatios(seller)), "price": price.String(), "ok": aerr == nil})
				w.Count("order_fee_calc_ask")
				if aerr != nil {
					w.Count("order_fee_calc_ask_failed")
				} else if len(aresp.SettlementRatioFeeOptions) > 0 {
					w.Nontrivial("ao/" + term)
				}
			}
		}
	}

	// --- the fee meter of one transaction: message fees of several message types, some naming the
	// same recipient, consumed the way the message router does and paid out by DeductFeesDistributions ---
	{
		msgs := []sdk.Msg{&banktypes.MsgSend{}, &banktypes.MsgMultiSend{}, &nametypes.MsgBindNameRequest{}, &attributetypes.MsgAddAttributeRequest{}}
		nm := scale(150, 5000)
		for i := 0; i < nm; i++ {
			ctx, _ := baseCtx.CacheContext()
			nrec := 1 + r.Intn(3)
			recs := make([]sdk.AccAddress, nrec)
			for j := range recs {
				recs[j] = addrN(60 + j)
			}
			type tf struct {
				amt  *big.Int
				bips uint32
				rid  int
			}
			fees := make([]*tf, len(msgs))
			for k, m := range msgs {
				if r.Intn(5) == 0 {
					continue
				}
				amt := randAmount(r, pool)
				if amt.BitLen() > 230 {
					amt.Rsh(amt, uint(amt.BitLen()-230))
				}
				if r.Intn(10) == 0 {
					amt.SetInt64(0)
				}
				bips := uint32(r.Intn(10001))
				if r.Intn(4) == 0 {
					bips = []uint32{0, 1, 5000, 9999, 10000}[r.Intn(5)]
				}
				rid := -1
				recip := ""
				if r.Intn(5) != 0 {
					rid = r.Intn(nrec)
					if r.Intn(2) == 0 {
						rid = 0 // several message types paying one recipient
					}
					recip = recs[rid].String()
				}
				fees[k] = &tf{amt, bips, rid}
				if amt.Sign() > 0 {
					if err := app.MsgFeesKeeper.SetMsgFee(ctx, msgfeestypes.NewMsgFee(sdk.MsgTypeURL(m), sdk.Coin{Denom: "feecoin", Amount: sdkmath.NewIntFromBigInt(amt)}, recip, bips)); err != nil {
						t.Fatalf("SetMsgFee: %v", err)
					}
				}
			}
			meter := antewrapper.NewFeeGasMeterWrapper(log.NewNopLogger(), storetypes.NewGasMeter(1<<40), false).(*antewrapper.FeeGasMeter)
			ntx := 1 + r.Intn(6)
			var ops []string
			var opsDesc []map[string]any
			for k := 0; k < ntx; k++ {
				ty := r.Intn(len(msgs))
				feeDist, err := app.MsgFeesKeeper.CalculateAdditionalFeesToBePaid(ctx, msgs[ty])
				if err != nil {
					t.Fatalf("CalculateAdditionalFeesToBePaid: %v", err)
				}
				// as internal/handlers/msg_service_router.go does after its sufficiency check
				if !feeDist.TotalAdditionalFees.IsZero() {
					url := sdk.MsgTypeURL(msgs[ty])
					if feeDist.AdditionalModuleFees != nil {
						meter.ConsumeFee(feeDist.AdditionalModuleFees, url, "")
					}
					var keys []string
					for rk := range feeDist.RecipientDistributions {
						keys = append(keys, rk)
					}
					sort.Strings(keys)
					for _, rk := range keys {
						meter.ConsumeFee(feeDist.RecipientDistributions[rk], url, rk)
					}
				}
				f := fees[ty]
				if f == nil {
					f = &tf{big.NewInt(0), 0, -1}
				}
				ro := "None"
				if f.rid >= 0 {
					ro = fmt.Sprintf("(Some %d%%N)", f.rid)
				}
				ops = append(ops, fmt.Sprintf("(%d%%N, %s, %s, %s)", ty, zBig(f.amt), zI64(int64(f.bips)), ro))
				opsDesc = append(opsDesc, map[string]any{"msg_type": sdk.MsgTypeURL(msgs[ty]), "fee": f.amt.String(), "bips": f.bips, "recipient": f.rid})
			}
			total := meter.FeeConsumed()
			payer := addrN(70)
			ensureAccount(app, ctx, payer)
			if !total.IsZero() {
				fund(t, app, ctx, payer, total)
			}
			collector := app.AccountKeeper.GetModuleAddress(authtypes.FeeCollectorName)
			before := make([]sdkmath.Int, nrec)
			for j := range recs {
				before[j] = app.BankKeeper.GetBalance(ctx, recs[j], "feecoin").Amount
			}
			cBefore := app.BankKeeper.GetBalance(ctx, collector, "feecoin").Amount
			derr := try(func() error {
				return app.MsgFeesKeeper.DeductFeesDistributions(app.BankKeeper, ctx, app.AccountKeeper.GetAccount(ctx, payer), total, meter.FeeConsumedDistributions())
			})
			if derr != nil {
				t.Fatalf("DeductFeesDistributions: %v", derr)
			}
			var recAmts []string
			for j := range recs {
				recAmts = append(recAmts, zInt(app.BankKeeper.GetBalance(ctx, recs[j], "feecoin").Amount.Sub(before[j])))
			}
			cDelta := app.BankKeeper.GetBalance(ctx, collector, "feecoin").Amount.Sub(cBefore)
			term := "CMeter " + coqList(ops) + " " + fmt.Sprintf("%d%%N", nrec) + " (" + zInt(total.AmountOf("feecoin")) + ", " + zInt(cDelta) + ", " + coqList(recAmts) + ")"
			w.Add(term, desc{"fn": "FeeGasMeter.ConsumeFee / FeeConsumedDistributions / DeductFeesDistributions", "messages": opsDesc})
			w.Count("tx_fee_meter_transactions")
			same := map[int]map[int]bool{}
			for k, f := range fees {
				if f != nil && f.rid >= 0 && f.amt.Sign() > 0 {
					if same[f.rid] == nil {
						same[f.rid] = map[int]bool{}
					}
					same[f.rid][k] = true
				}
			}
			for _, m := range same {
				if len(m) > 1 {
					w.Count("tx_fee_meter_recipient_named_by_several_message_types")
					break
				}
			}
			w.Nontrivial("m/" + term)
		}
	}
	// --- Keeper.CalculateExchangeSplit on fees in several denoms with per-denom splits ---
	{
		sdenoms := []string{"Splitcoin", "splitcoi", "splitcoin", "splitcoin.x", "splitcoinx"} // byte order
		ns := scale(200, 6000)
		for i := 0; i < ns; i++ {
			ctx, _ := baseCtx.CacheContext()
			dflt := uint32([]int{0, 1, 77, 500, 5000, 10000}[r.Intn(6)])
			var ds []exchange.DenomSplit
			var tbl []string
			for k, d := range sdenoms {
				if r.Intn(2) == 0 {
					sp := uint32(r.Intn(10001))
					if r.Intn(3) == 0 {
						sp = []uint32{0, 1, 9999, 10000, 500}[r.Intn(5)]
					}
					ds = append(ds, exchange.DenomSplit{Denom: d, Split: sp})
					tbl = append(tbl, fmt.Sprintf("(%d%%N, %d)", k, sp))
				}
			}
			app.ExchangeKeeper.SetParams(ctx, &exchange.Params{DefaultSplit: dflt, DenomSplits: ds})
			var fee sdk.Coins
			var coins []string
			for k, d := range sdenoms {
				if r.Intn(3) == 0 {
					continue
				}
				amt := randAmount(r, pool)
				if amt.BitLen() > 230 {
					amt.Rsh(amt, uint(amt.BitLen()-230))
				}
				if r.Intn(4) == 0 {
					amt.Mul(big.NewInt(r.Int63n(1000000)), big.NewInt(10000))
					amt.Add(amt, big.NewInt(int64(r.Intn(3)-1)))
					if amt.Sign() < 0 {
						amt.SetInt64(0)
					}
				}
				if amt.Sign() == 0 && r.Intn(2) == 0 {
					continue // a zero coin inside Coins is only reachable with a hand-built list; keep some
				}
				fee = append(fee, sdk.Coin{Denom: d, Amount: sdkmath.NewIntFromBigInt(amt)})
				coins = append(coins, fmt.Sprintf("(%d%%N, %s)", k, zBig(amt)))
			}
			var res sdk.Coins
			err := try(func() error { res = app.ExchangeKeeper.CalculateExchangeSplit(ctx, fee); return nil })
			obs := "None"
			if err == nil {
				var it []string
				for _, c := range res {
					id := 999
					for k, d := range sdenoms {
						if d == c.Denom {
							id = k
						}
					}
					it = append(it, fmt.Sprintf("(%d%%N, %s)", id, zInt(c.Amount)))
				}
				obs = "(Some " + coqList(it) + ")"
			}
			term := fmt.Sprintf("CExSplitCoins %d %s %s %s", dflt, coqList(tbl), coqList(coins), obs)
			w.Add(term, desc{"fn": "CalculateExchangeSplit (several denoms)", "default_split": dflt, "denom_splits": fmt.Sprint(ds), "fee": fee.String(), "ok": err == nil})
			w.Count("exchange_split_multi_denom")
			if err == nil && len(res) > 1 {
				w.Nontrivial("xs/" + term)
			}
		}
	}
	w.Flush(t)
}
