//go:build c19

package harness

import (
	"fmt"
	"math/big"
	"testing"

	sdkmath "cosmossdk.io/math"
	sdk "github.com/cosmos/cosmos-sdk/types"
	authtypes "github.com/cosmos/cosmos-sdk/x/auth/types"

	"github.com/provenance-io/provenance/internal/pioconfig"
	"github.com/provenance-io/provenance/x/exchange"
	markertypes "github.com/provenance-io/provenance/x/marker/types"
	msgfeestypes "github.com/provenance-io/provenance/x/msgfees/types"
)

// intOK reports whether the value can be an sdkmath.Int at all (|x| < 2^256).
func intOK(x *big.Int) bool { return x.BitLen() <= 256 }

func TestC19(t *testing.T) {
	r := newRand("C19")
	pool := boundaryAmounts()
	w := NewCaseWriter("C19", "PV.Corr.C19", "check_all", 1000)
	app, baseCtx := newApp(t)
	feeDenom := pioconfig.GetProvenanceConfig().FeeDenom

	type desc map[string]any
	n := scale(400, 20000)

	// --- QuoIntRoundUp, all sign combinations ---
	for i := 0; i < n; i++ {
		a := randAmount(r, pool)
		b := randAmount(r, pool)
		switch r.Intn(8) {
		case 0:
			a.Neg(a)
		case 1:
			b.Neg(b)
		case 2:
			a.Neg(a)
			b.Neg(b)
		case 3: // exact multiple
			a.Mul(b, big.NewInt(r.Int63n(1000)))
		case 4: // off by one from a multiple
			a.Mul(b, big.NewInt(r.Int63n(1000)))
			a.Add(a, big.NewInt(int64(r.Intn(3)-1)))
		}
		if !intOK(a) || !intOK(b) {
			continue
		}
		var res sdkmath.Int
		err := try(func() error {
			res = exchange.QuoIntRoundUp(sdkmath.NewIntFromBigInt(a), sdkmath.NewIntFromBigInt(b))
			return nil
		})
		obs := coqOpt(err == nil, func() string {
			if err == nil {
				return zInt(res)
			}
			return ""
		}())
		w.Add("CQuoUp "+zBig(a)+" "+zBig(b)+" "+obs, desc{"fn": "QuoIntRoundUp", "a": a.String(), "b": b.String(), "ok": err == nil})
		w.Count("quo_round_up")
		if err == nil && b.Sign() != 0 && new(big.Int).Rem(a, b).Sign() != 0 {
			w.Nontrivial("q/" + a.String() + "/" + b.String())
		}
		if err != nil {
			w.Count("quo_round_up_failed")
		}
	}

	// --- FeeRatio.ApplyToLoosely / ApplyTo ---
	for i := 0; i < n; i++ {
		rp := randAmount(r, pool)
		rf := randAmount(r, pool)
		p := randAmount(r, pool)
		switch r.Intn(6) {
		case 0: // price an exact multiple of the ratio price
			p.Mul(rp, big.NewInt(r.Int63n(100000)))
		case 1:
			p.Mul(rp, big.NewInt(r.Int63n(100000)))
			p.Add(p, big.NewInt(int64(r.Intn(3)-1)))
			if p.Sign() < 0 {
				p.SetInt64(0)
			}
		case 2:
			rp.SetInt64(0) // division by zero error path
		}
		if !intOK(rp) || !intOK(rf) || !intOK(p) {
			continue
		}
		ratio := exchange.FeeRatio{Price: sdk.Coin{Denom: "price", Amount: sdkmath.NewIntFromBigInt(rp)}, Fee: sdk.Coin{Denom: "fee", Amount: sdkmath.NewIntFromBigInt(rf)}}
		price := sdk.Coin{Denom: "price", Amount: sdkmath.NewIntFromBigInt(p)}
		big256 := new(big.Int).Mul(p, rf).BitLen() > 64
		for _, loose := range []bool{true, false} {
			var res sdk.Coin
			err := try(func() error {
				var e error
				if loose {
					res, e = ratio.ApplyToLoosely(price)
				} else {
					res, e = ratio.ApplyTo(price)
				}
				return e
			})
			v := ""
			if err == nil {
				v = zInt(res.Amount)
			}
			name := "CApplyTo"
			if loose {
				name = "CApplyLoosely"
			}
			w.Add(name+" "+zBig(rp)+" "+zBig(rf)+" "+zBig(p)+" "+coqOpt(err == nil, v),
				desc{"fn": name, "ratio_price": rp.String(), "ratio_fee": rf.String(), "price": p.String(), "ok": err == nil})
			w.Count(name)
			if err == nil && rp.Sign() != 0 && new(big.Int).Rem(new(big.Int).Mul(p, rf), rp).Sign() != 0 {
				w.Nontrivial(name + "/" + rp.String() + "/" + rf.String() + "/" + p.String())
			}
			if err != nil {
				w.Count(name + "_failed")
			}
			if big256 {
				w.Count("product_above_2^64")
			}
		}
	}

	// --- Keeper.CalculateExchangeSplit through the real params store ---
	{
		splits := []uint32{0, 1, 2, 3, 499, 500, 501, 3333, 5000, 9999, 10000}
		for i := 0; i < n; i++ {
			amt := randAmount(r, pool)
			var split uint32
			if r.Intn(3) == 0 {
				split = uint32(r.Intn(10001))
			} else {
				split = splits[r.Intn(len(splits))]
			}
			switch r.Intn(4) {
			case 0: // a multiple of 10000/gcd neighbourhood
				amt.Mul(big.NewInt(r.Int63n(1000000)), big.NewInt(10000))
				amt.Add(amt, big.NewInt(int64(r.Intn(3)-1)))
				if amt.Sign() < 0 {
					amt.SetInt64(0)
				}
			}
			if !intOK(amt) {
				continue
			}
			ctx, _ := baseCtx.CacheContext()
			app.ExchangeKeeper.SetParams(ctx, &exchange.Params{DefaultSplit: 77, DenomSplits: []exchange.DenomSplit{{Denom: "splitcoin", Split: split}}})
			var res sdk.Coins
			err := try(func() error {
				res = app.ExchangeKeeper.CalculateExchangeSplit(ctx, sdk.Coins{sdk.Coin{Denom: "splitcoin", Amount: sdkmath.NewIntFromBigInt(amt)}})
				return nil
			})
			v := ""
			if err == nil {
				v = zInt(res.AmountOf("splitcoin"))
			}
			w.Add("CExSplit "+zBig(amt)+" "+zI64(int64(split))+" "+coqOpt(err == nil, v),
				desc{"fn": "CalculateExchangeSplit", "amount": amt.String(), "split": split, "ok": err == nil})
			w.Count("exchange_split")
			if err == nil && split > 0 && amt.Sign() > 0 {
				w.Nontrivial("x/" + amt.String() + "/" + fmt.Sprint(split))
			}
			if err != nil {
				w.Count("exchange_split_failed")
			}
		}
	}

	// --- msgfees SplitCoinByBips ---
	for i := 0; i < n; i++ {
		amt := randAmount(r, pool)
		var bips uint32
		switch r.Intn(4) {
		case 0:
			bips = uint32(r.Intn(10001))
		case 1:
			bips = []uint32{0, 1, 9999, 10000, 10001, 20000, 5000, 2500, 3333}[r.Intn(9)]
		default:
			bips = uint32(r.Intn(12000))
		}
		if r.Intn(3) == 0 {
			amt.Mul(big.NewInt(r.Int63n(1000000)), big.NewInt(10000))
			amt.Add(amt, big.NewInt(int64(r.Intn(3)-1)))
			if amt.Sign() < 0 {
				amt.SetInt64(0)
			}
		}
		if !intOK(amt) {
			continue
		}
		var rc, pc sdk.Coin
		err := try(func() error {
			var e error
			rc, pc, e = msgfeestypes.SplitCoinByBips(sdk.Coin{Denom: "feecoin", Amount: sdkmath.NewIntFromBigInt(amt)}, bips)
			return e
		})
		v := ""
		if err == nil {
			v = "(" + zInt(rc.Amount) + ", " + zInt(pc.Amount) + ")"
		}
		w.Add("CBips "+zBig(amt)+" "+zI64(int64(bips))+" "+coqOpt(err == nil, v),
			desc{"fn": "SplitCoinByBips", "amount": amt.String(), "bips": bips, "ok": err == nil})
		w.Count("split_by_bips")
		if err == nil && bips > 0 && bips < 10000 && amt.Sign() > 0 {
			w.Nontrivial("b/" + amt.String() + "/" + fmt.Sprint(bips))
		}
		if err != nil {
			w.Count("split_by_bips_failed")
		}
		if amt.BitLen() > 63 {
			w.Count("split_by_bips_amount_above_2^63")
		}
	}

	// --- CalculateCommitmentSettlementFee through the real keeper ---
	{
		marketID, err := app.ExchangeKeeper.CreateMarket(baseCtx, exchange.Market{
			MarketDetails:            exchange.MarketDetails{Name: "c19"},
			FeeCreateCommitmentFlat:  []sdk.Coin{sdk.NewInt64Coin(feeDenom, 1)},
			CommitmentSettlementBips: 50,
			IntermediaryDenom:        "interm",
		})
		if err != nil {
			t.Fatalf("create market: %v", err)
		}
		otherDenoms := []string{"otheraa", "otherbb", "othercc"}
		nc := scale(300, 10000)
		for i := 0; i < nc; i++ {
			ctx, _ := baseCtx.CacheContext()
			bips := uint32(r.Intn(10001))
			if r.Intn(3) == 0 {
				bips = []uint32{1, 50, 9999, 10000, 2, 3}[r.Intn(6)]
			}
			sameDenom := r.Intn(5) == 0
			interm := "interm"
			if sameDenom {
				interm = feeDenom
			}
			app.ExchangeKeeper.UpdateFees(ctx, &exchange.MsgGovManageFeesRequest{MarketId: marketID, SetFeeCommitmentSettlementBips: bips})
			app.ExchangeKeeper.UpdateIntermediaryDenom(ctx, marketID, interm, "")
			small := func() *big.Int {
				a := randAmount(r, pool)
				if a.BitLen() > 100 {
					a.Rsh(a, uint(a.BitLen()-100+r.Intn(60)))
				}
				if a.Sign() == 0 {
					a.SetInt64(1)
				}
				return a
			}
			var inputs sdk.Coins
			var navs []exchange.NetAssetPrice
			feeAmt, convAmt := big.NewInt(0), big.NewInt(0)
			if r.Intn(3) != 0 {
				feeAmt = small()
				inputs = inputs.Add(sdk.NewCoin(feeDenom, sdkmath.NewIntFromBigInt(feeAmt)))
			}
			if !sameDenom && r.Intn(3) != 0 {
				convAmt = small()
				inputs = inputs.Add(sdk.NewCoin(interm, sdkmath.NewIntFromBigInt(convAmt)))
			}
			var others []string
			var othersDesc []map[string]string
			for _, od := range otherDenoms {
				if r.Intn(2) == 0 {
					continue
				}
				a, np, na := small(), small(), small()
				switch r.Intn(4) {
				case 0: // exact conversion
					a.Mul(na, big.NewInt(r.Int63n(1000)+1))
				case 1: // repeating decimal
					na.SetInt64([]int64{3, 7, 9, 11, 13, 17}[r.Intn(6)])
				}
				inputs = inputs.Add(sdk.NewCoin(od, sdkmath.NewIntFromBigInt(a)))
				navs = append(navs, exchange.NetAssetPrice{Assets: sdk.NewCoin(od, sdkmath.NewIntFromBigInt(na)), Price: sdk.NewCoin(interm, sdkmath.NewIntFromBigInt(np))})
				others = append(others, "("+zBig(a)+", "+zBig(np)+", "+zBig(na)+")")
				othersDesc = append(othersDesc, map[string]string{"denom": od, "amount": a.String(), "nav_price": np.String(), "nav_assets": na.String()})
			}
			if len(inputs) == 0 {
				continue
			}
			tfp, tfa := big.NewInt(1), big.NewInt(1)
			if !sameDenom {
				tfp, tfa = small(), small()
				navs = append(navs, exchange.NetAssetPrice{Assets: sdk.NewCoin(interm, sdkmath.NewIntFromBigInt(tfa)), Price: sdk.NewCoin(feeDenom, sdkmath.NewIntFromBigInt(tfp))})
			}
			aa := []exchange.AccountAmount{{Account: addrN(1).String(), Amount: inputs}}
			req := &exchange.MsgMarketCommitmentSettleRequest{Admin: addrN(2).String(), MarketId: marketID, Inputs: aa, Outputs: aa, Navs: navs}
			var resp *exchange.QueryCommitmentSettlementFeeCalcResponse
			err := try(func() error {
				var e error
				resp, e = app.ExchangeKeeper.CalculateCommitmentSettlementFee(ctx, req)
				return e
			})
			v := ""
			if err == nil {
				conv := resp.ConvertedTotal.AmountOf(interm)
				if sameDenom {
					// the converted amount was merged into the fee-denom coin of the total
					conv = conv.Sub(sdkmath.NewIntFromBigInt(feeAmt))
				}
				v = "(" + zInt(conv) + ", " + zInt(sdk.Coins(resp.ExchangeFees).AmountOf(feeDenom)) + ")"
			}
			term := "CCommit {| ci_fee := " + zBig(feeAmt) + "; ci_conv := " + zBig(convAmt) + "; ci_others := " + coqList(others) +
				"; ci_tfp := " + zBig(tfp) + "; ci_tfa := " + zBig(tfa) + "; ci_bips := " + zI64(int64(bips)) + " |} " + coqOpt(err == nil, v)
			w.Add(term, desc{"fn": "CalculateCommitmentSettlementFee", "fee_denom_amount": feeAmt.String(), "intermediary_amount": convAmt.String(),
				"others": othersDesc, "to_fee_nav_price": tfp.String(), "to_fee_nav_assets": tfa.String(), "bips": bips, "same_denom": sameDenom, "ok": err == nil})
			w.Count("commitment_fee")
			if err == nil && len(others) > 0 {
				w.Nontrivial("c/" + term)
			}
			if err != nil {
				w.Count("commitment_fee_failed")
			}
		}
	}
	// --- commitment settlement charge with NAVs read from the marker module's store ---
	// (the request provides no NAV for the denom, so lookupNav falls back to Keeper.GetNav, which
	// rebuilds the assets amount from the stored uint64 volume)
	{
		marketID, err := app.ExchangeKeeper.CreateMarket(baseCtx, exchange.Market{
			MarketDetails:            exchange.MarketDetails{Name: "c19stored"},
			FeeCreateCommitmentFlat:  []sdk.Coin{sdk.NewInt64Coin(feeDenom, 1)},
			CommitmentSettlementBips: 50,
			IntermediaryDenom:        "interm",
		})
		if err != nil {
			t.Fatalf("create market: %v", err)
		}
		mgr := addrN(31)
		ensureAccount(app, baseCtx, mgr)
		vols := []uint64{1, 2, 3, 7, 1000, 1 << 31, 1<<63 - 1, 1 << 63, 1<<63 + 1, 1<<64 - 1, 0}
		ns := scale(120, 3000)
		for i := 0; i < ns; i++ {
			ctx, _ := baseCtx.CacheContext()
			denom := fmt.Sprintf("navcoin%d", i%7)
			maddr := markertypes.MustGetMarkerAddress(denom)
			ma := markertypes.NewMarkerAccount(authtypes.NewBaseAccountWithAddress(maddr), sdk.NewInt64Coin(denom, 1000), mgr,
				[]markertypes.AccessGrant{*markertypes.NewAccessGrant(mgr, markertypes.AccessList{markertypes.Access_Admin, markertypes.Access_Mint})},
				markertypes.StatusProposed, markertypes.MarkerType_Coin, true, true, false, nil)
			if err := app.MarkerKeeper.AddFinalizeAndActivateMarker(ctx, ma); err != nil {
				t.Fatalf("marker: %v", err)
			}
			vol := vols[r.Intn(len(vols))]
			np := randAmount(r, pool)
			if np.BitLen() > 100 {
				np.Rsh(np, uint(np.BitLen()-100))
			}
			if vol == 0 {
				np.SetInt64(0) // the marker module only accepts volume 0 together with price 0
			} else if np.Sign() == 0 {
				np.SetInt64(1)
			}
			m, err := app.MarkerKeeper.GetMarker(ctx, maddr)
			if err != nil || m == nil {
				t.Fatalf("get marker: %v", err)
			}
			if err := app.MarkerKeeper.SetNetAssetValue(ctx, m, markertypes.NewNetAssetValue(sdk.NewCoin("interm", sdkmath.NewIntFromBigInt(np)), vol), "c19"); err != nil {
				t.Fatalf("set nav (%s, %d): %v", np, vol, err)
			}
			bips := uint32(1 + r.Intn(10000))
			app.ExchangeKeeper.UpdateFees(ctx, &exchange.MsgGovManageFeesRequest{MarketId: marketID, SetFeeCommitmentSettlementBips: bips})
			amt := randAmount(r, pool)
			if amt.BitLen() > 100 {
				amt.Rsh(amt, uint(amt.BitLen()-100))
			}
			if amt.Sign() == 0 {
				amt.SetInt64(1)
			}
			tfp, tfa := big.NewInt(int64(1+r.Intn(50))), big.NewInt(int64(1+r.Intn(50)))
			inputs := sdk.NewCoins(sdk.NewCoin(denom, sdkmath.NewIntFromBigInt(amt)))
			navs := []exchange.NetAssetPrice{{Assets: sdk.NewCoin("interm", sdkmath.NewIntFromBigInt(tfa)), Price: sdk.NewCoin(feeDenom, sdkmath.NewIntFromBigInt(tfp))}}
			aa := []exchange.AccountAmount{{Account: addrN(1).String(), Amount: inputs}}
			req := &exchange.MsgMarketCommitmentSettleRequest{Admin: addrN(2).String(), MarketId: marketID, Inputs: aa, Outputs: aa, Navs: navs}
			var resp *exchange.QueryCommitmentSettlementFeeCalcResponse
			err = try(func() error {
				var e error
				resp, e = app.ExchangeKeeper.CalculateCommitmentSettlementFee(ctx, req)
				return e
			})
			v := ""
			if err == nil {
				v = "(" + zInt(resp.ConvertedTotal.AmountOf("interm")) + ", " + zInt(sdk.Coins(resp.ExchangeFees).AmountOf(feeDenom)) + ")"
			}
			volZ := new(big.Int).SetUint64(vol)
			term := "CCommit {| ci_fee := 0; ci_conv := 0; ci_others := [(" + zBig(amt) + ", " + zBig(np) + ", " + zBig(volZ) + ")]" +
				"; ci_tfp := " + zBig(tfp) + "; ci_tfa := " + zBig(tfa) + "; ci_bips := " + zI64(int64(bips)) + " |} " + coqOpt(err == nil, v)
			w.Add(term, desc{"fn": "CalculateCommitmentSettlementFee (NAV read from the marker store)", "amount": amt.String(), "stored_nav_price": np.String(),
				"stored_nav_volume": volZ.String(), "to_fee_nav_price": tfp.String(), "to_fee_nav_assets": tfa.String(), "bips": bips, "ok": err == nil, "error": fmt.Sprint(err)})
			w.Count("commitment_fee_stored_nav")
			if vol >= 1<<63 {
				w.Count("commitment_fee_stored_nav_volume_ge_2^63")
			}
			if err != nil {
				w.Count("commitment_fee_stored_nav_failed")
			} else {
				w.Nontrivial("cs/" + term)
			}
		}
	}
	// --- MsgFeesDistribution.Increase over the messages of one transaction ---
	{
		nd := scale(150, 5000)
		for i := 0; i < nd; i++ {
			nrec := 1 + r.Intn(3)
			recs := make([]string, nrec)
			for j := range recs {
				recs[j] = addrN(40 + j).String()
			}
			dist := msgfeestypes.MsgFeesDistribution{RecipientDistributions: map[string]sdk.Coins{}}
			nops := 1 + r.Intn(6)
			var ops []string
			var opsDesc []map[string]any
			for k := 0; k < nops; k++ {
				amt := randAmount(r, pool)
				if r.Intn(8) == 0 {
					amt.SetInt64(0)
				}
				if amt.BitLen() > 250 {
					amt.Rsh(amt, 10)
				}
				bips := uint32(r.Intn(10001))
				if r.Intn(4) == 0 {
					bips = []uint32{0, 1, 5000, 9999, 10000}[r.Intn(5)]
				}
				rid := -1
				recip := ""
				if r.Intn(4) != 0 {
					rid = r.Intn(nrec)
					recip = recs[rid]
				}
				err := try(func() error {
					return dist.Increase(sdk.Coin{Denom: "feecoin", Amount: sdkmath.NewIntFromBigInt(amt)}, bips, recip)
				})
				if err != nil {
					t.Fatalf("Increase(%s, %d): %v", amt, bips, err)
				}
				ro := "None"
				if rid >= 0 {
					ro = fmt.Sprintf("(Some %d%%N)", rid)
				}
				ops = append(ops, "("+zBig(amt)+", "+zI64(int64(bips))+", "+ro+")")
				opsDesc = append(opsDesc, map[string]any{"amount": amt.String(), "bips": bips, "recipient": rid})
			}
			var recAmts []string
			for j := range recs {
				recAmts = append(recAmts, zInt(dist.RecipientDistributions[recs[j]].AmountOf("feecoin")))
			}
			term := "CDist " + coqList(ops) + " " + fmt.Sprintf("%d%%N", nrec) + " (" + zInt(dist.TotalAdditionalFees.AmountOf("feecoin")) + ", " +
				zInt(dist.AdditionalModuleFees.AmountOf("feecoin")) + ", " + coqList(recAmts) + ")"
			w.Add(term, desc{"fn": "MsgFeesDistribution.Increase", "ops": opsDesc})
			w.Count("fee_distribution_sequences")
			w.Nontrivial("d/" + term)
		}
	}
	w.Flush(t)
}
