//go:build c11

package harness

import (
	"fmt"

	circuittypes "cosmossdk.io/x/circuit/types"
	codectypes "github.com/cosmos/cosmos-sdk/codec/types"
	sdk "github.com/cosmos/cosmos-sdk/types"
	authtypes "github.com/cosmos/cosmos-sdk/x/auth/types"
	banktypes "github.com/cosmos/cosmos-sdk/x/bank/types"

	attributetypes "github.com/provenance-io/provenance/x/attribute/types"
	"github.com/provenance-io/provenance/x/exchange"
	ibchookstypes "github.com/provenance-io/provenance/x/ibchooks/types"
	"github.com/provenance-io/provenance/x/ibcratelimit"
	markertypes "github.com/provenance-io/provenance/x/marker/types"
	msgfeestypes "github.com/provenance-io/provenance/x/msgfees/types"
	nametypes "github.com/provenance-io/provenance/x/name/types"
	oracletypes "github.com/provenance-io/provenance/x/oracle/types"
	"github.com/provenance-io/provenance/x/sanction"
	triggertypes "github.com/provenance-io/provenance/x/trigger/types"
)

// c11GovFills prepares the state the governance endpoints of the modules under x/ act on (a
// restricted marker under governance control, a message fee, a bound name, a trigger) and returns,
// per message type URL, a constructor of a request that is valid in that state: the request goes
// through when signed by the authority, so that a rejection of the same request signed by someone
// else is the guard's doing.  Message types without an entry are sent with all other fields zero.
func c11GovFills(e *c11Env, ctx sdk.Context) (map[string]func(signer string) sdk.Msg, map[string]string) {
	admin := addrN(141)
	owner := addrN(142)
	other := addrN(143)
	for _, a := range []sdk.AccAddress{admin, owner, other} {
		ensureAccount(e.app, ctx, a)
		fund(e.t, e.app, ctx, a, e.coins("100000nhash"))
	}
	const denom = "govcoin"
	allAccess := []markertypes.Access{markertypes.Access_Mint, markertypes.Access_Burn, markertypes.Access_Deposit, markertypes.Access_Withdraw,
		markertypes.Access_Delete, markertypes.Access_Admin, markertypes.Access_Transfer}
	ma := markertypes.NewMarkerAccount(authtypes.NewBaseAccountWithAddress(markertypes.MustGetMarkerAddress(denom)),
		sdk.NewInt64Coin(denom, 1000), admin, []markertypes.AccessGrant{{Address: admin.String(), Permissions: allAccess}},
		markertypes.StatusProposed, markertypes.MarkerType_RestrictedCoin, false, true, false, nil)
	if err := try(func() error { return e.app.MarkerKeeper.AddFinalizeAndActivateMarker(ctx, ma) }); err != nil {
		e.t.Logf("gov sweep setup: marker: %v", err)
	}
	if err := e.app.MsgFeesKeeper.SetMsgFee(ctx, msgfeestypes.MsgFee{MsgTypeUrl: "/cosmos.bank.v1beta1.MsgMultiSend", AdditionalFee: sdk.NewInt64Coin("nhash", 5)}); err != nil {
		e.t.Logf("gov sweep setup: msg fee: %v", err)
	}
	if err := e.app.NameKeeper.SetNameRecord(ctx, "c11root", owner, false); err != nil {
		e.t.Logf("gov sweep setup: name: %v", err)
	}
	var triggerID uint64
	if err := try(func() error {
		ev, err := codectypes.NewAnyWithValue(&triggertypes.BlockHeightEvent{BlockHeight: 1_000_000})
		if err != nil {
			return err
		}
		act, err := codectypes.NewAnyWithValue(&banktypes.MsgSend{FromAddress: owner.String(), ToAddress: other.String(), Amount: e.coins("1nhash")})
		if err != nil {
			return err
		}
		tr := e.app.TriggerKeeper.NewTriggerWithID(ctx, owner.String(), ev, []*codectypes.Any{act})
		e.app.TriggerKeeper.RegisterTrigger(ctx, tr)
		e.app.TriggerKeeper.SetGasLimit(ctx, tr.Id, 1000)
		triggerID = tr.Id
		return nil
	}); err != nil {
		e.t.Logf("gov sweep setup: trigger: %v", err)
	}

	f := map[string]func(string) sdk.Msg{}
	// exchange
	f["/provenance.exchange.v1.MsgGovCreateMarketRequest"] = func(s string) sdk.Msg {
		return &exchange.MsgGovCreateMarketRequest{Authority: s, Market: exchange.Market{MarketDetails: exchange.MarketDetails{Name: "gov made"}, AcceptingOrders: true,
			AccessGrants: []exchange.AccessGrant{{Address: admin.String(), Permissions: exchange.AllPermissions()}}}}
	}
	f["/provenance.exchange.v1.MsgGovManageFeesRequest"] = func(s string) sdk.Msg {
		return &exchange.MsgGovManageFeesRequest{Authority: s, MarketId: 1, AddFeeCreateAskFlat: []sdk.Coin{sdk.NewInt64Coin("nhash", 3)}}
	}
	f["/provenance.exchange.v1.MsgGovCloseMarketRequest"] = func(s string) sdk.Msg {
		return &exchange.MsgGovCloseMarketRequest{Authority: s, MarketId: 2}
	}
	f["/provenance.exchange.v1.MsgUpdateParamsRequest"] = func(s string) sdk.Msg {
		return &exchange.MsgUpdateParamsRequest{Authority: s, Params: exchange.Params{DefaultSplit: 777}}
	}
	// attribute, ibchooks, ibcratelimit
	f["/provenance.attribute.v1.MsgUpdateParamsRequest"] = func(s string) sdk.Msg {
		return &attributetypes.MsgUpdateParamsRequest{Authority: s, Params: attributetypes.Params{MaxValueLength: 4321}}
	}
	f["/provenance.ibchooks.v1.MsgUpdateParamsRequest"] = func(s string) sdk.Msg {
		return &ibchookstypes.MsgUpdateParamsRequest{Authority: s, Params: ibchookstypes.Params{AllowedAsyncAckContracts: []string{other.String()}}}
	}
	f["/provenance.ibcratelimit.v1.MsgUpdateParamsRequest"] = func(s string) sdk.Msg {
		return &ibcratelimit.MsgUpdateParamsRequest{Authority: s, Params: ibcratelimit.NewParams(other.String())}
	}
	// marker
	f["/provenance.marker.v1.MsgSupplyIncreaseProposalRequest"] = func(s string) sdk.Msg {
		return &markertypes.MsgSupplyIncreaseProposalRequest{Authority: s, Amount: sdk.NewInt64Coin(denom, 10), TargetAddress: other.String()}
	}
	f["/provenance.marker.v1.MsgSupplyDecreaseProposalRequest"] = func(s string) sdk.Msg {
		return &markertypes.MsgSupplyDecreaseProposalRequest{Authority: s, Amount: sdk.NewInt64Coin(denom, 10)}
	}
	f["/provenance.marker.v1.MsgUpdateForcedTransferRequest"] = func(s string) sdk.Msg {
		return &markertypes.MsgUpdateForcedTransferRequest{Authority: s, Denom: denom, AllowForcedTransfer: true}
	}
	f["/provenance.marker.v1.MsgUpdateSendDenyListRequest"] = func(s string) sdk.Msg {
		return &markertypes.MsgUpdateSendDenyListRequest{Authority: s, Denom: denom, AddDeniedAddresses: []string{other.String()}}
	}
	f["/provenance.marker.v1.MsgSetAdministratorProposalRequest"] = func(s string) sdk.Msg {
		return &markertypes.MsgSetAdministratorProposalRequest{Authority: s, Denom: denom,
			Access: []markertypes.AccessGrant{{Address: other.String(), Permissions: []markertypes.Access{markertypes.Access_Transfer}}}}
	}
	f["/provenance.marker.v1.MsgRemoveAdministratorProposalRequest"] = func(s string) sdk.Msg {
		return &markertypes.MsgRemoveAdministratorProposalRequest{Authority: s, Denom: denom, RemovedAddress: []string{admin.String()}}
	}
	f["/provenance.marker.v1.MsgChangeStatusProposalRequest"] = func(s string) sdk.Msg {
		return &markertypes.MsgChangeStatusProposalRequest{Authority: s, Denom: denom, NewStatus: markertypes.StatusCancelled}
	}
	f["/provenance.marker.v1.MsgWithdrawEscrowProposalRequest"] = func(s string) sdk.Msg {
		return &markertypes.MsgWithdrawEscrowProposalRequest{Authority: s, Denom: denom, Amount: sdk.NewCoins(sdk.NewInt64Coin(denom, 5)), TargetAddress: other.String()}
	}
	f["/provenance.marker.v1.MsgSetDenomMetadataProposalRequest"] = func(s string) sdk.Msg {
		return &markertypes.MsgSetDenomMetadataProposalRequest{Authority: s, Metadata: banktypes.Metadata{
			Description: "c11", Base: denom, Display: denom, Name: "Gov Coin", Symbol: "GOVC",
			DenomUnits: []*banktypes.DenomUnit{{Denom: denom, Exponent: 0}}}}
	}
	f["/provenance.marker.v1.MsgUpdateParamsRequest"] = func(s string) sdk.Msg {
		return &markertypes.MsgUpdateParamsRequest{Authority: s, Params: markertypes.NewParams(true, "[a-z]{3,40}", markertypes.StringToBigInt("123456789"))}
	}
	// msgfees
	f["/provenance.msgfees.v1.MsgAddMsgFeeProposalRequest"] = func(s string) sdk.Msg {
		return &msgfeestypes.MsgAddMsgFeeProposalRequest{Authority: s, MsgTypeUrl: "/cosmos.bank.v1beta1.MsgSend", AdditionalFee: sdk.NewInt64Coin("nhash", 7)}
	}
	f["/provenance.msgfees.v1.MsgUpdateMsgFeeProposalRequest"] = func(s string) sdk.Msg {
		return &msgfeestypes.MsgUpdateMsgFeeProposalRequest{Authority: s, MsgTypeUrl: "/cosmos.bank.v1beta1.MsgMultiSend", AdditionalFee: sdk.NewInt64Coin("nhash", 9)}
	}
	f["/provenance.msgfees.v1.MsgRemoveMsgFeeProposalRequest"] = func(s string) sdk.Msg {
		return &msgfeestypes.MsgRemoveMsgFeeProposalRequest{Authority: s, MsgTypeUrl: "/cosmos.bank.v1beta1.MsgMultiSend"}
	}
	f["/provenance.msgfees.v1.MsgUpdateNhashPerUsdMilProposalRequest"] = func(s string) sdk.Msg {
		return &msgfeestypes.MsgUpdateNhashPerUsdMilProposalRequest{Authority: s, NhashPerUsdMil: 1234}
	}
	f["/provenance.msgfees.v1.MsgUpdateConversionFeeDenomProposalRequest"] = func(s string) sdk.Msg {
		return &msgfeestypes.MsgUpdateConversionFeeDenomProposalRequest{Authority: s, ConversionFeeDenom: "nhash"}
	}
	// name
	f["/provenance.name.v1.MsgCreateRootNameRequest"] = func(s string) sdk.Msg {
		return &nametypes.MsgCreateRootNameRequest{Authority: s, Record: &nametypes.NameRecord{Name: "c11newroot", Address: other.String(), Restricted: true}}
	}
	f["/provenance.name.v1.MsgModifyNameRequest"] = func(s string) sdk.Msg {
		return &nametypes.MsgModifyNameRequest{Authority: s, Record: nametypes.NameRecord{Name: "c11root", Address: other.String(), Restricted: true}}
	}
	f["/provenance.name.v1.MsgUpdateParamsRequest"] = func(s string) sdk.Msg {
		return &nametypes.MsgUpdateParamsRequest{Authority: s, Params: nametypes.NewParams(31, 3, 9, true)}
	}
	// oracle
	f["/provenance.oracle.v1.MsgUpdateOracleRequest"] = func(s string) sdk.Msg {
		return &oracletypes.MsgUpdateOracleRequest{Authority: s, Address: other.String()}
	}
	f["/provenance.oracle.v1.MsgSendQueryOracleRequest"] = func(s string) sdk.Msg {
		return &oracletypes.MsgSendQueryOracleRequest{Authority: s, Channel: "channel-0", Query: []byte(`{"q":{}}`)}
	}
	// sanction
	f["/cosmos.sanction.v1beta1.MsgSanction"] = func(s string) sdk.Msg {
		return &sanction.MsgSanction{Authority: s, Addresses: []string{other.String()}}
	}
	f["/cosmos.sanction.v1beta1.MsgUnsanction"] = func(s string) sdk.Msg {
		return &sanction.MsgUnsanction{Authority: s, Addresses: []string{other.String()}}
	}
	f["/cosmos.sanction.v1beta1.MsgUpdateParams"] = func(s string) sdk.Msg {
		return &sanction.MsgUpdateParams{Authority: s, Params: &sanction.Params{ImmediateSanctionMinDeposit: e.coins("11nhash"), ImmediateUnsanctionMinDeposit: e.coins("12nhash")}}
	}
	// trigger (the Authority field is the trigger's owner: the gov authority is a stranger here too)
	f["/provenance.trigger.v1.MsgDestroyTriggerRequest"] = func(s string) sdk.Msg {
		return &triggertypes.MsgDestroyTriggerRequest{Authority: s, Id: triggerID}
	}
	// SDK circuit breaker: "authority" is any account holding circuit permissions (or the gov
	// authority); with an empty URL list the handlers are no-ops, so name a message type
	f["/cosmos.circuit.v1.MsgTripCircuitBreaker"] = func(s string) sdk.Msg {
		return &circuittypes.MsgTripCircuitBreaker{Authority: s, MsgTypeUrls: []string{"/cosmos.bank.v1beta1.MsgSend"}}
	}
	f["/cosmos.circuit.v1.MsgResetCircuitBreaker"] = func(s string) sdk.Msg {
		return &circuittypes.MsgResetCircuitBreaker{Authority: s, MsgTypeUrls: []string{"/cosmos.bank.v1beta1.MsgMultiSend"}}
	}
	if err := try(func() error {
		_, err := e.app.MsgServiceRouter().Handler(&circuittypes.MsgTripCircuitBreaker{})(ctx,
			&circuittypes.MsgTripCircuitBreaker{Authority: e.auth, MsgTypeUrls: []string{"/cosmos.bank.v1beta1.MsgMultiSend"}})
		return err
	}); err != nil {
		e.t.Logf("gov sweep setup: circuit: %v", err)
	}
	_ = fmt.Sprint
	// holders of the documented alternative right on the endpoints that are not governance-only
	alts := map[string]string{
		"/provenance.marker.v1.MsgUpdateSendDenyListRequest": admin.String(), // ACCESS_TRANSFER on the marker
		"/provenance.name.v1.MsgModifyNameRequest":           owner.String(), // the address the name is bound to
		"/provenance.trigger.v1.MsgDestroyTriggerRequest":    owner.String(), // the trigger's owner
	}
	return f, alts
}
