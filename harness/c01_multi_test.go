//go:build c01

package harness

import (
	"crypto/sha256"
	"encoding/binary"
	"fmt"
	"math/big"
	"sort"
	"strings"
	"testing"

	sdkmath "cosmossdk.io/math"
	storetypes "cosmossdk.io/store/types"
	sdk "github.com/cosmos/cosmos-sdk/types"
	authtypes "github.com/cosmos/cosmos-sdk/x/auth/types"
	govtypes "github.com/cosmos/cosmos-sdk/x/gov/types"
	minttypes "github.com/cosmos/cosmos-sdk/x/mint/types"

	simapp "github.com/provenance-io/provenance/app"
	"github.com/provenance-io/provenance/x/exchange"
	markertypes "github.com/provenance-io/provenance/x/marker/types"
)

// Property C01, stateful stream: histories over two or three markets with DIFFERENT fee tables
// (creation fees, seller flat / ratio, buyer flat / ratio in the price denom or another one),
// governance changing the exchange splits between settlements, settlements naming orders of
// another market, sanctioned / quarantined parties, restricted marker coins, blocked recipients,
// poor fillers; every message goes through the real message router.

var c01DefaultDenoms = []string{"aacoin", "bbcoin", "cccoin", "ddcoin", "eecoin"}

// legal denoms (Provenance's regex: [a-zA-Z][a-zA-Z0-9/\-\.]{2,127}) in unusual spellings: upper
// case, '/', '.', '-', pairs that differ only by case, prefixes of one another, an IBC hash, the
// longest legal denom (128 characters)
var c01DenomPool = []string{
	"AAcoin", "Aacoin", "aacoin", "aacoin.x", "aacoin/y", "aacoin-z", "bb-coin", "bb.coin", "bbcoin", "bbcoin2",
	"CCcoin", "cccoin", "dd.coin", "ddcoin", "eecoin", "eecoin-1", "factory/pb1xyz/eecoin",
	"ibc/27394FB092D2ECCD56123C74F36E4C1F926001CEADA9CA97EA622B25F41E5EB2",
	"z" + strings.Repeat("Zz09/.-", 18) + "z",
}

// simple names a marker can be created for
var c01MarkerDenoms = []string{"aacoin", "bbcoin", "cccoin", "ddcoin", "eecoin"}

const (
	c01FeeColID  = 90
	c01MarkerID  = 95
	c01AdminBase = 80  // admin of market k: 80+k
	c01MktBase   = 100 // account of market k: 100+k
)

type c01Market struct {
	k          int // 1-based index in the history
	id         uint32
	addr       sdk.AccAddress
	admin      sdk.AccAddress
	ad, pd     int
	sellerR    []mRatio // pd -> pd
	buyerR     []mRatio // pd -> fd
	sellerFlat []mCoin
	buyerFlat  []mCoin
	createAsk  []mCoin
	createBid  []mCoin
	accepting  bool
	userSettle bool
}

type c01World struct {
	g        *c01Gen
	t        *testing.T
	app      *simapp.App
	ctx      sdk.Context
	in       *c01Intern
	nOwners  int
	owners   []sdk.AccAddress // 1-based
	upper    []bool           // the account spells itself in upper case in its orders
	markets  []*c01Market
	feeCol   sdk.AccAddress
	accts    []sdk.AccAddress
	acctIDs  []int
	maxBits  int
	restr    int // denom id of the restricted marker coin (0: none)
	marker   sdk.AccAddress
	transfer map[int]bool // account id -> Transfer access on the restricted marker
	withdraw map[int]bool
	deposit  map[int]bool
	sanct    map[int]bool
	ids      []uint64
	omarket  map[uint64]int
	steps    []string
	nOps     int
	nOK      int
	flags    map[string]bool
	prev     *c01Obs
	rich     []int // special accounts (market accounts, fee collector, marker account) funded at set-up
}

func (w *c01World) flag(s string) { w.flags[s] = true }

func c01OwnerAddr(i int) sdk.AccAddress {
	base := addrN(10 + i)
	switch i {
	case 2: // 32 bytes, the 20 bytes of owner 1 are a prefix of it
		b := append(append([]byte{}, addrN(11)...), []byte("_thirty2byte")...)
		return sdk.AccAddress(b)
	case 3: // 32 bytes ending in 0xFF
		b := append(append([]byte{}, base...), []byte("0123456789a")...)
		return sdk.AccAddress(append(b, 0xFF))
	case 5: // 32 bytes ending in 0x00
		b := append(append([]byte{}, base...), []byte("0123456789b")...)
		return sdk.AccAddress(append(b, 0x00))
	}
	return base
}

func (w *c01World) ownerStr(i int, upper bool) string {
	var a sdk.AccAddress
	switch {
	case i >= c01MktBase:
		a = w.markets[i-c01MktBase-1].addr
	case i == c01FeeColID:
		a = w.feeCol
	case i == c01MarkerID:
		a = w.marker
	default:
		a = w.owners[i]
	}
	if upper {
		return strings.ToUpper(a.String())
	}
	return a.String()
}

// spelled: how account i spells itself in its own orders
func (w *c01World) spelled(i int) string {
	up := i < len(w.upper) && w.upper[i]
	return w.ownerStr(i, up)
}

func mcoinsTerm(cs []mCoin) string {
	l := append([]mCoin{}, cs...)
	sortCoins(l)
	items := make([]string, len(l))
	for i, c := range l {
		items[i] = fmt.Sprintf("(%d, %s)", c.d, zBig(c.a))
	}
	return coqList(items)
}

func ratiosTerm(rs []mRatio) string {
	items := make([]string, len(rs))
	for i := range rs {
		items[i] = coqRatio(&rs[i])
	}
	return coqList(items)
}

func sdkCoinsOf(cs []mCoin) []sdk.Coin {
	out := make([]sdk.Coin, len(cs))
	for i, c := range cs {
		out[i] = sdkCoin(c)
	}
	return out
}

func feeRatiosOf(rs []mRatio) []exchange.FeeRatio {
	out := make([]exchange.FeeRatio, len(rs))
	for i, r := range rs {
		out[i] = exchange.FeeRatio{Price: sdkCoin(mCoin{r.pd, r.p}), Fee: sdkCoin(mCoin{r.fd, r.f})}
	}
	return out
}

func optCoinTerm(c *mCoin) string {
	if c == nil {
		return "None"
	}
	return fmt.Sprintf("(Some (%d, %s))", c.d, zBig(c.a))
}

func optSdkCoin(c *mCoin) *sdk.Coin {
	if c == nil {
		return nil
	}
	x := sdkCoin(*c)
	return &x
}

func ceilDiv(a, b *big.Int) *big.Int {
	q, m := new(big.Int).QuoRem(a, b, new(big.Int))
	if m.Sign() != 0 {
		q.Add(q, big.NewInt(1))
	}
	return q
}

func (m *c01Market) term() string {
	return fmt.Sprintf("(%d, Mk %d %s %s %s %s %s %s %s %s)", m.id, c01MktBase+m.k, coqBool(m.accepting), coqBool(m.userSettle),
		mcoinsTerm(m.createAsk), mcoinsTerm(m.createBid), mcoinsTerm(m.sellerFlat), ratiosTerm(m.sellerR),
		mcoinsTerm(m.buyerFlat), ratiosTerm(m.buyerR))
}

// sellerRatioFor: the market's seller ratio for a price denom
func (m *c01Market) sellerRatioFor(pd int) *mRatio {
	for i := range m.sellerR {
		if m.sellerR[i].pd == pd {
			return &m.sellerR[i]
		}
	}
	return nil
}

// askFees: the seller settlement flat fee an ask must carry in this market.
func (m *c01Market) askFees(g *c01Gen, assets, price *big.Int, proportional bool) []mCoin {
	r := g.r
	var opt *mCoin
	if len(m.sellerFlat) > 0 {
		opt = &m.sellerFlat[r.Intn(len(m.sellerFlat))]
	} else if r.Intn(2) == 0 {
		opt = &mCoin{1 + r.Intn(len(c01Denoms)), big.NewInt(0)}
	}
	if opt == nil {
		return nil
	}
	if proportional {
		unit := addB(ceilDiv(opt.a, assets), g.small(3))
		return []mCoin{{opt.d, mulB(assets, unit)}}
	}
	return []mCoin{{opt.d, addB(opt.a, g.small(40))}}
}

// bidFees: buyer settlement fees covering one flat option and one ratio option of the market
// (summed when both are in the same denom), sometimes with further coins.
func (m *c01Market) bidFees(g *c01Gen, assets, price *big.Int, proportional bool, pd int) []mCoin {
	r := g.r
	need := map[int]*big.Int{}
	if len(m.buyerFlat) > 0 {
		o := m.buyerFlat[r.Intn(len(m.buyerFlat))]
		need[o.d] = new(big.Int).Set(o.a)
	}
	var opts []mRatio
	for _, br := range m.buyerR {
		if br.pd == pd {
			opts = append(opts, br)
		}
	}
	if len(opts) > 0 {
		br := opts[r.Intn(len(opts))]
		fee := ceilDiv(mulB(price, br.f), br.p)
		if cur, ok := need[br.fd]; ok {
			need[br.fd] = addB(cur, fee)
		} else {
			need[br.fd] = fee
		}
	}
	if r.Intn(3) == 0 {
		d := 1 + r.Intn(len(c01Denoms))
		if _, ok := need[d]; !ok {
			need[d] = big.NewInt(0)
		}
	}
	var out []mCoin
	for d, a := range need {
		var amt *big.Int
		if proportional {
			amt = mulB(assets, addB(ceilDiv(a, assets), g.small(3)))
		} else {
			extra := big.NewInt(0)
			switch r.Intn(4) {
			case 0:
			case 1:
				extra = g.small(3)
			default:
				extra = g.amount(g.feeBits)
			}
			amt = addB(a, extra)
		}
		if amt.Sign() > 0 {
			out = append(out, mCoin{d, amt})
		}
	}
	sortCoins(out)
	return out
}

func (m *c01Market) creationFee(g *c01Gen, ask bool) *mCoin {
	opts := m.createBid
	if ask {
		opts = m.createAsk
	}
	r := g.r
	if len(opts) == 0 {
		if r.Intn(12) == 0 { // a fee nobody asked for is collected all the same
			return &mCoin{1 + r.Intn(len(c01Denoms)), g.small(30)}
		}
		return nil
	}
	if r.Intn(25) == 0 && g.forceOwners == 0 {
		return nil // missing: the creation is refused
	}
	o := opts[r.Intn(len(opts))]
	return &mCoin{o.d, addB(o.a, big.NewInt(int64(r.Intn(3))))}
}

// ---------- observation ----------

func (w *c01World) digest() string {
	h := sha256.New()
	var keys []*storetypes.KVStoreKey
	for _, k := range w.app.GetStoreKeys() {
		if kv, ok := k.(*storetypes.KVStoreKey); ok {
			keys = append(keys, kv)
		}
	}
	sort.Slice(keys, func(i, j int) bool { return keys[i].Name() < keys[j].Name() })
	for _, kv := range keys {
		h.Write([]byte(kv.Name()))
		it := w.ctx.KVStore(kv).Iterator(nil, nil)
		for ; it.Valid(); it.Next() {
			var l [8]byte
			binary.BigEndian.PutUint32(l[:4], uint32(len(it.Key())))
			binary.BigEndian.PutUint32(l[4:], uint32(len(it.Value())))
			h.Write(l[:])
			h.Write(it.Key())
			h.Write(it.Value())
		}
		it.Close()
	}
	sum := h.Sum(nil)
	return fmt.Sprint(binary.BigEndian.Uint64(sum[:8]) >> 2)
}

type c01Obs struct {
	bal, hold, sup []string
	ids            []uint64
	orders         map[uint64]string
}

func (w *c01World) snapshot() *c01Obs {
	o := &c01Obs{orders: map[uint64]string{}}
	for _, a := range w.accts {
		for _, d := range c01Denoms {
			o.bal = append(o.bal, zInt(w.app.BankKeeper.GetBalance(w.ctx, a, d).Amount))
			hc, err := w.app.HoldKeeper.GetHoldCoin(w.ctx, a, d)
			if err != nil {
				w.t.Fatalf("hold: %v", err)
			}
			o.hold = append(o.hold, zInt(hc.Amount))
		}
	}
	for _, d := range c01Denoms {
		o.sup = append(o.sup, zInt(w.app.BankKeeper.GetSupply(w.ctx, d).Amount))
	}
	for _, id := range w.ids {
		ord, err := w.app.ExchangeKeeper.GetOrder(w.ctx, id)
		if err != nil {
			w.t.Fatalf("get order: %v", err)
		}
		if ord != nil {
			o.ids = append(o.ids, id)
			o.orders[id] = coqOrder(w.in, ord)
		}
	}
	return o
}

// observe: the full first observation (SO ...).
func (w *c01World) observe(ok bool, fills string) string {
	o := w.snapshot()
	w.prev = o
	items := make([]string, len(o.ids))
	for i, id := range o.ids {
		items[i] = o.orders[id]
	}
	return fmt.Sprintf("(SO %s %s %s %s %s %s %s)", coqBool(ok), coqList(o.bal), coqList(o.hold), coqList(o.sup),
		coqList(items), fills, w.digest())
}

// observeDelta: the observation as differences to the previous one (DO ...).
func (w *c01World) observeDelta(ok bool, fills string) string {
	o, p := w.snapshot(), w.prev
	diff := func(a, b []string) string {
		var items []string
		for i := range b {
			if a[i] != b[i] {
				items = append(items, fmt.Sprintf("(%d, %s)", i, b[i]))
			}
		}
		return coqList(items)
	}
	var gone, upd []string
	for _, id := range p.ids {
		if _, ok := o.orders[id]; !ok {
			gone = append(gone, fmt.Sprint(id))
		}
	}
	for _, id := range o.ids {
		if o.orders[id] != p.orders[id] {
			upd = append(upd, o.orders[id])
		}
	}
	w.prev = o
	return fmt.Sprintf("(DO %s %s %s %s %s %s %s %s)", coqBool(ok), diff(p.bal, o.bal), diff(p.hold, o.hold), diff(p.sup, o.sup),
		coqList(gone), coqList(upd), fills, w.digest())
}

func (w *c01World) exec(msg sdk.Msg, vb func() error) (*sdk.Result, error) {
	cctx, write := w.ctx.CacheContext()
	var res *sdk.Result
	err := try(func() error {
		if e := vb(); e != nil {
			return e
		}
		handler := w.app.MsgServiceRouter().Handler(msg)
		if handler == nil {
			return fmt.Errorf("no handler for %T", msg)
		}
		var e error
		res, e = handler(cctx, msg)
		return e
	})
	if err == nil {
		write()
	}
	return res, err
}

// rejectClass: a coarse reason of a refusal, for the generator statistics only (never compared).
func rejectClass(err error) string {
	m := err.Error()
	for _, k := range []string{"not found", "market id", "expected ask", "expected bid", "duplicate", "same buyer", "same seller", "insufficient", "spendable",
		"sanction", "not allowed to receive", "does not have transfer", "restricted denom", "fee collector", "cannot be partially", "not evenly divisible",
		"unexpected partial", "fully filled", "not accepting", "does not allow user", "creation fee", "settlement flat fee", "buyer settlement fee",
		"total assets", "total price", "price denom", "assets denom", "cannot withdraw", "none of", "does not have ACCESS", "no assets to", "no seller settlement fee ratio", "panic"} {
		if strings.Contains(m, k) {
			return strings.ReplaceAll(k, " ", "_")
		}
	}
	return "other"
}

func (w *c01World) rej(kind string, err error) {
	if err != nil {
		w.g.w.Count("rejected_" + kind + ":" + rejectClass(err))
	}
}

func (w *c01World) record(opTerm string, ok bool, fills string, kind string) {
	w.steps = append(w.steps, fmt.Sprintf("(%s, %s)", opTerm, w.observeDelta(ok, fills)))
	w.nOps++
	w.g.w.Count("op_" + kind)
	if ok {
		w.nOK++
		w.g.w.Count("op_" + kind + "_accepted")
	}
}

// ---------- operations ----------

func (w *c01World) create(mk *c01Market, o mOrder, cfee *mCoin) uint64 {
	o.ownerStr = w.spelled(o.owner)
	o.market = mk.id
	ord := o.toOrder()
	var msg sdk.Msg
	var vb func() error
	if o.ask {
		m := &exchange.MsgCreateAskRequest{AskOrder: *ord.GetAskOrder(), OrderCreationFee: optSdkCoin(cfee)}
		msg, vb = m, m.ValidateBasic
	} else {
		m := &exchange.MsgCreateBidRequest{BidOrder: *ord.GetBidOrder(), OrderCreationFee: optSdkCoin(cfee)}
		msg, vb = m, m.ValidateBasic
	}
	res, err := w.exec(msg, vb)
	w.rej("create", err)
	var id uint64
	if err == nil {
		switch v := res.MsgResponses[0].GetCachedValue().(type) {
		case *exchange.MsgCreateAskResponse:
			id = v.OrderId
		case *exchange.MsgCreateBidResponse:
			id = v.OrderId
		default:
			w.t.Fatalf("unexpected response %T", v)
		}
		w.ids = append(w.ids, id)
		w.omarket[id] = mk.k
	}
	ord.OrderId = id
	if id == 0 {
		ord.OrderId = 999999
	}
	if cfee != nil {
		w.g.w.Count("op_create_with_creation_fee")
	}
	w.record(fmt.Sprintf("MpCreate %d %s %s %s", mk.id, coqOrder(w.in, ord), optCoinTerm(cfee), coqBool(err == nil)), err == nil, "[]", "create")
	return id
}

func (w *c01World) ratioLookup(mk *c01Market) func(string) (*exchange.FeeRatio, error) {
	ratios := feeRatiosOf(mk.sellerR)
	return func(denom string) (*exchange.FeeRatio, error) {
		for i := range ratios {
			if ratios[i].Price.Denom == denom && ratios[i].Fee.Denom == denom {
				return &ratios[i], nil
			}
		}
		if len(ratios) > 0 {
			return nil, fmt.Errorf("no seller settlement fee ratio found for denom %q", denom)
		}
		return nil, nil
	}
}

// dryRun evaluates the real BuildSettlement on the current order records: the per-order
// amounts the property speaks about (assets filled, price applied, fees to pay).
func (w *c01World) dryRun(mk *c01Market, askIDs, bidIDs []uint64) string {
	get := func(ids []uint64) []*exchange.Order {
		var out []*exchange.Order
		for _, id := range ids {
			o, err := w.app.ExchangeKeeper.GetOrder(w.ctx, id)
			if err != nil || o == nil {
				return nil
			}
			out = append(out, o)
		}
		return out
	}
	asks, bids := get(askIDs), get(bidIDs)
	if asks == nil || bids == nil {
		return "[]"
	}
	var stl *exchange.Settlement
	err := try(func() error {
		var e error
		stl, e = exchange.BuildSettlement(asks, bids, w.ratioLookup(mk))
		return e
	})
	if err != nil {
		return "[]"
	}
	var items []string
	add := func(f *exchange.FilledOrder) {
		items = append(items, fmt.Sprintf("(%d, %s, %s, %s)", f.GetOrderID(), zInt(f.GetAssets().Amount), zInt(f.GetPrice().Amount), coqCoins(f.GetSettlementFees())))
	}
	for _, f := range stl.FullyFilledOrders {
		add(f)
	}
	if stl.PartialOrderFilled != nil {
		add(stl.PartialOrderFilled)
	}
	return coqList(items)
}

func (w *c01World) settle(mk *c01Market, askIDs, bidIDs []uint64, expectPartial bool) bool {
	fills := w.dryRun(mk, askIDs, bidIDs)
	admin := mk.admin.String()
	if w.g.r.Intn(6) == 0 {
		admin = strings.ToUpper(admin)
	}
	msg := &exchange.MsgMarketSettleRequest{Admin: admin, MarketId: mk.id, AskOrderIds: askIDs, BidOrderIds: bidIDs, ExpectPartial: expectPartial}
	_, err := w.exec(msg, msg.ValidateBasic)
	w.rej("settle", err)
	if err != nil {
		fills = "[]"
	}
	w.record(fmt.Sprintf("MpSettle %d %d %s %s %s", mk.id, c01AdminBase+mk.k, coqIDs(askIDs), coqIDs(bidIDs), coqBool(expectPartial)), err == nil, fills, "settle")
	if err == nil && (len(askIDs) > 3 || len(bidIDs) > 3) {
		w.g.w.Count("settle_accepted_more_than_3_on_a_side")
	}
	return err == nil
}

func coqIDs(ids []uint64) string {
	items := make([]string, len(ids))
	for i, id := range ids {
		items[i] = fmt.Sprint(id)
	}
	return coqList(items)
}

func (w *c01World) fillBids(mk *c01Market, seller int, ids []uint64, total sdk.Coins, flat, cfee *mCoin) bool {
	msg := &exchange.MsgFillBidsRequest{Seller: w.spelled(seller), MarketId: mk.id, TotalAssets: total, BidOrderIds: ids,
		SellerSettlementFlatFee: optSdkCoin(flat), AskOrderCreationFee: optSdkCoin(cfee)}
	_, err := w.exec(msg, msg.ValidateBasic)
	w.rej("fill_bids", err)
	w.record(fmt.Sprintf("MpFillBids %d %d %s %s %s %s", mk.id, seller, coqIDs(ids), coqCoins(total), optCoinTerm(flat), optCoinTerm(cfee)), err == nil, "[]", "fill_bids")
	return err == nil
}

func (w *c01World) fillAsks(mk *c01Market, buyer int, ids []uint64, total sdk.Coin, fees []mCoin, cfee *mCoin) bool {
	msg := &exchange.MsgFillAsksRequest{Buyer: w.spelled(buyer), MarketId: mk.id, TotalPrice: total, AskOrderIds: ids,
		BuyerSettlementFees: sdk.Coins(sdkCoinsOf(fees)), BidOrderCreationFee: optSdkCoin(cfee)}
	_, err := w.exec(msg, msg.ValidateBasic)
	w.rej("fill_asks", err)
	w.record(fmt.Sprintf("MpFillAsks %d %d %s (%d, %s) %s %s", mk.id, buyer, coqIDs(ids), c01DenomID(total.Denom), zInt(total.Amount), mcoinsTerm(fees), optCoinTerm(cfee)), err == nil, "[]", "fill_asks")
	return err == nil
}

func (w *c01World) setParams(def uint32, splits []exchange.DenomSplit) {
	p := exchange.Params{DefaultSplit: def, DenomSplits: splits}
	msg := &exchange.MsgUpdateParamsRequest{Authority: authtypes.NewModuleAddress(govtypes.ModuleName).String(), Params: p}
	_, err := w.exec(msg, msg.ValidateBasic)
	items := make([]string, len(splits))
	for i, s := range splits {
		items[i] = fmt.Sprintf("(%d, %d)", c01DenomID(s.Denom), s.Split)
	}
	w.record(fmt.Sprintf("MpParams (Pm %d %s)", def, coqList(items)), err == nil, "[]", "set_params")
}

func (w *c01World) setAccepting(mk *c01Market, b bool) {
	msg := &exchange.MsgMarketUpdateAcceptingOrdersRequest{Admin: mk.admin.String(), MarketId: mk.id, AcceptingOrders: b}
	_, err := w.exec(msg, msg.ValidateBasic)
	if err == nil {
		mk.accepting = b
	}
	w.record(fmt.Sprintf("MpAccepting %d %s", mk.id, coqBool(b)), err == nil, "[]", "set_accepting")
}

func (w *c01World) setUserSettle(mk *c01Market, b bool) {
	msg := &exchange.MsgMarketUpdateUserSettleRequest{Admin: mk.admin.String(), MarketId: mk.id, AllowUserSettlement: b}
	_, err := w.exec(msg, msg.ValidateBasic)
	if err == nil {
		mk.userSettle = b
	}
	w.record(fmt.Sprintf("MpUserSettle %d %s", mk.id, coqBool(b)), err == nil, "[]", "set_user_settle")
}

// sanction / unsanction through the sanction keeper (the governance proposal route is C06's).
func (w *c01World) sanction(i int, on bool) {
	cctx, write := w.ctx.CacheContext()
	err := try(func() error {
		if on {
			return w.app.SanctionKeeper.SanctionAddresses(cctx, w.owners[i])
		}
		return w.app.SanctionKeeper.UnsanctionAddresses(cctx, w.owners[i])
	})
	if err != nil {
		w.t.Fatalf("sanction: %v", err)
	}
	write()
	w.sanct[i] = on
	w.record(fmt.Sprintf("MpSanction %d %s", i, coqBool(on)), true, "[]", "sanction")
}

// ---------- world construction ----------

func (g *c01Gen) drawSplit() uint32 {
	r := g.r
	if r.Intn(3) == 0 {
		return uint32(r.Intn(10001))
	}
	return uint32([]int{0, 0, 1, 500, 2500, 3333, 5000, 9999, 10000, 10000}[r.Intn(10)])
}

func (g *c01Gen) drawParams() (uint32, []exchange.DenomSplit) {
	r := g.r
	def := g.drawSplit()
	var ds []exchange.DenomSplit
	for _, d := range c01Denoms {
		if r.Intn(3) == 0 {
			ds = append(ds, exchange.DenomSplit{Denom: d, Split: g.drawSplit()})
		}
	}
	return def, ds
}

func (g *c01Gen) newWorld(t *testing.T, app *simapp.App, base sdk.Context) *c01World {
	r := g.r
	ctx, _ := base.CacheContext()
	w := &c01World{g: g, t: t, app: app, ctx: ctx, in: &c01Intern{addrs: map[string]int{}}, omarket: map[uint64]int{},
		transfer: map[int]bool{}, withdraw: map[int]bool{}, deposit: map[int]bool{}, sanct: map[int]bool{}, flags: map[string]bool{}}

	// --- denoms ---
	if r.Intn(3) == 0 {
		c01Denoms = append([]string{}, c01DefaultDenoms...)
	} else {
		perm := r.Perm(len(c01DenomPool))
		pick := map[string]bool{}
		// keep at least two simple names so that a marker can exist
		pick[c01MarkerDenoms[r.Intn(len(c01MarkerDenoms))]] = true
		for _, i := range perm {
			if len(pick) >= 5 {
				break
			}
			pick[c01DenomPool[i]] = true
		}
		c01Denoms = c01Denoms[:0:0]
		for d := range pick {
			c01Denoms = append(c01Denoms, d)
		}
		sort.Strings(c01Denoms)
		w.flag("odd_denoms")
	}
	nd := len(c01Denoms)

	// --- accounts ---
	w.nOwners = 3 + r.Intn(4)
	if g.forceOwners > 0 {
		w.nOwners = g.forceOwners
	}
	w.owners = make([]sdk.AccAddress, w.nOwners+1)
	w.upper = make([]bool, w.nOwners+1)
	for i := 1; i <= w.nOwners; i++ {
		w.owners[i] = c01OwnerAddr(i)
		w.upper[i] = r.Intn(7) == 0
		if w.upper[i] {
			w.flag("upper_case_owner")
		}
		ensureAccount(app, ctx, w.owners[i])
		w.in.set(w.owners[i], i)
		w.accts = append(w.accts, w.owners[i])
		w.acctIDs = append(w.acctIDs, i)
	}
	w.feeCol = authtypes.NewModuleAddress(authtypes.FeeCollectorName)
	w.in.set(w.feeCol, c01FeeColID)

	// --- restricted marker coin ---
	if r.Intn(4) == 0 {
		var cands []int
		for i, d := range c01Denoms {
			for _, s := range c01MarkerDenoms {
				if d == s {
					cands = append(cands, i+1)
				}
			}
		}
		if len(cands) > 0 {
			w.restr = cands[r.Intn(len(cands))]
			w.flag("restricted_coin")
		}
	}

	// --- markets ---
	nM := 2 + r.Intn(2)
	for k := 1; k <= nM; k++ {
		mk := &c01Market{k: k, admin: addrN(c01AdminBase + k), accepting: true, userSettle: true}
		mk.ad = 1 + r.Intn(nd)
		mk.pd = mk.ad%nd + 1
		if r.Intn(2) == 0 {
			mk.pd = (mk.ad+1)%nd + 1
		}
		if w.restr != 0 && r.Intn(2) == 0 { // the restricted coin as the asset or the price of this market
			if r.Intn(2) == 0 {
				mk.ad = w.restr
				if mk.pd == mk.ad {
					mk.pd = mk.ad%nd + 1
				}
			} else {
				mk.pd = w.restr
				if mk.pd == mk.ad {
					mk.ad = mk.pd%nd + 1
				}
			}
		}
		// seller ratio (price denom -> price denom), incl. zero fee and fees that round to 0 / 1
		if r.Intn(10) < 7 {
			rp := big.NewInt([]int64{1, 3, 7, 20, 100, 1000, 10000, 33333, 1000000}[r.Intn(9)])
			rf := new(big.Int).Rand(r, addB(new(big.Int).Quo(rp, big.NewInt(4)), big.NewInt(1)))
			if r.Intn(6) == 0 {
				rf = big.NewInt(0)
			}
			mk.sellerR = append(mk.sellerR, mRatio{pd: mk.pd, fd: mk.pd, p: rp, f: rf})
			if r.Intn(4) == 0 { // an unrelated ratio for another denom
				od := mk.ad
				mk.sellerR = append(mk.sellerR, mRatio{pd: od, fd: od, p: big.NewInt(10), f: big.NewInt(1)})
			}
		}
		// buyer ratios: price denom -> price denom and / or -> another denom
		if r.Intn(10) < 5 {
			n := 1 + r.Intn(2)
			used := map[int]bool{}
			for i := 0; i < n; i++ {
				fd := mk.pd
				if r.Intn(2) == 0 {
					fd = 1 + r.Intn(nd)
				}
				if used[fd] {
					continue
				}
				used[fd] = true
				rp := big.NewInt([]int64{1, 2, 50, 100, 1000, 10000, 100000}[r.Intn(7)])
				rf := big.NewInt(r.Int63n(40))
				if r.Intn(6) == 0 {
					rf = big.NewInt(0) // the documented way to exempt a price denom
				}
				if fd == mk.pd && rf.Cmp(rp) > 0 {
					rf = new(big.Int).Set(rp)
				}
				mk.buyerR = append(mk.buyerR, mRatio{pd: mk.pd, fd: fd, p: rp, f: rf})
			}
			w.flag("buyer_ratio")
			// Market.Validate: with both kinds of ratios, their price denoms must be the same set
			for _, sr := range mk.sellerR {
				if sr.pd != mk.pd {
					mk.buyerR = append(mk.buyerR, mRatio{pd: sr.pd, fd: sr.pd, p: big.NewInt(100), f: big.NewInt(1)})
				}
			}
		}
		flats := func(p int) []mCoin {
			if r.Intn(10) >= p {
				return nil
			}
			var out []mCoin
			used := map[int]bool{}
			for i := 0; i < 1+r.Intn(2); i++ {
				d := 1 + r.Intn(nd)
				if i == 0 && r.Intn(3) == 0 {
					d = mk.pd // a flat fee in the price denom
				}
				if used[d] {
					continue
				}
				used[d] = true
				out = append(out, mCoin{d, big.NewInt(r.Int63n(20) + 1)})
			}
			return out
		}
		mk.sellerFlat = flats(4)
		mk.buyerFlat = flats(4)
		mk.createAsk = flats(3)
		mk.createBid = flats(3)
		if len(mk.createAsk)+len(mk.createBid) > 0 {
			w.flag("creation_fee")
		}
		market := exchange.Market{
			MarketDetails:             exchange.MarketDetails{Name: fmt.Sprintf("c01-%d", k)},
			AcceptingOrders:           true,
			AllowUserSettlement:       true,
			FeeCreateAskFlat:          sdkCoinsOf(mk.createAsk),
			FeeCreateBidFlat:          sdkCoinsOf(mk.createBid),
			FeeSellerSettlementFlat:   sdkCoinsOf(mk.sellerFlat),
			FeeSellerSettlementRatios: feeRatiosOf(mk.sellerR),
			FeeBuyerSettlementFlat:    sdkCoinsOf(mk.buyerFlat),
			FeeBuyerSettlementRatios:  feeRatiosOf(mk.buyerR),
			AccessGrants:              []exchange.AccessGrant{{Address: mk.admin.String(), Permissions: exchange.AllPermissions()}},
		}
		// Market.Validate (gov create) wants the same price denoms in seller and buyer ratios; a later
		// MsgGovManageFees only applies the laxer ValidateRatioDenoms, so seller-only and buyer-only
		// ratio tables are reachable too: the generated table must pass the component checks.
		var verrs []error
		for name, opts := range map[string][]sdk.Coin{"create-ask": market.FeeCreateAskFlat, "create-bid": market.FeeCreateBidFlat,
			"seller-flat": market.FeeSellerSettlementFlat, "buyer-flat": market.FeeBuyerSettlementFlat} {
			if err := exchange.ValidateFeeOptions(name, opts); err != nil {
				verrs = append(verrs, err)
			}
		}
		if err := exchange.ValidateSellerFeeRatios(market.FeeSellerSettlementRatios); err != nil {
			verrs = append(verrs, err)
		}
		if err := exchange.ValidateBuyerFeeRatios(market.FeeBuyerSettlementRatios); err != nil {
			verrs = append(verrs, err)
		}
		verrs = append(verrs, exchange.ValidateRatioDenoms(market.FeeSellerSettlementRatios, market.FeeBuyerSettlementRatios)...)
		if len(verrs) > 0 {
			t.Fatalf("generated market is not valid: %v", verrs)
		}
		if market.Validate() == nil {
			g.w.Count("market_valid_for_gov_create")
		} else {
			g.w.Count("market_reachable_by_manage_fees_only")
		}
		mid, err := app.ExchangeKeeper.CreateMarket(ctx, market)
		if err != nil {
			t.Fatalf("create market: %v", err)
		}
		mk.id = mid
		mk.addr = exchange.GetMarketAddress(mid)
		w.in.set(mk.addr, c01MktBase+k)
		w.in.set(mk.admin, c01AdminBase+k)
		w.markets = append(w.markets, mk)
	}
	for _, mk := range w.markets {
		w.accts = append(w.accts, mk.addr)
		w.acctIDs = append(w.acctIDs, c01MktBase+mk.k)
	}
	w.accts = append(w.accts, w.feeCol)
	w.acctIDs = append(w.acctIDs, c01FeeColID)

	// --- the marker ---
	w.maxBits = []int{20, 40, 60, 63, 64, 70, 90, 128}[r.Intn(8)]
	fundAmt := new(big.Int).Lsh(big.NewInt(1), uint(w.maxBits+24))
	if w.restr != 0 {
		denom := c01Denoms[w.restr-1]
		w.marker = markertypes.MustGetMarkerAddress(denom)
		w.in.set(w.marker, c01MarkerID)
		var grants []markertypes.AccessGrant
		grant := func(a sdk.AccAddress, id int, p float64) {
			var perms []markertypes.Access
			if r.Float64() < p {
				perms = append(perms, markertypes.Access_Transfer)
				w.transfer[id] = true
			}
			if r.Float64() < 0.5 {
				perms = append(perms, markertypes.Access_Withdraw)
				w.withdraw[id] = true
			}
			if r.Float64() < 0.5 {
				perms = append(perms, markertypes.Access_Deposit)
				w.deposit[id] = true
			}
			if len(perms) > 0 {
				grants = append(grants, markertypes.AccessGrant{Address: a.String(), Permissions: perms})
			}
		}
		for _, mk := range w.markets {
			grant(mk.admin, c01AdminBase+mk.k, 0.6)
		}
		for i := 1; i <= w.nOwners; i++ {
			grant(w.owners[i], i, 0.35)
		}
		for _, mk := range w.markets {
			grant(mk.addr, c01MktBase+mk.k, 0.3)
		}
		supply := sdk.NewCoin(denom, sdkmath.NewIntFromBigInt(new(big.Int).Lsh(fundAmt, 8)))
		ma := markertypes.NewMarkerAccount(authtypes.NewBaseAccountWithAddress(w.marker), supply, addrN(79), grants,
			markertypes.StatusProposed, markertypes.MarkerType_RestrictedCoin, false, true, false, nil)
		if err := app.MarkerKeeper.AddFinalizeAndActivateMarker(ctx, ma); err != nil {
			t.Fatalf("marker: %v", err)
		}
		w.accts = append(w.accts, w.marker)
		w.acctIDs = append(w.acctIDs, c01MarkerID)
	}

	// --- params ---
	def, ds := g.drawParams()
	app.ExchangeKeeper.SetParams(ctx, &exchange.Params{DefaultSplit: def, DenomSplits: ds})

	// --- funds (set-up: under the marker bypass) ---
	bctx := markertypes.WithBypass(ctx)
	poor := 0
	if r.Intn(8) == 0 && g.forceOwners == 0 {
		poor = 1 + r.Intn(w.nOwners)
	}
	mintTo := func(a sdk.AccAddress, amt *big.Int) {
		var cs sdk.Coins
		for i, d := range c01Denoms {
			if i+1 == w.restr && a.Equals(w.feeCol) {
				continue // a restricted coin never reaches the fee collector, not even under the bypass
			}
			cs = cs.Add(sdk.NewCoin(d, sdkmath.NewIntFromBigInt(amt)))
		}
		if err := app.BankKeeper.MintCoins(bctx, minttypes.ModuleName, cs); err != nil {
			t.Fatalf("mint: %v", err)
		}
		if err := app.BankKeeper.SendCoins(bctx, authtypes.NewModuleAddress(minttypes.ModuleName), a, cs); err != nil {
			t.Fatalf("fund: %v", err)
		}
	}
	for i := 1; i <= w.nOwners; i++ {
		amt := fundAmt
		if i == poor {
			amt = big.NewInt(r.Int63n(2000) + 1)
		}
		mintTo(w.owners[i], amt)
	}
	// special accounts that may own orders later
	for _, mk := range w.markets {
		if r.Intn(3) == 0 {
			mintTo(mk.addr, fundAmt)
			w.rich = append(w.rich, c01MktBase+mk.k)
		}
	}
	if r.Intn(6) == 0 {
		mintTo(w.feeCol, fundAmt)
		w.rich = append(w.rich, c01FeeColID)
	}
	if w.restr != 0 && r.Intn(2) == 0 {
		mintTo(w.marker, fundAmt)
		w.rich = append(w.rich, c01MarkerID)
	}
	// an owner who opted into quarantine: settlement transfers bypass it
	if r.Intn(5) == 0 {
		q := 1 + r.Intn(w.nOwners)
		if err := app.QuarantineKeeper.SetOptIn(ctx, w.owners[q]); err != nil {
			t.Fatalf("quarantine opt-in: %v", err)
		}
		w.flag("quarantined_owner")
	}
	return w
}

func (w *c01World) worldTerm() string {
	var blocked []string
	for i, a := range w.accts {
		if w.app.BankKeeper.BlockedAddr(a) {
			blocked = append(blocked, fmt.Sprint(w.acctIDs[i]))
		}
	}
	markers := "[]"
	if w.restr != 0 {
		ids := func(m map[int]bool) string {
			var l []int
			for id := range m {
				l = append(l, id)
			}
			sort.Ints(l)
			items := make([]string, len(l))
			for i, id := range l {
				items[i] = fmt.Sprint(id)
			}
			return coqList(items)
		}
		markers = fmt.Sprintf("[Mr %d %d true %s %s %s]", c01MarkerID, w.restr, ids(w.transfer), ids(w.withdraw), ids(w.deposit))
	}
	return fmt.Sprintf("(Wd %d %s %s)", c01FeeColID, coqList(blocked), markers)
}
