//go:build c07

package harness

import (
	"fmt"
	"math/rand"
	"os"
	"sort"
	"strings"
	"testing"

	sdkmath "cosmossdk.io/math"
	sdk "github.com/cosmos/cosmos-sdk/types"
	authtypes "github.com/cosmos/cosmos-sdk/x/auth/types"
	banktypes "github.com/cosmos/cosmos-sdk/x/bank/types"

	simapp "github.com/provenance-io/provenance/app"
	markertypes "github.com/provenance-io/provenance/x/marker/types"
	"github.com/provenance-io/provenance/x/quarantine"
	quarantinekeeper "github.com/provenance-io/provenance/x/quarantine/keeper"
)

// c07Env interns the addresses and denoms of one run: the holder is 1, the accounts 2.., the
// denoms 1.. in the lexical order of their names.
type c07Env struct {
	app    *simapp.App
	accts  []sdk.AccAddress // accts[0] is the quarantine funds holder
	ids    map[string]int
	denoms []string
	xfer   map[string]map[string]bool // restricted denom -> addresses with Access_Transfer (current history)
}

func (e *c07Env) pos(a sdk.AccAddress) string { return fmt.Sprintf("%d%%positive", e.ids[string(a)]) }
func (e *c07Env) posList(as []sdk.AccAddress) string {
	items := make([]string, len(as))
	for i, a := range as {
		items[i] = e.pos(a)
	}
	return coqList(items)
}
func (e *c07Env) denomID(d string) int {
	for i, x := range e.denoms {
		if x == d {
			return i + 1
		}
	}
	return 99
}

// coins renders an sdk.Coins (in the order given, valid or not) as the model's coins list.
func (e *c07Env) coins(cs sdk.Coins) string {
	items := make([]string, len(cs))
	for i, c := range cs {
		amt := "0"
		if !c.Amount.IsNil() {
			amt = zInt(c.Amount)
		}
		items[i] = fmt.Sprintf("(%d%%positive, %s)", e.denomID(c.Denom), amt)
	}
	return coqList(items)
}

func autoName(r quarantine.AutoResponse) string {
	switch r {
	case quarantine.AUTO_RESPONSE_UNSPECIFIED:
		return "AUnspec"
	case quarantine.AUTO_RESPONSE_ACCEPT:
		return "AAccept"
	case quarantine.AUTO_RESPONSE_DECLINE:
		return "ADecline"
	}
	return "ABad"
}

type c07Rec struct {
	to         sdk.AccAddress
	unacc, acc []sdk.AccAddress
	coins      sdk.Coins
	declined   bool
}

func (e *c07Env) records(ctx sdk.Context) []c07Rec {
	var out []c07Rec
	e.app.QuarantineKeeper.IterateQuarantineRecords(ctx, nil, func(to, _ sdk.AccAddress, r *quarantine.QuarantineRecord) bool {
		out = append(out, c07Rec{to: to, unacc: r.UnacceptedFromAddresses, acc: r.AcceptedFromAddresses, coins: r.Coins, declined: r.Declined})
		return false
	})
	return out
}

// observe projects the implementation's state after an operation into an [Obs] term.
func (e *c07Env) observe(ctx sdk.Context, ok bool, released sdk.Coins) string {
	var bals, recs, optin, autos []string
	for _, a := range e.accts {
		bals = append(bals, "("+e.pos(a)+", "+e.coins(e.app.BankKeeper.GetAllBalances(ctx, a))+")")
		if e.app.QuarantineKeeper.IsQuarantinedAddr(ctx, a) {
			optin = append(optin, e.pos(a))
		}
	}
	for _, r := range e.records(ctx) {
		recs = append(recs, "ORec "+e.pos(r.to)+" "+e.posList(r.unacc)+" "+e.posList(r.acc)+" "+e.coins(r.coins)+" "+coqBool(r.declined))
	}
	e.app.QuarantineKeeper.IterateAutoResponses(ctx, nil, func(to, from sdk.AccAddress, resp quarantine.AutoResponse) bool {
		autos = append(autos, "("+e.pos(to)+", "+e.pos(from)+", "+autoName(resp)+")")
		return false
	})
	_, broken := quarantinekeeper.FundsHolderBalanceInvariant(e.app.QuarantineKeeper)(ctx)
	return "Obs " + coqBool(ok) + " " + e.coins(released) + " " + coqList(bals) + " " + coqList(recs) + " " +
		coqList(optin) + " " + coqList(autos) + " " + coqBool(!broken)
}

// c07Op is one generated operation: the Coq term, a short description, and how to run it.
type c07Op struct {
	term string
	desc string
	kind string
	run  func(ctx sdk.Context) (sdk.Coins, error)
	// needsXfer: some pair of the transfer carries a restricted coin whose sender has no Access_Transfer
	needsXfer bool
	// repeatedInput: the many-inputs transfer names the same input address twice
	repeatedInput bool
	// maxRepeat: how often the most repeated sender is named in an accept / decline
	maxRepeat int
	to        sdk.AccAddress
}

func maxRepeat(as []sdk.AccAddress) int {
	n := map[string]int{}
	m := 0
	for _, a := range as {
		n[string(a)]++
		if n[string(a)] > m {
			m = n[string(a)]
		}
	}
	return m
}

// lacksXfer: the sender may not move some restricted coin among cs.
func (e *c07Env) lacksXfer(from sdk.AccAddress, cs sdk.Coins) bool {
	for _, c := range cs {
		if can := e.xfer[c.Denom]; can != nil && !can[string(from)] {
			return true
		}
	}
	return false
}

func (e *c07Env) acceptOp(to sdk.AccAddress, froms []sdk.AccAddress, perm bool) c07Op {
	msg := &quarantine.MsgAccept{ToAddress: to.String(), FromAddresses: strs(froms), Permanent: perm}
	return c07Op{kind: "accept", maxRepeat: maxRepeat(froms), to: to, term: "OAccept " + e.pos(to) + " " + e.posList(froms) + " " + coqBool(perm),
		desc: fmt.Sprintf("accept %s<%s perm=%v", e.short([]sdk.AccAddress{to}), e.short(froms), perm), run: e.viaRouter(msg)}
}

func (e *c07Env) declineOp(to sdk.AccAddress, froms []sdk.AccAddress, perm bool) c07Op {
	msg := &quarantine.MsgDecline{ToAddress: to.String(), FromAddresses: strs(froms), Permanent: perm}
	return c07Op{kind: "decline", maxRepeat: maxRepeat(froms), to: to, term: "ODecline " + e.pos(to) + " " + e.posList(froms) + " " + coqBool(perm),
		desc: fmt.Sprintf("decline %s<%s perm=%v", e.short([]sdk.AccAddress{to}), e.short(froms), perm), run: e.viaRouter(msg)}
}

func (e *c07Env) viaRouter(msg sdk.Msg) func(ctx sdk.Context) (sdk.Coins, error) {
	return func(ctx sdk.Context) (sdk.Coins, error) {
		if v, ok := msg.(sdk.HasValidateBasic); ok {
			if err := v.ValidateBasic(); err != nil {
				return nil, err
			}
		}
		h := e.app.MsgServiceRouter().Handler(msg)
		if h == nil {
			return nil, fmt.Errorf("no handler")
		}
		res, err := h(ctx, msg)
		if err != nil {
			return nil, err
		}
		var rel sdk.Coins
		if _, isAccept := msg.(*quarantine.MsgAccept); isAccept && res != nil {
			for _, any := range res.MsgResponses {
				var r quarantine.MsgAcceptResponse
				if e.app.AppCodec().Unmarshal(any.Value, &r) == nil {
					rel = r.FundsReleased
				}
			}
		}
		return rel, nil
	}
}

// c07CollisionsEnabled: histories in which two different senders share their first 32 bytes reproduce the
// known finding "quarantine-record-key-truncation-collision".  They are part of every run (the check
// classifies them as KNOWN-FINDING by their fingerprint); VERIF_C07_COLLIDE=0 leaves them out.
func c07CollisionsEnabled() bool {
	return os.Getenv("VERIF_C07_COLLIDE") != "0"
}

func sumAcc(l []c07Rec) int {
	n := 0
	for _, r := range l {
		n += len(r.acc)
	}
	return n
}

func strs(as []sdk.AccAddress) []string {
	out := make([]string, len(as))
	for i, a := range as {
		out[i] = a.String()
	}
	return out
}

func (e *c07Env) short(as []sdk.AccAddress) string {
	out := make([]string, len(as))
	for i, a := range as {
		out[i] = fmt.Sprint(e.ids[string(a)])
	}
	return strings.Join(out, ",")
}

func TestC07(t *testing.T) {
	r := newRand("C07")
	w := NewCaseWriter("C07", "PV.Corr.C07", "check_all", 60)
	app, baseCtx := newApp(t)
	// bbrcoin and ccrcoin are, in most histories, RESTRICTED marker coins (active marker, no required
	// attributes): only holders of Access_Transfer may send them; the quarantine holder pays them out as
	// a required-attribute bypass address.  In the other histories they are plain bank coins.
	e := &c07Env{app: app, ids: map[string]int{}, denoms: []string{"aacoin", "bbrcoin", "ccrcoin"}}
	admin := addrN(799)
	ensureAccount(app, baseCtx, admin)
	holder := app.QuarantineKeeper.GetFundsHolder()
	// Accounts of every legal address length class.  Ids below 1000 are addresses of at most 32 bytes;
	// the id 1000*c+j is an address longer than 32 bytes whose first 32 bytes have the id c (the model's
	// [trunc]): the record key of a single sender is cut to 32 bytes (createRecordSuffix).
	lenAddr := func(tag string, n int) sdk.AccAddress { // n bytes, the first 32 determined by tag
		b := make([]byte, n)
		copy(b, fmt.Sprintf("verif_long_address_%-13s", tag)) // exactly 32 bytes
		for i := 32; i < n; i++ {
			b[i] = byte('a' + i%23)
		}
		return sdk.AccAddress(b)
	}
	a20a, a20b, stranger := addrN(701), addrN(702), addrN(706)
	a32 := lenAddr("acct32", 32)
	c33 := lenAddr("pfx101", 33)
	d40 := lenAddr("pfx102", 40)
	e255 := lenAddr("pfx103", 255)
	d40x := lenAddr("pfx102", 40) // same first 32 bytes as d40, differs later
	d40x[39] = 'Z'
	g33 := lenAddr("acct32", 33) // its first 32 bytes are the 32-byte account a32
	pool := []sdk.AccAddress{a20a, a32, a20b, c33, d40, e255} // pairwise different 32-byte prefixes
	e.accts = append([]sdk.AccAddress{holder}, pool...)
	e.accts = append(e.accts, d40x, g33, stranger)
	for a, id := range map[string]int{string(holder): 1, string(a20a): 2, string(a32): 3, string(a20b): 4, string(stranger): 5,
		string(c33): 101001, string(d40): 102001, string(e255): 103001, string(d40x): 102002, string(g33): 3001} {
		e.ids[a] = id
	}
	collide := c07CollisionsEnabled()
	people := e.accts[1:]

	pick := func(l []sdk.AccAddress) sdk.AccAddress { return l[r.Intn(len(l))] }
	var dens []string // the denoms of the current history
	// some coins of 1..3 denoms, each at most what `from` holds (unless over is set)
	someCoins := func(ctx sdk.Context, from sdk.AccAddress, over bool) sdk.Coins {
		var cs sdk.Coins
		nd := 2 + r.Intn(2)
		if r.Intn(3) == 0 {
			nd = 1
		}
		if nd > len(dens) {
			nd = len(dens)
		}
		perm := r.Perm(len(dens))[:nd]
		sort.Ints(perm)
		for _, di := range perm {
			d := dens[di]
			bal := app.BankKeeper.GetBalance(ctx, from, d).Amount.Int64()
			var a int64
			switch {
			case over:
				a = bal + 1 + r.Int63n(5)
			case bal <= 0:
				continue
			default:
				lim := bal
				if lim > 60 {
					lim = 60
				}
				a = 1 + r.Int63n(lim)
			}
			cs = append(cs, sdk.NewInt64Coin(d, a))
		}
		return cs
	}

	nHist := scale(240, 4000)
	var totalOps, totalOK int64
	for hi := 0; hi < nHist; hi++ {
		ctx, _ := baseCtx.CacheContext()
		nDen := 2 + r.Intn(2)
		dens = e.denoms[:nDen]
		nAcc := 4 + r.Intn(2)
		var players []sdk.AccAddress
		for _, j := range r.Perm(len(pool))[:nAcc] {
			players = append(players, pool[j])
		}
		sort.Slice(players, func(i, j int) bool { return e.ids[string(players[i])] < e.ids[string(players[j])] })
		// two DIFFERENT senders that share their first 32 bytes (known finding: they share one record key)
		prefixCollision := false
		if collide && r.Intn(8) == 0 {
			has := func(x sdk.AccAddress) bool {
				for _, a := range players {
					if a.Equals(x) {
						return true
					}
				}
				return false
			}
			if r.Intn(2) == 0 {
				if !has(d40) {
					players = append(players, d40)
				}
				players = append(players, d40x)
			} else {
				if !has(a32) {
					players = append(players, a32)
				}
				players = append(players, g33)
			}
			prefixCollision = true
			w.Count("histories_with_senders_sharing_a_32_byte_prefix")
		}
		for _, a := range players {
			w.Count(fmt.Sprintf("player_address_len_%03d", len(a)))
		}
		// ---- restricted markers of this history and who holds Access_Transfer on them
		xfer := map[string]map[string]bool{}
		var gXfer []string
		for _, d := range dens[1:] {
			if r.Intn(4) == 0 {
				continue // a plain coin in this history
			}
			can := map[string]bool{}
			var canAddrs []sdk.AccAddress
			grants := []markertypes.AccessGrant{*markertypes.NewAccessGrant(admin, markertypes.AccessList{markertypes.Access_Withdraw, markertypes.Access_Admin})}
			for i, a := range players {
				if i < 2 || r.Intn(5) != 0 { // at least two senders, usually all but one
					can[string(a)] = true
					canAddrs = append(canAddrs, a)
					grants = append(grants, *markertypes.NewAccessGrant(a, markertypes.AccessList{markertypes.Access_Transfer}))
				}
			}
			ma := markertypes.NewMarkerAccount(authtypes.NewBaseAccountWithAddress(markertypes.MustGetMarkerAddress(d)),
				sdk.NewInt64Coin(d, 1_000_000), admin, grants, markertypes.StatusProposed, markertypes.MarkerType_RestrictedCoin, true, true, false, nil)
			if err := app.MarkerKeeper.AddFinalizeAndActivateMarker(ctx, ma); err != nil {
				t.Fatalf("restricted marker %s: %v", d, err)
			}
			xfer[d] = can
			gXfer = append(gXfer, fmt.Sprintf("(%d%%positive, %s)", e.denomID(d), e.posList(canAddrs)))
			w.Count("restricted_marker_denoms")
		}
		e.xfer = xfer
		// give: plain coins are minted, restricted coins are withdrawn from their marker
		give := func(a sdk.AccAddress, cs sdk.Coins) {
			for _, c := range cs {
				if xfer[c.Denom] != nil {
					if err := app.MarkerKeeper.WithdrawCoins(ctx, admin, a, c.Denom, sdk.NewCoins(c)); err != nil {
						t.Fatalf("withdraw %s to %s: %v", c, a, err)
					}
				} else {
					fund(t, app, ctx, a, sdk.NewCoins(c))
				}
			}
		}
		for _, a := range players {
			var cs sdk.Coins
			for _, d := range dens {
				if r.Intn(8) != 0 {
					cs = cs.Add(sdk.NewInt64Coin(d, 50+r.Int63n(400)))
				}
			}
			if !cs.IsZero() {
				give(a, cs)
			}
		}

		// ---- genesis through the real InitGenesis: opt-ins, auto-responses, multi-sender records
		gs := &quarantine.GenesisState{}
		var gOpt, gAuto, gFunds []string
		for _, a := range players {
			if r.Intn(5) < 2 {
				gs.QuarantinedAddresses = append(gs.QuarantinedAddresses, a.String())
				gOpt = append(gOpt, e.pos(a))
			}
		}
		for i := r.Intn(3); i > 0; i-- {
			to, from := pick(players), pick(players)
			if to.Equals(from) {
				continue
			}
			resp := quarantine.AutoResponse(1 + r.Intn(2))
			gs.AutoResponses = append(gs.AutoResponses, quarantine.NewAutoResponseEntry(to, from, resp))
			gAuto = append(gAuto, "("+e.pos(to)+", "+e.pos(from)+", "+autoName(resp)+")")
		}
		seenKey := map[string]bool{}
		// ---- how the holder is funded for the genesis records: exactly / with a surplus (InitGenesis must
		// accept), or UNDER-funded in one of four shapes (InitGenesis must refuse: it panics)
		const (
			fundOK = iota
			fundShortHeld   // short in one denom that the holder does hold
			fundDenomAbsent // one record denom is not held by the holder at all
			fundEmpty       // the holder holds nothing
			fundShortBySum  // every record alone is covered, two records together are not
		)
		funding := fundOK
		nRec := r.Intn(4)
		if r.Intn(6) == 0 {
			funding = 1 + r.Intn(4)
			if nRec == 0 {
				nRec = 1
			}
			if funding == fundShortBySum && nRec < 2 {
				nRec = 2
			}
		}
		var recCoins []sdk.Coins
		var holderGets sdk.Coins
		for i := nRec; i > 0; i-- {
			to := pick(players)
			var froms []sdk.AccAddress
			nf := 2 + r.Intn(2)
			if r.Intn(4) == 0 {
				nf = 1
			}
			for _, j := range r.Perm(len(players)) {
				if len(froms) < nf && !players[j].Equals(to) {
					froms = append(froms, players[j])
				}
			}
			sorted := append([]sdk.AccAddress{}, froms...)
			sort.Slice(sorted, func(i, j int) bool { return e.ids[string(sorted[i])] < e.ids[string(sorted[j])] })
			key := e.pos(to) + "/" + e.posList(sorted)
			if seenKey[key] {
				continue
			}
			seenKey[key] = true
			var cs sdk.Coins
			for _, d := range dens {
				if r.Intn(3) != 0 {
					cs = cs.Add(sdk.NewInt64Coin(d, 1+r.Int63n(90)))
				}
			}
			if cs.IsZero() {
				cs = sdk.NewCoins(sdk.NewInt64Coin(dens[0], 7))
			}
			if funding == fundShortBySum && cs.AmountOf(dens[0]).IsZero() {
				cs = cs.Add(sdk.NewInt64Coin(dens[0], 1+r.Int63n(90))) // the records share a denom
			}
			declined := r.Intn(4) == 0
			gs.QuarantinedFunds = append(gs.QuarantinedFunds, quarantine.NewQuarantinedFunds(to, froms, cs, declined))
			gFunds = append(gFunds, "("+e.pos(to)+", "+e.posList(froms)+", "+e.coins(cs)+", "+coqBool(declined)+")")
			recCoins = append(recCoins, cs)
			holderGets = holderGets.Add(cs...)
			if funding == fundOK && r.Intn(5) == 0 { // the holder sometimes has more than the records need
				holderGets = holderGets.Add(sdk.NewInt64Coin(dens[0], 1+r.Int63n(9)))
			}
			if len(froms) > 1 {
				w.Count("genesis_multi_sender_records")
			}
		}
		if funding != fundOK && len(recCoins) == 0 {
			funding = fundOK // every generated record repeated a key: nothing to under-fund
		}
		if funding == fundShortBySum && len(recCoins) < 2 {
			funding = fundShortHeld
		}
		fundingName := "covered"
		switch funding {
		case fundShortHeld:
			c := holderGets[r.Intn(len(holderGets))]
			if c.Amount.Int64() >= 2 {
				holderGets = holderGets.Sub(sdk.NewInt64Coin(c.Denom, 1+r.Int63n(c.Amount.Int64()-1)))
				fundingName = "short_in_a_denom_the_holder_holds"
			} else {
				holderGets = holderGets.Sub(c)
				fundingName = "record_denom_absent_from_holder"
			}
		case fundDenomAbsent:
			c := holderGets[r.Intn(len(holderGets))]
			holderGets = holderGets.Sub(c)
			fundingName = "record_denom_absent_from_holder"
			if holderGets.IsZero() {
				fundingName = "holder_empty"
			}
		case fundEmpty:
			holderGets = nil
			fundingName = "holder_empty"
		case fundShortBySum:
			// in dens[0]: at least the largest single record, less than all records together
			var sum, max int64
			for _, cs := range recCoins {
				a := cs.AmountOf(dens[0]).Int64()
				sum += a
				if a > max {
					max = a
				}
			}
			x := max + r.Int63n(sum-max)
			holderGets = holderGets.Sub(sdk.NewInt64Coin(dens[0], sum-x))
			fundingName = "covered_record_by_record_but_not_together"
		}
		if !holderGets.IsZero() {
			give(holder, holderGets)
		}
		w.Count("genesis_funding_" + fundingName)
		var gBal []string
		for _, a := range e.accts {
			for _, c := range app.BankKeeper.GetAllBalances(ctx, a) {
				gBal = append(gBal, fmt.Sprintf("(%s, %d%%positive, %s)", e.pos(a), e.denomID(c.Denom), zInt(c.Amount)))
			}
		}
		genesis := "{| g_optin := " + coqList(gOpt) + "; g_auto := " + coqList(gAuto) + "; g_funds := " + coqList(gFunds) +
			"; g_bal := " + coqList(gBal) + "; g_xfer := " + coqList(gXfer) + " |}"
		// the real InitGenesis, in a branch of the store that is kept only when it does not panic
		gctx, gwrite := ctx.CacheContext()
		if err := try(func() error { app.QuarantineKeeper.InitGenesis(gctx, gs); return nil }); err != nil {
			w.Count("genesis_refused")
			if funding == fundOK {
				w.Count("genesis_refused_although_covered")
			}
			w.Add("CGenRefused "+e.pos(holder)+"\n    "+genesis, map[string]any{"history": hi, "genesis_refused": true,
				"genesis_funding": fundingName, "genesis_records": len(gs.QuarantinedFunds), "prefix_collision": false})
			continue
		}
		gwrite()
		if funding != fundOK {
			w.Count("genesis_accepted_although_underfunded")
		}
		obs0 := e.observe(ctx, true, nil)

		// ---- operations
		nOps := 10 + r.Intn(31)
		var steps, descs []string
		var nQuarantined, nPayout, nPartial, nTopUp, nRevoked, nRestrQ, nRestrPaid, nNoXfer int
		// ---- a scripted answer sequence on one multi-sender genesis record, interleaved with the random
		// operations: accept one sender, get the record flagged declined through another sender, decline the
		// accepted sender (its acceptance is revoked), accept the others, finally accept everybody.
		var script []c07Op
		var multi []*quarantine.QuarantinedFunds
		for _, qf := range gs.QuarantinedFunds {
			if len(qf.UnacceptedFromAddresses) > 1 {
				multi = append(multi, qf)
			}
		}
		if len(multi) > 0 && r.Intn(10) < 7 {
			qf := multi[r.Intn(len(multi))]
			to := sdk.MustAccAddressFromBech32(qf.ToAddress)
			var fs []sdk.AccAddress
			for _, f := range qf.UnacceptedFromAddresses {
				fs = append(fs, sdk.MustAccAddressFromBech32(f))
			}
			r.Shuffle(len(fs), func(i, j int) { fs[i], fs[j] = fs[j], fs[i] })
			a, rest := fs[:1], fs[1:]
			switch r.Intn(4) {
			case 0, 1: // Accept A; Decline B..; Decline A; Accept B..; Accept A
				script = []c07Op{e.acceptOp(to, a, false), e.declineOp(to, rest[:1], false), e.declineOp(to, a, false),
					e.acceptOp(to, rest, false), e.acceptOp(to, a, false)}
			case 2: // the record is flagged through a permanent decline set before the partial accept
				script = []c07Op{e.declineOp(to, rest[:1], true), e.acceptOp(to, a, false), e.declineOp(to, a, false),
					e.acceptOp(to, rest, r.Intn(2) == 0), e.acceptOp(to, fs, false)}
			default: // accept all but one, decline one of the accepted together with the last, accept the last
				script = []c07Op{e.acceptOp(to, rest, false), e.declineOp(to, a, false), e.declineOp(to, fs[len(fs)-1:], false),
					e.acceptOp(to, a, false), e.acceptOp(to, fs, false)}
			}
			w.Count("scripted_decline_after_accept_sequences")
		}
		if prefixCollision {
			// the known finding, scripted: both colliding senders pay the same opted-in receiver, the
			// receiver accepts the second alone (nothing may happen), then both together
			l2 := players[len(players)-1]
			l1 := d40
			if l2.Equals(g33) {
				l1 = a32
			}
			var to sdk.AccAddress
			for _, a := range players {
				if !a.Equals(l1) && !a.Equals(l2) {
					to = a
					break
				}
			}
			sendOp := func(from sdk.AccAddress) c07Op {
				cs := sdk.NewCoins(sdk.NewInt64Coin(dens[0], 3+r.Int63n(20)))
				msg := &banktypes.MsgSend{FromAddress: from.String(), ToAddress: to.String(), Amount: cs}
				return c07Op{kind: "send", term: "OSend " + e.pos(from) + " " + e.pos(to) + " " + e.coins(cs),
					desc: fmt.Sprintf("send %s>%s %s", e.short([]sdk.AccAddress{from}), e.short([]sdk.AccAddress{to}), cs), run: e.viaRouter(msg)}
			}
			optIn := c07Op{kind: "opt_in", term: "OOptIn " + e.pos(to), desc: "optin " + e.short([]sdk.AccAddress{to}),
				run: e.viaRouter(&quarantine.MsgOptIn{ToAddress: to.String()})}
			script = []c07Op{optIn, sendOp(l1), sendOp(l2), e.acceptOp(to, []sdk.AccAddress{l2}, false),
				e.acceptOp(to, []sdk.AccAddress{l1, l2}, false)}
		}
		for oi := 0; oi < nOps; oi++ {
			var op c07Op
			if len(script) > 0 && r.Intn(3) != 0 {
				op, script = script[0], script[1:]
			} else {
				op = genC07Op(e, r, ctx, players, people, stranger, dens, pick, someCoins)
			}
			before := e.records(ctx)
			holderBefore := app.BankKeeper.GetAllBalances(ctx, holder)
			opCtx, write := ctx.CacheContext()
			var rel sdk.Coins
			err := try(func() error {
				var e2 error
				rel, e2 = op.run(opCtx)
				return e2
			})
			if err == nil {
				write()
			} else {
				rel = nil
			}
			after := e.records(ctx)
			steps = append(steps, "("+op.term+", "+e.observe(ctx, err == nil, rel)+")")
			okMark := "+"
			if err != nil {
				okMark = "-"
			}
			descs = append(descs, okMark+op.desc)
			w.Count("op_" + op.kind)
			totalOps++
			if op.maxRepeat >= 3 {
				w.Count(op.kind + "_naming_a_sender_3_to_5_times")
				if op.kind == "accept" && err == nil && len(after) < len(before) {
					w.Count("accept_naming_a_sender_3_to_5_times_paid_out")
					// another receiver still has funds pending in a denom that was just released
					for _, rec := range after {
						if !rec.to.Equals(op.to) && !rel.IsZero() {
							shared := false
							for _, c := range rec.coins {
								if rel.AmountOf(c.Denom).IsPositive() {
									shared = true
								}
							}
							if shared {
								w.Count("accept_naming_a_sender_3_to_5_times_paid_out_while_other_receiver_pending_same_denom")
								break
							}
						}
					}
				}
			}
			if op.repeatedInput {
				w.Count("multi_in_repeated_input_address")
				if err == nil {
					w.Count("multi_in_repeated_input_address_accepted")
				}
			}
			if err == nil {
				totalOK++
				w.Count("op_" + op.kind + "_accepted")
				holderAfter := app.BankKeeper.GetAllBalances(ctx, holder)
				restricted := func(cs sdk.Coins) bool {
					for _, c := range cs {
						if xfer[c.Denom] != nil {
							return true
						}
					}
					return false
				}
				switch op.kind {
				case "send", "multi_send", "multi_in":
					if !holderAfter.Equal(holderBefore) {
						nQuarantined++
						if len(after) == len(before) {
							nTopUp++
						}
						if diff, _ := holderAfter.SafeSub(holderBefore...); restricted(diff) {
							nRestrQ++
						}
					}
				case "accept":
					if len(after) < len(before) {
						nPayout++
					} else if !rel.IsZero() {
						nPayout++
					} else if sumAcc(after) > sumAcc(before) {
						nPartial++
					}
					if restricted(rel) {
						nRestrPaid++
					}
				case "decline":
					if sumAcc(after) < sumAcc(before) {
						nRevoked++
					}
				}
			} else if op.needsXfer {
				nNoXfer++
			}
		}
		w.CountN("quarantined_transfers", int64(nQuarantined))
		w.CountN("top_ups", int64(nTopUp))
		w.CountN("payouts", int64(nPayout))
		w.CountN("partial_accepts", int64(nPartial))
		w.CountN("declines_revoking_an_acceptance", int64(nRevoked))
		w.CountN("quarantined_transfers_with_restricted_coins", int64(nRestrQ))
		w.CountN("payouts_with_restricted_coins", int64(nRestrPaid))
		w.CountN("rejected_restricted_sender_without_transfer_access", int64(nNoXfer))
		w.CountN(fmt.Sprintf("history_len_%02d_%02d", nOps/10*10, nOps/10*10+9), 1)
		if nQuarantined > 0 && nPayout > 0 {
			w.Nontrivial(strings.Join(descs, ";"))
		}
		var accItems, denItems []string
		for _, a := range e.accts {
			accItems = append(accItems, e.pos(a))
		}
		for _, d := range dens {
			denItems = append(denItems, fmt.Sprintf("%d%%positive", e.denomID(d)))
		}
		term := "CHist " + e.pos(holder) + " " + coqList(accItems) + " " + coqList(denItems) + "\n    " + genesis + "\n    (" + obs0 + ")\n    [" +
			strings.Join(steps, ";\n     ") + "]"
		w.Add(term, map[string]any{"history": hi, "genesis_records": len(gs.QuarantinedFunds), "genesis_opt_in": len(gs.QuarantinedAddresses),
			"ops": descs, "prefix_collision": prefixCollision,
			"note": "accounts: 1=holder, 2/4 20-byte, 3 32-byte, 5 stranger, 101001 33-byte, 102001 40-byte, 103001 255-byte, 102002 40-byte sharing 32 bytes with 102001, 3001 33-byte starting with account 3; +op accepted, -op rejected"})
	}
	w.Stats["ops_total"] = totalOps
	w.Stats["ops_accepted"] = totalOK
	if totalOps > 0 {
		w.Stats["accepted_percent"] = totalOK * 100 / totalOps
	}
	w.Flush(t)
}

func genC07Op(e *c07Env, r *rand.Rand, ctx sdk.Context, players, people []sdk.AccAddress, stranger sdk.AccAddress, dens []string,
	pick func([]sdk.AccAddress) sdk.AccAddress, someCoins func(sdk.Context, sdk.AccAddress, bool) sdk.Coins) c07Op {
	app := e.app
	holder := e.accts[0]
	subset := func(l []sdk.AccAddress, atLeastOne bool) []sdk.AccAddress {
		var out []sdk.AccAddress
		for _, a := range l {
			if r.Intn(2) == 0 {
				out = append(out, a)
			}
		}
		if len(out) == 0 && atLeastOne && len(l) > 0 {
			out = append(out, pick(l))
		}
		return out
	}
	// the senders named in an accept/decline: mostly taken from a real record of `to`
	namedSenders := func() (sdk.AccAddress, []sdk.AccAddress) {
		recs := e.records(ctx)
		var to sdk.AccAddress
		var froms []sdk.AccAddress
		if len(recs) > 0 && r.Intn(10) < 8 {
			rec := recs[r.Intn(len(recs))]
			to = rec.to
			switch r.Intn(6) {
			case 0, 1, 2:
				froms = append(froms, rec.unacc...) // all unaccepted senders
			case 3, 4:
				froms = subset(rec.unacc, true) // only some of them
			default:
				froms = subset(append(append([]sdk.AccAddress{}, rec.unacc...), rec.acc...), true)
			}
		} else {
			to = pick(players)
			froms = subset(players, r.Intn(8) != 0)
		}
		switch r.Intn(8) {
		case 0:
			if len(froms) > 0 {
				froms = append(froms, froms[r.Intn(len(froms))]) // duplicate
			}
		case 1:
			froms = append(froms, stranger) // unknown sender
		case 2:
			froms = append(froms, pick(players))
		case 3: // one sender named 3..5 times, mixed with the others (ValidateBasic allows repeats)
			if len(froms) > 0 {
				f := froms[r.Intn(len(froms))]
				for n := 2 + r.Intn(3); n > 0; n-- {
					froms = append(froms, f)
				}
			}
		case 4: // one sender named 3..5 times, alone
			if len(froms) > 0 {
				f := froms[r.Intn(len(froms))]
				froms = nil
				for n := 3 + r.Intn(3); n > 0; n-- {
					froms = append(froms, f)
				}
			}
		}
		r.Shuffle(len(froms), func(i, j int) { froms[i], froms[j] = froms[j], froms[i] })
		return to, froms
	}

	switch k := r.Intn(100); {
	case k < 9:
		a := pick(players)
		return c07Op{kind: "opt_in", term: "OOptIn " + e.pos(a), desc: "optin " + e.short([]sdk.AccAddress{a}),
			run: e.viaRouter(&quarantine.MsgOptIn{ToAddress: a.String()})}
	case k < 12:
		a := pick(players)
		return c07Op{kind: "opt_out", term: "OOptOut " + e.pos(a), desc: "optout " + e.short([]sdk.AccAddress{a}),
			run: e.viaRouter(&quarantine.MsgOptOut{ToAddress: a.String()})}
	case k < 46: // MsgSend
		from := pick(players)
		to := pick(players)
		if r.Intn(25) == 0 {
			to = holder // paying the holder directly is allowed (it is not a blocked address)
		}
		if r.Intn(30) == 0 {
			to = stranger
		}
		cs := someCoins(ctx, from, r.Intn(6) == 0)
		switch r.Intn(28) { // malformed amounts
		case 0:
			cs = sdk.Coins{}
		case 1:
			cs = sdk.Coins{sdk.Coin{Denom: dens[0], Amount: sdkmath.ZeroInt()}}
		case 2:
			cs = sdk.Coins{sdk.NewInt64Coin(dens[1], 1), sdk.NewInt64Coin(dens[0], 1)}
		case 3:
			cs = sdk.Coins{sdk.NewInt64Coin(dens[0], 1), sdk.NewInt64Coin(dens[0], 2)}
		}
		msg := &banktypes.MsgSend{FromAddress: from.String(), ToAddress: to.String(), Amount: cs}
		return c07Op{kind: "send", term: "OSend " + e.pos(from) + " " + e.pos(to) + " " + e.coins(cs), needsXfer: e.lacksXfer(from, cs),
			desc: fmt.Sprintf("send %s>%s %s", e.short([]sdk.AccAddress{from}), e.short([]sdk.AccAddress{to}), cs), run: e.viaRouter(msg)}
	case k < 56: // MsgMultiSend: one input, 1..3 outputs (receivers may repeat)
		from := pick(players)
		n := 1 + r.Intn(3)
		var outs []banktypes.Output
		var outTerms []string
		var total sdk.Coins
		var tos []sdk.AccAddress
		for i := 0; i < n; i++ {
			to := pick(players)
			cs := someCoins(ctx, from, false)
			// keep the running total within the balance
			if !app.BankKeeper.GetAllBalances(ctx, from).IsAllGTE(total.Add(cs...)) && r.Intn(10) != 0 {
				continue
			}
			if cs.IsZero() {
				continue
			}
			total = total.Add(cs...)
			tos = append(tos, to)
			outs = append(outs, banktypes.Output{Address: to.String(), Coins: cs})
			outTerms = append(outTerms, "("+e.pos(to)+", "+e.coins(cs)+")")
		}
		in := total
		if r.Intn(15) == 0 && len(outs) > 0 { // input and outputs do not add up
			in = total.Add(sdk.NewInt64Coin(dens[0], 1))
		}
		msg := &banktypes.MsgMultiSend{Inputs: []banktypes.Input{{Address: from.String(), Coins: in}}, Outputs: outs}
		return c07Op{kind: "multi_send", term: "OMulti " + e.pos(from) + " " + e.coins(in) + " " + coqList(outTerms), needsXfer: e.lacksXfer(from, total),
			desc: fmt.Sprintf("multisend %s>%s %s", e.short([]sdk.AccAddress{from}), e.short(tos), in), run: e.viaRouter(msg)}
	case k < 62: // many inputs, one output, through the bank keeper
		to := pick(players)
		n := 2 + r.Intn(2)
		var ins []banktypes.Input
		var inTerms []string
		var total sdk.Coins
		var froms []sdk.AccAddress
		used := map[string]bool{}
		repeated := false
		for i := 0; i < n; i++ {
			from := pick(players)
			if used[string(from)] && r.Intn(3) != 0 {
				continue // mostly distinct inputs; a repeated input address is aggregated by the bank before debiting
			}
			cs := someCoins(ctx, from, r.Intn(15) == 0)
			if cs.IsZero() {
				continue
			}
			if used[string(from)] {
				repeated = true
			}
			used[string(from)] = true
			froms = append(froms, from)
			total = total.Add(cs...)
			ins = append(ins, banktypes.Input{Address: from.String(), Coins: cs})
			inTerms = append(inTerms, "("+e.pos(from)+", "+e.coins(cs)+")")
		}
		outs := []banktypes.Output{{Address: to.String(), Coins: total}}
		lacks := false
		for _, in := range ins {
			lacks = lacks || e.lacksXfer(sdk.MustAccAddressFromBech32(in.Address), in.Coins)
		}
		return c07Op{kind: "multi_in", term: "OMultiIn " + coqList(inTerms) + " " + e.pos(to), needsXfer: lacks, repeatedInput: repeated,
			desc: fmt.Sprintf("multiin %s>%s %s", e.short(froms), e.short([]sdk.AccAddress{to}), total),
			run: func(ctx sdk.Context) (sdk.Coins, error) {
				if len(ins) == 0 {
					return nil, fmt.Errorf("no inputs")
				}
				return nil, app.BankKeeper.InputOutputCoinsProv(ctx, ins, outs)
			}}
	case k < 82:
		to, froms := namedSenders()
		return e.acceptOp(to, froms, r.Intn(5) == 0)
	case k < 91:
		to, froms := namedSenders()
		return e.declineOp(to, froms, r.Intn(4) == 0)
	default:
		to := pick(players)
		n := r.Intn(4)
		if n == 0 && r.Intn(3) != 0 {
			n = 1
		}
		var ups []*quarantine.AutoResponseUpdate
		var upTerms []string
		var names []string
		for i := 0; i < n; i++ {
			from := pick(people)
			resp := quarantine.AutoResponse(r.Intn(3))
			if r.Intn(25) == 0 {
				resp = quarantine.AutoResponse(7)
			}
			ups = append(ups, &quarantine.AutoResponseUpdate{FromAddress: from.String(), Response: resp})
			upTerms = append(upTerms, "("+e.pos(from)+", "+autoName(resp)+")")
			names = append(names, e.short([]sdk.AccAddress{from})+"="+autoName(resp))
		}
		msg := &quarantine.MsgUpdateAutoResponses{ToAddress: to.String(), Updates: ups}
		return c07Op{kind: "update_auto", term: "OUpdate " + e.pos(to) + " " + coqList(upTerms),
			desc: fmt.Sprintf("auto %s:%s", e.short([]sdk.AccAddress{to}), strings.Join(names, ",")), run: e.viaRouter(msg)}
	}
}
