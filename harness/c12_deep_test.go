//go:build c12

package harness

import (
	"context"
	"fmt"
	"math/rand"
	"sort"
	"strings"
	"time"

	sdkmath "cosmossdk.io/math"
	"cosmossdk.io/x/feegrant"

	sdk "github.com/cosmos/cosmos-sdk/types"
	authtypes "github.com/cosmos/cosmos-sdk/x/auth/types"
	"github.com/cosmos/cosmos-sdk/x/authz"
	ibctransfertypes "github.com/cosmos/ibc-go/v8/modules/apps/transfer/types"
	clienttypes "github.com/cosmos/ibc-go/v8/modules/core/02-client/types"

	markerkeeper "github.com/provenance-io/provenance/x/marker/keeper"
	markertypes "github.com/provenance-io/provenance/x/marker/types"
)

// ---------------------------------------------------------------------------------------------
// C12, second half.
//
// Part E  withdrawals with their recipient: plain / blocked / a second marker of either type in every
//         status, caller with and without WITHDRAW on the source and DEPOSIT on the recipient.
// Part F  timed histories of ONE MarkerTransferAuthorization: limits in several denoms, allow lists
//         with 0/1/many entries, expiration, partial / exhausting / over-uses, block time moving up
//         to and past the expiration, re-grants through MsgGrant (valid and invalid), MsgRevoke;
//         through the marker keeper's authz handler and through MsgExec; administrators holding
//         TRANSFER, FORCE_TRANSFER, both or neither.  After each step: the stored grant with its
//         expiration.
// Part G  histories of calls on TWO markers with AddAccess / DeleteAccess / Set- and
//         RemoveAdministrator proposals between the other endpoints.
// Part H  AddFinalizeActivateMarker, UpdateParams, the fee allowance's granter, endpoint coverage.
// Part I  the whole-supply escape of AddAccess / DeleteAccess on markers whose bank supply is not the
//         recorded one: floating markers after mints, burns and governance supply changes, finalized
//         markers with pre-existing coins, fixed-supply markers as control; the caller holding all
//         circulating coins (less / more than the record), exactly the record, one less, nothing.
// Part J  MsgIbcTransferRequest through the marker message server of a SECOND marker keeper over the
//         app's stores whose ibc transfer server escrows the token: administrator == sender / another
//         account with, without, with a too small / wrong-recipient grant, with FORCE_TRANSFER.
// ---------------------------------------------------------------------------------------------

func c12Withdraws(e *c12Env, r *rand.Rand, w *CaseWriter) {
	te := e.te
	app, base := e.app, e.base
	type desc map[string]any
	caller := addrN(c12Caller)
	// source markers: active (restricted and coin), and a finalized one (never lets anything out)
	srcs := []struct {
		denom   string
		variant int
		restr   bool
	}{{"xwsra", 2, true}, {"xwsca", 2, false}, {"xwsrf", 1, true}, {"xwscc", 4, false}}
	for _, s := range srcs {
		e.makeMarker(base, s.denom, c12Variants[s.variant], s.restr, false, true, 1000)
		m, _ := app.MarkerKeeper.GetMarkerByDenom(base, s.denom)
		e.fundBypass(base, m.GetAddress(), sdk.NewCoins(sdk.NewInt64Coin("xothercoin", 100000)))
	}
	n := scale(700, 12000)
	for i := 0; i < n; i++ {
		ctx, _ := base.CacheContext()
		s := srcs[0]
		switch k := r.Intn(10); {
		case k < 5:
		case k < 8:
			s = srcs[1]
		case k == 8:
			s = srcs[2]
		default:
			s = srcs[3]
		}
		mask := r.Intn(256)
		if r.Intn(3) != 0 {
			mask |= 8 // Withdraw
		}
		if !s.restr {
			mask &= 63
		}
		e.setRights(ctx, s.denom, caller, mask)
		dst := te.dsts[r.Intn(len(te.dsts))]
		dstRights := 0
		if dst.mark != "" {
			dstRights = r.Intn(256)
			if r.Intn(2) == 0 {
				dstRights |= 4
			} else if r.Intn(2) == 0 {
				dstRights &^= 4
			}
			if dst.mark == "xdestc" || dst.mark == "xdcp" {
				dstRights &= 63
			}
			e.setRights(ctx, dst.mark, caller, dstRights)
		}
		m, _ := app.MarkerKeeper.GetMarkerByDenom(ctx, s.denom)
		toBal := app.BankKeeper.GetBalance(ctx, dst.addr, "xothercoin").Amount
		msg := markertypes.NewMsgWithdrawRequest(caller, dst.addr, s.denom, sdk.NewCoins(sdk.NewInt64Coin("xothercoin", 5)))
		cc, write := ctx.CacheContext()
		err := e.handle(cc, msg)
		if err == nil {
			write()
		}
		moved := app.BankKeeper.GetBalance(ctx, dst.addr, "xothercoin").Amount.Sub(toBal)
		mt := "TCoin"
		if s.restr {
			mt = "TRestricted"
		}
		bal := app.BankKeeper.GetBalance(ctx, caller, s.denom).Amount
		cfg := fmt.Sprintf("{| c_status := %s; c_type := %s; c_rights := %d%%N; c_manager := %s; c_gov := false; c_govctl := %s; c_allsupply := %s; c_supply_zero := %s; c_activated := %s |}",
			c12StatusCoq[m.GetStatus()], mt, mask, coqBool(m.GetManager().Equals(caller)), coqBool(m.HasGovernanceEnabled()),
			coqBool(m.GetSupply().Amount.Equal(bal)), coqBool(m.GetSupply().Amount.IsZero()), coqBool(c12Variants[s.variant].activated))
		w.Add(fmt.Sprintf("CWithdraw %s %s %s %s", cfg, dst.coq(dstRights), coqBool(err == nil), zInt(moved)),
			desc{"part": "withdraw", "source_marker": s.denom, "source_status": m.GetStatus().String(), "caller_rights_on_source": c12RightList(mask),
				"recipient": dst.name, "caller_rights_on_recipient": c12RightList(dstRights), "ok": err == nil, "moved": moved.String()})
		w.Count("withdraw_cases")
		w.Count("withdraw_to_" + dst.name)
		if err == nil {
			w.Count("withdraw_accepted")
			w.Nontrivial(fmt.Sprintf("w/%s/%d/%s/%d", s.denom, mask, dst.name, dstRights))
		}
	}
}

// ---------------------------------------------------------------------------------------------
// Part F
// ---------------------------------------------------------------------------------------------

type c12TGrant struct {
	c12Grant
	exp *time.Time
}

func (te *c12TEnv) storedTGrant(ctx sdk.Context, granter, grantee sdk.AccAddress) *c12TGrant {
	resp, err := te.app.AuthzKeeper.Grants(ctx, &authz.QueryGrantsRequest{Granter: granter.String(), Grantee: grantee.String(), MsgTypeUrl: te.typeURL})
	if err != nil || len(resp.Grants) == 0 {
		return nil
	}
	var a authz.Authorization
	if err := te.app.InterfaceRegistry().UnpackAny(resp.Grants[0].Authorization, &a); err != nil {
		te.t.Fatalf("unpack grant: %v", err)
	}
	mta, ok := a.(*markertypes.MarkerTransferAuthorization)
	if !ok {
		te.t.Fatalf("unexpected authorization %T", a)
	}
	return &c12TGrant{c12Grant{limit: mta.TransferLimit, allow: mta.AllowList}, resp.Grants[0].Expiration}
}

func c12ExpCoq(t *time.Time) string {
	if t == nil {
		return "None"
	}
	return fmt.Sprintf("(Some %s)", zI64(t.Unix()))
}

func (te *c12TEnv) grantRecCoq(g *c12Grant) string {
	return strings.TrimSuffix(strings.TrimPrefix(te.grantCoq(g), "(Some "), ")")
}

func (te *c12TEnv) tgrantCoq(g *c12TGrant) string {
	if g == nil {
		return "None"
	}
	return fmt.Sprintf("(Some {| tg_grant := %s; tg_exp := %s |})", te.grantRecCoq(&g.c12Grant), c12ExpCoq(g.exp))
}

func c12TimedSequences(e *c12Env, r *rand.Rand, w *CaseWriter) {
	te := e.te
	app, base := e.app, e.base
	type desc map[string]any
	admin := addrN(c12Admin)
	n := scale(600, 10000)
	maxLen := scale(9, 14)
	t0 := base.BlockTime()
	if t0.Unix() < 1000 {
		t0 = time.Unix(1700000000, 0).UTC()
	}
	rightsChoices := []int{64, 64, 64, 64, 64 | 128, 128, 64 | 128 | 4, 0}
	for i := 0; i < n; i++ {
		ctx, _ := base.CacheContext()
		now := t0.Add(time.Duration(r.Intn(1000)) * time.Second)
		ctx = ctx.WithBlockTime(now)
		now0 := now.Unix()
		viaExec := r.Intn(2) == 0
		route := "ViaKeeper"
		granter, grantee := addrN(c12Granter), admin
		if viaExec {
			route = "ViaExec"
			granter, grantee = admin, addrN(c12ExecG)
		}
		// the administrator's rights per denom; the MsgExec grantee's own rights are irrelevant (set at random)
		rights := map[string]int{}
		for _, d := range te.denoms {
			rights[d] = rightsChoices[r.Intn(len(rightsChoices))]
			e.setRights(ctx, d, admin, rights[d])
			if viaExec {
				e.setRights(ctx, d, grantee, []int{0, 64, 64 | 128, 255}[r.Intn(4)])
			}
		}
		bal := sdk.Coins{}
		balCoq := []string{}
		for _, d := range te.denoms {
			amt := int64(500)
			if r.Intn(5) == 0 {
				amt = int64(r.Intn(12))
			}
			cur := app.BankKeeper.GetBalance(ctx, granter, d).Amount
			if cur.IsPositive() {
				e.must(app.BankKeeper.SendCoins(markertypes.WithBypass(ctx), granter, markertypes.MustGetMarkerAddress(d), sdk.NewCoins(sdk.NewCoin(d, cur))), "reset balance")
			}
			if amt > 0 {
				e.fundBypass(ctx, granter, sdk.NewCoins(sdk.NewInt64Coin(d, amt)))
			}
			bal = bal.Add(sdk.NewInt64Coin(d, amt))
			balCoq = append(balCoq, fmt.Sprintf("(%d%%N, %d)", te.denomID(d), amt))
		}
		mkGrant := func() *c12Grant {
			g := &c12Grant{}
			for _, d := range te.denoms {
				if r.Intn(3) != 0 {
					g.limit = g.limit.Add(sdk.NewInt64Coin(d, int64(1+r.Intn(30))))
				}
			}
			if g.limit.IsZero() {
				g.limit = sdk.NewCoins(sdk.NewInt64Coin(te.denoms[r.Intn(len(te.denoms))], int64(1+r.Intn(30))))
			}
			nAllow := 0
			switch r.Intn(4) {
			case 0:
				nAllow = 1
			case 1:
				nAllow = 2 + r.Intn(3)
			}
			perm := r.Perm(len(te.recvs))
			for _, k := range perm[:nAllow] {
				g.allow = append(g.allow, te.recvs[k].String())
			}
			return g
		}
		mkExp := func(now time.Time) *time.Time {
			if r.Intn(4) == 0 {
				return nil
			}
			t := now.Add(time.Duration(1+r.Intn(60)) * time.Second)
			return &t
		}
		g0 := mkGrant()
		exp0 := mkExp(now)
		auth := &markertypes.MarkerTransferAuthorization{TransferLimit: g0.limit, AllowList: g0.allow}
		e.must(auth.ValidateBasic(), "grant validate")
		e.must(app.AuthzKeeper.SaveGrant(ctx, grantee, granter, auth, exp0), "save grant")
		issue, issueExp := g0, exp0

		steps := 3 + r.Intn(maxLen-2)
		var obs []string
		var sdesc []map[string]any
		accepted, usedAfterTick, expiredAttempt, regrants := 0, false, false, 0
		ticked := false
		for s := 0; s < steps; s++ {
			cur := te.storedTGrant(ctx, granter, grantee)
			var opCoq string
			var msg sdk.Msg
			var d map[string]any
			var denom string
			var to sdk.AccAddress
			isUse := false
			switch k := r.Intn(20); {
			case k < 12: // a use
				isUse = true
				to = te.recvs[r.Intn(len(te.recvs))]
				if len(issue.allow) > 0 && r.Intn(5) < 3 {
					to = sdk.MustAccAddressFromBech32(issue.allow[r.Intn(len(issue.allow))])
				}
				denom = te.denoms[r.Intn(len(te.denoms))]
				if cur != nil && len(cur.limit) > 0 && r.Intn(6) != 0 {
					denom = cur.limit[r.Intn(len(cur.limit))].Denom
				}
				left := int64(0)
				if cur != nil {
					left = cur.limit.AmountOf(denom).Int64()
				}
				var amt int64
				switch q := r.Intn(20); {
				case q < 10 && left > 1:
					amt = 1 + r.Int63n(left-1)
					if r.Intn(2) == 0 && left > 3 {
						amt = 1 + r.Int63n(left/3)
					}
				case q < 14:
					amt = left // exactly exhausting this denom
				case q < 17:
					amt = left + 1 // over-use by one
				case q == 17:
					amt = 0
				case q == 18:
					amt = -1
				default:
					amt = 1
				}
				inner := &markertypes.MsgTransferRequest{Amount: sdk.Coin{Denom: denom, Amount: sdkmath.NewInt(amt)}, Administrator: admin.String(), FromAddress: granter.String(), ToAddress: to.String()}
				msg = inner
				if viaExec {
					ex := authz.NewMsgExec(grantee, []sdk.Msg{inner})
					msg = &ex
				}
				mk, _ := app.MarkerKeeper.GetMarkerByDenom(ctx, denom)
				opCoq = fmt.Sprintf("(SUse {| m_to := %d%%N; m_denom := %d%%N; m_amt := %s |} %d%%N %s)", te.id(to.String()), te.denomID(denom), zI64(amt), rights[denom], coqBool(mk.AllowsForcedTransfer()))
				d = map[string]any{"op": "use", "to": te.id(to.String()), "denom": denom, "amount": amt, "admin_rights": c12RightList(rights[denom]), "forced_transfer_allowed": mk.AllowsForcedTransfer()}
				if issueExp != nil && now.After(*issueExp) {
					expiredAttempt = true
				}
			case k < 16: // block time moves
				var dt int64
				switch q := r.Intn(6); {
				case q < 2 || issueExp == nil:
					dt = int64(1 + r.Intn(20))
				case q == 2: // land exactly on the expiration
					dt = issueExp.Unix() - now.Unix()
				case q == 3: // one second past it
					dt = issueExp.Unix() - now.Unix() + 1
				default:
					dt = issueExp.Unix() - now.Unix() + int64(r.Intn(40)) - 10
				}
				if dt < 0 {
					dt = 0
				}
				now = now.Add(time.Duration(dt) * time.Second)
				ctx = ctx.WithBlockTime(now)
				opCoq = fmt.Sprintf("(STick %d)", dt)
				d = map[string]any{"op": "tick", "seconds": dt}
				ticked = true
			case k < 19: // re-grant
				ng := mkGrant()
				ne := mkExp(now)
				switch r.Intn(8) {
				case 0: // expiration not after the block time
					t := now.Add(-time.Duration(r.Intn(3)) * time.Second)
					ne = &t
				case 1: // nothing granted
					ng.limit = sdk.Coins{}
				}
				a := &markertypes.MarkerTransferAuthorization{TransferLimit: ng.limit, AllowList: ng.allow}
				mg, err := authz.NewMsgGrant(granter, grantee, a, ne)
				e.must(err, "MsgGrant")
				msg = mg
				opCoq = fmt.Sprintf("(SGrant %s %s)", te.grantRecCoq(ng), c12ExpCoq(ne))
				d = map[string]any{"op": "grant", "limit": ng.limit.String(), "allow_list": c12IDs(te, ng.allow), "expiration": c12ExpStr(ne)}
				// remembered below when accepted
				d["_g"], d["_e"] = ng, ne
			default: // revoke
				rv := authz.NewMsgRevoke(granter, grantee, te.typeURL)
				msg = &rv
				opCoq = "SRevoke"
				d = map[string]any{"op": "revoke"}
			}
			ok := true
			var dTo, dFrom sdkmath.Int = sdkmath.ZeroInt(), sdkmath.ZeroInt()
			if msg != nil {
				var fromB, toB sdkmath.Int
				if isUse {
					fromB = app.BankKeeper.GetBalance(ctx, granter, denom).Amount
					toB = app.BankKeeper.GetBalance(ctx, to, denom).Amount
				}
				cc, write := ctx.CacheContext()
				err := e.handle(cc, msg)
				ok = err == nil
				if ok {
					write()
				}
				if isUse {
					dFrom = fromB.Sub(app.BankKeeper.GetBalance(ctx, granter, denom).Amount)
					dTo = app.BankKeeper.GetBalance(ctx, to, denom).Amount.Sub(toB)
					if ok {
						accepted++
						if ticked {
							usedAfterTick = true
						}
					}
				}
				if g, isGrant := d["_g"]; isGrant {
					if ok {
						issue, issueExp = g.(*c12Grant), d["_e"].(*time.Time)
						regrants++
					}
					delete(d, "_g")
					delete(d, "_e")
				}
			}
			post := te.storedTGrant(ctx, granter, grantee)
			obs = append(obs, fmt.Sprintf("{| to_op := %s; to_ok := %s; to_to_delta := %s; to_from_delta := %s; to_grant := %s |}",
				opCoq, coqBool(ok), zInt(dTo), zInt(dFrom), te.tgrantCoq(post)))
			d["ok"] = ok
			d["block_time"] = now.Unix()
			d["stored_limit_after"] = c12LimitStr(c12Plain(post))
			d["stored_expiration_after"] = c12TExp(post)
			sdesc = append(sdesc, d)
			w.Count("timed_steps")
			if isUse {
				w.Count("timed_uses")
				if ok {
					w.Count("timed_uses_accepted")
				}
			}
		}
		w.Add(fmt.Sprintf("CSeqT %s %s %s %s %s %s", route, te.grantRecCoq(g0), c12ExpCoq(exp0), coqList(balCoq), zI64(now0), coqList(obs)),
			desc{"part": "timed-sequence", "route": route, "limit": g0.limit.String(), "allow_list": c12IDs(te, g0.allow), "expiration": c12ExpStr(exp0),
				"admin_rights": rights, "granter_balance": bal.String(), "steps": sdesc})
		w.Count("timed_cases")
		if exp0 != nil {
			w.Count("timed_with_expiration")
		}
		if expiredAttempt {
			w.Count("timed_use_attempted_after_expiry")
		}
		if usedAfterTick {
			w.Count("timed_use_accepted_after_time_moved")
		}
		if regrants > 0 {
			w.Count("timed_with_accepted_regrant")
		}
		if accepted >= 2 {
			w.Nontrivial("st/" + strings.Join(obs, ";"))
		}
	}
}

func c12ExpStr(t *time.Time) string {
	if t == nil {
		return "none"
	}
	return fmt.Sprintf("%d", t.Unix())
}
func c12Plain(g *c12TGrant) *c12Grant {
	if g == nil {
		return nil
	}
	return &g.c12Grant
}
func c12TExp(g *c12TGrant) string {
	if g == nil {
		return "(no grant)"
	}
	return c12ExpStr(g.exp)
}

// ---------------------------------------------------------------------------------------------
// Part G
// ---------------------------------------------------------------------------------------------

const c12HBase = 600 // history callers: addrN(601..605)

type c12HMarker struct {
	denom string
	restr bool
	which string
}

func c12Histories(e *c12Env, r *rand.Rand, w *CaseWriter) {
	app, base := e.app, e.base
	type desc map[string]any
	pool := []sdk.AccAddress{}
	ids := map[string]int{}
	for i := 1; i <= 5; i++ {
		a := addrN(c12HBase + i)
		ensureAccount(app, base, a)
		pool = append(pool, a)
		ids[a.String()] = i
	}
	ids[e.gov.String()] = 9
	idOf := func(a string) int {
		if v, ok := ids[a]; ok {
			return v
		}
		v := 20 + len(ids)
		ids[a] = v
		return v
	}
	probeOps := []string{"OMint", "OBurn", "OWithdraw", "OSetMetadata", "OSetAccountData", "OUpdateDenyList", "OUpdateReqAttrs", "OGrantAllowance", "OAddNav"}
	lifeOps := []string{"OFinalize", "OActivate", "OCancel", "ODelete"}
	needs := map[string]int{"OMint": 1, "OBurn": 2, "OWithdraw": 8, "OCancel": 16, "ODelete": 16, "OAddAccess": 32, "ODeleteAccess": 32, "OSetMetadata": 32,
		"OSetAccountData": 4, "OUpdateDenyList": 64, "OUpdateReqAttrs": 64, "OGrantAllowance": 32, "OAddNav": 255}
	n := scale(260, 4000)
	maxLen := scale(14, 22)
	for i := 0; i < n; i++ {
		ctx, _ := base.CacheContext()
		mks := []c12HMarker{{"xhista", true, "MA"}, {"xhistb", r.Intn(2) == 0, "MB"}}
		managers := []sdk.AccAddress{pool[r.Intn(2)], pool[r.Intn(3)]}
		activated := []bool{false, false}
		mkCoq := func(k int) string {
			m, err := app.MarkerKeeper.GetMarkerByDenom(ctx, mks[k].denom)
			e.must(err, "get "+mks[k].denom)
			if m.GetStatus() == markertypes.StatusActive {
				activated[k] = true
			}
			mt := "TCoin"
			if mks[k].restr {
				mt = "TRestricted"
			}
			mgr := "None"
			if !m.GetManager().Empty() {
				mgr = fmt.Sprintf("(Some %d%%N)", idOf(m.GetManager().String()))
			}
			var al []string
			for _, g := range m.GetAccessList() {
				mask := 0
				for _, p := range g.Permissions {
					mask |= 1 << (int(p) - 1)
				}
				al = append(al, fmt.Sprintf("(%d%%N, %d%%N)", idOf(g.Address), mask))
			}
			return fmt.Sprintf("{| mk_status := %s; mk_type := %s; mk_manager := %s; mk_access := %s; mk_govctl := %s; mk_activated := %s |}",
				c12StatusCoq[m.GetStatus()], mt, mgr, coqList(al), coqBool(m.HasGovernanceEnabled()), coqBool(activated[k]))
		}
		for k, mk := range mks {
			mt := markertypes.MarkerType_Coin
			limit := 64
			if mk.restr {
				mt = markertypes.MarkerType_RestrictedCoin
				limit = 256
			}
			var access []markertypes.AccessGrant
			for _, a := range pool {
				if r.Intn(3) == 0 {
					if mask := r.Intn(limit); mask != 0 {
						access = append(access, markertypes.AccessGrant{Address: a.String(), Permissions: c12Perms(mask)})
					}
				}
			}
			ma := markertypes.NewMarkerAccount(authtypes.NewBaseAccountWithAddress(markertypes.MustGetMarkerAddress(mk.denom)),
				sdk.NewInt64Coin(mk.denom, 1000), managers[k], access, markertypes.StatusProposed, mt, true, r.Intn(4) != 0, false, nil)
			e.must(app.MarkerKeeper.AddMarkerAccount(ctx, ma), "add "+mk.denom)
		}
		s0 := fmt.Sprintf("{| h_a := %s; h_b := %s |}", mkCoq(0), mkCoq(1))
		steps := 6 + r.Intn(maxLen-5)
		var obs []string
		var sdesc []map[string]any
		acceptedChanges, crossProbes, afterRevoke := 0, 0, 0
		lastGranted := map[int]sdk.AccAddress{} // marker -> address last granted rights there
		lastRevoked := map[int]sdk.AccAddress{}
		for s := 0; s < steps; s++ {
			k := r.Intn(2)
			mk := mks[k]
			m, _ := app.MarkerKeeper.GetMarkerByDenom(ctx, mk.denom)
			holders := func(bit int) []sdk.AccAddress {
				var out []sdk.AccAddress
				for _, g := range m.GetAccessList() {
					mask := 0
					for _, p := range g.Permissions {
						mask |= 1 << (int(p) - 1)
					}
					if mask&bit != 0 {
						out = append(out, sdk.MustAccAddressFromBech32(g.Address))
					}
				}
				return out
			}
			var op string
			switch q := r.Intn(100); {
			case q < 24:
				op = "OAddAccess"
			case q < 36:
				op = "ODeleteAccess"
			case q < 52:
				op = lifeOps[r.Intn(len(lifeOps))]
				// mostly the transition that fits the status
				switch m.GetStatus() {
				case markertypes.StatusProposed:
					if r.Intn(3) != 0 {
						op = "OFinalize"
					}
				case markertypes.StatusFinalized:
					if r.Intn(3) != 0 {
						op = "OActivate"
					}
				case markertypes.StatusCancelled:
					if r.Intn(2) == 0 {
						op = "ODelete"
					}
				}
			case q < 60:
				op = []string{"OSetAdministrator", "ORemoveAdministrator"}[r.Intn(2)]
			default:
				op = probeOps[r.Intn(len(probeOps))]
			}
			// the caller: somebody who fits most of the time, otherwise anybody -- in particular the
			// address that was just granted the right on the OTHER marker, or just lost it on this one
			var caller sdk.AccAddress
			cand := holders(needs[op])
			switch q := r.Intn(10); {
			case c12GovOnly[op]:
				caller = e.gov
				if r.Intn(4) == 0 {
					caller = pool[r.Intn(len(pool))]
				}
			case q < 4 && len(cand) > 0:
				caller = cand[r.Intn(len(cand))]
			case q < 6 && !m.GetManager().Empty():
				caller = m.GetManager()
			case q == 6 && lastGranted[1-k] != nil:
				caller = lastGranted[1-k]
				crossProbes++
			case q == 7 && lastRevoked[k] != nil:
				caller = lastRevoked[k]
				afterRevoke++
			case q == 8:
				caller = e.gov
			default:
				caller = pool[r.Intn(len(pool))]
			}
			target := pool[r.Intn(len(pool))]
			mask := 0
			if op == "OAddAccess" || op == "OSetAdministrator" {
				limit := 256
				if !mk.restr && r.Intn(6) != 0 {
					limit = 64 // otherwise: Transfer / ForceTransfer on a coin marker, refused by Validate
				}
				mask = 1 + r.Intn(limit-1)
				if r.Intn(3) == 0 {
					mask = 1 << r.Intn(8)
					if !mk.restr && mask >= 64 && r.Intn(6) != 0 {
						mask = 32
					}
				}
			}
			if op == "ODeleteAccess" || op == "ORemoveAdministrator" {
				if hs := holders(255); len(hs) > 0 && r.Intn(4) != 0 {
					target = hs[r.Intn(len(hs))]
				}
			}
			var msg sdk.Msg
			markerAddr := m.GetAddress()
			switch op {
			case "OAddAccess":
				msg = markertypes.NewMsgAddAccessRequest(mk.denom, caller, markertypes.AccessGrant{Address: target.String(), Permissions: c12Perms(mask)})
			case "ODeleteAccess":
				msg = markertypes.NewDeleteAccessRequest(mk.denom, caller, target)
			case "OSetAdministrator":
				msg = markertypes.NewMsgSetAdministratorProposalRequest(mk.denom, []markertypes.AccessGrant{{Address: target.String(), Permissions: c12Perms(mask)}}, caller.String())
			case "ORemoveAdministrator":
				msg = markertypes.NewMsgRemoveAdministratorProposalRequest(mk.denom, []string{target.String()}, caller.String())
			case "OUpdateDenyList":
				if app.MarkerKeeper.IsSendDeny(ctx, markerAddr, addrN(c12Denied)) {
					msg = markertypes.NewMsgUpdateSendDenyListRequest(mk.denom, caller, []string{addrN(c12Denied).String()}, nil)
				} else {
					msg = markertypes.NewMsgUpdateSendDenyListRequest(mk.denom, caller, nil, []string{addrN(c12Denied).String()})
				}
			case "OUpdateReqAttrs":
				has := false
				for _, a := range m.GetRequiredAttributes() {
					if a == "kyc.verif.c12" {
						has = true
					}
				}
				if has {
					msg = markertypes.NewMsgUpdateRequiredAttributesRequest(mk.denom, caller, []string{"kyc.verif.c12"}, nil)
				} else {
					msg = markertypes.NewMsgUpdateRequiredAttributesRequest(mk.denom, caller, nil, []string{"kyc.verif.c12"})
				}
			case "OGrantAllowance":
				ga, err := markertypes.NewMsgGrantAllowance(mk.denom, caller, addrN(7000+i*64+s), &feegrant.BasicAllowance{SpendLimit: sdk.NewCoins(sdk.NewInt64Coin("nhash", 10))})
				e.must(err, "allowance msg")
				msg = ga
			default:
				msg = e.opMsg(op, mk.denom, caller)
			}
			// what the decision reads from the bank
			bal := app.BankKeeper.GetBalance(ctx, caller, mk.denom).Amount
			allSupply := m.GetSupply().Amount.Equal(bal)
			supplyZero := m.GetSupply().Amount.IsZero()
			if supplyZero && m.GetStatus() != markertypes.StatusDestroyed { // DeleteMarker burns the supply
				e.t.Fatalf("history %d: supply of %s reached zero", i, mk.denom)
			}
			cc, write := ctx.CacheContext()
			if op == "OWithdraw" {
				// funded inside the call's own cache: nothing of it stays behind when the call is refused
				e.fundBypass(cc, markerAddr, sdk.NewCoins(sdk.NewInt64Coin("xothercoin", 5)))
			}
			err := e.handle(cc, msg)
			if err == nil {
				write()
				switch op {
				case "OAddAccess", "OSetAdministrator":
					lastGranted[k] = target
					acceptedChanges++
				case "ODeleteAccess", "ORemoveAdministrator":
					lastRevoked[k] = target
					acceptedChanges++
				}
			}
			opCoq := fmt.Sprintf("{| ho_on := %s; ho_caller := %d%%N; ho_op := %s; ho_target := %d%%N; ho_mask := %d%%N; ho_env := {| e_gov := %s; e_allsupply := %s; e_supply_zero := %s |} |}",
				mk.which, idOf(caller.String()), op, idOf(target.String()), mask, coqBool(caller.Equals(e.gov)), coqBool(allSupply), coqBool(supplyZero))
			obs = append(obs, fmt.Sprintf("{| hs_op := %s; hs_ok := %s; hs_a := %s; hs_b := %s |}", opCoq, coqBool(err == nil), mkCoq(0), mkCoq(1)))
			sdesc = append(sdesc, map[string]any{"marker": mk.which, "op": op, "caller": idOf(caller.String()), "target": idOf(target.String()), "rights_in_request": c12RightList(mask),
				"status_before": m.GetStatus().String(), "ok": err == nil})
			w.Count("history_calls")
			if err == nil {
				w.Count("history_calls_accepted")
			}
		}
		w.Add(fmt.Sprintf("CHist %s %s", s0, coqList(obs)), desc{"part": "history", "marker_b_restricted": mks[1].restr, "calls": sdesc})
		w.Count("history_cases")
		w.CountN("history_probes_with_rights_of_the_other_marker", int64(crossProbes))
		w.CountN("history_calls_by_a_just_revoked_address", int64(afterRevoke))
		if acceptedChanges >= 2 {
			w.Nontrivial("h/" + strings.Join(obs, ";"))
		}
	}
}

// ---------------------------------------------------------------------------------------------
// Part H
// ---------------------------------------------------------------------------------------------

func c12Misc(e *c12Env, r *rand.Rand, w *CaseWriter) {
	app, base := e.app, e.base
	type desc map[string]any
	caller := addrN(c12Caller)
	// AddFinalizeActivateMarker: anybody may create a NEW marker; rights on an existing one do not let
	// anybody create it again
	existing := []struct {
		denom   string
		variant int
	}{{"xcrp", 0}, {"xcrf", 1}, {"xcra", 2}, {"xcrc", 4}, {"xcrd", 6}}
	for _, x := range existing {
		e.makeMarker(base, x.denom, c12Variants[x.variant], true, false, true, 1000)
	}
	n := scale(24, 200)
	for i := 0; i < n; i++ {
		ctx, _ := base.CacheContext()
		denom := fmt.Sprintf("xnew%03d", i)
		exists := i%2 == 1
		rights := 0
		if exists {
			x := existing[r.Intn(len(existing))]
			denom = x.denom
			rights = []int{0, 255, 32, r.Intn(256)}[r.Intn(4)]
			e.setRights(ctx, denom, caller, rights)
		}
		from := caller
		if r.Intn(3) == 0 {
			from = addrN(c12Manager)
		}
		msg := markertypes.NewMsgAddFinalizeActivateMarkerRequest(denom, sdkmath.NewInt(1000), from, from, markertypes.MarkerType_RestrictedCoin, true, true, false, nil,
			[]markertypes.AccessGrant{{Address: from.String(), Permissions: []markertypes.Access{markertypes.Access_Mint, markertypes.Access_Admin}}}, 0, 0)
		cc, write := ctx.CacheContext()
		err := e.handle(cc, msg)
		if err == nil {
			write()
		}
		after, mgr := "SDestroyed", false
		if m, gerr := app.MarkerKeeper.GetMarkerByDenom(ctx, denom); gerr == nil {
			after, mgr = c12StatusCoq[m.GetStatus()], !m.GetManager().Empty()
		}
		w.Add(fmt.Sprintf("CCreate %s %d%%N %s %s %s", coqBool(exists), rights, coqBool(err == nil), after, coqBool(mgr)),
			desc{"part": "create", "denom": denom, "exists_already": exists, "caller_rights_on_existing": c12RightList(rights), "ok": err == nil, "status_after": after})
		w.Count("create_cases")
		if err == nil {
			w.Count("create_accepted")
			w.Nontrivial("c/" + denom)
		}
	}
	// UpdateParams
	params := app.MarkerKeeper.GetParams(base)
	for _, c := range []struct {
		who   sdk.AccAddress
		isGov bool
	}{{e.gov, true}, {caller, false}, {addrN(c12Manager), false}, {authtypes.NewModuleAddress("marker"), false}} {
		ctx, _ := base.CacheContext()
		err := e.handle(ctx, &markertypes.MsgUpdateParamsRequest{Authority: c.who.String(), Params: params})
		w.Add(fmt.Sprintf("CGovParams %s %s", coqBool(c.isGov), coqBool(err == nil)), desc{"part": "params", "caller_is_governance": c.isGov, "ok": err == nil})
		w.Count("params_cases")
	}
	// which endpoints of the table the access matrix ran
	var ops []string
	for op := range e.opsRun {
		ops = append(ops, op)
	}
	sort.Strings(ops)
	w.Add("CCoverage "+coqList(ops), desc{"part": "coverage", "endpoints_exercised": ops})
}

// ---------------------------------------------------------------------------------------------
// Part I
// ---------------------------------------------------------------------------------------------

const c12SupplyOps = 110 // holds mint, burn, withdraw on the floating markers

func c12FloatingSupply(e *c12Env, r *rand.Rand, w *CaseWriter) {
	app, base := e.app, e.base
	type desc map[string]any
	caller, opsAddr, mgr := addrN(c12Caller), addrN(c12SupplyOps), addrN(c12Manager)
	ensureAccount(app, base, opsAddr)
	n := scale(600, 10000)
	for i := 0; i < n; i++ {
		ctx, _ := base.CacheContext()
		denom := "xfloat"
		fixed := r.Intn(4) == 0
		restricted := r.Intn(2) == 0
		finalizedOnly := r.Intn(5) == 0
		mt, mtCoq := markertypes.MarkerType_Coin, "TCoin"
		if restricted {
			mt, mtCoq = markertypes.MarkerType_RestrictedCoin, "TRestricted"
		}
		access := []markertypes.AccessGrant{
			{Address: addrN(c12Minter).String(), Permissions: []markertypes.Access{markertypes.Access_Mint}},
			{Address: opsAddr.String(), Permissions: []markertypes.Access{markertypes.Access_Mint, markertypes.Access_Burn, markertypes.Access_Withdraw}},
			{Address: addrN(c12Third).String(), Permissions: []markertypes.Access{markertypes.Access_Deposit}},
		}
		ma := markertypes.NewMarkerAccount(authtypes.NewBaseAccountWithAddress(markertypes.MustGetMarkerAddress(denom)),
			sdk.NewInt64Coin(denom, 1000), mgr, access, markertypes.StatusProposed, mt, fixed, true, false, nil)
		e.must(app.MarkerKeeper.AddMarkerAccount(ctx, ma), "add "+denom)
		maddr := ma.GetAddress()
		var changes []string
		if finalizedOnly {
			// coins of the denom that exist before the marker is finalized
			if pre := []int64{0, 300, 1000, 1}[r.Intn(4)]; pre > 0 {
				e.fundBypass(ctx, caller, sdk.NewCoins(sdk.NewInt64Coin(denom, pre)))
				changes = append(changes, fmt.Sprintf("pre-existing %d", pre))
			}
			e.must(app.MarkerKeeper.FinalizeMarker(ctx, mgr, denom), "finalize")
		} else {
			e.must(app.MarkerKeeper.FinalizeMarker(ctx, mgr, denom), "finalize")
			e.must(app.MarkerKeeper.ActivateMarker(ctx, mgr, denom), "activate")
			for k := r.Intn(4); k > 0; k-- {
				amt := int64(1 + r.Intn(600))
				if r.Intn(4) == 0 {
					amt = 400
				}
				var msg sdk.Msg
				var what string
				switch r.Intn(4) {
				case 0:
					msg, what = markertypes.NewMsgMintRequest(opsAddr, sdk.NewInt64Coin(denom, amt)), "mint"
				case 1:
					msg, what = markertypes.NewMsgBurnRequest(opsAddr, sdk.NewInt64Coin(denom, amt)), "burn"
				case 2:
					msg, what = markertypes.NewMsgSupplyIncreaseProposalRequest(sdk.NewInt64Coin(denom, amt), "", e.gov.String()), "gov-increase"
				default:
					msg, what = markertypes.NewMsgSupplyDecreaseProposalRequest(sdk.NewInt64Coin(denom, amt), e.gov.String()), "gov-decrease"
				}
				cc, write := ctx.CacheContext()
				if err := e.handle(cc, msg); err == nil {
					write()
					changes = append(changes, fmt.Sprintf("%s %d", what, amt))
				}
			}
		}
		m, err := app.MarkerKeeper.GetMarkerByDenom(ctx, denom)
		e.must(err, "get "+denom)
		record := m.GetSupply().Amount
		escrow := app.BankKeeper.GetBalance(ctx, maddr, denom).Amount
		// what the caller ends up holding
		mode := "as-is"
		if !finalizedOnly {
			var give sdkmath.Int
			switch r.Intn(8) {
			case 0, 1, 2:
				mode, give = "all-circulating", escrow
			case 3:
				mode, give = "exactly-the-record", record
			case 4:
				mode, give = "all-circulating-but-one", escrow.SubRaw(1)
			case 5:
				mode, give = "the-record-less-one", record.SubRaw(1)
			case 6:
				mode, give = "nothing", sdkmath.ZeroInt()
			default:
				mode, give = "some", sdkmath.NewInt(int64(r.Intn(1000)))
			}
			if give.GT(escrow) {
				give = escrow
			}
			if give.IsPositive() {
				e.must(app.BankKeeper.SendCoins(markertypes.WithBypass(ctx), maddr, caller, sdk.NewCoins(sdk.NewCoin(denom, give))), "hand out")
			}
		}
		mask := 0
		switch r.Intn(10) {
		case 0:
			mask = 32
		case 1:
			mask = r.Intn(64)
		}
		e.setRights(ctx, denom, caller, mask)
		m, _ = app.MarkerKeeper.GetMarkerByDenom(ctx, denom)
		bank := app.BankKeeper.GetSupply(ctx, denom).Amount
		bal := app.BankKeeper.GetBalance(ctx, caller, denom).Amount
		op := []string{"OAddAccess", "ODeleteAccess"}[r.Intn(2)]
		before := m.GetStatus()
		cc, write := ctx.CacheContext()
		err = e.handle(cc, e.opMsg(op, denom, caller))
		if err == nil {
			write()
		}
		after := before
		if m2, err2 := app.MarkerKeeper.GetMarkerByDenom(ctx, denom); err2 == nil {
			after = m2.GetStatus()
		}
		cfg := fmt.Sprintf("{| c_status := %s; c_type := %s; c_rights := %d%%N; c_manager := %s; c_gov := false; c_govctl := %s; c_allsupply := false; c_supply_zero := false; c_activated := %s |}",
			c12StatusCoq[before], mtCoq, mask, coqBool(m.GetManager().Equals(caller)), coqBool(m.HasGovernanceEnabled()), coqBool(!finalizedOnly))
		sf := fmt.Sprintf("{| sf_record := %s; sf_bank := %s; sf_balance := %s |}", zInt(record), zInt(bank), zInt(bal))
		w.Add(fmt.Sprintf("CSupply %s %s %s %s %s", cfg, sf, op, coqBool(err == nil), c12StatusCoq[after]),
			desc{"part": "floating-supply", "op": op, "status": before.String(), "type": mtCoq, "supply_fixed": fixed, "supply_changes": changes, "caller_holds": mode,
				"recorded_supply": record.String(), "bank_supply": bank.String(), "caller_balance": bal.String(), "rights": c12RightList(mask), "ok": err == nil})
		w.Count("supply_cases")
		if !record.Equal(bank) {
			w.Count("supply_bank_differs_from_record")
			if bal.Equal(bank) && bal.IsPositive() {
				if bal.LT(record) {
					w.Count("supply_caller_holds_all_circulating_less_than_record")
				} else {
					w.Count("supply_caller_holds_all_circulating_more_than_record")
				}
			}
			if bal.Equal(record) && err == nil && mask&32 == 0 {
				w.Count("supply_accepted_holding_the_record_but_not_all_circulating")
			}
		}
		if err == nil {
			w.Count("supply_accepted")
			w.Nontrivial(fmt.Sprintf("f/%s/%s/%s/%s/%s/%d", op, before, record, bank, bal, mask))
		}
	}
}

// ---------------------------------------------------------------------------------------------
// Part J
// ---------------------------------------------------------------------------------------------

// c12IbcServer stands in for the ibc transfer module's message server: the token goes into the
// channel's escrow account.
type c12IbcServer struct {
	send func(ctx context.Context, from, to sdk.AccAddress, amt sdk.Coins) error
}

func (s *c12IbcServer) Transfer(goCtx context.Context, msg *ibctransfertypes.MsgTransfer) (*ibctransfertypes.MsgTransferResponse, error) {
	sender, err := sdk.AccAddressFromBech32(msg.Sender)
	if err != nil {
		return nil, err
	}
	escrow := ibctransfertypes.GetEscrowAddress(msg.SourcePort, msg.SourceChannel)
	if err = s.send(goCtx, sender, escrow, sdk.NewCoins(msg.Token)); err != nil {
		return nil, err
	}
	return &ibctransfertypes.MsgTransferResponse{Sequence: 1}, nil
}

func c12Ibc(e *c12Env, r *rand.Rand, w *CaseWriter) {
	te := e.te
	app, base := e.app, e.base
	type desc map[string]any
	admin := addrN(c12Admin)
	// a second marker keeper over the same stores and keepers, with the stand-in ibc transfer server
	mk := markerkeeper.NewKeeper(app.AppCodec(), app.GetKey(markertypes.StoreKey), app.AccountKeeper, app.BankKeeper, app.AuthzKeeper,
		app.FeeGrantKeeper, app.AttributeKeeper, app.NameKeeper, &c12IbcServer{send: app.BankKeeper.SendCoins}, nil, nil)
	server := markerkeeper.NewMsgServerImpl(mk)
	port, channel := "transfer", "channel-7"
	escrow := ibctransfertypes.GetEscrowAddress(port, channel)
	n := scale(1200, 20000)
	for i := 0; i < n; i++ {
		ctx, _ := base.CacheContext()
		denom := te.denoms[r.Intn(2)] // xrca (no forced transfer) or xrcb (forced transfer allowed)
		status, mtype := "SActive", "TRestricted"
		switch r.Intn(25) {
		case 0:
			denom, status = "xrcp", "SProposed"
		case 1:
			denom, status = "xrcf", "SFinalized"
		case 2:
			denom, mtype = "xcoin", "TCoin"
		}
		mask := c12TransferMasks(r)
		if r.Intn(2) == 0 {
			mask |= 64
		}
		if mtype == "TCoin" {
			mask &= 63
		}
		e.setRights(ctx, denom, admin, mask)
		m, _ := app.MarkerKeeper.GetMarkerByDenom(ctx, denom)
		src := te.srcs[r.Intn(len(te.srcs))]
		switch r.Intn(6) {
		case 0:
			src = te.srcs[0] // the administrator's own account
		case 1, 2:
			src = te.srcs[1] // an account that has signed
		}
		if src.addr == nil {
			src.addr = m.GetAddress()
		}
		recv := te.recvs[r.Intn(len(te.recvs))]
		amt := int64(1 + r.Intn(20))
		switch r.Intn(20) {
		case 0:
			amt = 0
		case 1:
			amt = 501 + int64(r.Intn(100))
		case 2:
			amt = 500
		case 3:
			amt = -1 - int64(r.Intn(5))
		}
		var g *c12Grant
		gkind := "none"
		if !src.addr.Equals(admin) || r.Intn(4) == 0 {
			other := te.denoms[r.Intn(len(te.denoms))]
			if other == denom {
				other = te.denoms[(te.denomID(denom))%len(te.denoms)]
			}
			pos := amt
			if pos <= 0 {
				pos = 1
			}
			switch r.Intn(10) {
			case 0, 1, 2:
				gkind, g = "enough", &c12Grant{limit: sdk.NewCoins(sdk.NewInt64Coin(denom, pos+int64(1+r.Intn(50))))}
			case 3:
				gkind, g = "enough-two-denoms", &c12Grant{limit: sdk.NewCoins(sdk.NewInt64Coin(denom, pos+int64(1+r.Intn(50))), sdk.NewInt64Coin(other, 7))}
			case 4:
				gkind, g = "exact", &c12Grant{limit: sdk.NewCoins(sdk.NewInt64Coin(denom, pos))}
			case 5:
				if pos > 1 {
					gkind, g = "too-small", &c12Grant{limit: sdk.NewCoins(sdk.NewInt64Coin(denom, pos-1))}
				}
			case 6:
				gkind, g = "other-denom-only", &c12Grant{limit: sdk.NewCoins(sdk.NewInt64Coin(other, 100))}
			case 7:
				first := te.recvs[0]
				if first.Equals(recv) {
					first = te.recvs[1]
				}
				gkind, g = "allow-list-has-receiver", &c12Grant{limit: sdk.NewCoins(sdk.NewInt64Coin(denom, pos+10)), allow: []string{first.String(), recv.String()}}
			case 8:
				al := []string{}
				for _, a := range te.recvs {
					if !a.Equals(recv) && len(al) < 2 {
						al = append(al, a.String())
					}
				}
				gkind, g = "allow-list-misses-receiver", &c12Grant{limit: sdk.NewCoins(sdk.NewInt64Coin(denom, pos+10)), allow: al}
			}
			if g != nil {
				te.saveGrant(ctx, src.addr, admin, g)
			}
		}
		pre := te.storedGrant(ctx, src.addr, admin)
		fromBal := app.BankKeeper.SpendableCoins(ctx, src.addr).AmountOf(denom)
		escBal := app.BankKeeper.GetBalance(ctx, escrow, denom).Amount
		fromAcct := te.acctCoq(ctx, src.addr)
		msg := markertypes.NewMsgIbcTransferRequest(admin.String(), port, channel, sdk.Coin{Denom: denom, Amount: sdkmath.NewInt(amt)},
			src.addr.String(), recv.String(), clienttypes.NewHeight(1, 1000), 0, "")
		cc, write := ctx.CacheContext()
		err := try(func() error { _, err := server.IbcTransfer(cc, msg); return err })
		if err == nil {
			write()
		}
		post := te.storedGrant(ctx, src.addr, admin)
		dFrom := fromBal.Sub(app.BankKeeper.SpendableCoins(ctx, src.addr).AmountOf(denom))
		dEsc := app.BankKeeper.GetBalance(ctx, escrow, denom).Amount.Sub(escBal)
		x := fmt.Sprintf("{| x_status := %s; x_type := %s; x_rights := %d%%N; x_forced := %s; x_self := %s; x_from := %s; x_dest := DPlain; x_grant := %s; x_msg := {| m_to := %d%%N; m_denom := %d%%N; m_amt := %s |}; x_frombal := %s |}",
			status, mtype, mask, coqBool(m.AllowsForcedTransfer()), coqBool(src.addr.Equals(admin)), fromAcct, te.grantCoq(pre),
			te.id(recv.String()), te.denomID(denom), zI64(amt), zInt(fromBal))
		w.Add(fmt.Sprintf("CIbc %s %s %s %s %s", x, coqBool(err == nil), zInt(dEsc), zInt(dFrom), te.grantCoq(post)),
			desc{"part": "ibc-transfer", "denom": denom, "marker_status": status, "marker_type": mtype, "admin_rights": c12RightList(mask), "forced_transfer_allowed": m.AllowsForcedTransfer(),
				"sender": src.name, "grant": gkind, "amount": amt, "sender_balance": fromBal.String(), "ok": err == nil, "escrowed": dEsc.String()})
		w.Count("ibc_cases")
		w.Count("ibc_src_" + src.name)
		if err == nil {
			w.Count("ibc_accepted")
			if !src.addr.Equals(admin) {
				w.Count("ibc_accepted_by_grant")
			}
			w.Nontrivial(fmt.Sprintf("i/%s/%d/%s/%s/%d", denom, mask, src.name, gkind, amt))
		} else if !src.addr.Equals(admin) && mask&64 != 0 && mask&128 != 0 && m.AllowsForcedTransfer() && pre == nil {
			w.Count("ibc_refused_forced_rights_without_grant")
		}
	}
}
