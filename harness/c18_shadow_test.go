//go:build c18

package harness

// C18, parts (b) determinism and (c) restart, sharpened: PRIMARY node against SHADOW node.
//
// The primary node is the application on which a history is generated.  Between and inside its
// blocks it receives heavy SIDE TRAFFIC that never reaches consensus state:
//   * before FinalizeBlock(N): Simulate and CheckTx(New) of every transaction of the block, in
//     order; Simulate + CheckTx of GHOST transactions that are never included in any block (further
//     planned transactions of all kinds, and targeted probes that read every governance-controlled
//     parameter: marker denom regex, message fees, name / attribute / exchange / sanction / auth
//     params); gRPC queries, among them the dry-run endpoints (msgfees CalculateTxFees, exchange
//     Validate* / *FeeCalc, the tx service's Simulate);
//   * between FinalizeBlock(N) and Commit(N): CheckTx(Recheck) of the block's transactions, the
//     same ghosts and probes again (the mempool state is still the one of block N-1, with whatever
//     it read before cached), the queries again.
// The SHADOW node is a second application on its own goleveldb database that is fed exactly the
// same blocks (FinalizeBlock + Commit) and NONE of the side traffic, and that is closed and
// re-opened at block boundaries (with probability p; p = 1 means every block is computed by a
// process that knows nothing but the committed state).  App hash, transaction results (code, gas,
// data, log) and events of every block are compared: any difference means that state or results
// depend on the history of the PROCESS (in-memory caches filled from mempool / simulate / rolled
// back contexts), not on the committed state alone: tag prop:state_depends_on_process_history.
//
// The histories contain what makes such a dependence visible: parameter changes by governance
// (signed MsgSubmitProposal + MsgVote of the genesis delegator; the real gov EndBlocker executes
// them), some of them with a LATER message that fails (the whole proposal branch is discarded),
// transactions whose outcome depends on the current value, and transactions whose later message
// fails after an earlier one read or wrote the parameter-dependent state.

import (
	"context"
	"fmt"
	"math/rand"
	"strings"
	"testing"
	"time"

	abci "github.com/cometbft/cometbft/abci/types"

	"cosmossdk.io/collections"
	sdkmath "cosmossdk.io/math"

	"github.com/cosmos/cosmos-sdk/client"
	sdk "github.com/cosmos/cosmos-sdk/types"
	"github.com/cosmos/cosmos-sdk/types/query"
	txtypes "github.com/cosmos/cosmos-sdk/types/tx"
	authtypes "github.com/cosmos/cosmos-sdk/x/auth/types"
	banktypes "github.com/cosmos/cosmos-sdk/x/bank/types"
	govv1 "github.com/cosmos/cosmos-sdk/x/gov/types/v1"
	"github.com/cosmos/gogoproto/proto"

	simapp "github.com/provenance-io/provenance/app"
	attrtypes "github.com/provenance-io/provenance/x/attribute/types"
	"github.com/provenance-io/provenance/x/exchange"
	markertypes "github.com/provenance-io/provenance/x/marker/types"
	msgfeestypes "github.com/provenance-io/provenance/x/msgfees/types"
	nametypes "github.com/provenance-io/provenance/x/name/types"
	"github.com/provenance-io/provenance/x/quarantine"
	"github.com/provenance-io/provenance/x/sanction"
	triggertypes "github.com/provenance-io/provenance/x/trigger/types"
)

const (
	c18Prober1 = 16 // accounts that only ever sign ghost transactions
	c18Prober2 = 17
	c18Voter   = 0 // the genesis delegator: the only account with voting power
)

// c18Side is the side traffic attached to a primary node.
type c18Side struct {
	r      *rand.Rand
	ghosts func(phase string) []c18Ghost // further never-included transactions (may be nil)
	simP   float64                       // share of block transactions that are also simulated
	nQuery int                           // random module queries per phase
	qs     []c18Q
	stats  map[string]int
	txSvc  bool
}

type c18Ghost struct {
	kind string
	tx   []byte
}

func c18NewSide(r *rand.Rand) *c18Side {
	return &c18Side{r: rand.New(rand.NewSource(r.Int63())), simP: 0.6, nQuery: scale(12, 40), stats: map[string]int{}}
}

func (s *c18Side) count(k string) { s.stats[k]++ }

func (n *c18Net) checkTx(tx []byte, typ abci.CheckTxType) bool {
	ok := false
	_ = try(func() error {
		res, err := n.app.CheckTx(&abci.RequestCheckTx{Tx: tx, Type: typ})
		ok = err == nil && res != nil && res.Code == 0
		return nil
	})
	return ok
}

func (n *c18Net) simulate(tx []byte) bool {
	ok := false
	_ = try(func() error {
		_, _, err := n.app.Simulate(tx)
		ok = err == nil
		return nil
	})
	return ok
}

// dryRunQueries: query endpoints that execute transaction or validation logic
func (n *c18Net) dryRunQueries(sample []byte) []c18Q {
	var qs []c18Q
	add := func(name, path string, req proto.Message) { qs = append(qs, c18Q{name, path, req}) }
	ex := "/provenance.exchange.v1.Query/"
	a3, a5 := n.accts[3].addr.String(), n.accts[5].addr.String()
	ask := exchange.AskOrder{MarketId: 1, Seller: a3, Assets: sdk.NewInt64Coin(c18Asset, 7), Price: sdk.NewInt64Coin(c18Price, 70)}
	bid := exchange.BidOrder{MarketId: 1, Buyer: a5, Assets: sdk.NewInt64Coin(c18Asset, 7), Price: sdk.NewInt64Coin(c18Price, 77)}
	add("dry.order_fee_calc.ask", ex+"OrderFeeCalc", &exchange.QueryOrderFeeCalcRequest{AskOrder: &ask})
	add("dry.order_fee_calc.bid", ex+"OrderFeeCalc", &exchange.QueryOrderFeeCalcRequest{BidOrder: &bid})
	add("dry.payment_fee_calc", ex+"PaymentFeeCalc", &exchange.QueryPaymentFeeCalcRequest{Payment: exchange.Payment{Source: a3, SourceAmount: sdk.NewCoins(sdk.NewInt64Coin(c18Asset, 2)), Target: a5, TargetAmount: sdk.NewCoins(sdk.NewInt64Coin(c18Price, 9))}})
	add("dry.validate_market.1", ex+"ValidateMarket", &exchange.QueryValidateMarketRequest{MarketId: 1})
	add("dry.validate_create_market", ex+"ValidateCreateMarket", &exchange.QueryValidateCreateMarketRequest{CreateMarketRequest: &exchange.MsgGovCreateMarketRequest{
		Authority: authtypes.NewModuleAddress("gov").String(),
		Market: exchange.Market{MarketDetails: exchange.MarketDetails{Name: "dry"}, AcceptingOrders: true,
			AccessGrants:     []exchange.AccessGrant{{Address: a3, Permissions: exchange.AllPermissions()}},
			ReqAttrCreateAsk: []string{c18KycNam}}}})
	add("dry.validate_manage_fees", ex+"ValidateManageFees", &exchange.QueryValidateManageFeesRequest{ManageFeesRequest: &exchange.MsgGovManageFeesRequest{
		Authority: authtypes.NewModuleAddress("gov").String(), MarketId: 1, AddFeeCreateAskFlat: []sdk.Coin{sdk.NewInt64Coin("dryfee", 1)}}})
	add("dry.commitment_settlement_fee_calc", ex+"CommitmentSettlementFeeCalc", &exchange.QueryCommitmentSettlementFeeCalcRequest{Settlement: &exchange.MsgMarketCommitmentSettleRequest{
		Admin: n.accts[0].addr.String(), MarketId: 1,
		Inputs:  []exchange.AccountAmount{{Account: a3, Amount: sdk.NewCoins(sdk.NewInt64Coin(c18Price, 5))}},
		Outputs: []exchange.AccountAmount{{Account: a5, Amount: sdk.NewCoins(sdk.NewInt64Coin(c18Price, 5))}}}})
	_ = sample
	add("dry.marker.params", "/provenance.marker.v1.Query/Params", &markertypes.QueryParamsRequest{})
	add("dry.attribute.params", "/provenance.attribute.v1.Query/Params", &attrtypes.QueryParamsRequest{})
	add("dry.gov.proposals", "/cosmos.gov.v1.Query/Proposals", &govv1.QueryProposalsRequest{Pagination: &query.PageRequest{Limit: 50}})
	return qs
}

// traffic is one phase of side traffic on the primary node.
func (n *c18Net) traffic(phase string, txs [][]byte) {
	s := n.side
	if s == nil {
		return
	}
	if !s.txSvc {
		// the tx service (gRPC Simulate) is registered by the server at start-up, not by app.New
		_ = try(func() error {
			n.app.RegisterTxService(client.Context{}.WithTxConfig(n.app.GetEncodingConfig().TxConfig).WithInterfaceRegistry(n.app.InterfaceRegistry()))
			return nil
		})
		s.txSvc = true
	}
	var sample []byte
	switch phase {
	case "pre":
		for _, tx := range txs {
			if s.r.Float64() < s.simP {
				if n.simulate(tx) {
					s.count("side_simulate_ok")
				} else {
					s.count("side_simulate_failed")
				}
			}
			if n.checkTx(tx, abci.CheckTxType_New) {
				s.count("side_checktx_ok")
			} else {
				s.count("side_checktx_failed")
			}
			sample = tx
		}
	case "mid":
		for _, tx := range txs {
			n.checkTx(tx, abci.CheckTxType_Recheck)
			s.count("side_recheck")
			sample = tx
		}
	}
	if s.ghosts != nil {
		for gi, g := range s.ghosts(phase) {
			sim := n.simulate(g.tx)
			if gi == 0 {
				// the gRPC dry-run endpoints that execute a whole transaction (before its CheckTx
				// moves the mempool sequence on)
				for _, q := range []c18Q{
					{"dry.msgfees.calculate_tx_fees", "/provenance.msgfees.v1.Query/CalculateTxFees", &msgfeestypes.CalculateTxFeesRequest{TxBytes: g.tx}},
					{"dry.tx.simulate", "/cosmos.tx.v1beta1.Service/Simulate", &txtypes.SimulateRequest{TxBytes: g.tx}}} {
					if n.oneQuery(q) {
						s.count("side_query_dry_run_answered:" + q.name)
					} else {
						s.count("side_query_dry_run_error:" + q.name)
					}
				}
			}
			chk := n.checkTx(g.tx, abci.CheckTxType_New)
			s.count("side_ghost_" + phase)
			if sim {
				s.count("side_ghost_simulate_ok")
			}
			if chk {
				s.count("side_ghost_checktx_ok")
			}
			sample = g.tx
		}
	}
	// queries: the dry-run endpoints always, a random sample of the others
	for _, q := range n.dryRunQueries(sample) {
		if n.oneQuery(q) {
			s.count("side_query_dry_run_answered")
		} else {
			s.count("side_query_dry_run_error:" + q.name)
		}
	}
	if s.qs != nil {
		for i := 0; i < s.nQuery; i++ {
			n.oneQuery(s.qs[s.r.Intn(len(s.qs))])
			s.count("side_query")
		}
	}
}

func (n *c18Net) oneQuery(q c18Q) bool {
	bz, err := proto.Marshal(q.req)
	if err != nil {
		return false
	}
	ok := false
	_ = try(func() error {
		res, e := n.app.Query(context.Background(), &abci.RequestQuery{Path: q.path, Data: bz})
		ok = e == nil && res != nil && res.Code == 0
		return e
	})
	return ok
}

// ---------- governance ----------

// c18GovBootstrap shortens the voting period (a proposal submitted in one block is decided three
// to six blocks later); the minimum deposit stays high, so that the sanction proposals of the
// histories (deposit 200000) stay in their deposit period and keep their temporary entries.
func c18GovBootstrap(app *simapp.App, ctx sdk.Context) error {
	p, err := app.GovKeeper.Params.Get(ctx)
	if err != nil {
		return err
	}
	vp, ev := 60*time.Second, 30*time.Second
	p.VotingPeriod, p.ExpeditedVotingPeriod = &vp, &ev
	p.MinDeposit = sdk.NewCoins(sdk.NewInt64Coin(c18Stake, 10_000_000))
	p.ExpeditedMinDeposit = sdk.NewCoins(sdk.NewInt64Coin(c18Stake, 50_000_000))
	return app.GovKeeper.Params.Set(ctx, p)
}

var c18Regexes = []string{markertypes.DefaultUnrestrictedDenomRegex, `[a-z][a-z0-9]{2,30}`, `lc[a-z0-9\-\.]{2,30}`}

// votes: one transaction of the genesis delegator voting on every proposal in its voting period
// that it has not voted on yet.
func (g *c18Gen) votes() *c18Tx {
	ctx := g.n.queryCtx()
	voter := g.addr(c18Voter)
	var msgs []sdk.Msg
	_ = try(func() error {
		return g.n.app.GovKeeper.Proposals.Walk(ctx, nil, func(id uint64, p govv1.Proposal) (bool, error) {
			if p.Status != govv1.StatusVotingPeriod {
				return false, nil
			}
			if has, _ := g.n.app.GovKeeper.Votes.Has(ctx, collections.Join(id, sdk.AccAddress(voter))); has {
				return false, nil
			}
			opt := govv1.OptionYes
			if g.r.Intn(7) == 0 {
				opt = govv1.OptionNo
			}
			msgs = append(msgs, govv1.NewMsgVote(voter, id, opt, ""))
			return len(msgs) >= 4, nil
		})
	})
	if len(msgs) == 0 {
		return nil
	}
	return &c18Tx{kind: "gov-vote", gas: 400_000 + 150_000*uint64(len(msgs)), signers: []int{c18Voter}, msgs: msgs}
}

// paramChange: the message(s) of one governance proposal that changes a parameter which later
// transactions of the history depend on.
func (g *c18Gen) paramChange() (string, []sdk.Msg) {
	r := g.r
	ctx := g.n.queryCtx()
	app := g.n.app
	gov := authtypes.NewModuleAddress("gov").String()
	switch r.Intn(9) {
	case 0, 1: // marker: unrestricted denom regex (and max supply / governance flag)
		p := app.MarkerKeeper.GetParams(ctx)
		cur := p.UnrestrictedDenomRegex
		for i := 0; i < 4 && p.UnrestrictedDenomRegex == cur; i++ {
			p.UnrestrictedDenomRegex = c18Regexes[r.Intn(len(c18Regexes))]
		}
		if r.Intn(3) == 0 {
			p.MaxSupply = sdkmath.NewInt([]int64{5_000, 1_000_000_000_000}[r.Intn(2)])
		}
		if r.Intn(4) == 0 {
			p.EnableGovernance = !p.EnableGovernance
		}
		return "marker-regex", []sdk.Msg{&markertypes.MsgUpdateParamsRequest{Authority: gov, Params: p}}
	case 2, 3: // message fees
		bind := sdk.MsgTypeURL(&nametypes.MsgBindNameRequest{})
		auto := sdk.MsgTypeURL(&quarantine.MsgUpdateAutoResponses{})
		switch r.Intn(4) {
		case 0:
			amt := []int64{800, 1000, 1500}[r.Intn(3)]
			return "msgfee-update", []sdk.Msg{msgfeestypes.NewMsgUpdateMsgFeeProposalRequest(bind, sdk.NewInt64Coin(c18Stake, amt), g.astr(9), "2500", gov)}
		case 1:
			if f, _ := app.MsgFeesKeeper.GetMsgFee(ctx, auto); f == nil {
				return "msgfee-add", []sdk.Msg{msgfeestypes.NewMsgAddMsgFeeProposalRequest(auto, sdk.NewInt64Coin(c18Stake, 300), g.astr(13), "1000", gov)}
			}
			return "msgfee-remove", []sdk.Msg{msgfeestypes.NewMsgRemoveMsgFeeProposalRequest(auto, gov)}
		case 2:
			return "msgfee-nhash-per-usd-mil", []sdk.Msg{msgfeestypes.NewMsgUpdateNhashPerUsdMilProposalRequest(uint64(20_000_000+r.Intn(3)*5_000_000), gov)}
		default:
			amt := []int64{500, 600, 400}[r.Intn(3)]
			return "msgfee-update", []sdk.Msg{msgfeestypes.NewMsgUpdateMsgFeeProposalRequest(sdk.MsgTypeURL(&attrtypes.MsgAddAttributeRequest{}), sdk.NewInt64Coin(c18Stake, amt), "", "", gov)}
		}
	case 4: // name params: segment lengths (names of the histories have 1 .. 5 characters)
		cur := app.NameKeeper.GetParams(ctx)
		min, max := uint32(1+r.Intn(3)), uint32([]int{4, 16, 32}[r.Intn(3)])
		{
			// InitGenesis re-validates every stored name under the exported params: a proposal that
			// tightens them under existing names makes the export unusable (findings/C18.md, known
			// finding).  The scripted scenario c18TightenCase carries that shape on every run; the
			// random histories only ever loosen the segment lengths, so that their export / import
			// comparison keeps its full coverage.
			if min > cur.MinSegmentLength {
				min = cur.MinSegmentLength
			}
			if max < cur.MaxSegmentLength {
				max = cur.MaxSegmentLength
			}
		}
		return "name-params", []sdk.Msg{nametypes.NewMsgUpdateParamsRequest(max, min, 16, r.Intn(4) > 0, gov)}
	case 5: // attribute: maximum value length (values of the histories have 2 characters)
		return "attribute-params", []sdk.Msg{attrtypes.NewMsgUpdateParamsRequest(gov, []uint32{10000, 10000, 1, 10000, 2, 3}[r.Intn(6)])}
	case 6: // exchange: payment fees and the exchange's share of the market fees
		p := app.ExchangeKeeper.GetParams(ctx)
		if p == nil {
			p = exchange.DefaultParams()
		}
		np := *p
		np.DefaultSplit = []uint32{500, 1000, 2500}[r.Intn(3)]
		np.FeeCreatePaymentFlat = []sdk.Coin{sdk.NewInt64Coin(c18Stake, []int64{10_000_000_000, 5_000_000_000, 12_000_000_000}[r.Intn(3)])}
		return "exchange-params", []sdk.Msg{&exchange.MsgUpdateParamsRequest{Authority: gov, Params: np}}
	case 7: // sanction: immediate minimum deposits (sanction proposals of the histories deposit 200000)
		amt := []int64{1000, 300_000}[r.Intn(2)]
		return "sanction-params", []sdk.Msg{sanction.NewMsgUpdateParams(gov, sdk.NewCoins(sdk.NewInt64Coin(c18Stake, amt)), sdk.NewCoins(sdk.NewInt64Coin(c18Stake, 1000)))}
	default: // auth: gas cost of signature verification and of transaction bytes (gas used by every transaction)
		p := app.AccountKeeper.GetParams(ctx)
		p.SigVerifyCostSecp256k1 = []uint64{1000, 1500, 900}[r.Intn(3)]
		p.TxSizeCostPerByte = []uint64{10, 12}[r.Intn(2)]
		return "auth-gas-params", []sdk.Msg{&authtypes.MsgUpdateParams{Authority: gov, Params: p}}
	}
}

// govParams plans one parameter-change proposal; one in four carries a LATER message that fails
// when the proposal is executed, so that everything the earlier messages did is discarded.
func (g *c18Gen) govParams() *c18Tx {
	what, msgs := g.paramChange()
	kind := "gov-param:" + what
	if g.r.Intn(4) == 0 {
		gov := authtypes.NewModuleAddress("gov").String()
		msgs = append(msgs, msgfeestypes.NewMsgRemoveMsgFeeProposalRequest("/verif.no.such.Msg", gov))
		kind = "gov-param-rolled-back:" + what
	}
	g.propSeq++
	proposer := g.pick(9, 13)
	msg, err := govv1.NewMsgSubmitProposal(msgs, sdk.NewCoins(sdk.NewInt64Coin(c18Stake, 10_000_000)), g.astr(proposer), "", fmt.Sprintf("c18 param proposal %d", g.propSeq), "verif", false)
	if err != nil {
		return nil
	}
	return &c18Tx{kind: kind, gas: 1_200_000, signers: []int{proposer}, msgs: []sdk.Msg{msg}}
}

// rolledBack turns a planned transaction into one whose LAST message fails (an overspending bank
// send of the first signer): whatever the earlier messages read, cached or wrote is discarded.
func (g *c18Gen) rolledBack(p *c18Tx) *c18Tx {
	if p == nil || len(p.signers) == 0 {
		return p
	}
	s := p.signers[0]
	q := *p
	q.kind = "rolled-back:" + p.kind
	q.msgs = append(append([]sdk.Msg{}, p.msgs...), banktypes.NewMsgSend(g.addr(s), g.addr(13), sdk.NewCoins(sdk.NewInt64Coin("nosuchcoin", 1))))
	if q.gas == 0 {
		q.gas = 600_000
	}
	q.gas += 100_000
	return &q
}

// dependent: a transaction whose outcome depends on a parameter that governance changes in these
// histories (accepted under one value, rejected under another).
func (g *c18Gen) dependent() *c18Tx {
	r := g.r
	switch r.Intn(7) {
	case 0, 1: // marker denom regex / max supply
		who := g.pick(10, 11, 12)
		g.lcSeq++
		den := []string{fmt.Sprintf("lc%dd", g.lcSeq), fmt.Sprintf("Lc-%d.d", g.lcSeq), fmt.Sprintf("zz%dd", g.lcSeq)}[r.Intn(3)]
		msg := markertypes.NewMsgAddMarkerRequest(den, sdkmath.NewInt([]int64{100, 20_000}[r.Intn(2)]), g.addr(who), g.addr(who), markertypes.MarkerType_Coin, false, false, false, nil, 0, 0)
		msg.AccessList = []markertypes.AccessGrant{{Address: g.astr(who), Permissions: []markertypes.Access{markertypes.Access_Admin, markertypes.Access_Mint}}}
		return &c18Tx{kind: "dep-marker-add", signers: []int{who}, msgs: []sdk.Msg{msg}}
	case 2: // name segment length; message fee of MsgBindName
		g.nameSeq++
		nm := fmt.Sprintf("n%d", g.nameSeq)
		switch r.Intn(3) {
		case 0:
			nm = string(rune('a' + g.nameSeq%26)) // one character
		case 1:
			nm = fmt.Sprintf("n%dlong", g.nameSeq) // six or more characters
		}
		rec := nametypes.NewNameRecord(nm, g.addr(g.pick(1, 3, 9)), r.Intn(2) == 0)
		return &c18Tx{kind: "dep-name-bind", extra: sdk.NewCoins(sdk.NewInt64Coin(c18Stake, 1000)), signers: []int{1}, msgs: []sdk.Msg{nametypes.NewMsgBindNameRequest(rec, nametypes.NewNameRecord(c18Root, g.addr(1), false))}}
	case 3: // attribute value length; message fee of MsgAddAttribute
		val := []string{"v", "vv", "vvv", "vvvv"}[r.Intn(4)] + fmt.Sprint(r.Intn(4))
		return &c18Tx{kind: "dep-attr-add", extra: sdk.NewCoins(sdk.NewInt64Coin(c18Stake, 500)), signers: []int{1},
			msgs: []sdk.Msg{attrtypes.NewMsgAddAttributeRequest(g.astr(g.pick(3, 5, 9, 10)), g.addr(1), c18KycNam, attrtypes.AttributeType_String, []byte(val))}}
	case 4: // exchange payment fee
		s, tg := g.pick(3, 4), g.pick(5, 6)
		g.extSeq++
		p := exchange.Payment{Source: g.astr(s), SourceAmount: sdk.NewCoins(sdk.NewInt64Coin(c18Asset, int64(1+r.Intn(9)))), Target: g.astr(tg), TargetAmount: sdk.NewCoins(sdk.NewInt64Coin(c18Price, int64(1+r.Intn(50)))), ExternalId: fmt.Sprintf("dep-%d", g.extSeq)}
		return &c18Tx{kind: "dep-pay-create", extra: sdk.NewCoins(sdk.NewInt64Coin(c18Stake, 10_000_000_000)), signers: []int{s}, msgs: []sdk.Msg{&exchange.MsgCreatePaymentRequest{Payment: p}}}
	case 5: // message fee that proposals add / remove
		who := g.pick(7, 9)
		return &c18Tx{kind: "dep-q-auto", signers: []int{who}, msgs: []sdk.Msg{quarantine.NewMsgUpdateAutoResponses(g.addr(who), []*quarantine.AutoResponseUpdate{{FromAddress: g.astr(g.pick(3, 4, 5)), Response: quarantine.AUTO_RESPONSE_ACCEPT}})}}
	default: // sanction: immediate minimum deposit
		govAddr := authtypes.NewModuleAddress("gov").String()
		g.propSeq++
		msg, err := govv1.NewMsgSubmitProposal([]sdk.Msg{&sanction.MsgSanction{Addresses: []string{g.astr(g.pick(10, 11))}, Authority: govAddr}},
			sdk.NewCoins(sdk.NewInt64Coin(c18Stake, 200_000)), g.astr(9), "", fmt.Sprintf("c18 proposal %d", g.propSeq), "verif", false)
		if err != nil {
			return nil
		}
		return &c18Tx{kind: "dep-gov-sanction", gas: 1_000_000, signers: []int{9}, msgs: []sdk.Msg{msg}}
	}
}

// ---------- ghosts and probes ----------

// probes: transactions of the prober accounts that read every governance-controlled parameter.
func (g *c18Gen) probes() []*c18Tx {
	r := g.r
	p := g.pick(c18Prober1, c18Prober2)
	den := []string{fmt.Sprintf("lc%d", 900+r.Intn(90)), fmt.Sprintf("Lc-%d.x", 900+r.Intn(90)), fmt.Sprintf("zz%d", 900+r.Intn(90))}[r.Intn(3)]
	var out []*c18Tx
	add := markertypes.NewMsgAddMarkerRequest(den, sdkmath.NewInt(100), g.addr(p), g.addr(p), markertypes.MarkerType_Coin, false, false, false, nil, 0, 0)
	add.AccessList = []markertypes.AccessGrant{{Address: g.astr(p), Permissions: []markertypes.Access{markertypes.Access_Admin, markertypes.Access_Mint}}}
	out = append(out, &c18Tx{kind: "probe-marker-add", signers: []int{p}, msgs: []sdk.Msg{add}})
	switch r.Intn(6) {
	case 0:
		rec := nametypes.NewNameRecord(fmt.Sprintf("p%d", r.Intn(2000)), g.addr(p), false)
		out = append(out, &c18Tx{kind: "probe-name-bind", extra: sdk.NewCoins(sdk.NewInt64Coin(c18Stake, 1500)), signers: []int{1, p},
			msgs: []sdk.Msg{nametypes.NewMsgBindNameRequest(rec, nametypes.NewNameRecord(c18Root, g.addr(1), false))}})
	case 1:
		out = append(out, &c18Tx{kind: "probe-attr-add", extra: sdk.NewCoins(sdk.NewInt64Coin(c18Stake, 600)), signers: []int{1},
			msgs: []sdk.Msg{attrtypes.NewMsgAddAttributeRequest(g.astr(p), g.addr(1), c18KycNam, attrtypes.AttributeType_String, []byte("pv"))}})
	case 2:
		g.extSeq++
		pay := exchange.Payment{Source: g.astr(p), SourceAmount: sdk.NewCoins(sdk.NewInt64Coin(c18Asset, 1)), Target: g.astr(5), ExternalId: fmt.Sprintf("probe-%d", g.extSeq)}
		out = append(out, &c18Tx{kind: "probe-pay-create", extra: sdk.NewCoins(sdk.NewInt64Coin(c18Stake, 12_000_000_000)), signers: []int{p}, msgs: []sdk.Msg{&exchange.MsgCreatePaymentRequest{Payment: pay}}})
	case 3:
		out = append(out, &c18Tx{kind: "probe-q-auto", extra: sdk.NewCoins(sdk.NewInt64Coin(c18Stake, 300)), signers: []int{p},
			msgs: []sdk.Msg{quarantine.NewMsgUpdateAutoResponses(g.addr(p), []*quarantine.AutoResponseUpdate{{FromAddress: g.astr(3), Response: quarantine.AUTO_RESPONSE_ACCEPT}})}})
	case 4:
		if msg, err := triggertypes.NewCreateTriggerRequest([]string{g.astr(p)}, &triggertypes.BlockHeightEvent{BlockHeight: uint64(g.n.height + 500)},
			[]sdk.Msg{banktypes.NewMsgSend(g.addr(p), g.addr(13), sdk.NewCoins(sdk.NewInt64Coin(c18Price, 1)))}); err == nil {
			out = append(out, &c18Tx{kind: "probe-trigger", gas: 900_000, signers: []int{p}, msgs: []sdk.Msg{msg}})
		}
	default:
		m := &sanction.MsgSanction{Addresses: []string{g.astr(11)}, Authority: authtypes.NewModuleAddress("gov").String()}
		if msg, err := govv1.NewMsgSubmitProposal([]sdk.Msg{m}, sdk.NewCoins(sdk.NewInt64Coin(c18Stake, 200_000)), g.astr(p), "", "probe proposal", "verif", false); err == nil {
			out = append(out, &c18Tx{kind: "probe-gov-sanction", gas: 1_000_000, signers: []int{p}, msgs: []sdk.Msg{msg}})
		}
	}
	return out
}

// ghostTxs signs a few never-included transactions for one phase of side traffic: further
// planned transactions of all kinds and the parameter probes.  Their sequence numbers continue
// what the mempool state has seen in this commit window.
func (g *c18Gen) ghostTxs(phase string) []c18Ghost {
	if phase == "mid" {
		// the state the signing reads now already holds the block's own sequence increments
		g.n.pendingSeq = map[int]uint64{}
		for k, v := range g.ghostSeq {
			g.n.pendingSeq[k] = v
		}
	}
	var plans []*c18Tx
	saved := *g
	savedMarkers := append([]string{}, g.markers...)
	savedScopes := append(g.scopes[:0:0], g.scopes...)
	savedLC := len(g.lcs)
	nGhost := 1 + g.r.Intn(2)
	for i := 0; i < nGhost; i++ {
		g.ghost = true
		p := g.plan()
		g.ghost = false
		if p != nil {
			q := *p
			q.kind = "ghost-" + p.kind
			plans = append(plans, &q)
		}
	}
	ghostSeq := g.ghostSeq
	*g = saved
	g.ghostSeq = ghostSeq
	g.markers, g.scopes = savedMarkers, savedScopes
	g.lcs = g.lcs[:savedLC]
	plans = append(plans, g.probes()...)
	var out []c18Ghost
	for _, p := range plans {
		gas := p.gas
		if gas == 0 {
			gas = 600_000
		}
		bz, err := g.n.signTx(gas, p.extra, p.signers, p.msgs...)
		if err != nil {
			continue
		}
		for _, s := range p.signers {
			g.ghostSeq[s]++
		}
		out = append(out, c18Ghost{kind: p.kind, tx: bz})
	}
	return out
}

// The fingerprint under which the finding "governance tightens the name params under existing
// names, the export is then rejected by InitGenesis" is listed in known_findings.json
// (checks/props/C18.py returns the same string for exactly that shape of the scripted scenario).
const c18NameParamsFingerprint = "C18: export rejected after governance tightened name params under existing names"

// ---------- the shadow node ----------

// c18Shadow replays the script on a goleveldb-backed application without any side traffic and
// re-opens it after a block with probability p.
func c18Shadow(t *testing.T, w *CaseWriter, r *rand.Rand, label string, sc c18Script, ref []string, p float64, kind string) {
	d, restarts, err := c18Replay(t, sc, t.TempDir(), r, p)
	if err != nil {
		d = append(d, "error: "+err.Error())
	}
	w.Add(fmt.Sprintf("CDigests %s %s %s %s", coqStr(label), coqStr(kind), c18StrList(ref), c18StrList(d)),
		map[string]any{"kind": "digests", "label": label, "mode": kind, "restarts": restarts, "restart_probability": p, "blocks": len(sc.Blocks),
			"first_difference": c18FirstDiff(ref, d),
			"meaning":          "primary node (continuously running, with CheckTx / Simulate / query side traffic and ghost transactions) against a shadow node fed the same blocks only and re-opened at block boundaries"})
	w.CountN("shadow_restarts", int64(restarts))
	w.Count("replays_" + kind)
}

// ---------- scripted scenarios: governance tightens a parameter under existing state, then export / import ----------

// c18TightenCase: one chain holds state that is valid under the parameters in force when it was
// written (a two- and an eight-character name, a four-byte attribute value, a proposed marker whose
// denom only the default regex accepts and whose supply is 20000, payments, message fees).  Then,
// family by family, a governance proposal TIGHTENS a parameter under that state (signed
// MsgSubmitProposal + MsgVote, executed by the real gov EndBlocker), genesis is exported and a
// fresh chain is initialised from it: the property demands that it comes up and holds the same
// module state.  On the unchanged tree the two NAME families fail (InitGenesis re-validates every
// name under the exported params and panics, findings/C18.md, known finding); every family runs
// on every check.
func c18TightenCase(t *testing.T, w *CaseWriter) {
	gov := authtypes.NewModuleAddress("gov").String()
	n, err := c18Start(t, c18Bootstrap(t), "")
	if err != nil {
		t.Fatalf("tighten scenario: start: %v", err)
	}
	defer n.close()
	a := n.accts
	at := n.now.Add(5 * time.Second)
	if _, err := n.block(at, nil); err != nil {
		t.Fatalf("tighten scenario: %v", err)
	}
	step := func(gas uint64, extra sdk.Coins, signers []int, msgs ...sdk.Msg) bool {
		at = at.Add(5 * time.Second)
		ok, err := n.oneTx(at, gas, extra, signers, msgs...)
		return ok && err == nil
	}
	// state written under the default parameters
	parent := nametypes.NewNameRecord(c18Root, a[1].addr, false)
	okSetup := step(600_000, sdk.NewCoins(sdk.NewInt64Coin(c18Stake, 1000)), []int{1}, nametypes.NewMsgBindNameRequest(nametypes.NewNameRecord("n1", a[3].addr, false), parent))
	okSetup = step(600_000, sdk.NewCoins(sdk.NewInt64Coin(c18Stake, 1000)), []int{1}, nametypes.NewMsgBindNameRequest(nametypes.NewNameRecord("abcdefgh", a[3].addr, false), parent)) && okSetup
	okSetup = step(600_000, sdk.NewCoins(sdk.NewInt64Coin(c18Stake, 500)), []int{1}, attrtypes.NewMsgAddAttributeRequest(a[3].addr.String(), a[1].addr, c18KycNam, attrtypes.AttributeType_String, []byte("vvvv"))) && okSetup
	add := markertypes.NewMsgAddMarkerRequest("Tg-1.x", sdkmath.NewInt(20_000), a[10].addr, a[10].addr, markertypes.MarkerType_Coin, false, false, false, nil, 0, 0)
	add.AccessList = []markertypes.AccessGrant{{Address: a[10].addr.String(), Permissions: []markertypes.Access{markertypes.Access_Admin, markertypes.Access_Mint}}}
	okSetup = step(600_000, nil, []int{10}, add) && okSetup
	act := markertypes.NewMsgAddFinalizeActivateMarkerRequest("Tg-2.y", sdkmath.NewInt(30_000), a[11].addr, a[11].addr, markertypes.MarkerType_Coin, false, true, false, nil,
		[]markertypes.AccessGrant{{Address: a[11].addr.String(), Permissions: []markertypes.Access{markertypes.Access_Admin, markertypes.Access_Mint, markertypes.Access_Withdraw}}}, 0, 0)
	okSetup = step(600_000, nil, []int{11}, act) && okSetup
	pay := exchange.Payment{Source: a[3].addr.String(), SourceAmount: sdk.NewCoins(sdk.NewInt64Coin(c18Asset, 3)), Target: a[5].addr.String(), TargetAmount: sdk.NewCoins(sdk.NewInt64Coin(c18Price, 4)), ExternalId: "tighten"}
	okSetup = step(600_000, sdk.NewCoins(sdk.NewInt64Coin(c18Stake, 10_000_000_000)), []int{3}, &exchange.MsgCreatePaymentRequest{Payment: pay}) && okSetup

	propose := func(msg sdk.Msg) bool {
		prop, err := govv1.NewMsgSubmitProposal([]sdk.Msg{msg}, sdk.NewCoins(sdk.NewInt64Coin(c18Stake, 10_000_000)), a[9].addr.String(), "", "tighten", "verif", false)
		if err != nil || !step(1_200_000, nil, []int{9}, prop) {
			return false
		}
		pid := uint64(0)
		_ = n.app.GovKeeper.Proposals.Walk(n.queryCtx(), nil, func(id uint64, p govv1.Proposal) (bool, error) { pid = id; return false, nil })
		if !step(600_000, nil, []int{c18Voter}, govv1.NewMsgVote(a[c18Voter].addr, pid, govv1.OptionYes, "")) {
			return false
		}
		for i := 0; i < 3; i++ {
			at = at.Add(25 * time.Second)
			if _, err := n.block(at, nil); err != nil {
				return false
			}
		}
		p, err := n.app.GovKeeper.Proposals.Get(n.queryCtx(), pid)
		return err == nil && p.Status == govv1.StatusPassed
	}
	type family struct {
		name   string
		module string
		msg    func() sdk.Msg
	}
	mp := func(f func(p *markertypes.Params)) func() sdk.Msg {
		return func() sdk.Msg {
			p := n.app.MarkerKeeper.GetParams(n.queryCtx())
			f(&p)
			return &markertypes.MsgUpdateParamsRequest{Authority: gov, Params: p}
		}
	}
	fams := []family{
		{"attribute-max-value-length", "attribute", func() sdk.Msg { return attrtypes.NewMsgUpdateParamsRequest(gov, 1) }},
		{"marker-denom-regex", "marker", mp(func(p *markertypes.Params) { p.UnrestrictedDenomRegex = c18Regexes[2] })},
		{"marker-max-supply", "marker", mp(func(p *markertypes.Params) { p.MaxSupply = sdkmath.NewInt(5_000) })},
		{"exchange-params", "exchange", func() sdk.Msg {
			return &exchange.MsgUpdateParamsRequest{Authority: gov, Params: exchange.Params{DefaultSplit: 9_000,
				DenomSplits:          []exchange.DenomSplit{{Denom: c18Price, Split: 10_000}},
				FeeCreatePaymentFlat: []sdk.Coin{sdk.NewInt64Coin("feecoin", 7)}, FeeAcceptPaymentFlat: []sdk.Coin{sdk.NewInt64Coin("feecoin", 9)}}}
		}},
		{"msgfees-nhash-per-usd-mil", "msgfees", func() sdk.Msg { return msgfeestypes.NewMsgUpdateNhashPerUsdMilProposalRequest(1, gov) }},
		{"sanction-min-deposits", "sanction", func() sdk.Msg {
			return sanction.NewMsgUpdateParams(gov, sdk.NewCoins(sdk.NewInt64Coin(c18Stake, 900_000_000)), sdk.NewCoins(sdk.NewInt64Coin(c18Stake, 900_000_000)))
		}},
		{"name-min-segment-length", "name", func() sdk.Msg { return nametypes.NewMsgUpdateParamsRequest(32, 3, 16, true, gov) }},
		{"name-max-segment-length", "name", func() sdk.Msg { return nametypes.NewMsgUpdateParamsRequest(6, 2, 16, true, gov) }},
	}
	for _, f := range fams {
		desc := map[string]any{"kind": "scenario", "scenario": "params_tightened", "family": f.name, "label": "params-tightened/" + f.name}
		driven := okSetup && propose(f.msg())
		accepted, same := false, false
		if driven {
			g, err := n.export()
			if err != nil {
				driven = false
				desc["error"] = err.Error()
			} else {
				e, err := c18Start(t, g, "")
				accepted = err == nil
				if err != nil {
					msg := err.Error()
					desc["import_error"] = msg[:min(len(msg), 200)]
					desc["import_error_is_name_segment_length"] = strings.Contains(msg, "segment of name is too")
				} else {
					// (an application that has only run InitChain cannot be exported: one empty block first)
					if _, err := e.block(at.Add(5*time.Second), nil); err != nil {
						desc["first_block_error"] = err.Error()
					} else if g2, err := e.export(); err == nil {
						same = c18Canon(c18AppState(t, g)[f.module]) == c18Canon(c18AppState(t, g2)[f.module])
					}
					e.close()
				}
			}
		}
		desc["driven"], desc["export_accepted_by_fresh_chain"], desc["module_genesis_equal_after_import"] = driven, accepted, same
		items := []string{
			fmt.Sprintf("(\"params_tightened:%s:scenario_driven\", %s)", f.name, coqBool(driven)),
			fmt.Sprintf("(\"params_tightened:%s:export_accepted_by_fresh_chain\", %s)", f.name, coqBool(!driven || accepted)),
			fmt.Sprintf("(\"params_tightened:%s:module_genesis_equal_after_import\", %s)", f.name, coqBool(!driven || !accepted || same)),
		}
		w.Add(fmt.Sprintf("CScenario %s %s", coqStr("params-tightened/"+f.name), coqList(items)), desc)
		w.Count("params_tightened_scenario")
		w.Nontrivial("params-tightened/" + f.name)
	}
}

// ---------- scripted history: every governance family, then the transactions that depend on it ----------

// c18ParamScript runs, on a primary node with side traffic, a short scripted history in which
// governance proposals change parameters (two of them with a later failing message, so that the
// whole proposal is rolled back) and the following blocks carry transactions that are accepted
// under exactly one of the old / new values; the blocks are then replayed without side traffic in
// this process and on a shadow node that is re-opened after every block.  The probes of the side
// traffic (Simulate of a MsgAddMarker and friends before AND after every FinalizeBlock) are what
// plants stale reads in the mempool state of the block in which a proposal passes.
func c18ParamScript(t *testing.T, r *rand.Rand, w *CaseWriter, genesis c18Genesis) {
	label := "params-script"
	ref, err := c18Start(t, genesis, "")
	if err != nil {
		t.Fatalf("%s: start: %v", label, err)
	}
	defer ref.close()
	g := &c18Gen{t: t, r: r, n: ref, w: w, kinds: map[string]int{}, lcBusy: map[string]bool{}, ghostSeq: map[int]uint64{}}
	ref.side = c18NewSide(r)
	ref.side.ghosts = g.ghostTxs
	ref.side.qs = c18Queries(ref, []string{c18Root, c18KycNam}, []string{"rcoin1"}, nil)
	sc := c18Script{Genesis: genesis}
	gov := authtypes.NewModuleAddress("gov").String()
	run := func(dt time.Duration, must ...*c18Tx) {
		bl := g.buildBlock(0, false, must)
		at := g.n.now.Add(dt)
		if _, err := g.runBlock(bl, at); err != nil {
			t.Fatalf("%s: %v", label, err)
		}
		sc.Blocks = append(sc.Blocks, c18Block{TimeUnix: at.Unix(), Txs: bl.txs})
	}
	propose := func(kind string, proposer int, msgs ...sdk.Msg) *c18Tx {
		g.propSeq++
		msg, err := govv1.NewMsgSubmitProposal(msgs, sdk.NewCoins(sdk.NewInt64Coin(c18Stake, 10_000_000)), g.astr(proposer), "", fmt.Sprintf("script proposal %d", g.propSeq), "verif", false)
		if err != nil {
			t.Fatalf("%s: %v", label, err)
		}
		return &c18Tx{kind: kind, gas: 1_200_000, signers: []int{proposer}, msgs: []sdk.Msg{msg}}
	}
	failing := msgfeestypes.NewMsgRemoveMsgFeeProposalRequest("/verif.no.such.Msg", gov)
	addMarker := func(who int, denom string) *c18Tx {
		msg := markertypes.NewMsgAddMarkerRequest(denom, sdkmath.NewInt(100), g.addr(who), g.addr(who), markertypes.MarkerType_Coin, false, false, false, nil, 0, 0)
		msg.AccessList = []markertypes.AccessGrant{{Address: g.astr(who), Permissions: []markertypes.Access{markertypes.Access_Admin, markertypes.Access_Mint}}}
		return &c18Tx{kind: "script-marker-add", signers: []int{who}, msgs: []sdk.Msg{msg}}
	}
	bind := func(name string, extra int64) *c18Tx {
		rec := nametypes.NewNameRecord(name, g.addr(3), false)
		return &c18Tx{kind: "script-name-bind", extra: sdk.NewCoins(sdk.NewInt64Coin(c18Stake, extra)), signers: []int{1}, msgs: []sdk.Msg{nametypes.NewMsgBindNameRequest(rec, nametypes.NewNameRecord(c18Root, g.addr(1), false))}}
	}
	attr := func(val string) *c18Tx {
		return &c18Tx{kind: "script-attr-add", extra: sdk.NewCoins(sdk.NewInt64Coin(c18Stake, 600)), signers: []int{1},
			msgs: []sdk.Msg{attrtypes.NewMsgAddAttributeRequest(g.astr(5), g.addr(1), c18KycNam, attrtypes.AttributeType_String, []byte(val))}}
	}
	mp := ref.app.MarkerKeeper.GetParams(ref.queryCtx())
	run(5 * time.Second)
	// transactions under the initial parameters
	run(6*time.Second, addMarker(10, "zz1s"), addMarker(11, "Lc-1.s"), bind("s1", 1000))
	run(6*time.Second, attr("vv"))
	// the proposals (the genesis delegator's votes are added to the following blocks)
	mp.UnrestrictedDenomRegex = c18Regexes[2]
	run(6*time.Second, propose("script-gov:marker-regex", 9, &markertypes.MsgUpdateParamsRequest{Authority: gov, Params: mp}))
	run(6*time.Second, propose("script-gov-rolled-back:msgfee", 13, msgfeestypes.NewMsgUpdateMsgFeeProposalRequest(sdk.MsgTypeURL(&nametypes.MsgBindNameRequest{}), sdk.NewInt64Coin(c18Stake, 1500), g.astr(9), "2500", gov), failing))
	run(6*time.Second, propose("script-gov-rolled-back:name-params", 9, nametypes.NewMsgUpdateParamsRequest(32, 1, 16, true, gov), failing))
	run(6*time.Second, propose("script-gov:attribute-params", 13, attrtypes.NewMsgUpdateParamsRequest(gov, 1)))
	// the voting periods (60 s) end one after the other in these blocks
	for i := 0; i < 5; i++ {
		run(20*time.Second, addMarker(12, fmt.Sprintf("lc%dw", i)))
	}
	// transactions whose outcome depends on the values now in force
	run(6*time.Second, addMarker(10, "zz2s"), addMarker(11, "lc2s"), bind("a", 1000))
	run(6*time.Second, addMarker(10, "Lc-3.s"), addMarker(11, "lc3s"), attr("ww"))
	run(6*time.Second, bind("s2", 1000))
	run(6*time.Second, attr("w"))
	// back to the default regex, and once more
	mp.UnrestrictedDenomRegex = c18Regexes[0]
	run(6*time.Second, propose("script-gov:marker-regex", 9, &markertypes.MsgUpdateParamsRequest{Authority: gov, Params: mp}))
	for i := 0; i < 4; i++ {
		run(20*time.Second, addMarker(12, fmt.Sprintf("zz%dw", i)))
	}
	run(6*time.Second, addMarker(10, "zz4s"), addMarker(11, "Lc-4.s"), bind("s3", 1000))
	run(6*time.Second, attr("x"))
	w.CountN("param_script_blocks", int64(len(sc.Blocks)))
	w.CountN("param_script_tx_ok", int64(ref.txOK))
	w.CountN("param_script_tx_failed", int64(ref.txFail))
	for _, k := range c18SortedKeys(g.kinds) {
		w.CountN("script_tx_"+k, int64(g.kinds[k]))
	}
	d2, _, err := c18Replay(t, sc, "", nil, 0)
	if err != nil {
		d2 = append(d2, "error: "+err.Error())
	}
	// the reference digests start after the first (unrecorded) block of c18Start's chain: here
	// every block was recorded, so they align
	w.Add(fmt.Sprintf("CDigests %s \"rerun\" %s %s", coqStr(label), c18StrList(ref.digests), c18StrList(d2)),
		map[string]any{"kind": "digests", "label": label, "mode": "rerun", "blocks": len(sc.Blocks), "txs_ok": ref.txOK, "txs_failed": ref.txFail, "first_difference": c18FirstDiff(ref.digests, d2)})
	c18Shadow(t, w, r, label, sc, ref.digests, 1.0, "shadow")
	w.Nontrivial("params-script")
}
