//go:build c17

package harness

import (
	"fmt"
	"math/big"
	"math/rand"
	"strconv"
	"strings"
	"testing"
	"time"

	sdkmath "cosmossdk.io/math"

	sdk "github.com/cosmos/cosmos-sdk/types"
	"github.com/cosmos/cosmos-sdk/x/authz"
	banktypes "github.com/cosmos/cosmos-sdk/x/bank/types"

	markertypes "github.com/provenance-io/provenance/x/marker/types"
	nametypes "github.com/provenance-io/provenance/x/name/types"
	triggertypes "github.com/provenance-io/provenance/x/trigger/types"
)

// ---------- generators: events and actions ----------

// c17Act is one message a trigger carries.
type c17Act struct {
	msg    sdk.Msg
	coq    string // term of type act0, or of type action when create
	create bool
	kind   string
	bad    bool // makes the enclosing creation fail ValidateBasic (own ValidateBasic or a signer that is no authority)
}

func (a c17Act) action() string {
	if a.create {
		return a.coq
	}
	return "(ABasic " + a.coq + ")"
}

type c17Trig struct {
	id    uint64
	owner int
}

type c17Gen struct {
	t      *testing.T
	r      *rand.Rand
	w      *CaseWriter
	n      *c17Net // nil while the imported genesis is being planned
	accts  []c17Acct
	su     c17Setup
	nAcc   int
	intern map[string]int
	reg    []c17Trig // last observation
	queue  []c17Trig
	maxID  uint64
	nextID uint64
	burstH uint64
	burstT int64       // unix nanoseconds
	times  []time.Time // the block times of the whole history, planned up front (with sub-second parts)
	bi     int         // index of the block being planned
	style  int
	limits map[uint64]uint64   // gas limits seen at the last observation
	acts   map[uint64][]c17Act // actions per known trigger
	auths  map[uint64][]int    // authorities per trigger created by a transaction
	cal    *c17Cal
	band   map[uint64]string // precise-gas triggers: "n=2,k=1" (limit between k and k+1 times one send)
	height int64             // height of the last committed block (also valid while n == nil)
	hugeH  bool              // this history parks triggers on heights >= 2^63 and keeps ordinary height triggers rare
}

func (g *c17Gen) sym(s string) string {
	if s == "" {
		return "0"
	}
	v, ok := g.intern[s]
	if !ok {
		v = len(g.intern) + 1
		g.intern[s] = v
	}
	return strconv.Itoa(v)
}

// lsym: the interned listener prefix of an event name (lower case, trimmed)
func (g *c17Gen) lsym(s string) string { return g.sym(strings.ToLower(strings.TrimSpace(s))) }

func (g *c17Gen) addrStr(i int) string { return g.accts[i].addr.String() }

func (g *c17Gen) bal(i int, den string) int64 {
	if g.n == nil {
		if den == c17RDen {
			return g.su.rBal[i]
		}
		return g.su.trigBal[i]
	}
	return g.n.app.BankKeeper.GetBalance(g.n.queryCtx(), g.accts[i].addr, den).Amount.Int64()
}

func (g *c17Gen) nowBlockTime() time.Time {
	if g.bi < len(g.times) {
		return g.times[g.bi]
	}
	return g.times[len(g.times)-1]
}

type c17Ev struct {
	ev      triggertypes.TriggerEventI
	coq     string
	desc    string
	shape   string
	invalid bool // fails Validate (ValidateBasic of the creation)
	isTx    bool
}

var c17ListenTypes = map[string]bool{"coin_received": true, "coin_spent": true, "transfer": true, "message": true,
	"block-height": true, "block-time": true}

// genEvent: the condition of a trigger created in the block after the last committed one.
func (g *c17Gen) genEvent() c17Ev {
	r := g.r
	cur := uint64(g.height + 1) // the creation runs in this block
	out := c17Ev{shape: "valid"}
	k := r.Intn(10)
	if g.hugeH && k < 4 && r.Intn(3) > 0 {
		k = 4 + r.Intn(6) // few ordinary height triggers: nothing may shield the parked ones
		if r.Intn(2) == 0 {
			k = -1
		}
	}
	switch {
	case k < 0: // a height that is never reached
		hs := []uint64{1 << 63, 1<<63 + 1 + uint64(r.Intn(1000)), ^uint64(0), ^uint64(0) - uint64(r.Intn(5)), 1<<63 + uint64(g.height)}
		h := hs[r.Intn(len(hs))]
		out.ev, out.coq, out.desc, out.shape = &triggertypes.BlockHeightEvent{BlockHeight: h}, fmt.Sprintf("(EvHeight %d)", h), fmt.Sprintf("height>=%d", h), "never-height"
	case k < 4: // height
		h := cur + 1 + uint64(r.Intn(3))
		if g.burstH > cur && r.Intn(100) < 60 {
			h = g.burstH
		}
		switch r.Intn(20) {
		case 0:
			h = cur - uint64(r.Intn(2)) // not in the future: rejected by ValidateContext
			out.shape = "past-height"
		case 1:
			hs := []uint64{1 << 63, 1<<63 + 7, ^uint64(0), 1 << 62, 1_000_000_000_000_000_000}
			h = hs[r.Intn(len(hs))]
			out.shape = "never-height"
		}
		out.ev, out.coq, out.desc = &triggertypes.BlockHeightEvent{BlockHeight: h}, fmt.Sprintf("(EvHeight %d)", h), fmt.Sprintf("height>=%d", h)
	case k < 7: // time
		// a time relative to the exact time of this or a coming block: equal to it, a nanosecond or a few
		// hundred milliseconds before/after it (same second, earlier and later fraction)
		bk := g.bi + r.Intn(5)
		var ref time.Time
		if bk < len(g.times) {
			ref = g.times[bk]
		} else {
			ref = g.times[len(g.times)-1].Add(time.Duration(1+r.Intn(20)) * time.Second)
		}
		deltas := []time.Duration{0, 1, -1, time.Millisecond, -time.Millisecond, 300 * time.Millisecond, -300 * time.Millisecond,
			500 * time.Millisecond, 999 * time.Millisecond, time.Duration(1 + r.Intn(999_999_999)), -time.Duration(1 + r.Intn(999_999_999))}
		tt := c17Nanos(ref.Add(deltas[r.Intn(len(deltas))]))
		if g.burstT > c17Nanos(g.nowBlockTime()).Int64() && r.Intn(100) < 50 {
			tt = big.NewInt(g.burstT)
		}
		now := c17Nanos(g.nowBlockTime())
		switch r.Intn(24) {
		case 0:
			tt = new(big.Int).Sub(now, big.NewInt(int64(r.Intn(2))*int64(1+r.Intn(2_000_000_000)))) // now or earlier: rejected
			out.shape = "past-time"
		case 1:
			tt = c17Nanos([]time.Time{{}, time.Date(1969, 12, 31, 23, 59, 59, 999999999, time.UTC), time.Date(1600, 1, 1, 0, 0, 0, 0, time.UTC)}[r.Intn(3)])
			out.shape = "past-time" // the zero time and times before 1970
		case 2, 3:
			maxI := big.NewInt(1<<63 - 1)
			two64 := new(big.Int).Lsh(big.NewInt(1), 64)
			far := []*big.Int{maxI, new(big.Int).Add(maxI, big.NewInt(1)), c17Nanos(time.Date(9999, 12, 31, 23, 59, 59, 999999999, time.UTC)),
				new(big.Int).Add(two64, big.NewInt(5)), new(big.Int).Add(two64, new(big.Int).Sub(now, big.NewInt(3_600_000_000_000))),
				new(big.Int).Add(two64, big.NewInt(int64(r.Intn(1_000_000_000)))), c17Nanos(time.Date(3000, 1, 1, 0, 0, 0, 0, time.UTC)),
				c17Nanos(time.Date(2262, 1, 1, 0, 0, 0, 0, time.UTC)), c17Nanos(time.Date(2200, 6, 1, 0, 0, 0, 5, time.UTC))}
			tt = far[r.Intn(len(far))]
			if r.Intn(2) == 0 { // those whose wrapped order key is smaller than every real time
				tt = []*big.Int{far[3], far[4], far[5]}[r.Intn(3)]
			}
			out.shape = "far-time"
			if tt.Cmp(maxI) > 0 {
				out.invalid = true
				out.shape = "far-time-beyond-order-range"
			}
		}
		tm := c17TimeOf(tt)
		out.ev, out.coq, out.desc = &triggertypes.BlockTimeEvent{Time: tm}, fmt.Sprintf("(EvTime (%s))", tt.String()), "time>="+tm.Format("2006-01-02T15:04:05.000000000")
	default: // transaction event
		out.isTx = true
		x := r.Intn(g.nAcc)
		amt := fmt.Sprintf("%d%s", 7+r.Intn(3), c17EvtDen)
		any := func(v string) string {
			if r.Intn(4) == 0 {
				return ""
			}
			return v
		}
		idx := func() string { return []string{"0", "1", "0", ""}[r.Intn(4)] }
		type at = triggertypes.Attribute
		var name string
		var pool []at
		switch r.Intn(5) {
		case 0, 1:
			name = "coin_received"
			pool = []at{{Name: "receiver", Value: any(g.addrStr(x))}, {Name: "amount", Value: any(amt)}, {Name: "msg_index", Value: idx()},
				{Name: "authz_msg_index", Value: idx()}, {Name: "authz_msg_index", Value: idx()}, {Name: "receiver", Value: g.addrStr(r.Intn(g.nAcc))}}
		case 2:
			name = "transfer"
			pool = []at{{Name: "recipient", Value: any(g.addrStr(x))}, {Name: "sender", Value: any(g.addrStr(r.Intn(g.nAcc)))}, {Name: "amount", Value: any(amt)},
				{Name: "authz_msg_index", Value: idx()}, {Name: "authz_msg_index", Value: idx()}, {Name: "msg_index", Value: idx()}, {Name: "nosuchattr", Value: ""}}
		case 3:
			name = "coin_spent"
			pool = []at{{Name: "spender", Value: any(g.addrStr(x))}, {Name: "amount", Value: any(amt)}, {Name: "authz_msg_index", Value: idx()}, {Name: "msg_index", Value: idx()}}
		default:
			name = "message"
			pool = []at{{Name: "action", Value: any("/cosmos.bank.v1beta1.MsgSend")}, {Name: "sender", Value: any(g.addrStr(x))}, {Name: "module", Value: any("bank")},
				{Name: "msg_index", Value: idx()}, {Name: "authz_msg_index", Value: idx()}}
		}
		na := []int{0, 1, 1, 2, 2, 2, 3, 3}[r.Intn(8)]
		var attrs []at
		for _, i := range r.Perm(len(pool)) {
			if len(attrs) < na {
				attrs = append(attrs, pool[i])
			}
		}
		switch v := r.Intn(100); {
		case v < 8:
			name = strings.ToUpper(name[:1]) + name[1:]
			out.shape = "name-other-case"
		case v < 12:
			name = strings.ToUpper(name)
			out.shape = "name-other-case"
		case v < 18:
			name = []string{" " + name, name + " ", " " + name + "  "}[r.Intn(3)]
			out.shape = "name-padded"
		case v < 30:
			// a transaction event named like the height/time listener prefixes
			name = []string{"block-height", "block-time", "Block-Height", " block-time ", "BLOCK-TIME", "block-height "}[r.Intn(6)]
			out.shape = "reserved-event-name"
			if r.Intn(2) == 0 {
				attrs = nil
			}
		}
		if r.Intn(25) == 0 {
			attrs = append(attrs, at{Name: " ", Value: "x"})
			out.shape = "blank-attribute-name"
			out.invalid = true
		}
		out.ev = &triggertypes.TransactionEvent{Name: name, Attributes: attrs}
		var as []string
		for _, a := range attrs {
			an := a.Name
			if strings.TrimSpace(an) == "" {
				an = ""
			}
			as = append(as, fmt.Sprintf("(%s, %s)", g.sym(an), g.sym(a.Value)))
		}
		out.coq = fmt.Sprintf("(EvTx %s %s %s)", g.sym(name), g.lsym(name), coqList(as))
		out.desc = fmt.Sprintf("tx %q %v", name, attrs)
	}
	return out
}

// genBasic: one message other than a creation, signed by one of pool (rarely by somebody else).
func (g *c17Gen) genBasic(pool []int, mayBeBad bool) c17Act {
	r := g.r
	s := pool[r.Intn(len(pool))]
	bad := false
	if mayBeBad && r.Intn(40) == 0 {
		s = (pool[0] + 1 + r.Intn(g.nAcc-1)) % g.nAcc
		bad = !c17In(s, pool)
	}
	to := r.Intn(g.nAcc)
	coin := func(d string, v int64) sdk.Coins { return sdk.Coins{sdk.Coin{Denom: d, Amount: sdkmath.NewInt(v)}} }
	k := r.Intn(100)
	// mostly acceptable messages: pick a signer that has the right the message needs, else another kind
	if !bad && r.Intn(6) > 0 {
		switch {
		case k >= 54 && k < 66:
			var cand []int
			for _, x := range pool {
				if c17In(x, g.su.xfer) {
					cand = append(cand, x)
				}
			}
			if len(cand) > 0 {
				s = cand[r.Intn(len(cand))]
			} else {
				k = r.Intn(54)
			}
		case k >= 66 && k < 78:
			if c17In(g.su.rootOwner, pool) {
				s = g.su.rootOwner
			} else {
				k = 78 + r.Intn(12)
			}
		case k >= 90:
			var own []uint64
			for _, tr := range g.reg {
				if c17In(tr.owner, pool) {
					own = append(own, tr.id)
				}
			}
			if len(own) == 0 {
				k = r.Intn(54)
			}
		}
	}
	switch {
	case k < 42:
		bal := g.bal(s, c17TrigDen)
		amt := int64(1 + r.Intn(40))
		switch r.Intn(12) {
		case 0:
			amt = bal + 1 + int64(r.Intn(50)) // will very likely fail
		case 1:
			if bal > 0 {
				amt = bal // everything: later actions of the same sender fail
			}
		case 2:
			if r.Intn(4) == 0 {
				amt = 0
			}
		}
		return c17Act{msg: &banktypes.MsgSend{FromAddress: g.addrStr(s), ToAddress: g.addrStr(to), Amount: coin(c17TrigDen, amt)},
			coq: fmt.Sprintf("(ASend %d %d %d)", s, to, amt), kind: "send", bad: bad}
	case k < 54:
		no := 1 + r.Intn(3)
		var outs []banktypes.Output
		var oc []string
		var sum int64
		for i := 0; i < no; i++ {
			o, a := r.Intn(g.nAcc), int64(1+r.Intn(15))
			if r.Intn(30) == 0 {
				a = 0
			}
			outs = append(outs, banktypes.Output{Address: g.addrStr(o), Coins: coin(c17TrigDen, a)})
			oc = append(oc, fmt.Sprintf("(%d, %d%%Z)", o, a))
			sum += a
		}
		in := sum
		switch r.Intn(14) {
		case 0:
			in = sum + 1 // inputs and outputs differ
		case 1:
			outs, oc, in = nil, nil, int64(r.Intn(2)) // no outputs
		case 2:
			in = g.bal(s, c17TrigDen) + 1 + int64(r.Intn(5)) // more than the sender has; outputs still equal the input
			outs = []banktypes.Output{{Address: g.addrStr(to), Coins: coin(c17TrigDen, in)}}
			oc = []string{fmt.Sprintf("(%d, %d%%Z)", to, in)}
		}
		return c17Act{msg: &banktypes.MsgMultiSend{Inputs: []banktypes.Input{{Address: g.addrStr(s), Coins: coin(c17TrigDen, in)}}, Outputs: outs},
			coq: fmt.Sprintf("(AMulti %d %d %s)", s, in, coqList(oc)), kind: "multisend", bad: bad}
	case k < 66:
		from := s
		if r.Intn(8) == 0 {
			from = r.Intn(g.nAcc) // not the administrator's own coins: needs a marker transfer authorization
		}
		amt := int64(1 + r.Intn(30))
		if r.Intn(10) == 0 {
			amt = g.bal(from, c17RDen) + int64(r.Intn(3))
			if amt == 0 {
				amt = 1
			}
		}
		return c17Act{msg: markertypes.NewMsgTransferRequest(g.accts[s].addr, g.accts[from].addr, g.accts[to].addr, sdk.NewInt64Coin(c17RDen, amt)),
			coq: fmt.Sprintf("(AMarker %d %d %d %d)", s, from, to, amt), kind: "marker-transfer", bad: bad}
	case k < 78:
		nm := r.Intn(c17NNames)
		return c17Act{msg: nametypes.NewMsgBindNameRequest(nametypes.NewNameRecord(fmt.Sprintf("n%d", nm), g.accts[to].addr, false),
			nametypes.NewNameRecord(c17Root, g.accts[s].addr, true)),
			coq: fmt.Sprintf("(ABind %d %d %d)", s, nm, to), kind: "bind-name", bad: bad}
	case k < 90:
		var exp *time.Time
		expC := "None"
		switch r.Intn(20) {
		case 0, 1, 2, 3, 4:
			e := time.Date(2100, 1, 1, 0, 0, 0, 0, time.UTC)
			exp, expC = &e, fmt.Sprintf("(Some %s%%Z)", c17Nanos(e).String())
		case 5, 6, 7:
			e := g.nowBlockTime().Add(-time.Duration(1+r.Intn(7200)) * time.Second) // already over when the trigger runs
			exp, expC = &e, fmt.Sprintf("(Some %s%%Z)", c17Nanos(e).String())
		}
		m, err := authz.NewMsgGrant(g.accts[s].addr, g.accts[to].addr, authz.NewGenericAuthorization(sdk.MsgTypeURL(&banktypes.MsgSend{})), exp)
		if err != nil {
			g.t.Fatal(err)
		}
		return c17Act{msg: m, coq: fmt.Sprintf("(AGrant %d %d %s)", s, to, expC), kind: "authz-grant", bad: bad}
	default:
		var id uint64
		switch d := r.Intn(20); {
		case d < 10 && len(g.reg) > 0:
			id = g.reg[r.Intn(len(g.reg))].id
			for _, tr := range g.reg {
				if c17In(tr.owner, pool) && r.Intn(2) == 0 {
					id, s = tr.id, tr.owner
				}
			}
		case d < 12 && len(g.queue) > 0:
			id = g.queue[r.Intn(len(g.queue))].id
		case d < 14:
			id = g.maxID + 1 + uint64(r.Intn(2))
		case d < 15 && mayBeBad:
			id = 0
			bad = true // MsgDestroyTriggerRequest.ValidateBasic
		default:
			id = 1 + uint64(r.Intn(int(g.maxID)+2))
		}
		return c17Act{msg: triggertypes.NewDestroyTriggerRequest(g.addrStr(s), id), coq: fmt.Sprintf("(ADestroy %d %d)", s, id), kind: "destroy", bad: bad}
	}
}

// genNested: a MsgCreateTriggerRequest as an action: authorities drawn from auths (rarely one more).
func (g *c17Gen) genNested(auths []int) c17Act {
	r := g.r
	au := []int{auths[r.Intn(len(auths))]}
	bad := false
	if len(auths) > 1 && r.Intn(2) == 0 {
		au = append([]int{}, auths...)
		if r.Intn(2) == 0 {
			au[0], au[len(au)-1] = au[len(au)-1], au[0]
		}
	}
	if r.Intn(12) == 0 {
		x := (au[0] + 1 + r.Intn(g.nAcc-1)) % g.nAcc
		if !c17In(x, au) {
			au = append(au, x)
			bad = bad || !c17In(x, auths)
		}
	}
	ev := g.genEvent()
	if r.Intn(10) < 7 { // mostly a plain future height, a few blocks after the parent can fire
		h := uint64(g.height+1) + 3 + uint64(r.Intn(8))
		ev = c17Ev{ev: &triggertypes.BlockHeightEvent{BlockHeight: h}, coq: fmt.Sprintf("(EvHeight %d)", h), desc: fmt.Sprintf("height>=%d", h), shape: "valid"}
	}
	bad = bad || ev.invalid
	na := 1 + r.Intn(2)
	var msgs []sdk.Msg
	var ac []string
	for i := 0; i < na; i++ {
		a := g.genBasic(au, r.Intn(3) == 0)
		bad = bad || a.bad
		msgs = append(msgs, a.msg)
		ac = append(ac, a.coq)
	}
	var as []string
	for _, a := range au {
		as = append(as, g.addrStr(a))
	}
	m := triggertypes.MustNewCreateTriggerRequest(as, ev.ev, msgs)
	return c17Act{msg: m, create: true, kind: "nested-create:" + ev.shape, bad: bad,
		coq: fmt.Sprintf("(ACreate %s %s %s)", c17NList(au), ev.coq, coqList(ac))}
}

// genActions: the action list of a trigger: 0-6 basic messages, sometimes a nested creation (mostly last).
func (g *c17Gen) genActions(auths []int, mayBeBad bool) (acts []c17Act, bad bool) {
	r := g.r
	na := 1
	switch k := r.Intn(10); {
	case k < 5:
		na = 1
	case k < 8:
		na = 2 + r.Intn(2)
	default:
		na = 4 + r.Intn(3)
	}
	if mayBeBad && r.Intn(40) == 0 {
		return nil, true
	}
	for i := 0; i < na; i++ {
		a := g.genBasic(auths, mayBeBad)
		bad = bad || a.bad
		acts = append(acts, a)
	}
	if r.Intn(5) == 0 {
		nst := g.genNested(auths)
		if !mayBeBad && nst.bad {
			return acts, bad
		}
		bad = bad || nst.bad
		pos := len(acts)
		if r.Intn(5) == 0 {
			pos = r.Intn(len(acts) + 1) // not the last action: everything after it finds the gas meter empty
		}
		acts = append(acts[:pos], append([]c17Act{nst}, acts[pos:]...)...)
	}
	return acts, bad
}

func c17ActTerms(acts []c17Act) (msgs []sdk.Msg, terms []string, kinds []string) {
	for _, a := range acts {
		msgs = append(msgs, a.msg)
		terms = append(terms, a.action())
		kinds = append(kinds, a.kind)
	}
	return
}
