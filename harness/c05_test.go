//go:build c05

package harness

import (
	"fmt"
	"math/big"
	"math/rand"
	"os"
	"sort"
	"strings"
	"testing"
	"time"

	sdkmath "cosmossdk.io/math"
	sdk "github.com/cosmos/cosmos-sdk/types"
	authtypes "github.com/cosmos/cosmos-sdk/x/auth/types"
	"github.com/cosmos/cosmos-sdk/x/authz"
	banktypes "github.com/cosmos/cosmos-sdk/x/bank/types"
	"github.com/cosmos/cosmos-sdk/x/gov"
	govtypes "github.com/cosmos/cosmos-sdk/x/gov/types"
	govv1 "github.com/cosmos/cosmos-sdk/x/gov/types/v1"

	simapp "github.com/provenance-io/provenance/app"
	"github.com/provenance-io/provenance/x/marker"
	markertypes "github.com/provenance-io/provenance/x/marker/types"

	minttypes "github.com/cosmos/cosmos-sdk/x/mint/types"
)

// C05: histories of marker administration on a world of 2-3 denoms, run through the REAL message
// handlers (marker Msg server incl. the governance endpoints, bank MsgSend, authz MsgGrant /
// MsgRevoke, marker MsgUpdateParams) and the real marker BeginBlocker; in every tenth history every
// governance-authority message goes through the REAL gov module (MsgSubmitProposal with the
// message, MsgVote, gov EndBlocker executes it).  After every operation the harness projects:
// accepted/rejected, the module parameters and, per denom, the marker record (status, recorded
// supply, fixed flag) or its absence, bank SupplyOf(denom) and the balance of EVERY holder of the
// denom as enumerated by the bank (IterateAllBalances).  Address numbering shared with
// coq/Marker/MultiLifecycle.v: 1000+d = marker account of denom d (escrow d), 1..4 = users,
// 99 = marker module account, 100 = governance (GOV), 5000.. = any other holder the bank lists.

// sorted, so that denom order = index order (authz limits are sdk.Coins)
var c05Denoms = []string{"cfivea", "cfiveb", "cfivec"}

type c05Env struct {
	t      *testing.T
	app    *simapp.App
	base   sdk.Context
	addrs  map[int]sdk.AccAddress
	ids    map[string]int
	extra  int
	voter  sdk.AccAddress
	govDep sdk.Coins
	govVP  time.Duration
}

func c05Esc(d int) int { return 1000 + d }

func c05Deliver(app *simapp.App, ctx sdk.Context, msg sdk.Msg) error {
	return try(func() error {
		if vb, ok := msg.(interface{ ValidateBasic() error }); ok {
			if err := vb.ValidateBasic(); err != nil {
				return err
			}
		}
		h := app.MsgServiceRouter().Handler(msg)
		if h == nil {
			return fmt.Errorf("no handler for %T", msg)
		}
		_, err := h(ctx, msg)
		return err
	})
}

// viaGov runs msg through the real governance pipeline: a proposal carrying the message is
// submitted with the full deposit, the only delegator votes yes, and the gov EndBlocker after the
// voting period tallies and executes it.  The result is "the proposal passed and its message ran".
func (e *c05Env) viaGov(ctx sdk.Context, msg sdk.Msg) error {
	return try(func() error {
		pid, err := e.app.GovKeeper.ProposalID.Peek(ctx)
		if err != nil {
			return err
		}
		sub, err := govv1.NewMsgSubmitProposal([]sdk.Msg{msg}, e.govDep, e.voter.String(), "c05", "c05 proposal", "c05 proposal", false)
		if err != nil {
			return err
		}
		if err := c05Deliver(e.app, ctx, sub); err != nil {
			return fmt.Errorf("submit: %w", err)
		}
		if err := c05Deliver(e.app, ctx, govv1.NewMsgVote(e.voter, pid, govv1.OptionYes, "")); err != nil {
			return fmt.Errorf("vote: %w", err)
		}
		later := ctx.WithBlockTime(ctx.BlockTime().Add(e.govVP + time.Second))
		if err := gov.EndBlocker(later, &e.app.GovKeeper); err != nil {
			return fmt.Errorf("gov end blocker: %w", err)
		}
		p, err := e.app.GovKeeper.Proposals.Get(ctx, pid)
		if err != nil {
			return err
		}
		if p.Status != govv1.StatusPassed {
			return fmt.Errorf("proposal %d ended %s: %s", pid, p.Status, p.FailedReason)
		}
		return nil
	})
}

type c05DObs struct {
	has     bool
	status  int
	msupply sdkmath.Int
	fixed   bool
	restr   bool
	forced  bool // AllowForcedTransfer (read by the generator only)
	supply  sdkmath.Int
	bals    map[int]sdkmath.Int // every holder the bank lists
}

func (o c05DObs) bal(n int) sdkmath.Int {
	if v, ok := o.bals[n]; ok {
		return v
	}
	return sdkmath.ZeroInt()
}

type c05Obs struct {
	mts  uint64 // the deprecated max_total_supply as stored (read by the generator / statistics only)
	maxs sdkmath.Int
	gov  bool
	den  []c05DObs
}

var c05StatusNames = []string{"", "Proposed", "Finalized", "Active", "Cancelled", "Destroyed"}

func (e *c05Env) idOf(a sdk.AccAddress) int {
	if n, ok := e.ids[string(a)]; ok {
		return n
	}
	e.extra++
	n := 5000 + e.extra
	e.ids[string(a)] = n
	e.addrs[n] = a
	return n
}

func (e *c05Env) observe(ctx sdk.Context, nd int) c05Obs {
	// the configured parameters as a client reads them back: the gRPC Params query
	pr, err := e.app.MarkerKeeper.Params(ctx, &markertypes.QueryParamsRequest{})
	if err != nil {
		e.t.Fatalf("params query: %v", err)
	}
	p := pr.Params
	o := c05Obs{maxs: p.MaxSupply, mts: p.MaxTotalSupply, gov: p.EnableGovernance, den: make([]c05DObs, nd)} //nolint:staticcheck
	idx := map[string]int{}
	for d := 0; d < nd; d++ {
		idx[c05Denoms[d]] = d
		x := c05DObs{bals: map[int]sdkmath.Int{}}
		m, err := e.app.MarkerKeeper.GetMarkerByDenom(ctx, c05Denoms[d])
		if err == nil && m != nil {
			x.has = true
			x.status = int(m.GetStatus())
			x.msupply = m.GetSupply().Amount
			x.fixed = m.HasFixedSupply()
			x.restr = m.GetMarkerType() == markertypes.MarkerType_RestrictedCoin
			x.forced = m.AllowsForcedTransfer()
		}
		x.supply = e.app.BankKeeper.GetSupply(ctx, c05Denoms[d]).Amount
		o.den[d] = x
	}
	// every balance entry the bank has, whoever holds it
	e.app.BankKeeper.IterateAllBalances(ctx, func(a sdk.AccAddress, c sdk.Coin) bool {
		if d, ok := idx[c.Denom]; ok {
			n := e.idOf(a)
			o.den[d].bals[n] = o.den[d].bal(n).Add(c.Amount)
		}
		return false
	})
	return o
}

func (x c05DObs) coq() string {
	mk := "None"
	if x.has {
		mk = fmt.Sprintf("(Some (%s, %s, %s))", c05StatusNames[x.status], zInt(x.msupply), coqBool(x.fixed))
	}
	var ks []int
	for n := range x.bals {
		ks = append(ks, n)
	}
	sort.Ints(ks)
	var bs []string
	for _, n := range ks {
		bs = append(bs, fmt.Sprintf("(%d%%N, %s)", n, zInt(x.bals[n])))
	}
	return fmt.Sprintf("(Build_dobs %s %s %s)", mk, zInt(x.supply), coqList(bs))
}

func (o c05Obs) coq(ok bool) string {
	var ds []string
	for d, x := range o.den {
		ds = append(ds, fmt.Sprintf("(%d%%N, %s)", d, x.coq()))
	}
	return fmt.Sprintf("(Build_obs %s %s %s %s)", coqBool(ok), zInt(o.maxs), coqBool(o.gov), coqList(ds))
}

type c05Op struct {
	kind  string
	term  string
	desc  string
	isGov bool    // carries the governance authority: eligible for the real gov route
	msg   sdk.Msg // nil for the begin-blocker
	after func()  // bookkeeping of the generator after an accepted run
}

func c05Rights(mask int) []markertypes.Access {
	var out []markertypes.Access
	for i := 0; i < 8; i++ {
		if mask&(1<<i) != 0 {
			out = append(out, markertypes.Access(i+1))
		}
	}
	return out
}

func c05OptAddr(n int) string {
	if n < 0 {
		return "None"
	}
	return fmt.Sprintf("(Some %d%%N)", n)
}

func c05Acl(acl [][2]int) string {
	var s []string
	for _, g := range acl {
		s = append(s, fmt.Sprintf("(%d%%N, %d%%N)", g[0], g[1]))
	}
	return coqList(s)
}

// coin builds a coin without the constructor's panics (negative amounts must reach ValidateBasic).
func c05Coin(d int, a sdkmath.Int) sdk.Coin { return sdk.Coin{Denom: c05Denoms[d], Amount: a} }

type c05DGen struct {
	manager int // who we believe manages the marker (-1 unknown)
	recall  bool
}

type c05Gen struct {
	e      *c05Env
	r      *rand.Rand
	nd     int
	dg     []*c05DGen
	// (granter, grantee) -> what we believe is left of the live authz grant's limit, per denom
	grants map[[2]int]map[int]sdkmath.Int
}

func (g *c05Gen) user() int { return 1 + g.r.Intn(4) }

// grantKeys lists the known grants in a fixed order (map iteration order must not leak into the run).
func (g *c05Gen) grantKeys() [][2]int {
	var ks [][2]int
	for k := range g.grants {
		ks = append(ks, k)
	}
	sort.Slice(ks, func(i, j int) bool { return ks[i][0] < ks[j][0] || (ks[i][0] == ks[j][0] && ks[i][1] < ks[j][1]) })
	return ks
}

func (g *c05Gen) hasGrant(granter, grantee int) bool { _, ok := g.grants[[2]int{granter, grantee}]; return ok }

// grantLeft is the remaining limit of denom d we believe the grant has (zero when none).
func (g *c05Gen) grantLeft(granter, grantee, d int) sdkmath.Int {
	if l, ok := g.grants[[2]int{granter, grantee}]; ok {
		if v, ok := l[d]; ok {
			return v
		}
	}
	return sdkmath.ZeroInt()
}

// usedGrant books an accepted transfer against the grant it went through.
func (g *c05Gen) usedGrant(granter, grantee, d int, amt sdkmath.Int) {
	k := [2]int{granter, grantee}
	l, ok := g.grants[k]
	if !ok {
		return
	}
	if v, ok := l[d]; ok {
		if v.GT(amt) {
			l[d] = v.Sub(amt)
		} else {
			delete(l, d)
		}
	}
	if len(l) == 0 {
		delete(g.grants, k)
	}
}

// holder prefers address 1 (created with every right) over a random user.
func (g *c05Gen) holder() int {
	if g.r.Intn(100) < 75 {
		return 1
	}
	return g.user()
}

func (g *c05Gen) mgr(d int) int {
	if g.dg[d].manager > 0 && g.r.Intn(100) < 80 {
		return g.dg[d].manager
	}
	return g.user()
}

func (g *c05Gen) authority() int {
	if g.r.Intn(100) < 88 {
		return 100
	}
	return g.user()
}

func (g *c05Gen) otherDenom(d int) int {
	e := g.r.Intn(g.nd - 1)
	if e >= d {
		e++
	}
	return e
}

// target: mostly a user, sometimes the marker's own account, sometimes ANOTHER marker's account
// (cross-holdings).
func (g *c05Gen) target(d int) int {
	switch x := g.r.Intn(25); {
	case x < 2:
		return c05Esc(d)
	case x < 5:
		return c05Esc(g.otherDenom(d))
	case x < 6:
		// a module account: a blocked address for MsgSend / MsgWithdraw / MsgTransfer
		return []int{99, 99, 100}[g.r.Intn(3)]
	default:
		return g.user()
	}
}

// govTarget: where governance sends coins (WithdrawEscrow proposal, SupplyIncrease proposal with a
// target): these routes do not check blocked addresses, so the marker module account (the coin
// pool that mints and burns pass through) and the governance account are possible receivers.
func (g *c05Gen) govTarget(d int) int {
	switch x := g.r.Intn(20); {
	case x < 5:
		return 99
	case x < 6:
		return 100
	case x < 7:
		return c05Esc(d)
	case x < 9:
		return c05Esc(g.otherDenom(d))
	default:
		return g.user()
	}
}

// around picks an amount near x: x itself, its neighbours, a fraction, small values, zero.
func (g *c05Gen) around(x sdkmath.Int) sdkmath.Int {
	switch g.r.Intn(12) {
	case 0, 1, 2:
		return x
	case 3:
		return x.AddRaw(1)
	case 4:
		if x.IsPositive() {
			return x.SubRaw(1)
		}
		return x
	case 5, 6:
		if x.IsPositive() {
			return sdkmath.NewIntFromBigInt(new(big.Int).Rand(g.r, x.BigInt())).AddRaw(1)
		}
		return sdkmath.NewInt(int64(1 + g.r.Intn(20)))
	case 7:
		return sdkmath.ZeroInt()
	case 8:
		if g.r.Intn(4) == 0 {
			return sdkmath.NewInt(-int64(1 + g.r.Intn(5)))
		}
		return sdkmath.NewInt(int64(1 + g.r.Intn(1000)))
	default:
		return sdkmath.NewInt(int64(1 + g.r.Intn(60)))
	}
}

// within picks a positive amount that x covers (x itself, a fraction), for operations meant to succeed.
func (g *c05Gen) within(x sdkmath.Int) sdkmath.Int {
	if !x.IsPositive() {
		return sdkmath.NewInt(int64(1 + g.r.Intn(20)))
	}
	switch g.r.Intn(8) {
	case 0, 1:
		return x
	case 2:
		return x.AddRaw(1)
	default:
		return sdkmath.NewIntFromBigInt(new(big.Int).Rand(g.r, x.BigInt())).AddRaw(1)
	}
}

func (g *c05Gen) small() sdkmath.Int { return sdkmath.NewInt(int64(1 + g.r.Intn(40))) }

func (g *c05Gen) initialSupply(maxs sdkmath.Int) sdkmath.Int {
	switch g.r.Intn(10) {
	case 0:
		return sdkmath.ZeroInt()
	case 1:
		return maxs
	case 2:
		return maxs.AddRaw(1)
	case 3:
		return sdkmath.NewInt(1)
	case 4, 5:
		return sdkmath.NewInt(int64(g.r.Intn(2000)))
	default:
		return sdkmath.NewInt(int64(50 + g.r.Intn(500)))
	}
}

func (g *c05Gen) aclFor(t markertypes.MarkerType) [][2]int {
	all := 63
	if t == markertypes.MarkerType_RestrictedCoin {
		all = 255
	}
	acl := [][2]int{{1, all}}
	switch g.r.Intn(10) {
	case 0: // nobody can mint
		acl = [][2]int{{1, all &^ 1}}
	case 1: // invalid for a coin marker (transfer right), fine for restricted
		acl = append(acl, [2]int{2, 64 | g.r.Intn(64)})
	case 2:
		acl = [][2]int{}
	default:
		acl = append(acl, [2]int{2, g.r.Intn(all + 1)})
		if g.r.Intn(3) == 0 {
			acl = append(acl, [2]int{3, g.r.Intn(all + 1)})
		}
	}
	return acl
}

func (g *c05Gen) grantsOf(acl [][2]int) []markertypes.AccessGrant {
	out := []markertypes.AccessGrant{}
	for _, a := range acl {
		out = append(out, markertypes.AccessGrant{Address: g.e.addrs[a[0]].String(), Permissions: c05Rights(a[1])})
	}
	return out
}

func (g *c05Gen) typ() (markertypes.MarkerType, string) {
	if g.r.Intn(2) == 0 {
		return markertypes.MarkerType_Coin, "Coin"
	}
	return markertypes.MarkerType_RestrictedCoin, "Restricted"
}

func on(d int, s string) string { return fmt.Sprintf("MOn %d%%N (%s)", d, s) }

func (g *c05Gen) opAdd(d int, gov bool, o c05Obs) c05Op {
	e := g.e
	t, tn := g.typ()
	from := g.holder()
	status := 1
	if g.r.Intn(3) == 0 {
		status = 2
	}
	if gov {
		from = 100
		status = []int{1, 2, 3, 3, 3, 4, 5}[g.r.Intn(7)]
	} else if g.r.Intn(25) == 0 {
		status = 3 + g.r.Intn(3)
	}
	amt := g.initialSupply(o.maxs)
	fx := g.r.Intn(2) == 0
	gv := g.r.Intn(3) != 0
	fr := t == markertypes.MarkerType_RestrictedCoin && g.r.Intn(3) == 0
	if g.r.Intn(30) == 0 {
		fr = true
	}
	mgr := -1
	switch g.r.Intn(10) {
	case 0, 1:
		mgr = 4
	case 2:
		mgr = -1
	default:
		mgr = 1
	}
	acl := g.aclFor(t)
	mgrS := ""
	if mgr >= 0 {
		mgrS = e.addrs[mgr].String()
	}
	msg := &markertypes.MsgAddMarkerRequest{
		Amount: c05Coin(d, amt), Manager: mgrS, FromAddress: e.addrs[from].String(),
		Status: markertypes.MarkerStatus(status), MarkerType: t, AccessList: g.grantsOf(acl),
		SupplyFixed: fx, AllowGovernanceControl: gv, AllowForcedTransfer: fr,
	}
	who := mgr
	if who < 0 {
		who = from
	}
	return c05Op{
		kind:  map[bool]string{false: "add", true: "gov-add"}[gov],
		isGov: from == 100,
		term:  on(d, fmt.Sprintf("OAdd %d%%N %s %s %s %s %s %s %s %s", from, c05StatusNames[status], zInt(amt), coqBool(fx), coqBool(gv), tn, coqBool(fr), c05OptAddr(mgr), c05Acl(acl))),
		desc:  fmt.Sprintf("[%s] add from=%d status=%s supply=%s fixed=%v gov=%v type=%s forced=%v manager=%d acl=%v", c05Denoms[d], from, c05StatusNames[status], amt, fx, gv, tn, fr, mgr, acl),
		msg:   msg,
		after: func() { g.dg[d].manager = who },
	}
}

func (g *c05Gen) opAddFinAct(d int, o c05Obs) c05Op {
	e := g.e
	t, tn := g.typ()
	amt := g.initialSupply(o.maxs)
	fx := g.r.Intn(2) == 0
	gv := g.r.Intn(3) != 0
	fr := t == markertypes.MarkerType_RestrictedCoin && g.r.Intn(3) == 0
	mgr := 1
	if g.r.Intn(12) == 0 {
		mgr = -1
	}
	acl := g.aclFor(t)
	mgrS := ""
	if mgr >= 0 {
		mgrS = e.addrs[mgr].String()
	}
	msg := &markertypes.MsgAddFinalizeActivateMarkerRequest{
		Amount: c05Coin(d, amt), Manager: mgrS, FromAddress: e.addrs[g.user()].String(), MarkerType: t,
		AccessList: g.grantsOf(acl), SupplyFixed: fx, AllowGovernanceControl: gv, AllowForcedTransfer: fr,
	}
	return c05Op{
		kind: "add-finalize-activate",
		term: on(d, fmt.Sprintf("OAddFinAct %s %s %s %s %s %s %s", zInt(amt), coqBool(fx), coqBool(gv), tn, coqBool(fr), c05OptAddr(mgr), c05Acl(acl))),
		desc: fmt.Sprintf("[%s] add-finalize-activate supply=%s fixed=%v gov=%v type=%s forced=%v manager=%d acl=%v", c05Denoms[d], amt, fx, gv, tn, fr, mgr, acl),
		msg:  msg,
	}
}

func (g *c05Gen) simple(d int, kind string, caller int) c05Op {
	a := g.e.addrs[caller].String()
	dn := c05Denoms[d]
	var msg sdk.Msg
	var con string
	switch kind {
	case "finalize":
		msg, con = &markertypes.MsgFinalizeRequest{Denom: dn, Administrator: a}, "OFinalize"
	case "activate":
		msg, con = &markertypes.MsgActivateRequest{Denom: dn, Administrator: a}, "OActivate"
	case "cancel":
		msg, con = &markertypes.MsgCancelRequest{Denom: dn, Administrator: a}, "OCancel"
	case "delete":
		msg, con = &markertypes.MsgDeleteRequest{Denom: dn, Administrator: a}, "ODelete"
	}
	return c05Op{kind: kind, term: on(d, fmt.Sprintf("%s %d%%N", con, caller)), desc: fmt.Sprintf("[%s] %s by %d", dn, kind, caller), msg: msg}
}

func (g *c05Gen) opMint(d, caller int, amt sdkmath.Int) c05Op {
	msg := &markertypes.MsgMintRequest{Amount: c05Coin(d, amt), Administrator: g.e.addrs[caller].String()}
	return c05Op{kind: "mint", term: on(d, fmt.Sprintf("OMint %d%%N %s", caller, zInt(amt))), desc: fmt.Sprintf("[%s] mint %s by %d", c05Denoms[d], amt, caller), msg: msg}
}

func (g *c05Gen) opBurn(d, caller int, amt sdkmath.Int) c05Op {
	msg := &markertypes.MsgBurnRequest{Amount: c05Coin(d, amt), Administrator: g.e.addrs[caller].String()}
	return c05Op{kind: "burn", term: on(d, fmt.Sprintf("OBurn %d%%N %s", caller, zInt(amt))), desc: fmt.Sprintf("[%s] burn %s by %d", c05Denoms[d], amt, caller), msg: msg}
}

func (g *c05Gen) opWithdraw(d, caller, to int, amt sdkmath.Int) c05Op {
	e := g.e
	msg := &markertypes.MsgWithdrawRequest{Denom: c05Denoms[d], Administrator: e.addrs[caller].String(), ToAddress: e.addrs[to].String(),
		Amount: sdk.Coins{c05Coin(d, amt)}}
	return c05Op{kind: "withdraw", term: on(d, fmt.Sprintf("OWithdraw %d%%N %d%%N %s", caller, to, zInt(amt))), desc: fmt.Sprintf("[%s] withdraw %s to %d by %d", c05Denoms[d], amt, to, caller), msg: msg}
}

// coins of denom x lying in marker d's account are withdrawn by d's administrator
func (g *c05Gen) opWithdrawOther(d, caller, to, x int, amt sdkmath.Int) c05Op {
	e := g.e
	msg := &markertypes.MsgWithdrawRequest{Denom: c05Denoms[d], Administrator: e.addrs[caller].String(), ToAddress: e.addrs[to].String(),
		Amount: sdk.Coins{c05Coin(x, amt)}}
	return c05Op{kind: "withdraw-other-denom", term: fmt.Sprintf("MWithdrawOther %d%%N %d%%N %d%%N %d%%N %s", d, caller, to, x, zInt(amt)),
		desc: fmt.Sprintf("[%s] withdraw %s%s to %d by %d", c05Denoms[d], amt, c05Denoms[x], to, caller), msg: msg}
}

func (g *c05Gen) opTransfer(d, admin, from, to int, amt sdkmath.Int) c05Op {
	e := g.e
	msg := &markertypes.MsgTransferRequest{Amount: c05Coin(d, amt), Administrator: e.addrs[admin].String(), FromAddress: e.addrs[from].String(), ToAddress: e.addrs[to].String()}
	return c05Op{kind: "transfer", term: fmt.Sprintf("MTransfer %d%%N %d%%N %d%%N %d%%N %s", d, admin, from, to, zInt(amt)), desc: fmt.Sprintf("[%s] transfer %s %d->%d by %d", c05Denoms[d], amt, from, to, admin), msg: msg}
}

func (g *c05Gen) opSend(d, from, to int, amt sdkmath.Int) c05Op {
	e := g.e
	msg := &banktypes.MsgSend{FromAddress: e.addrs[from].String(), ToAddress: e.addrs[to].String(), Amount: sdk.Coins{c05Coin(d, amt)}}
	return c05Op{kind: "send", term: on(d, fmt.Sprintf("OSend %d%%N %d%%N %s", from, to, zInt(amt))), desc: fmt.Sprintf("[%s] bank send %s %d->%d", c05Denoms[d], amt, from, to), msg: msg}
}

func (g *c05Gen) opGrant(d, caller, grantee, mask int) c05Op {
	e := g.e
	msg := &markertypes.MsgAddAccessRequest{Denom: c05Denoms[d], Administrator: e.addrs[caller].String(),
		Access: []markertypes.AccessGrant{{Address: e.addrs[grantee].String(), Permissions: c05Rights(mask)}}}
	return c05Op{kind: "grant", term: on(d, fmt.Sprintf("OGrant %d%%N %d%%N %d%%N", caller, grantee, mask)), desc: fmt.Sprintf("[%s] grant %d to %d by %d", c05Denoms[d], mask, grantee, caller), msg: msg}
}

func (g *c05Gen) opRevoke(d, caller, a int) c05Op {
	e := g.e
	msg := &markertypes.MsgDeleteAccessRequest{Denom: c05Denoms[d], Administrator: e.addrs[caller].String(), RemovedAddress: e.addrs[a].String()}
	return c05Op{kind: "revoke", term: on(d, fmt.Sprintf("ORevoke %d%%N %d%%N", caller, a)), desc: fmt.Sprintf("[%s] revoke %d by %d", c05Denoms[d], a, caller), msg: msg}
}

func (g *c05Gen) opGovInc(d, auth int, amt sdkmath.Int, target int) c05Op {
	e := g.e
	ts := ""
	if target >= 0 {
		ts = e.addrs[target].String()
	}
	msg := &markertypes.MsgSupplyIncreaseProposalRequest{Amount: c05Coin(d, amt), TargetAddress: ts, Authority: e.addrs[auth].String()}
	return c05Op{kind: "gov-supply-increase", isGov: auth == 100, term: on(d, fmt.Sprintf("OGovSupplyIncrease %d%%N %s %s", auth, zInt(amt), c05OptAddr(target))),
		desc: fmt.Sprintf("[%s] gov supply increase %s target=%d authority=%d", c05Denoms[d], amt, target, auth), msg: msg}
}

func (g *c05Gen) opGovDec(d, auth int, amt sdkmath.Int) c05Op {
	msg := &markertypes.MsgSupplyDecreaseProposalRequest{Amount: c05Coin(d, amt), Authority: g.e.addrs[auth].String()}
	return c05Op{kind: "gov-supply-decrease", isGov: auth == 100, term: on(d, fmt.Sprintf("OGovSupplyDecrease %d%%N %s", auth, zInt(amt))),
		desc: fmt.Sprintf("[%s] gov supply decrease %s authority=%d", c05Denoms[d], amt, auth), msg: msg}
}

func (g *c05Gen) opGovStatus(d, auth, status int) c05Op {
	msg := &markertypes.MsgChangeStatusProposalRequest{Denom: c05Denoms[d], NewStatus: markertypes.MarkerStatus(status), Authority: g.e.addrs[auth].String()}
	return c05Op{kind: "gov-change-status", isGov: auth == 100, term: on(d, fmt.Sprintf("OGovChangeStatus %d%%N %s", auth, c05StatusNames[status])),
		desc: fmt.Sprintf("[%s] gov change status to %s authority=%d", c05Denoms[d], c05StatusNames[status], auth), msg: msg}
}

func (g *c05Gen) opGovWithdraw(d, auth, to int, amt sdkmath.Int) c05Op {
	e := g.e
	msg := &markertypes.MsgWithdrawEscrowProposalRequest{Denom: c05Denoms[d], Amount: sdk.Coins{c05Coin(d, amt)}, TargetAddress: e.addrs[to].String(), Authority: e.addrs[auth].String()}
	return c05Op{kind: "gov-withdraw-escrow", isGov: auth == 100, term: on(d, fmt.Sprintf("OGovWithdrawEscrow %d%%N %d%%N %s", auth, to, zInt(amt))),
		desc: fmt.Sprintf("[%s] gov withdraw escrow %s to %d authority=%d", c05Denoms[d], amt, to, auth), msg: msg}
}

func (g *c05Gen) opGovWithdrawOther(auth, d, to, x int, amt sdkmath.Int) c05Op {
	e := g.e
	msg := &markertypes.MsgWithdrawEscrowProposalRequest{Denom: c05Denoms[d], Amount: sdk.Coins{c05Coin(x, amt)}, TargetAddress: e.addrs[to].String(), Authority: e.addrs[auth].String()}
	return c05Op{kind: "gov-withdraw-escrow-other-denom", isGov: auth == 100, term: fmt.Sprintf("MGovWithdrawOther %d%%N %d%%N %d%%N %d%%N %s", auth, d, to, x, zInt(amt)),
		desc: fmt.Sprintf("[%s] gov withdraw escrow %s%s to %d authority=%d", c05Denoms[d], amt, c05Denoms[x], to, auth), msg: msg}
}

func (g *c05Gen) opGovSetAdmin(d, auth, grantee, mask int) c05Op {
	e := g.e
	msg := &markertypes.MsgSetAdministratorProposalRequest{Denom: c05Denoms[d], Authority: e.addrs[auth].String(),
		Access: []markertypes.AccessGrant{{Address: e.addrs[grantee].String(), Permissions: c05Rights(mask)}}}
	return c05Op{kind: "gov-set-admin", isGov: auth == 100, term: on(d, fmt.Sprintf("OGovSetAdmin %d%%N %d%%N %d%%N", auth, grantee, mask)),
		desc: fmt.Sprintf("[%s] gov set administrator %d rights %d authority=%d", c05Denoms[d], grantee, mask, auth), msg: msg}
}

func (g *c05Gen) opGovRemoveAdmin(d, auth, a int) c05Op {
	e := g.e
	msg := &markertypes.MsgRemoveAdministratorProposalRequest{Denom: c05Denoms[d], Authority: e.addrs[auth].String(), RemovedAddress: []string{e.addrs[a].String()}}
	return c05Op{kind: "gov-remove-admin", isGov: auth == 100, term: on(d, fmt.Sprintf("OGovRemoveAdmin %d%%N %d%%N", auth, a)),
		desc: fmt.Sprintf("[%s] gov remove administrator %d authority=%d", c05Denoms[d], a, auth), msg: msg}
}

// c05Mts draws a value for the DEPRECATED uint64 parameter max_total_supply relative to max_supply:
// 0 (unset), equal, smaller, larger.  Nothing may depend on it: the limit is max_supply.
func c05Mts(r *rand.Rand, maxs sdkmath.Int) uint64 {
	m := uint64(1000)
	if maxs.IsPositive() && maxs.IsUint64() {
		m = maxs.Uint64()
	} else if maxs.IsPositive() {
		m = 1 << 62
	}
	switch r.Intn(8) {
	case 0, 1:
		return 0
	case 2:
		return m
	case 3:
		return m/2 + 1
	case 4:
		return m + 1
	case 5:
		return m + uint64(1+r.Intn(5000))
	case 6:
		if m < 1<<50 {
			return m * 1000
		}
		return 1 << 63
	default:
		return 1 << 63
	}
}

func (g *c05Gen) opSetParams(auth int, maxs sdkmath.Int, mts uint64, gv bool, o c05Obs) c05Op {
	e := g.e
	cur := e.app.MarkerKeeper.GetParams(e.base)
	msg := &markertypes.MsgUpdateParamsRequest{Authority: e.addrs[auth].String(),
		Params: markertypes.Params{MaxSupply: maxs, MaxTotalSupply: mts, EnableGovernance: gv, UnrestrictedDenomRegex: cur.UnrestrictedDenomRegex}} //nolint:staticcheck
	return c05Op{kind: "update-params", isGov: auth == 100, term: fmt.Sprintf("MSetParams %d%%N %s %d %s", auth, zInt(maxs), mts, coqBool(gv)),
		desc: fmt.Sprintf("update params max_supply=%s max_total_supply(deprecated)=%d enable_governance=%v authority=%d (was %s)", maxs, mts, gv, auth, o.maxs), msg: msg}
}

func (g *c05Gen) opAuthzGrant(granter, grantee int, limit map[int]sdkmath.Int, allow []int) c05Op {
	e := g.e
	var coins sdk.Coins
	var lim []string
	for d := 0; d < len(c05Denoms); d++ {
		if v, ok := limit[d]; ok {
			coins = append(coins, c05Coin(d, v))
			lim = append(lim, fmt.Sprintf("(%d%%N, %s)", d, zInt(v)))
		}
	}
	var al []sdk.AccAddress
	var als []string
	for _, a := range allow {
		al = append(al, e.addrs[a])
		als = append(als, fmt.Sprintf("%d%%N", a))
	}
	msg, err := authz.NewMsgGrant(e.addrs[granter], e.addrs[grantee], markertypes.NewMarkerTransferAuthorization(coins, al), nil)
	if err != nil {
		e.t.Fatal(err)
	}
	return c05Op{kind: "authz-grant", term: fmt.Sprintf("MAuthzGrant %d%%N %d%%N %s %s", granter, grantee, coqList(lim), coqList(als)),
		desc: fmt.Sprintf("authz grant %d->%d limit=%s allow=%v", granter, grantee, coins, allow), msg: msg,
		after: func() {
			l := map[int]sdkmath.Int{}
			for d, v := range limit {
				l[d] = v
			}
			g.grants[[2]int{granter, grantee}] = l
		}}
}

func (g *c05Gen) opAuthzRevoke(granter, grantee int) c05Op {
	e := g.e
	msg := authz.NewMsgRevoke(e.addrs[granter], e.addrs[grantee], sdk.MsgTypeURL(&markertypes.MsgTransferRequest{}))
	return c05Op{kind: "authz-revoke", term: fmt.Sprintf("MAuthzRevoke %d%%N %d%%N", granter, grantee),
		desc: fmt.Sprintf("authz revoke %d->%d", granter, grantee), msg: &msg,
		after: func() { delete(g.grants, [2]int{granter, grantee}) }}
}

func (g *c05Gen) opBeginBlock() c05Op {
	return c05Op{kind: "begin-block", term: "MBeginBlock", desc: "begin block"}
}

func (g *c05Gen) mask(restr bool) int {
	if restr {
		return g.r.Intn(256)
	}
	if g.r.Intn(8) == 0 {
		return g.r.Intn(256)
	}
	return g.r.Intn(64)
}

// holderOfCoins returns a user (1..4) holding coins of the denom, or -1.
func (g *c05Gen) holderOfCoins(x c05DObs) int {
	start := g.r.Intn(4)
	for i := 0; i < 4; i++ {
		n := 1 + (start+i)%4
		if x.bal(n).IsPositive() {
			return n
		}
	}
	return -1
}

// foreign finds a marker account d holding coins of another denom x.
func (g *c05Gen) foreign(o c05Obs) (d, x int, ok bool) {
	s := g.r.Intn(g.nd * g.nd)
	for i := 0; i < g.nd*g.nd; i++ {
		k := (s + i) % (g.nd * g.nd)
		d, x = k/g.nd, k%g.nd
		if d != x && o.den[x].bal(c05Esc(d)).IsPositive() {
			return d, x, true
		}
	}
	return 0, 0, false
}

// anyOp draws an operation on denom d without looking at the state (exercises the rejecting branches).
func (g *c05Gen) anyOp(d int, o c05Obs) c05Op {
	x := o.den[d]
	switch g.r.Intn(20) {
	case 0:
		return g.opAdd(d, false, o)
	case 1:
		return g.opAdd(d, true, o)
	case 2:
		return g.opAddFinAct(d, o)
	case 3:
		return g.simple(d, "finalize", g.mgr(d))
	case 4:
		return g.simple(d, "activate", g.mgr(d))
	case 5:
		return g.opMint(d, g.holder(), g.small())
	case 6:
		return g.opBurn(d, g.holder(), g.around(x.bal(c05Esc(d))))
	case 7:
		return g.opWithdraw(d, g.holder(), g.target(d), g.around(x.bal(c05Esc(d))))
	case 8:
		return g.simple(d, "cancel", g.holder())
	case 9:
		return g.simple(d, "delete", g.holder())
	case 10:
		f := g.user()
		if g.r.Intn(4) == 0 {
			// forced transfers cannot empty module accounts; they can empty another marker's account.
			// (An address reserved for a marker that does not exist is not used as a source: whether
			// an unsigned base account exists there is not part of the model.)
			f = []int{99, 100, 99}[g.r.Intn(3)]
			if e2 := g.otherDenom(d); o.den[e2].has && g.r.Intn(2) == 0 {
				f = c05Esc(e2)
			}
		}
		return g.opTransfer(d, g.holder(), f, g.target(d), g.around(x.bal(f)))
	case 11:
		return g.opGrant(d, g.holder(), g.user(), g.mask(x.restr))
	case 12:
		return g.opRevoke(d, g.holder(), g.user())
	case 13:
		t := -1
		if g.r.Intn(2) == 0 {
			t = g.govTarget(d)
		}
		return g.opGovInc(d, g.authority(), g.small(), t)
	case 14:
		return g.opGovDec(d, g.authority(), g.around(x.bal(c05Esc(d))))
	case 15:
		return g.opGovStatus(d, g.authority(), 1+g.r.Intn(5))
	case 16:
		return g.opGovWithdraw(d, g.authority(), g.govTarget(d), g.around(x.bal(c05Esc(d))))
	case 17:
		f := g.user()
		return g.opSend(d, f, g.target(d), g.around(x.bal(f)))
	case 18:
		if g.r.Intn(2) == 0 {
			return g.opGovSetAdmin(d, g.authority(), g.user(), g.mask(x.restr))
		}
		return g.opGovRemoveAdmin(d, g.authority(), g.user())
	default:
		e := g.otherDenom(d)
		if g.r.Intn(2) == 0 {
			return g.opWithdrawOther(d, g.holder(), g.user(), e, g.around(o.den[e].bal(c05Esc(d))))
		}
		return g.opGovWithdrawOther(g.authority(), d, g.govTarget(e), e, g.around(o.den[e].bal(c05Esc(d))))
	}
}

func (g *c05Gen) headroom(o c05Obs, d int) sdkmath.Int {
	h := o.maxs.Sub(o.den[d].supply)
	if h.IsNegative() {
		return sdkmath.ZeroInt()
	}
	return h
}

// transfer draws a MsgTransfer on the active restricted marker d that is meant to succeed:
// the holder of every right moves its own coins, forces a transfer, or uses an authz grant.
func (g *c05Gen) transfer(d int, o c05Obs) (c05Op, bool) {
	x := o.den[d]
	r := g.r
	to := g.user()
	if r.Intn(8) == 0 {
		to = g.target(d)
	}
	// a granted pair first
	if r.Intn(3) != 0 {
		for _, k := range g.grantKeys() {
			if r.Intn(2) == 0 {
				if op, ok := g.grantedTransfer(d, o, k, to); ok {
					return op, true
				}
			}
		}
	}
	if x.bal(1).IsPositive() && r.Intn(2) == 0 {
		return g.opTransfer(d, 1, 1, to, g.within(x.bal(1))), true
	}
	if f := g.holderOfCoins(x); f > 0 {
		adm := 1
		if r.Intn(12) == 0 {
			adm = f
		}
		if adm != f && !x.forced && !g.grantLeft(f, adm, d).IsPositive() && r.Intn(10) != 0 {
			// moving somebody else's coins without forced transfer needs that holder's authz grant first
			lim := x.bal(f).AddRaw(int64(r.Intn(40)))
			if r.Intn(2) == 0 {
				lim = g.within(x.bal(f)) // a limit below the balance: the grant runs out before the coins do
			}
			return g.opAuthzGrant(f, adm, map[int]sdkmath.Int{d: lim}, nil), true
		}
		amt := g.within(x.bal(f))
		if adm != f && !x.forced {
			if left := g.grantLeft(f, adm, d); left.IsPositive() && r.Intn(5) != 0 {
				amt = g.within(sdkmath.MinInt(left, x.bal(f)))
			}
		}
		op := g.opTransfer(d, adm, f, to, amt)
		if adm != f && !x.forced {
			op.after = func() { g.usedGrant(f, adm, d, amt) }
		}
		return op, true
	}
	return c05Op{}, false
}

// grantedTransfer moves coins of the granter k[0] by the grantee k[1] under their authz grant:
// within what is left of the limit, exactly all of it, or just past it.
func (g *c05Gen) grantedTransfer(d int, o c05Obs, k [2]int, to int) (c05Op, bool) {
	x := o.den[d]
	r := g.r
	f, a := k[0], k[1]
	left := g.grantLeft(f, a, d)
	if !x.bal(f).IsPositive() || !left.IsPositive() {
		return c05Op{}, false
	}
	cap := sdkmath.MinInt(left, x.bal(f))
	amt := g.within(cap)
	switch r.Intn(6) {
	case 0, 1:
		amt = cap // use the grant up
	case 2:
		// past what is left of the limit (refused unless the limit was not decreased)
		if x.bal(f).GT(left) {
			amt = left.AddRaw(1)
		} else {
			amt = g.within(x.bal(f))
		}
	}
	op := g.opTransfer(d, a, f, to, amt)
	if !x.forced {
		op.after = func() { g.usedGrant(f, a, d, amt) }
	}
	return op, true
}

// worldOp draws an operation that is not aimed at one marker's own coins.
func (g *c05Gen) worldOp(o c05Obs) (c05Op, bool) {
	r := g.r
	switch x := r.Intn(100); {
	case x < 8:
		var m sdkmath.Int
		d := r.Intn(g.nd)
		switch r.Intn(8) {
		case 0:
			m = sdkmath.NewInt(1000)
		case 1:
			m = sdkmath.NewInt(100000)
		case 2:
			m = o.den[d].supply // exactly the supply of a denom: no head-room left
		case 3:
			m = o.den[d].supply.QuoRaw(2) // below the supply of a denom
		case 4:
			m = o.den[d].supply.AddRaw(int64(1 + r.Intn(50)))
		case 5:
			m = sdkmath.ZeroInt()
		case 6:
			m = sdkmath.NewInt(-1)
		default:
			m = sdkmath.NewIntFromBigInt(new(big.Int).Exp(big.NewInt(10), big.NewInt(20), nil))
		}
		return g.opSetParams(g.authority(), m, c05Mts(r, m), r.Intn(4) != 0, o), true
	case x < 45:
		// authz grant from a holder of restricted coins to the administrator (or somebody else)
		granter := g.user()
		for d := 0; d < g.nd; d++ {
			if o.den[d].has && o.den[d].restr && o.den[d].status == 3 {
				if f := g.holderOfCoins(o.den[d]); f > 1 {
					granter = f
				}
			}
		}
		grantee := 1
		if r.Intn(6) == 0 {
			grantee = g.user()
		}
		limit := map[int]sdkmath.Int{}
		for d := 0; d < g.nd; d++ {
			if r.Intn(3) != 0 {
				limit[d] = g.within(o.den[d].bal(granter)).AddRaw(int64(r.Intn(30)))
			}
		}
		if r.Intn(15) == 0 {
			limit = map[int]sdkmath.Int{} // invalid: empty limit
		}
		if r.Intn(25) == 0 {
			limit[r.Intn(g.nd)] = sdkmath.ZeroInt() // invalid: zero coin
		}
		var allow []int
		if r.Intn(4) == 0 {
			allow = append(allow, g.user())
			if r.Intn(2) == 0 {
				allow = append(allow, g.user()) // possibly a duplicate: invalid
			}
			if r.Intn(3) == 0 {
				allow = append(allow, c05Esc(r.Intn(g.nd)))
			}
		}
		return g.opAuthzGrant(granter, grantee, limit, allow), true
	case x < 50:
		for _, k := range g.grantKeys() {
			return g.opAuthzRevoke(k[0], k[1]), true
		}
		return g.opAuthzRevoke(g.user(), g.user()), true
	case x < 85:
		if d, e, ok := g.foreign(o); ok {
			amt := g.within(o.den[e].bal(c05Esc(d)))
			if r.Intn(4) == 0 {
				return g.opGovWithdrawOther(g.authority(), d, g.govTarget(e), e, amt), true
			}
			return g.opWithdrawOther(d, g.holder(), g.user(), e, amt), true
		}
		return c05Op{}, false
	default:
		return g.opBeginBlock(), true
	}
}

// next draws the next operation, mostly one that makes sense in the observed state.
func (g *c05Gen) next(o c05Obs) c05Op {
	r := g.r
	if r.Intn(100) < 9 {
		if op, ok := g.worldOp(o); ok {
			return op
		}
	}
	if len(g.grants) > 0 && r.Intn(100) < 10 {
		// keep using live authz grants on active restricted markers without forced transfer,
		// so that limits are run down, exhausted and exceeded
		for _, k := range g.grantKeys() {
			for d := 0; d < g.nd; d++ {
				if x := o.den[d]; x.has && x.status == 3 && x.restr && !x.forced {
					if op, ok := g.grantedTransfer(d, o, k, g.user()); ok {
						return op
					}
				}
			}
		}
	}
	d := r.Intn(g.nd)
	x := o.den[d]
	esc := c05Esc(d)
	if r.Intn(100) < 11 {
		return g.anyOp(d, o)
	}
	if !x.has {
		switch y := r.Intn(100); {
		case y < 40:
			return g.opAdd(d, false, o)
		case y < 65:
			return g.opAddFinAct(d, o)
		case y < 85:
			return g.opAdd(d, true, o)
		case y < 95:
			if f := g.holderOfCoins(x); f > 0 {
				return g.opSend(d, f, g.target(d), g.around(x.bal(f)))
			}
			return g.opAdd(d, false, o)
		default:
			return g.opBeginBlock()
		}
	}
	dg := g.dg[d]
	switch x.status {
	case 1, 2: // proposed, finalized
		if x.supply.GT(x.msupply) && r.Intn(100) < 35 {
			// more coins exist already than the marker is configured for: the manager route refuses
			// to activate; try the governance route (and the burn-down that would make it legal)
			if r.Intn(4) == 0 {
				return g.simple(d, "activate", g.mgr(d))
			}
			return g.opGovStatus(d, g.authority(), 3)
		}
		y := r.Intn(100)
		switch {
		case y < 34:
			if x.status == 1 {
				return g.simple(d, "finalize", g.mgr(d))
			}
			return g.simple(d, "activate", g.mgr(d))
		case y < 46:
			if r.Intn(4) == 0 {
				return g.opMint(d, g.holder(), g.around(g.headroom(o, d)))
			}
			return g.opMint(d, g.holder(), g.small())
		case y < 58:
			return g.opBurn(d, g.holder(), g.around(x.msupply))
		case y < 64:
			return g.simple(d, "cancel", g.holder())
		case y < 72:
			return g.opGrant(d, g.mgr(d), g.user(), g.mask(x.restr))
		case y < 76:
			return g.opRevoke(d, g.mgr(d), g.user())
		case y < 85:
			return g.opGovStatus(d, g.authority(), x.status+r.Intn(6-x.status))
		case y < 90:
			return g.opGovInc(d, g.authority(), g.small(), -1)
		case y < 93:
			return g.opGovDec(d, g.authority(), g.around(x.bal(esc)))
		case y < 96:
			if f := g.holderOfCoins(x); f > 0 {
				return g.opSend(d, f, g.target(d), g.around(x.bal(f)))
			}
			return g.opBeginBlock()
		default:
			return g.opBeginBlock()
		}
	case 3: // active
		if !dg.recall && r.Intn(16) == 0 {
			dg.recall = true
		}
		if dg.recall && r.Intn(100) < 75 {
			// bring everything back into the marker's own account, other markers' accounts included
			for e := 0; e < g.nd; e++ {
				if e != d && x.bal(c05Esc(e)).IsPositive() && r.Intn(2) == 0 {
					if o.den[e].has && o.den[e].status == 3 && r.Intn(3) != 0 {
						return g.opWithdrawOther(e, g.holder(), esc, d, x.bal(c05Esc(e)))
					}
					return g.opGovWithdrawOther(g.authority(), e, esc, d, x.bal(c05Esc(e)))
				}
			}
			if f := g.holderOfCoins(x); f > 0 {
				amt := x.bal(f)
				if r.Intn(6) == 0 {
					amt = g.around(amt)
				}
				if x.restr && r.Intn(3) != 0 {
					adm := 1
					if r.Intn(8) == 0 {
						adm = f
					}
					if adm != f && !x.forced && g.grantLeft(f, adm, d).LT(amt) && r.Intn(10) != 0 {
						return g.opAuthzGrant(f, adm, map[int]sdkmath.Int{d: x.bal(f).AddRaw(int64(r.Intn(40)))}, nil)
					}
					op := g.opTransfer(d, adm, f, esc, amt)
					if adm != f && !x.forced {
						op.after = func() { g.usedGrant(f, adm, d, amt) }
					}
					return op
				}
				return g.opSend(d, f, esc, amt)
			}
			if r.Intn(3) != 0 {
				return g.simple(d, "cancel", g.holder())
			}
			return g.opGovStatus(d, g.authority(), 4)
		}
		if x.bal(99).IsPositive() && r.Intn(100) < 22 {
			// coins of the denom sit in the marker module account (the coin pool): burns and supply
			// decreases must pass through it without touching them; so must a forced transfer attempt
			switch r.Intn(5) {
			case 0, 1:
				return g.opBurn(d, g.holder(), g.within(x.bal(esc)))
			case 2:
				return g.opGovDec(d, g.authority(), g.within(x.bal(esc)))
			case 3:
				return g.opMint(d, g.holder(), g.small())
			default:
				if x.restr {
					return g.opTransfer(d, 1, 99, g.user(), g.within(x.bal(99)))
				}
				return g.opBurn(d, g.holder(), g.within(x.bal(esc)))
			}
		}
		y := r.Intn(100)
		switch {
		case y < 12:
			if r.Intn(3) == 0 {
				return g.opMint(d, g.holder(), g.around(g.headroom(o, d)))
			}
			return g.opMint(d, g.holder(), g.small())
		case y < 21:
			return g.opBurn(d, g.holder(), g.around(x.bal(esc)))
		case y < 40:
			return g.opWithdraw(d, g.holder(), g.target(d), g.around(x.bal(esc)))
		case y < 52:
			if f := g.holderOfCoins(x); f > 0 {
				return g.opSend(d, f, g.target(d), g.around(x.bal(f)))
			}
			return g.opWithdraw(d, g.holder(), g.user(), g.around(x.bal(esc)))
		case y < 66:
			if x.restr {
				if op, ok := g.transfer(d, o); ok {
					return op
				}
				return g.opWithdraw(d, g.holder(), g.user(), g.within(x.bal(esc)))
			}
			if f := g.holderOfCoins(x); f > 0 {
				return g.opSend(d, f, g.target(d), g.within(x.bal(f)))
			}
			return g.opBeginBlock()
		case y < 71:
			return g.simple(d, "cancel", g.holder())
		case y < 75:
			return g.opGrant(d, g.holder(), g.user(), g.mask(x.restr))
		case y < 77:
			return g.opRevoke(d, g.holder(), g.user())
		case y < 82:
			t := -1
			if r.Intn(2) == 0 {
				t = g.govTarget(d)
			}
			if r.Intn(3) == 0 {
				return g.opGovInc(d, g.authority(), g.around(g.headroom(o, d)), t)
			}
			return g.opGovInc(d, g.authority(), g.small(), t)
		case y < 86:
			return g.opGovDec(d, g.authority(), g.around(x.bal(esc)))
		case y < 90:
			return g.opGovStatus(d, g.authority(), []int{2, 3, 3, 4, 4, 5}[r.Intn(6)])
		case y < 93:
			return g.opGovWithdraw(d, g.authority(), g.govTarget(d), g.around(x.bal(esc)))
		case y < 95:
			return g.opGovSetAdmin(d, g.authority(), g.user(), g.mask(x.restr))
		case y < 96:
			return g.opGovRemoveAdmin(d, g.authority(), g.user())
		default:
			return g.opBeginBlock()
		}
	case 4: // cancelled
		y := r.Intn(100)
		switch {
		case y < 36:
			c := g.holder()
			if dg.manager > 0 && r.Intn(3) == 0 {
				c = dg.manager
			}
			return g.simple(d, "delete", c)
		case y < 52:
			return g.opGovStatus(d, g.authority(), 4+r.Intn(2))
		case y < 57:
			return g.simple(d, "cancel", g.holder())
		case y < 65:
			return g.opGovWithdraw(d, g.authority(), g.govTarget(d), g.around(x.bal(esc)))
		case y < 73:
			// other markers' coins must leave the account before it can be deleted
			for e := 0; e < g.nd; e++ {
				if e != d && o.den[e].bal(esc).IsPositive() {
					if r.Intn(3) == 0 {
						return g.opWithdrawOther(d, g.holder(), g.user(), e, o.den[e].bal(esc))
					}
					return g.opGovWithdrawOther(g.authority(), d, g.user(), e, o.den[e].bal(esc))
				}
			}
			return g.opGovDec(d, g.authority(), g.around(x.bal(esc)))
		case y < 78:
			return g.opGovDec(d, g.authority(), g.around(x.bal(esc)))
		case y < 82:
			return g.opMint(d, g.holder(), g.small())
		case y < 88:
			if f := g.holderOfCoins(x); f > 0 {
				return g.opSend(d, f, esc, x.bal(f))
			}
			return g.opBeginBlock()
		default:
			return g.opBeginBlock()
		}
	default: // destroyed
		if r.Intn(100) < 60 {
			return g.opBeginBlock()
		}
		return g.anyOp(d, o)
	}
}

// c05Script runs a fixed history (the edges shown as Examples in coq/Properties/C05.v) on the real
// code and emits it like any generated history, so that every run ties those Examples to /repo.
func c05Script(e *c05Env, w *CaseWriter, r *rand.Rand, name string, nd int, maxs int64, ops []func(g *c05Gen, o c05Obs) c05Op) {
	ctx, _ := e.base.CacheContext()
	params := e.app.MarkerKeeper.GetParams(ctx)
	params.MaxSupply = sdkmath.NewInt(maxs)
	params.EnableGovernance = true
	e.app.MarkerKeeper.SetParams(ctx, params)
	g := &c05Gen{e: e, r: r, nd: nd, grants: map[[2]int]map[int]sdkmath.Int{}}
	for d := 0; d < nd; d++ {
		g.dg = append(g.dg, &c05DGen{manager: -1})
	}
	o0 := e.observe(ctx, nd)
	prev := o0
	var steps, descs []string
	for _, mk := range ops {
		op := mk(g, prev)
		cctx, write := ctx.CacheContext()
		var err error
		if op.msg == nil {
			err = try(func() error { marker.BeginBlocker(cctx, e.app.MarkerKeeper, e.app.BankKeeper); return nil })
		} else {
			err = c05Deliver(e.app, cctx, op.msg)
		}
		if err == nil {
			write()
		}
		cur := e.observe(ctx, nd)
		steps = append(steps, fmt.Sprintf("(%s, %s)", op.term, cur.coq(err == nil)))
		descs = append(descs, fmt.Sprintf("%s -> %v", op.desc, err == nil))
		prev = cur
	}
	var dn []string
	for d := 0; d < nd; d++ {
		dn = append(dn, fmt.Sprintf("%d%%N", d))
	}
	w.Add(fmt.Sprintf("CHist %s %s %s", coqList(dn), o0.coq(true), coqList(steps)),
		map[string]any{"scripted": name, "denoms": c05Denoms[:nd], "max_supply": fmt.Sprint(maxs), "steps": descs})
	w.Count("scripted_histories")
	w.Nontrivial("script/" + name)
}

func c05Scripts(e *c05Env, w *CaseWriter, r *rand.Rand) {
	type mkop = func(g *c05Gen, o c05Obs) c05Op
	n := func(v int64) sdkmath.Int { return sdkmath.NewInt(v) }
	addFinAct := func(d int, amt int64, fixed, gov, restricted, forced bool, acl [][2]int) mkop {
		return func(g *c05Gen, o c05Obs) c05Op {
			t, tn := markertypes.MarkerType_Coin, "Coin"
			if restricted {
				t, tn = markertypes.MarkerType_RestrictedCoin, "Restricted"
			}
			msg := &markertypes.MsgAddFinalizeActivateMarkerRequest{
				Amount: c05Coin(d, n(amt)), Manager: e.addrs[1].String(), FromAddress: e.addrs[1].String(), MarkerType: t,
				AccessList: g.grantsOf(acl), SupplyFixed: fixed, AllowGovernanceControl: gov, AllowForcedTransfer: forced,
			}
			return c05Op{kind: "add-finalize-activate", msg: msg,
				term: on(d, fmt.Sprintf("OAddFinAct %s %s %s %s %s %s %s", zInt(n(amt)), coqBool(fixed), coqBool(gov), tn, coqBool(forced), c05OptAddr(1), c05Acl(acl))),
				desc: fmt.Sprintf("[%s] add-finalize-activate supply=%d fixed=%v gov=%v type=%s forced=%v manager=1 acl=%v", c05Denoms[d], amt, fixed, gov, tn, forced, acl)}
		}
	}
	addProposed := func(d int, amt int64, acl [][2]int) mkop {
		return func(g *c05Gen, o c05Obs) c05Op {
			msg := &markertypes.MsgAddMarkerRequest{Amount: c05Coin(d, n(amt)), Manager: e.addrs[1].String(), FromAddress: e.addrs[1].String(),
				Status: markertypes.StatusProposed, MarkerType: markertypes.MarkerType_Coin, AccessList: g.grantsOf(acl), SupplyFixed: true}
			return c05Op{kind: "add", msg: msg,
				term: on(d, fmt.Sprintf("OAdd 1%%N Proposed %s true false Coin false (Some 1%%N) %s", zInt(n(amt)), c05Acl(acl))),
				desc: fmt.Sprintf("[%s] add proposed supply=%d fixed acl=%v", c05Denoms[d], amt, acl)}
		}
	}
	all := [][2]int{{1, 63}}
	allR := [][2]int{{1, 255}}
	// Example C05_governance_cancel_skips_recall
	c05Script(e, w, r, "governance cancel skips recall", 2, 1000, []mkop{
		addFinAct(0, 100, true, true, false, false, all),
		func(g *c05Gen, o c05Obs) c05Op { return g.opWithdraw(0, 1, 2, n(40)) },
		func(g *c05Gen, o c05Obs) c05Op { return g.simple(0, "cancel", 1) },
		func(g *c05Gen, o c05Obs) c05Op { return g.opGovStatus(0, 100, 4) },
	})
	// Example C05_max_not_enforced_at_activation
	c05Script(e, w, r, "max supply not enforced at activation", 2, 1000, []mkop{
		addProposed(0, 900, all),
		func(g *c05Gen, o c05Obs) c05Op { return g.opMint(0, 1, n(600)) },
		func(g *c05Gen, o c05Obs) c05Op { return g.simple(0, "finalize", 1) },
		func(g *c05Gen, o c05Obs) c05Op { return g.simple(0, "activate", 1) },
		func(g *c05Gen, o c05Obs) c05Op { return g.opMint(0, 1, n(1)) },
		func(g *c05Gen, o c05Obs) c05Op { return g.opBurn(0, 1, n(501)) },
		func(g *c05Gen, o c05Obs) c05Op { return g.opMint(0, 1, n(1)) },
		func(g *c05Gen, o c05Obs) c05Op { return g.opMint(0, 1, n(1)) },
	})
	// Example C05_reactivation_ignores_max
	c05Script(e, w, r, "governance re-activation of a floating marker ignores max supply", 2, 1000, []mkop{
		addFinAct(0, 800, false, true, false, false, all),
		func(g *c05Gen, o c05Obs) c05Op { return g.opBurn(0, 1, n(700)) },
		func(g *c05Gen, o c05Obs) c05Op { return g.opSetParams(100, n(200), 5000, true, o) },
		func(g *c05Gen, o c05Obs) c05Op { return g.opMint(0, 1, n(101)) },
		func(g *c05Gen, o c05Obs) c05Op { return g.opGovStatus(0, 100, 3) },
		func(g *c05Gen, o c05Obs) c05Op { return g.opBeginBlock() },
	})
	// the deprecated max_total_supply never raises (or lowers) the limit: max_supply alone binds
	c05Script(e, w, r, "deprecated max_total_supply does not move the limit", 2, 100000, []mkop{
		func(g *c05Gen, o c05Obs) c05Op { return g.opSetParams(100, n(1000), 5000, true, o) },
		addFinAct(0, 900, true, true, false, false, all),
		addFinAct(1, 900, false, true, false, false, all),
		func(g *c05Gen, o c05Obs) c05Op { return g.opMint(0, 1, n(101)) },
		func(g *c05Gen, o c05Obs) c05Op { return g.opMint(0, 1, n(100)) },
		func(g *c05Gen, o c05Obs) c05Op { return g.opMint(0, 1, n(1)) },
		func(g *c05Gen, o c05Obs) c05Op { return g.opGovInc(1, 100, n(101), -1) },
		func(g *c05Gen, o c05Obs) c05Op { return g.opGovInc(1, 100, n(100), 2) },
		func(g *c05Gen, o c05Obs) c05Op { return g.opSetParams(100, n(1000), 10, true, o) },
		func(g *c05Gen, o c05Obs) c05Op { return g.opBurn(0, 1, n(50)) },
		func(g *c05Gen, o c05Obs) c05Op { return g.opMint(0, 1, n(50)) },
		func(g *c05Gen, o c05Obs) c05Op { return g.opMint(0, 1, n(1)) },
	})
	// Example C05_witness (two markers, cross-holding, parameter change, authz, recall, delete, removal)
	c05Script(e, w, r, "witness: two markers through to removal", 2, 1000, []mkop{
		func(g *c05Gen, o c05Obs) c05Op { return g.opSend(0, 3, 3, n(1)) }, // nothing there yet: refused
		addFinAct(0, 100, true, false, true, true, allR),
		addFinAct(1, 500, false, true, false, false, all),
		func(g *c05Gen, o c05Obs) c05Op { return g.opWithdraw(0, 1, 2, n(40)) },
		func(g *c05Gen, o c05Obs) c05Op { return g.opMint(0, 1, n(10)) },
		func(g *c05Gen, o c05Obs) c05Op { return g.opBurn(0, 1, n(5)) },
		func(g *c05Gen, o c05Obs) c05Op { return g.opWithdraw(1, 1, c05Esc(0), n(25)) },
		func(g *c05Gen, o c05Obs) c05Op { return g.opSetParams(100, n(50), 100000, true, o) },
		func(g *c05Gen, o c05Obs) c05Op { return g.opMint(0, 1, n(1)) },
		func(g *c05Gen, o c05Obs) c05Op { return g.opBurn(0, 1, n(1)) },
		func(g *c05Gen, o c05Obs) c05Op { return g.simple(0, "cancel", 1) },
		func(g *c05Gen, o c05Obs) c05Op {
			return g.opAuthzGrant(2, 4, map[int]sdkmath.Int{0: n(30)}, nil)
		},
		func(g *c05Gen, o c05Obs) c05Op { return g.opTransfer(0, 4, 2, c05Esc(0), n(30)) },
		func(g *c05Gen, o c05Obs) c05Op { return g.opGovSetAdmin(0, 100, 4, 68) },
		func(g *c05Gen, o c05Obs) c05Op { return g.opTransfer(0, 4, 2, c05Esc(0), n(30)) },
		func(g *c05Gen, o c05Obs) c05Op { return g.opTransfer(0, 4, 2, c05Esc(0), n(1)) },
		func(g *c05Gen, o c05Obs) c05Op { return g.opTransfer(0, 1, 2, c05Esc(0), n(10)) },
		func(g *c05Gen, o c05Obs) c05Op { return g.simple(0, "cancel", 1) },
		func(g *c05Gen, o c05Obs) c05Op { return g.simple(0, "delete", 1) },
		func(g *c05Gen, o c05Obs) c05Op { return g.opWithdrawOther(0, 1, 4, 1, n(25)) },
		func(g *c05Gen, o c05Obs) c05Op { return g.opGovWithdrawOther(100, 0, 4, 1, n(25)) },
		func(g *c05Gen, o c05Obs) c05Op { return g.simple(0, "delete", 1) },
		func(g *c05Gen, o c05Obs) c05Op { return g.opBeginBlock() },
		func(g *c05Gen, o c05Obs) c05Op { return g.opMint(1, 1, n(1)) },
	})
}

func TestC05(t *testing.T) {
	r := newRand("C05")
	w := NewCaseWriter("C05", "PV.Corr.C05", "check_all", 60)
	app, base := newApp(t)
	base = base.WithBlockTime(time.Unix(1_700_000_000, 0).UTC())
	e := &c05Env{t: t, app: app, base: base, addrs: map[int]sdk.AccAddress{}, ids: map[string]int{}, voter: addrN(0)}
	reg := func(n int, a sdk.AccAddress) {
		e.addrs[n] = a
		e.ids[string(a)] = n
	}
	for d := range c05Denoms {
		reg(c05Esc(d), markertypes.MustGetMarkerAddress(c05Denoms[d]))
	}
	for i := 1; i <= 4; i++ {
		a := addrN(500 + i)
		reg(i, a)
		acc := app.AccountKeeper.NewAccount(base, authtypes.NewBaseAccountWithAddress(a))
		// every user has signed before: forced transfers out of their accounts are possible
		if err := acc.SetSequence(1); err != nil {
			t.Fatal(err)
		}
		app.AccountKeeper.SetAccount(base, acc)
	}
	reg(99, authtypes.NewModuleAddress(markertypes.ModuleName))
	reg(100, authtypes.NewModuleAddress(govtypes.ModuleName))
	// The marker module account (the coin pool) and the governance account EXIST as module accounts,
	// as on every chain whose marker module has minted once.  On a fresh app the account is created
	// lazily by the first mint; a governance send to that address BEFORE it exists makes the bank
	// create a plain BaseAccount there, after which every MintCoins / BurnCoins of the marker module
	// panics ("account is not a module account") - see findings/C05.md, observation 4.  The model
	// assumes the module account exists.
	for _, name := range []string{markertypes.ModuleName, govtypes.ModuleName} {
		if acc := app.AccountKeeper.GetModuleAccount(base, name); acc == nil {
			t.Fatalf("module account %s cannot be created", name)
		}
	}
	if app.MarkerKeeper.GetAuthority() != e.addrs[100].String() {
		t.Fatalf("marker authority is not the gov module account")
	}
	gp, err := app.GovKeeper.Params.Get(base)
	if err != nil {
		t.Fatal(err)
	}
	e.govDep = sdk.NewCoins(gp.MinDeposit...)
	e.govVP = *gp.VotingPeriod

	nHist := scale(400, 10000)
	if s := os.Getenv("VERIF_C05_HISTORIES"); s != "" {
		fmt.Sscanf(s, "%d", &nHist)
	}
	for hi := 0; hi < nHist; hi++ {
		ctx, _ := base.CacheContext()
		nd := 2 + r.Intn(2)
		govRoute := hi%10 == 3
		params := app.MarkerKeeper.GetParams(ctx)
		switch r.Intn(4) {
		case 0:
			params.MaxSupply = sdkmath.NewInt(1000)
		case 1:
			params.MaxSupply = sdkmath.NewInt(100000)
		}
		params.EnableGovernance = r.Intn(4) != 0
		params.MaxTotalSupply = c05Mts(r, params.MaxSupply) //nolint:staticcheck // the deprecated field, on purpose
		if r.Intn(2) == 0 {
			// the starting parameters come in the way genesis brings them: the real InitGenesis
			gs := markertypes.DefaultGenesisState()
			gs.Params = params
			if err := try(func() error { app.MarkerKeeper.InitGenesis(ctx, gs); return nil }); err != nil {
				t.Fatalf("marker InitGenesis: %v", err)
			}
			w.Count("histories_started_by_marker_init_genesis")
		} else {
			app.MarkerKeeper.SetParams(ctx, params)
		}
		g := &c05Gen{e: e, r: r, nd: nd, grants: map[[2]int]map[int]sdkmath.Int{}}
		for d := 0; d < nd; d++ {
			g.dg = append(g.dg, &c05DGen{manager: -1})
		}

		// coins of the denoms that exist before any marker does (also in future marker accounts)
		if r.Intn(4) == 0 {
			for d := 0; d < nd; d++ {
				for _, n := range []int{c05Esc(d), c05Esc((d + 1) % nd), 2, 3} {
					if r.Intn(3) == 0 {
						fund(t, app, ctx, e.addrs[n], sdk.NewCoins(sdk.NewInt64Coin(c05Denoms[d], int64(1+r.Intn(60)))))
					}
				}
				if r.Intn(3) == 0 {
					// a genesis balance of the marker module account (the coin pool)
					cs := sdk.NewCoins(sdk.NewInt64Coin(c05Denoms[d], int64(1+r.Intn(60))))
					if err := app.BankKeeper.MintCoins(ctx, minttypes.ModuleName, cs); err != nil {
						t.Fatal(err)
					}
					if err := app.BankKeeper.SendCoinsFromModuleToModule(ctx, minttypes.ModuleName, markertypes.ModuleName, cs); err != nil {
						t.Fatal(err)
					}
				}
			}
		}
		o0 := e.observe(ctx, nd)
		prev := o0
		n := 6 + r.Intn(20*nd)
		var steps, descs []string
		accepted := 0
		flags := map[string]bool{}
		for i := 0; i < n; i++ {
			op := g.next(prev)
			cctx, write := ctx.CacheContext()
			var err error
			viaGov := false
			switch {
			case op.msg == nil:
				err = try(func() error { marker.BeginBlocker(cctx, e.app.MarkerKeeper, e.app.BankKeeper); return nil })
			case govRoute && op.isGov:
				viaGov = true
				err = e.viaGov(cctx, op.msg)
			default:
				err = c05Deliver(e.app, cctx, op.msg)
			}
			if err == nil {
				write()
				accepted++
				if op.after != nil {
					op.after()
				}
				w.Count("accepted:" + op.kind)
			} else {
				w.Count("rejected:" + op.kind)
				if os.Getenv("VERIF_C05_DEBUG") != "" {
					fmt.Fprintf(os.Stderr, "REJ %s | %s | %v\n", op.kind, op.desc, err)
				}
			}
			if viaGov {
				w.Count("via_real_gov_module:" + op.kind)
				if err == nil {
					w.Count("via_real_gov_module_accepted")
				} else {
					w.Count("via_real_gov_module_rejected")
				}
			}
			cur := e.observe(ctx, nd)
			steps = append(steps, fmt.Sprintf("(%s, %s)", op.term, cur.coq(err == nil)))
			descs = append(descs, fmt.Sprintf("%s -> %v", op.desc, err == nil))
			active := 0
			for d := 0; d < nd; d++ {
				p, c := prev.den[d], cur.den[d]
				if c.has && c.status == 3 {
					active++
					if c.fixed {
						flags["histories_with_active_fixed_marker"] = true
					}
					if c.supply.GT(cur.maxs) {
						flags["histories_with_active_marker_above_max_supply"] = true
					}
				}
				if c.has && c.status == 5 {
					flags["histories_reaching_destroyed"] = true
				}
				if p.has && !c.has {
					flags["histories_with_removal_at_begin_block"] = true
				}
				if err == nil && op.kind == "cancel" && p.has && (p.status == 2 || p.status == 3) && c.status == 4 && p.status != c.status {
					flags["histories_with_admin_cancel_of_finalized_or_active"] = true
				}
				if err == nil && p.has && p.status == 3 && c.supply.GT(p.supply) && (op.kind == "mint" || op.kind == "gov-supply-increase") {
					switch {
					case prev.mts == 0:
						w.Count("accepted_mints_with_max_total_supply_unset")
					case sdkmath.NewIntFromUint64(prev.mts).GT(prev.maxs):
						w.Count("accepted_mints_with_max_total_supply_above_max_supply")
					default:
						w.Count("accepted_mints_with_max_total_supply_at_or_below_max_supply")
					}
				}
				if err == nil && p.has && c.has && c.supply.GT(prev.maxs.SubRaw(3)) && c.supply.LTE(prev.maxs) && c.supply.GT(p.supply) && (op.kind == "mint" || op.kind == "gov-supply-increase") && p.status == 3 {
					w.Count("mints_reaching_max_boundary")
				}
				if c.bal(99).IsPositive() {
					flags["histories_with_coins_in_the_marker_module_account"] = true
					if err == nil && p.has && c.supply.LT(p.supply) {
						w.Count("supply_decreases_with_coins_in_the_marker_module_account")
					}
				}
				for x := 0; x < nd; x++ {
					if x != d && c.bal(c05Esc(x)).IsPositive() {
						flags["histories_with_marker_holding_another_markers_coins"] = true
					}
				}
				for n := range c.bals {
					if n >= 5000 {
						flags["histories_with_holder_outside_the_known_accounts"] = true
					}
				}
			}
			if active >= 2 {
				flags["histories_with_two_active_markers"] = true
			}
			if err == nil && op.kind == "update-params" {
				flags["histories_with_param_change"] = true
				if cur.maxs.LT(prev.maxs) {
					flags["histories_with_max_supply_lowered"] = true
				}
			}
			if err == nil && op.kind == "transfer" {
				// who moved whose coins: an accepted transfer of somebody else's coins on a marker
				// without forced transfer can only have gone through an authz grant
				var td, a, f int
				fmt.Sscanf(op.term, "MTransfer %d%%N %d%%N %d%%N", &td, &a, &f)
				switch {
				case a == f:
					w.Count("accepted_transfers_of_own_coins")
				case td < nd && !prev.den[td].forced:
					w.Count("accepted_transfers_under_authz_grant")
				default:
					w.Count("accepted_transfers_forced_or_authz")
				}
			}
			prev = cur
		}
		var dn []string
		for d := 0; d < nd; d++ {
			dn = append(dn, fmt.Sprintf("%d%%N", d))
		}
		term := fmt.Sprintf("CHist %s %s %s", coqList(dn), o0.coq(true), coqList(steps))
		w.Add(term, map[string]any{"history": hi, "denoms": c05Denoms[:nd], "max_supply": params.MaxSupply.String(), "enable_governance": params.EnableGovernance,
			"governance_messages_through_real_gov_module": govRoute, "steps": descs})
		w.Count("histories")
		w.Count(fmt.Sprintf("histories_with_%d_denoms", nd))
		if govRoute {
			w.Count("histories_with_real_gov_route")
		}
		w.CountN("history_steps", int64(n))
		w.CountN("history_steps_accepted", int64(accepted))
		for k := range flags {
			w.Count(k)
		}
		if accepted >= 3 {
			w.Nontrivial(fmt.Sprintf("hist/%s", strings.Join(descs, ";")))
		}
	}
	c05Scripts(e, w, r)
	w.Flush(t)
}
