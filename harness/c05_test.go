//go:build c05

package harness

import (
	"fmt"
	"math/big"
	"math/rand"
	"os"
	"strings"
	"testing"

	sdkmath "cosmossdk.io/math"
	sdk "github.com/cosmos/cosmos-sdk/types"
	authtypes "github.com/cosmos/cosmos-sdk/x/auth/types"
	banktypes "github.com/cosmos/cosmos-sdk/x/bank/types"
	govtypes "github.com/cosmos/cosmos-sdk/x/gov/types"

	simapp "github.com/provenance-io/provenance/app"
	"github.com/provenance-io/provenance/x/marker"
	markertypes "github.com/provenance-io/provenance/x/marker/types"
)

// C05: histories of marker administration on one denom, run through the REAL message handlers
// (marker Msg server incl. the governance endpoints, bank MsgSend) and the real marker
// BeginBlocker.  After every operation the harness projects: accepted/rejected, the marker record
// (status, recorded supply, fixed flag) or its absence, bank SupplyOf(denom) and the balance of
// every account that can hold the denom (marker account, four users, the marker module's coin
// pool, the governance account).  Address numbering shared with coq/Marker/Lifecycle.v:
// 0 = marker account (ESCROW), 1..4 = users, 99 = marker module account, 100 = governance (GOV).

const c05Denom = "cfivecoin"

var c05Universe = []int{0, 1, 2, 3, 4, 99, 100}

type c05Env struct {
	t     *testing.T
	app   *simapp.App
	base  sdk.Context
	addrs map[int]sdk.AccAddress
}

func c05Deliver(app *simapp.App, ctx sdk.Context, msg sdk.Msg) error {
	return try(func() error {
		if vb, ok := msg.(interface{ ValidateBasic() error }); ok {
			if err := vb.ValidateBasic(); err != nil {
				return err
			}
		}
		h := app.MsgServiceRouter().Handler(msg)
		if h == nil {
			return fmt.Errorf("no handler for %T", msg)
		}
		_, err := h(ctx, msg)
		return err
	})
}

type c05Obs struct {
	has     bool
	status  int
	msupply sdkmath.Int
	fixed   bool
	restr   bool
	supply  sdkmath.Int
	bals    map[int]sdkmath.Int
}

var c05StatusNames = []string{"", "Proposed", "Finalized", "Active", "Cancelled", "Destroyed"}

func (e *c05Env) observe(ctx sdk.Context) c05Obs {
	o := c05Obs{bals: map[int]sdkmath.Int{}}
	m, err := e.app.MarkerKeeper.GetMarkerByDenom(ctx, c05Denom)
	if err == nil && m != nil {
		o.has = true
		o.status = int(m.GetStatus())
		o.msupply = m.GetSupply().Amount
		o.fixed = m.HasFixedSupply()
		o.restr = m.GetMarkerType() == markertypes.MarkerType_RestrictedCoin
	}
	o.supply = e.app.BankKeeper.GetSupply(ctx, c05Denom).Amount
	for _, n := range c05Universe {
		o.bals[n] = e.app.BankKeeper.GetBalance(ctx, e.addrs[n], c05Denom).Amount
	}
	return o
}

func (o c05Obs) coq(ok bool) string {
	mk := "None"
	if o.has {
		mk = fmt.Sprintf("(Some (%s, %s, %s))", c05StatusNames[o.status], zInt(o.msupply), coqBool(o.fixed))
	}
	var bs []string
	for _, n := range c05Universe {
		bs = append(bs, fmt.Sprintf("(%d%%N, %s)", n, zInt(o.bals[n])))
	}
	return fmt.Sprintf("(Build_obs %s %s %s %s)", coqBool(ok), mk, zInt(o.supply), coqList(bs))
}

func (o c05Obs) outside() sdkmath.Int {
	s := sdkmath.ZeroInt()
	for _, n := range c05Universe {
		if n != 0 {
			s = s.Add(o.bals[n])
		}
	}
	return s
}

type c05Op struct {
	kind string
	term string
	desc string
	run  func(ctx sdk.Context) error
}

func c05Rights(t markertypes.MarkerType, mask int) []markertypes.Access {
	var out []markertypes.Access
	for i := 0; i < 8; i++ {
		if mask&(1<<i) != 0 {
			out = append(out, markertypes.Access(i+1))
		}
	}
	return out
}

func c05OptAddr(n int) string {
	if n < 0 {
		return "None"
	}
	return fmt.Sprintf("(Some %d%%N)", n)
}

func c05Acl(acl [][2]int) string {
	var s []string
	for _, g := range acl {
		s = append(s, fmt.Sprintf("(%d%%N, %d%%N)", g[0], g[1]))
	}
	return coqList(s)
}

// coin builds a coin without the constructor's panics (negative amounts must reach ValidateBasic).
func c05Coin(a sdkmath.Int) sdk.Coin { return sdk.Coin{Denom: c05Denom, Amount: a} }

type c05Gen struct {
	e       *c05Env
	r       *rand.Rand
	maxs    sdkmath.Int
	manager int // who we believe manages the marker (-1 unknown)
	recall  bool
	restr   bool
}

func (g *c05Gen) user() int { return 1 + g.r.Intn(4) }

// holder prefers address 1 (created with every right) over a random user.
func (g *c05Gen) holder() int {
	if g.r.Intn(100) < 75 {
		return 1
	}
	return g.user()
}

func (g *c05Gen) mgr() int {
	if g.manager > 0 && g.r.Intn(100) < 80 {
		return g.manager
	}
	return g.user()
}

func (g *c05Gen) authority() int {
	if g.r.Intn(100) < 88 {
		return 100
	}
	return g.user()
}

func (g *c05Gen) target() int {
	if g.r.Intn(12) == 0 {
		return 0
	}
	return g.user()
}

// around picks an amount near x: x itself, its neighbours, a fraction, small values, zero.
func (g *c05Gen) around(x sdkmath.Int) sdkmath.Int {
	switch g.r.Intn(12) {
	case 0, 1, 2:
		return x
	case 3:
		return x.AddRaw(1)
	case 4:
		if x.IsPositive() {
			return x.SubRaw(1)
		}
		return x
	case 5, 6:
		if x.IsPositive() {
			return sdkmath.NewIntFromBigInt(new(big.Int).Rand(g.r, x.BigInt())).AddRaw(1)
		}
		return sdkmath.NewInt(int64(1 + g.r.Intn(20)))
	case 7:
		return sdkmath.ZeroInt()
	case 8:
		if g.r.Intn(4) == 0 {
			return sdkmath.NewInt(-int64(1 + g.r.Intn(5)))
		}
		return sdkmath.NewInt(int64(1 + g.r.Intn(1000)))
	default:
		return sdkmath.NewInt(int64(1 + g.r.Intn(60)))
	}
}

func (g *c05Gen) small() sdkmath.Int { return sdkmath.NewInt(int64(1 + g.r.Intn(40))) }

func (g *c05Gen) initialSupply() sdkmath.Int {
	switch g.r.Intn(10) {
	case 0:
		return sdkmath.ZeroInt()
	case 1:
		return g.maxs
	case 2:
		return g.maxs.AddRaw(1)
	case 3:
		return sdkmath.NewInt(1)
	case 4, 5:
		return sdkmath.NewInt(int64(g.r.Intn(2000)))
	default:
		return sdkmath.NewInt(int64(50 + g.r.Intn(500)))
	}
}

func (g *c05Gen) aclFor(t markertypes.MarkerType) [][2]int {
	all := 63
	if t == markertypes.MarkerType_RestrictedCoin {
		all = 255
	}
	acl := [][2]int{{1, all}}
	switch g.r.Intn(10) {
	case 0: // nobody can mint
		acl = [][2]int{{1, all &^ 1}}
	case 1: // invalid for a coin marker (transfer right), fine for restricted
		acl = append(acl, [2]int{2, 64 | g.r.Intn(64)})
	case 2:
		acl = [][2]int{}
	default:
		acl = append(acl, [2]int{2, g.r.Intn(all + 1)})
		if g.r.Intn(3) == 0 {
			acl = append(acl, [2]int{3, g.r.Intn(all + 1)})
		}
	}
	return acl
}

func (g *c05Gen) grants(t markertypes.MarkerType, acl [][2]int) []markertypes.AccessGrant {
	out := []markertypes.AccessGrant{}
	for _, a := range acl {
		out = append(out, markertypes.AccessGrant{Address: g.e.addrs[a[0]].String(), Permissions: c05Rights(t, a[1])})
	}
	return out
}

func (g *c05Gen) typ() (markertypes.MarkerType, string) {
	if g.r.Intn(2) == 0 {
		return markertypes.MarkerType_Coin, "Coin"
	}
	return markertypes.MarkerType_RestrictedCoin, "Restricted"
}

func (g *c05Gen) opAdd(gov bool) c05Op {
	e := g.e
	t, tn := g.typ()
	from := g.holder()
	status := 1
	if g.r.Intn(3) == 0 {
		status = 2
	}
	if gov {
		from = 100
		status = []int{1, 2, 3, 3, 3, 4, 5}[g.r.Intn(7)]
	} else if g.r.Intn(25) == 0 {
		status = 3 + g.r.Intn(3)
	}
	amt := g.initialSupply()
	fx := g.r.Intn(2) == 0
	gv := g.r.Intn(3) != 0
	fr := t == markertypes.MarkerType_RestrictedCoin && g.r.Intn(3) == 0
	if g.r.Intn(30) == 0 {
		fr = true
	}
	mgr := -1
	switch g.r.Intn(10) {
	case 0, 1:
		mgr = 4
	case 2:
		mgr = -1
	default:
		mgr = 1
	}
	acl := g.aclFor(t)
	mgrS := ""
	if mgr >= 0 {
		mgrS = e.addrs[mgr].String()
	}
	msg := &markertypes.MsgAddMarkerRequest{
		Amount: c05Coin(amt), Manager: mgrS, FromAddress: e.addrs[from].String(),
		Status: markertypes.MarkerStatus(status), MarkerType: t, AccessList: g.grants(t, acl),
		SupplyFixed: fx, AllowGovernanceControl: gv, AllowForcedTransfer: fr,
	}
	who := mgr
	if who < 0 {
		who = from
	}
	return c05Op{
		kind: map[bool]string{false: "add", true: "gov-add"}[gov],
		term: fmt.Sprintf("OAdd %d%%N %s %s %s %s %s %s %s %s", from, c05StatusNames[status], zInt(amt), coqBool(fx), coqBool(gv), tn, coqBool(fr), c05OptAddr(mgr), c05Acl(acl)),
		desc: fmt.Sprintf("add from=%d status=%s supply=%s fixed=%v gov=%v type=%s forced=%v manager=%d acl=%v", from, c05StatusNames[status], amt, fx, gv, tn, fr, mgr, acl),
		run: func(ctx sdk.Context) error {
			err := c05Deliver(e.app, ctx, msg)
			if err == nil {
				g.manager = who
			}
			return err
		},
	}
}

func (g *c05Gen) opAddFinAct() c05Op {
	e := g.e
	t, tn := g.typ()
	amt := g.initialSupply()
	fx := g.r.Intn(2) == 0
	gv := g.r.Intn(3) != 0
	fr := t == markertypes.MarkerType_RestrictedCoin && g.r.Intn(3) == 0
	mgr := 1
	if g.r.Intn(12) == 0 {
		mgr = -1
	}
	acl := g.aclFor(t)
	mgrS := ""
	if mgr >= 0 {
		mgrS = e.addrs[mgr].String()
	}
	msg := &markertypes.MsgAddFinalizeActivateMarkerRequest{
		Amount: c05Coin(amt), Manager: mgrS, FromAddress: e.addrs[g.user()].String(), MarkerType: t,
		AccessList: g.grants(t, acl), SupplyFixed: fx, AllowGovernanceControl: gv, AllowForcedTransfer: fr,
	}
	return c05Op{
		kind: "add-finalize-activate",
		term: fmt.Sprintf("OAddFinAct %s %s %s %s %s %s %s", zInt(amt), coqBool(fx), coqBool(gv), tn, coqBool(fr), c05OptAddr(mgr), c05Acl(acl)),
		desc: fmt.Sprintf("add-finalize-activate supply=%s fixed=%v gov=%v type=%s forced=%v manager=%d acl=%v", amt, fx, gv, tn, fr, mgr, acl),
		run:  func(ctx sdk.Context) error { return c05Deliver(e.app, ctx, msg) },
	}
}

func (g *c05Gen) simple(kind string, caller int) c05Op {
	e := g.e
	a := e.addrs[caller].String()
	var msg sdk.Msg
	var con string
	switch kind {
	case "finalize":
		msg, con = &markertypes.MsgFinalizeRequest{Denom: c05Denom, Administrator: a}, "OFinalize"
	case "activate":
		msg, con = &markertypes.MsgActivateRequest{Denom: c05Denom, Administrator: a}, "OActivate"
	case "cancel":
		msg, con = &markertypes.MsgCancelRequest{Denom: c05Denom, Administrator: a}, "OCancel"
	case "delete":
		msg, con = &markertypes.MsgDeleteRequest{Denom: c05Denom, Administrator: a}, "ODelete"
	}
	return c05Op{kind: kind, term: fmt.Sprintf("%s %d%%N", con, caller), desc: fmt.Sprintf("%s by %d", kind, caller),
		run: func(ctx sdk.Context) error { return c05Deliver(e.app, ctx, msg) }}
}

func (g *c05Gen) opMint(caller int, amt sdkmath.Int) c05Op {
	e := g.e
	msg := &markertypes.MsgMintRequest{Amount: c05Coin(amt), Administrator: e.addrs[caller].String()}
	return c05Op{kind: "mint", term: fmt.Sprintf("OMint %d%%N %s", caller, zInt(amt)), desc: fmt.Sprintf("mint %s by %d", amt, caller),
		run: func(ctx sdk.Context) error { return c05Deliver(e.app, ctx, msg) }}
}

func (g *c05Gen) opBurn(caller int, amt sdkmath.Int) c05Op {
	e := g.e
	msg := &markertypes.MsgBurnRequest{Amount: c05Coin(amt), Administrator: e.addrs[caller].String()}
	return c05Op{kind: "burn", term: fmt.Sprintf("OBurn %d%%N %s", caller, zInt(amt)), desc: fmt.Sprintf("burn %s by %d", amt, caller),
		run: func(ctx sdk.Context) error { return c05Deliver(e.app, ctx, msg) }}
}

func (g *c05Gen) opWithdraw(caller, to int, amt sdkmath.Int) c05Op {
	e := g.e
	msg := &markertypes.MsgWithdrawRequest{Denom: c05Denom, Administrator: e.addrs[caller].String(), ToAddress: e.addrs[to].String(),
		Amount: sdk.Coins{c05Coin(amt)}}
	return c05Op{kind: "withdraw", term: fmt.Sprintf("OWithdraw %d%%N %d%%N %s", caller, to, zInt(amt)), desc: fmt.Sprintf("withdraw %s to %d by %d", amt, to, caller),
		run: func(ctx sdk.Context) error { return c05Deliver(e.app, ctx, msg) }}
}

func (g *c05Gen) opTransfer(admin, from, to int, amt sdkmath.Int) c05Op {
	e := g.e
	msg := &markertypes.MsgTransferRequest{Amount: c05Coin(amt), Administrator: e.addrs[admin].String(), FromAddress: e.addrs[from].String(), ToAddress: e.addrs[to].String()}
	return c05Op{kind: "transfer", term: fmt.Sprintf("OTransfer %d%%N %d%%N %d%%N %s", admin, from, to, zInt(amt)), desc: fmt.Sprintf("transfer %s %d->%d by %d", amt, from, to, admin),
		run: func(ctx sdk.Context) error { return c05Deliver(e.app, ctx, msg) }}
}

func (g *c05Gen) opSend(from, to int, amt sdkmath.Int) c05Op {
	e := g.e
	msg := &banktypes.MsgSend{FromAddress: e.addrs[from].String(), ToAddress: e.addrs[to].String(), Amount: sdk.Coins{c05Coin(amt)}}
	return c05Op{kind: "send", term: fmt.Sprintf("OSend %d%%N %d%%N %s", from, to, zInt(amt)), desc: fmt.Sprintf("bank send %s %d->%d", amt, from, to),
		run: func(ctx sdk.Context) error { return c05Deliver(e.app, ctx, msg) }}
}

func (g *c05Gen) opGrant(caller, grantee, mask int) c05Op {
	e := g.e
	msg := &markertypes.MsgAddAccessRequest{Denom: c05Denom, Administrator: e.addrs[caller].String(),
		Access: []markertypes.AccessGrant{{Address: e.addrs[grantee].String(), Permissions: c05Rights(0, mask)}}}
	return c05Op{kind: "grant", term: fmt.Sprintf("OGrant %d%%N %d%%N %d%%N", caller, grantee, mask), desc: fmt.Sprintf("grant %d to %d by %d", mask, grantee, caller),
		run: func(ctx sdk.Context) error { return c05Deliver(e.app, ctx, msg) }}
}

func (g *c05Gen) opRevoke(caller, a int) c05Op {
	e := g.e
	msg := &markertypes.MsgDeleteAccessRequest{Denom: c05Denom, Administrator: e.addrs[caller].String(), RemovedAddress: e.addrs[a].String()}
	return c05Op{kind: "revoke", term: fmt.Sprintf("ORevoke %d%%N %d%%N", caller, a), desc: fmt.Sprintf("revoke %d by %d", a, caller),
		run: func(ctx sdk.Context) error { return c05Deliver(e.app, ctx, msg) }}
}

func (g *c05Gen) opGovInc(auth int, amt sdkmath.Int, target int) c05Op {
	e := g.e
	ts := ""
	if target >= 0 {
		ts = e.addrs[target].String()
	}
	msg := &markertypes.MsgSupplyIncreaseProposalRequest{Amount: c05Coin(amt), TargetAddress: ts, Authority: e.addrs[auth].String()}
	return c05Op{kind: "gov-supply-increase", term: fmt.Sprintf("OGovSupplyIncrease %d%%N %s %s", auth, zInt(amt), c05OptAddr(target)),
		desc: fmt.Sprintf("gov supply increase %s target=%d authority=%d", amt, target, auth),
		run:  func(ctx sdk.Context) error { return c05Deliver(e.app, ctx, msg) }}
}

func (g *c05Gen) opGovDec(auth int, amt sdkmath.Int) c05Op {
	e := g.e
	msg := &markertypes.MsgSupplyDecreaseProposalRequest{Amount: c05Coin(amt), Authority: e.addrs[auth].String()}
	return c05Op{kind: "gov-supply-decrease", term: fmt.Sprintf("OGovSupplyDecrease %d%%N %s", auth, zInt(amt)),
		desc: fmt.Sprintf("gov supply decrease %s authority=%d", amt, auth),
		run:  func(ctx sdk.Context) error { return c05Deliver(e.app, ctx, msg) }}
}

func (g *c05Gen) opGovStatus(auth, status int) c05Op {
	e := g.e
	msg := &markertypes.MsgChangeStatusProposalRequest{Denom: c05Denom, NewStatus: markertypes.MarkerStatus(status), Authority: e.addrs[auth].String()}
	return c05Op{kind: "gov-change-status", term: fmt.Sprintf("OGovChangeStatus %d%%N %s", auth, c05StatusNames[status]),
		desc: fmt.Sprintf("gov change status to %s authority=%d", c05StatusNames[status], auth),
		run:  func(ctx sdk.Context) error { return c05Deliver(e.app, ctx, msg) }}
}

func (g *c05Gen) opGovWithdraw(auth, to int, amt sdkmath.Int) c05Op {
	e := g.e
	msg := &markertypes.MsgWithdrawEscrowProposalRequest{Denom: c05Denom, Amount: sdk.Coins{c05Coin(amt)}, TargetAddress: e.addrs[to].String(), Authority: e.addrs[auth].String()}
	return c05Op{kind: "gov-withdraw-escrow", term: fmt.Sprintf("OGovWithdrawEscrow %d%%N %d%%N %s", auth, to, zInt(amt)),
		desc: fmt.Sprintf("gov withdraw escrow %s to %d authority=%d", amt, to, auth),
		run:  func(ctx sdk.Context) error { return c05Deliver(e.app, ctx, msg) }}
}

func (g *c05Gen) opGovSetAdmin(auth, grantee, mask int) c05Op {
	e := g.e
	msg := &markertypes.MsgSetAdministratorProposalRequest{Denom: c05Denom, Authority: e.addrs[auth].String(),
		Access: []markertypes.AccessGrant{{Address: e.addrs[grantee].String(), Permissions: c05Rights(0, mask)}}}
	return c05Op{kind: "gov-set-admin", term: fmt.Sprintf("OGovSetAdmin %d%%N %d%%N %d%%N", auth, grantee, mask),
		desc: fmt.Sprintf("gov set administrator %d rights %d authority=%d", grantee, mask, auth),
		run:  func(ctx sdk.Context) error { return c05Deliver(e.app, ctx, msg) }}
}

func (g *c05Gen) opGovRemoveAdmin(auth, a int) c05Op {
	e := g.e
	msg := &markertypes.MsgRemoveAdministratorProposalRequest{Denom: c05Denom, Authority: e.addrs[auth].String(), RemovedAddress: []string{e.addrs[a].String()}}
	return c05Op{kind: "gov-remove-admin", term: fmt.Sprintf("OGovRemoveAdmin %d%%N %d%%N", auth, a),
		desc: fmt.Sprintf("gov remove administrator %d authority=%d", a, auth),
		run:  func(ctx sdk.Context) error { return c05Deliver(e.app, ctx, msg) }}
}

func (g *c05Gen) opBeginBlock() c05Op {
	e := g.e
	return c05Op{kind: "begin-block", term: "OBeginBlock", desc: "begin block",
		run: func(ctx sdk.Context) error {
			return try(func() error { marker.BeginBlocker(ctx, e.app.MarkerKeeper, e.app.BankKeeper); return nil })
		}}
}

func (g *c05Gen) mask() int {
	if g.restr {
		return g.r.Intn(256)
	}
	if g.r.Intn(8) == 0 {
		return g.r.Intn(256)
	}
	return g.r.Intn(64)
}

// richest returns a user (1..4) holding coins, or -1.
func (g *c05Gen) holderOfCoins(o c05Obs) int {
	start := g.r.Intn(4)
	for i := 0; i < 4; i++ {
		n := 1 + (start+i)%4
		if o.bals[n].IsPositive() {
			return n
		}
	}
	return -1
}

// anyOp draws an operation without looking at the state (exercises the rejecting branches).
func (g *c05Gen) anyOp(o c05Obs) c05Op {
	switch g.r.Intn(20) {
	case 0:
		return g.opAdd(false)
	case 1:
		return g.opAdd(true)
	case 2:
		return g.opAddFinAct()
	case 3:
		return g.simple("finalize", g.mgr())
	case 4:
		return g.simple("activate", g.mgr())
	case 5:
		return g.opMint(g.holder(), g.small())
	case 6:
		return g.opBurn(g.holder(), g.around(o.bals[0]))
	case 7:
		return g.opWithdraw(g.holder(), g.target(), g.around(o.bals[0]))
	case 8:
		return g.simple("cancel", g.holder())
	case 9:
		return g.simple("delete", g.holder())
	case 10:
		f := g.user()
		return g.opTransfer(g.holder(), f, g.target(), g.around(o.bals[f]))
	case 11:
		return g.opGrant(g.holder(), g.user(), g.mask())
	case 12:
		return g.opRevoke(g.holder(), g.user())
	case 13:
		t := -1
		if g.r.Intn(2) == 0 {
			t = g.user()
		}
		return g.opGovInc(g.authority(), g.small(), t)
	case 14:
		return g.opGovDec(g.authority(), g.around(o.bals[0]))
	case 15:
		return g.opGovStatus(g.authority(), 1+g.r.Intn(5))
	case 16:
		return g.opGovWithdraw(g.authority(), g.target(), g.around(o.bals[0]))
	case 17:
		f := g.user()
		return g.opSend(f, g.target(), g.around(o.bals[f]))
	case 18:
		if g.r.Intn(2) == 0 {
			return g.opGovSetAdmin(g.authority(), g.user(), g.mask())
		}
		return g.opGovRemoveAdmin(g.authority(), g.user())
	default:
		return g.opBeginBlock()
	}
}

func (g *c05Gen) headroom(o c05Obs) sdkmath.Int {
	h := g.maxs.Sub(o.supply)
	if h.IsNegative() {
		return sdkmath.ZeroInt()
	}
	return h
}

// next draws the next operation, mostly one that makes sense in the observed state.
func (g *c05Gen) next(o c05Obs) c05Op {
	r := g.r
	if r.Intn(100) < 12 {
		return g.anyOp(o)
	}
	if !o.has {
		switch x := r.Intn(100); {
		case x < 40:
			return g.opAdd(false)
		case x < 65:
			return g.opAddFinAct()
		case x < 85:
			return g.opAdd(true)
		case x < 95:
			if f := g.holderOfCoins(o); f > 0 {
				return g.opSend(f, g.target(), g.around(o.bals[f]))
			}
			return g.opAdd(false)
		default:
			return g.opBeginBlock()
		}
	}
	g.restr = o.restr
	switch o.status {
	case 1, 2: // proposed, finalized
		x := r.Intn(100)
		switch {
		case x < 34:
			if o.status == 1 {
				return g.simple("finalize", g.mgr())
			}
			return g.simple("activate", g.mgr())
		case x < 46:
			if r.Intn(4) == 0 {
				return g.opMint(g.holder(), g.around(g.headroom(o)))
			}
			return g.opMint(g.holder(), g.small())
		case x < 58:
			return g.opBurn(g.holder(), g.around(o.msupply))
		case x < 64:
			return g.simple("cancel", g.holder())
		case x < 72:
			return g.opGrant(g.mgr(), g.user(), g.mask())
		case x < 76:
			return g.opRevoke(g.mgr(), g.user())
		case x < 85:
			return g.opGovStatus(g.authority(), o.status+r.Intn(6-o.status))
		case x < 90:
			return g.opGovInc(g.authority(), g.small(), -1)
		case x < 93:
			return g.opGovDec(g.authority(), g.around(o.bals[0]))
		case x < 96:
			if f := g.holderOfCoins(o); f > 0 {
				return g.opSend(f, g.target(), g.around(o.bals[f]))
			}
			return g.opBeginBlock()
		default:
			return g.opBeginBlock()
		}
	case 3: // active
		if !g.recall && r.Intn(14) == 0 {
			g.recall = true
		}
		if g.recall && r.Intn(100) < 75 {
			if f := g.holderOfCoins(o); f > 0 {
				amt := o.bals[f]
				if r.Intn(6) == 0 {
					amt = g.around(amt)
				}
				if o.restr && r.Intn(3) != 0 {
					adm := 1
					if r.Intn(5) == 0 {
						adm = f
					}
					return g.opTransfer(adm, f, 0, amt)
				}
				return g.opSend(f, 0, amt)
			}
			if r.Intn(3) != 0 {
				return g.simple("cancel", g.holder())
			}
			return g.opGovStatus(g.authority(), 4)
		}
		x := r.Intn(100)
		switch {
		case x < 12:
			if r.Intn(3) == 0 {
				return g.opMint(g.holder(), g.around(g.headroom(o)))
			}
			return g.opMint(g.holder(), g.small())
		case x < 22:
			return g.opBurn(g.holder(), g.around(o.bals[0]))
		case x < 42:
			return g.opWithdraw(g.holder(), g.target(), g.around(o.bals[0]))
		case x < 56:
			if f := g.holderOfCoins(o); f > 0 {
				return g.opSend(f, g.target(), g.around(o.bals[f]))
			}
			return g.opWithdraw(g.holder(), g.user(), g.around(o.bals[0]))
		case x < 64:
			if o.restr && o.bals[1].IsPositive() && r.Intn(2) == 0 {
				// the holder of every right moves its own coins
				return g.opTransfer(1, 1, g.target(), g.around(o.bals[1]))
			}
			if f := g.holderOfCoins(o); f > 0 {
				adm := f
				if r.Intn(3) == 0 {
					adm = g.holder()
				}
				return g.opTransfer(adm, f, g.target(), g.around(o.bals[f]))
			}
			return g.opBeginBlock()
		case x < 69:
			return g.simple("cancel", g.holder())
		case x < 73:
			return g.opGrant(g.holder(), g.user(), g.mask())
		case x < 75:
			return g.opRevoke(g.holder(), g.user())
		case x < 80:
			t := -1
			if r.Intn(2) == 0 {
				t = g.user()
			}
			if r.Intn(3) == 0 {
				return g.opGovInc(g.authority(), g.around(g.headroom(o)), t)
			}
			return g.opGovInc(g.authority(), g.small(), t)
		case x < 84:
			return g.opGovDec(g.authority(), g.around(o.bals[0]))
		case x < 88:
			return g.opGovStatus(g.authority(), []int{2, 3, 3, 4, 4, 5}[r.Intn(6)])
		case x < 92:
			return g.opGovWithdraw(g.authority(), g.target(), g.around(o.bals[0]))
		case x < 94:
			return g.opGovSetAdmin(g.authority(), g.user(), g.mask())
		case x < 95:
			return g.opGovRemoveAdmin(g.authority(), g.user())
		default:
			return g.opBeginBlock()
		}
	case 4: // cancelled
		x := r.Intn(100)
		switch {
		case x < 40:
			c := g.holder()
			if g.manager > 0 && r.Intn(3) == 0 {
				c = g.manager
			}
			return g.simple("delete", c)
		case x < 58:
			return g.opGovStatus(g.authority(), 4+r.Intn(2))
		case x < 63:
			return g.simple("cancel", g.holder())
		case x < 71:
			return g.opGovWithdraw(g.authority(), g.target(), g.around(o.bals[0]))
		case x < 77:
			return g.opGovDec(g.authority(), g.around(o.bals[0]))
		case x < 82:
			return g.opMint(g.holder(), g.small())
		case x < 88:
			if f := g.holderOfCoins(o); f > 0 {
				return g.opSend(f, 0, o.bals[f])
			}
			return g.opBeginBlock()
		default:
			return g.opBeginBlock()
		}
	default: // destroyed
		if r.Intn(100) < 60 {
			return g.opBeginBlock()
		}
		return g.anyOp(o)
	}
}

func TestC05(t *testing.T) {
	r := newRand("C05")
	w := NewCaseWriter("C05", "PV.Corr.C05", "check_all", 100)
	app, base := newApp(t)
	e := &c05Env{t: t, app: app, base: base, addrs: map[int]sdk.AccAddress{}}
	e.addrs[0] = markertypes.MustGetMarkerAddress(c05Denom)
	for i := 1; i <= 4; i++ {
		a := addrN(500 + i)
		e.addrs[i] = a
		acc := app.AccountKeeper.NewAccount(base, authtypes.NewBaseAccountWithAddress(a))
		// every user has signed before: forced transfers out of their accounts are possible
		if err := acc.SetSequence(1); err != nil {
			t.Fatal(err)
		}
		app.AccountKeeper.SetAccount(base, acc)
	}
	e.addrs[99] = authtypes.NewModuleAddress(markertypes.ModuleName)
	e.addrs[100] = authtypes.NewModuleAddress(govtypes.ModuleName)

	nHist := scale(500, 20000)
	if s := os.Getenv("VERIF_C05_HISTORIES"); s != "" {
		fmt.Sscanf(s, "%d", &nHist)
	}
	for hi := 0; hi < nHist; hi++ {
		ctx, _ := base.CacheContext()
		params := app.MarkerKeeper.GetParams(ctx)
		switch r.Intn(4) {
		case 0:
			params.MaxSupply = sdkmath.NewInt(1000)
		case 1:
			params.MaxSupply = sdkmath.NewInt(100000)
		}
		params.EnableGovernance = r.Intn(4) != 0
		app.MarkerKeeper.SetParams(ctx, params)
		g := &c05Gen{e: e, r: r, maxs: params.MaxSupply, manager: -1}

		// coins of the denom that exist before any marker does
		if r.Intn(4) == 0 {
			for _, n := range []int{0, 2, 3} {
				if r.Intn(2) == 0 {
					fund(t, app, ctx, e.addrs[n], sdk.NewCoins(sdk.NewInt64Coin(c05Denom, int64(1+r.Intn(60)))))
				}
			}
		}
		o0 := e.observe(ctx)
		prev := o0
		n := 5 + r.Intn(36)
		var steps, descs []string
		accepted := 0
		sawActiveFixed, sawDestroyed, sawRemoved, sawCancelRecall := false, false, false, false
		for i := 0; i < n; i++ {
			op := g.next(prev)
			cctx, write := ctx.CacheContext()
			err := op.run(cctx)
			if err == nil {
				write()
				accepted++
				w.Count("accepted:" + op.kind)
			} else {
				w.Count("rejected:" + op.kind)
			}
			cur := e.observe(ctx)
			steps = append(steps, fmt.Sprintf("(%s, %s)", op.term, cur.coq(err == nil)))
			descs = append(descs, fmt.Sprintf("%s -> %v", op.desc, err == nil))
			if cur.has && cur.status == 3 && cur.fixed {
				sawActiveFixed = true
			}
			if cur.has && cur.status == 5 {
				sawDestroyed = true
			}
			if prev.has && !cur.has {
				sawRemoved = true
			}
			if err == nil && op.kind == "cancel" && prev.has && (prev.status == 2 || prev.status == 3) && cur.status == 4 {
				sawCancelRecall = true
			}
			if err == nil && prev.has && cur.has && cur.supply.GT(g.maxs.SubRaw(3)) && cur.supply.LTE(g.maxs) && (op.kind == "mint" || op.kind == "gov-supply-increase") && prev.status == 3 {
				w.Count("mints_reaching_max_boundary")
			}
			prev = cur
		}
		accN := make([]string, len(c05Universe))
		for i, a := range c05Universe {
			accN[i] = fmt.Sprintf("%d%%N", a)
		}
		term := fmt.Sprintf("CHist %s %s %s %s %s", coqList(accN), zInt(params.MaxSupply), coqBool(params.EnableGovernance), o0.coq(true), coqList(steps))
		w.Add(term, map[string]any{"history": hi, "max_supply": params.MaxSupply.String(), "enable_governance": params.EnableGovernance,
			"preexisting_supply": o0.supply.String(), "steps": descs})
		w.Count("histories")
		w.CountN("history_steps", int64(n))
		w.CountN("history_steps_accepted", int64(accepted))
		if sawActiveFixed {
			w.Count("histories_with_active_fixed_marker")
		}
		if sawDestroyed {
			w.Count("histories_reaching_destroyed")
		}
		if sawRemoved {
			w.Count("histories_with_removal_at_begin_block")
		}
		if sawCancelRecall {
			w.Count("histories_with_admin_cancel_of_finalized_or_active")
		}
		if o0.supply.IsPositive() {
			w.Count("histories_with_preexisting_coins")
		}
		if accepted >= 3 {
			w.Nontrivial(fmt.Sprintf("hist/%s", strings.Join(descs, ";")))
		}
	}
	w.Flush(t)
}
