//go:build c18

package harness

import (
	"fmt"
	"os"
	"testing"

	authtypes "github.com/cosmos/cosmos-sdk/x/auth/types"
)

func TestC18Dbg(t *testing.T) {
	if os.Getenv("VERIF_C18_PROBE") == "" {
		t.Skip()
	}
	g := c18Bootstrap(t)
	n, _ := c18Start(t, g, "")
	st := c18AppState(t, g)
	var ag authtypes.GenesisState
	n.app.AppCodec().MustUnmarshalJSON(st[authtypes.ModuleName], &ag)
	accs, err := authtypes.UnpackAccounts(ag.Accounts)
	fmt.Println(len(accs), err)
	for _, a := range accs {
		fmt.Printf("%T\n", a)
	}
}
