//go:build c04

package harness

// C04, group (i): "every subset of the relevant access rights" taken literally.  For two active
// restricted markers (one without, one with required attributes) the access list is rewritten, in a
// scratch copy of the world, to every subset of {TRANSFER, WITHDRAW, DEPOSIT} for the sender and for
// the transfer agent (or no agent at all), with and without the sender on the deny list; each of
// these 144 states is asked the five questions where those rights matter.

import (
	sdk "github.com/cosmos/cosmos-sdk/types"

	markertypes "github.com/provenance-io/provenance/x/marker/types"
)

func c04SubsetPerms(mask int) []markertypes.Access {
	var out []markertypes.Access
	for i, p := range []markertypes.Access{markertypes.Access_Transfer, markertypes.Access_Withdraw, markertypes.Access_Deposit} {
		if mask&(1<<i) != 0 {
			out = append(out, p)
		}
	}
	return out
}

func (e *c04Env) accessSubsets(w *c04World) {
	r := e.r
	var targets []*c04MarkerCfg
	var noReq, withReq, other *c04MarkerCfg
	for pass := 0; pass < 2; pass++ { // funded marker accounts first (the withdrawal question then reaches the bank)
		for _, m := range w.markers {
			if m.kind != c04Marker || !m.restricted || m.status != markertypes.StatusActive || (pass == 0 && !m.funded) {
				continue
			}
			switch {
			case len(m.reqAttrs) == 0:
				if noReq == nil {
					noReq = m
				}
			case len(m.reqAttrs) == 1 && m.reqAttrs[0] == "kyc.cfour.pb":
				if withReq == nil {
					withReq = m
				}
			default:
				if other == nil {
					other = m
				}
			}
		}
	}
	for _, m := range []*c04MarkerCfg{noReq, withReq} {
		if m != nil {
			targets = append(targets, m)
		}
	}
	if other == nil || len(targets) == 0 {
		e.w.Count("access_subsets_skipped_no_suitable_marker")
		return
	}
	sender, agent := e.plain[5], e.agents[2]
	hasAttr, noAttr := e.recv[1].addr, e.recv[0].addr // world 0: receiver1 holds kyc.cfour.pb, receiver0 nothing
	for _, m := range targets {
		saveG, saveD := m.grants, m.deny
		for sMask := 0; sMask < 8; sMask++ {
			for aMask := 0; aMask <= 8; aMask++ { // 8 = no transfer agent in the context
				for deny := 0; deny < 2; deny++ {
					cctx, _ := w.ctx.CacheContext()
					acc, err := e.app.MarkerKeeper.GetMarker(cctx, m.addr)
					if err != nil || acc == nil {
						e.t.Fatalf("marker %s: %v", m.denom, err)
					}
					ma := acc.(*markertypes.MarkerAccount)
					var grants []c04Grant
					var list []markertypes.AccessGrant
					for _, g := range saveG { // other addresses keep what they had
						if !g.addr.Equals(sender.addr) && !g.addr.Equals(agent.addr) {
							grants = append(grants, g)
							list = append(list, markertypes.AccessGrant{Address: g.addr.String(), Permissions: g.perms})
						}
					}
					add := func(a sdk.AccAddress, mask int) {
						if ps := c04SubsetPerms(mask); len(ps) > 0 {
							grants = append(grants, c04Grant{addr: a, perms: ps})
							list = append(list, markertypes.AccessGrant{Address: a.String(), Permissions: ps})
						}
					}
					add(sender.addr, sMask)
					if aMask < 8 {
						add(agent.addr, aMask)
					}
					ma.AccessControl = list
					e.app.MarkerKeeper.SetMarker(cctx, ma)
					nd := map[string]bool{}
					for k, v := range saveD {
						nd[k] = v
					}
					if deny == 1 {
						e.app.MarkerKeeper.AddSendDeny(cctx, m.addr, sender.addr)
						nd[string(sender.addr)] = true
					} else {
						e.app.MarkerKeeper.RemoveSendDeny(cctx, m.addr, sender.addr)
						delete(nd, string(sender.addr))
					}
					m.grants, m.deny = grants, nd
					w2 := *w
					w2.ctx = cctx
					var agents []sdk.AccAddress
					if aMask < 8 {
						agents = []sdk.AccAddress{agent.addr}
					}
					coin := func(x *c04MarkerCfg) sdk.Coins { return sdk.NewCoins(sdk.NewInt64Coin(x.denom, int64(1+r.Intn(30)))) }
					for qi, q := range []*c04Query{
						{from: sender.addr, to: hasAttr, agents: agents, amt: coin(m)},   // ordinary send, receiver has the attribute
						{from: sender.addr, to: noAttr, agents: agents, amt: coin(m)},    // ... receiver has nothing
						{from: sender.addr, to: m.addr, agents: agents, amt: coin(other)}, // deposit of another restricted coin
						{from: sender.addr, to: m.addr, agents: agents, amt: coin(m)},     // deposit of the marker's own coin
						{from: m.addr, to: hasAttr, agents: agents, amt: coin(m)},         // withdrawal
					} {
						e.emit(&w2, q, true, qi%2 == 0, false, "access_subsets")
					}
				}
			}
		}
		m.grants, m.deny = saveG, saveD
	}
}
