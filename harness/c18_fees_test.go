//go:build c18

package harness

// C18, determinism validation, second history shape: many accounts, every transaction carries
// several fee-bearing messages whose additional fees are split between DIFFERENT recipients, so
// that the fee distribution (msgfees keeper: map of recipients, sortedKeys) and the per-transaction
// event handling (internal/handlers: fee events of failed transactions rewritten by
// AggregateEvents) see at least three distinct recipients in every block.

import (
	"fmt"
	"math/rand"
	"os"
	"testing"
	"time"

	sdk "github.com/cosmos/cosmos-sdk/types"
	banktypes "github.com/cosmos/cosmos-sdk/x/bank/types"

	simapp "github.com/provenance-io/provenance/app"
	msgfeestypes "github.com/provenance-io/provenance/x/msgfees/types"
	"github.com/provenance-io/provenance/x/quarantine"
)

const c18FeeNAcc = 30

// fee recipients: accounts 9 .. 13 (five of them)
var c18FeeRecipients = []int{9, 10, 11, 12, 13}

func c18FeeExtra(app *simapp.App, ctx sdk.Context, accts []c18Acct) error {
	set := func(msg sdk.Msg, coin sdk.Coin, rec int, bips uint32) error {
		return app.MsgFeesKeeper.SetMsgFee(ctx, msgfeestypes.NewMsgFee(sdk.MsgTypeURL(msg), coin, accts[rec].addr.String(), bips))
	}
	if err := set(&banktypes.MsgSend{}, sdk.NewInt64Coin(c18Stake, 300), 10, 4000); err != nil {
		return err
	}
	if err := set(&quarantine.MsgUpdateAutoResponses{}, sdk.NewInt64Coin(c18Stake, 200), 12, 3000); err != nil {
		return err
	}
	if err := set(&quarantine.MsgOptOut{}, sdk.NewInt64Coin(c18Stake, 150), 11, 10000); err != nil {
		return err
	}
	return set(&quarantine.MsgDecline{}, sdk.NewInt64Coin("feecoin", 4), 9, 5000)
}

// c18FeeHistory runs the fee-heavy history on a fresh chain and returns the recorded script, the
// reference digests and the smallest number of distinct recipients paid in a block.
func c18FeeHistory(t *testing.T, r *rand.Rand, w *CaseWriter, nBlocks int) (c18Script, []string, int, error) {
	genesis := c18BootstrapN(t, c18FeeNAcc, c18FeeExtra)
	sc := c18Script{Genesis: genesis}
	n, err := c18Start(t, genesis, "")
	if err != nil {
		return sc, nil, 0, err
	}
	defer n.close()
	n.accts = c18AcctsN(c18FeeNAcc)
	at := n.now.Add(5 * time.Second)
	if _, err := n.block(at, nil); err != nil {
		return sc, nil, 0, err
	}
	sc.Blocks = append(sc.Blocks, c18Block{TimeUnix: at.Unix()})
	minRecipients := -1
	bal := func() map[int]string {
		out := map[int]string{}
		for _, i := range c18FeeRecipients {
			out[i] = n.app.BankKeeper.GetAllBalances(n.queryCtx(), n.accts[i].addr).String()
		}
		return out
	}
	for b := 0; b < nBlocks; b++ {
		before := bal()
		var txs [][]byte
		var kinds []string
		signers := r.Perm(c18FeeNAcc - c18NAcc)
		nTx := 6 + r.Intn(5)
		for i := 0; i < nTx && i < len(signers); i++ {
			s := c18NAcc + signers[i]
			other := c18NAcc + signers[(i+1)%len(signers)]
			sa, oa := n.accts[s].addr, n.accts[other].addr
			extra := sdk.NewCoins(sdk.NewInt64Coin(c18Stake, 300+200), sdk.NewInt64Coin("feecoin", 4))
			var third sdk.Msg
			if n.app.QuarantineKeeper.IsQuarantinedAddr(n.queryCtx(), sa) {
				third = quarantine.NewMsgOptOut(sa)
				extra = extra.Add(sdk.NewInt64Coin(c18Stake, 150))
			} else {
				third = quarantine.NewMsgOptIn(sa)
				extra = extra.Add(sdk.NewInt64Coin(c18Stake, 700))
			}
			resp := []quarantine.AutoResponse{quarantine.AUTO_RESPONSE_ACCEPT, quarantine.AUTO_RESPONSE_DECLINE, quarantine.AUTO_RESPONSE_UNSPECIFIED}[r.Intn(3)]
			msgs := []sdk.Msg{
				banktypes.NewMsgSend(sa, oa, sdk.NewCoins(sdk.NewInt64Coin(c18Price, int64(1+r.Intn(9))))),
				third,
				quarantine.NewMsgUpdateAutoResponses(sa, []*quarantine.AutoResponseUpdate{{FromAddress: oa.String(), Response: resp}}),
				quarantine.NewMsgDecline(sa, []string{oa.String()}, false),
			}
			kind := "fee-4msgs"
			if r.Intn(5) == 0 {
				// the last message fails: the whole transaction is rolled back, only the base fee is kept
				msgs = append(msgs, banktypes.NewMsgSend(sa, oa, sdk.NewCoins(sdk.NewInt64Coin(c18Asset, 2_000_000_000))))
				extra = extra.Add(sdk.NewInt64Coin(c18Stake, 300))
				kind = "fee-failing"
			}
			bz, err := n.signTx(1_200_000, extra, []int{s}, msgs...)
			if err != nil {
				w.Count("sign_failed")
				continue
			}
			txs = append(txs, bz)
			kinds = append(kinds, kind)
		}
		at = n.now.Add(time.Duration(3+r.Intn(10)) * time.Second)
		res, err := n.block(at, txs)
		if err != nil {
			return sc, n.digests, minRecipients, err
		}
		okFee := 0
		for i, tr := range res.TxResults {
			w.Count("tx_" + kinds[i])
			if tr.Code != 0 {
				w.Count("failed_" + kinds[i])
				if os.Getenv("VERIF_C18_DEBUG") != "" {
					fmt.Printf("FAILED %s: %s/%d %s\n", kinds[i], tr.Codespace, tr.Code, tr.Log)
				}
			} else {
				okFee++
			}
		}
		after := bal()
		paid := 0
		for _, i := range c18FeeRecipients {
			if before[i] != after[i] {
				paid++
			}
		}
		w.Count("fee_blocks")
		w.CountN("fee_txs_ok", int64(okFee))
		if okFee > 0 && (minRecipients < 0 || paid < minRecipients) {
			minRecipients = paid
		}
		sc.Blocks = append(sc.Blocks, c18Block{TimeUnix: at.Unix(), Txs: txs})
	}
	w.CountN("tx_ok", int64(n.txOK))
	w.CountN("tx_failed", int64(n.txFail))
	w.CountN("blocks", int64(len(sc.Blocks)))
	return sc, n.digests, minRecipients, nil
}

// c18FeeShape: the fee-heavy history, then the same determinism / restart comparisons as the
// cross-module histories (validation, not proof).
func c18FeeShape(t *testing.T, r *rand.Rand, w *CaseWriter) {
	label := "fees"
	sc, ref, minRec, err := c18FeeHistory(t, r, w, scale(10, 30))
	if err != nil {
		t.Fatalf("fee history: %v", err)
	}
	w.CountN("fee_min_distinct_recipients_per_block", int64(minRec))
	w.Add(fmt.Sprintf("CScenario %s [(\"fee_shape:at_least_three_recipients_paid_in_every_block\", %s)]", coqStr(label), coqBool(minRec >= 3)),
		map[string]any{"kind": "scenario", "scenario": "fee_shape", "label": label, "min_distinct_recipients_per_block": minRec, "blocks": len(sc.Blocks)})
	d2, _, err := c18Replay(t, sc, "", nil, 0)
	if err != nil {
		d2 = append(d2, "error: "+err.Error())
	}
	w.Add(fmt.Sprintf("CDigests %s \"rerun\" %s %s", coqStr(label), c18StrList(ref), c18StrList(d2)),
		map[string]any{"kind": "digests", "label": label, "mode": "rerun", "blocks": len(sc.Blocks), "first_difference": c18FirstDiff(ref, d2)})
	w.Count("replays_rerun")
	d3, err := c18ReplayInProcess(t, sc, t.TempDir())
	if err != nil {
		d3 = append(d3, "error: "+err.Error())
	}
	w.Add(fmt.Sprintf("CDigests %s \"process\" %s %s", coqStr(label), c18StrList(ref), c18StrList(d3)),
		map[string]any{"kind": "digests", "label": label, "mode": "process", "first_difference": c18FirstDiff(ref, d3)})
	w.Count("replays_process")
	d4, restarts, err := c18Replay(t, sc, t.TempDir(), r, 0.35)
	if err != nil {
		d4 = append(d4, "error: "+err.Error())
	}
	w.Add(fmt.Sprintf("CDigests %s \"restart\" %s %s", coqStr(label), c18StrList(ref), c18StrList(d4)),
		map[string]any{"kind": "digests", "label": label, "mode": "restart", "restarts": restarts, "first_difference": c18FirstDiff(ref, d4)})
	w.CountN("restarts", int64(restarts))
	w.Nontrivial("fee-shape")
}
