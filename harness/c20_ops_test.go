//go:build c20

package harness

// C20, second part: changes of a market's configuration after its creation (MsgGovManageFees,
// MsgMarketManageReqAttrs), the fee quotes (OrderFeeCalc, CommitmentSettlementFeeCalc) and what
// is read back from the real keeper after each change.

import (
	"math/big"
	"math/rand"
	"sort"
	"strings"

	sdkmath "cosmossdk.io/math"
	sdk "github.com/cosmos/cosmos-sdk/types"

	simapp "github.com/provenance-io/provenance/app"
	"github.com/provenance-io/provenance/x/exchange"
)

// ---------------------------------------------------------------------------------------------
// MsgGovManageFees

type c20FeeMsg struct {
	AddCreateAsk, RemCreateAsk   []c20Coin
	AddCreateBid, RemCreateBid   []c20Coin
	AddCreateCom, RemCreateCom   []c20Coin
	AddSellerFlat, RemSellerFlat []c20Coin
	AddSellerRat, RemSellerRat   []c20Ratio
	AddBuyerFlat, RemBuyerFlat   []c20Coin
	AddBuyerRat, RemBuyerRat     []c20Ratio
	SetBips                      int64
	UnsetBips                    bool
	Shape                        string
}

func c20Ratios(l []c20Ratio) []exchange.FeeRatio {
	var out []exchange.FeeRatio
	for _, r := range l {
		out = append(out, r.sdk())
	}
	return out
}

func (f c20FeeMsg) sdk(authority string, marketID uint32) *exchange.MsgGovManageFeesRequest {
	return &exchange.MsgGovManageFeesRequest{
		Authority: authority, MarketId: marketID,
		AddFeeCreateAskFlat: c20Coins(f.AddCreateAsk), RemoveFeeCreateAskFlat: c20Coins(f.RemCreateAsk),
		AddFeeCreateBidFlat: c20Coins(f.AddCreateBid), RemoveFeeCreateBidFlat: c20Coins(f.RemCreateBid),
		AddFeeCreateCommitmentFlat: c20Coins(f.AddCreateCom), RemoveFeeCreateCommitmentFlat: c20Coins(f.RemCreateCom),
		AddFeeSellerSettlementFlat: c20Coins(f.AddSellerFlat), RemoveFeeSellerSettlementFlat: c20Coins(f.RemSellerFlat),
		AddFeeSellerSettlementRatios: c20Ratios(f.AddSellerRat), RemoveFeeSellerSettlementRatios: c20Ratios(f.RemSellerRat),
		AddFeeBuyerSettlementFlat: c20Coins(f.AddBuyerFlat), RemoveFeeBuyerSettlementFlat: c20Coins(f.RemBuyerFlat),
		AddFeeBuyerSettlementRatios: c20Ratios(f.AddBuyerRat), RemoveFeeBuyerSettlementRatios: c20Ratios(f.RemBuyerRat),
		SetFeeCommitmentSettlementBips: uint32(f.SetBips), UnsetFeeCommitmentSettlementBips: f.UnsetBips,
	}
}

func (f c20FeeMsg) coq() string {
	return "{| fm_add_create_ask := " + c20CoqCoins(f.AddCreateAsk) + "; fm_rem_create_ask := " + c20CoqCoins(f.RemCreateAsk) +
		"; fm_add_create_bid := " + c20CoqCoins(f.AddCreateBid) + "; fm_rem_create_bid := " + c20CoqCoins(f.RemCreateBid) +
		"; fm_add_create_com := " + c20CoqCoins(f.AddCreateCom) + "; fm_rem_create_com := " + c20CoqCoins(f.RemCreateCom) +
		"; fm_add_seller_flat := " + c20CoqCoins(f.AddSellerFlat) + "; fm_rem_seller_flat := " + c20CoqCoins(f.RemSellerFlat) +
		"; fm_add_seller_ratios := " + c20CoqRatios(f.AddSellerRat) + "; fm_rem_seller_ratios := " + c20CoqRatios(f.RemSellerRat) +
		"; fm_add_buyer_flat := " + c20CoqCoins(f.AddBuyerFlat) + "; fm_rem_buyer_flat := " + c20CoqCoins(f.RemBuyerFlat) +
		"; fm_add_buyer_ratios := " + c20CoqRatios(f.AddBuyerRat) + "; fm_rem_buyer_ratios := " + c20CoqRatios(f.RemBuyerRat) +
		"; fm_set_bips := " + zI64(f.SetBips) + "; fm_unset_bips := " + coqBool(f.UnsetBips) + " |}"
}

func c20StrRatios(l []c20Ratio) []string {
	out := make([]string, len(l))
	for i, r := range l {
		out[i] = r.String()
	}
	return out
}

func (f c20FeeMsg) desc() map[string]any {
	d := map[string]any{"shape": f.Shape}
	put := func(k string, v []string) {
		if len(v) > 0 {
			d[k] = v
		}
	}
	put("add_create_ask", c20StrCoins(f.AddCreateAsk))
	put("remove_create_ask", c20StrCoins(f.RemCreateAsk))
	put("add_create_bid", c20StrCoins(f.AddCreateBid))
	put("remove_create_bid", c20StrCoins(f.RemCreateBid))
	put("add_create_commitment", c20StrCoins(f.AddCreateCom))
	put("remove_create_commitment", c20StrCoins(f.RemCreateCom))
	put("add_seller_flat", c20StrCoins(f.AddSellerFlat))
	put("remove_seller_flat", c20StrCoins(f.RemSellerFlat))
	put("add_seller_ratios", c20StrRatios(f.AddSellerRat))
	put("remove_seller_ratios", c20StrRatios(f.RemSellerRat))
	put("add_buyer_flat", c20StrCoins(f.AddBuyerFlat))
	put("remove_buyer_flat", c20StrCoins(f.RemBuyerFlat))
	put("add_buyer_ratios", c20StrRatios(f.AddBuyerRat))
	put("remove_buyer_ratios", c20StrRatios(f.RemBuyerRat))
	if f.SetBips != 0 {
		d["set_bips"] = f.SetBips
	}
	if f.UnsetBips {
		d["unset_bips"] = true
	}
	return d
}

// c20FlatChange: removals (existing options given exactly, or with another amount - the store
// deletes by denom -, or a denom that has no option) and additions (new denoms, or the denom of
// an existing option: the written entry replaces it).
func c20FlatChange(r *rand.Rand, cur []c20Coin) (add, rem []c20Coin) {
	used := map[string]bool{}
	for _, o := range cur {
		switch r.Intn(5) {
		case 0:
			rem = append(rem, c20Coin{o.D, new(big.Int).Set(o.A)})
			used[o.D] = true
		case 1:
			rem = append(rem, c20Coin{o.D, new(big.Int).Add(o.A, c20Big(int64(1+r.Intn(5))))})
			used[o.D] = true
		}
	}
	if r.Intn(5) == 0 {
		rem = append(rem, c20Coin{"ecoin", c20Big(3)}) // nothing stored under it
	}
	n := []int{0, 1, 1, 2}[r.Intn(4)]
	perm := r.Perm(len(c20FeeDenoms))
	for i := 0; i < n; i++ {
		d := c20FeeDenoms[perm[i]]
		a := c20Amount(r)
		if used[d] && r.Intn(2) == 0 {
			// removed and added again with the same denom: a different amount is needed
			if cf := c20FindFlat(cur, d); cf != nil && cf.Cmp(a) == 0 {
				a = new(big.Int).Add(a, c20Big(1))
			}
		}
		add = append(add, c20Coin{d, a})
	}
	// an addition must not equal a removal (same denom and amount)
	for i := range add {
		for _, x := range rem {
			if x.D == add[i].D && x.A.Cmp(add[i].A) == 0 {
				add[i].A = new(big.Int).Add(add[i].A, c20Big(1))
			}
		}
	}
	return add, rem
}

func c20RatioChange(r *rand.Rand, cur []c20Ratio, seller bool) (add, rem []c20Ratio) {
	for _, o := range cur {
		switch r.Intn(5) {
		case 0:
			rem = append(rem, o)
		case 1: // other amounts: the store deletes by the denom pair
			rem = append(rem, c20Ratio{o.PD, new(big.Int).Add(o.PA, c20Big(1)), o.FD, o.FA})
		}
	}
	n := []int{0, 1, 1, 2}[r.Intn(4)]
	seen := map[string]bool{}
	for i := 0; i < n; i++ {
		pd := c20PriceDenoms[r.Intn(len(c20PriceDenoms))]
		fd := pd
		if !seller {
			cands := append([]string{pd}, c20FeeDenoms...)
			fd = cands[r.Intn(len(cands))]
		}
		if seen[pd+"|"+fd] {
			continue
		}
		seen[pd+"|"+fd] = true
		pa, fa := c20Amount(r), c20Amount(r)
		if r.Intn(8) == 0 {
			fa = c20Big(0)
		}
		if fd == pd && fa.Cmp(pa) > 0 {
			pa, fa = fa, pa
		}
		nr := c20Ratio{pd, pa, fd, fa}
		for _, x := range rem {
			if x.PD == nr.PD && x.FD == nr.FD && x.PA.Cmp(nr.PA) == 0 && x.FA.Cmp(nr.FA) == 0 {
				nr.PA = new(big.Int).Add(nr.PA, c20Big(1))
			}
		}
		add = append(add, nr)
	}
	return add, rem
}

func c20GenFeeMsg(r *rand.Rand, cur c20Market, valid bool) c20FeeMsg {
	var f c20FeeMsg
	f.Shape = "valid"
	touch := func() bool { return r.Intn(3) == 0 }
	for f.empty() {
		if touch() {
			f.AddCreateAsk, f.RemCreateAsk = c20FlatChange(r, cur.CreateAsk)
		}
		if touch() {
			f.AddCreateBid, f.RemCreateBid = c20FlatChange(r, cur.CreateBid)
		}
		if touch() {
			f.AddCreateCom, f.RemCreateCom = c20FlatChange(r, cur.CreateCom)
		}
		if touch() {
			f.AddSellerFlat, f.RemSellerFlat = c20FlatChange(r, cur.SellerFlat)
		}
		if touch() {
			f.AddBuyerFlat, f.RemBuyerFlat = c20FlatChange(r, cur.BuyerFlat)
		}
		if touch() {
			f.AddSellerRat, f.RemSellerRat = c20RatioChange(r, cur.SellerRatios, true)
		}
		if touch() {
			f.AddBuyerRat, f.RemBuyerRat = c20RatioChange(r, cur.BuyerRatios, false)
		}
		switch r.Intn(8) {
		case 0:
			f.SetBips = int64(1 + r.Intn(400))
		case 1:
			f.UnsetBips = true
		case 2:
			f.SetBips = 10000
		}
	}
	if valid {
		return f
	}
	// one defect that ValidateBasic must catch
	switch r.Intn(10) {
	case 0:
		f = c20FeeMsg{Shape: "no updates"}
	case 1:
		f.AddCreateBid = []c20Coin{{"acoin", c20Big(5)}, {"acoin", c20Big(6)}}
		f.Shape = "denom added twice"
	case 2:
		f.AddBuyerFlat = append(f.AddBuyerFlat, c20Coin{"ecoin", c20Big(0)})
		f.Shape = "zero option"
	case 3:
		f.AddCreateAsk = []c20Coin{{"bcoin", c20Big(7)}}
		f.RemCreateAsk = []c20Coin{{"bcoin", c20Big(7)}}
		f.Shape = "same option added and removed"
	case 4:
		f.AddSellerRat = []c20Ratio{{"pcoin", c20Big(10), "acoin", c20Big(1)}}
		f.Shape = "seller ratio with another fee denom"
	case 5:
		f.AddSellerRat = []c20Ratio{{"pcoin", c20Big(10), "pcoin", c20Big(11)}}
		f.Shape = "seller ratio above one"
	case 6:
		f.AddBuyerRat = []c20Ratio{{"pcoin", c20Big(0), "acoin", c20Big(1)}}
		f.Shape = "ratio with zero price amount"
	case 7:
		f.SetBips = 10001
		f.UnsetBips = false
		f.Shape = "bips above the maximum"
	case 8:
		f.SetBips = 50
		f.UnsetBips = true
		f.Shape = "bips set and unset"
	default:
		f.AddBuyerRat = []c20Ratio{{"pcoin", c20Big(10), "acoin", c20Big(1)}, {"pcoin", c20Big(20), "acoin", c20Big(1)}}
		f.Shape = "buyer ratio pair added twice"
	}
	return f
}

func (f c20FeeMsg) empty() bool {
	return len(f.AddCreateAsk)+len(f.RemCreateAsk)+len(f.AddCreateBid)+len(f.RemCreateBid)+len(f.AddCreateCom)+len(f.RemCreateCom)+
		len(f.AddSellerFlat)+len(f.RemSellerFlat)+len(f.AddSellerRat)+len(f.RemSellerRat)+len(f.AddBuyerFlat)+len(f.RemBuyerFlat)+
		len(f.AddBuyerRat)+len(f.RemBuyerRat) == 0 && f.SetBips == 0 && !f.UnsetBips
}

// ---------------------------------------------------------------------------------------------
// MsgMarketManageReqAttrs

type c20AttrMsg struct {
	Auth                                           bool
	AskAdd, AskRem, BidAdd, BidRem, ComAdd, ComRem []string
	Shape                                          string
}

func (a c20AttrMsg) sdk(admin, other string, marketID uint32) *exchange.MsgMarketManageReqAttrsRequest {
	ad := admin
	if !a.Auth {
		ad = other
	}
	return &exchange.MsgMarketManageReqAttrsRequest{Admin: ad, MarketId: marketID,
		CreateAskToAdd: a.AskAdd, CreateAskToRemove: a.AskRem, CreateBidToAdd: a.BidAdd, CreateBidToRemove: a.BidRem,
		CreateCommitmentToAdd: a.ComAdd, CreateCommitmentToRemove: a.ComRem}
}

func (a c20AttrMsg) coq() string {
	return "{| am_auth := " + coqBool(a.Auth) + "; am_ask_add := " + c20CoqStrs(a.AskAdd) + "; am_ask_rem := " + c20CoqStrs(a.AskRem) +
		"; am_bid_add := " + c20CoqStrs(a.BidAdd) + "; am_bid_rem := " + c20CoqStrs(a.BidRem) +
		"; am_com_add := " + c20CoqStrs(a.ComAdd) + "; am_com_rem := " + c20CoqStrs(a.ComRem) + " |}"
}

func (a c20AttrMsg) desc() map[string]any {
	return map[string]any{"shape": a.Shape, "authorised_admin": a.Auth, "ask_add": a.AskAdd, "ask_remove": a.AskRem,
		"bid_add": a.BidAdd, "bid_remove": a.BidRem, "commitment_add": a.ComAdd, "commitment_remove": a.ComRem}
}

func (a c20AttrMsg) empty() bool {
	return len(a.AskAdd)+len(a.AskRem)+len(a.BidAdd)+len(a.BidRem)+len(a.ComAdd)+len(a.ComRem) == 0
}

// c20ReqChange: cur holds the stored (normalised) entries.
func c20ReqChange(r *rand.Rand, cur []string) (add, rem []string) {
	have := map[string]bool{}
	for _, c := range cur {
		have[c] = true
		if r.Intn(3) == 0 {
			rem = append(rem, c20Decorate(r, c))
		}
	}
	n := []int{0, 1, 1, 2}[r.Intn(4)]
	pool := c20Reqs
	if r.Intn(3) == 0 {
		pool = c20OverlapFamilies[r.Intn(len(c20OverlapFamilies))]
	}
	perm := r.Perm(len(pool))
	for i := 0; i < n && i < len(perm); i++ {
		c := pool[perm[i]]
		if have[c] {
			continue
		}
		have[c] = true
		add = append(add, c20Decorate(r, c))
	}
	return add, rem
}

func c20GenAttrMsg(r *rand.Rand, cur c20Market, valid bool) c20AttrMsg {
	a := c20AttrMsg{Auth: true, Shape: "valid"}
	for tries := 0; a.empty() && tries < 20; tries++ {
		if r.Intn(2) == 0 {
			a.AskAdd, a.AskRem = c20ReqChange(r, cur.ReqAsk)
		}
		if r.Intn(2) == 0 {
			a.BidAdd, a.BidRem = c20ReqChange(r, cur.ReqBid)
		}
		if r.Intn(2) == 0 {
			a.ComAdd, a.ComRem = c20ReqChange(r, cur.ReqCom)
		}
	}
	if a.empty() {
		a.BidAdd = []string{c20Decorate(r, "*.club")}
		for _, c := range cur.ReqBid {
			if c == "*.club" {
				a.BidAdd, a.BidRem = nil, []string{" *.CLUB"}
			}
		}
	}
	if valid {
		return a
	}
	pickCur := func() (string, *[]string, *[]string, bool) {
		type kind struct {
			cur      []string
			add, rem *[]string
		}
		ks := []kind{{cur.ReqAsk, &a.AskAdd, &a.AskRem}, {cur.ReqBid, &a.BidAdd, &a.BidRem}, {cur.ReqCom, &a.ComAdd, &a.ComRem}}
		perm := r.Perm(3)
		for _, i := range perm {
			if len(ks[i].cur) > 0 {
				return ks[i].cur[r.Intn(len(ks[i].cur))], ks[i].add, ks[i].rem, true
			}
		}
		return "", &a.BidAdd, &a.BidRem, false
	}
	switch r.Intn(9) {
	case 0:
		a = c20AttrMsg{Auth: true, Shape: "no updates"}
	case 1:
		a.Auth = false
		a.Shape = "admin without the permission"
	case 2: // an entry that is already required
		if c, add, _, ok := pickCur(); ok {
			*add = append(*add, c20Decorate(r, c))
			a.Shape = "adds an entry that is already required"
		} else {
			a.ComRem = append(a.ComRem, "nothing.required")
			a.Shape = "removes an entry that is not required"
		}
	case 3:
		a.AskRem = append(a.AskRem, c20Decorate(r, "not.there.prov"))
		a.Shape = "removes an entry that is not required"
	case 4: // the same text on both sides (ValidateBasic, EqualFold)
		a.BidAdd = append(a.BidAdd, "Silver.Club")
		a.BidRem = append(a.BidRem, "silver.CLUB")
		a.Shape = "same entry added and removed (equal up to case)"
	case 5: // passes ValidateBasic (texts differ by blanks), fails in the keeper
		if c, add, rem, ok := pickCur(); ok {
			*add = append(*add, " "+c)
			*rem = append(*rem, c+" ")
			a.Shape = "removes and re-adds one entry (texts differ by blanks)"
		} else {
			a.BidAdd = append(a.BidAdd, " silver.club")
			a.BidRem = append(a.BidRem, "silver.club ")
			a.Shape = "adds and removes an entry that is not required (texts differ by blanks)"
		}
	case 6:
		a.ComAdd = append(a.ComAdd, c20BadReqs[r.Intn(len(c20BadReqs))])
		a.Shape = "invalid entry to add"
	case 7:
		a.AskAdd = append(a.AskAdd, "Bronze.club ", " bronze.CLUB")
		a.Shape = "entry added twice (equal after normalisation)"
	default: // invalid entries may be REMOVED only when stored, which never happens
		a.BidRem = append(a.BidRem, "kyc_prov")
		a.Shape = "removes an invalid entry that is not required"
	}
	return a
}

// ---------------------------------------------------------------------------------------------
// reading the configuration back from the real keeper

func c20FromCoins(l []sdk.Coin) []c20Coin {
	var out []c20Coin
	for _, c := range l {
		out = append(out, c20Coin{c.Denom, c.Amount.BigInt()})
	}
	return out
}
func c20FromRatios(l []exchange.FeeRatio) []c20Ratio {
	var out []c20Ratio
	for _, r := range l {
		out = append(out, c20Ratio{r.Price.Denom, r.Price.Amount.BigInt(), r.Fee.Denom, r.Fee.Amount.BigInt()})
	}
	return out
}

// c20ReadMarket returns the configuration the keeper reports now (required attributes as stored).
func c20ReadMarket(app *simapp.App, ctx sdk.Context, id uint32, interm string) c20Market {
	k := app.ExchangeKeeper
	return c20Market{
		CreateAsk: c20FromCoins(k.GetCreateAskFlatFees(ctx, id)), CreateBid: c20FromCoins(k.GetCreateBidFlatFees(ctx, id)),
		CreateCom: c20FromCoins(k.GetCreateCommitmentFlatFees(ctx, id)), SellerFlat: c20FromCoins(k.GetSellerSettlementFlatFees(ctx, id)),
		BuyerFlat: c20FromCoins(k.GetBuyerSettlementFlatFees(ctx, id)), SellerRatios: c20FromRatios(k.GetSellerSettlementRatios(ctx, id)),
		BuyerRatios: c20FromRatios(k.GetBuyerSettlementRatios(ctx, id)),
		AccOrders:   k.IsMarketAcceptingOrders(ctx, id), UserSettle: k.IsUserSettlementAllowed(ctx, id), AccCommit: k.IsMarketAcceptingCommitments(ctx, id),
		ReqAsk: k.GetReqAttrsAsk(ctx, id), ReqBid: k.GetReqAttrsBid(ctx, id), ReqCom: k.GetReqAttrsCommitment(ctx, id),
		Bips: int64(k.GetCommitmentSettlementBips(ctx, id)), Interm: interm,
	}
}

// ---------------------------------------------------------------------------------------------
// quotes

func c20CoqQuote(ok bool, c, f, x []sdk.Coin) string {
	if !ok {
		return "None"
	}
	return "(Some (" + c20CoqCoins(c20FromCoins(c)) + ", " + c20CoqCoins(c20FromCoins(f)) + ", " + c20CoqCoins(c20FromCoins(x)) + "))"
}

func c20StrSdk(l []sdk.Coin) []string {
	out := make([]string, len(l))
	for i, c := range l {
		out[i] = c.String()
	}
	return out
}

// c20Offer is sdk.NewCoins of an optional flat and an optional ratio option.
func c20Offer(f, x *sdk.Coin) sdk.Coins {
	var out sdk.Coins
	if f != nil {
		out = out.Add(*f)
	}
	if x != nil {
		out = out.Add(*x)
	}
	return out
}

func c20CoqSdkCoins(l sdk.Coins) string { return c20CoqCoins(c20FromCoins(l)) }

func c20OptPtr(l []sdk.Coin, i int) *sdk.Coin {
	if len(l) == 0 {
		return nil
	}
	c := l[i%len(l)]
	return &c
}

func c20CoqOptSdk(c *sdk.Coin) string {
	if c == nil {
		return "None"
	}
	return "(Some (" + coqStr(c.Denom) + ", " + zInt(c.Amount) + "))"
}

func c20SdkOptStr(c *sdk.Coin) string {
	if c == nil {
		return ""
	}
	return c.String()
}

// c20MinusOne lowers a coin by one unit (nil when that leaves nothing).
func c20MinusOne(c *sdk.Coin) *sdk.Coin {
	if c == nil || !c.Amount.GT(sdkmath.OneInt()) {
		return nil
	}
	n := sdk.Coin{Denom: c.Denom, Amount: c.Amount.SubRaw(1)}
	return &n
}

// c20Navs renders request NAVs as Coq [nav] values (assets denom, price denom, assets, price).
func c20CoqNavs(navs []exchange.NetAssetPrice) string {
	items := make([]string, len(navs))
	for i, n := range navs {
		items[i] = "(" + coqStr(n.Assets.Denom) + ", " + coqStr(n.Price.Denom) + ", " + zInt(n.Assets.Amount) + ", " + zInt(n.Price.Amount) + ")"
	}
	return coqList(items)
}

func c20SortedStrings(l []string) []string {
	out := append([]string(nil), l...)
	sort.Strings(out)
	return out
}

func c20Join(l []string) string { return strings.Join(l, ",") }

// ---------------------------------------------------------------------------------------------
// configuration messages sent by the governance authority for an id that is not a market yet

type c20PreOp struct {
	Kind string // orders / usersettle / commitments / close / interm / fees / attrs
	V    bool
	D    string
	Fee  c20FeeMsg
	Attr c20AttrMsg
}

func (p c20PreOp) coq() string {
	switch p.Kind {
	case "orders":
		return "PreOrders " + coqBool(p.V)
	case "usersettle":
		return "PreUserSettle " + coqBool(p.V)
	case "commitments":
		return "PreCommitments " + coqBool(p.V)
	case "close":
		return "PreClose"
	case "interm":
		return "PreInterm " + coqStr(p.D)
	case "fees":
		return "PreFees " + p.Fee.coq()
	default:
		return "PreAttrs " + p.Attr.coq()
	}
}

func (p c20PreOp) msg(authority string, id uint32) sdk.Msg {
	switch p.Kind {
	case "orders":
		return &exchange.MsgMarketUpdateAcceptingOrdersRequest{Admin: authority, MarketId: id, AcceptingOrders: p.V}
	case "usersettle":
		return &exchange.MsgMarketUpdateUserSettleRequest{Admin: authority, MarketId: id, AllowUserSettlement: p.V}
	case "commitments":
		return &exchange.MsgMarketUpdateAcceptingCommitmentsRequest{Admin: authority, MarketId: id, AcceptingCommitments: p.V}
	case "close":
		return &exchange.MsgGovCloseMarketRequest{Authority: authority, MarketId: id}
	case "interm":
		return &exchange.MsgMarketUpdateIntermediaryDenomRequest{Admin: authority, MarketId: id, IntermediaryDenom: p.D}
	case "fees":
		return p.Fee.sdk(authority, id)
	default:
		return p.Attr.sdk(authority, authority, id)
	}
}

func (p c20PreOp) desc() map[string]any {
	d := map[string]any{"op": p.Kind}
	switch p.Kind {
	case "orders", "usersettle", "commitments":
		d["value"] = p.V
	case "interm":
		d["denom"] = p.D
	case "fees":
		d["fees"] = p.Fee.desc()
	case "attrs":
		d["attrs"] = p.Attr.desc()
	}
	return d
}

// c20GenPreOps: 1-5 operations, biased towards leaving the OPPOSITE of what the market will be
// created with (a left-over entry only matters when the creation request has the default value).
func c20GenPreOps(r *rand.Rand, m c20Market) []c20PreOp {
	var ops []c20PreOp
	if m.AccOrders && r.Intn(4) != 0 {
		if r.Intn(2) == 0 {
			ops = append(ops, c20PreOp{Kind: "close"})
		} else {
			ops = append(ops, c20PreOp{Kind: "orders", V: false})
		}
	}
	if !m.UserSettle && r.Intn(4) != 0 || r.Intn(4) == 0 {
		ops = append(ops, c20PreOp{Kind: "usersettle", V: true})
	}
	if !m.AccCommit && r.Intn(4) != 0 || r.Intn(4) == 0 {
		ops = append(ops, c20PreOp{Kind: "commitments", V: true})
	}
	cur := c20Market{}
	n := r.Intn(3)
	for i := 0; i < n; i++ {
		switch r.Intn(6) {
		case 0:
			ops = append(ops, c20PreOp{Kind: "fees", Fee: c20GenFeeMsg(r, cur, r.Intn(5) != 0)})
		case 1:
			am := c20GenAttrMsg(r, cur, r.Intn(4) != 0)
			if !am.Auth { // the authority passes every permission check
				am.Auth, am.Shape = true, "valid"
			}
			ops = append(ops, c20PreOp{Kind: "attrs", Attr: am})
		case 2:
			ops = append(ops, c20PreOp{Kind: "interm", D: []string{"interm", "", c20ChainFeeDenom}[r.Intn(3)]})
		case 3:
			ops = append(ops, c20PreOp{Kind: []string{"orders", "usersettle", "commitments"}[r.Intn(3)], V: r.Intn(2) == 0})
		case 4:
			ops = append(ops, c20PreOp{Kind: "close"})
		default: // bips left behind
			ops = append(ops, c20PreOp{Kind: "fees", Fee: c20FeeMsg{SetBips: int64(1 + r.Intn(500)), Shape: "valid"}})
		}
	}
	r.Shuffle(len(ops), func(i, j int) { ops[i], ops[j] = ops[j], ops[i] })
	return ops
}
