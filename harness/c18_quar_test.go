//go:build c18

package harness

// C18, quarantine records with already-accepted senders.
//
// A genesis may hold quarantine records with several senders (GenesisState.Validate and InitGenesis
// accept them).  MsgAccept naming a strict subset of such a record's senders leaves a record with
// accepted AND unaccepted senders.  ExportGenesis writes only the unaccepted ones, so the record
// comes back under another store key without its accepted senders.  This file builds that history
// on the real application (genesis -> one MsgAccept -> export -> fresh chain), compares the raw
// quarantine store and a filtered query, and then runs the same two messages (Decline naming the
// already-accepted sender, Accept naming the other one) on both chains: the exporting chain keeps
// the funds quarantined, the imported chain releases them.

import (
	"encoding/hex"
	"fmt"
	"os"
	"sort"
	"strings"
	"testing"
	"time"

	storetypes "cosmossdk.io/store/types"

	sdk "github.com/cosmos/cosmos-sdk/types"
	"github.com/cosmos/cosmos-sdk/types/query"

	simapp "github.com/provenance-io/provenance/app"
	"github.com/provenance-io/provenance/x/quarantine"
)

// c18RawStore lists every key/value pair of one module store as "hexkey=hexvalue", in store order.
func (n *c18Net) rawStore(storeKey string) []string {
	var out []string
	_ = try(func() error {
		st := n.queryCtx().KVStore(n.app.GetKey(storeKey))
		it := storetypes.KVStorePrefixIterator(st, nil)
		defer it.Close()
		for ; it.Valid(); it.Next() {
			out = append(out, hex.EncodeToString(it.Key())+"="+hex.EncodeToString(it.Value()))
		}
		return nil
	})
	return out
}

// oneTx runs a block holding one signed transaction and reports whether it succeeded.
func (n *c18Net) oneTx(at time.Time, gas uint64, extra sdk.Coins, signers []int, msgs ...sdk.Msg) (bool, error) {
	bz, err := n.signTx(gas, extra, signers, msgs...)
	if err != nil {
		return false, err
	}
	res, err := n.block(at, [][]byte{bz})
	if err != nil {
		return false, err
	}
	if len(res.TxResults) != 1 {
		return false, fmt.Errorf("expected one tx result")
	}
	if res.TxResults[0].Code != 0 && os.Getenv("VERIF_C18_DEBUG") != "" {
		fmt.Printf("oneTx failed: %s/%d %s\n", res.TxResults[0].Codespace, res.TxResults[0].Code, res.TxResults[0].Log)
	}
	return res.TxResults[0].Code == 0, nil
}

const (
	c18QTo    = 7 // receiver of the quarantined funds
	c18QFromA = 3 // sender whose acceptance is given before the export
	c18QFromB = 4 // sender that stays unaccepted
)

// c18MultiSenderExtra adds to the bootstrap state: an opted-in receiver and one quarantine record
// with TWO senders (the funds are moved to the quarantine funds holder).
func c18MultiSenderExtra(app *simapp.App, ctx sdk.Context, accts []c18Acct) error {
	to, a, b := accts[c18QTo].addr, accts[c18QFromA].addr, accts[c18QFromB].addr
	if err := app.QuarantineKeeper.SetOptIn(ctx, to); err != nil {
		return err
	}
	coins := sdk.NewCoins(sdk.NewInt64Coin(c18Price, 9))
	if err := app.BankKeeper.SendCoins(quarantine.WithBypass(ctx), a, app.QuarantineKeeper.GetFundsHolder(), coins); err != nil {
		return err
	}
	app.QuarantineKeeper.SetQuarantineRecord(ctx, to, quarantine.NewQuarantineRecord([]string{a.String(), b.String()}, coins, false))
	return nil
}

type c18QuarOutcome struct {
	ok              bool // the scenario could be driven (all set-up transactions succeeded)
	GenesisHasMulti bool
	PartialAccepted bool // after MsgAccept the exporting chain holds a record with accepted and unaccepted senders
	GenesisJSONEq   bool // quarantine genesis of the exporting chain == of the imported chain
	StoreEq         bool // raw quarantine store equal
	StoreOnlyA      []string
	StoreOnlyB      []string
	QueryFromEq     bool // QuarantinedFunds{to, from: accepted sender}
	BalAfterA       string
	BalAfterB       string
	FundsEq         bool // receiver's balance after Decline(accepted sender) ; Accept(other sender) on both chains
	RecordsAfterA   int
	RecordsAfterB   int
}

// c18QuarantineMulti drives the scenario.
func c18QuarantineMulti(t *testing.T) (c18QuarOutcome, error) {
	var o c18QuarOutcome
	g0 := c18BootstrapWith(t, c18MultiSenderExtra)
	a, err := c18Start(t, g0, "")
	if err != nil {
		return o, err
	}
	defer a.close()
	var q0 quarantine.GenesisState
	a.app.AppCodec().MustUnmarshalJSON(c18AppState(t, g0)[quarantine.ModuleName], &q0)
	for _, f := range q0.QuarantinedFunds {
		if len(f.UnacceptedFromAddresses) > 1 {
			o.GenesisHasMulti = true
		}
	}
	at := a.now.Add(5 * time.Second)
	if _, err := a.block(at, nil); err != nil {
		return o, err
	}
	to, fa, fb := a.accts[c18QTo].addr, a.accts[c18QFromA].addr, a.accts[c18QFromB].addr
	at = at.Add(5 * time.Second)
	ok, err := a.oneTx(at, 600_000, nil, []int{c18QTo}, quarantine.NewMsgAccept(to, []string{fa.String()}, false))
	if err != nil || !ok {
		return o, fmt.Errorf("accept of one of two senders failed: %v", err)
	}
	for _, r := range a.app.QuarantineKeeper.GetQuarantineRecords(a.queryCtx(), to, fb) {
		if len(r.AcceptedFromAddresses) > 0 && len(r.UnacceptedFromAddresses) > 0 {
			o.PartialAccepted = true
		}
	}
	g1, err := a.export()
	if err != nil {
		return o, err
	}
	b, err := c18Start(t, g1, "")
	if err != nil {
		return o, fmt.Errorf("import: %w", err)
	}
	defer b.close()
	// the same empty block on both
	at = at.Add(5 * time.Second)
	if _, err := a.block(at, nil); err != nil {
		return o, err
	}
	if _, err := b.block(at, nil); err != nil {
		return o, err
	}
	ga, err1 := a.export()
	gb, err2 := b.export()
	if err1 != nil || err2 != nil {
		return o, fmt.Errorf("exports: %v %v", err1, err2)
	}
	o.GenesisJSONEq = c18Canon(c18AppState(t, ga)[quarantine.ModuleName]) == c18Canon(c18AppState(t, gb)[quarantine.ModuleName])
	sa, sb := a.rawStore(quarantine.StoreKey), b.rawStore(quarantine.StoreKey)
	o.StoreEq = strings.Join(sa, "\n") == strings.Join(sb, "\n")
	inA, inB := map[string]bool{}, map[string]bool{}
	for _, x := range sa {
		inA[x] = true
	}
	for _, x := range sb {
		inB[x] = true
	}
	for _, x := range sa {
		if !inB[x] {
			o.StoreOnlyA = append(o.StoreOnlyA, x)
		}
	}
	for _, x := range sb {
		if !inA[x] {
			o.StoreOnlyB = append(o.StoreOnlyB, x)
		}
	}
	sort.Strings(o.StoreOnlyA)
	sort.Strings(o.StoreOnlyB)
	qs := []c18Q{{"quarantine.funds_from_accepted", "/cosmos.quarantine.v1beta1.Query/QuarantinedFunds",
		&quarantine.QueryQuarantinedFundsRequest{ToAddress: to.String(), FromAddress: fa.String(), Pagination: &query.PageRequest{Limit: 100}}}}
	qa, qb := a.runQueries(qs), b.runQueries(qs)
	o.QueryFromEq = qa[qs[0].name] == qb[qs[0].name]
	// the same two messages on both chains
	for _, n := range []*c18Net{a, b} {
		t1 := at.Add(5 * time.Second)
		if ok, err := n.oneTx(t1, 600_000, nil, []int{c18QTo}, quarantine.NewMsgDecline(to, []string{fa.String()}, false)); err != nil || !ok {
			return o, fmt.Errorf("decline failed: %v", err)
		}
		if ok, err := n.oneTx(t1.Add(5*time.Second), 600_000, nil, []int{c18QTo}, quarantine.NewMsgAccept(to, []string{fb.String()}, false)); err != nil || !ok {
			return o, fmt.Errorf("accept failed: %v", err)
		}
	}
	o.BalAfterA = a.app.BankKeeper.GetBalance(a.queryCtx(), to, c18Price).String()
	o.BalAfterB = b.app.BankKeeper.GetBalance(b.queryCtx(), to, c18Price).String()
	o.FundsEq = o.BalAfterA == o.BalAfterB
	o.RecordsAfterA = len(a.app.QuarantineKeeper.GetAllQuarantinedFunds(a.queryCtx()))
	o.RecordsAfterB = len(b.app.QuarantineKeeper.GetAllQuarantinedFunds(b.queryCtx()))
	o.ok = true
	return o, nil
}

// TestC18QuarProbe prints the outcome (development aid; not part of the check).
func TestC18QuarProbe(t *testing.T) {
	if os.Getenv("VERIF_C18_PROBE") == "" {
		t.Skip("development aid")
	}
	o, err := c18QuarantineMulti(t)
	fmt.Printf("outcome: %+v\nerr: %v\n", o, err)
}

// c18StoreDiffs compares the raw key/value content of every custom module's store on two chains
// and returns, per module, the differing entries ("-" only on a, "+" only on b).
func c18StoreDiffs(a, b *c18Net) map[string][]string {
	out := map[string][]string{}
	for _, m := range append(append([]string{}, c18Modules...), c18MarkerAccounts) {
		var sa, sb []string
		if m == c18MarkerAccounts {
			sa, sb = a.rawMarkerAccounts(), b.rawMarkerAccounts()
		} else {
			sa, sb = c18StoreScope(m, a.rawStore(m)), c18StoreScope(m, b.rawStore(m))
		}
		inA, inB := map[string]bool{}, map[string]bool{}
		for _, x := range sa {
			inA[x] = true
		}
		for _, x := range sb {
			inB[x] = true
		}
		var d []string
		for _, x := range sa {
			if !inB[x] {
				d = append(d, "-"+x)
			}
		}
		for _, x := range sb {
			if !inA[x] {
				d = append(d, "+"+x)
			}
		}
		if len(d) > 0 {
			out[m] = d
			if os.Getenv("VERIF_C18_DEBUG") != "" {
				fmt.Printf("STORE DIFF %s (%d entries vs %d):\n", m, len(sa), len(sb))
				for _, x := range d {
					if len(x) > 300 {
						x = x[:300] + "..."
					}
					fmt.Println("  " + x)
				}
			}
		}
	}
	return out
}

// c18StoreScope: the entries of a module store that the store comparison covers.  Everything,
// except in the attribute store the name->address lookup counters (0x03: the AttributeAccounts
// query comparison covers them; the known double-count finding lives there) and the expiration
// queue (0x04: an attribute re-added with another expiration leaves its old queue entry behind,
// which the sweep ignores since fix 9541faffb; import rebuilds the queue from the records).
func c18StoreScope(module string, entries []string) []string {
	if module != "attribute" {
		return entries
	}
	var out []string
	for _, e := range entries {
		if strings.HasPrefix(e, "03") || strings.HasPrefix(e, "04") {
			continue
		}
		out = append(out, e)
	}
	return out
}

// The fingerprint under which the finding is listed in known_findings.json (checks/props/C18.py
// returns the same string).
const c18QuarFingerprint = "C18: quarantine export drops accepted_from_addresses"

// c18QuarantineCase emits the scenario as one case.
func c18QuarantineCase(t *testing.T, w *CaseWriter) {
	o, err := c18QuarantineMulti(t)
	desc := map[string]any{"kind": "scenario", "scenario": "quarantine_multi_sender", "label": "quarantine-multi-sender",
		"driven": o.ok, "genesis_has_multi_sender_record": o.GenesisHasMulti, "partially_accepted_record_reached": o.PartialAccepted,
		"genesis_json_equal": o.GenesisJSONEq, "store_equal": o.StoreEq, "store_only_exporting": o.StoreOnlyA, "store_only_imported": o.StoreOnlyB,
		"filtered_query_equal": o.QueryFromEq, "receiver_balance_exporting": o.BalAfterA, "receiver_balance_imported": o.BalAfterB,
		"records_left_exporting": o.RecordsAfterA, "records_left_imported": o.RecordsAfterB}
	if err != nil {
		desc["error"] = err.Error()
	}
	obs := []string{
		fmt.Sprintf("(\"quarantine_multi_sender:scenario_driven\", %s)", coqBool(o.ok && o.GenesisHasMulti && o.PartialAccepted)),
		fmt.Sprintf("(\"quarantine_multi_sender:store_equal_after_import\", %s)", coqBool(!o.ok || o.StoreEq)),
		fmt.Sprintf("(\"quarantine_multi_sender:filtered_query_equal_after_import\", %s)", coqBool(!o.ok || o.QueryFromEq)),
		fmt.Sprintf("(\"quarantine_multi_sender:same_messages_same_funds_after_import\", %s)", coqBool(!o.ok || o.FundsEq)),
	}
	w.Add(fmt.Sprintf("CScenario \"quarantine-multi-sender\" %s", coqList(obs)), desc)
	w.Count("quarantine_multi_sender_scenario")
	w.Nontrivial("quarantine-multi-sender")
}
