//go:build c18

package harness

// C18 — state is deterministic, restart-safe and survives genesis export / import.
//
// A real chain (the real App, driven through InitChain / FinalizeBlock / Commit with signed
// transactions) runs seeded cross-module histories.  Then
//   (a) EXPORT / IMPORT: genesis is exported, a fresh App is initialised from it, the custom
//       modules' exported genesis and a set of module queries are compared before / after, the
//       export is repeated for a second generation, and the genesis of the modelled modules is
//       given to Coq (model import / export against the real one, plus perturbed genesis files);
//   (b) DETERMINISM (validation): the recorded blocks are replayed on a second App in this
//       process and on a third one in a separate process; app hash, tx results and events of
//       every block are compared;
//   (c) RESTART (validation): the blocks are replayed on a goleveldb-backed App that is closed
//       and re-opened at block boundaries.

import (
	"crypto/sha256"
	"encoding/base64"
	"encoding/hex"
	"encoding/json"
	"fmt"
	"math/rand"
	"os"
	"os/exec"
	"path/filepath"
	"sort"
	"strings"
	"testing"
	"time"

	abci "github.com/cometbft/cometbft/abci/types"
	cmtproto "github.com/cometbft/cometbft/proto/tendermint/types"
	dbm "github.com/cosmos/cosmos-db"

	"cosmossdk.io/log"
	sdkmath "cosmossdk.io/math"
	storetypes "cosmossdk.io/store/types"

	"github.com/cosmos/cosmos-sdk/baseapp"
	"github.com/cosmos/cosmos-sdk/client/flags"
	"github.com/cosmos/cosmos-sdk/client/tx"
	"github.com/cosmos/cosmos-sdk/crypto/keys/secp256k1"
	cryptotypes "github.com/cosmos/cosmos-sdk/crypto/types"
	"github.com/cosmos/cosmos-sdk/server"
	simtestutil "github.com/cosmos/cosmos-sdk/testutil/sims"
	sdk "github.com/cosmos/cosmos-sdk/types"
	"github.com/cosmos/cosmos-sdk/types/tx/signing"
	authsigning "github.com/cosmos/cosmos-sdk/x/auth/signing"
	authtypes "github.com/cosmos/cosmos-sdk/x/auth/types"
	banktypes "github.com/cosmos/cosmos-sdk/x/bank/types"
	govv1 "github.com/cosmos/cosmos-sdk/x/gov/types/v1"

	simapp "github.com/provenance-io/provenance/app"
	"github.com/provenance-io/provenance/internal/pioconfig"
	attrtypes "github.com/provenance-io/provenance/x/attribute/types"
	"github.com/provenance-io/provenance/x/exchange"
	markertypes "github.com/provenance-io/provenance/x/marker/types"
	mdtypes "github.com/provenance-io/provenance/x/metadata/types"
	msgfeestypes "github.com/provenance-io/provenance/x/msgfees/types"
	nametypes "github.com/provenance-io/provenance/x/name/types"
	"github.com/provenance-io/provenance/x/quarantine"
	"github.com/provenance-io/provenance/x/sanction"
	triggertypes "github.com/provenance-io/provenance/x/trigger/types"

	"github.com/google/uuid"
)

const (
	c18Chain  = "verif-c18"
	c18NAcc   = 18 // 0 market admin + genesis delegator (votes), 1 name owner, 2 marker admin, 3-6 traders, 7/9 quarantine, 8 sanctioned, 10-12 misc, 13 fee recipient, 14/15 life-cycle marker managers, 16/17 probers (ghost transactions only)
	c18Asset  = "applecoin"
	c18Price  = "pricecoin"
	c18Stake  = "stake"
	c18Root   = "verif"
	c18KycNam = "kyc.verif"
)

type c18Acct struct {
	priv cryptotypes.PrivKey
	addr sdk.AccAddress
}

func c18Accts() []c18Acct { return c18AcctsN(c18NAcc) }

func c18AcctsN(n int) []c18Acct {
	var out []c18Acct
	for i := 0; i < n; i++ {
		priv := secp256k1.GenPrivKeyFromSecret([]byte(fmt.Sprintf("verif-c18-key-%d", i)))
		out = append(out, c18Acct{priv: priv, addr: sdk.AccAddress(priv.PubKey().Address())})
	}
	return out
}

// c18Genesis is what a chain is started from (an exported application state).
type c18Genesis struct {
	AppState  []byte `json:"app_state"`
	ConsParam []byte `json:"cons_param"` // proto of cmtproto.ConsensusParams
	Height    int64  `json:"height"`
	TimeUnix  int64  `json:"time_unix"`
}

type c18Block struct {
	TimeUnix int64    `json:"time_unix"`
	Txs      [][]byte `json:"txs"`
}

type c18Script struct {
	Genesis c18Genesis `json:"genesis"`
	Blocks  []c18Block `json:"blocks"`
}

// c18Net is one application instance driven block by block.
type c18Net struct {
	t          *testing.T
	app        *simapp.App
	db         dbm.DB
	dbDir      string // non-empty: goleveldb under this directory (restartable)
	accts      []c18Acct
	height     int64
	now        time.Time
	pendingSeq map[int]uint64
	digests    []string
	txOK       int
	txFail     int
	failCodes  map[string]int
	side       *c18Side // non-nil: this is a PRIMARY node, it receives side traffic (c18_shadow_test.go)
}

func c18OpenApp(t *testing.T, db dbm.DB) *simapp.App {
	return simapp.New(log.NewNopLogger(), db, nil, true,
		simtestutil.AppOptionsMap{flags.FlagHome: t.TempDir(), server.FlagInvCheckPeriod: uint(0)},
		baseapp.SetChainID(c18Chain))
}

func c18SetConfig() { pioconfig.SetProvenanceConfig(c18Stake, 1) }

// c18Bootstrap builds the shared genesis: a chain is set up with funded accounts, the state that
// only governance can create (markets, root names, message fees, sanctions, sanction params) is
// written through the keepers, and the result is exported.
func c18Bootstrap(t *testing.T) c18Genesis { return c18BootstrapWith(t, nil) }

// c18BootstrapWith: extra (if not nil) writes further keeper-level state before the export.
func c18BootstrapWith(t *testing.T, extra func(app *simapp.App, ctx sdk.Context, accts []c18Acct) error) c18Genesis {
	return c18BootstrapN(t, c18NAcc, extra)
}

// c18BootstrapN: the same with nAcc funded accounts (the first c18NAcc keep their roles).
func c18BootstrapN(t *testing.T, nAcc int, extra func(app *simapp.App, ctx sdk.Context, accts []c18Acct) error) c18Genesis {
	c18SetConfig()
	accts := c18AcctsN(nAcc)
	var gen []authtypes.GenesisAccount
	var bals []banktypes.Balance
	for i, a := range accts {
		gen = append(gen, authtypes.NewBaseAccount(a.addr, a.priv.PubKey(), uint64(i), 0))
		bals = append(bals, banktypes.Balance{Address: a.addr.String(), Coins: sdk.NewCoins(
			sdk.NewInt64Coin(c18Stake, 1_000_000_000_000_000), sdk.NewInt64Coin(c18Asset, 1_000_000_000),
			sdk.NewInt64Coin(c18Price, 1_000_000_000), sdk.NewInt64Coin("feecoin", 1_000_000_000))})
	}
	app := simapp.SetupWithGenesisAccounts(t, c18Chain, gen, bals...)
	ctx := app.BaseApp.NewContextLegacy(false, cmtproto.Header{ChainID: c18Chain, Height: app.LastBlockHeight() + 1, Time: time.Unix(1_700_000_000, 0).UTC()})
	must := func(err error, what string) {
		if err != nil {
			t.Fatalf("bootstrap %s: %v", what, err)
		}
	}
	admin := accts[0].addr.String()
	for i := 0; i < 2; i++ {
		m := exchange.Market{
			MarketDetails:   exchange.MarketDetails{Name: fmt.Sprintf("c18-market-%d", i+1), Description: "verif"},
			AcceptingOrders: true, AllowUserSettlement: true, AcceptingCommitments: true,
			AccessGrants: []exchange.AccessGrant{{Address: admin, Permissions: exchange.AllPermissions()}},
		}
		if i == 0 {
			m.FeeCreateAskFlat = []sdk.Coin{sdk.NewInt64Coin("feecoin", 3)}
			m.FeeCreateBidFlat = []sdk.Coin{sdk.NewInt64Coin("feecoin", 4)}
			m.FeeSellerSettlementFlat = []sdk.Coin{sdk.NewInt64Coin(c18Price, 2)}
			m.FeeBuyerSettlementFlat = []sdk.Coin{sdk.NewInt64Coin(c18Price, 1)}
			m.FeeCreateCommitmentFlat = []sdk.Coin{sdk.NewInt64Coin("feecoin", 5)}
		}
		_, err := app.ExchangeKeeper.CreateMarket(ctx, m)
		must(err, "market")
	}
	must(app.NameKeeper.SetNameRecord(ctx, c18Root, accts[1].addr, false), "root name")
	must(app.NameKeeper.SetNameRecord(ctx, c18KycNam, accts[1].addr, true), "kyc name")
	must(app.MsgFeesKeeper.SetMsgFee(ctx, msgfeestypes.NewMsgFee(sdk.MsgTypeURL(&nametypes.MsgBindNameRequest{}), sdk.NewInt64Coin(c18Stake, 1000), accts[9].addr.String(), 2500)), "msgfee 1")
	must(app.MsgFeesKeeper.SetMsgFee(ctx, msgfeestypes.NewMsgFee(sdk.MsgTypeURL(&attrtypes.MsgAddAttributeRequest{}), sdk.NewInt64Coin(c18Stake, 500), "", 0)), "msgfee 2")
	must(app.MsgFeesKeeper.SetMsgFee(ctx, msgfeestypes.NewMsgFee(sdk.MsgTypeURL(&quarantine.MsgOptIn{}), sdk.NewInt64Coin(c18Stake, 700), accts[13].addr.String(), 5000)), "msgfee 3")
	must(app.MsgFeesKeeper.SetMsgFee(ctx, msgfeestypes.NewMsgFee(sdk.MsgTypeURL(&mdtypes.MsgP8EMemorializeContractRequest{}), sdk.NewInt64Coin("feecoin", 9), "", 0)), "msgfee 4")
	must(app.SanctionKeeper.SetParams(ctx, &sanction.Params{
		ImmediateSanctionMinDeposit:   sdk.NewCoins(sdk.NewInt64Coin(c18Stake, 1000)),
		ImmediateUnsanctionMinDeposit: sdk.NewCoins(sdk.NewInt64Coin(c18Stake, 1000))}), "sanction params")
	must(app.SanctionKeeper.SanctionAddresses(ctx, accts[8].addr), "sanction")
	must(c18GovBootstrap(app, ctx), "gov params")
	// two attributes of one name on one account from the start (the name->address lookup is a reference count)
	for _, v := range []string{"b1", "b2"} {
		must(app.AttributeKeeper.SetAttribute(ctx, attrtypes.NewAttribute(c18KycNam, accts[3].addr.String(), attrtypes.AttributeType_String, []byte(v), nil), accts[1].addr), "attribute "+v)
	}
	if extra != nil {
		must(extra(app, ctx, accts), "extra state")
	}
	ctx.MultiStore().(storetypes.CacheMultiStore).Write()
	if _, err := app.Commit(); err != nil {
		t.Fatalf("bootstrap commit: %v", err)
	}
	exp, err := app.ExportAppStateAndValidators(false, nil, nil)
	must(err, "export")
	cp, err := exp.ConsensusParams.Marshal()
	must(err, "cons params")
	return c18Genesis{AppState: exp.AppState, ConsParam: cp, Height: exp.Height, TimeUnix: 1_700_000_000}
}

// c18Start initialises a fresh application from a genesis (InitChain only: nothing is committed
// until the first block).  dbDir == "" uses a memory DB.
func c18Start(t *testing.T, g c18Genesis, dbDir string) (*c18Net, error) {
	c18SetConfig()
	n := &c18Net{t: t, accts: c18Accts(), dbDir: dbDir, pendingSeq: map[int]uint64{}, failCodes: map[string]int{}}
	if dbDir == "" {
		n.db = dbm.NewMemDB()
	} else {
		db, err := dbm.NewDB("application", dbm.GoLevelDBBackend, dbDir)
		if err != nil {
			return nil, err
		}
		n.db = db
	}
	var cp cmtproto.ConsensusParams
	if err := cp.Unmarshal(g.ConsParam); err != nil {
		return nil, err
	}
	n.now = time.Unix(g.TimeUnix, 0).UTC()
	n.height = g.Height - 1
	err := try(func() error {
		n.app = c18OpenApp(t, n.db)
		_, e := n.app.InitChain(&abci.RequestInitChain{ChainId: c18Chain, AppStateBytes: g.AppState, ConsensusParams: &cp,
			InitialHeight: g.Height, Validators: []abci.ValidatorUpdate{}, Time: n.now})
		return e
	})
	if err != nil {
		return nil, err
	}
	return n, nil
}

// reopen closes the application and opens it again on the same database directory.
func (n *c18Net) reopen() error {
	if n.dbDir == "" {
		return fmt.Errorf("memory db cannot be reopened")
	}
	if err := n.app.Close(); err != nil {
		return fmt.Errorf("close: %w", err)
	}
	_ = n.db.Close()
	db, err := dbm.NewDB("application", dbm.GoLevelDBBackend, n.dbDir)
	if err != nil {
		return err
	}
	n.db = db
	return try(func() error {
		n.app = c18OpenApp(n.t, db)
		if n.app.LastBlockHeight() != n.height {
			return fmt.Errorf("reopened at height %d, expected %d", n.app.LastBlockHeight(), n.height)
		}
		return nil
	})
}

func (n *c18Net) close() {
	if n.app != nil {
		_ = try(func() error { return n.app.Close() })
	}
	if n.dbDir != "" && n.db != nil {
		_ = try(func() error { return n.db.Close() })
	}
}

// finalCtx is the state the next block will start from (what was committed last, or the InitChain
// state before the first block).
func (n *c18Net) queryCtx() sdk.Context {
	if n.app.LastBlockHeight() == 0 || n.app.LastBlockHeight() < n.height {
		return n.app.BaseApp.NewContextLegacy(false, cmtproto.Header{ChainID: c18Chain, Height: n.height, Time: n.now})
	}
	return n.app.BaseApp.NewUncachedContext(false, cmtproto.Header{ChainID: c18Chain, Height: n.height, Time: n.now})
}

func (n *c18Net) signTx(gas uint64, extraFee sdk.Coins, signers []int, msgs ...sdk.Msg) ([]byte, error) {
	ctx := n.queryCtx()
	cfg := n.app.GetEncodingConfig().TxConfig
	b := cfg.NewTxBuilder()
	b.SetFeeAmount(sdk.NewCoins(sdk.NewInt64Coin(c18Stake, int64(gas))).Add(extraFee...))
	b.SetGasLimit(gas)
	if err := b.SetMsgs(msgs...); err != nil {
		return nil, err
	}
	mode := signing.SignMode(cfg.SignModeHandler().DefaultMode())
	nums := make([]uint64, len(signers))
	seqs := make([]uint64, len(signers))
	sigs := make([]signing.SignatureV2, len(signers))
	for i, s := range signers {
		acc := n.app.AccountKeeper.GetAccount(ctx, n.accts[s].addr)
		if acc == nil {
			return nil, fmt.Errorf("no account %d", s)
		}
		nums[i], seqs[i] = acc.GetAccountNumber(), acc.GetSequence()+n.pendingSeq[s]
		sigs[i] = signing.SignatureV2{PubKey: n.accts[s].priv.PubKey(), Data: &signing.SingleSignatureData{SignMode: mode}, Sequence: seqs[i]}
	}
	if err := b.SetSignatures(sigs...); err != nil {
		return nil, err
	}
	for i, s := range signers {
		sd := authsigning.SignerData{Address: n.accts[s].addr.String(), ChainID: c18Chain, AccountNumber: nums[i], Sequence: seqs[i], PubKey: n.accts[s].priv.PubKey()}
		sig, err := tx.SignWithPrivKey(ctx, mode, sd, b, n.accts[s].priv, cfg, seqs[i])
		if err != nil {
			return nil, err
		}
		sigs[i] = sig
	}
	if err := b.SetSignatures(sigs...); err != nil {
		return nil, err
	}
	bz, err := cfg.TxEncoder()(b.GetTx())
	if err == nil {
		for _, s := range signers {
			n.pendingSeq[s]++
		}
	}
	return bz, err
}

func c18EventsDigest(h interface{ Write([]byte) (int, error) }, evs []abci.Event) {
	for _, e := range evs {
		fmt.Fprintf(h, "E%s{", e.Type)
		for _, a := range e.Attributes {
			fmt.Fprintf(h, "%q=%q;", a.Key, a.Value)
		}
		fmt.Fprint(h, "}")
	}
}

// block runs one block with the given transactions, commits, and records the block's digest
// "apphash|results|events".
func (n *c18Net) block(at time.Time, txs [][]byte) (*abci.ResponseFinalizeBlock, error) {
	n.traffic("pre", txs)
	n.height++
	n.now = at
	var res *abci.ResponseFinalizeBlock
	err := try(func() error {
		var e error
		res, e = n.app.FinalizeBlock(&abci.RequestFinalizeBlock{Height: n.height, Time: at, Txs: txs})
		return e
	})
	if err != nil {
		return nil, fmt.Errorf("FinalizeBlock(%d): %w", n.height, err)
	}
	n.traffic("mid", txs)
	if _, err := n.app.Commit(); err != nil {
		return nil, fmt.Errorf("Commit(%d): %w", n.height, err)
	}
	n.pendingSeq = map[int]uint64{}
	hr, he := sha256.New(), sha256.New()
	c18EventsDigest(he, res.Events)
	for _, r := range res.TxResults {
		fmt.Fprintf(hr, "T%d|%s|%d|%d|%x|%q;", r.Code, r.Codespace, r.GasWanted, r.GasUsed, r.Data, r.Log)
		fmt.Fprint(he, "|tx|")
		c18EventsDigest(he, r.Events)
		if r.Code == 0 {
			n.txOK++
		} else {
			n.txFail++
			n.failCodes[fmt.Sprintf("%s/%d", r.Codespace, r.Code)]++
		}
	}
	n.digests = append(n.digests, fmt.Sprintf("%d:%s|%s|%s", n.height, hex.EncodeToString(res.AppHash)[:16],
		hex.EncodeToString(hr.Sum(nil))[:12], hex.EncodeToString(he.Sum(nil))[:12]))
	return res, nil
}

func (n *c18Net) export() (c18Genesis, error) {
	var out c18Genesis
	err := try(func() error {
		exp, e := n.app.ExportAppStateAndValidators(false, nil, nil)
		if e != nil {
			return e
		}
		cp, e := exp.ConsensusParams.Marshal()
		if e != nil {
			return e
		}
		out = c18Genesis{AppState: exp.AppState, ConsParam: cp, Height: exp.Height, TimeUnix: n.now.Unix()}
		return nil
	})
	return out, err
}

// ---------- replay of a recorded script ----------

// c18Replay runs the script on a fresh application; restartP > 0 (with a goleveldb directory)
// closes and re-opens the application after a block with that probability (decided by r).
func c18Replay(t *testing.T, sc c18Script, dbDir string, r *rand.Rand, restartP float64) ([]string, int, error) {
	n, err := c18Start(t, sc.Genesis, dbDir)
	if err != nil {
		return nil, 0, err
	}
	defer n.close()
	restarts := 0
	for i, b := range sc.Blocks {
		if _, err := n.block(time.Unix(b.TimeUnix, 0).UTC(), b.Txs); err != nil {
			return n.digests, restarts, err
		}
		if restartP > 0 && i+1 < len(sc.Blocks) && r.Float64() < restartP {
			if err := n.reopen(); err != nil {
				return n.digests, restarts, fmt.Errorf("reopen after block %d: %w", n.height, err)
			}
			restarts++
		}
	}
	return n.digests, restarts, nil
}

// TestC18Replay is the entry point of the separate replay process (run by TestC18 through
// os/exec on this same test binary); it does nothing unless C18_SCRIPT is set.
func TestC18Replay(t *testing.T) {
	p := os.Getenv("C18_SCRIPT")
	if p == "" {
		t.Skip("helper of TestC18")
	}
	bz, err := os.ReadFile(p)
	if err != nil {
		t.Fatal(err)
	}
	var sc c18Script
	if err := json.Unmarshal(bz, &sc); err != nil {
		t.Fatal(err)
	}
	dig, _, err := c18Replay(t, sc, "", nil, 0)
	out := map[string]any{"digests": dig}
	if err != nil {
		out["error"] = err.Error()
	}
	ob, _ := json.Marshal(out)
	if err := os.WriteFile(os.Getenv("C18_OUT"), ob, 0o644); err != nil {
		t.Fatal(err)
	}
}

func c18ReplayInProcess(t *testing.T, sc c18Script, dir string) ([]string, error) {
	sp, op := filepath.Join(dir, "script.json"), filepath.Join(dir, "out.json")
	bz, _ := json.Marshal(sc)
	if err := os.WriteFile(sp, bz, 0o644); err != nil {
		return nil, err
	}
	cmd := exec.Command(os.Args[0], "-test.run", "^TestC18Replay$", "-test.timeout", "0")
	cmd.Env = append(os.Environ(), "C18_SCRIPT="+sp, "C18_OUT="+op)
	if outb, err := cmd.CombinedOutput(); err != nil {
		return nil, fmt.Errorf("replay process: %v: %s", err, string(outb[max(0, len(outb)-600):]))
	}
	ob, err := os.ReadFile(op)
	if err != nil {
		return nil, err
	}
	var out struct {
		Digests []string `json:"digests"`
		Error   string   `json:"error"`
	}
	if err := json.Unmarshal(ob, &out); err != nil {
		return nil, err
	}
	if out.Error != "" {
		return out.Digests, fmt.Errorf("%s", out.Error)
	}
	return out.Digests, nil
}

// ---------- history generator ----------

type c18Gen struct {
	t       *testing.T
	r       *rand.Rand
	n       *c18Net
	w       *CaseWriter
	nameSeq int
	markers []string
	mdReady bool
	cspecID uuid.UUID
	sspecID uuid.UUID
	recName string
	scopes  []uuid.UUID
	sess    map[uuid.UUID]uuid.UUID
	extSeq  int
	kinds   map[string]int
	propSeq int
	tmpMark string // a short-lived marker (created with a net asset value, later cancelled and deleted)
	tmpSeq  int
	// life-cycle markers (c18_lifecycle_test.go)
	lcs     []*c18LC
	lcSeq   int
	lcShift int
	lcBusy  map[string]bool // markers that already have a life-cycle transaction in the block being built
	// ghost transactions (c18_shadow_test.go)
	ghost    bool           // plan() is asked for a transaction that will never be included
	ghostSeq map[int]uint64 // ghost transactions accepted by CheckTx since the last commit, per signer
	nested   int
	// paramsMode: a history dense in governance parameter changes and in transactions that depend on them
	paramsMode bool
}

type c18Tx struct {
	kind    string
	gas     uint64
	extra   sdk.Coins
	signers []int
	msgs    []sdk.Msg
	strict  bool     // never share a block with another transaction of the same signers
	lc      *c18LCOp // life-cycle operation carried by this transaction
	ref     *c18LC   // the life-cycle marker this transaction makes another module refer to
}

func (g *c18Gen) uuid() uuid.UUID {
	var b [16]byte
	g.r.Read(b[:])
	b[6] = (b[6] & 0x0f) | 0x40
	b[8] = (b[8] & 0x3f) | 0x80
	return uuid.UUID(b)
}

func (g *c18Gen) addr(i int) sdk.AccAddress { return g.n.accts[i].addr }
func (g *c18Gen) astr(i int) string         { return g.n.accts[i].addr.String() }
func (g *c18Gen) pick(xs ...int) int        { return xs[g.r.Intn(len(xs))] }

func (g *c18Gen) openOrders() (asks, bids []*exchange.Order) {
	_ = g.n.app.ExchangeKeeper.IterateOrders(g.n.queryCtx(), func(o *exchange.Order) bool {
		if o.IsAskOrder() {
			asks = append(asks, o)
		} else {
			bids = append(bids, o)
		}
		return false
	})
	return
}

func (g *c18Gen) acctIndex(a string) int {
	for i := range g.n.accts {
		if g.n.accts[i].addr.String() == a {
			return i
		}
	}
	return -1
}

// plan proposes one transaction (mostly valid against the current state).
func (g *c18Gen) plan() *c18Tx {
	r := g.r
	ctx := g.n.queryCtx()
	app := g.n.app
	feecoin := func(n int64) *sdk.Coin { c := sdk.NewInt64Coin("feecoin", n); return &c }
	if g.paramsMode && g.nested == 0 {
		switch c := r.Intn(100); {
		case c < 14:
			return g.govParams()
		case c < 50:
			if p := g.dependent(); p != nil {
				return p
			}
		}
	}
	switch k := r.Intn(150); {
	case k >= 138: // a planned transaction whose LAST message fails (rolled-back branch)
		g.nested++
		defer func() { g.nested-- }()
		if g.nested > 2 {
			return nil
		}
		p := g.plan()
		if p == nil || (p.lc != nil && p.lc.kind != "add") || strings.HasPrefix(p.kind, "bad-") || strings.HasPrefix(p.kind, "rolled-back") || strings.HasPrefix(p.kind, "gov-") {
			return p
		}
		return g.rolledBack(p)
	case k >= 130: // governance: parameter change
		return g.govParams()
	case k >= 112: // life-cycle markers
		return g.lcPlan()
	case k >= 100: // deliberately invalid transactions (their results and events must be deterministic too)
		switch r.Intn(6) {
		case 0:
			return &c18Tx{kind: "bad-overspend", signers: []int{3}, msgs: []sdk.Msg{banktypes.NewMsgSend(g.addr(3), g.addr(4), sdk.NewCoins(sdk.NewInt64Coin(c18Asset, 2_000_000_000)))}}
		case 1:
			rec := nametypes.NewNameRecord(fmt.Sprintf("x%d", r.Intn(1000)), g.addr(3), false)
			return &c18Tx{kind: "bad-name-not-owner", extra: sdk.NewCoins(sdk.NewInt64Coin(c18Stake, 1000)), signers: []int{3}, msgs: []sdk.Msg{nametypes.NewMsgBindNameRequest(rec, nametypes.NewNameRecord(c18Root, g.addr(3), false))}}
		case 2:
			return &c18Tx{kind: "bad-attr-not-owner", extra: sdk.NewCoins(sdk.NewInt64Coin(c18Stake, 500)), signers: []int{4}, msgs: []sdk.Msg{attrtypes.NewMsgAddAttributeRequest(g.astr(5), g.addr(4), c18KycNam, attrtypes.AttributeType_String, []byte("zz"))}}
		case 3:
			return &c18Tx{kind: "bad-sanctioned-sender", signers: []int{8}, msgs: []sdk.Msg{banktypes.NewMsgSend(g.addr(8), g.addr(4), sdk.NewCoins(sdk.NewInt64Coin(c18Price, 1)))}}
		case 4:
			return &c18Tx{kind: "bad-cancel-foreign-order", signers: []int{9}, msgs: []sdk.Msg{&exchange.MsgCancelOrderRequest{Signer: g.astr(9), OrderId: uint64(1 + r.Intn(5))}}}
		default:
			return &c18Tx{kind: "bad-out-of-gas", gas: 60_000, signers: []int{3}, msgs: []sdk.Msg{&exchange.MsgCommitFundsRequest{Account: g.astr(3), MarketId: 2, Amount: sdk.NewCoins(sdk.NewInt64Coin(c18Price, 5))}}}
		}
	case k < 12: // ask
		s := g.pick(3, 4)
		m := uint32(1 + r.Intn(2))
		a := int64(5 + r.Intn(16))
		o := exchange.AskOrder{MarketId: m, Seller: g.astr(s), Assets: sdk.NewInt64Coin(c18Asset, a), Price: sdk.NewInt64Coin(c18Price, a*10), AllowPartial: r.Intn(3) > 0}
		msg := &exchange.MsgCreateAskRequest{AskOrder: o}
		if m == 1 {
			msg.OrderCreationFee = feecoin(3)
			fl := sdk.NewInt64Coin(c18Price, a)
			msg.AskOrder.SellerSettlementFlatFee = &fl
		}
		if r.Intn(4) == 0 {
			g.extSeq++
			msg.AskOrder.ExternalId = fmt.Sprintf("ask-%d", g.extSeq)
		}
		return &c18Tx{kind: "ask", signers: []int{s}, msgs: []sdk.Msg{msg}}
	case k < 24: // bid
		b := g.pick(5, 6)
		m := uint32(1 + r.Intn(2))
		a := int64(5 + r.Intn(16))
		o := exchange.BidOrder{MarketId: m, Buyer: g.astr(b), Assets: sdk.NewInt64Coin(c18Asset, a), Price: sdk.NewInt64Coin(c18Price, a*int64(10+r.Intn(3))), AllowPartial: r.Intn(3) > 0}
		msg := &exchange.MsgCreateBidRequest{BidOrder: o}
		if m == 1 {
			msg.OrderCreationFee = feecoin(4)
			msg.BidOrder.BuyerSettlementFees = sdk.NewCoins(sdk.NewInt64Coin(c18Price, a))
		}
		return &c18Tx{kind: "bid", signers: []int{b}, msgs: []sdk.Msg{msg}}
	case k < 32: // settle one ask against one bid (possibly partially filling the larger one)
		asks, bids := g.openOrders()
		r.Shuffle(len(asks), func(i, j int) { asks[i], asks[j] = asks[j], asks[i] })
		for _, a := range asks {
			for _, b := range bids {
				if a.GetMarketID() != b.GetMarketID() {
					continue
				}
				aa, ba := a.GetAssets().Amount, b.GetAssets().Amount
				if !aa.Equal(ba) {
					larger := a
					if ba.GT(aa) {
						larger = b
					}
					if !larger.PartialFillAllowed() {
						continue
					}
				}
				return &c18Tx{kind: "settle", signers: []int{0}, msgs: []sdk.Msg{&exchange.MsgMarketSettleRequest{
					Admin: g.astr(0), MarketId: a.GetMarketID(), AskOrderIds: []uint64{a.OrderId}, BidOrderIds: []uint64{b.OrderId}, ExpectPartial: !aa.Equal(ba)}}}
			}
		}
		return nil
	case k < 35: // cancel an order
		asks, bids := g.openOrders()
		all := append(asks, bids...)
		if len(all) == 0 {
			return nil
		}
		o := all[r.Intn(len(all))]
		s := g.acctIndex(o.GetOwner())
		if s < 0 {
			return nil
		}
		return &c18Tx{kind: "cancel-order", signers: []int{s}, msgs: []sdk.Msg{&exchange.MsgCancelOrderRequest{Signer: o.GetOwner(), OrderId: o.OrderId}}}
	case k < 40: // commit funds
		s := g.pick(3, 4, 5, 6)
		m := uint32(1 + r.Intn(2))
		msg := &exchange.MsgCommitFundsRequest{Account: g.astr(s), MarketId: m, Amount: sdk.NewCoins(sdk.NewInt64Coin(c18Price, int64(10+r.Intn(90)))), EventTag: "c18"}
		if m == 1 {
			msg.CreationFee = feecoin(5)
		}
		return &c18Tx{kind: "commit", signers: []int{s}, msgs: []sdk.Msg{msg}}
	case k < 46: // payments
		var pays []*exchange.Payment
		app.ExchangeKeeper.IteratePayments(ctx, func(p *exchange.Payment) bool { pays = append(pays, p); return false })
		if len(pays) > 0 && r.Intn(2) == 0 {
			p := pays[r.Intn(len(pays))]
			switch r.Intn(3) {
			case 0:
				if t := g.acctIndex(p.Target); t >= 0 {
					return &c18Tx{kind: "pay-accept", extra: sdk.NewCoins(sdk.NewInt64Coin(c18Stake, 8_000_000_000)), signers: []int{t}, msgs: []sdk.Msg{&exchange.MsgAcceptPaymentRequest{Payment: *p}}}
				}
			case 1:
				if t := g.acctIndex(p.Target); t >= 0 {
					return &c18Tx{kind: "pay-reject", signers: []int{t}, msgs: []sdk.Msg{&exchange.MsgRejectPaymentRequest{Target: p.Target, Source: p.Source, ExternalId: p.ExternalId}}}
				}
			default:
				if s := g.acctIndex(p.Source); s >= 0 {
					return &c18Tx{kind: "pay-cancel", signers: []int{s}, msgs: []sdk.Msg{&exchange.MsgCancelPaymentsRequest{Source: p.Source, ExternalIds: []string{p.ExternalId}}}}
				}
			}
			return nil
		}
		s, tg := g.pick(3, 4), g.pick(5, 6)
		g.extSeq++
		p := exchange.Payment{Source: g.astr(s), SourceAmount: sdk.NewCoins(sdk.NewInt64Coin(c18Asset, int64(1+r.Intn(9)))),
			Target: g.astr(tg), TargetAmount: sdk.NewCoins(sdk.NewInt64Coin(c18Price, int64(1+r.Intn(50)))), ExternalId: fmt.Sprintf("pay-%d", g.extSeq)}
		if r.Intn(5) == 0 {
			p.ExternalId = ""
		}
		return &c18Tx{kind: "pay-create", extra: sdk.NewCoins(sdk.NewInt64Coin(c18Stake, 10_000_000_000)), signers: []int{s}, msgs: []sdk.Msg{&exchange.MsgCreatePaymentRequest{Payment: p}}}
	case k < 54: // marker
		if len(g.markers) < 2 && r.Intn(2) == 0 {
			return g.rcoinAddTx()
		}
		if len(g.markers) == 0 {
			return nil
		}
		den := g.markers[r.Intn(len(g.markers))]
		switch r.Intn(6) {
		case 5: // a short-lived marker: RemoveMarker must take its net asset values and deny entries along
			if g.tmpMark == "" {
				g.tmpSeq++
				g.tmpMark = fmt.Sprintf("tcoin%d", g.tmpSeq)
				acc := []markertypes.Access{markertypes.Access_Mint, markertypes.Access_Burn, markertypes.Access_Deposit, markertypes.Access_Admin, markertypes.Access_Delete, markertypes.Access_Transfer}
				msg := markertypes.NewMsgAddFinalizeActivateMarkerRequest(g.tmpMark, sdkmath.NewInt(500), g.addr(2), g.addr(2), markertypes.MarkerType_RestrictedCoin, false, true, false, nil,
					[]markertypes.AccessGrant{{Address: g.astr(2), Permissions: acc}}, uint64(100+r.Intn(900)), 500)
				deny := markertypes.NewMsgUpdateSendDenyListRequest(g.tmpMark, g.addr(2), nil, []string{g.astr(g.pick(10, 11, 12))})
				return &c18Tx{kind: "marker-temp-add", gas: 900_000, signers: []int{2}, msgs: []sdk.Msg{msg, deny}}
			}
			d := g.tmpMark
			g.tmpMark = ""
			return &c18Tx{kind: "marker-temp-delete", gas: 900_000, signers: []int{2}, msgs: []sdk.Msg{markertypes.NewMsgCancelRequest(d, g.addr(2)), markertypes.NewMsgDeleteRequest(d, g.addr(2))}}
		case 0:
			return &c18Tx{kind: "marker-mint", signers: []int{2}, msgs: []sdk.Msg{markertypes.NewMsgMintRequest(g.addr(2), sdk.NewInt64Coin(den, int64(1+r.Intn(50))))}}
		case 1:
			to := g.pick(3, 5, 9)
			return &c18Tx{kind: "marker-withdraw", signers: []int{2}, msgs: []sdk.Msg{markertypes.NewMsgWithdrawRequest(g.addr(2), g.addr(to), den, sdk.NewCoins(sdk.NewInt64Coin(den, int64(1+r.Intn(20)))))}}
		case 2:
			add := []string{g.astr(g.pick(10, 11, 12))}
			return &c18Tx{kind: "marker-deny", signers: []int{2}, msgs: []sdk.Msg{markertypes.NewMsgUpdateSendDenyListRequest(g.markers[0], g.addr(2), nil, add)}}
		case 3:
			nav := markertypes.NetAssetValue{Price: sdk.NewInt64Coin(g.pick2("usd", g.markers[0]), int64(1+r.Intn(5000))), Volume: uint64(1 + r.Intn(100))}
			return &c18Tx{kind: "marker-nav", signers: []int{2}, msgs: []sdk.Msg{markertypes.NewMsgAddNetAssetValuesRequest(den, g.astr(2), []markertypes.NetAssetValue{nav})}}
		default:
			from, to := g.pick(3, 5, 9), g.pick(3, 5, 9)
			return &c18Tx{kind: "marker-send", signers: []int{from}, msgs: []sdk.Msg{banktypes.NewMsgSend(g.addr(from), g.addr(to), sdk.NewCoins(sdk.NewInt64Coin(den, int64(1+r.Intn(3)))))}}
		}
	case k < 64: // metadata
		o := 12
		if !g.mdReady {
			return g.mdSpecsTx()
		}
		party := []mdtypes.Party{{Address: g.astr(o), Role: mdtypes.PartyType_PARTY_TYPE_OWNER}}
		switch c := r.Intn(7); {
		case c == 6 && len(g.scopes) > 2: // delete a scope (its sessions, records, net asset values and index entries go with it)
			i := r.Intn(len(g.scopes))
			id := g.scopes[i]
			cur, found := app.MetadataKeeper.GetScopeWithValueOwner(ctx, mdtypes.ScopeMetadataAddress(id))
			if !found {
				return nil
			}
			signers, names := []int{o}, []string{g.astr(o)}
			if vo := g.acctIndex(cur.ValueOwnerAddress); vo >= 0 && vo != o {
				signers, names = append(signers, vo), append(names, g.astr(vo))
			}
			g.scopes = append(append([]uuid.UUID{}, g.scopes[:i]...), g.scopes[i+1:]...)
			return &c18Tx{kind: "md-scope-delete", gas: 1_500_000, signers: signers, msgs: []sdk.Msg{mdtypes.NewMsgDeleteScopeRequest(mdtypes.ScopeMetadataAddress(id), names)}}
		case c < 2 || len(g.scopes) == 0:
			return g.mdScopeTx(g.astr(9))
		case c == 2:
			id := g.scopes[r.Intn(len(g.scopes))]
			sid := g.uuid()
			if g.sess == nil {
				g.sess = map[uuid.UUID]uuid.UUID{}
			}
			g.sess[id] = sid
			se := mdtypes.Session{SessionId: mdtypes.SessionMetadataAddress(id, sid), SpecificationId: mdtypes.ContractSpecMetadataAddress(g.cspecID), Parties: party, Name: "sess"}
			rec := mdtypes.Record{Name: g.recName, SessionId: se.SessionId, SpecificationId: mdtypes.RecordSpecMetadataAddress(g.cspecID, g.recName),
				Process: mdtypes.Process{ProcessId: &mdtypes.Process_Hash{Hash: "prochash"}, Name: "proc", Method: "run"},
				Inputs:  []mdtypes.RecordInput{{Name: "in1", Source: &mdtypes.RecordInput_Hash{Hash: "inhash"}, TypeName: "typ", Status: mdtypes.RecordInputStatus_Proposed}},
				Outputs: []mdtypes.RecordOutput{{Hash: fmt.Sprintf("out%d", r.Intn(1000)), Status: mdtypes.ResultStatus_RESULT_STATUS_PASS}}}
			return &c18Tx{kind: "md-session-record", gas: 1_500_000, signers: []int{o}, msgs: []sdk.Msg{
				mdtypes.NewMsgWriteSessionRequest(se, []string{g.astr(o)}),
				mdtypes.NewMsgWriteRecordRequest(rec, nil, "", []string{g.astr(o)}, nil)}}
		case c == 3:
			id := g.scopes[r.Intn(len(g.scopes))]
			nav := mdtypes.NetAssetValue{Price: sdk.NewInt64Coin("usd", int64(1+r.Intn(9000))), Volume: 1}
			return &c18Tx{kind: "md-nav", signers: []int{o}, msgs: []sdk.Msg{&mdtypes.MsgAddNetAssetValuesRequest{ScopeId: mdtypes.ScopeMetadataAddress(id).String(), Signers: []string{g.astr(o)}, NetAssetValues: []mdtypes.NetAssetValue{nav}}}}
		case c == 4:
			loc := mdtypes.ObjectStoreLocator{Owner: g.astr(o), LocatorUri: fmt.Sprintf("http://verif.example/%d", r.Intn(5)), EncryptionKey: g.astr(9)}
			return &c18Tx{kind: "md-oslocator", signers: []int{o}, msgs: []sdk.Msg{mdtypes.NewMsgBindOSLocatorRequest(loc)}}
		default:
			id := g.scopes[r.Intn(len(g.scopes))]
			cur, found := app.MetadataKeeper.GetScopeWithValueOwner(ctx, mdtypes.ScopeMetadataAddress(id))
			if !found {
				return nil
			}
			vo := g.acctIndex(cur.ValueOwnerAddress)
			if vo < 0 {
				return nil
			}
			return &c18Tx{kind: "md-value-owner", gas: 1_000_000, signers: []int{vo}, msgs: []sdk.Msg{
				mdtypes.NewMsgUpdateValueOwnersRequest([]mdtypes.MetadataAddress{mdtypes.ScopeMetadataAddress(id)}, g.addr(g.pick(12, 9)), []string{g.astr(vo)})}}
		}
	case k < 70: // names
		if r.Intn(4) == 0 {
			var mine []nametypes.NameRecord
			_ = app.NameKeeper.IterateRecords(ctx, nametypes.NameKeyPrefix, func(rec nametypes.NameRecord) error {
				if strings.HasPrefix(rec.Name, "n") && strings.HasSuffix(rec.Name, "."+c18Root) {
					mine = append(mine, rec)
				}
				return nil
			})
			if len(mine) > 0 {
				rec := mine[r.Intn(len(mine))]
				if s := g.acctIndex(rec.Address); s >= 0 {
					return &c18Tx{kind: "name-delete", signers: []int{s}, msgs: []sdk.Msg{nametypes.NewMsgDeleteNameRequest(rec)}}
				}
			}
			return nil
		}
		g.nameSeq++
		if r.Intn(3) == 0 {
			// one tx, two fee'd messages with different fee recipients and two signers
			rec := nametypes.NewNameRecord(fmt.Sprintf("n%d", g.nameSeq), g.addr(9), false)
			who := g.pick(7, 9)
			return &c18Tx{kind: "multi-fee", gas: 900_000, extra: sdk.NewCoins(sdk.NewInt64Coin(c18Stake, 1700)), signers: []int{1, who},
				msgs: []sdk.Msg{nametypes.NewMsgBindNameRequest(rec, nametypes.NewNameRecord(c18Root, g.addr(1), false)), quarantine.NewMsgOptIn(g.addr(who))}}
		}
		owner := g.pick(1, 3, 9)
		rec := nametypes.NewNameRecord(fmt.Sprintf("n%d", g.nameSeq), g.addr(owner), r.Intn(2) == 0)
		parent := nametypes.NewNameRecord(c18Root, g.addr(1), false)
		signers := []int{1}
		return &c18Tx{kind: "name-bind", extra: sdk.NewCoins(sdk.NewInt64Coin(c18Stake, 1000)), signers: signers, msgs: []sdk.Msg{nametypes.NewMsgBindNameRequest(rec, parent)}}
	case k < 80: // attributes
		target := g.pick(3, 5, 9, 10)
		if r.Intn(4) == 0 {
			attrs, _ := app.AttributeKeeper.GetAttributes(ctx, g.astr(target), c18KycNam)
			if len(attrs) > 0 {
				a := attrs[r.Intn(len(attrs))]
				if r.Intn(2) == 0 {
					return &c18Tx{kind: "attr-delete", signers: []int{1}, msgs: []sdk.Msg{attrtypes.NewMsgDeleteDistinctAttributeRequest(g.astr(target), g.addr(1), c18KycNam, a.Value)}}
				}
				exp := g.n.now.Add(time.Duration(20+r.Intn(400)) * time.Second)
				return &c18Tx{kind: "attr-expiry", signers: []int{1}, msgs: []sdk.Msg{attrtypes.NewMsgUpdateAttributeExpirationRequest(g.astr(target), c18KycNam, string(a.Value), &exp, g.addr(1))}}
			}
			return nil
		}
		msg := attrtypes.NewMsgAddAttributeRequest(g.astr(target), g.addr(1), c18KycNam, attrtypes.AttributeType_String, []byte(fmt.Sprintf("v%d", r.Intn(6))))
		if r.Intn(2) == 0 {
			exp := g.n.now.Add(time.Duration(10+r.Intn(300)) * time.Second)
			msg.ExpirationDate = &exp
		}
		return &c18Tx{kind: "attr-add", extra: sdk.NewCoins(sdk.NewInt64Coin(c18Stake, 600)), signers: []int{1}, msgs: []sdk.Msg{msg}}
	case k < 90: // quarantine
		switch c := r.Intn(10); {
		case c < 2:
			who := g.pick(7, 9)
			return &c18Tx{kind: "q-optin", extra: sdk.NewCoins(sdk.NewInt64Coin(c18Stake, 700)), signers: []int{who}, msgs: []sdk.Msg{quarantine.NewMsgOptIn(g.addr(who))}}
		case c < 4:
			who := g.pick(7, 9)
			resp := []quarantine.AutoResponse{quarantine.AUTO_RESPONSE_ACCEPT, quarantine.AUTO_RESPONSE_DECLINE, quarantine.AUTO_RESPONSE_UNSPECIFIED}[r.Intn(3)]
			up := []*quarantine.AutoResponseUpdate{{FromAddress: g.astr(g.pick(3, 4, 5)), Response: resp}}
			return &c18Tx{kind: "q-auto", signers: []int{who}, msgs: []sdk.Msg{quarantine.NewMsgUpdateAutoResponses(g.addr(who), up)}}
		case c < 8:
			from, to := g.pick(3, 4, 5, 6), g.pick(7, 9)
			return &c18Tx{kind: "q-send", signers: []int{from}, msgs: []sdk.Msg{banktypes.NewMsgSend(g.addr(from), g.addr(to), sdk.NewCoins(sdk.NewInt64Coin(g.pick2(c18Asset, c18Price), int64(1+r.Intn(30)))))}}
		case c < 9:
			who := g.pick(7, 9)
			return &c18Tx{kind: "q-accept", signers: []int{who}, msgs: []sdk.Msg{quarantine.NewMsgAccept(g.addr(who), []string{g.astr(g.pick(3, 4, 5, 6))}, false)}}
		default:
			who := g.pick(7, 9)
			return &c18Tx{kind: "q-decline", signers: []int{who}, msgs: []sdk.Msg{quarantine.NewMsgDecline(g.addr(who), []string{g.astr(g.pick(3, 4, 5, 6))}, false)}}
		}
	case k < 94: // governance sanction / unsanction proposals with an immediate (temporary) effect
		govAddr := authtypes.NewModuleAddress("gov").String()
		var m sdk.Msg
		if r.Intn(3) == 0 {
			m = &sanction.MsgUnsanction{Addresses: []string{g.astr(8)}, Authority: govAddr}
		} else {
			m = &sanction.MsgSanction{Addresses: []string{g.astr(g.pick(10, 11))}, Authority: govAddr}
		}
		g.propSeq++
		msg, err := govv1.NewMsgSubmitProposal([]sdk.Msg{m}, sdk.NewCoins(sdk.NewInt64Coin(c18Stake, 200_000)), g.astr(9), "", fmt.Sprintf("c18 proposal %d", g.propSeq), "verif", false)
		if err != nil {
			return nil
		}
		return &c18Tx{kind: "gov-sanction", gas: 1_000_000, signers: []int{9}, msgs: []sdk.Msg{msg}}
	default: // triggers
		if r.Intn(5) == 0 {
			trs, _ := app.TriggerKeeper.GetAllTriggers(ctx)
			if len(trs) > 0 {
				tr := trs[r.Intn(len(trs))]
				if s := g.acctIndex(tr.Owner); s >= 0 {
					return &c18Tx{kind: "trigger-destroy", signers: []int{s}, msgs: []sdk.Msg{&triggertypes.MsgDestroyTriggerRequest{Id: tr.Id, Authority: tr.Owner}}}
				}
			}
			return nil
		}
		o := g.pick(3, 4, 5, 6)
		var ev triggertypes.TriggerEventI
		switch r.Intn(3) {
		case 0:
			ev = &triggertypes.BlockHeightEvent{BlockHeight: uint64(g.n.height + 2 + int64(r.Intn(4)))}
		case 1:
			ev = &triggertypes.BlockTimeEvent{Time: g.n.now.Add(time.Duration(5+r.Intn(60)) * time.Second)}
		default:
			ev = &triggertypes.BlockHeightEvent{BlockHeight: uint64(g.n.height + 1000)}
		}
		msg, err := triggertypes.NewCreateTriggerRequest([]string{g.astr(o)}, ev, []sdk.Msg{banktypes.NewMsgSend(g.addr(o), g.addr(13), sdk.NewCoins(sdk.NewInt64Coin(c18Price, int64(1+r.Intn(5)))))})
		if err != nil {
			return nil
		}
		return &c18Tx{kind: "trigger-create", gas: uint64(800_000 + r.Intn(900_000)), signers: []int{o}, msgs: []sdk.Msg{msg}}
	}
}

// mdSpecsTx: the contract / scope / record specifications every scope of the history uses
func (g *c18Gen) mdSpecsTx() *c18Tx {
	o := 12
	g.cspecID, g.sspecID, g.recName = g.uuid(), g.uuid(), "recname"
	cs := mdtypes.ContractSpecification{SpecificationId: mdtypes.ContractSpecMetadataAddress(g.cspecID), OwnerAddresses: []string{g.astr(o)},
		PartiesInvolved: []mdtypes.PartyType{mdtypes.PartyType_PARTY_TYPE_OWNER}, Source: mdtypes.NewContractSpecificationSourceHash("srchash"), ClassName: "cls",
		Description: &mdtypes.Description{Name: "c18 cspec", Description: "verif"}}
	ss := mdtypes.ScopeSpecification{SpecificationId: mdtypes.ScopeSpecMetadataAddress(g.sspecID), OwnerAddresses: []string{g.astr(o)},
		PartiesInvolved: []mdtypes.PartyType{mdtypes.PartyType_PARTY_TYPE_OWNER}, ContractSpecIds: []mdtypes.MetadataAddress{cs.SpecificationId}}
	rs := mdtypes.RecordSpecification{SpecificationId: mdtypes.RecordSpecMetadataAddress(g.cspecID, g.recName), Name: g.recName,
		Inputs:   []*mdtypes.InputSpecification{{Name: "in1", TypeName: "typ", Source: mdtypes.NewInputSpecificationSourceHash("inhash")}},
		TypeName: "typ", ResultType: mdtypes.DefinitionType_DEFINITION_TYPE_RECORD, ResponsibleParties: []mdtypes.PartyType{mdtypes.PartyType_PARTY_TYPE_OWNER}}
	g.mdReady = true
	return &c18Tx{kind: "md-specs", gas: 1_500_000, signers: []int{o}, msgs: []sdk.Msg{
		mdtypes.NewMsgWriteContractSpecificationRequest(cs, []string{g.astr(o)}),
		mdtypes.NewMsgWriteScopeSpecificationRequest(ss, []string{g.astr(o)}),
		mdtypes.NewMsgWriteRecordSpecificationRequest(rs, []string{g.astr(o)})}}
}

// mdScopeTx: a new scope (data access to the given address)
func (g *c18Gen) mdScopeTx(access string) *c18Tx {
	o := 12
	party := []mdtypes.Party{{Address: g.astr(o), Role: mdtypes.PartyType_PARTY_TYPE_OWNER}}
	id := g.uuid()
	sc := mdtypes.Scope{ScopeId: mdtypes.ScopeMetadataAddress(id), SpecificationId: mdtypes.ScopeSpecMetadataAddress(g.sspecID), Owners: party,
		DataAccess: []string{access}, ValueOwnerAddress: g.astr(g.pick(12, 9))}
	g.scopes = append(g.scopes, id)
	return &c18Tx{kind: "md-scope", gas: 1_000_000, signers: []int{o}, msgs: []sdk.Msg{mdtypes.NewMsgWriteScopeRequest(sc, []string{g.astr(o)}, 0)}}
}

// rcoinAddTx: the next long-lived marker of the history (the first one restricted, requiring kyc.verif)
func (g *c18Gen) rcoinAddTx() *c18Tx {
	den := fmt.Sprintf("rcoin%d", len(g.markers)+1)
	restricted := len(g.markers) == 0
	mt := markertypes.MarkerType_Coin
	var req []string
	acc := []markertypes.Access{markertypes.Access_Mint, markertypes.Access_Burn, markertypes.Access_Withdraw, markertypes.Access_Deposit, markertypes.Access_Admin, markertypes.Access_Delete}
	if restricted {
		mt = markertypes.MarkerType_RestrictedCoin
		req = []string{c18KycNam}
		acc = append(acc, markertypes.Access_Transfer)
	}
	msg := markertypes.NewMsgAddFinalizeActivateMarkerRequest(den, sdkmath.NewInt(1000), g.addr(2), g.addr(2), mt, false, true, false, req,
		[]markertypes.AccessGrant{{Address: g.astr(2), Permissions: acc}}, uint64(100+g.r.Intn(900)), 1000)
	g.markers = append(g.markers, den)
	return &c18Tx{kind: "marker-add", signers: []int{2}, msgs: []sdk.Msg{msg}}
}

func (g *c18Gen) pick2(a, b string) string {
	if g.r.Intn(2) == 0 {
		return a
	}
	return b
}

// c18Built is one block as the generator built it.
type c18Built struct {
	txs   [][]byte
	kinds []string
	plans []*c18Tx
	lcOps []*c18LCOp
	lcIdx []int
}

// buildBlock plans and signs the transactions of the next block.  must: transactions that have to
// be in it (votes, last-block deletes); last: the history's last block.
func (g *c18Gen) buildBlock(nTx int, burst bool, must []*c18Tx) c18Built {
	var bl c18Built
	used := map[int]bool{}
	add := func(p *c18Tx, force bool) {
		if p == nil {
			return
		}
		clash := false
		for _, s := range p.signers {
			// one tx per signer and block keeps planned transactions independent of each other's effects on sequences
			if used[s] && (p.strict || g.r.Intn(3) > 0) {
				clash = true
			}
		}
		if clash && !force {
			if p.lc != nil && p.lc.kind == "add" {
				p.lc.lc.dead = true
			}
			return
		}
		gas := p.gas
		if gas == 0 {
			gas = 600_000
		}
		bz, err := g.n.signTx(gas, p.extra, p.signers, p.msgs...)
		if err != nil {
			g.w.Count("sign_failed")
			return
		}
		for _, s := range p.signers {
			used[s] = true
		}
		g.kinds[p.kind]++
		if p.lc != nil {
			bl.lcOps = append(bl.lcOps, p.lc)
			bl.lcIdx = append(bl.lcIdx, len(bl.txs))
		}
		bl.kinds = append(bl.kinds, p.kind)
		bl.plans = append(bl.plans, p)
		bl.txs = append(bl.txs, bz)
	}
	if v := g.votes(); v != nil {
		add(v, true)
	}
	if burst {
		// burst: several triggers due at the same height / time, so that more than one is
		// detected in one block and the queue holds several (also at export time)
		due := uint64(g.n.height + 3)
		for _, o := range []int{3, 4, 5, 6} {
			if used[o] {
				continue
			}
			var ev triggertypes.TriggerEventI = &triggertypes.BlockHeightEvent{BlockHeight: due}
			if o == 6 {
				ev = &triggertypes.BlockTimeEvent{Time: g.n.now.Add(20 * time.Second)}
			}
			msg, err := triggertypes.NewCreateTriggerRequest([]string{g.astr(o)}, ev, []sdk.Msg{banktypes.NewMsgSend(g.addr(o), g.addr(13), sdk.NewCoins(sdk.NewInt64Coin(c18Price, int64(o))))})
			if err != nil {
				continue
			}
			add(&c18Tx{kind: "trigger-burst", gas: 1_200_000, signers: []int{o}, msgs: []sdk.Msg{msg}}, false)
		}
	}
	for _, p := range must {
		add(p, false)
	}
	for i := 0; i < nTx; i++ {
		add(g.plan(), false)
	}
	return bl
}

// runBlock runs a built block on the generator's chain and records what the life-cycle
// operations in it did.
func (g *c18Gen) runBlock(bl c18Built, at time.Time) (*abci.ResponseFinalizeBlock, error) {
	g.ghostSeq = map[int]uint64{}
	res, err := g.n.block(at, bl.txs)
	if err != nil {
		return nil, err
	}
	for i, tr := range res.TxResults {
		if tr.Code != 0 {
			g.w.Count("failed_" + strings.SplitN(bl.kinds[i], ":", 2)[0])
			if os.Getenv("VERIF_C18_DEBUG") != "" {
				fmt.Printf("FAILED %s: %s/%d %s\n", bl.kinds[i], tr.Codespace, tr.Code, tr.Log)
			}
		} else if strings.HasPrefix(bl.kinds[i], "gov-param") || strings.HasPrefix(bl.kinds[i], "lc-") || strings.HasPrefix(bl.kinds[i], "gov-vote") {
			g.w.Count("ok_" + strings.SplitN(bl.kinds[i], ":", 2)[0])
		}
	}
	for i, p := range bl.plans {
		if p.ref != nil && i < len(res.TxResults) {
			p.ref.refs++
			if res.TxResults[i].Code == 0 {
				g.w.Count("ok_" + p.kind)
			}
		}
	}
	oks := make([]bool, len(bl.lcOps))
	for i, ix := range bl.lcIdx {
		oks[i] = ix < len(res.TxResults) && res.TxResults[ix].Code == 0
	}
	g.lcObserve(bl.lcOps, oks)
	g.lcBusy = map[string]bool{} // the next block may touch every life-cycle marker again
	return res, nil
}

// runHistory drives the reference chain for nBlocks blocks and returns the recorded script.
func (g *c18Gen) runHistory(genesis c18Genesis, nBlocks int) (c18Script, error) {
	sc := c18Script{Genesis: genesis}
	// first block after InitChain: empty
	at := g.n.now.Add(5 * time.Second)
	if _, err := g.n.block(at, nil); err != nil {
		return sc, err
	}
	sc.Blocks = append(sc.Blocks, c18Block{TimeUnix: at.Unix()})
	for b := 0; b < nBlocks; b++ {
		var must []*c18Tx
		if b == nBlocks-1 {
			must = g.lcLastBlock()
		}
		// every block carries at least one life-cycle transaction (a new marker or the next step of one)
		must = append(must, g.lcPlan())
		// ... and one transaction that makes another module refer to a life-cycle marker or a scope
		must = append(must, g.refPlan())
		// bursts of triggers due three blocks later; the one of block nBlocks-3 falls due in the LAST
		// block, so that the export holds a non-empty queue (whose start index earlier bursts advanced)
		bl := g.buildBlock(2+g.r.Intn(7), b%9 == 4 || b == nBlocks-1 || b == nBlocks-3, must)
		at = g.n.now.Add(time.Duration(3+g.r.Intn(25)) * time.Second)
		if _, err := g.runBlock(bl, at); err != nil {
			return sc, err
		}
		sc.Blocks = append(sc.Blocks, c18Block{TimeUnix: at.Unix(), Txs: bl.txs})
	}
	return sc, nil
}

func c18SortedKeys(m map[string]int) []string {
	var ks []string
	for k := range m {
		ks = append(ks, k)
	}
	sort.Strings(ks)
	return ks
}

// ---------- the test ----------

func TestC18(t *testing.T) {
	r := newRand("C18")
	w := NewCaseWriter("C18", "PV.Corr.C18", "check_all", 40)
	genesis := c18Bootstrap(t)
	nHist := scale(3, 10)
	nBlocks := scale(28, 45)
	nPerturb := scale(8, 24)
	if os.Getenv("VERIF_SEARCH") != "" {
		nHist = scale(2, 4)
	}
	for hi := 0; hi < nHist; hi++ {
		label := fmt.Sprintf("h%d", hi)
		ref, err := c18Start(t, genesis, "")
		if err != nil {
			t.Fatalf("start: %v", err)
		}
		// the chain the history is generated on is the PRIMARY node: it receives side traffic
		// (CheckTx / Simulate / queries / ghost transactions) that no replay of the blocks sees
		g := &c18Gen{t: t, r: r, n: ref, w: w, kinds: map[string]int{}, lcBusy: map[string]bool{}, ghostSeq: map[int]uint64{}, lcShift: hi*3 + r.Intn(10), paramsMode: hi == 0}
		ref.side = c18NewSide(r)
		ref.side.ghosts = g.ghostTxs
		ref.side.qs = c18Queries(ref, []string{c18Root, c18KycNam}, []string{"rcoin1", "rcoin2", "lc1", "lc2"}, nil)
		sc, err := g.runHistory(genesis, nBlocks+r.Intn(8))
		if err != nil {
			t.Fatalf("history %d: %v", hi, err)
		}
		for _, k := range c18SortedKeys(g.kinds) {
			w.CountN("tx_"+k, int64(g.kinds[k]))
		}
		w.CountN("tx_ok", int64(ref.txOK))
		w.CountN("tx_failed", int64(ref.txFail))
		for _, k := range c18SortedKeys(ref.failCodes) {
			w.CountN("fail_"+k, int64(ref.failCodes[k]))
		}
		w.CountN("blocks", int64(len(sc.Blocks)))

		// (b) determinism: same process, separate process
		d2, _, err := c18Replay(t, sc, "", nil, 0)
		if err != nil {
			d2 = append(d2, "error: "+err.Error())
		}
		w.Add(fmt.Sprintf("CDigests %s \"rerun\" %s %s", coqStr(label), c18StrList(ref.digests), c18StrList(d2)),
			map[string]any{"kind": "digests", "label": label, "mode": "rerun", "blocks": len(sc.Blocks), "txs_ok": ref.txOK, "txs_failed": ref.txFail, "first_difference": c18FirstDiff(ref.digests, d2)})
		w.Count("replays_rerun")
		if hi == 0 || tier() == "thorough" {
			d3, err := c18ReplayInProcess(t, sc, t.TempDir())
			if err != nil {
				d3 = append(d3, "error: "+err.Error())
			}
			w.Add(fmt.Sprintf("CDigests %s \"process\" %s %s", coqStr(label), c18StrList(ref.digests), c18StrList(d3)),
				map[string]any{"kind": "digests", "label": label, "mode": "process", "first_difference": c18FirstDiff(ref.digests, d3)})
			w.Count("replays_process")
		}
		// (c) restart on goleveldb
		d4, restarts, err := c18Replay(t, sc, t.TempDir(), r, 0.35)
		if err != nil {
			d4 = append(d4, "error: "+err.Error())
		}
		w.Add(fmt.Sprintf("CDigests %s \"restart\" %s %s", coqStr(label), c18StrList(ref.digests), c18StrList(d4)),
			map[string]any{"kind": "digests", "label": label, "mode": "restart", "restarts": restarts, "first_difference": c18FirstDiff(ref.digests, d4)})
		w.CountN("restarts", int64(restarts))
		// shadow node: re-opened after EVERY block (each block computed from committed state alone)
		if hi == 0 || tier() == "thorough" {
			c18Shadow(t, w, r, label, sc, ref.digests, 1.0, "shadow")
		}

		// (a) export / import
		c18ExportImport(t, r, w, label, ref, nPerturb, g)
		g.lcEmit(label)
		for _, k := range c18SortedKeys(ref.side.stats) {
			w.CountN(k, int64(ref.side.stats[k]))
		}
		ref.close()
	}
	// second history shape (determinism validation): many accounts, fee-bearing messages with
	// several distinct fee recipients per block
	c18FeeShape(t, r, w)
	// scripted governance history with dependent transactions: primary against rerun and shadow node
	c18ParamScript(t, r, w, genesis)
	// scripted scenario: quarantine record with accepted and unaccepted senders through export / import
	c18QuarantineCase(t, w)
	// scripted scenarios: governance tightens a parameter under existing state, then export / import
	c18TightenCase(t, w)
	w.Flush(t)
}

func c18StrList(xs []string) string {
	items := make([]string, len(xs))
	for i, x := range xs {
		items[i] = coqStr(x)
	}
	return coqList(items)
}

func c18FirstDiff(a, b []string) string {
	for i := 0; i < len(a) || i < len(b); i++ {
		var x, y string
		if i < len(a) {
			x = a[i]
		}
		if i < len(b) {
			y = b[i]
		}
		if x != y {
			return fmt.Sprintf("block index %d: %q vs %q", i, x, y)
		}
	}
	return ""
}

var _ = base64.StdEncoding
