//go:build c04

package harness

// C04, group (k): OVERLAPPING required attributes.  A restricted marker's required attributes are
// rewritten (real MsgUpdateRequiredAttributes by the governance authority; duplicates, which that
// message refuses, through SetMarker as a genesis import would) to lists of 2-4 requirements that one
// attribute name can satisfy together: a wildcard plus an exact name under it, nested wildcards,
// duplicates, in both orders.  The receiver is a fresh ordinary account that gets, through the real
// attribute keeper, every small subset of a pool of names: one attribute covering several
// requirements, several attributes covering one, none.  The case carries what the keepers REPORT at
// query time (GetRequiredAttributes, GetAllAttributesAddr).

import (
	"fmt"

	sdk "github.com/cosmos/cosmos-sdk/types"

	attrtypes "github.com/provenance-io/provenance/x/attribute/types"
	markertypes "github.com/provenance-io/provenance/x/marker/types"
)

var c04OverlapReqs = [][]string{
	{"*.cfour.pb", "kyc.cfour.pb"},
	{"kyc.cfour.pb", "*.cfour.pb"},
	{"*.pb", "*.cfour.pb"},
	{"*.cfour.pb", "*.pb"},
	{"*.pb", "*.cfour.pb", "kyc.cfour.pb"},
	{"kyc.cfour.pb", "*.pb", "*.cfour.pb"},
	{"*.pb", "*.cfour.pb", "*.kyc.cfour.pb", "aa.kyc.cfour.pb"},
	{"aa.kyc.cfour.pb", "*.kyc.cfour.pb", "*.cfour.pb", "*.pb"},
	{"*.pb", "other.pb"},
	{"*.cfour.pb", "other.pb", "*.pb"},
	{"kyc.cfour.pb", "kyc.cfour.pb"},         // duplicates
	{"*.cfour.pb", "*.cfour.pb", "other.pb"}, // duplicates
}

var c04OverlapReqPool = []string{"*.pb", "*.cfour.pb", "*.kyc.cfour.pb", "kyc.cfour.pb", "aa.kyc.cfour.pb", "other.pb", "cfour.pb", "*.aa.kyc.cfour.pb"}

var c04OverlapAttrPool = []string{"kyc.cfour.pb", "aa.kyc.cfour.pb", "bb.aa.kyc.cfour.pb", "cfour.pb", "other.pb", "xcfour.pb", "inv.cfour.pb"}

func c04HasDup(xs []string) bool {
	seen := map[string]bool{}
	for _, x := range xs {
		if seen[x] {
			return true
		}
		seen[x] = true
	}
	return false
}

func (e *c04Env) overlappingRequiredAttributes(w *c04World, nRandom int) {
	r, app := e.r, e.app
	// markers: active restricted; senders: ordinary funded accounts
	ra := e.restrictedActive(w)
	type attrSet []string
	var attrSets []attrSet
	attrSets = append(attrSets, nil)
	for i := range c04OverlapAttrPool {
		attrSets = append(attrSets, attrSet{c04OverlapAttrPool[i]})
	}
	for i := range c04OverlapAttrPool {
		for j := i + 1; j < len(c04OverlapAttrPool); j++ {
			if (i+j)%2 == 0 {
				attrSets = append(attrSets, attrSet{c04OverlapAttrPool[i], c04OverlapAttrPool[j]})
			}
		}
	}
	attrSets = append(attrSets, attrSet{"kyc.cfour.pb", "aa.kyc.cfour.pb", "other.pb"}, attrSet{"cfour.pb", "xcfour.pb", "inv.cfour.pb"})

	one := func(req []string, attrs []string) {
		m := ra[r.Intn(len(ra))]
		// mostly a sender whose own rights do not decide: no TRANSFER, not deny-listed
		sender := e.plain[r.Intn(len(e.plain))]
		for _, j := range r.Perm(len(e.plain)) {
			p := e.plain[j]
			if !e.hasGrant(m, p.addr, markertypes.Access_Transfer) && !m.deny[string(p.addr)] && !w.sanctioned[string(p.addr)] {
				if r.Intn(8) != 0 {
					sender = p
				}
				break
			}
		}
		to := e.attrRecv.addr
		cctx, _ := w.ctx.CacheContext()
		// required attributes
		acc, err := app.MarkerKeeper.GetMarker(cctx, m.addr)
		if err != nil || acc == nil {
			e.t.Fatalf("marker %s: %v", m.denom, err)
		}
		viaMsg := !c04HasDup(req)
		if viaMsg {
			gov := sdk.MustAccAddressFromBech32(app.MarkerKeeper.GetAuthority())
			if cur := acc.GetRequiredAttributes(); len(cur) > 0 { // remove first: one message may not name an entry twice
				if err := e.deliver(cctx, markertypes.NewMsgUpdateRequiredAttributesRequest(m.denom, gov, cur, nil)); err != nil {
					e.t.Fatalf("MsgUpdateRequiredAttributes %s remove %v: %v", m.denom, cur, err)
				}
			}
			if err := e.deliver(cctx, markertypes.NewMsgUpdateRequiredAttributesRequest(m.denom, gov, nil, req)); err != nil {
				e.t.Fatalf("MsgUpdateRequiredAttributes %s %v: %v", m.denom, req, err)
			}
			e.w.Count("overlapping_required_attributes_set_by_message")
		} else {
			ma := acc.(*markertypes.MarkerAccount)
			ma.RequiredAttributes = append([]string{}, req...)
			app.MarkerKeeper.SetMarker(cctx, ma)
		}
		// receiver attributes (real name + attribute keepers)
		for _, n := range attrs {
			if !app.NameKeeper.NameExists(cctx, n) {
				if err := app.NameKeeper.SetNameRecord(cctx, n, e.owner, false); err != nil {
					e.t.Fatalf("SetNameRecord %s: %v", n, err)
				}
			}
			if err := app.AttributeKeeper.SetAttribute(cctx, attrtypes.Attribute{Name: n, Value: []byte("v"), Address: to.String(),
				AttributeType: attrtypes.AttributeType_String}, e.owner); err != nil {
				e.t.Fatalf("SetAttribute %s: %v", n, err)
			}
		}
		// what the keepers report now
		acc2, _ := app.MarkerKeeper.GetMarker(cctx, m.addr)
		obsReq := acc2.GetRequiredAttributes()
		got, err := app.AttributeKeeper.GetAllAttributesAddr(cctx, to)
		if err != nil {
			e.t.Fatalf("GetAllAttributesAddr: %v", err)
		}
		var obsAttrs []string
		for _, a := range got {
			obsAttrs = append(obsAttrs, a.Name)
		}
		// a copy of the world that shows this state
		w2 := *w
		w2.ctx = cctx
		w2.attrs = map[string][]string{}
		for k, v := range w.attrs {
			w2.attrs[k] = v
		}
		w2.attrs[string(to)] = obsAttrs
		saveReq := m.reqAttrs
		m.reqAttrs = obsReq
		defer func() { m.reqAttrs = saveReq }()

		q := &c04Query{from: sender.addr, to: to, amt: sdk.NewCoins(sdk.NewInt64Coin(m.denom, int64(1+r.Intn(40))))}
		if r.Intn(10) == 0 {
			q.agents = []sdk.AccAddress{e.agents[r.Intn(3)].addr}
		}
		cfg, desc, _ := e.appTerm(&w2, q.from, []sdk.AccAddress{to}, q.agents, false, false, false, false, []string{m.denom})
		ok, _ := e.fnOK(&w2, q, q.amt, to)
		send, sd := "BNotRun", "not run"
		if e.funded(&w2, q.from) {
			send, sd = e.bank(&w2, q, "send")
		}
		var rq, at []string
		for _, x := range obsReq {
			rq = append(rq, coqStr(x))
		}
		for _, x := range obsAttrs {
			at = append(at, coqStr(x))
		}
		term := fmt.Sprintf("CReqAttr %s %s %s (D %d) %s %s %s %s %s", cfg, e.coqAddr(w, q.from), e.coqAddr(w, to), m.idx, zInt(q.amt[0].Amount),
			coqList(rq), coqList(at), coqBool(ok), send)
		desc["kind"] = "send, overlapping required attributes"
		desc["receiver"] = e.role(w, to)
		desc["amount"] = q.amt.String()
		desc["required_attributes_reported_by_marker"] = obsReq
		desc["attribute_names_reported_for_receiver"] = obsAttrs
		desc["send_restriction_fn_allowed"] = ok
		desc["send_coins"] = sd
		e.w.Add(term, desc)
		e.w.Count("overlapping_required_attributes")
		if ok {
			e.w.Count("overlapping_required_attributes_allowed")
			e.accepted++
		} else {
			e.denied++
		}
		// one attribute serving several requirements: fewer attributes than requirements, yet allowed
		if ok && len(obsAttrs) < len(obsReq) && len(q.agents) == 0 {
			e.w.Count("overlapping_required_attributes_one_attribute_serves_several")
		}
		e.w.Nontrivial(term)
	}

	for _, req := range c04OverlapReqs {
		for _, as := range attrSets {
			one(req, as)
		}
	}
	for i := 0; i < nRandom; i++ {
		n := 2 + r.Intn(3)
		var req []string
		for len(req) < n {
			req = append(req, c04OverlapReqPool[r.Intn(len(c04OverlapReqPool))]) // may repeat: duplicates
		}
		var as []string
		for _, x := range c04OverlapAttrPool {
			if r.Intn(4) == 0 {
				as = append(as, x)
			}
		}
		one(req, as)
	}
}
