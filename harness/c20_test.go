//go:build c20

package harness

// C20 — Markets admit only eligible, sufficiently paid orders and commitments.
//
// One case = one market handed to MsgGovCreateMarket (ValidateBasic + the real handler) together
// with the probes made against it through the real exchange keeper: the exported Validate*/Can*
// methods and the MsgCreateAsk / MsgCreateBid / MsgCommitFunds / MsgFillBids / MsgFillAsks
// handlers. Accounts get their attributes through the real name + attribute keepers; what the
// model is told about an account is the list AttributeKeeper.GetAllAttributesAddr returns (which is
// what the exchange keeper consults). Every account is funded amply, so accept/reject is the
// admission decision.

import (
	"encoding/json"
	"fmt"
	"math/big"
	"math/rand"
	"sort"
	"strings"
	"testing"
	"time"

	sdkmath "cosmossdk.io/math"
	sdk "github.com/cosmos/cosmos-sdk/types"

	simapp "github.com/provenance-io/provenance/app"
	"github.com/provenance-io/provenance/x/attribute"
	attrtypes "github.com/provenance-io/provenance/x/attribute/types"
	"github.com/provenance-io/provenance/x/exchange"
)

type c20Coin struct {
	D string
	A *big.Int
}
type c20Ratio struct {
	PD string
	PA *big.Int
	FD string
	FA *big.Int
}
type c20Market struct {
	CreateAsk, CreateBid, CreateCom, SellerFlat, BuyerFlat []c20Coin
	SellerRatios, BuyerRatios                              []c20Ratio
	AccOrders, UserSettle, AccCommit                       bool
	ReqAsk, ReqBid, ReqCom                                 []string
}

func (c c20Coin) sdk() sdk.Coin  { return sdk.Coin{Denom: c.D, Amount: sdkmath.NewIntFromBigInt(c.A)} }
func (c c20Coin) coq() string    { return "(" + coqStr(c.D) + ", " + zBig(c.A) + ")" }
func (c c20Coin) String() string { return c.A.String() + c.D }
func (r c20Ratio) sdk() exchange.FeeRatio {
	return exchange.FeeRatio{Price: c20Coin{r.PD, r.PA}.sdk(), Fee: c20Coin{r.FD, r.FA}.sdk()}
}
func (r c20Ratio) coq() string {
	return "{| r_pd := " + coqStr(r.PD) + "; r_pa := " + zBig(r.PA) + "; r_fd := " + coqStr(r.FD) + "; r_fa := " + zBig(r.FA) + " |}"
}
func (r c20Ratio) String() string { return r.PA.String() + r.PD + ":" + r.FA.String() + r.FD }

func c20Coins(l []c20Coin) []sdk.Coin {
	var out []sdk.Coin
	for _, c := range l {
		out = append(out, c.sdk())
	}
	return out
}
func c20CoqCoins(l []c20Coin) string {
	items := make([]string, len(l))
	for i, c := range l {
		items[i] = c.coq()
	}
	return coqList(items)
}
func c20CoqOptCoin(c *c20Coin) string {
	if c == nil {
		return "None"
	}
	return "(Some " + c.coq() + ")"
}
func c20CoqRatios(l []c20Ratio) string {
	items := make([]string, len(l))
	for i, c := range l {
		items[i] = c.coq()
	}
	return coqList(items)
}
func c20CoqStrs(l []string) string {
	items := make([]string, len(l))
	for i, c := range l {
		items[i] = coqStr(c)
	}
	return coqList(items)
}
func c20StrCoins(l []c20Coin) []string {
	out := make([]string, len(l))
	for i, c := range l {
		out[i] = c.String()
	}
	return out
}
func c20OptStr(c *c20Coin) string {
	if c == nil {
		return ""
	}
	return c.String()
}

func (m c20Market) coq() string {
	return "{| m_create_ask := " + c20CoqCoins(m.CreateAsk) +
		"; m_create_bid := " + c20CoqCoins(m.CreateBid) +
		"; m_create_com := " + c20CoqCoins(m.CreateCom) +
		"; m_seller_flat := " + c20CoqCoins(m.SellerFlat) +
		"; m_seller_ratios := " + c20CoqRatios(m.SellerRatios) +
		"; m_buyer_flat := " + c20CoqCoins(m.BuyerFlat) +
		"; m_buyer_ratios := " + c20CoqRatios(m.BuyerRatios) +
		"; m_accepting_orders := " + coqBool(m.AccOrders) +
		"; m_user_settle := " + coqBool(m.UserSettle) +
		"; m_accepting_commitments := " + coqBool(m.AccCommit) +
		"; m_req_ask := " + c20CoqStrs(m.ReqAsk) +
		"; m_req_bid := " + c20CoqStrs(m.ReqBid) +
		"; m_req_com := " + c20CoqStrs(m.ReqCom) + " |}"
}

func (m c20Market) desc() map[string]any {
	rs := func(l []c20Ratio) []string {
		out := make([]string, len(l))
		for i, r := range l {
			out[i] = r.String()
		}
		return out
	}
	return map[string]any{
		"create_ask_flat": c20StrCoins(m.CreateAsk), "create_bid_flat": c20StrCoins(m.CreateBid),
		"create_commitment_flat": c20StrCoins(m.CreateCom), "seller_flat": c20StrCoins(m.SellerFlat),
		"seller_ratios": rs(m.SellerRatios), "buyer_flat": c20StrCoins(m.BuyerFlat), "buyer_ratios": rs(m.BuyerRatios),
		"accepting_orders": m.AccOrders, "allow_user_settlement": m.UserSettle, "accepting_commitments": m.AccCommit,
		"req_attr_ask": m.ReqAsk, "req_attr_bid": m.ReqBid, "req_attr_commitment": m.ReqCom,
	}
}

func (m c20Market) sdk() exchange.Market {
	rs := func(l []c20Ratio) []exchange.FeeRatio {
		var out []exchange.FeeRatio
		for _, r := range l {
			out = append(out, r.sdk())
		}
		return out
	}
	return exchange.Market{
		MarketDetails:             exchange.MarketDetails{Name: "verif market"},
		FeeCreateAskFlat:          c20Coins(m.CreateAsk),
		FeeCreateBidFlat:          c20Coins(m.CreateBid),
		FeeCreateCommitmentFlat:   c20Coins(m.CreateCom),
		FeeSellerSettlementFlat:   c20Coins(m.SellerFlat),
		FeeSellerSettlementRatios: rs(m.SellerRatios),
		FeeBuyerSettlementFlat:    c20Coins(m.BuyerFlat),
		FeeBuyerSettlementRatios:  rs(m.BuyerRatios),
		AcceptingOrders:           m.AccOrders,
		AllowUserSettlement:       m.UserSettle,
		AcceptingCommitments:      m.AccCommit,
		ReqAttrCreateAsk:          m.ReqAsk,
		ReqAttrCreateBid:          m.ReqBid,
		ReqAttrCreateCommitment:   m.ReqCom,
	}
}

var (
	c20FeeDenoms   = []string{"acoin", "bcoin", "ccoin", "dcoin"}
	c20PriceDenoms = []string{"acoin", "bcoin", "pcoin"}
	c20AllDenoms   = []string{"acoin", "bcoin", "ccoin", "dcoin", "pcoin", "asset", "ecoin"}
	// names bound in the name module and usable as account attributes
	c20Names = []string{
		"kyc.prov", "buyer.kyc.prov", "special.seller.kyc.prov", "buyer.xkyc.prov", "xkyc.prov", "prov",
		"club", "gold.club", "vip.gold.club", "kyc.prov.extra", "6ba7b810-9dad-11d1-80b4-00c04fd430c8.kyc.prov",
	}
	// required attributes in normalised form; decorated (case, blanks) when given to a market
	c20Reqs = []string{"kyc.prov", "*.kyc.prov", "*.prov", "gold.club", "*.gold.club", "*.club", "*.xkyc.prov", "prov",
		"*.seller.kyc.prov", "buyer.kyc.prov"}
	// requirement families that a single attribute can cover completely
	c20OverlapFamilies = [][]string{
		{"buyer.kyc.prov", "*.kyc.prov", "*.prov"},
		{"special.seller.kyc.prov", "*.seller.kyc.prov", "*.kyc.prov", "*.prov"},
		{"*.kyc.prov", "*.prov"},
		{"gold.club", "*.club"},
		{"vip.gold.club", "*.gold.club", "*.club"},
		{"buyer.xkyc.prov", "*.xkyc.prov", "*.prov"},
	}
	// accounts with few attributes: 1 or 2 records, to be fewer than / equal to / more than the
	// number of requirements
	c20SmallSets = [][]string{
		{"buyer.kyc.prov"}, {"special.seller.kyc.prov"}, {"vip.gold.club"}, {"gold.club"}, {"kyc.prov"},
		{"buyer.kyc.prov", "gold.club"}, {"buyer.xkyc.prov", "vip.gold.club"}, {"prov", "club"},
	}
	c20BadReqs = []string{"", "*.", "kyc_prov", "a-b-c.prov", "*kyc.prov", "kyc.*.prov", "kyc..prov", "*", ".", "6BA7B810-9dad-11d1-80b4-00c04fd430c8.kyc.prov"}
)

func c20Big(v int64) *big.Int { return big.NewInt(v) }

func c20Amount(r *rand.Rand) *big.Int {
	switch r.Intn(10) {
	case 0, 1, 2:
		return c20Big([]int64{1, 2, 3, 5, 10, 100, 1000}[r.Intn(7)])
	case 3, 4, 5, 6:
		return c20Big(r.Int63n(500) + 1)
	case 7:
		return c20Big(r.Int63n(1_000_000) + 1)
	case 8:
		return new(big.Int).Add(pow2(uint(60+r.Intn(15))), c20Big(int64(r.Intn(3)-1)))
	default:
		return c20Big(r.Int63n(100_000_000_000) + 1)
	}
}

func c20Flats(r *rand.Rand) []c20Coin {
	n := []int{0, 0, 1, 1, 2, 3}[r.Intn(6)]
	perm := r.Perm(len(c20FeeDenoms))
	var out []c20Coin
	for i := 0; i < n; i++ {
		out = append(out, c20Coin{c20FeeDenoms[perm[i]], c20Amount(r)})
	}
	return out
}

func c20Decorate(r *rand.Rand, s string) string {
	if r.Intn(3) == 0 {
		return s
	}
	var sb strings.Builder
	blank := func() {
		switch r.Intn(6) {
		case 0:
			sb.WriteString(" ")
		case 1:
			sb.WriteString("  ")
		case 2:
			sb.WriteString("\t")
		}
	}
	blank()
	for _, c := range s {
		if c == '.' {
			if r.Intn(4) == 0 {
				blank()
			}
			sb.WriteRune(c)
			if r.Intn(4) == 0 {
				blank()
			}
			continue
		}
		if c >= 'a' && c <= 'z' && r.Intn(3) == 0 {
			c = c - 'a' + 'A'
		}
		sb.WriteRune(c)
	}
	blank()
	return sb.String()
}

func c20ReqList(r *rand.Rand, w *CaseWriter) []string {
	if r.Intn(2) == 0 {
		return nil
	}
	var out []string
	if r.Intn(5) < 2 {
		// overlapping requirements: exact + wildcard of the same base, nested wildcards - one
		// account attribute can satisfy several (or all) of them
		fam := c20OverlapFamilies[r.Intn(len(c20OverlapFamilies))]
		perm := r.Perm(len(fam))
		n := 2 + r.Intn(len(fam)-1)
		for i := 0; i < n; i++ {
			out = append(out, c20Decorate(r, fam[perm[i]]))
		}
		w.Count("req_lists_overlapping")
	} else {
		n := 1 + r.Intn(3)
		perm := r.Perm(len(c20Reqs))
		for i := 0; i < n; i++ {
			out = append(out, c20Decorate(r, c20Reqs[perm[i]]))
		}
	}
	switch r.Intn(24) {
	case 0: // an invalid or odd entry
		out = append(out, c20Decorate(r, c20BadReqs[r.Intn(len(c20BadReqs))]))
		w.Count("req_lists_with_odd_entry")
	case 1: // a duplicate after normalisation
		out = append(out, c20Decorate(r, strings.TrimSpace(strings.ToLower(out[0]))))
		w.Count("req_lists_with_duplicate")
	}
	return out
}

func c20GenMarket(r *rand.Rand, w *CaseWriter) c20Market {
	m := c20Market{
		CreateAsk: c20Flats(r), CreateBid: c20Flats(r), CreateCom: c20Flats(r),
		SellerFlat: c20Flats(r), BuyerFlat: c20Flats(r),
		AccOrders: r.Intn(8) != 0, UserSettle: r.Intn(6) != 0, AccCommit: r.Intn(8) != 0,
		ReqAsk: c20ReqList(r, w), ReqBid: c20ReqList(r, w), ReqCom: c20ReqList(r, w),
	}
	np := []int{0, 1, 1, 2}[r.Intn(4)]
	perm := r.Perm(len(c20PriceDenoms))
	for i := 0; i < np; i++ {
		pd := c20PriceDenoms[perm[i]]
		// seller: price denom -> same denom, fee <= price
		rp := c20Amount(r)
		var rf *big.Int
		switch r.Intn(6) {
		case 0:
			rf = new(big.Int).Set(rp) // 1:1, no ask price can cover it
		case 1:
			rf = c20Big(0)
		default:
			rf = new(big.Int).Rand(r, new(big.Int).Add(rp, c20Big(1)))
		}
		m.SellerRatios = append(m.SellerRatios, c20Ratio{pd, rp, pd, rf})
		// buyer: 1-2 fee denoms per price denom
		cands := append([]string{pd}, c20FeeDenoms...)
		nb := 1 + r.Intn(2)
		seen := map[string]bool{}
		for j := 0; j < nb; j++ {
			fd := cands[r.Intn(len(cands))]
			if seen[fd] {
				continue
			}
			seen[fd] = true
			bp := c20Amount(r)
			bf := c20Amount(r)
			if r.Intn(8) == 0 {
				bf = c20Big(0)
			}
			if fd == pd && bf.Cmp(bp) > 0 {
				bp, bf = bf, bp
			}
			m.BuyerRatios = append(m.BuyerRatios, c20Ratio{pd, bp, fd, bf})
		}
	}
	return m
}

func c20Ceil(p, rf, rp *big.Int) *big.Int {
	num := new(big.Int).Mul(p, rf)
	q, rem := new(big.Int).QuoRem(num, rp, new(big.Int))
	if rem.Sign() != 0 {
		q.Add(q, c20Big(1))
	}
	return q
}

func c20FindFlat(opts []c20Coin, d string) *big.Int {
	for _, o := range opts {
		if o.D == d {
			return o.A
		}
	}
	return nil
}
func c20FindRatio(rs []c20Ratio, pd, fd string) *c20Ratio {
	for i := range rs {
		if rs[i].PD == pd && rs[i].FD == fd {
			return &rs[i]
		}
	}
	return nil
}

// c20FlatChoice picks a fee for a flat requirement: mostly sufficient.
func c20FlatChoice(r *rand.Rand, opts []c20Coin, good bool) *c20Coin {
	if len(opts) == 0 {
		if r.Intn(4) == 0 {
			return &c20Coin{c20FeeDenoms[r.Intn(len(c20FeeDenoms))], c20Big(r.Int63n(20) + 1)}
		}
		return nil
	}
	o := opts[r.Intn(len(opts))]
	if good {
		return &c20Coin{o.D, new(big.Int).Add(o.A, c20Big([]int64{0, 0, 0, 1, 7}[r.Intn(5)]))}
	}
	switch r.Intn(4) {
	case 0:
		return nil
	case 1:
		return &c20Coin{"ecoin", new(big.Int).Set(o.A)}
	default:
		a := new(big.Int).Sub(o.A, c20Big(1))
		if a.Sign() <= 0 {
			return nil
		}
		return &c20Coin{o.D, a}
	}
}

// c20BuyerFees builds an offered buyer settlement fee for the price: mostly sufficient.
func c20BuyerFees(r *rand.Rand, m c20Market, price c20Coin, good bool) []c20Coin {
	amts := map[string]*big.Int{}
	add := func(d string, a *big.Int) {
		if cur, ok := amts[d]; ok {
			amts[d] = new(big.Int).Add(cur, a)
		} else {
			amts[d] = new(big.Int).Set(a)
		}
	}
	if len(m.BuyerFlat) > 0 {
		o := m.BuyerFlat[r.Intn(len(m.BuyerFlat))]
		add(o.D, o.A)
	}
	var forPD []c20Ratio
	for _, rt := range m.BuyerRatios {
		if rt.PD == price.D {
			forPD = append(forPD, rt)
		}
	}
	if len(forPD) > 0 {
		rt := forPD[r.Intn(len(forPD))]
		add(rt.FD, c20Ceil(price.A, rt.FA, rt.PA))
	}
	if r.Intn(5) == 0 {
		add(c20AllDenoms[r.Intn(len(c20AllDenoms))], c20Big(r.Int63n(50)+1))
	}
	var keys []string
	for d := range amts {
		keys = append(keys, d)
	}
	sort.Strings(keys)
	if !good && len(keys) > 0 {
		d := keys[r.Intn(len(keys))]
		if r.Intn(3) == 0 {
			delete(amts, d)
		} else {
			amts[d] = new(big.Int).Sub(amts[d], c20Big(1))
		}
	} else if good && len(keys) > 0 && r.Intn(4) == 0 {
		d := keys[r.Intn(len(keys))]
		amts[d] = new(big.Int).Add(amts[d], c20Big(r.Int63n(5)+1))
	}
	var out []c20Coin
	for _, d := range keys {
		if a, ok := amts[d]; ok && a.Sign() > 0 {
			out = append(out, c20Coin{d, a})
		}
	}
	return out
}

type c20Acct struct {
	addr  sdk.AccAddress
	attrs []string // as returned by AttributeKeeper.GetAllAttributesAddr
}

func c20SetAttr(t *testing.T, app *simapp.App, ctx sdk.Context, owner, addr sdk.AccAddress, name string) {
	attr := attrtypes.Attribute{Name: name, Value: []byte("v"), AttributeType: attrtypes.AttributeType_String, Address: addr.String()}
	if err := app.AttributeKeeper.SetAttribute(ctx, attr, owner); err != nil {
		t.Fatalf("SetAttribute(%q): %v", name, err)
	}
}

func c20ReadAttrs(t *testing.T, app *simapp.App, ctx sdk.Context, addr sdk.AccAddress) []string {
	attrs, err := app.AttributeKeeper.GetAllAttributesAddr(ctx, addr)
	if err != nil {
		t.Fatalf("GetAllAttributesAddr: %v", err)
	}
	out := make([]string, len(attrs))
	for i, a := range attrs {
		out[i] = a.Name
	}
	return out
}

func TestC20(t *testing.T) {
	r := newRand("C20")
	w := NewCaseWriter("C20", "PV.Corr.C20", "check_all", scale(12, 40))
	app, baseCtx := newApp(t)
	t0 := time.Date(2026, 1, 1, 12, 0, 0, 0, time.UTC)
	baseCtx = baseCtx.WithBlockTime(t0)
	k := app.ExchangeKeeper
	authority := k.GetAuthority()
	type desc map[string]any

	handle := func(ctx sdk.Context, msg sdk.Msg) error {
		return try(func() error {
			h := app.MsgServiceRouter().Handler(msg)
			if h == nil {
				return fmt.Errorf("no handler for %T", msg)
			}
			_, err := h(ctx, msg)
			return err
		})
	}

	// ---- accounts, names, attributes (real name + attribute keepers) ----
	owner := addrN(900)
	ensureAccount(app, baseCtx, owner)
	for _, n := range c20Names {
		if err := app.NameKeeper.SetNameRecord(baseCtx, n, owner, false); err != nil {
			t.Fatalf("SetNameRecord(%q): %v", n, err)
		}
	}
	var rich sdk.Coins
	big30 := sdkmath.NewIntFromBigInt(new(big.Int).Exp(c20Big(10), c20Big(62), nil))
	for _, d := range c20AllDenoms {
		rich = rich.Add(sdk.NewCoin(d, big30))
	}
	nAcct := 10 + len(c20SmallSets)
	accts := make([]c20Acct, nAcct)
	for i := range accts {
		a := addrN(901 + i)
		ensureAccount(app, baseCtx, a)
		fund(t, app, baseCtx, a, rich)
		var names []string
		switch i {
		case 0: // everything
			names = c20Names
		case 1: // nothing
		case 2, 3, 4, 5, 6, 7, 8, 9:
			names = c20SmallSets[i-2]
		default:
			perm := r.Perm(len(c20Names))
			n := 1 + r.Intn(6)
			for j := 0; j < n; j++ {
				names = append(names, c20Names[perm[j]])
			}
		}
		for _, n := range names {
			// the attribute keeper normalises what it is given
			c20SetAttr(t, app, baseCtx, owner, a, c20Decorate(r, n))
		}
		accts[i] = c20Acct{addr: a, attrs: c20ReadAttrs(t, app, baseCtx, a)}
		w.CountN("account_attributes", int64(len(accts[i].attrs)))
	}
	// accounts that hold the same attribute name under several values, some of the records with
	// an expiration date: 1h = passed when the later phases probe, 5h = still in the future
	type expAttr struct {
		name, value string
		hours       int
	}
	expSets := [][]expAttr{
		{{"buyer.kyc.prov", "v1", 1}, {"buyer.kyc.prov", "v2", 0}},
		{{"buyer.kyc.prov", "v1", 0}, {"buyer.kyc.prov", "v2", 1}},
		{{"buyer.kyc.prov", "v1", 1}, {"buyer.kyc.prov", "v2", 1}, {"buyer.kyc.prov", "v3", 0}, {"gold.club", "v1", 5}},
		{{"buyer.kyc.prov", "v1", 0}, {"buyer.kyc.prov", "v3", 1}, {"gold.club", "a", 1}, {"gold.club", "b", 0}},
		{{"buyer.kyc.prov", "v1", 1}, {"gold.club", "v1", 1}}, // only records that expire
		{{"special.seller.kyc.prov", "x", 1}, {"special.seller.kyc.prov", "y", 5}, {"vip.gold.club", "x", 0}, {"vip.gold.club", "y", 1}},
		{{"gold.club", "zz", 0}, {"gold.club", "aa", 1}, {"gold.club", "mm", 1}, {"buyer.xkyc.prov", "q", 1}, {"buyer.xkyc.prov", "r", 0}},
	}
	firstExp := nAcct
	onlyExpiring := firstExp + 4
	for i, set := range expSets {
		a := addrN(901 + firstExp + i)
		ensureAccount(app, baseCtx, a)
		fund(t, app, baseCtx, a, rich)
		for _, e := range set {
			attr := attrtypes.Attribute{Name: e.name, Value: []byte(e.value), AttributeType: attrtypes.AttributeType_String, Address: a.String()}
			if e.hours > 0 {
				exp := t0.Add(time.Duration(e.hours) * time.Hour)
				attr.ExpirationDate = &exp
			}
			if err := app.AttributeKeeper.SetAttribute(baseCtx, attr, owner); err != nil {
				t.Fatalf("SetAttribute(%q,%q): %v", e.name, e.value, err)
			}
		}
		accts = append(accts, c20Acct{addr: a})
	}
	nAcct = len(accts)
	// The three situations in which admission is probed: at the time the attributes were set; two
	// hours later without the attribute module's begin-blocker having run (expired records are
	// still stored); two hours later after it ran (expired records purged).  The model is told
	// what AttributeKeeper.GetAllAttributesAddr returns in that situation.
	later := baseCtx.WithBlockTime(t0.Add(2 * time.Hour))
	swept, _ := later.CacheContext()
	attribute.BeginBlocker(swept, app.AttributeKeeper)
	phaseNames := []string{"at_set_time", "expired_not_swept", "expired_swept"}
	phaseCtxs := []sdk.Context{baseCtx, later, swept}
	phaseAccts := make([][]c20Acct, 3)
	for ph := range phaseCtxs {
		phaseAccts[ph] = make([]c20Acct, nAcct)
		for i, a := range accts {
			phaseAccts[ph][i] = c20Acct{addr: a.addr, attrs: c20ReadAttrs(t, app, phaseCtxs[ph], a.addr)}
		}
		w.CountN("attribute_records_"+phaseNames[ph], func() int64 {
			n := 0
			for _, a := range phaseAccts[ph][firstExp:] {
				n += len(a.attrs)
			}
			return int64(n)
		}())
	}
	maker := addrN(950)
	ensureAccount(app, baseCtx, maker)
	fund(t, app, baseCtx, maker, rich)
	for _, n := range c20Names {
		c20SetAttr(t, app, baseCtx, owner, maker, n)
	}
	pickAcct := func() c20Acct {
		switch r.Intn(10) {
		case 0, 1, 2:
			return accts[0]
		case 3, 4, 5:
			return accts[1+r.Intn(1+len(c20SmallSets))] // none, one or two attributes
		case 6, 7:
			return accts[firstExp+r.Intn(nAcct-firstExp)] // repeated names, expiring records
		}
		return accts[r.Intn(nAcct)]
	}

	probeKeys := map[string]struct{}{}
	probeKey := func(k string) { probeKeys[k] = struct{}{} }
	nMarkets := scale(70, 2500)
	for mi := 0; mi < nMarkets; mi++ {
		m := c20GenMarket(r, w)
		ph := mi % 3
		accts = phaseAccts[ph]
		w.Count("markets_probed_" + phaseNames[ph])
		mctx, _ := phaseCtxs[ph].CacheContext()
		lastBefore := uint32(0)
		k.IterateKnownMarketIDs(mctx, func(id uint32) bool {
			if id > lastBefore {
				lastBefore = id
			}
			return false
		})
		msg := &exchange.MsgGovCreateMarketRequest{Authority: authority, Market: m.sdk()}
		err := try(func() error { return msg.ValidateBasic() })
		if err == nil {
			err = handle(mctx, msg)
		}
		created := err == nil
		marketID := uint32(4_000_000) // unknown id when the market was not created
		if created {
			k.IterateKnownMarketIDs(mctx, func(id uint32) bool {
				if id > lastBefore {
					marketID = id
				}
				return false
			})
			if marketID == 4_000_000 {
				t.Fatalf("created market not found")
			}
			w.Count("markets_created")
		} else {
			w.Count("markets_rejected")
		}

		var probes []string
		var pdescs []desc
		addProbe := func(term string, d desc) {
			d["i"] = len(probes)
			probes = append(probes, term)
			pdescs = append(pdescs, d)
			w.Count("probes")
		}

		// ---- flat fee validators: nil, every option at -1/0/+1, a foreign denom ----
		flatKinds := []struct {
			name string
			opts []c20Coin
			f    func(sdk.Context, uint32, *sdk.Coin) error
		}{
			{"KCreateAsk", m.CreateAsk, k.ValidateCreateAskFlatFee},
			{"KCreateBid", m.CreateBid, k.ValidateCreateBidFlatFee},
			{"KCreateCom", m.CreateCom, k.ValidateCreateCommitmentFlatFee},
			{"KSellerFlat", m.SellerFlat, k.ValidateSellerSettlementFlatFee},
		}
		for _, fk := range flatKinds {
			fees := []*c20Coin{nil, {c20AllDenoms[r.Intn(len(c20AllDenoms))], c20Amount(r)}}
			for _, o := range fk.opts {
				for _, dlt := range []int64{-1, 0, 1} {
					a := new(big.Int).Add(o.A, c20Big(dlt))
					if a.Sign() >= 0 {
						fees = append(fees, &c20Coin{o.D, a})
					}
				}
			}
			for _, fee := range fees {
				var sc *sdk.Coin
				if fee != nil {
					c := fee.sdk()
					sc = &c
				}
				e := try(func() error { return fk.f(mctx, marketID, sc) })
				addProbe("PFlat "+fk.name+" "+c20CoqOptCoin(fee)+" "+coqBool(e == nil),
					desc{"probe": "ValidateFlatFee", "kind": fk.name, "fee": c20OptStr(fee), "ok": e == nil})
				w.Count("flat_probes")
				if e == nil {
					w.Count("flat_probes_accepted")
				}
				if len(fk.opts) > 0 && fee != nil {
					probeKey(fmt.Sprintf("flat/%v/%s", c20StrCoins(fk.opts), fee))
				}
			}
		}

		// ---- buyer settlement fee validator: 0-3 coins at the boundaries, shuffled ----
		nBuyer := 14
		for bi := 0; bi < nBuyer; bi++ {
			var pd string
			if len(m.BuyerRatios) > 0 && r.Intn(6) != 0 {
				pd = m.BuyerRatios[r.Intn(len(m.BuyerRatios))].PD
			} else {
				pd = c20PriceDenoms[r.Intn(len(c20PriceDenoms))]
			}
			price := c20Coin{pd, c20Amount(r)}
			if r.Intn(12) == 0 {
				price.A = c20Big(0)
			}
			// candidate denoms: those with a flat option or a ratio for pd first
			var cands []string
			for _, o := range m.BuyerFlat {
				cands = append(cands, o.D)
			}
			for _, rt := range m.BuyerRatios {
				if rt.PD == pd {
					cands = append(cands, rt.FD)
				}
			}
			cands = append(cands, c20AllDenoms[r.Intn(len(c20AllDenoms))])
			n := []int{0, 1, 1, 2, 2, 2, 3, 3}[r.Intn(8)]
			seen := map[string]bool{}
			var fee []c20Coin
			for j := 0; j < n; j++ {
				d := cands[r.Intn(len(cands))]
				if seen[d] {
					d = c20AllDenoms[r.Intn(len(c20AllDenoms))]
					if seen[d] {
						continue
					}
				}
				seen[d] = true
				f := c20FindFlat(m.BuyerFlat, d)
				var rr *big.Int
				if rt := c20FindRatio(m.BuyerRatios, pd, d); rt != nil {
					rr = c20Ceil(price.A, rt.FA, rt.PA)
				}
				var bases []*big.Int
				if f != nil {
					bases = append(bases, f)
				}
				if rr != nil {
					bases = append(bases, rr)
				}
				if f != nil && rr != nil {
					s := new(big.Int).Add(f, rr)
					bases = append(bases, s, s) // the summed requirement twice as likely
				}
				var a *big.Int
				if len(bases) == 0 || r.Intn(10) == 0 {
					a = c20Amount(r)
				} else {
					a = new(big.Int).Add(bases[r.Intn(len(bases))], c20Big(int64(r.Intn(3)-1)))
				}
				if a.Sign() < 0 {
					a = c20Big(0)
				}
				fee = append(fee, c20Coin{d, a})
			}
			r.Shuffle(len(fee), func(i, j int) { fee[i], fee[j] = fee[j], fee[i] })
			e := try(func() error {
				return k.ValidateBuyerSettlementFee(mctx, marketID, price.sdk(), sdk.Coins(c20Coins(fee)))
			})
			addProbe("PBuyer "+price.coq()+" "+c20CoqCoins(fee)+" "+coqBool(e == nil),
				desc{"probe": "ValidateBuyerSettlementFee", "price": price.String(), "fee": c20StrCoins(fee), "ok": e == nil})
			w.Count("buyer_fee_probes")
			w.Count(fmt.Sprintf("buyer_fee_probes_%d_coins", len(fee)))
			if e == nil {
				w.Count("buyer_fee_probes_accepted")
			}
			if created && (len(m.BuyerFlat) > 0 || len(m.BuyerRatios) > 0) && len(fee) > 0 {
				probeKey(fmt.Sprintf("buyer/%v/%v/%s/%v", c20StrCoins(m.BuyerFlat), m.BuyerRatios, price, c20StrCoins(fee)))
			}
			if created && len(m.BuyerFlat) > 0 && len(m.BuyerRatios) > 0 {
				w.Count("buyer_fee_probes_flat_and_ratio_required")
			}
		}

		// ---- ask price validator around the point where the price stops covering the fees ----
		nAsk := 8
		for ai := 0; ai < nAsk; ai++ {
			var pd string
			if len(m.SellerRatios) > 0 && r.Intn(6) != 0 {
				pd = m.SellerRatios[r.Intn(len(m.SellerRatios))].PD
			} else {
				pd = c20PriceDenoms[r.Intn(len(c20PriceDenoms))]
			}
			var flat *c20Coin
			switch r.Intn(4) {
			case 0:
			case 1:
				flat = &c20Coin{pd, c20Amount(r)}
			default:
				if len(m.SellerFlat) > 0 {
					o := m.SellerFlat[r.Intn(len(m.SellerFlat))]
					flat = &c20Coin{o.D, new(big.Int).Set(o.A)}
				} else {
					flat = &c20Coin{pd, c20Big(r.Int63n(30))}
				}
			}
			// the threshold: smallest p with p > flat + ceil(p*rf/rp), about flat*rp/(rp-rf)
			fa := c20Big(0)
			if flat != nil && flat.D == pd {
				fa = flat.A
			}
			base := new(big.Int).Set(fa)
			if rt := c20FindRatio(m.SellerRatios, pd, pd); rt != nil && rt.PA.Cmp(rt.FA) > 0 {
				d := new(big.Int).Sub(rt.PA, rt.FA)
				base = new(big.Int).Quo(new(big.Int).Mul(fa, rt.PA), d)
			}
			var pa *big.Int
			if r.Intn(5) == 0 {
				pa = c20Amount(r)
			} else {
				pa = new(big.Int).Add(base, c20Big(int64(r.Intn(7)-2)))
			}
			if pa.Sign() < 0 {
				pa = c20Big(0)
			}
			price := c20Coin{pd, pa}
			var sc *sdk.Coin
			if flat != nil {
				c := flat.sdk()
				sc = &c
			}
			e := try(func() error { return k.ValidateAskPrice(mctx, marketID, price.sdk(), sc) })
			addProbe("PAskPrice "+price.coq()+" "+c20CoqOptCoin(flat)+" "+coqBool(e == nil),
				desc{"probe": "ValidateAskPrice", "price": price.String(), "flat": c20OptStr(flat), "ok": e == nil})
			w.Count("ask_price_probes")
			if e == nil {
				w.Count("ask_price_probes_accepted")
			}
			if created && (len(m.SellerRatios) > 0 || fa.Sign() > 0) {
				probeKey(fmt.Sprintf("askprice/%v/%s/%s", m.SellerRatios, price, c20OptStr(flat)))
			}
		}

		// ---- CanCreateAsk / CanCreateBid / CanCreateCommitment for every account ----
		canKinds := []struct {
			name string
			reqs []string
			f    func(sdk.Context, uint32, sdk.AccAddress) bool
		}{
			{"RAsk", m.ReqAsk, k.CanCreateAsk}, {"RBid", m.ReqBid, k.CanCreateBid}, {"RCom", m.ReqCom, k.CanCreateCommitment},
		}
		for _, ck := range canKinds {
			if len(ck.reqs) == 0 && r.Intn(4) != 0 {
				continue
			}
			for _, a := range accts {
				var ok bool
				e := try(func() error { ok = ck.f(mctx, marketID, a.addr); return nil })
				ok = ok && e == nil
				addProbe("PCan "+ck.name+" "+c20CoqStrs(a.attrs)+" "+coqBool(ok),
					desc{"probe": "CanCreate", "kind": ck.name, "account_attrs": a.attrs, "ok": ok})
				w.Count("can_create_probes")
				if ok {
					w.Count("can_create_probes_allowed")
					if created && len(ck.reqs) > 0 && ph == 1 && a.addr.Equals(accts[onlyExpiring].addr) {
						w.Count("observation_allowed_on_expired_unswept_records_only")
					}
					if len(ck.reqs) > 0 && len(a.attrs) < len(ck.reqs) {
						w.Count("can_create_allowed_with_fewer_attrs_than_reqs_" + ck.name)
					}
				}
				if created && len(ck.reqs) > 0 {
					probeKey(fmt.Sprintf("can/%v/%v", ck.reqs, a.attrs))
				}
			}
		}

		// ---- counter orders for the fill endpoints (a maker that holds every attribute) ----
		var makerBid, makerAsk uint64
		var makerBidPrice, makerAskPrice c20Coin
		assets := sdk.NewInt64Coin("asset", 10)
		m0 := m // the market as created; m's flags follow the updates below
		for phase := 0; phase < 2; phase++ {
			if phase == 1 {
				// ---- flip the accepting / user-settle flags through the real keeper, then probe again ----
				if !created {
					break
				}
				ao, us, ac := r.Intn(3) != 0, r.Intn(3) != 0, r.Intn(3) != 0
				if ao == m.AccOrders && us == m.UserSettle && ac == m.AccCommit {
					ao = !ao
				}
				ok := true
				if ao != m.AccOrders {
					ok = ok && try(func() error { return k.UpdateMarketAcceptingOrders(mctx, marketID, ao, "verif") }) == nil
				}
				if us != m.UserSettle {
					ok = ok && try(func() error { return k.UpdateUserSettlementAllowed(mctx, marketID, us, "verif") }) == nil
				}
				if ac != m.AccCommit {
					ok = ok && try(func() error { return k.UpdateMarketAcceptingCommitments(mctx, marketID, ac, "verif") }) == nil
				}
				if !ok {
					w.Count("flag_update_failed")
					break
				}
				m.AccOrders, m.UserSettle, m.AccCommit = ao, us, ac
				addProbe("PFlags "+coqBool(ao)+" "+coqBool(us)+" "+coqBool(ac),
					desc{"probe": "UpdateFlags", "accepting_orders": ao, "allow_user_settlement": us, "accepting_commitments": ac})
				w.Count("flag_updates")
			}
			if created && m.AccOrders && makerBid == 0 && makerAsk == 0 {
				pd := c20PriceDenoms[r.Intn(len(c20PriceDenoms))]
				if len(m.BuyerRatios) > 0 {
					pd = m.BuyerRatios[r.Intn(len(m.BuyerRatios))].PD
				}
				makerBidPrice = c20Coin{pd, c20Big(r.Int63n(1_000_000) + 1000)}
				bidFees := c20BuyerFees(r, m, makerBidPrice, true)
				bmsg := &exchange.MsgCreateBidRequest{
					BidOrder: exchange.BidOrder{MarketId: marketID, Buyer: maker.String(), Assets: assets, Price: makerBidPrice.sdk(),
						BuyerSettlementFees: sdk.NewCoins(c20Coins(bidFees)...)},
				}
				if f := c20FlatChoice(r, m.CreateBid, true); f != nil {
					c := f.sdk()
					bmsg.OrderCreationFee = &c
				}
				if e := handle(mctx, bmsg); e == nil {
					makerBid = c20LastOrder(app, mctx)
				} else {
					w.Count("maker_bid_not_created")
				}
				makerAskPrice = c20Coin{pd, new(big.Int).Add(pow2(70), c20Big(r.Int63n(1000)))}
				amsg := &exchange.MsgCreateAskRequest{
					AskOrder: exchange.AskOrder{MarketId: marketID, Seller: maker.String(), Assets: assets, Price: makerAskPrice.sdk()},
				}
				if f := c20FlatChoice(r, m.SellerFlat, true); f != nil && len(m.SellerFlat) > 0 {
					c := f.sdk()
					amsg.AskOrder.SellerSettlementFlatFee = &c
				}
				if f := c20FlatChoice(r, m.CreateAsk, true); f != nil {
					c := f.sdk()
					amsg.OrderCreationFee = &c
				}
				if e := handle(mctx, amsg); e == nil {
					makerAsk = c20LastOrder(app, mctx)
				} else {
					w.Count("maker_ask_not_created")
				}
			}

			// ---- the message handlers ----
			nAct := []int{24, 12}[phase]
			for ai := 0; ai < nAct; ai++ {
				a := pickAcct()
				good := func() bool { return r.Intn(9) != 0 }
				toPtr := func(c *c20Coin) *sdk.Coin {
					if c == nil {
						return nil
					}
					s := c.sdk()
					return &s
				}
				var msg sdk.Msg
				var term, kind string
				d := desc{"probe": "handler", "account_attrs": a.attrs}
				kinds := []string{"ask", "bid", "commit", "commit", "fillbids", "fillasks"}
				kind = kinds[r.Intn(len(kinds))]
				if kind == "fillbids" && makerBid == 0 && (created && m.AccOrders) {
					kind = "ask"
				}
				if kind == "fillasks" && makerAsk == 0 && (created && m.AccOrders) {
					kind = "bid"
				}
				switch kind {
				case "ask":
					var pd string
					if len(m.SellerRatios) > 0 && r.Intn(8) != 0 {
						pd = m.SellerRatios[r.Intn(len(m.SellerRatios))].PD
					} else {
						pd = c20PriceDenoms[r.Intn(len(c20PriceDenoms))]
					}
					sflat := c20FlatChoice(r, m.SellerFlat, good())
					if len(m.SellerFlat) == 0 && r.Intn(2) == 0 {
						sflat = nil
					}
					cfee := c20FlatChoice(r, m.CreateAsk, good())
					price := c20Coin{pd, c20Big(r.Int63n(1_000_000_000) + 1)}
					if r.Intn(6) == 0 { // near the fees taken out of the price
						fa := c20Big(0)
						if sflat != nil && sflat.D == pd {
							fa = sflat.A
						}
						price.A = new(big.Int).Add(fa, c20Big(r.Int63n(4)))
						if price.A.Sign() == 0 {
							price.A = c20Big(1)
						}
					}
					msg = &exchange.MsgCreateAskRequest{
						AskOrder:         exchange.AskOrder{MarketId: marketID, Seller: a.addr.String(), Assets: assets, Price: price.sdk(), SellerSettlementFlatFee: toPtr(sflat)},
						OrderCreationFee: toPtr(cfee),
					}
					term = "ACreateAsk " + price.coq() + " " + c20CoqOptCoin(sflat) + " " + c20CoqOptCoin(cfee)
					d["msg"], d["price"], d["seller_settlement_flat_fee"], d["creation_fee"] = "MsgCreateAsk", price.String(), c20OptStr(sflat), c20OptStr(cfee)
				case "bid":
					var pd string
					if len(m.BuyerRatios) > 0 && r.Intn(8) != 0 {
						pd = m.BuyerRatios[r.Intn(len(m.BuyerRatios))].PD
					} else {
						pd = c20PriceDenoms[r.Intn(len(c20PriceDenoms))]
					}
					price := c20Coin{pd, c20Big(r.Int63n(1_000_000) + 1)}
					fees := c20BuyerFees(r, m, price, good())
					cfee := c20FlatChoice(r, m.CreateBid, good())
					msg = &exchange.MsgCreateBidRequest{
						BidOrder:         exchange.BidOrder{MarketId: marketID, Buyer: a.addr.String(), Assets: assets, Price: price.sdk(), BuyerSettlementFees: sdk.NewCoins(c20Coins(fees)...)},
						OrderCreationFee: toPtr(cfee),
					}
					term = "ACreateBid " + price.coq() + " " + c20CoqCoins(fees) + " " + c20CoqOptCoin(cfee)
					d["msg"], d["price"], d["buyer_settlement_fees"], d["creation_fee"] = "MsgCreateBid", price.String(), c20StrCoins(fees), c20OptStr(cfee)
				case "commit":
					cfee := c20FlatChoice(r, m.CreateCom, good())
					msg = &exchange.MsgCommitFundsRequest{Account: a.addr.String(), MarketId: marketID,
						Amount: sdk.NewCoins(sdk.NewInt64Coin("ccoin", r.Int63n(1000)+1)), CreationFee: toPtr(cfee)}
					term = "ACommit " + c20CoqOptCoin(cfee)
					d["msg"], d["creation_fee"] = "MsgCommitFunds", c20OptStr(cfee)
				case "fillbids":
					sflat := c20FlatChoice(r, m.SellerFlat, good())
					if len(m.SellerFlat) == 0 {
						sflat = nil
					}
					cfee := c20FlatChoice(r, m.CreateAsk, good())
					id := makerBid
					bp := makerBidPrice
					if id == 0 { // rejected before the orders are looked up
						id, bp = 77, c20Coin{"pcoin", c20Big(5)}
					}
					msg = &exchange.MsgFillBidsRequest{Seller: a.addr.String(), MarketId: marketID, TotalAssets: sdk.NewCoins(assets),
						BidOrderIds: []uint64{id}, SellerSettlementFlatFee: toPtr(sflat), AskOrderCreationFee: toPtr(cfee)}
					term = "AFillBids " + bp.coq() + " " + c20CoqOptCoin(sflat) + " " + c20CoqOptCoin(cfee)
					d["msg"], d["bid_price"], d["seller_settlement_flat_fee"], d["creation_fee"] = "MsgFillBids", bp.String(), c20OptStr(sflat), c20OptStr(cfee)
				case "fillasks":
					id := makerAsk
					ap := makerAskPrice
					if id == 0 {
						id, ap = 77, c20Coin{"pcoin", c20Big(5)}
					}
					fees := c20BuyerFees(r, m, ap, good())
					cfee := c20FlatChoice(r, m.CreateBid, good())
					msg = &exchange.MsgFillAsksRequest{Buyer: a.addr.String(), MarketId: marketID, TotalPrice: ap.sdk(),
						AskOrderIds: []uint64{id}, BuyerSettlementFees: sdk.NewCoins(c20Coins(fees)...), BidOrderCreationFee: toPtr(cfee)}
					term = "AFillAsks " + ap.coq() + " " + c20CoqCoins(fees) + " " + c20CoqOptCoin(cfee)
					d["msg"], d["total_price"], d["buyer_settlement_fees"], d["creation_fee"] = "MsgFillAsks", ap.String(), c20StrCoins(fees), c20OptStr(cfee)
				}
				cctx, _ := mctx.CacheContext()
				e := handle(cctx, msg)
				d["ok"] = e == nil
				addProbe("PAct "+c20CoqStrs(a.attrs)+" ("+term+") "+coqBool(e == nil), d)
				w.Count("handler_" + kind)
				w.Count("handler_probes")
				if e == nil {
					w.Count("handler_probes_accepted")
					w.Count("handler_" + kind + "_accepted")
				}
				if created {
					probeKey(fmt.Sprintf("act/%d/%d/%d", mi, phase, ai))
				}
			}
		} // phase

		// ---- sequences: the same account acts again after it already has a commitment / orders ----
		// Successful requests are kept (sctx), so later requests of the sequence meet the records
		// the earlier ones left.  The admission rule does not depend on them.
		if created {
			sctx, _ := mctx.CacheContext()
			toPtr := func(c *c20Coin) *sdk.Coin {
				if c == nil {
					return nil
				}
				sc := c.sdk()
				return &sc
			}
			seqProbe := func(a c20Acct, msg sdk.Msg, term string, d desc, tag string) bool {
				cctx, write := sctx.CacheContext()
				e := handle(cctx, msg)
				if e == nil {
					write()
				}
				d["probe"], d["account_attrs"], d["ok"], d["sequence"] = "handler", a.attrs, e == nil, tag
				addProbe("PAct "+c20CoqStrs(a.attrs)+" ("+term+") "+coqBool(e == nil), d)
				w.Count("sequence_probes")
				w.Count("sequence_" + tag)
				if e == nil {
					w.Count("sequence_probes_accepted")
					w.Count("sequence_" + tag + "_accepted")
				}
				probeKey(fmt.Sprintf("seq/%d/%d", mi, len(probes)))
				return e == nil
			}
			// the fee variants offered after the first (paid) request
			variants := func(opts []c20Coin) []*c20Coin {
				out := []*c20Coin{nil}
				if len(opts) > 0 {
					o := opts[r.Intn(len(opts))]
					if o.A.Cmp(c20Big(1)) > 0 {
						out = append(out, &c20Coin{o.D, new(big.Int).Sub(o.A, c20Big(1))})
					}
					out = append(out, &c20Coin{o.D, new(big.Int).Set(o.A)})
				}
				return out
			}
			exact := func(opts []c20Coin) *c20Coin {
				if len(opts) == 0 {
					return nil
				}
				o := opts[r.Intn(len(opts))]
				return &c20Coin{o.D, new(big.Int).Set(o.A)}
			}
			commit := func(a c20Acct, cfee *c20Coin, tag string) bool {
				msg := &exchange.MsgCommitFundsRequest{Account: a.addr.String(), MarketId: marketID,
					Amount: sdk.NewCoins(sdk.NewInt64Coin("ccoin", r.Int63n(1000)+1)), CreationFee: toPtr(cfee)}
				return seqProbe(a, msg, "ACommit "+c20CoqOptCoin(cfee), desc{"msg": "MsgCommitFunds", "creation_fee": c20OptStr(cfee)}, tag)
			}
			ask := func(a c20Acct, cfee *c20Coin, tag string) bool {
				pd := c20PriceDenoms[r.Intn(len(c20PriceDenoms))]
				if len(m.SellerRatios) > 0 {
					pd = m.SellerRatios[r.Intn(len(m.SellerRatios))].PD
				}
				price := c20Coin{pd, new(big.Int).Add(pow2(68), c20Big(r.Int63n(1_000_000)))}
				sflat := exact(m.SellerFlat)
				msg := &exchange.MsgCreateAskRequest{
					AskOrder:         exchange.AskOrder{MarketId: marketID, Seller: a.addr.String(), Assets: assets, Price: price.sdk(), SellerSettlementFlatFee: toPtr(sflat)},
					OrderCreationFee: toPtr(cfee)}
				return seqProbe(a, msg, "ACreateAsk "+price.coq()+" "+c20CoqOptCoin(sflat)+" "+c20CoqOptCoin(cfee),
					desc{"msg": "MsgCreateAsk", "price": price.String(), "seller_settlement_flat_fee": c20OptStr(sflat), "creation_fee": c20OptStr(cfee)}, tag)
			}
			bid := func(a c20Acct, cfee *c20Coin, tag string) bool {
				pd := c20PriceDenoms[r.Intn(len(c20PriceDenoms))]
				if len(m.BuyerRatios) > 0 {
					pd = m.BuyerRatios[r.Intn(len(m.BuyerRatios))].PD
				}
				price := c20Coin{pd, c20Big(r.Int63n(1_000_000) + 1)}
				fees := c20BuyerFees(r, m, price, true)
				msg := &exchange.MsgCreateBidRequest{
					BidOrder:         exchange.BidOrder{MarketId: marketID, Buyer: a.addr.String(), Assets: assets, Price: price.sdk(), BuyerSettlementFees: sdk.NewCoins(c20Coins(fees)...)},
					OrderCreationFee: toPtr(cfee)}
				return seqProbe(a, msg, "ACreateBid "+price.coq()+" "+c20CoqCoins(fees)+" "+c20CoqOptCoin(cfee),
					desc{"msg": "MsgCreateBid", "price": price.String(), "buyer_settlement_fees": c20StrCoins(fees), "creation_fee": c20OptStr(cfee)}, tag)
			}
			type seqKind struct {
				name string
				opts []c20Coin
				f    func(c20Acct, *c20Coin, string) bool
			}
			for _, sk := range []seqKind{{"commit", m.CreateCom, commit}, {"ask", m.CreateAsk, ask}, {"bid", m.CreateBid, bid}} {
				a := accts[0] // holds every name: the first request is normally admitted
				if r.Intn(3) == 0 {
					a = pickAcct()
				}
				first := sk.f(a, exact(sk.opts), sk.name+"_first_paid")
				for _, v := range variants(sk.opts) {
					tag := sk.name + "_again"
					if first {
						tag = sk.name + "_again_with_existing_record"
						if v == nil && len(sk.opts) > 0 {
							tag += "_no_fee"
						}
					}
					sk.f(a, v, tag)
				}
			}
			// an account that got its commitment from a commitment settlement (never paid a fee)
			if m.AccCommit {
				src, dst := accts[0], accts[2+r.Intn(len(c20SmallSets))]
				amt := sdk.NewCoins(sdk.NewInt64Coin("ccoin", 50))
				for i := 0; i < 3 && k.GetCommitmentAmount(sctx, marketID, src.addr).AmountOf("ccoin").LT(sdkmath.NewInt(50)); i++ {
					if !commit(src, exact(m.CreateCom), "commit_source_paid") {
						break
					}
				}
				had := !k.GetCommitmentAmount(sctx, marketID, dst.addr).IsZero()
				if !k.GetCommitmentAmount(sctx, marketID, src.addr).AmountOf("ccoin").LT(sdkmath.NewInt(50)) && !had {
					e := try(func() error {
						return k.SettleCommitments(sctx, &exchange.MsgMarketCommitmentSettleRequest{Admin: maker.String(), MarketId: marketID,
							Inputs:  []exchange.AccountAmount{{Account: src.addr.String(), Amount: amt}},
							Outputs: []exchange.AccountAmount{{Account: dst.addr.String(), Amount: amt}}})
					})
					if e == nil && !k.GetCommitmentAmount(sctx, marketID, dst.addr).IsZero() {
						w.Count("commitment_settlements")
						for _, v := range variants(m.CreateCom) {
							tag := "commit_after_settlement_output"
							if v == nil && len(m.CreateCom) > 0 {
								tag += "_no_fee"
							}
							commit(dst, v, tag)
						}
					} else {
						w.Count("commitment_settlement_failed")
					}
				}
			}
		}

		if created && len(m0.CreateAsk)+len(m0.CreateBid)+len(m0.CreateCom)+len(m0.SellerFlat)+len(m0.BuyerFlat)+len(m0.BuyerRatios) > 0 &&
			len(m0.ReqAsk)+len(m0.ReqBid)+len(m0.ReqCom) > 0 {
			w.Nontrivial(m0.coq())
		}
		w.Add("CMarket "+m0.coq()+" "+coqBool(created)+" "+coqList(probes),
			desc{"market": m0.desc(), "created": created, "attribute_phase": phaseNames[ph], "probes": pdescs})
		if mi%(nMarkets/4+1) == 0 { // evidence samples: the market and a few of its probes
			var few []desc
			for i := 0; i < len(pdescs); i += len(pdescs)/5 + 1 {
				few = append(few, pdescs[i])
			}
			b, _ := json.Marshal(desc{"market": m0.desc(), "created": created, "some_probes": few})
			w.Samples = append(w.Samples, b)
		}
	}
	w.Stats["distinct_nontrivial_probes"] = int64(len(probeKeys))
	w.Flush(t)
}

// c20LastOrder returns the highest order id in the store (the order just created).
func c20LastOrder(app *simapp.App, ctx sdk.Context) uint64 {
	var last uint64
	_ = app.ExchangeKeeper.IterateOrders(ctx, func(o *exchange.Order) bool {
		if o.OrderId > last {
			last = o.OrderId
		}
		return false
	})
	return last
}
