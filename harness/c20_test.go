//go:build c20

package harness

// C20 — Markets admit only eligible, sufficiently paid orders and commitments.
//
// One case = one market handed to MsgGovCreateMarket (ValidateBasic + the real handler) together
// with the probes made against it through the real exchange keeper: the exported Validate*/Can*
// methods and the MsgCreateAsk / MsgCreateBid / MsgCommitFunds / MsgFillBids / MsgFillAsks
// handlers. Accounts get their attributes through the real name + attribute keepers; what the
// model is told about an account is the list AttributeKeeper.GetAllAttributesAddr returns (which is
// what the exchange keeper consults). Every account is funded amply, so accept/reject is the
// admission decision.

import (
	"encoding/json"
	"fmt"
	"math/big"
	"math/rand"
	"sort"
	"strings"
	"testing"
	"time"

	sdkmath "cosmossdk.io/math"
	sdk "github.com/cosmos/cosmos-sdk/types"

	simapp "github.com/provenance-io/provenance/app"
	"github.com/provenance-io/provenance/x/attribute"
	attrtypes "github.com/provenance-io/provenance/x/attribute/types"
	"github.com/provenance-io/provenance/internal/pioconfig"
	"github.com/provenance-io/provenance/x/exchange"
	exchangekeeper "github.com/provenance-io/provenance/x/exchange/keeper"
)

type c20Coin struct {
	D string
	A *big.Int
}
type c20Ratio struct {
	PD string
	PA *big.Int
	FD string
	FA *big.Int
}
type c20Market struct {
	CreateAsk, CreateBid, CreateCom, SellerFlat, BuyerFlat []c20Coin
	SellerRatios, BuyerRatios                              []c20Ratio
	AccOrders, UserSettle, AccCommit                       bool
	ReqAsk, ReqBid, ReqCom                                 []string
	Bips                                                   int64
	Interm                                                 string
}

func (c c20Coin) sdk() sdk.Coin  { return sdk.Coin{Denom: c.D, Amount: sdkmath.NewIntFromBigInt(c.A)} }
func (c c20Coin) coq() string    { return "(" + coqStr(c.D) + ", " + zBig(c.A) + ")" }
func (c c20Coin) String() string { return c.A.String() + c.D }
func (r c20Ratio) sdk() exchange.FeeRatio {
	return exchange.FeeRatio{Price: c20Coin{r.PD, r.PA}.sdk(), Fee: c20Coin{r.FD, r.FA}.sdk()}
}
func (r c20Ratio) coq() string {
	return "{| r_pd := " + coqStr(r.PD) + "; r_pa := " + zBig(r.PA) + "; r_fd := " + coqStr(r.FD) + "; r_fa := " + zBig(r.FA) + " |}"
}
func (r c20Ratio) String() string { return r.PA.String() + r.PD + ":" + r.FA.String() + r.FD }

func c20Coins(l []c20Coin) []sdk.Coin {
	var out []sdk.Coin
	for _, c := range l {
		out = append(out, c.sdk())
	}
	return out
}
func c20CoqCoins(l []c20Coin) string {
	items := make([]string, len(l))
	for i, c := range l {
		items[i] = c.coq()
	}
	return coqList(items)
}
func c20CoqOptCoin(c *c20Coin) string {
	if c == nil {
		return "None"
	}
	return "(Some " + c.coq() + ")"
}
func c20CoqRatios(l []c20Ratio) string {
	items := make([]string, len(l))
	for i, c := range l {
		items[i] = c.coq()
	}
	return coqList(items)
}
func c20CoqStrs(l []string) string {
	items := make([]string, len(l))
	for i, c := range l {
		items[i] = coqStr(c)
	}
	return coqList(items)
}
func c20StrCoins(l []c20Coin) []string {
	out := make([]string, len(l))
	for i, c := range l {
		out[i] = c.String()
	}
	return out
}
func c20OptStr(c *c20Coin) string {
	if c == nil {
		return ""
	}
	return c.String()
}

func (m c20Market) coq() string {
	return "{| m_create_ask := " + c20CoqCoins(m.CreateAsk) +
		"; m_create_bid := " + c20CoqCoins(m.CreateBid) +
		"; m_create_com := " + c20CoqCoins(m.CreateCom) +
		"; m_seller_flat := " + c20CoqCoins(m.SellerFlat) +
		"; m_seller_ratios := " + c20CoqRatios(m.SellerRatios) +
		"; m_buyer_flat := " + c20CoqCoins(m.BuyerFlat) +
		"; m_buyer_ratios := " + c20CoqRatios(m.BuyerRatios) +
		"; m_accepting_orders := " + coqBool(m.AccOrders) +
		"; m_user_settle := " + coqBool(m.UserSettle) +
		"; m_accepting_commitments := " + coqBool(m.AccCommit) +
		"; m_req_ask := " + c20CoqStrs(m.ReqAsk) +
		"; m_req_bid := " + c20CoqStrs(m.ReqBid) +
		"; m_req_com := " + c20CoqStrs(m.ReqCom) +
		"; m_bips := " + zI64(m.Bips) + "; m_interm := " + coqStr(m.Interm) + " |}"
}

func (m c20Market) desc() map[string]any {
	rs := func(l []c20Ratio) []string {
		out := make([]string, len(l))
		for i, r := range l {
			out[i] = r.String()
		}
		return out
	}
	return map[string]any{
		"create_ask_flat": c20StrCoins(m.CreateAsk), "create_bid_flat": c20StrCoins(m.CreateBid),
		"create_commitment_flat": c20StrCoins(m.CreateCom), "seller_flat": c20StrCoins(m.SellerFlat),
		"seller_ratios": rs(m.SellerRatios), "buyer_flat": c20StrCoins(m.BuyerFlat), "buyer_ratios": rs(m.BuyerRatios),
		"accepting_orders": m.AccOrders, "allow_user_settlement": m.UserSettle, "accepting_commitments": m.AccCommit,
		"req_attr_ask": m.ReqAsk, "req_attr_bid": m.ReqBid, "req_attr_commitment": m.ReqCom,
		"commitment_settlement_bips": m.Bips, "intermediary_denom": m.Interm,
	}
}

func (m c20Market) sdk(id uint32, grants []exchange.AccessGrant) exchange.Market {
	rs := func(l []c20Ratio) []exchange.FeeRatio {
		var out []exchange.FeeRatio
		for _, r := range l {
			out = append(out, r.sdk())
		}
		return out
	}
	return exchange.Market{
		MarketDetails:             exchange.MarketDetails{Name: "verif market"},
		FeeCreateAskFlat:          c20Coins(m.CreateAsk),
		FeeCreateBidFlat:          c20Coins(m.CreateBid),
		FeeCreateCommitmentFlat:   c20Coins(m.CreateCom),
		FeeSellerSettlementFlat:   c20Coins(m.SellerFlat),
		FeeSellerSettlementRatios: rs(m.SellerRatios),
		FeeBuyerSettlementFlat:    c20Coins(m.BuyerFlat),
		FeeBuyerSettlementRatios:  rs(m.BuyerRatios),
		AcceptingOrders:           m.AccOrders,
		AllowUserSettlement:       m.UserSettle,
		AcceptingCommitments:      m.AccCommit,
		ReqAttrCreateAsk:          m.ReqAsk,
		ReqAttrCreateBid:          m.ReqBid,
		ReqAttrCreateCommitment:   m.ReqCom,
		CommitmentSettlementBips:  uint32(m.Bips),
		IntermediaryDenom:         m.Interm,
		AccessGrants:              grants,
		MarketId:                  id,
	}
}

var (
	c20FeeDenoms   = []string{"acoin", "bcoin", "ccoin", "dcoin"}
	c20PriceDenoms = []string{"acoin", "bcoin", "pcoin"}
	c20AllDenoms   = []string{"acoin", "bcoin", "ccoin", "dcoin", "pcoin", "asset", "ecoin"}
	// names bound in the name module and usable as account attributes
	c20Names = []string{
		"kyc.prov", "buyer.kyc.prov", "special.seller.kyc.prov", "buyer.xkyc.prov", "xkyc.prov", "prov",
		"club", "gold.club", "vip.gold.club", "kyc.prov.extra", "6ba7b810-9dad-11d1-80b4-00c04fd430c8.kyc.prov",
	}
	// required attributes in normalised form; decorated (case, blanks) when given to a market
	c20Reqs = []string{"kyc.prov", "*.kyc.prov", "*.prov", "gold.club", "*.gold.club", "*.club", "*.xkyc.prov", "prov",
		"*.seller.kyc.prov", "buyer.kyc.prov"}
	// requirement families that a single attribute can cover completely
	c20OverlapFamilies = [][]string{
		{"buyer.kyc.prov", "*.kyc.prov", "*.prov"},
		{"special.seller.kyc.prov", "*.seller.kyc.prov", "*.kyc.prov", "*.prov"},
		{"*.kyc.prov", "*.prov"},
		{"gold.club", "*.club"},
		{"vip.gold.club", "*.gold.club", "*.club"},
		{"buyer.xkyc.prov", "*.xkyc.prov", "*.prov"},
	}
	// accounts with few attributes: 1 or 2 records, to be fewer than / equal to / more than the
	// number of requirements
	c20SmallSets = [][]string{
		{"buyer.kyc.prov"}, {"special.seller.kyc.prov"}, {"vip.gold.club"}, {"gold.club"}, {"kyc.prov"},
		{"buyer.kyc.prov", "gold.club"}, {"buyer.xkyc.prov", "vip.gold.club"}, {"prov", "club"},
	}
	c20BadReqs = []string{"", "*.", "kyc_prov", "a-b-c.prov", "*kyc.prov", "kyc.*.prov", "kyc..prov", "*", ".", "6BA7B810-9dad-11d1-80b4-00c04fd430c8.kyc.prov"}
)

func c20Big(v int64) *big.Int { return big.NewInt(v) }

func c20Amount(r *rand.Rand) *big.Int {
	switch r.Intn(10) {
	case 0, 1, 2:
		return c20Big([]int64{1, 2, 3, 5, 10, 100, 1000}[r.Intn(7)])
	case 3, 4, 5, 6:
		return c20Big(r.Int63n(500) + 1)
	case 7:
		return c20Big(r.Int63n(1_000_000) + 1)
	case 8:
		return new(big.Int).Add(pow2(uint(60+r.Intn(15))), c20Big(int64(r.Intn(3)-1)))
	default:
		return c20Big(r.Int63n(100_000_000_000) + 1)
	}
}

func c20Flats(r *rand.Rand) []c20Coin {
	n := []int{0, 0, 1, 1, 2, 3}[r.Intn(6)]
	perm := r.Perm(len(c20FeeDenoms))
	var out []c20Coin
	for i := 0; i < n; i++ {
		out = append(out, c20Coin{c20FeeDenoms[perm[i]], c20Amount(r)})
	}
	return out
}

func c20Decorate(r *rand.Rand, s string) string {
	if r.Intn(3) == 0 {
		return s
	}
	var sb strings.Builder
	blank := func() {
		switch r.Intn(6) {
		case 0:
			sb.WriteString(" ")
		case 1:
			sb.WriteString("  ")
		case 2:
			sb.WriteString("\t")
		}
	}
	blank()
	for _, c := range s {
		if c == '.' {
			if r.Intn(4) == 0 {
				blank()
			}
			sb.WriteRune(c)
			if r.Intn(4) == 0 {
				blank()
			}
			continue
		}
		if c >= 'a' && c <= 'z' && r.Intn(3) == 0 {
			c = c - 'a' + 'A'
		}
		sb.WriteRune(c)
	}
	blank()
	return sb.String()
}

func c20ReqList(r *rand.Rand, w *CaseWriter) []string {
	if r.Intn(2) == 0 {
		return nil
	}
	var out []string
	if r.Intn(5) < 2 {
		// overlapping requirements: exact + wildcard of the same base, nested wildcards - one
		// account attribute can satisfy several (or all) of them
		fam := c20OverlapFamilies[r.Intn(len(c20OverlapFamilies))]
		perm := r.Perm(len(fam))
		n := 2 + r.Intn(len(fam)-1)
		for i := 0; i < n; i++ {
			out = append(out, c20Decorate(r, fam[perm[i]]))
		}
		w.Count("req_lists_overlapping")
	} else {
		n := 1 + r.Intn(3)
		perm := r.Perm(len(c20Reqs))
		for i := 0; i < n; i++ {
			out = append(out, c20Decorate(r, c20Reqs[perm[i]]))
		}
	}
	switch r.Intn(24) {
	case 0: // an invalid or odd entry
		out = append(out, c20Decorate(r, c20BadReqs[r.Intn(len(c20BadReqs))]))
		w.Count("req_lists_with_odd_entry")
	case 1: // a duplicate after normalisation
		out = append(out, c20Decorate(r, strings.TrimSpace(strings.ToLower(out[0]))))
		w.Count("req_lists_with_duplicate")
	}
	return out
}

func c20GenMarket(r *rand.Rand, w *CaseWriter) c20Market {
	m := c20Market{
		CreateAsk: c20Flats(r), CreateBid: c20Flats(r), CreateCom: c20Flats(r),
		SellerFlat: c20Flats(r), BuyerFlat: c20Flats(r),
		AccOrders: r.Intn(8) != 0, UserSettle: r.Intn(6) != 0, AccCommit: r.Intn(8) != 0,
		ReqAsk: c20ReqList(r, w), ReqBid: c20ReqList(r, w), ReqCom: c20ReqList(r, w),
	}
	if r.Intn(3) == 0 {
		m.Bips = []int64{1, 25, 50, 300, 10000}[r.Intn(5)]
	}
	switch r.Intn(4) {
	case 0:
		m.Interm = c20ChainFeeDenom
	case 1:
		m.Interm = "interm"
	}
	np := []int{0, 1, 1, 2}[r.Intn(4)]
	perm := r.Perm(len(c20PriceDenoms))
	for i := 0; i < np; i++ {
		pd := c20PriceDenoms[perm[i]]
		// seller: price denom -> same denom, fee <= price
		rp := c20Amount(r)
		var rf *big.Int
		switch r.Intn(9) {
		case 0:
			rf = new(big.Int).Set(rp) // 1:1, no ask price can cover it
		case 1:
			rf = c20Big(0)
		default:
			rf = new(big.Int).Rand(r, new(big.Int).Add(rp, c20Big(1)))
		}
		m.SellerRatios = append(m.SellerRatios, c20Ratio{pd, rp, pd, rf})
		// buyer: 1-2 fee denoms per price denom
		cands := append([]string{pd}, c20FeeDenoms...)
		nb := 1 + r.Intn(2)
		seen := map[string]bool{}
		for j := 0; j < nb; j++ {
			fd := cands[r.Intn(len(cands))]
			if seen[fd] {
				continue
			}
			seen[fd] = true
			bp := c20Amount(r)
			bf := c20Amount(r)
			if r.Intn(8) == 0 {
				bf = c20Big(0)
			}
			if fd == pd && bf.Cmp(bp) > 0 {
				bp, bf = bf, bp
			}
			m.BuyerRatios = append(m.BuyerRatios, c20Ratio{pd, bp, fd, bf})
		}
	}
	return m
}

// c20WordBoundaryPrice picks a price whose product with the ratio's fee amount lies around a
// machine-word boundary (2^31, 2^32, 2^63, the upper half of 64 bits, 2^64): arithmetic that is
// right for small and for huge amounts can still be wrong there.
func c20WordBoundaryPrice(r *rand.Rand, fa *big.Int) *big.Int {
	if fa == nil || fa.Sign() <= 0 {
		return nil
	}
	targets := []*big.Int{pow2(63), pow2(64), new(big.Int).Mul(pow2(62), c20Big(3)), new(big.Int).Mul(pow2(60), c20Big(13)),
		pow2(32), pow2(31), new(big.Int).Sub(pow2(64), c20Big(1))}
	t := new(big.Int).Set(targets[r.Intn(len(targets))])
	p := new(big.Int).Quo(t, fa)
	p.Add(p, c20Big(int64(r.Intn(3)-1)))
	if p.Sign() <= 0 {
		return nil
	}
	return p
}

func c20Ceil(p, rf, rp *big.Int) *big.Int {
	num := new(big.Int).Mul(p, rf)
	q, rem := new(big.Int).QuoRem(num, rp, new(big.Int))
	if rem.Sign() != 0 {
		q.Add(q, c20Big(1))
	}
	return q
}

func c20FindFlat(opts []c20Coin, d string) *big.Int {
	for _, o := range opts {
		if o.D == d {
			return o.A
		}
	}
	return nil
}
func c20FindRatio(rs []c20Ratio, pd, fd string) *c20Ratio {
	for i := range rs {
		if rs[i].PD == pd && rs[i].FD == fd {
			return &rs[i]
		}
	}
	return nil
}

// c20FlatChoice picks a fee for a flat requirement: mostly sufficient.
func c20FlatChoice(r *rand.Rand, opts []c20Coin, good bool) *c20Coin {
	if len(opts) == 0 {
		if r.Intn(4) == 0 {
			return &c20Coin{c20FeeDenoms[r.Intn(len(c20FeeDenoms))], c20Big(r.Int63n(20) + 1)}
		}
		return nil
	}
	o := opts[r.Intn(len(opts))]
	if good {
		return &c20Coin{o.D, new(big.Int).Add(o.A, c20Big([]int64{0, 0, 0, 1, 7}[r.Intn(5)]))}
	}
	switch r.Intn(4) {
	case 0:
		return nil
	case 1:
		return &c20Coin{"ecoin", new(big.Int).Set(o.A)}
	default:
		a := new(big.Int).Sub(o.A, c20Big(1))
		if a.Sign() <= 0 {
			return nil
		}
		return &c20Coin{o.D, a}
	}
}

// c20BuyerFees builds an offered buyer settlement fee for the price: mostly sufficient.
func c20BuyerFees(r *rand.Rand, m c20Market, price c20Coin, good bool) []c20Coin {
	amts := map[string]*big.Int{}
	add := func(d string, a *big.Int) {
		if cur, ok := amts[d]; ok {
			amts[d] = new(big.Int).Add(cur, a)
		} else {
			amts[d] = new(big.Int).Set(a)
		}
	}
	if len(m.BuyerFlat) > 0 {
		o := m.BuyerFlat[r.Intn(len(m.BuyerFlat))]
		add(o.D, o.A)
	}
	var forPD []c20Ratio
	for _, rt := range m.BuyerRatios {
		if rt.PD == price.D {
			forPD = append(forPD, rt)
		}
	}
	if len(forPD) > 0 {
		rt := forPD[r.Intn(len(forPD))]
		add(rt.FD, c20Ceil(price.A, rt.FA, rt.PA))
	}
	if r.Intn(5) == 0 {
		add(c20AllDenoms[r.Intn(len(c20AllDenoms))], c20Big(r.Int63n(50)+1))
	}
	var keys []string
	for d := range amts {
		keys = append(keys, d)
	}
	sort.Strings(keys)
	if !good && len(keys) > 0 {
		d := keys[r.Intn(len(keys))]
		if r.Intn(3) == 0 {
			delete(amts, d)
		} else {
			amts[d] = new(big.Int).Sub(amts[d], c20Big(1))
		}
	} else if good && len(keys) > 0 && r.Intn(4) == 0 {
		d := keys[r.Intn(len(keys))]
		amts[d] = new(big.Int).Add(amts[d], c20Big(r.Int63n(5)+1))
	}
	var out []c20Coin
	for _, d := range keys {
		if a, ok := amts[d]; ok && a.Sign() > 0 {
			out = append(out, c20Coin{d, a})
		}
	}
	return out
}

type c20Acct struct {
	addr  sdk.AccAddress
	attrs []string // as returned by AttributeKeeper.GetAllAttributesAddr
}

func c20SetAttr(t *testing.T, app *simapp.App, ctx sdk.Context, owner, addr sdk.AccAddress, name string) {
	attr := attrtypes.Attribute{Name: name, Value: []byte("v"), AttributeType: attrtypes.AttributeType_String, Address: addr.String()}
	if err := app.AttributeKeeper.SetAttribute(ctx, attr, owner); err != nil {
		t.Fatalf("SetAttribute(%q): %v", name, err)
	}
}

func c20ReadAttrs(t *testing.T, app *simapp.App, ctx sdk.Context, addr sdk.AccAddress) []string {
	attrs, err := app.AttributeKeeper.GetAllAttributesAddr(ctx, addr)
	if err != nil {
		t.Fatalf("GetAllAttributesAddr: %v", err)
	}
	out := make([]string, len(attrs))
	for i, a := range attrs {
		out[i] = a.Name
	}
	return out
}

// c20ChainFeeDenom is the chain's fee denom (pioconfig), set by TestC20 before markets are generated.
var c20ChainFeeDenom = "nhash"

func TestC20(t *testing.T) {
	r := newRand("C20")
	w := NewCaseWriter("C20", "PV.Corr.C20", "check_all", scale(6, 40))
	app, baseCtx := newApp(t)
	t0 := time.Date(2026, 1, 1, 12, 0, 0, 0, time.UTC)
	baseCtx = baseCtx.WithBlockTime(t0)
	k := app.ExchangeKeeper
	qs := exchangekeeper.NewQueryServer(k)
	authority := k.GetAuthority()
	c20ChainFeeDenom = pioconfig.GetProvenanceConfig().FeeDenom
	feeDenom := c20ChainFeeDenom
	type desc map[string]any

	handle := func(ctx sdk.Context, msg sdk.Msg) error {
		return try(func() error {
			if vb, ok := msg.(interface{ ValidateBasic() error }); ok {
				if err := vb.ValidateBasic(); err != nil {
					return err
				}
			}
			h := app.MsgServiceRouter().Handler(msg)
			if h == nil {
				return fmt.Errorf("no handler for %T", msg)
			}
			_, err := h(ctx, msg)
			return err
		})
	}

	// ---- accounts, names, attributes (real name + attribute keepers) ----
	owner := addrN(900)
	ensureAccount(app, baseCtx, owner)
	for _, n := range c20Names {
		if err := app.NameKeeper.SetNameRecord(baseCtx, n, owner, false); err != nil {
			t.Fatalf("SetNameRecord(%q): %v", n, err)
		}
	}
	var rich sdk.Coins
	big30 := sdkmath.NewIntFromBigInt(new(big.Int).Exp(c20Big(10), c20Big(62), nil))
	for _, d := range append(append([]string{}, c20AllDenoms...), feeDenom, "interm", "aaaa") {
		rich = rich.Add(sdk.NewCoin(d, big30))
	}
	nAcct := 10 + len(c20SmallSets)
	accts := make([]c20Acct, nAcct)
	for i := range accts {
		a := addrN(901 + i)
		ensureAccount(app, baseCtx, a)
		fund(t, app, baseCtx, a, rich)
		var names []string
		switch i {
		case 0: // everything
			names = c20Names
		case 1: // nothing
		case 2, 3, 4, 5, 6, 7, 8, 9:
			names = c20SmallSets[i-2]
		default:
			perm := r.Perm(len(c20Names))
			n := 1 + r.Intn(6)
			for j := 0; j < n; j++ {
				names = append(names, c20Names[perm[j]])
			}
		}
		for _, n := range names {
			// the attribute keeper normalises what it is given
			c20SetAttr(t, app, baseCtx, owner, a, c20Decorate(r, n))
		}
		accts[i] = c20Acct{addr: a, attrs: c20ReadAttrs(t, app, baseCtx, a)}
		w.CountN("account_attributes", int64(len(accts[i].attrs)))
	}
	// accounts that hold the same attribute name under several values, some of the records with
	// an expiration date: 1h = passed when the later phases probe, 5h = still in the future
	type expAttr struct {
		name, value string
		hours       int
	}
	expSets := [][]expAttr{
		{{"buyer.kyc.prov", "v1", 1}, {"buyer.kyc.prov", "v2", 0}},
		{{"buyer.kyc.prov", "v1", 0}, {"buyer.kyc.prov", "v2", 1}},
		{{"buyer.kyc.prov", "v1", 1}, {"buyer.kyc.prov", "v2", 1}, {"buyer.kyc.prov", "v3", 0}, {"gold.club", "v1", 5}},
		{{"buyer.kyc.prov", "v1", 0}, {"buyer.kyc.prov", "v3", 1}, {"gold.club", "a", 1}, {"gold.club", "b", 0}},
		{{"buyer.kyc.prov", "v1", 1}, {"gold.club", "v1", 1}}, // only records that expire
		{{"special.seller.kyc.prov", "x", 1}, {"special.seller.kyc.prov", "y", 5}, {"vip.gold.club", "x", 0}, {"vip.gold.club", "y", 1}},
		{{"gold.club", "zz", 0}, {"gold.club", "aa", 1}, {"gold.club", "mm", 1}, {"buyer.xkyc.prov", "q", 1}, {"buyer.xkyc.prov", "r", 0}},
	}
	firstExp := nAcct
	onlyExpiring := firstExp + 4
	for i, set := range expSets {
		a := addrN(901 + firstExp + i)
		ensureAccount(app, baseCtx, a)
		fund(t, app, baseCtx, a, rich)
		for _, e := range set {
			attr := attrtypes.Attribute{Name: e.name, Value: []byte(e.value), AttributeType: attrtypes.AttributeType_String, Address: a.String()}
			if e.hours > 0 {
				exp := t0.Add(time.Duration(e.hours) * time.Hour)
				attr.ExpirationDate = &exp
			}
			if err := app.AttributeKeeper.SetAttribute(baseCtx, attr, owner); err != nil {
				t.Fatalf("SetAttribute(%q,%q): %v", e.name, e.value, err)
			}
		}
		accts = append(accts, c20Acct{addr: a})
	}
	// the market administrator (holds every name; granted every permission in every market)
	maker := addrN(950)
	ensureAccount(app, baseCtx, maker)
	fund(t, app, baseCtx, maker, rich)
	for _, n := range c20Names {
		c20SetAttr(t, app, baseCtx, owner, maker, n)
	}
	makerIdx := len(accts)
	accts = append(accts, c20Acct{addr: maker})
	// accounts that hold permissions in every market (and every name): one per single permission,
	// one with all of them, one with all but PERMISSION_SETTLE.  The rule "user fills need
	// allow_user_settlement" has no exception for them.
	grants := []exchange.AccessGrant{{Address: maker.String(), Permissions: exchange.AllPermissions()}}
	type holder struct {
		idx   int
		perms string
	}
	var holders []holder
	addHolder := func(n int, perms []exchange.Permission, label string) {
		a := addrN(n)
		ensureAccount(app, baseCtx, a)
		fund(t, app, baseCtx, a, rich)
		for _, nm := range c20Names {
			c20SetAttr(t, app, baseCtx, owner, a, nm)
		}
		holders = append(holders, holder{len(accts), label})
		accts = append(accts, c20Acct{addr: a})
		grants = append(grants, exchange.AccessGrant{Address: a.String(), Permissions: perms})
	}
	for i, p := range exchange.AllPermissions() {
		addHolder(970+i, []exchange.Permission{p}, p.SimpleString())
	}
	addHolder(980, exchange.AllPermissions(), "all")
	var noSettle []exchange.Permission
	for _, p := range exchange.AllPermissions() {
		if p != exchange.Permission_settle {
			noSettle = append(noSettle, p)
		}
	}
	addHolder(981, noSettle, "all but settle")
	nAcct = len(accts)
	stranger := addrN(960) // no permission anywhere
	ensureAccount(app, baseCtx, stranger)
	// The three situations in which admission is probed: at the time the attributes were set; two
	// hours later without the attribute module's begin-blocker having run (expired records are
	// still stored); two hours later after it ran (expired records purged).  The model is told
	// what AttributeKeeper.GetAllAttributesAddr returns in that situation.
	later := baseCtx.WithBlockTime(t0.Add(2 * time.Hour))
	swept, _ := later.CacheContext()
	attribute.BeginBlocker(swept, app.AttributeKeeper)
	phaseNames := []string{"at_set_time", "expired_not_swept", "expired_swept"}
	phaseCtxs := []sdk.Context{baseCtx, later, swept}
	phaseAccts := make([][]c20Acct, 3)
	for ph := range phaseCtxs {
		phaseAccts[ph] = make([]c20Acct, nAcct)
		for i, a := range accts {
			phaseAccts[ph][i] = c20Acct{addr: a.addr, attrs: c20ReadAttrs(t, app, phaseCtxs[ph], a.addr)}
		}
		w.CountN("attribute_records_"+phaseNames[ph], func() int64 {
			n := 0
			for _, a := range phaseAccts[ph][firstExp:makerIdx] {
				n += len(a.attrs)
			}
			return int64(n)
		}())
	}
	pickAcct := func() c20Acct {
		switch r.Intn(10) {
		case 0, 1, 2, 3, 4:
			return accts[0]
		case 5:
			return accts[1+r.Intn(1+len(c20SmallSets))] // none, one or two attributes
		case 6, 7:
			return accts[firstExp+r.Intn(makerIdx-firstExp)] // repeated names, expiring records
		}
		return accts[r.Intn(makerIdx)]
	}
	toPtr := func(c *c20Coin) *sdk.Coin {
		if c == nil {
			return nil
		}
		s := c.sdk()
		return &s
	}

	probeKeys := map[string]struct{}{}
	probeKey := func(k string) { probeKeys[k] = struct{}{} }
	nMarkets := scale(70, 1000)
	for mi := 0; mi < nMarkets; mi++ {
		m := c20GenMarket(r, w)
		ph := mi % 3
		accts = phaseAccts[ph]
		w.Count("markets_probed_" + phaseNames[ph])
		mctx, _ := phaseCtxs[ph].CacheContext()
		lastBefore := uint32(0)
		k.IterateKnownMarketIDs(mctx, func(id uint32) bool {
			if id > lastBefore {
				lastBefore = id
			}
			return false
		})
		// one market in three is created with an explicit id for which the authority has sent
		// configuration messages before (none of those endpoints checks that the market exists)
		var preOps []c20PreOp
		var preTerms []string
		var preDescs []map[string]any
		explicitID := uint32(0)
		if mi%3 == 1 {
			explicitID = uint32(700_000 + mi)
			preOps = c20GenPreOps(r, m)
			rawNotAccepting := false
			for _, po := range preOps {
				cctx, write := mctx.CacheContext()
				e := handle(cctx, po.msg(authority, explicitID))
				if e == nil {
					write()
					if po.Kind == "close" {
						rawNotAccepting = true
					} else if po.Kind == "orders" {
						rawNotAccepting = !po.V
					}
				}
				preTerms = append(preTerms, "("+po.coq()+", "+coqBool(e == nil)+")")
				d := po.desc()
				d["ok"] = e == nil
				preDescs = append(preDescs, d)
				w.Count("operations_before_creation")
				w.Count("operations_before_creation_" + po.Kind)
				if e == nil {
					w.Count("operations_before_creation_accepted")
				}
			}
			w.Count("markets_created_over_earlier_entries")
			if !k.IsMarketKnown(mctx, explicitID) && (rawNotAccepting && m.AccOrders ||
				k.IsUserSettlementAllowed(mctx, explicitID) && !m.UserSettle || k.IsMarketAcceptingCommitments(mctx, explicitID) && !m.AccCommit) {
				w.Count("markets_created_over_an_opposite_flag_entry")
			}
		}
		msg := &exchange.MsgGovCreateMarketRequest{Authority: authority, Market: m.sdk(explicitID, grants)}
		err := handle(mctx, msg)
		created := err == nil
		marketID := uint32(4_000_000) // unknown id when the market was not created
		if created && explicitID != 0 {
			marketID = explicitID
			w.Count("markets_created")
		} else if created {
			k.IterateKnownMarketIDs(mctx, func(id uint32) bool {
				if id > lastBefore {
					marketID = id
				}
				return false
			})
			if marketID == 4_000_000 {
				t.Fatalf("created market not found")
			}
			w.Count("markets_created")
		} else {
			w.Count("markets_rejected")
		}

		var probes []string
		var pdescs []desc
		addProbe := func(term string, d desc) {
			d["i"] = len(probes)
			probes = append(probes, term)
			pdescs = append(pdescs, d)
			w.Count("probes")
		}
		m0 := m // the market as created; m follows the changes made below (read back from the keeper)

		// ---- flat fee validators: nil, every option at -1/0/+1, a foreign denom ----
		probeFlats := func(light bool) {
			flatKinds := []struct {
				name string
				opts []c20Coin
				f    func(sdk.Context, uint32, *sdk.Coin) error
			}{
				{"KCreateAsk", m.CreateAsk, k.ValidateCreateAskFlatFee},
				{"KCreateBid", m.CreateBid, k.ValidateCreateBidFlatFee},
				{"KCreateCom", m.CreateCom, k.ValidateCreateCommitmentFlatFee},
				{"KSellerFlat", m.SellerFlat, k.ValidateSellerSettlementFlatFee},
			}
			for _, fk := range flatKinds {
				fees := []*c20Coin{nil}
				if !light || r.Intn(3) == 0 {
					fees = append(fees, &c20Coin{c20AllDenoms[r.Intn(len(c20AllDenoms))], c20Amount(r)})
				}
				for _, o := range fk.opts {
					for _, dlt := range []int64{-1, 0, 1} {
						if light && dlt == 1 {
							continue
						}
						a := new(big.Int).Add(o.A, c20Big(dlt))
						if a.Sign() >= 0 {
							fees = append(fees, &c20Coin{o.D, a})
						}
					}
				}
				for _, fee := range fees {
					var sc *sdk.Coin
					if fee != nil {
						c := fee.sdk()
						sc = &c
					}
					e := try(func() error { return fk.f(mctx, marketID, sc) })
					addProbe("PFlat "+fk.name+" "+c20CoqOptCoin(fee)+" "+coqBool(e == nil),
						desc{"probe": "ValidateFlatFee", "kind": fk.name, "fee": c20OptStr(fee), "ok": e == nil})
					w.Count("flat_probes")
					if e == nil {
						w.Count("flat_probes_accepted")
					}
					if len(fk.opts) > 0 && fee != nil {
						probeKey(fmt.Sprintf("flat/%v/%s", c20StrCoins(fk.opts), fee))
					}
				}
			}
		}

		// ---- buyer settlement fee validator: 0-3 coins at the boundaries, shuffled; some offers
		// are not valid sdk.Coins (a denom twice, a zero coin) - the keeper method does not care ----
		probeBuyer := func(nBuyer int) {
			for bi := 0; bi < nBuyer; bi++ {
				var pd string
				if len(m.BuyerRatios) > 0 && r.Intn(6) != 0 {
					pd = m.BuyerRatios[r.Intn(len(m.BuyerRatios))].PD
				} else {
					pd = c20PriceDenoms[r.Intn(len(c20PriceDenoms))]
				}
				price := c20Coin{pd, c20Amount(r)}
				if r.Intn(12) == 0 {
					price.A = c20Big(0)
				}
				if r.Intn(5) == 0 {
					var forPD []c20Ratio
					for _, rt := range m.BuyerRatios {
						if rt.PD == pd {
							forPD = append(forPD, rt)
						}
					}
					if len(forPD) > 0 {
						if bp := c20WordBoundaryPrice(r, forPD[r.Intn(len(forPD))].FA); bp != nil {
							price.A = bp
							w.Count("buyer_fee_probes_price_times_fee_at_word_boundary")
						}
					}
				}
				// candidate denoms: those with a flat option or a ratio for pd first
				var cands []string
				for _, o := range m.BuyerFlat {
					cands = append(cands, o.D)
				}
				for _, rt := range m.BuyerRatios {
					if rt.PD == pd {
						cands = append(cands, rt.FD)
					}
				}
				cands = append(cands, c20AllDenoms[r.Intn(len(c20AllDenoms))])
				n := []int{0, 1, 1, 2, 2, 2, 3, 3}[r.Intn(8)]
				dupOK := r.Intn(8) == 0 // the same denom may come twice
				seen := map[string]bool{}
				var fee []c20Coin
				for j := 0; j < n; j++ {
					d := cands[r.Intn(len(cands))]
					if seen[d] && !dupOK {
						d = c20AllDenoms[r.Intn(len(c20AllDenoms))]
						if seen[d] {
							continue
						}
					}
					if seen[d] {
						w.Count("buyer_fee_probes_with_repeated_denom")
					}
					seen[d] = true
					f := c20FindFlat(m.BuyerFlat, d)
					var rr *big.Int
					if rt := c20FindRatio(m.BuyerRatios, pd, d); rt != nil {
						rr = c20Ceil(price.A, rt.FA, rt.PA)
					}
					var bases []*big.Int
					if f != nil {
						bases = append(bases, f)
					}
					if rr != nil {
						bases = append(bases, rr)
					}
					if f != nil && rr != nil {
						s := new(big.Int).Add(f, rr)
						bases = append(bases, s, s) // the summed requirement twice as likely
					}
					var a *big.Int
					if len(bases) == 0 || r.Intn(10) == 0 {
						a = c20Amount(r)
					} else {
						a = new(big.Int).Add(bases[r.Intn(len(bases))], c20Big(int64(r.Intn(3)-1)))
					}
					if a.Sign() < 0 {
						a = c20Big(0)
					}
					fee = append(fee, c20Coin{d, a})
				}
				r.Shuffle(len(fee), func(i, j int) { fee[i], fee[j] = fee[j], fee[i] })
				e := try(func() error {
					return k.ValidateBuyerSettlementFee(mctx, marketID, price.sdk(), sdk.Coins(c20Coins(fee)))
				})
				addProbe("PBuyer "+price.coq()+" "+c20CoqCoins(fee)+" "+coqBool(e == nil),
					desc{"probe": "ValidateBuyerSettlementFee", "price": price.String(), "fee": c20StrCoins(fee), "ok": e == nil})
				w.Count("buyer_fee_probes")
				w.Count(fmt.Sprintf("buyer_fee_probes_%d_coins", len(fee)))
				if e == nil {
					w.Count("buyer_fee_probes_accepted")
				}
				if created && (len(m.BuyerFlat) > 0 || len(m.BuyerRatios) > 0) && len(fee) > 0 {
					probeKey(fmt.Sprintf("buyer/%v/%v/%s/%v", c20StrCoins(m.BuyerFlat), m.BuyerRatios, price, c20StrCoins(fee)))
				}
				if created && len(m.BuyerFlat) > 0 && len(m.BuyerRatios) > 0 {
					w.Count("buyer_fee_probes_flat_and_ratio_required")
				}
			}
		}

		// ---- ask price validator around the point where the price stops covering the fees ----
		probeAskPrice := func(nAsk int) {
			for ai := 0; ai < nAsk; ai++ {
				var pd string
				if len(m.SellerRatios) > 0 && r.Intn(6) != 0 {
					pd = m.SellerRatios[r.Intn(len(m.SellerRatios))].PD
				} else {
					pd = c20PriceDenoms[r.Intn(len(c20PriceDenoms))]
				}
				var flat *c20Coin
				switch r.Intn(4) {
				case 0:
				case 1:
					flat = &c20Coin{pd, c20Amount(r)}
				default:
					if len(m.SellerFlat) > 0 {
						o := m.SellerFlat[r.Intn(len(m.SellerFlat))]
						flat = &c20Coin{o.D, new(big.Int).Set(o.A)}
					} else {
						flat = &c20Coin{pd, c20Big(r.Int63n(30))}
					}
				}
				// the threshold: smallest p with p > flat + ceil(p*rf/rp), about flat*rp/(rp-rf)
				fa := c20Big(0)
				if flat != nil && flat.D == pd {
					fa = flat.A
				}
				base := new(big.Int).Set(fa)
				if rt := c20FindRatio(m.SellerRatios, pd, pd); rt != nil && rt.PA.Cmp(rt.FA) > 0 {
					d := new(big.Int).Sub(rt.PA, rt.FA)
					base = new(big.Int).Quo(new(big.Int).Mul(fa, rt.PA), d)
				}
				var pa *big.Int
				if r.Intn(5) == 0 {
					pa = c20Amount(r)
				} else {
					pa = new(big.Int).Add(base, c20Big(int64(r.Intn(7)-2)))
				}
				if pa.Sign() < 0 {
					pa = c20Big(0)
				}
				price := c20Coin{pd, pa}
				var sc *sdk.Coin
				if flat != nil {
					c := flat.sdk()
					sc = &c
				}
				e := try(func() error { return k.ValidateAskPrice(mctx, marketID, price.sdk(), sc) })
				addProbe("PAskPrice "+price.coq()+" "+c20CoqOptCoin(flat)+" "+coqBool(e == nil),
					desc{"probe": "ValidateAskPrice", "price": price.String(), "flat": c20OptStr(flat), "ok": e == nil})
				w.Count("ask_price_probes")
				if e == nil {
					w.Count("ask_price_probes_accepted")
				}
				if created && (len(m.SellerRatios) > 0 || fa.Sign() > 0) {
					probeKey(fmt.Sprintf("askprice/%v/%s/%s", m.SellerRatios, price, c20OptStr(flat)))
				}
			}
		}

		// ---- CanCreateAsk / CanCreateBid / CanCreateCommitment ----
		probeCan := func(every bool) {
			canKinds := []struct {
				name string
				reqs []string
				f    func(sdk.Context, uint32, sdk.AccAddress) bool
			}{
				{"RAsk", m.ReqAsk, k.CanCreateAsk}, {"RBid", m.ReqBid, k.CanCreateBid}, {"RCom", m.ReqCom, k.CanCreateCommitment},
			}
			for _, ck := range canKinds {
				if len(ck.reqs) == 0 && r.Intn(4) != 0 {
					continue
				}
				for ai, a := range accts[:makerIdx] {
					if !every && ai > 1 && r.Intn(3) != 0 {
						continue
					}
					var ok bool
					e := try(func() error { ok = ck.f(mctx, marketID, a.addr); return nil })
					ok = ok && e == nil
					addProbe("PCan "+ck.name+" "+c20CoqStrs(a.attrs)+" "+coqBool(ok),
						desc{"probe": "CanCreate", "kind": ck.name, "account_attrs": a.attrs, "ok": ok})
					w.Count("can_create_probes")
					if ok {
						w.Count("can_create_probes_allowed")
						if created && len(ck.reqs) > 0 && ph == 1 && a.addr.Equals(accts[onlyExpiring].addr) {
							w.Count("observation_allowed_on_expired_unswept_records_only")
						}
						if len(ck.reqs) > 0 && len(a.attrs) < len(ck.reqs) {
							w.Count("can_create_allowed_with_fewer_attrs_than_reqs_" + ck.name)
						}
					}
					if created && len(ck.reqs) > 0 {
						probeKey(fmt.Sprintf("can/%v/%v", ck.reqs, a.attrs))
					}
				}
			}
		}

		// ---- counter orders for the fill endpoints (the maker holds every attribute) ----
		var makerBid, makerBid2, makerAsk uint64
		var makerBidPrice, makerBid2Price, makerAskPrice c20Coin
		assets := sdk.NewInt64Coin("asset", 10)
		makeOrders := func() {
			if !(created && m.AccOrders && makerBid == 0 && makerAsk == 0) {
				return
			}
			pd := c20PriceDenoms[r.Intn(len(c20PriceDenoms))]
			if len(m.BuyerRatios) > 0 {
				pd = m.BuyerRatios[r.Intn(len(m.BuyerRatios))].PD
			}
			mkBid := func(pd string) (uint64, c20Coin) {
				price := c20Coin{pd, c20Big(r.Int63n(1_000_000) + 1000)}
				bidFees := c20BuyerFees(r, m, price, true)
				bmsg := &exchange.MsgCreateBidRequest{
					BidOrder: exchange.BidOrder{MarketId: marketID, Buyer: maker.String(), Assets: assets, Price: price.sdk(),
						BuyerSettlementFees: sdk.NewCoins(c20Coins(bidFees)...)},
				}
				if f := c20FlatChoice(r, m.CreateBid, true); f != nil {
					c := f.sdk()
					bmsg.OrderCreationFee = &c
				}
				if e := handle(mctx, bmsg); e == nil {
					return c20LastOrder(app, mctx), price
				}
				return 0, price
			}
			makerBid, makerBidPrice = mkBid(pd)
			if makerBid == 0 {
				w.Count("maker_bid_not_created")
			}
			// a second bid priced in another denom: filling both needs a seller ratio for both denoms
			var others []string
			for _, d := range c20PriceDenoms {
				if d != pd {
					others = append(others, d)
				}
			}
			makerBid2, makerBid2Price = mkBid(others[r.Intn(len(others))])
			makerAskPrice = c20Coin{pd, new(big.Int).Add(pow2(70), c20Big(r.Int63n(1000)))}
			amsg := &exchange.MsgCreateAskRequest{
				AskOrder: exchange.AskOrder{MarketId: marketID, Seller: maker.String(), Assets: assets, Price: makerAskPrice.sdk()},
			}
			if f := c20FlatChoice(r, m.SellerFlat, true); f != nil && len(m.SellerFlat) > 0 {
				c := f.sdk()
				amsg.AskOrder.SellerSettlementFlatFee = &c
			}
			if f := c20FlatChoice(r, m.CreateAsk, true); f != nil {
				c := f.sdk()
				amsg.OrderCreationFee = &c
			}
			if e := handle(mctx, amsg); e == nil {
				makerAsk = c20LastOrder(app, mctx)
			} else {
				w.Count("maker_ask_not_created")
			}
		}

		// fill requests: which orders, and whether the request names them correctly
		type fillTarget struct {
			ids    []uint64
			ok     bool
			prices []c20Coin // bids: one coin per denom; asks: the total price
			assets sdk.Coins
			who    *c20Acct // non-nil: the request must come from this account (own order)
			how    string
		}
		fillBidsTarget := func() fillTarget {
			if makerBid == 0 {
				return fillTarget{ids: []uint64{7777777}, ok: false, prices: []c20Coin{{"pcoin", c20Big(5)}}, assets: sdk.NewCoins(assets), how: "no such order"}
			}
			ft := fillTarget{ids: []uint64{makerBid}, ok: true, prices: []c20Coin{makerBidPrice}, assets: sdk.NewCoins(assets), how: "one bid"}
			if makerBid2 != 0 && r.Intn(3) == 0 {
				ft.ids = []uint64{makerBid, makerBid2}
				ft.prices = c20FromCoins(sdk.NewCoins(makerBidPrice.sdk(), makerBid2Price.sdk()))
				ft.assets = sdk.NewCoins(assets.Add(assets))
				ft.how = "two bids priced in two denoms"
				w.Count("fill_bids_two_price_denoms")
			}
			switch r.Intn(16) {
			case 0:
				ft.ids, ft.ok, ft.how = append(ft.ids, 7777777), false, "one order does not exist"
			case 1:
				if makerAsk != 0 {
					ft.ids, ft.ok, ft.how = []uint64{makerAsk}, false, "the order is an ask"
				}
			case 2:
				ft.assets, ft.ok, ft.how = sdk.NewCoins(sdk.NewInt64Coin("asset", 11)), false, "wrong total assets"
			case 3:
				ft.who, ft.ok, ft.how = &accts[makerIdx], false, "own order"
			}
			if !ft.ok {
				w.Count("fill_requests_with_wrong_orders")
			}
			return ft
		}
		fillAsksTarget := func() fillTarget {
			if makerAsk == 0 {
				return fillTarget{ids: []uint64{7777777}, ok: false, prices: []c20Coin{{"pcoin", c20Big(5)}}, how: "no such order"}
			}
			ft := fillTarget{ids: []uint64{makerAsk}, ok: true, prices: []c20Coin{makerAskPrice}, how: "one ask"}
			switch r.Intn(16) {
			case 0:
				ft.ids, ft.ok, ft.how = []uint64{makerAsk, 7777777}, false, "one order does not exist"
			case 1:
				if makerBid != 0 {
					ft.ids, ft.ok, ft.how = []uint64{makerBid}, false, "the order is a bid"
				}
			case 2:
				ft.prices = []c20Coin{{makerAskPrice.D, new(big.Int).Add(makerAskPrice.A, c20Big(1))}}
				ft.ok, ft.how = false, "wrong total price"
			case 3:
				ft.who, ft.ok, ft.how = &accts[makerIdx], false, "own order"
			}
			if !ft.ok {
				w.Count("fill_requests_with_wrong_orders")
			}
			return ft
		}

		// ---- the message handlers ----
		probeHandlers := func(nAct int, round string) {
			for ai := 0; ai < nAct; ai++ {
				a := pickAcct()
				good := func() bool { return r.Intn(12) != 0 }
				var msg sdk.Msg
				var term, kind string
				d := desc{"probe": "handler"}
				kinds := []string{"ask", "bid", "commit", "commit", "fillbids", "fillasks"}
				kind = kinds[r.Intn(len(kinds))]
				switch kind {
				case "ask":
					var pd string
					if len(m.SellerRatios) > 0 && r.Intn(8) != 0 {
						pd = m.SellerRatios[r.Intn(len(m.SellerRatios))].PD
					} else {
						pd = c20PriceDenoms[r.Intn(len(c20PriceDenoms))]
					}
					sflat := c20FlatChoice(r, m.SellerFlat, good())
					if len(m.SellerFlat) == 0 && r.Intn(2) == 0 {
						sflat = nil
					}
					cfee := c20FlatChoice(r, m.CreateAsk, good())
					price := c20Coin{pd, c20Big(r.Int63n(1_000_000_000) + 1)}
					if r.Intn(6) == 0 { // near the fees taken out of the price
						fa := c20Big(0)
						if sflat != nil && sflat.D == pd {
							fa = sflat.A
						}
						price.A = new(big.Int).Add(fa, c20Big(r.Int63n(4)))
						if price.A.Sign() == 0 {
							price.A = c20Big(1)
						}
					}
					msg = &exchange.MsgCreateAskRequest{
						AskOrder:         exchange.AskOrder{MarketId: marketID, Seller: a.addr.String(), Assets: assets, Price: price.sdk(), SellerSettlementFlatFee: toPtr(sflat)},
						OrderCreationFee: toPtr(cfee),
					}
					term = "ACreateAsk " + price.coq() + " " + c20CoqOptCoin(sflat) + " " + c20CoqOptCoin(cfee)
					d["msg"], d["price"], d["seller_settlement_flat_fee"], d["creation_fee"] = "MsgCreateAsk", price.String(), c20OptStr(sflat), c20OptStr(cfee)
				case "bid":
					var pd string
					if len(m.BuyerRatios) > 0 && r.Intn(8) != 0 {
						pd = m.BuyerRatios[r.Intn(len(m.BuyerRatios))].PD
					} else {
						pd = c20PriceDenoms[r.Intn(len(c20PriceDenoms))]
					}
					price := c20Coin{pd, c20Big(r.Int63n(1_000_000) + 1)}
					fees := c20BuyerFees(r, m, price, good())
					cfee := c20FlatChoice(r, m.CreateBid, good())
					msg = &exchange.MsgCreateBidRequest{
						BidOrder:         exchange.BidOrder{MarketId: marketID, Buyer: a.addr.String(), Assets: assets, Price: price.sdk(), BuyerSettlementFees: sdk.NewCoins(c20Coins(fees)...)},
						OrderCreationFee: toPtr(cfee),
					}
					term = "ACreateBid " + price.coq() + " " + c20CoqCoins(fees) + " " + c20CoqOptCoin(cfee)
					d["msg"], d["price"], d["buyer_settlement_fees"], d["creation_fee"] = "MsgCreateBid", price.String(), c20StrCoins(fees), c20OptStr(cfee)
				case "commit":
					cfee := c20FlatChoice(r, m.CreateCom, good())
					msg = &exchange.MsgCommitFundsRequest{Account: a.addr.String(), MarketId: marketID,
						Amount: sdk.NewCoins(sdk.NewInt64Coin("ccoin", r.Int63n(1000)+1)), CreationFee: toPtr(cfee)}
					term = "ACommit " + c20CoqOptCoin(cfee)
					d["msg"], d["creation_fee"] = "MsgCommitFunds", c20OptStr(cfee)
				case "fillbids":
					ft := fillBidsTarget()
					if ft.who != nil {
						a = *ft.who
					}
					sflat := c20FlatChoice(r, m.SellerFlat, good())
					if len(m.SellerFlat) == 0 {
						sflat = nil
					}
					cfee := c20FlatChoice(r, m.CreateAsk, good())
					msg = &exchange.MsgFillBidsRequest{Seller: a.addr.String(), MarketId: marketID, TotalAssets: ft.assets,
						BidOrderIds: ft.ids, SellerSettlementFlatFee: toPtr(sflat), AskOrderCreationFee: toPtr(cfee)}
					term = "AFillBids " + coqBool(ft.ok) + " " + c20CoqCoins(ft.prices) + " " + c20CoqOptCoin(sflat) + " " + c20CoqOptCoin(cfee)
					d["msg"], d["bid_prices"], d["orders"], d["seller_settlement_flat_fee"], d["creation_fee"] = "MsgFillBids", c20StrCoins(ft.prices), ft.how, c20OptStr(sflat), c20OptStr(cfee)
				case "fillasks":
					ft := fillAsksTarget()
					if ft.who != nil {
						a = *ft.who
					}
					ap := ft.prices[0]
					fees := c20BuyerFees(r, m, ap, good())
					cfee := c20FlatChoice(r, m.CreateBid, good())
					msg = &exchange.MsgFillAsksRequest{Buyer: a.addr.String(), MarketId: marketID, TotalPrice: ap.sdk(),
						AskOrderIds: ft.ids, BuyerSettlementFees: sdk.NewCoins(c20Coins(fees)...), BidOrderCreationFee: toPtr(cfee)}
					term = "AFillAsks " + coqBool(ft.ok) + " " + ap.coq() + " " + c20CoqCoins(fees) + " " + c20CoqOptCoin(cfee)
					d["msg"], d["total_price"], d["orders"], d["buyer_settlement_fees"], d["creation_fee"] = "MsgFillAsks", ap.String(), ft.how, c20StrCoins(fees), c20OptStr(cfee)
				}
				d["account_attrs"] = a.attrs
				cctx, _ := mctx.CacheContext()
				e := handle(cctx, msg)
				d["ok"] = e == nil
				addProbe("PAct "+c20CoqStrs(a.attrs)+" ("+term+") "+coqBool(e == nil), d)
				w.Count("handler_" + kind)
				w.Count("handler_probes")
				if e == nil {
					w.Count("handler_probes_accepted")
					w.Count("handler_" + kind + "_accepted")
				}
				if created {
					probeKey(fmt.Sprintf("act/%d/%s/%d", mi, round, ai))
				}
			}
		}

		// ---- fills by accounts that hold market permissions (each single one, all, all but settle):
		// they are users like any other - no flag is waived for them ----
		probeHolderFills := func(n int) {
			if !created || (makerBid == 0 && makerAsk == 0) {
				return
			}
			perm := r.Perm(len(holders))
			for i := 0; i < n && i < len(perm); i++ {
				h := holders[perm[i]]
				a := accts[h.idx]
				d := desc{"probe": "handler", "account_attrs": a.attrs, "filler_permissions": h.perms}
				var msg sdk.Msg
				var term, kind string
				if makerBid != 0 && (makerAsk == 0 || r.Intn(2) == 0) {
					kind = "fillbids"
					var sflat *c20Coin
					if len(m.SellerFlat) > 0 {
						sflat = c20FlatChoice(r, m.SellerFlat, true)
					}
					cfee := c20FlatChoice(r, m.CreateAsk, true)
					if len(m.CreateAsk) == 0 {
						cfee = nil
					}
					msg = &exchange.MsgFillBidsRequest{Seller: a.addr.String(), MarketId: marketID, TotalAssets: sdk.NewCoins(assets),
						BidOrderIds: []uint64{makerBid}, SellerSettlementFlatFee: toPtr(sflat), AskOrderCreationFee: toPtr(cfee)}
					term = "AFillBids true " + c20CoqCoins([]c20Coin{makerBidPrice}) + " " + c20CoqOptCoin(sflat) + " " + c20CoqOptCoin(cfee)
					d["msg"], d["bid_prices"], d["seller_settlement_flat_fee"], d["creation_fee"] = "MsgFillBids", makerBidPrice.String(), c20OptStr(sflat), c20OptStr(cfee)
				} else {
					kind = "fillasks"
					fees := c20BuyerFees(r, m, makerAskPrice, true)
					cfee := c20FlatChoice(r, m.CreateBid, true)
					if len(m.CreateBid) == 0 {
						cfee = nil
					}
					msg = &exchange.MsgFillAsksRequest{Buyer: a.addr.String(), MarketId: marketID, TotalPrice: makerAskPrice.sdk(),
						AskOrderIds: []uint64{makerAsk}, BuyerSettlementFees: sdk.NewCoins(c20Coins(fees)...), BidOrderCreationFee: toPtr(cfee)}
					term = "AFillAsks true " + makerAskPrice.coq() + " " + c20CoqCoins(fees) + " " + c20CoqOptCoin(cfee)
					d["msg"], d["total_price"], d["buyer_settlement_fees"], d["creation_fee"] = "MsgFillAsks", makerAskPrice.String(), c20StrCoins(fees), c20OptStr(cfee)
				}
				cctx, _ := mctx.CacheContext()
				e := handle(cctx, msg)
				d["ok"] = e == nil
				addProbe("PAct "+c20CoqStrs(a.attrs)+" ("+term+") "+coqBool(e == nil), d)
				w.Count("holder_fills")
				w.Count("holder_fills_" + kind)
				if e == nil {
					w.Count("holder_fills_accepted")
				}
				if !m.UserSettle && m.AccOrders {
					w.Count("holder_fills_in_market_without_user_settlement")
					if h.perms == "settle" || h.perms == "all" {
						w.Count("holder_fills_by_settle_permission_in_market_without_user_settlement")
					}
				}
				probeKey(fmt.Sprintf("holderfill/%d/%d", mi, len(probes)))
			}
		}

		// ---- requests that ValidateBasic must refuse although the fees would be enough: the same
		// denom twice, a zero coin, coins out of order, a zero / negative single fee, a zero price ----
		probeMalformed := func(n int) {
			a := accts[0]
			for i := 0; i < n; i++ {
				var pd string
				if len(m.BuyerRatios) > 0 {
					pd = m.BuyerRatios[r.Intn(len(m.BuyerRatios))].PD
				} else {
					pd = c20PriceDenoms[r.Intn(len(c20PriceDenoms))]
				}
				price := c20Coin{pd, c20Big(r.Int63n(1_000_000) + 1)}
				fees := c20BuyerFees(r, m, price, true)
				cfee := c20FlatChoice(r, m.CreateBid, true)
				var shape string
				switch r.Intn(7) {
				case 0: // split one coin in two of the same denom, or repeat it
					if len(fees) > 0 {
						j := r.Intn(len(fees))
						c := fees[j]
						if c.A.Cmp(c20Big(1)) > 0 && r.Intn(2) == 0 {
							h := new(big.Int).Rsh(c.A, 1)
							fees[j].A = new(big.Int).Sub(c.A, h)
							c.A = h
						}
						fees = append(fees[:j+1], append([]c20Coin{c}, fees[j+1:]...)...)
					} else {
						fees = []c20Coin{{"acoin", c20Big(1)}, {"acoin", c20Big(1)}}
					}
					shape = "a denom twice"
				case 1:
					fees = append([]c20Coin{{"aaaa", c20Big(0)}}, fees...)
					shape = "a zero coin"
				case 2:
					switch len(fees) {
					case 0:
						fees = []c20Coin{{"bcoin", c20Big(2)}, {"aaaa", c20Big(3)}}
					case 1:
						fees = append(fees, c20Coin{"aaaa", c20Big(3)})
					default:
						fees[0], fees[len(fees)-1] = fees[len(fees)-1], fees[0]
					}
					shape = "coins out of order"
				case 3:
					cfee = &c20Coin{"acoin", c20Big(-1)}
					if len(m.CreateBid) > 0 {
						cfee.D = m.CreateBid[0].D
					}
					shape = "negative creation fee"
				case 4:
					price.A = c20Big(0)
					shape = "zero price"
				case 5: // MsgCreateAsk with a zero seller settlement flat fee
					sf := &c20Coin{"acoin", c20Big(0)}
					acf := c20FlatChoice(r, m.CreateAsk, true)
					ap := c20Coin{pd, c20Big(r.Int63n(1_000_000_000) + 1000)}
					msg := &exchange.MsgCreateAskRequest{
						AskOrder:         exchange.AskOrder{MarketId: marketID, Seller: a.addr.String(), Assets: assets, Price: ap.sdk(), SellerSettlementFlatFee: toPtr(sf)},
						OrderCreationFee: toPtr(acf)}
					cctx, _ := mctx.CacheContext()
					e := handle(cctx, msg)
					addProbe("PAct "+c20CoqStrs(a.attrs)+" (ACreateAsk "+ap.coq()+" "+c20CoqOptCoin(sf)+" "+c20CoqOptCoin(acf)+") "+coqBool(e == nil),
						desc{"probe": "handler", "malformed": "zero seller settlement flat fee", "msg": "MsgCreateAsk", "price": ap.String(), "creation_fee": c20OptStr(acf), "account_attrs": a.attrs, "ok": e == nil})
					w.Count("malformed_requests")
					if e == nil {
						w.Count("malformed_requests_accepted")
					}
					continue
				default: // a zero creation fee is a valid coin for orders and commitments, not for fills
					cfee = &c20Coin{"acoin", c20Big(0)}
					shape = "zero creation fee"
				}
				var msg sdk.Msg
				var term string
				if makerAsk != 0 && r.Intn(3) == 0 && shape != "zero price" {
					fees2 := fees
					if shape == "zero creation fee" || shape == "negative creation fee" {
						fees2 = c20BuyerFees(r, m, makerAskPrice, true)
					}
					msg = &exchange.MsgFillAsksRequest{Buyer: a.addr.String(), MarketId: marketID, TotalPrice: makerAskPrice.sdk(),
						AskOrderIds: []uint64{makerAsk}, BuyerSettlementFees: sdk.Coins(c20Coins(fees2)), BidOrderCreationFee: toPtr(cfee)}
					term = "AFillAsks true " + makerAskPrice.coq() + " " + c20CoqCoins(fees2) + " " + c20CoqOptCoin(cfee)
					fees = fees2
				} else {
					msg = &exchange.MsgCreateBidRequest{
						BidOrder:         exchange.BidOrder{MarketId: marketID, Buyer: a.addr.String(), Assets: assets, Price: price.sdk(), BuyerSettlementFees: sdk.Coins(c20Coins(fees))},
						OrderCreationFee: toPtr(cfee)}
					term = "ACreateBid " + price.coq() + " " + c20CoqCoins(fees) + " " + c20CoqOptCoin(cfee)
				}
				cctx, _ := mctx.CacheContext()
				e := handle(cctx, msg)
				addProbe("PAct "+c20CoqStrs(a.attrs)+" ("+term+") "+coqBool(e == nil),
					desc{"probe": "handler", "malformed": shape, "msg": fmt.Sprintf("%T", msg), "price": price.String(), "buyer_settlement_fees": c20StrCoins(fees),
						"creation_fee": c20OptStr(cfee), "account_attrs": a.attrs, "ok": e == nil})
				w.Count("malformed_requests")
				w.Count("malformed_" + strings.ReplaceAll(shape, " ", "_"))
				if e == nil {
					w.Count("malformed_requests_accepted")
				}
				if created {
					probeKey(fmt.Sprintf("malformed/%d/%d", mi, len(probes)))
				}
			}
		}

		// ---- OrderFeeCalc, and requests that pay exactly what it quotes / one unit less ----
		quotedAct := func(claim string, a c20Acct, msg sdk.Msg, term string, d desc) bool {
			cctx, _ := mctx.CacheContext()
			e := handle(cctx, msg)
			d["probe"], d["account_attrs"], d["ok"] = "handler, fees from the quote", a.attrs, e == nil
			if claim == "" {
				d["claim"] = "none (another option may cover it)"
				addProbe("PAct "+c20CoqStrs(a.attrs)+" ("+term+") "+coqBool(e == nil), d)
			} else {
				d["claim"] = claim
				addProbe("PQuoted "+claim+" "+c20CoqStrs(a.attrs)+" ("+term+") "+coqBool(e == nil), d)
			}
			w.Count("quoted_requests")
			w.Count("quoted_requests_" + map[string]string{"": "one_coin_of_two_lowered", "QExact": "exact", "QExactZero": "exact_zero_ratio_option", "QBelowSingle": "one_below"}[claim])
			if e == nil {
				w.Count("quoted_requests_accepted")
				w.Count("quoted_requests_" + map[string]string{"": "one_coin_of_two_lowered", "QExact": "exact", "QExactZero": "exact_zero_ratio_option", "QBelowSingle": "one_below"}[claim] + "_accepted")
			}
			if created {
				probeKey(fmt.Sprintf("quoted/%d/%d", mi, len(probes)))
			}
			return e == nil
		}
		probeQuotes := func(nAskQ, nBidQ int) {
			for qi := 0; qi < nBidQ; qi++ {
				var pd string
				if len(m.BuyerRatios) > 0 && r.Intn(8) != 0 {
					pd = m.BuyerRatios[r.Intn(len(m.BuyerRatios))].PD
				} else {
					pd = c20PriceDenoms[r.Intn(len(c20PriceDenoms))]
				}
				price := c20Coin{pd, c20Amount(r)}
				if r.Intn(4) == 0 {
					for _, rt := range m.BuyerRatios {
						if rt.PD == pd {
							if bp := c20WordBoundaryPrice(r, rt.FA); bp != nil {
								price.A = bp
								w.Count("quotes_bid_price_times_fee_at_word_boundary")
							}
							break
						}
					}
				}
				fill := makerAsk != 0 && qi == 0 && r.Intn(2) == 0
				if fill {
					price = makerAskPrice
				}
				var resp *exchange.QueryOrderFeeCalcResponse
				e := try(func() error {
					var e2 error
					resp, e2 = qs.OrderFeeCalc(mctx, &exchange.QueryOrderFeeCalcRequest{BidOrder: &exchange.BidOrder{MarketId: marketID,
						Buyer: accts[0].addr.String(), Assets: assets, Price: price.sdk()}})
					return e2
				})
				ok := e == nil && resp != nil
				var C, F, X []sdk.Coin
				if ok {
					C, F, X = resp.CreationFeeOptions, resp.SettlementFlatFeeOptions, resp.SettlementRatioFeeOptions
				}
				addProbe("PQuoteBid "+price.coq()+" "+c20CoqQuote(ok, C, F, X),
					desc{"probe": "OrderFeeCalc", "side": "bid", "price": price.String(), "ok": ok, "creation_fee_options": c20StrSdk(C),
						"settlement_flat_fee_options": c20StrSdk(F), "settlement_ratio_fee_options": c20StrSdk(X)})
				w.Count("quotes_bid")
				if !ok {
					w.Count("quotes_bid_failed")
					continue
				}
				if created && len(F)+len(X) > 0 {
					probeKey(fmt.Sprintf("quotebid/%v/%v/%s", c20StrCoins(m.BuyerFlat), m.BuyerRatios, price))
				}
				send := func(claim string, a c20Acct, fees sdk.Coins, cfee *sdk.Coin, how string) bool {
					d := desc{"price": price.String(), "buyer_settlement_fees": c20StrSdk(fees), "creation_fee": c20SdkOptStr(cfee), "derived": how}
					if fill {
						msg := &exchange.MsgFillAsksRequest{Buyer: a.addr.String(), MarketId: marketID, TotalPrice: price.sdk(),
							AskOrderIds: []uint64{makerAsk}, BuyerSettlementFees: fees, BidOrderCreationFee: cfee}
						d["msg"] = "MsgFillAsks"
						return quotedAct(claim, a, msg, "AFillAsks true "+price.coq()+" "+c20CoqSdkCoins(fees)+" "+c20CoqOptSdk(cfee), d)
					}
					msg := &exchange.MsgCreateBidRequest{
						BidOrder:         exchange.BidOrder{MarketId: marketID, Buyer: a.addr.String(), Assets: assets, Price: price.sdk(), BuyerSettlementFees: fees},
						OrderCreationFee: cfee}
					d["msg"] = "MsgCreateBid"
					return quotedAct(claim, a, msg, "ACreateBid "+price.coq()+" "+c20CoqSdkCoins(fees)+" "+c20CoqOptSdk(cfee), d)
				}
				nf, nx := len(F), len(X)
				if nf == 0 {
					nf = 1
				}
				if nx == 0 {
					nx = 1
				}
				ci := r.Intn(8)
				for fi := 0; fi < nf; fi++ {
					for xi := 0; xi < nx; xi++ {
						f, x, c := c20OptPtr(F, fi), c20OptPtr(X, xi), c20OptPtr(C, ci)
						ci++
						if fill && c != nil && c.IsZero() {
							continue
						}
						a := accts[0]
						if r.Intn(5) == 0 {
							a = pickAcct()
						}
						fees := c20Offer(f, x)
						claim := "QExact"
						if x != nil && x.IsZero() {
							w.Count("quoted_ratio_option_is_zero")
							claim = "QExactZero"
						}
						send(claim, a, fees, c, "exactly the quoted options")
						// one unit less
						switch len(fees) {
						case 1:
							low := c20MinusOne(&fees[0])
							var lf sdk.Coins
							if low != nil {
								lf = sdk.Coins{*low}
							}
							send("QBelowSingle", a, lf, c, "the one settlement coin lowered by one")
						case 2:
							j := r.Intn(2)
							lf := sdk.Coins{fees[0], fees[1]}
							if low := c20MinusOne(&fees[j]); low != nil {
								lf[j] = *low
							} else {
								lf = sdk.Coins{fees[1-j]}
							}
							send("", a, lf, c, "one of the two settlement coins lowered by one")
						}
						if c != nil && !c.IsZero() && r.Intn(2) == 0 {
							send("QBelowSingle", a, fees, c20MinusOne(c), "the creation fee lowered by one")
						}
					}
				}
			}
			for qi := 0; qi < nAskQ; qi++ {
				var pd string
				if len(m.SellerRatios) > 0 && r.Intn(8) != 0 {
					pd = m.SellerRatios[r.Intn(len(m.SellerRatios))].PD
				} else {
					pd = c20PriceDenoms[r.Intn(len(c20PriceDenoms))]
				}
				price := c20Coin{pd, c20Amount(r)}
				var resp *exchange.QueryOrderFeeCalcResponse
				e := try(func() error {
					var e2 error
					resp, e2 = qs.OrderFeeCalc(mctx, &exchange.QueryOrderFeeCalcRequest{AskOrder: &exchange.AskOrder{MarketId: marketID,
						Seller: accts[0].addr.String(), Assets: assets, Price: price.sdk()}})
					return e2
				})
				ok := e == nil && resp != nil
				var C, F, X []sdk.Coin
				if ok {
					C, F, X = resp.CreationFeeOptions, resp.SettlementFlatFeeOptions, resp.SettlementRatioFeeOptions
				}
				addProbe("PQuoteAsk "+price.coq()+" "+c20CoqQuote(ok, C, F, X),
					desc{"probe": "OrderFeeCalc", "side": "ask", "price": price.String(), "ok": ok, "creation_fee_options": c20StrSdk(C),
						"settlement_flat_fee_options": c20StrSdk(F), "settlement_ratio_fee_options": c20StrSdk(X)})
				w.Count("quotes_ask")
				if !ok {
					w.Count("quotes_ask_failed")
					continue
				}
				if created && len(F)+len(X) > 0 {
					probeKey(fmt.Sprintf("quoteask/%v/%v/%s", c20StrCoins(m.SellerFlat), m.SellerRatios, price))
				}
				nf := len(F)
				if nf == 0 {
					nf = 1
				}
				for fi := 0; fi < nf; fi++ {
					f, c := c20OptPtr(F, fi), c20OptPtr(C, r.Intn(8))
					a := accts[0]
					// the fees taken out of the price: the flat fee when paid in the price denom + the quoted ratio fee
					out := sdkmath.ZeroInt()
					if f != nil && f.Denom == pd {
						out = out.Add(f.Amount)
					}
					if len(X) > 0 {
						out = out.Add(X[0].Amount)
					}
					send := func(claim string, sf, cf *sdk.Coin, how string) {
						msg := &exchange.MsgCreateAskRequest{
							AskOrder:         exchange.AskOrder{MarketId: marketID, Seller: a.addr.String(), Assets: assets, Price: price.sdk(), SellerSettlementFlatFee: sf},
							OrderCreationFee: cf}
						quotedAct(claim, a, msg, "ACreateAsk "+price.coq()+" "+c20CoqOptSdk(sf)+" "+c20CoqOptSdk(cf),
							desc{"msg": "MsgCreateAsk", "price": price.String(), "seller_settlement_flat_fee": c20SdkOptStr(sf), "creation_fee": c20SdkOptStr(cf),
								"fees_taken_out_of_the_price": out.String(), "derived": how})
					}
					if price.sdk().Amount.GT(out) {
						send("QExact", f, c, "exactly the quoted options; the price exceeds the fees taken out of it")
					} else {
						send("", f, c, "exactly the quoted options; the price does not exceed the fees taken out of it")
						w.Count("quoted_asks_price_not_above_fees")
					}
					if f != nil {
						send("QBelowSingle", c20MinusOne(f), c, "the seller settlement flat fee lowered by one")
					}
					if c != nil && r.Intn(2) == 0 {
						send("QBelowSingle", f, c20MinusOne(c), "the creation fee lowered by one")
					}
				}
			}
		}

		// ---- what the keeper reports of the configuration ----
		probeTables := func() {
			if !created {
				return
			}
			tabs := []struct {
				name string
				l    []sdk.Coin
			}{
				{"KCreateAsk", k.GetCreateAskFlatFees(mctx, marketID)}, {"KCreateBid", k.GetCreateBidFlatFees(mctx, marketID)},
				{"KCreateCom", k.GetCreateCommitmentFlatFees(mctx, marketID)}, {"KSellerFlat", k.GetSellerSettlementFlatFees(mctx, marketID)},
				{"KBuyerFlat", k.GetBuyerSettlementFlatFees(mctx, marketID)},
			}
			for _, tb := range tabs {
				addProbe("PTable "+tb.name+" "+c20CoqCoins(c20FromCoins(tb.l)), desc{"probe": "GetFlatFees", "kind": tb.name, "options": c20StrSdk(tb.l)})
			}
			sr, br := c20FromRatios(k.GetSellerSettlementRatios(mctx, marketID)), c20FromRatios(k.GetBuyerSettlementRatios(mctx, marketID))
			addProbe("PRatios true "+c20CoqRatios(sr), desc{"probe": "GetSellerSettlementRatios", "ratios": c20StrRatios(sr)})
			addProbe("PRatios false "+c20CoqRatios(br), desc{"probe": "GetBuyerSettlementRatios", "ratios": c20StrRatios(br)})
			addProbe("PBips "+zI64(int64(k.GetCommitmentSettlementBips(mctx, marketID))), desc{"probe": "GetCommitmentSettlementBips"})
			fao, fus, fac := k.IsMarketAcceptingOrders(mctx, marketID), k.IsUserSettlementAllowed(mctx, marketID), k.IsMarketAcceptingCommitments(mctx, marketID)
			addProbe("PFlagState "+coqBool(fao)+" "+coqBool(fus)+" "+coqBool(fac),
				desc{"probe": "flag entries", "accepting_orders": fao, "allow_user_settlement": fus, "accepting_commitments": fac})
			for _, rk := range []struct {
				name string
				l    []string
			}{{"RAsk", k.GetReqAttrsAsk(mctx, marketID)}, {"RBid", k.GetReqAttrsBid(mctx, marketID)}, {"RCom", k.GetReqAttrsCommitment(mctx, marketID)}} {
				addProbe("PReqs "+rk.name+" "+c20CoqStrs(rk.l), desc{"probe": "GetReqAttrs", "kind": rk.name, "stored": rk.l})
			}
			w.Count("table_readbacks")
		}

		// ---- CommitmentSettlementFeeCalc and the fee step of MsgMarketCommitmentSettle ----
		probeCommitmentQuote := func(n int) {
			for i := 0; i < n; i++ {
				src, dst := accts[0], accts[2]
				denoms := []string{feeDenom, "interm", "ccoin", "dcoin"}
				var inputs sdk.Coins
				for _, d := range denoms {
					if r.Intn(2) == 0 {
						inputs = inputs.Add(sdk.NewCoin(d, sdkmath.NewIntFromBigInt(c20Amount(r))))
					}
				}
				if r.Intn(10) == 0 {
					inputs = nil
				}
				var navs []exchange.NetAssetPrice
				conv := m.Interm
				if conv != "" {
					for _, d := range []string{"ccoin", "dcoin", "interm"} {
						if d != conv && r.Intn(5) != 0 {
							navs = append(navs, exchange.NetAssetPrice{Assets: sdk.NewCoin(d, sdkmath.NewIntFromBigInt(c20Amount(r))), Price: sdk.NewCoin(conv, sdkmath.NewIntFromBigInt(c20Amount(r)))})
						}
					}
					if conv != feeDenom && r.Intn(6) != 0 {
						navs = append(navs, exchange.NetAssetPrice{Assets: sdk.NewCoin(conv, sdkmath.NewIntFromBigInt(c20Amount(r))), Price: sdk.NewCoin(feeDenom, sdkmath.NewIntFromBigInt(c20Amount(r)))})
					}
				}
				// inputs worth less than 10^-18 of the intermediary denom: the conversion (18 decimals,
				// truncated) makes them zero, and a zero fee is reported like "no fee"
				if conv != "" && i%2 == 1 && r.Intn(2) == 0 {
					tiny := []string{"ccoin", "dcoin"}[r.Intn(2)]
					if tiny != conv {
						inputs = sdk.NewCoins(sdk.NewInt64Coin(tiny, r.Int63n(9)+1))
						var keep []exchange.NetAssetPrice
						for _, n := range navs {
							if n.Assets.Denom != tiny {
								keep = append(keep, n)
							}
						}
						navs = append(keep, exchange.NetAssetPrice{
							Assets: sdk.NewCoin(tiny, sdkmath.NewIntFromBigInt(new(big.Int).Add(pow2(uint(64+r.Intn(12))), c20Big(r.Int63n(1000))))),
							Price:  sdk.NewCoin(conv, sdkmath.NewInt(r.Int63n(200)+1))})
						if conv != feeDenom {
							has := false
							for _, n := range navs {
								if n.Assets.Denom == conv && n.Price.Denom == feeDenom {
									has = true
								}
							}
							if !has {
								navs = append(navs, exchange.NetAssetPrice{Assets: sdk.NewCoin(conv, sdkmath.NewInt(r.Int63n(50)+1)), Price: sdk.NewCoin(feeDenom, sdkmath.NewInt(r.Int63n(50)+1))})
							}
						}
						w.Count("commitment_quotes_with_inputs_below_1e-18_of_the_intermediary_denom")
					}
				}
				var aa []exchange.AccountAmount
				if len(inputs) > 0 {
					aa = []exchange.AccountAmount{{Account: src.addr.String(), Amount: inputs}}
				}
				var ab []exchange.AccountAmount
				if len(inputs) > 0 {
					ab = []exchange.AccountAmount{{Account: dst.addr.String(), Amount: inputs}}
				}
				req := &exchange.MsgMarketCommitmentSettleRequest{Admin: maker.String(), MarketId: marketID, Inputs: aa, Outputs: ab, Navs: navs}
				var resp *exchange.QueryCommitmentSettlementFeeCalcResponse
				e := try(func() error {
					var e2 error
					resp, e2 = qs.CommitmentSettlementFeeCalc(mctx, &exchange.QueryCommitmentSettlementFeeCalcRequest{Settlement: req})
					return e2
				})
				obs := "None"
				if e == nil && resp != nil {
					if len(resp.ExchangeFees) == 0 {
						obs = "(Some None)"
					} else {
						obs = "(Some (Some " + zInt(sdk.Coins(resp.ExchangeFees).AmountOf(feeDenom)) + "))"
					}
				}
				// the settlement itself: give the source the commitment, settle through the keeper;
				// when that works, the whole message goes through the real handler
				settle := "None"
				if created && len(inputs) > 0 {
					settle = c20TrySettle(app, mctx, handle, marketID, maker, src, dst, inputs, req)
				}
				addProbe("PComQuote "+coqStr(feeDenom)+" "+c20CoqNavs(navs)+" "+c20CoqSdkCoins(inputs)+" "+obs+" "+settle,
					desc{"probe": "CommitmentSettlementFeeCalc", "inputs": inputs.String(), "navs": fmt.Sprint(navs), "quote": obs, "settle_message": settle,
						"bips": m.Bips, "intermediary_denom": m.Interm})
				w.Count("commitment_quotes")
				if obs != "None" {
					w.Count("commitment_quotes_ok")
				}
				if obs == "(Some None)" && m.Bips > 0 && len(inputs) > 0 {
					w.Count("commitment_quotes_zero_fee_with_bips_and_inputs")
				}
				if strings.HasPrefix(obs, "(Some (Some") {
					w.Count("commitment_quotes_with_fee")
					probeKey(fmt.Sprintf("comquote/%d/%d", mi, i))
				}
				if settle != "None" {
					w.Count("commitment_settle_messages")
					if settle == "(Some true)" {
						w.Count("commitment_settle_messages_accepted")
					}
				}
			}
		}

		// =========================== round 0: the market as created ===========================
		probeTables()
		probeFlats(false)
		probeBuyer(14)
		probeAskPrice(8)
		probeCan(true)
		makeOrders()
		probeHandlers(24, "created")
		probeHolderFills(4)
		probeMalformed(4)
		probeQuotes(1, 2)

		// ---- flip the accepting / user-settle flags through the real keeper, then probe again ----
		flipFlags := func() bool {
			ao, us, ac := r.Intn(5) != 0, r.Intn(5) != 0, r.Intn(5) != 0
			if ao == m.AccOrders && us == m.UserSettle && ac == m.AccCommit {
				ao = !ao
			}
			ok := true
			if ao != m.AccOrders {
				ok = ok && try(func() error { return k.UpdateMarketAcceptingOrders(mctx, marketID, ao, "verif") }) == nil
			}
			if us != m.UserSettle {
				ok = ok && try(func() error { return k.UpdateUserSettlementAllowed(mctx, marketID, us, "verif") }) == nil
			}
			if ac != m.AccCommit {
				ok = ok && try(func() error { return k.UpdateMarketAcceptingCommitments(mctx, marketID, ac, "verif") }) == nil
			}
			if !ok {
				w.Count("flag_update_failed")
				return false
			}
			m.AccOrders, m.UserSettle, m.AccCommit = ao, us, ac
			addProbe("PFlags "+coqBool(ao)+" "+coqBool(us)+" "+coqBool(ac),
				desc{"probe": "UpdateFlags", "accepting_orders": ao, "allow_user_settlement": us, "accepting_commitments": ac})
			w.Count("flag_updates")
			return true
		}
		if created && flipFlags() {
			makeOrders()
			probeHandlers(12, "flags")
			probeHolderFills(4)
		}

		// =========================== configuration changes ===========================
		// MsgGovManageFees / MsgMarketManageReqAttrs / flag updates in random order, each followed
		// by what the keeper reports and by probes generated against the changed market.
		if created {
			nRounds := 3 + r.Intn(2)
			for rd := 0; rd < nRounds; rd++ {
				switch r.Intn(7) {
				case 0, 1, 2:
					fm := c20GenFeeMsg(r, m, r.Intn(4) != 0)
					cctx, write := mctx.CacheContext()
					e := handle(cctx, fm.sdk(authority, marketID))
					if e == nil {
						write()
					}
					d := desc(fm.desc())
					d["probe"], d["ok"] = "MsgGovManageFees", e == nil
					addProbe("PFees "+fm.coq()+" "+coqBool(e == nil), d)
					w.Count("fee_updates")
					w.Count("fee_updates_" + strings.ReplaceAll(fm.Shape, " ", "_"))
					if e == nil {
						w.Count("fee_updates_accepted")
					}
					probeKey(fmt.Sprintf("fees/%d/%d", mi, rd))
				case 3, 4, 5:
					am := c20GenAttrMsg(r, m, r.Intn(3) != 0)
					cctx, write := mctx.CacheContext()
					e := handle(cctx, am.sdk(maker.String(), stranger.String(), marketID))
					if e == nil {
						write()
					}
					d := desc(am.desc())
					d["probe"], d["ok"] = "MsgMarketManageReqAttrs", e == nil
					addProbe("PAttrs "+am.coq()+" "+coqBool(e == nil), d)
					w.Count("req_attr_updates")
					w.Count("req_attr_updates_" + strings.ReplaceAll(strings.ReplaceAll(am.Shape, " ", "_"), ",", ""))
					if e == nil {
						w.Count("req_attr_updates_accepted")
					}
					probeKey(fmt.Sprintf("attrs/%d/%d", mi, rd))
				default:
					flipFlags()
				}
				m = c20ReadMarket(app, mctx, marketID, m.Interm)
				probeTables()
				probeFlats(true)
				probeBuyer(5)
				probeAskPrice(3)
				probeCan(false)
				makeOrders()
				probeHandlers(8, fmt.Sprintf("round%d", rd))
				probeHolderFills(3)
				probeMalformed(1)
				probeQuotes(1, 1)
			}
			w.CountN("config_rounds", int64(nRounds))
		}
		probeCommitmentQuote(2)

		// ---- sequences: the same account acts again after it already has a commitment / orders ----
		// Successful requests are kept (sctx), so later requests of the sequence meet the records
		// the earlier ones left.  The admission rule does not depend on them.
		if created {
			sctx, _ := mctx.CacheContext()
			seqProbe := func(a c20Acct, msg sdk.Msg, term string, d desc, tag string) bool {
				cctx, write := sctx.CacheContext()
				e := handle(cctx, msg)
				if e == nil {
					write()
				}
				d["probe"], d["account_attrs"], d["ok"], d["sequence"] = "handler", a.attrs, e == nil, tag
				addProbe("PAct "+c20CoqStrs(a.attrs)+" ("+term+") "+coqBool(e == nil), d)
				w.Count("sequence_probes")
				w.Count("sequence_" + tag)
				if e == nil {
					w.Count("sequence_probes_accepted")
					w.Count("sequence_" + tag + "_accepted")
				}
				probeKey(fmt.Sprintf("seq/%d/%d", mi, len(probes)))
				return e == nil
			}
			// the fee variants offered after the first (paid) request
			variants := func(opts []c20Coin) []*c20Coin {
				out := []*c20Coin{nil}
				if len(opts) > 0 {
					o := opts[r.Intn(len(opts))]
					if o.A.Cmp(c20Big(1)) > 0 {
						out = append(out, &c20Coin{o.D, new(big.Int).Sub(o.A, c20Big(1))})
					}
					out = append(out, &c20Coin{o.D, new(big.Int).Set(o.A)})
				}
				return out
			}
			exact := func(opts []c20Coin) *c20Coin {
				if len(opts) == 0 {
					return nil
				}
				o := opts[r.Intn(len(opts))]
				return &c20Coin{o.D, new(big.Int).Set(o.A)}
			}
			commit := func(a c20Acct, cfee *c20Coin, tag string) bool {
				msg := &exchange.MsgCommitFundsRequest{Account: a.addr.String(), MarketId: marketID,
					Amount: sdk.NewCoins(sdk.NewInt64Coin("ccoin", r.Int63n(1000)+1)), CreationFee: toPtr(cfee)}
				return seqProbe(a, msg, "ACommit "+c20CoqOptCoin(cfee), desc{"msg": "MsgCommitFunds", "creation_fee": c20OptStr(cfee)}, tag)
			}
			ask := func(a c20Acct, cfee *c20Coin, tag string) bool {
				pd := c20PriceDenoms[r.Intn(len(c20PriceDenoms))]
				if len(m.SellerRatios) > 0 {
					pd = m.SellerRatios[r.Intn(len(m.SellerRatios))].PD
				}
				price := c20Coin{pd, new(big.Int).Add(pow2(68), c20Big(r.Int63n(1_000_000)))}
				sflat := exact(m.SellerFlat)
				msg := &exchange.MsgCreateAskRequest{
					AskOrder:         exchange.AskOrder{MarketId: marketID, Seller: a.addr.String(), Assets: assets, Price: price.sdk(), SellerSettlementFlatFee: toPtr(sflat)},
					OrderCreationFee: toPtr(cfee)}
				return seqProbe(a, msg, "ACreateAsk "+price.coq()+" "+c20CoqOptCoin(sflat)+" "+c20CoqOptCoin(cfee),
					desc{"msg": "MsgCreateAsk", "price": price.String(), "seller_settlement_flat_fee": c20OptStr(sflat), "creation_fee": c20OptStr(cfee)}, tag)
			}
			bid := func(a c20Acct, cfee *c20Coin, tag string) bool {
				pd := c20PriceDenoms[r.Intn(len(c20PriceDenoms))]
				if len(m.BuyerRatios) > 0 {
					pd = m.BuyerRatios[r.Intn(len(m.BuyerRatios))].PD
				}
				price := c20Coin{pd, c20Big(r.Int63n(1_000_000) + 1)}
				fees := c20BuyerFees(r, m, price, true)
				msg := &exchange.MsgCreateBidRequest{
					BidOrder:         exchange.BidOrder{MarketId: marketID, Buyer: a.addr.String(), Assets: assets, Price: price.sdk(), BuyerSettlementFees: sdk.NewCoins(c20Coins(fees)...)},
					OrderCreationFee: toPtr(cfee)}
				return seqProbe(a, msg, "ACreateBid "+price.coq()+" "+c20CoqCoins(fees)+" "+c20CoqOptCoin(cfee),
					desc{"msg": "MsgCreateBid", "price": price.String(), "buyer_settlement_fees": c20StrCoins(fees), "creation_fee": c20OptStr(cfee)}, tag)
			}
			type seqKind struct {
				name string
				opts []c20Coin
				f    func(c20Acct, *c20Coin, string) bool
			}
			for _, sk := range []seqKind{{"commit", m.CreateCom, commit}, {"ask", m.CreateAsk, ask}, {"bid", m.CreateBid, bid}} {
				a := accts[0] // holds every name: the first request is normally admitted
				if r.Intn(3) == 0 {
					a = pickAcct()
				}
				first := sk.f(a, exact(sk.opts), sk.name+"_first_paid")
				for _, v := range variants(sk.opts) {
					tag := sk.name + "_again"
					if first {
						tag = sk.name + "_again_with_existing_record"
						if v == nil && len(sk.opts) > 0 {
							tag += "_no_fee"
						}
					}
					sk.f(a, v, tag)
				}
			}
			// an account that got its commitment from a commitment settlement (never paid a fee)
			if m.AccCommit {
				src, dst := accts[0], accts[2+r.Intn(len(c20SmallSets))]
				amt := sdk.NewCoins(sdk.NewInt64Coin("ccoin", 50))
				for i := 0; i < 3 && k.GetCommitmentAmount(sctx, marketID, src.addr).AmountOf("ccoin").LT(sdkmath.NewInt(50)); i++ {
					if !commit(src, exact(m.CreateCom), "commit_source_paid") {
						break
					}
				}
				had := !k.GetCommitmentAmount(sctx, marketID, dst.addr).IsZero()
				if !k.GetCommitmentAmount(sctx, marketID, src.addr).AmountOf("ccoin").LT(sdkmath.NewInt(50)) && !had {
					e := try(func() error {
						return k.SettleCommitments(sctx, &exchange.MsgMarketCommitmentSettleRequest{Admin: maker.String(), MarketId: marketID,
							Inputs:  []exchange.AccountAmount{{Account: src.addr.String(), Amount: amt}},
							Outputs: []exchange.AccountAmount{{Account: dst.addr.String(), Amount: amt}}})
					})
					if e == nil && !k.GetCommitmentAmount(sctx, marketID, dst.addr).IsZero() {
						w.Count("commitment_settlements")
						for _, v := range variants(m.CreateCom) {
							tag := "commit_after_settlement_output"
							if v == nil && len(m.CreateCom) > 0 {
								tag += "_no_fee"
							}
							commit(dst, v, tag)
						}
					} else {
						w.Count("commitment_settlement_failed")
					}
				}
			}
		}

		if created && len(m0.CreateAsk)+len(m0.CreateBid)+len(m0.CreateCom)+len(m0.SellerFlat)+len(m0.BuyerFlat)+len(m0.BuyerRatios) > 0 &&
			len(m0.ReqAsk)+len(m0.ReqBid)+len(m0.ReqCom) > 0 {
			w.Nontrivial(m0.coq())
		}
		if explicitID != 0 {
			w.Add("CMarketPre "+coqList(preTerms)+" "+m0.coq()+" "+coqBool(created)+" "+coqList(probes),
				desc{"market": m0.desc(), "created": created, "attribute_phase": phaseNames[ph], "probes": pdescs,
					"explicit_market_id": explicitID, "sent_by_the_authority_before_the_market_existed": preDescs})
		} else {
			w.Add("CMarket "+m0.coq()+" "+coqBool(created)+" "+coqList(probes),
				desc{"market": m0.desc(), "created": created, "attribute_phase": phaseNames[ph], "probes": pdescs})
		}
		if mi%(nMarkets/4+1) == 0 { // evidence samples: the market and a few of its probes
			var few []desc
			for i := 0; i < len(pdescs); i += len(pdescs)/5 + 1 {
				few = append(few, pdescs[i])
			}
			b, _ := json.Marshal(desc{"market": m0.desc(), "created": created, "some_probes": few})
			w.Samples = append(w.Samples, b)
		}
	}
	w.Stats["distinct_nontrivial_probes"] = int64(len(probeKeys))
	w.Flush(t)
}

// c20TrySettle gives src a commitment of the inputs (Keeper.AddCommitment: when the market does
// not let src commit, nothing is observed), checks that the settlement itself works at keeper
// level and then sends the whole MsgMarketCommitmentSettle through the real handler.
// Returns the Coq term of the observation: None (not observed) / (Some true) / (Some false).
func c20TrySettle(app *simapp.App, mctx sdk.Context, handle func(sdk.Context, sdk.Msg) error, marketID uint32,
	maker sdk.AccAddress, src, dst c20Acct, inputs sdk.Coins, req *exchange.MsgMarketCommitmentSettleRequest) string {
	k := app.ExchangeKeeper
	sctx, _ := mctx.CacheContext()
	// AddCommitment checks the flag and the attributes; when src may not commit nothing is observed
	if e := try(func() error { return k.AddCommitment(sctx, marketID, src.addr, inputs, "") }); e != nil {
		return "None"
	}
	kctx, _ := sctx.CacheContext()
	if e := try(func() error { return k.SettleCommitments(kctx, req) }); e != nil {
		return "None"
	}
	hctx, _ := sctx.CacheContext()
	e := handle(hctx, req)
	return "(Some " + coqBool(e == nil) + ")"
}

// c20LastOrder returns the highest order id in the store (the order just created).
func c20LastOrder(app *simapp.App, ctx sdk.Context) uint64 {
	var last uint64
	_ = app.ExchangeKeeper.IterateOrders(ctx, func(o *exchange.Order) bool {
		if o.OrderId > last {
			last = o.OrderId
		}
		return false
	})
	return last
}
