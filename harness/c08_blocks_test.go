//go:build c08

package harness

import (
	"fmt"
	"math/rand"
	"sort"
	"strings"
	"testing"
	"time"

	abci "github.com/cometbft/cometbft/abci/types"

	sdkmath "cosmossdk.io/math"

	sdk "github.com/cosmos/cosmos-sdk/types"
	govkeeper "github.com/cosmos/cosmos-sdk/x/gov/keeper"
	govv1 "github.com/cosmos/cosmos-sdk/x/gov/types/v1"

	banktypes "github.com/cosmos/cosmos-sdk/x/bank/types"

	msgfeestypes "github.com/provenance-io/provenance/x/msgfees/types"
)

// ---------- governance: proposals of x/msgfees messages and bank sends of the gov module account ----------

type c08GovItem struct {
	op        string // add, update, remove, conv, permil, send
	kind      int
	coin      sdk.Coin
	recipient int
	bips      string // "" = not given
	denom     string
	perMil    uint64
	to        int
	coins     sdk.Coins
}

func (n *c08Net) setupGov(ctx sdk.Context) {
	params, err := n.app.GovKeeper.Params.Get(ctx)
	if err != nil {
		n.t.Fatalf("gov params: %v", err)
	}
	vp, ev := time.Second, time.Second/2
	params.VotingPeriod, params.ExpeditedVotingPeriod = &vp, &ev
	params.MinDeposit = sdk.NewCoins(sdk.NewInt64Coin(c08Bond, 1))
	if err := n.app.GovKeeper.Params.Set(ctx, params); err != nil {
		n.t.Fatalf("set gov params: %v", err)
	}
}

func (n *c08Net) govSdkMsg(it c08GovItem) sdk.Msg {
	auth := n.gov.String()
	rc := ""
	if it.recipient > 0 {
		rc = n.addrOf(it.recipient).String()
	}
	switch it.op {
	case "add":
		return msgfeestypes.NewMsgAddMsgFeeProposalRequest(c08TypeURL[it.kind], it.coin, rc, it.bips, auth)
	case "update":
		return msgfeestypes.NewMsgUpdateMsgFeeProposalRequest(c08TypeURL[it.kind], it.coin, rc, it.bips, auth)
	case "remove":
		return msgfeestypes.NewMsgRemoveMsgFeeProposalRequest(c08TypeURL[it.kind], auth)
	case "conv":
		return msgfeestypes.NewMsgUpdateConversionFeeDenomProposalRequest(it.denom, auth)
	case "permil":
		return msgfeestypes.NewMsgUpdateNhashPerUsdMilProposalRequest(it.perMil, auth)
	default:
		return &banktypes.MsgSend{FromAddress: auth, ToAddress: n.addrOf(it.to).String(), Amount: it.coins}
	}
}

func (it c08GovItem) term() string {
	rc, bp := "None", "None"
	if it.recipient > 0 {
		rc = "(Some " + c08N(it.recipient) + ")"
	}
	if it.bips != "" {
		bp = "(Some " + it.bips + ")"
	}
	switch it.op {
	case "add":
		return fmt.Sprintf("(GAddFee %s %s %s %s)", c08N(it.kind), c08Coin(it.coin), rc, bp)
	case "update":
		return fmt.Sprintf("(GUpdateFee %s %s %s %s)", c08N(it.kind), c08Coin(it.coin), rc, bp)
	case "remove":
		return fmt.Sprintf("(GRemoveFee %s)", c08N(it.kind))
	case "conv":
		return fmt.Sprintf("(GConvDenom %s)", c08N(c08DenomID(it.denom)))
	case "permil":
		return fmt.Sprintf("(GNhashPerMil %d)", it.perMil)
	default:
		return fmt.Sprintf("(GSend %s %s %s)", c08N(c08Gov), c08N(it.to), c08Coins(it.coins))
	}
}

func (it c08GovItem) String() string {
	switch it.op {
	case "add", "update":
		return fmt.Sprintf("%s kind %d %s recipient %d bips %q", it.op, it.kind, it.coin, it.recipient, it.bips)
	case "remove":
		return fmt.Sprintf("remove kind %d", it.kind)
	case "conv":
		return "conversion denom " + it.denom
	case "permil":
		return fmt.Sprintf("nhash per usd mil %d", it.perMil)
	default:
		return fmt.Sprintf("gov sends %s to %d", it.coins, it.to)
	}
}

func (n *c08Net) submitMsg(from int, items []c08GovItem) sdk.Msg {
	var msgs []sdk.Msg
	for _, it := range items {
		msgs = append(msgs, n.govSdkMsg(it))
	}
	m, err := govv1.NewMsgSubmitProposal(msgs, sdk.NewCoins(sdk.NewInt64Coin(c08Bond, 1)), n.addrOf(from).String(), "c08", "c08 proposal", "c08 summary", false)
	if err != nil {
		n.t.Fatalf("NewMsgSubmitProposal: %v", err)
	}
	return m
}

var c08FeeKinds = []int{c08Send, c08Exec, c08Assess, c08PayCreate, c08Submit}

func (c *c08Config) has(kind int) bool {
	for _, e := range c.schedule {
		if e.kind == kind {
			return true
		}
	}
	return false
}

func (g *c08Gen) govFee(kind int, op string) c08GovItem {
	r := g.r
	it := c08GovItem{op: op, kind: kind}
	it.coin = sdk.NewInt64Coin(c08Denoms[r.Intn(2)], []int64{1, 7, 100, 800, 1001, 12345}[r.Intn(6)])
	switch r.Intn(4) {
	case 0: // no recipient
	case 1:
		it.recipient = 1 + r.Intn(c08NAcc) // default basis points
	default:
		it.recipient = 1 + r.Intn(c08NAcc)
		it.bips = fmt.Sprint([]int{1, 2500, 3333, 5000, 9999, 10000, 1 + r.Intn(10000)}[r.Intn(7)])
	}
	return it
}

// genGovItems draws 1-3 proposal messages against the configuration in force.  wantFail: the LAST
// message fails when it is executed (all earlier ones succeed on the proposal's cache context, which
// gov then drops).
func (g *c08Gen) genGovItems(cfg *c08Config, st *c08State, wantFail bool) []c08GovItem {
	r := g.r
	work := &c08Config{schedule: append([]c08FeeEntry(nil), cfg.schedule...), conv: cfg.conv, perMil: cfg.perMil}
	govBal := st.bal[c08Gov][2]
	var out []c08GovItem
	valid := func() c08GovItem {
		for {
			switch r.Intn(7) {
			case 0, 1:
				k := c08FeeKinds[r.Intn(len(c08FeeKinds))]
				if work.has(k) {
					continue
				}
				work.schedule = append(work.schedule, c08FeeEntry{kind: k})
				return g.govFee(k, "add")
			case 2:
				if len(work.schedule) == 0 {
					continue
				}
				return g.govFee(work.schedule[r.Intn(len(work.schedule))].kind, "update")
			case 3:
				if len(work.schedule) == 0 {
					continue
				}
				i := r.Intn(len(work.schedule))
				k := work.schedule[i].kind
				work.schedule = append(work.schedule[:i:i], work.schedule[i+1:]...)
				return c08GovItem{op: "remove", kind: k}
			case 4:
				d := c08Denoms[r.Intn(3)]
				if d == work.conv {
					continue
				}
				work.conv = d
				return c08GovItem{op: "conv", denom: d}
			case 5:
				return c08GovItem{op: "permil", perMil: []uint64{1, 3, 25, 40, 1000}[r.Intn(5)]}
			default:
				if !govBal.IsPositive() {
					continue
				}
				amt := sdkmath.NewInt(int64(1 + r.Intn(50)))
				if amt.GT(govBal) {
					amt = govBal
				}
				govBal = govBal.Sub(amt)
				to := 1 + r.Intn(c08NAcc)
				if r.Intn(6) == 0 {
					to = 0 // to the fee collector
				}
				return c08GovItem{op: "send", to: to, coins: sdk.NewCoins(sdk.NewCoin(c08Denoms[2], amt))}
			}
		}
	}
	failing := func() c08GovItem {
		for {
			switch r.Intn(4) {
			case 0:
				if len(work.schedule) == 0 {
					continue
				}
				return g.govFee(work.schedule[r.Intn(len(work.schedule))].kind, "add") // already exists
			case 1:
				k := c08FeeKinds[r.Intn(len(c08FeeKinds))]
				if work.has(k) {
					continue
				}
				return g.govFee(k, "update") // does not exist
			case 2:
				k := c08FeeKinds[r.Intn(len(c08FeeKinds))]
				if work.has(k) {
					continue
				}
				return c08GovItem{op: "remove", kind: k}
			default:
				return c08GovItem{op: "send", to: 1 + r.Intn(c08NAcc), coins: sdk.NewCoins(sdk.NewCoin(c08Denoms[2], govBal.AddRaw(int64(1+r.Intn(5)))))}
			}
		}
	}
	nv := 1 + r.Intn(3)
	if wantFail {
		nv = 1 + r.Intn(2)
	}
	for i := 0; i < nv; i++ {
		out = append(out, valid())
	}
	if wantFail {
		out = append(out, failing())
	}
	return out
}

// ---------- one history ----------

type c08Hist struct {
	t       *testing.T
	n       *c08Net
	g       *c08Gen
	w       *CaseWriter
	r       *rand.Rand
	idx     int
	kind    string
	ctx     sdk.Context
	st      *c08State
	init    *c08State
	steps   []func() string
	sdesc   []map[string]any
	touched map[[2]int]bool
	pairs   [][2]int
	nontriv bool
	pending []*c08Plan // admitted and held back: offered again (recheck) at the start of the next block step
	ntTx    map[string]struct{}
	stat    *c08RunStats
}

type c08RunStats struct {
	gasUsedMin, gasUsedMax int64
}

var c08Ample = [c08NDen]sdkmath.Int{sdkmath.NewInt(1_000_000_000_000_000), sdkmath.NewInt(1_000_000_000), sdkmath.NewInt(1_000_000_000), sdkmath.NewInt(1_000_000_000)}

func (h *c08Hist) touch(gp [2]int) {
	if !h.touched[gp] {
		h.touched[gp] = true
		h.pairs = append(h.pairs, gp)
	}
}

func (h *c08Hist) setBal(id, d int, v sdkmath.Int) {
	h.n.setBal(h.ctx, id, c08Denoms[d], v)
	s := fmt.Sprintf("HSetBal %s %s %s", c08N(id), c08N(d+1), zInt(v))
	h.steps = append(h.steps, func() string { return s })
	h.st = h.st.clone()
	h.st.bal[id][d] = v
}

func (h *c08Hist) setAllow(g, p int, a c08Allow) {
	h.n.setAllow(h.ctx, g, p, a)
	h.touch([2]int{g, p})
	s := fmt.Sprintf("HSetAllow %s %s %s", c08N(g), c08N(p), c08AllowTerm(a))
	h.steps = append(h.steps, func() string { return s })
	h.st = h.st.clone()
	h.st.allow[g-1][p-1] = a
}

func (h *c08Hist) setCfg(c *c08Config) {
	h.n.applyConfig(h.ctx, c)
	s := "HSetCfg " + c.term()
	h.steps = append(h.steps, func() string { return s })
	h.st = h.st.clone()
	h.st.cfg = c
}

// clone: observed states are referred to by recorded steps and must not change afterwards
func (s *c08State) clone() *c08State {
	c := *s
	return &c
}

func (h *c08Hist) obsTerm(s *c08State) func() string {
	return func() string {
		return fmt.Sprintf("(Ob %s %s %s %s)", s.cfg.term(), s.balTerm(), s.seqTerm(), s.allowTerm(h.pairs))
	}
}

func (h *c08Hist) notePairs(post *c08State) {
	for i := 1; i <= c08NAcc; i++ {
		for j := 1; j <= c08NAcc; j++ {
			if post.allow[i-1][j-1].present {
				h.touch([2]int{i, j})
			}
		}
	}
}

// refill: accounts run dry as the history goes on (sends, earlier balance settings); most of the time
// the faucet refills them, so that rejections for lack of funds stay a minority
func (h *c08Hist) refill(planned map[[2]int]bool) {
	for id := 1; id <= c08NAcc; id++ {
		for d := 0; d < c08NDen; d++ {
			if !planned[[2]int{id, d}] && h.st.bal[id][d].LT(c08Ample[d].QuoRaw(1000)) && h.r.Intn(6) != 0 {
				h.setBal(id, d, c08Ample[d])
				h.w.Count("faucet-refill")
			}
		}
	}
}

func c08BaseFee(c *c08Config, gas uint64) sdk.Coins {
	if c.floor.Amount.IsPositive() && gas > 0 {
		return sdk.NewCoins(sdk.NewCoin(c.floor.Denom, c.floor.Amount.Mul(sdkmath.NewIntFromUint64(gas))))
	}
	return sdk.NewCoins()
}

// block offers the planned transactions to CheckTx one after the other (signing each for the
// sequence its signers have in the node's check state), executes the admitted and the forced ones
// in one block, observes the state afterwards and records the step.
func (h *c08Hist) block(plans []*c08Plan, scenario string) {
	n := h.n
	// what is still pending is rechecked first, right after the commit, as CometBFT does
	if len(h.pending) > 0 {
		for _, p := range h.pending {
			p.tx.recheck, p.tx.hold = true, p.holdAgain
			p.holdAgain = false
			p.setBal, p.setAllow = nil, nil
		}
		plans = append(append([]*c08Plan(nil), h.pending...), plans...)
		h.pending = nil
	}
	planned := map[[2]int]bool{}
	for _, p := range plans {
		for _, sb := range p.setBal {
			planned[[2]int{sb[0].(int), sb[1].(int)}] = true
		}
	}
	if !strings.HasPrefix(scenario, "drain") {
		h.refill(planned)
	}
	for _, p := range plans {
		for _, sb := range p.setBal {
			h.setBal(sb[0].(int), sb[1].(int), sb[2].(sdkmath.Int))
		}
		for _, sa := range p.setAllow {
			h.setAllow(sa.g, sa.p, sa.a)
		}
	}
	cur := n.observe(h.ctx)
	cfg := cur.cfg
	n.commit(h.ctx)

	seqs := cur.seq
	var inBlock [][]byte
	var blockTx []*c08Tx
	for _, p := range plans {
		t := p.tx
		bz := t.bz
		if !t.recheck {
			var err error
			if bz, err = n.sign(t, seqs); err != nil {
				h.t.Fatalf("sign: %v", err)
			}
			t.bz = bz
		}
		if t.granter > 0 && t.granter != t.payer {
			h.touch([2]int{t.granter, t.payer})
		}
		bump := false
		if t.forced {
			bump = p.expectAnte
		} else {
			typ := abci.CheckTxType_New
			if t.recheck {
				typ = abci.CheckTxType_Recheck
			}
			chk, err := n.app.CheckTx(&abci.RequestCheckTx{Tx: bz, Type: typ})
			if err != nil {
				h.t.Fatalf("CheckTx: %v", err)
			}
			t.admitted, t.chkCode, t.chkGasUsed = chk.Code == 0, chk.Code, chk.GasUsed
			t.ok, t.code, t.gasUsed = false, 0, 0
			bump = t.admitted
		}
		if t.admitted && !t.hold || t.forced {
			inBlock = append(inBlock, bz)
			blockTx = append(blockTx, t)
		} else if t.admitted {
			h.pending = append(h.pending, p)
		}
		if bump {
			for _, s := range t.signers {
				seqs[s-1]++
			}
		}
	}
	n.height++
	n.now = n.now.Add(5 * time.Second)
	res, err := n.app.FinalizeBlock(&abci.RequestFinalizeBlock{Height: n.height, Time: n.now, Txs: inBlock})
	if err != nil {
		h.t.Fatalf("FinalizeBlock(%d): %v", n.height, err)
	}
	for i, t := range blockTx {
		rr := res.TxResults[i]
		t.ok, t.code, t.gasUsed = rr.Code == 0, rr.Code, rr.GasUsed
	}
	h.ctx = n.ctx()
	post := n.observe(h.ctx)
	h.notePairs(post)

	// transactions in the block whose signers' sequences did not advance: refused by the ante handler on
	// the running state (counted per signer from the sequences before and after the block)
	for a := 1; a <= c08NAcc; a++ {
		signed := int64(0)
		for _, t := range blockTx {
			for _, s := range t.signers {
				if s == a {
					signed++
				}
			}
		}
		if d := signed - int64(post.seq[a-1]-cur.seq[a-1]); d > 0 {
			h.w.CountN("signatures-of-txs-refused-by-ante-inside-the-block", d)
			if len(plans) > 1 {
				h.w.Count("multi-tx-block-with-ante-refusal:" + scenario)
			}
		}
	}
	var items []string
	nIn, nFailedLater := 0, 0
	for _, p := range plans {
		t := p.tx
		items = append(items, fmt.Sprintf("(%s, Xo %s %s)", t.btxTerm(n), coqBool(t.admitted), coqBool(t.ok)))
		if t.admitted && !t.hold || t.forced {
			if nIn > 0 && !t.ok {
				nFailedLater++
			}
			nIn++
		}
		h.countTx(p, cfg, scenario, len(plans))
	}
	maxGas := n.maxGas
	ob := h.obsTerm(post)
	h.steps = append(h.steps, func() string {
		return fmt.Sprintf("HBlock %d %s %s", maxGas, coqList(items), ob())
	})
	h.w.Count(fmt.Sprintf("block-size:%d", len(plans)))
	h.w.Count(fmt.Sprintf("block-executed-txs:%d", nIn))
	if len(plans) > 1 {
		h.w.Count("multi-tx-block:" + scenario)
		h.w.CountN("multi-tx-block-failed-after-first", int64(nFailedLater))
	}
	h.st = post
}

func (h *c08Hist) countTx(p *c08Plan, cfg *c08Config, scenario string, blockSize int) {
	w, n, t := h.w, h.n, p.tx
	outcome := "rejected"
	if t.admitted && t.hold {
		outcome = "held-pending"
	} else if t.admitted || t.forced {
		outcome = "failed"
		if t.ok {
			outcome = "ok"
		}
		if h.stat.gasUsedMin == 0 || t.gasUsed < h.stat.gasUsedMin {
			h.stat.gasUsedMin = t.gasUsed
		}
		if t.gasUsed > h.stat.gasUsedMax {
			h.stat.gasUsedMax = t.gasUsed
		}
	}
	w.Count("tx")
	w.Count("outcome:" + outcome)
	if blockSize > 1 {
		w.Count("in-multi-tx-block:" + outcome)
	}
	if t.forced {
		w.Count("forced-into-block:" + outcome)
	}
	if t.recheck {
		w.Count("recheck:" + p.recheckWhy + ":" + outcome)
	}
	w.Count("fee:" + p.feeMode + ":" + outcome)
	w.Count("grant:" + p.grantMode + ":" + outcome)
	w.Count("balance:" + p.balMode + ":" + outcome)
	w.Count("gas:" + p.gasMode + ":" + outcome)
	if gi := t.gasInput(); gi != "(GObserved GasOk)" {
		w.Count("gas-input:" + strings.Fields(strings.Trim(gi, "()"))[0] + ":" + outcome)
	}
	if !t.forced && !t.admitted {
		w.Count(fmt.Sprintf("check-code:%d", t.chkCode))
	} else if t.hold && t.admitted {
	} else if !t.ok {
		w.Count(fmt.Sprintf("deliver-code:%d", t.code))
	}
	nRouted, hasNested, depth := 0, false, 0
	var dep func(m c08Msg) int
	dep = func(m c08Msg) int {
		if m.kind != c08Exec {
			return 0
		}
		best := 0
		for _, x := range m.inner {
			if d := dep(x); d > best {
				best = d
			}
		}
		return best + 1
	}
	for _, m := range t.msgs {
		rs := n.routedTerms(m, 0)
		nRouted += len(rs)
		if len(rs) > 1 {
			hasNested = true
		}
		if d := dep(m); d > depth {
			depth = d
		}
	}
	w.Count(fmt.Sprintf("routed-messages:%d", nRouted))
	if hasNested {
		w.Count("with-nested:" + outcome)
	}
	if depth > 0 {
		w.Count(fmt.Sprintf("exec-nesting-depth:%d:%s", depth, outcome))
	}
	if k := c08SameRecipientSources(cfg, t.msgs); k >= 2 {
		w.Count("same-recipient-from-2+-fee-sources:" + outcome)
	}
	w.Count("body:" + p.bodyMode + ":" + outcome)
	addl := c08Required(cfg, t.msgs, true)
	if !addl.IsZero() {
		w.Count("with-additional-fee:" + outcome)
	}
	if len(addl) > 1 || (len(addl) == 1 && !cfg.floor.Amount.IsZero() && addl[0].Denom != cfg.floor.Denom) {
		w.Count("fee-in-two-denoms:" + outcome)
	}
	if len(t.signers) > 1 {
		w.Count("multi-signer:" + outcome)
	}
	if t.explicitPayer {
		w.Count("fee-payer-signs-no-message:" + outcome)
	}
	w.Count("conversion-denom:" + cfg.conv)
	for _, m := range t.msgs {
		var walk func(m c08Msg)
		walk = func(m c08Msg) {
			if m.kind == c08Assess {
				switch m.amount.Denom {
				case msgfeestypes.UsdDenom:
					w.Count("custom-fee:usd:conv=" + cfg.conv + ":" + outcome)
				case cfg.conv:
					w.Count("custom-fee:in-conversion-denom:conv=" + cfg.conv + ":" + outcome)
				default:
					w.Count("custom-fee:not-convertible:conv=" + cfg.conv + ":" + outcome)
				}
			}
			for _, x := range m.inner {
				walk(x)
			}
		}
		walk(m)
	}
	if (t.admitted && !t.hold || t.forced) && (!addl.IsZero() || !t.ok || t.granter > 0) {
		h.ntTx[cfg.term()+t.btxTerm(n)] = struct{}{}
		h.nontriv = true
	}
	h.sdesc = append(h.sdesc, map[string]any{"fee": t.fee.String(), "gas": t.gas, "payer": t.payer, "granter": t.granter,
		"msgs": len(t.msgs), "routed": nRouted, "fee_mode": p.feeMode, "grant_mode": p.grantMode, "balance_mode": p.balMode,
		"gas_mode": p.gasMode, "body": p.bodyMode, "floor": cfg.floor.String(), "schedule": len(cfg.schedule), "conversion_denom": cfg.conv,
		"outcome": outcome, "check_code": t.chkCode, "deliver_code": t.code, "gas_used": t.gasUsed, "forced": t.forced,
		"block_scenario": scenario, "block_size": blockSize, "step": len(h.steps), "recheck": t.recheck, "held": t.hold})
	if t.ok && p.payWork != nil {
		n.payments = p.payWork
	}
}

// govStep: a proposal is submitted (by a signed MsgSubmitProposal in a block of its own, or through
// the gov message server on the open block), the genesis delegator votes, and the next (empty) block,
// 5 s later, ends the 1 s voting period: the real gov EndBlocker tallies and executes the messages.
func (h *c08Hist) govStep(items []c08GovItem, voteYes, viaTx bool, shape string) {
	n := h.n
	pid, err := n.app.GovKeeper.ProposalID.Peek(h.ctx)
	if err != nil {
		h.t.Fatalf("proposal id: %v", err)
	}
	proposer := 1 + h.r.Intn(c08NAcc)
	if viaTx {
		p := h.g.plan(h.st, h.st.cfg, c08PlanOpts{payer: proposer, noBal: true, body: []c08Msg{{kind: c08Submit, from: proposer, gov: items}}, bodyMode: "gov-submit-proposal"})
		if p.tx.gas < 400_000 && p.gasMode == "ample" {
			p.tx.gas = 1_000_000
			p.tx.fee = p.tx.fee.Add(c08BaseFee(h.st.cfg, 1_000_000)...)
		}
		h.block([]*c08Plan{p}, "single")
		if !p.tx.ok {
			h.w.Count("gov:submit-tx-not-executed")
			return
		}
	} else {
		if _, err := govkeeper.NewMsgServerImpl(&n.app.GovKeeper).SubmitProposal(h.ctx, n.submitMsg(proposer, items).(*govv1.MsgSubmitProposal)); err != nil {
			h.t.Fatalf("SubmitProposal: %v", err)
		}
	}
	opt := govv1.OptionNo
	if voteYes {
		opt = govv1.OptionYes
	}
	if err := n.app.GovKeeper.AddVote(h.ctx, pid, n.accts[0].addr, govv1.NewNonSplitVoteOption(opt), ""); err != nil {
		h.t.Fatalf("AddVote: %v", err)
	}
	n.commit(h.ctx)
	n.height++
	n.now = n.now.Add(5 * time.Second)
	if _, err := n.app.FinalizeBlock(&abci.RequestFinalizeBlock{Height: n.height, Time: n.now}); err != nil {
		h.t.Fatalf("FinalizeBlock(%d): %v", n.height, err)
	}
	h.ctx = n.ctx()
	post := n.observe(h.ctx)
	h.notePairs(post)
	prop, err := n.app.GovKeeper.Proposals.Get(h.ctx, pid)
	if err != nil {
		h.t.Fatalf("proposal %d: %v", pid, err)
	}
	passed := prop.Status == govv1.StatusPassed
	status := "failed"
	switch prop.Status {
	case govv1.StatusPassed:
		status = "passed"
	case govv1.StatusRejected:
		status = "rejected"
	case govv1.StatusFailed:
	default:
		h.t.Fatalf("proposal %d still has status %s", pid, prop.Status)
	}
	var its, ds []string
	for _, it := range items {
		its = append(its, it.term())
		ds = append(ds, it.String())
		h.w.Count("gov-message:" + it.op + ":" + status)
		if it.op == "send" && h.st.cfg.has(c08Send) {
			h.w.Count("gov-executed-MsgSend-while-MsgSend-has-a-fee:" + status)
		}
	}
	ob := h.obsTerm(post)
	h.steps = append(h.steps, func() string {
		return fmt.Sprintf("HGov %s %s %s %s", coqBool(voteYes), coqList(its), coqBool(passed), ob())
	})
	h.w.Count("gov-proposal:" + status)
	h.w.Count("gov-proposal-shape:" + shape + ":" + status)
	h.w.Count(fmt.Sprintf("gov-proposal-messages:%d", len(items)))
	if viaTx {
		h.w.Count("gov-proposal:submitted-by-signed-tx")
	}
	h.nontriv = true
	h.sdesc = append(h.sdesc, map[string]any{"governance_proposal": ds, "vote_yes": voteYes, "status": status, "submitted_by_tx": viaTx, "step": len(h.steps)})
	h.st = post
}

// ---------- steps of the random histories ----------

func (h *c08Hist) stepSingle(redraw bool) {
	if pid, err := h.n.app.GovKeeper.ProposalID.Peek(h.ctx); err == nil {
		h.g.nextPid = pid
	}
	defer func() { h.g.nextPid = 0 }()
	cfg := h.st.cfg
	if redraw {
		cfg = c08GenConfig(h.r)
	}
	p := h.g.plan(h.st, cfg, c08PlanOpts{allowPay: true, mayEditCfg: redraw})
	if redraw {
		h.setCfg(p.cfg)
	}
	h.block([]*c08Plan{p}, "single")
}

func c08Minus(c sdk.Coins, d string, v sdkmath.Int) sdkmath.Int { return c.AmountOf(d).Sub(v) }

func (h *c08Hist) stepMulti() {
	r, g, st, cfg := h.r, h.g, h.st, h.st.cfg
	if r.Intn(3) == 0 {
		cfg = c08GenConfig(r)
		h.setCfg(cfg)
	}
	var plans []*c08Plan
	scenario := []string{"independent", "drain-same-payer", "shared-grant", "same-payer-chain", "mixed"}[r.Intn(5)]
	switch scenario {
	case "independent":
		for i, k := 0, 2+r.Intn(4); i < k; i++ {
			plans = append(plans, g.plan(st, cfg, c08PlanOpts{noBal: r.Intn(3) != 0}))
		}
	case "same-payer-chain":
		pyr := 1 + r.Intn(c08NAcc)
		for i, k := 0, 3+r.Intn(3); i < k; i++ {
			plans = append(plans, g.plan(st, cfg, c08PlanOpts{payer: pyr, noBal: true, noGrant: r.Intn(3) != 0}))
		}
	case "drain-same-payer":
		// the first transaction's MsgSend leaves the payer with exactly R of the floor price's denom;
		// the second one, admitted to the mempool while the payer was still rich, needs base / declared
		pyr := 1 + r.Intn(c08NAcc)
		fd := 0
		for i, d := range c08Denoms {
			if cfg.floor.Denom == d {
				fd = i
			}
		}
		p2 := g.plan(st, cfg, c08PlanOpts{payer: pyr, noBal: true, noGrant: true})
		base2 := c08BaseFee(cfg, p2.tx.gas).AmountOf(c08Denoms[fd])
		fee2 := p2.tx.fee.AmountOf(c08Denoms[fd])
		var left sdkmath.Int
		var mode string
		switch r.Intn(6) {
		case 0:
			left, mode = base2.SubRaw(1), "base-1"
		case 1:
			left, mode = base2, "=base"
		case 2:
			left, mode = fee2.SubRaw(1), "declared-1"
		case 3:
			left, mode = fee2, "=declared"
		case 4:
			left, mode = sdkmath.ZeroInt(), "zero"
		default:
			left, mode = fee2.AddRaw(int64(1+r.Intn(5000))), "declared+small"
		}
		if left.IsNegative() {
			left = sdkmath.ZeroInt()
		}
		body := []c08Msg{{kind: c08Send, from: pyr, to: g.otherThan(pyr), coins: sdk.NewCoins(sdk.NewCoin(c08Denoms[fd], sdkmath.OneInt()))}}
		p1 := g.plan(st, cfg, c08PlanOpts{payer: pyr, noBal: true, noGrant: true, body: body, bodyMode: "drain-send", feeMode: "exact", gas: 500_000})
		amt := st.bal[pyr][fd].Sub(p1.tx.fee.AmountOf(c08Denoms[fd])).Sub(left)
		if !amt.IsPositive() {
			amt = sdkmath.OneInt()
		}
		p1.tx.msgs[0].coins = sdk.NewCoins(sdk.NewCoin(c08Denoms[fd], amt))
		p2.balMode = "after-drain:" + mode
		plans = []*c08Plan{p1, p2}
		if r.Intn(3) == 0 {
			plans = append(plans, g.plan(st, cfg, c08PlanOpts{payer: g.otherThan(pyr), noBal: true}))
		}
		if r.Intn(4) == 0 {
			plans = append(plans, g.plan(st, cfg, c08PlanOpts{payer: pyr, noBal: true, noGrant: true}))
		}
	case "shared-grant":
		// two or three transactions of one grantee name the same granter; the allowance the first one
		// leaves decides what the next can do
		pyr := 1 + r.Intn(c08NAcc)
		gr := g.otherThan(pyr)
		k := 2 + r.Intn(2)
		for i := 0; i < k; i++ {
			plans = append(plans, g.plan(st, cfg, c08PlanOpts{payer: pyr, granter: gr, noBal: true}))
		}
		f1, f2 := plans[0].tx.fee, plans[1].tx.fee
		b1, b2 := c08BaseFee(cfg, plans[0].tx.gas), c08BaseFee(cfg, plans[1].tx.gas)
		a := c08Allow{present: true}
		var mode string
		one := sdk.NewInt64Coin(c08Denoms[0], 1)
		switch r.Intn(8) {
		case 0:
			a.limit, mode = f1, "first-declared"
		case 1:
			a.limit, mode = f1.Add(b2...), "first-declared+second-base"
		case 2:
			a.limit, mode = f1.Add(f2...), "both-declared"
		case 3:
			a.limit, mode = f1.Add(f2...).Add(one), "both-declared+1"
		case 4:
			a.limit, mode = b1.Add(b2...), "both-base"
		case 5:
			a.unlimited, mode = true, "unlimited"
		case 6:
			a.limit, mode = f1.Add(f2...), "both-declared-1"
			if len(a.limit) > 0 {
				x := a.limit[r.Intn(len(a.limit))]
				a.limit = a.limit.Sub(sdk.NewCoin(x.Denom, sdkmath.OneInt()))
			}
		default:
			a.limit, mode = f1.Add(f2...).Add(sdk.NewInt64Coin(c08Denoms[0], 1_000_000_000), sdk.NewInt64Coin(c08Denoms[1], 1_000_000)), "ample"
		}
		if !a.unlimited && a.limit.IsZero() {
			a.present = false
		}
		for _, p := range plans {
			p.grantMode = "shared-in-block:" + mode
		}
		plans[0].setAllow = append(plans[0].setAllow, struct {
			g, p int
			a    c08Allow
		}{gr, pyr, a})
	default:
		for i, k := 0, 2+r.Intn(4); i < k; i++ {
			o := c08PlanOpts{noBal: r.Intn(2) == 0}
			if i > 0 && r.Intn(2) == 0 {
				o.payer = plans[r.Intn(len(plans))].tx.payer
			}
			plans = append(plans, g.plan(st, cfg, o))
		}
	}
	h.block(plans, scenario)
}

func (c *c08Config) copy() *c08Config {
	d := *c
	d.schedule = append([]c08FeeEntry(nil), c.schedule...)
	return &d
}

var c08RecheckWhy = []string{"nothing-changed", "schedule-raised-by-direct-write", "floor-price-raised", "governance-adds-or-raises-a-fee", "payer-drained", "conversion-changed"}

// stepRecheck: 2-4 transactions are offered; the proposer holds some of the admitted ones back (they
// stay pending) and puts the others into a block; then something changes and is committed - a fee is
// added or raised (directly or by a passing proposal), the floor price or the conversion changes, a
// payer loses its funds - and the next block step starts with CheckTx(Recheck) of what is pending.
func (h *c08Hist) stepRecheck(whyIdx int) {
	r, g := h.r, h.g
	cfg := h.st.cfg
	if whyIdx >= 0 || r.Intn(3) == 0 {
		cfg = c08GenConfig(r)
		h.setCfg(cfg)
	}
	if whyIdx < 0 {
		whyIdx = r.Intn(len(c08RecheckWhy))
	}
	why := c08RecheckWhy[whyIdx]
	g.nextPid = 0
	var plans []*c08Plan
	k := 2 + r.Intn(3)
	held := 0
	for i := 0; i < k; i++ {
		o := c08PlanOpts{noBal: true}
		if r.Intn(4) != 0 {
			o.feeMode = "exact" // covered exactly under the schedule in force: any raise uncovers it
		}
		p := g.plan(h.st, cfg, o)
		if r.Intn(2) == 0 || (i == k-1 && held == 0) {
			p.tx.hold = true
			held++
		}
		plans = append(plans, p)
	}
	h.block(plans, "recheck:admit-and-hold")
	h.w.Count(fmt.Sprintf("recheck:pending-after-first-block:%d", len(h.pending)))
	top := map[int]bool{}
	for _, p := range h.pending {
		p.recheckWhy = why
		for _, m := range p.tx.msgs {
			top[m.kind] = true
		}
	}
	var kinds []int
	for _, kd := range []int{c08Send, c08Exec, c08Assess, c08Submit, c08Vote} {
		if top[kd] {
			kinds = append(kinds, kd)
		}
	}
	if len(kinds) == 0 {
		kinds = []int{c08Send}
	}
	cur := h.st.cfg
	switch why {
	case "schedule-raised-by-direct-write":
		nc := cur.copy()
		for _, kd := range kinds {
			found := false
			for i := range nc.schedule {
				if nc.schedule[i].kind == kd {
					nc.schedule[i].coin = nc.schedule[i].coin.AddAmount(sdkmath.NewInt(int64(1 + r.Intn(500))))
					found = true
				}
			}
			if !found {
				nc.schedule = append(nc.schedule, c08FeeEntry{kind: kd, coin: sdk.NewInt64Coin(c08Denoms[r.Intn(2)], int64(1+r.Intn(900)))})
			}
		}
		h.setCfg(nc)
	case "floor-price-raised":
		nc := cur.copy()
		nc.floor = nc.floor.AddAmount(sdkmath.NewInt(int64(1 + r.Intn(2))))
		h.setCfg(nc)
	case "governance-adds-or-raises-a-fee":
		var items []c08GovItem
		for _, kd := range kinds[:1+r.Intn(len(kinds))] {
			it := g.govFee(kd, "add")
			for _, e := range cur.schedule {
				if e.kind == kd {
					it.op = "update"
					it.coin = e.coin.AddAmount(sdkmath.NewInt(int64(1 + r.Intn(500))))
				}
			}
			items = append(items, it)
		}
		h.govStep(items, true, false, "raises-fees-of-pending-transactions")
	case "payer-drained":
		for _, p := range h.pending {
			src := p.tx.payer
			if p.tx.granter > 0 {
				src = p.tx.granter
			}
			for d := 0; d < 3; d++ {
				if cur.floor.Denom == c08Denoms[d] {
					h.setBal(src, d, sdkmath.NewInt(int64(r.Intn(3))))
				}
			}
		}
	case "conversion-changed":
		nc := cur.copy()
		if r.Intn(2) == 0 {
			nc.perMil = nc.perMil*3 + 1
		} else {
			for _, d := range c08Denoms[:3] {
				if d != nc.conv {
					nc.conv = d
					break
				}
			}
		}
		h.setCfg(nc)
	}
	var more []*c08Plan
	for i, m := 0, r.Intn(3); i < m; i++ {
		more = append(more, g.plan(h.st, h.st.cfg, c08PlanOpts{noBal: true}))
	}
	// now and then the proposer holds a survivor back once more: it is rechecked a second time
	if len(h.pending) > 0 && r.Intn(5) == 0 {
		h.pending[len(h.pending)-1].holdAgain = true
	}
	h.block(more, "recheck:"+why)
	if len(h.pending) > 0 {
		for _, p := range h.pending {
			p.recheckWhy = "second-recheck"
		}
		h.block(nil, "recheck:second-round")
	}
}

func (h *c08Hist) stepGov() {
	r := h.r
	wantFail := r.Intn(100) < 45
	items := h.g.genGovItems(h.st.cfg, h.st, wantFail)
	shape := "all-messages-valid"
	if wantFail {
		shape = "last-message-fails"
	}
	h.govStep(items, r.Intn(10) != 0, r.Intn(10) < 4, shape)
}

// after a governance step: transactions of the message types the proposal touched, declaring exactly
// the base fee, exactly what the committed schedule asks, and plenty
func (h *c08Hist) txsAfterGov(items []c08GovItem) {
	r, g := h.r, h.g
	for _, it := range items {
		var body func(pyr int) []c08Msg
		switch {
		case it.op == "conv" || it.op == "permil":
			body = func(pyr int) []c08Msg {
				m := g.genAssess(pyr)
				return []c08Msg{m}
			}
		case it.kind == c08Send:
			body = func(pyr int) []c08Msg {
				return []c08Msg{{kind: c08Send, from: pyr, to: g.otherThan(pyr), coins: sdk.NewCoins(sdk.NewInt64Coin(c08Denoms[2], int64(1+r.Intn(100))))}}
			}
		case it.kind == c08Exec:
			body = func(pyr int) []c08Msg {
				return []c08Msg{{kind: c08Exec, from: pyr, inner: []c08Msg{{kind: c08Send, from: pyr, to: g.otherThan(pyr), coins: sdk.NewCoins(sdk.NewInt64Coin(c08Denoms[2], int64(1+r.Intn(100))))}}}}
			}
		case it.kind == c08Assess:
			body = func(pyr int) []c08Msg { return []c08Msg{g.genAssess(pyr)} }
		default:
			continue
		}
		for _, fm := range []string{"exactly-base", "exact", "above-all"} {
			if r.Intn(4) == 0 {
				continue
			}
			pyr := 1 + r.Intn(c08NAcc)
			g.cfg = h.st.cfg
			p := g.plan(h.st, h.st.cfg, c08PlanOpts{payer: pyr, noBal: true, noGrant: r.Intn(4) != 0, body: body(pyr), bodyMode: "after-governance:" + it.op, feeMode: fm, gas: 500_000})
			h.block([]*c08Plan{p}, "single")
		}
	}
}

// ---------- scripted histories ----------

// govRollback: a proposal whose earlier messages add / update / remove a message fee and whose last
// message fails is executed (and dropped) by gov; then transactions of the affected type.
func (h *c08Hist) govRollback() {
	r, g := h.r, h.g
	for round := 0; round < 3; round++ {
		cfg := c08GenConfig(r)
		variant := []string{"phantom-add", "phantom-remove", "phantom-update"}[r.Intn(3)]
		kind := []int{c08Send, c08Send, c08Exec, c08Assess}[r.Intn(4)]
		// the schedule before the proposal
		var sch []c08FeeEntry
		for _, e := range cfg.schedule {
			if e.kind != kind {
				sch = append(sch, e)
			}
		}
		cfg.schedule = sch
		if variant != "phantom-add" {
			e := c08FeeEntry{kind: kind, coin: sdk.NewInt64Coin(c08Denoms[r.Intn(2)], []int64{7, 100, 800, 12345}[r.Intn(4)])}
			if r.Intn(3) != 0 {
				e.recipient, e.bips = 1+r.Intn(c08NAcc), []uint32{2500, 5000, 10000}[r.Intn(3)]
			}
			cfg.schedule = append(cfg.schedule, e)
		}
		h.setCfg(cfg)
		var first c08GovItem
		switch variant {
		case "phantom-add":
			first = g.govFee(kind, "add")
		case "phantom-update":
			first = g.govFee(kind, "update")
		default:
			first = c08GovItem{op: "remove", kind: kind}
		}
		if first.op != "remove" && first.recipient == 0 && r.Intn(2) == 0 {
			first.recipient, first.bips = 1+r.Intn(c08NAcc), "5000"
		}
		items := []c08GovItem{first}
		if r.Intn(3) == 0 {
			items = append(items, c08GovItem{op: "permil", perMil: 40})
		}
		// the failing message
		work := &c08Config{schedule: cfg.schedule}
		var missing []int
		for _, k := range c08FeeKinds {
			if !work.has(k) && k != kind {
				missing = append(missing, k)
			}
		}
		switch {
		case len(missing) > 0 && r.Intn(2) == 0:
			items = append(items, c08GovItem{op: "remove", kind: missing[r.Intn(len(missing))]})
		case len(missing) > 0 && r.Intn(2) == 0:
			items = append(items, g.govFee(missing[r.Intn(len(missing))], "update"))
		default:
			items = append(items, c08GovItem{op: "send", to: 1 + r.Intn(c08NAcc), coins: sdk.NewCoins(sdk.NewCoin(c08Denoms[2], h.st.bal[c08Gov][2].AddRaw(1)))})
		}
		h.govStep(items, true, r.Intn(3) == 0, "rollback:"+variant)
		h.txsAfterGov(items[:1])
		if r.Intn(2) == 0 {
			// and once more with a proposal that passes
			ok := g.genGovItems(h.st.cfg, h.st, false)
			h.govStep(ok, true, false, "all-messages-valid")
			h.txsAfterGov(ok)
		}
	}
}

// conversion: governance moves the conversion denom away from the keeper's default and back; custom
// assessed fees in usd, in the old and in the new conversion denom after each move.
func (h *c08Hist) conversion() {
	r, g := h.r, h.g
	cfg := c08GenConfig(r)
	cfg.conv = c08Denoms[0]
	h.setCfg(cfg)
	seq := [][]c08GovItem{
		{{op: "conv", denom: c08Denoms[1]}},
		{{op: "permil", perMil: []uint64{3, 40, 1000}[r.Intn(3)]}, {op: "conv", denom: c08Denoms[2]}},
		{{op: "conv", denom: c08Denoms[0]}, {op: "send", to: 1, coins: sdk.NewCoins(sdk.NewCoin(c08Denoms[2], h.st.bal[c08Gov][2].AddRaw(1)))}}, // fails: the denom stays
		{{op: "conv", denom: c08Denoms[0]}},
		{{op: "conv", denom: c08Denoms[1]}, {op: "permil", perMil: 7}},
	}
	for i, items := range seq {
		shape := "conversion"
		if i == 2 {
			shape = "conversion:last-message-fails"
		}
		h.govStep(items, true, r.Intn(4) == 0, shape)
		for k := 0; k < 3; k++ {
			pyr := 1 + r.Intn(c08NAcc)
			g.cfg = h.st.cfg
			m := g.genAssess(pyr)
			switch k {
			case 0:
				m.amount = sdk.NewInt64Coin(msgfeestypes.UsdDenom, m.amount.Amount.Int64())
			case 1:
				m.amount = sdk.NewInt64Coin(h.st.cfg.conv, m.amount.Amount.Int64())
			default:
				old := c08Denoms[0]
				if h.st.cfg.conv == old {
					old = c08Denoms[1+r.Intn(2)]
				}
				m.amount = sdk.NewInt64Coin(old, m.amount.Amount.Int64())
			}
			if m.recipient == 0 || m.bips == "0" {
				m.recipient, m.bips = g.otherThan(pyr), []string{"", "5000", "9999"}[r.Intn(3)]
			}
			body := []c08Msg{m}
			if r.Intn(3) == 0 {
				body = []c08Msg{{kind: c08Exec, from: pyr, inner: []c08Msg{m}}}
			}
			fm := []string{"exact", "above-all", "above-all", "exactly-base"}[r.Intn(4)]
			p := g.plan(h.st, h.st.cfg, c08PlanOpts{payer: pyr, noBal: true, noGrant: r.Intn(4) != 0, body: body, bodyMode: "after-governance:conversion", feeMode: fm, gas: 500_000})
			h.block([]*c08Plan{p}, "single")
		}
	}
}

// setMaxGas writes the consensus parameter Block.MaxGas (committed with the open block).
func (h *c08Hist) setMaxGas(v int64) {
	cp, err := h.n.app.ConsensusParamsKeeper.ParamsStore.Get(h.ctx)
	if err != nil {
		h.t.Fatalf("consensus params: %v", err)
	}
	cp.Block.MaxGas = v
	if err := h.n.app.ConsensusParamsKeeper.ParamsStore.Set(h.ctx, cp); err != nil {
		h.t.Fatalf("set consensus params: %v", err)
	}
	h.n.maxGas = v
}

// gasPhases: a body is first executed with ample gas (CheckTx reports the ante handler's consumption,
// the block the total); then the same body is offered with gas limits calibrated to run out of gas in
// the ante handler, in the messages, and - with a small block gas limit - on the block gas meter
// between the messages and FeeInvoke; the transaction after that finds the block gas meter exhausted.
func (h *c08Hist) gasPhases() {
	r, g := h.r, h.g
	for round := 0; round < 2; round++ {
		cfg := c08GenConfig(r)
		if !cfg.floor.Amount.IsPositive() {
			cfg.floor = sdk.NewInt64Coin(c08Denoms[r.Intn(2)], int64(1+r.Intn(3)))
		}
		h.setCfg(cfg)
		pyr := 1 + r.Intn(c08NAcc)
		mkBody := func() []c08Msg {
			send := c08Msg{kind: c08Send, from: pyr, to: g.otherThan(pyr), coins: sdk.NewCoins(sdk.NewInt64Coin(c08Denoms[2], 5))}
			switch round {
			case 0:
				return []c08Msg{send}
			default:
				return []c08Msg{{kind: c08Exec, from: pyr, inner: []c08Msg{send}}, send}
			}
		}
		opts := func(gas uint64, fm string) c08PlanOpts {
			return c08PlanOpts{payer: pyr, noBal: true, noGrant: true, body: mkBody(), bodyMode: "gas-calibrated", feeMode: fm, gas: gas}
		}
		twin := g.plan(h.st, cfg, opts(1_000_000, "exact"))
		h.block([]*c08Plan{twin}, "single")
		if !twin.tx.ok {
			h.w.Count("gas-phases:twin-not-executed")
			continue
		}
		ga, gt := twin.tx.chkGasUsed, twin.tx.gasUsed
		if gt-ga < 12_000 {
			h.w.Count("gas-phases:messages-too-cheap")
			continue
		}
		meas := fmt.Sprintf("(GMeasured %d %d)", ga, gt)
		run := func(gas int64, forced, expectAnte bool, mode string, fm string) *c08Plan {
			p := g.plan(h.st, cfg, opts(uint64(gas), fm))
			p.tx.gasIn, p.tx.forced, p.expectAnte, p.gasMode = meas, forced, expectAnte, mode
			return p
		}
		// out of gas in the ante handler: rejected by CheckTx; forced into a block: nothing is charged
		h.block([]*c08Plan{run(ga-6000, false, false, "calibrated:ante:offered", "exact")}, "single")
		h.block([]*c08Plan{run(ga-6000, true, false, "calibrated:ante:forced", "exact")}, "single")
		h.block([]*c08Plan{run(ga/2, true, false, "calibrated:ante-early:forced", "exact")}, "single")
		// out of gas in the messages: exactly the base fee
		h.block([]*c08Plan{run((ga+gt)/2, false, false, "calibrated:messages", "exact")}, "single")
		h.block([]*c08Plan{run(ga+3000, false, false, "calibrated:messages-early", "above-all")}, "single")
		// enough
		h.block([]*c08Plan{run(gt+5000, false, false, "calibrated:enough", "exact")}, "single")
		// the block gas meter: three transactions of gt+5000 each in a block of gt+5000+gt/2
		limit := gt + 5000
		old := h.n.maxGas
		h.setMaxGas(limit + gt/2)
		other := g.otherThan(pyr)
		p3 := g.plan(h.st, cfg, c08PlanOpts{payer: other, noBal: true, noGrant: true, body: []c08Msg{{kind: c08Send, from: other, to: pyr, coins: sdk.NewCoins(sdk.NewInt64Coin(c08Denoms[2], 3))}}, bodyMode: "gas-calibrated", feeMode: "exact", gas: uint64(limit)})
		p3.gasMode = "calibrated:block-gas-exhausted"
		h.block([]*c08Plan{run(limit, false, false, "calibrated:block-gas:first", "exact"), run(limit, false, false, "calibrated:block-gas:overflows", "exact"), p3}, "block-gas-limit")
		h.setMaxGas(old)
		// a declared fee equal to the base fee, paid from an allowance of exactly that amount: the ante
		// handler uses the allowance up (feegrant deletes it), FeeInvoke then finds no grant
		plain := *cfg
		plain.schedule = nil
		h.setCfg(&plain)
		gr := g.otherThan(pyr)
		pa := g.plan(h.st, &plain, c08PlanOpts{payer: pyr, granter: gr, noBal: true, body: mkBody(), bodyMode: "allowance-equals-base-fee", feeMode: "exactly-base", gas: 500_000})
		pa.grantMode = "limit=declared=base"
		pa.setAllow = append(pa.setAllow, struct {
			g, p int
			a    c08Allow
		}{gr, pyr, c08Allow{present: true, limit: pa.tx.fee}})
		h.block([]*c08Plan{pa}, "single")
		outcome := "rejected"
		if pa.tx.admitted {
			outcome = "failed"
			if pa.tx.ok {
				outcome = "ok"
			}
		}
		h.w.Count("observation:declared-fee=base-fee=allowance:" + outcome)
		h.stepSingle(true)
	}
}

func (h *c08Hist) finish() {
	sort.Slice(h.pairs, func(i, j int) bool {
		if h.pairs[i][0] != h.pairs[j][0] {
			return h.pairs[i][0] < h.pairs[j][0]
		}
		return h.pairs[i][1] < h.pairs[j][1]
	})
	var accts, denoms, pt, types, steps []string
	for a := 0; a <= c08Gov; a++ {
		accts = append(accts, c08N(a))
	}
	for d := 1; d <= c08NDen; d++ {
		denoms = append(denoms, c08N(d))
	}
	for _, gp := range h.pairs {
		pt = append(pt, fmt.Sprintf("(%s, %s)", c08N(gp[0]), c08N(gp[1])))
	}
	for _, k := range c08Kinds {
		types = append(types, c08N(k))
	}
	for _, s := range h.steps {
		steps = append(steps, s())
	}
	term := fmt.Sprintf("CHist %s %s %s %s\n    %s\n    %s\n    %s\n    %s\n    [%s]",
		coqList(accts), coqList(denoms), coqList(pt), coqList(types), h.init.cfg.term(), h.init.balTerm(), h.init.seqTerm(), h.init.allowTerm(h.pairs),
		strings.Join(steps, ";\n     "))
	h.w.Add(term, map[string]any{"history": h.idx, "kind": h.kind, "steps": h.sdesc})
	if h.nontriv {
		h.w.Nontrivial(term) // a history counts once; the transaction-level number is a separate statistic
	}
	h.w.Count("histories")
	h.w.Count("history-kind:" + h.kind)
}

func TestC08(t *testing.T) {
	r := newRand("C08")
	w := NewCaseWriter("C08", "PV.Corr.C08", "check_all", 25)
	n := c08NewNet(t)
	g := &c08Gen{r: r, n: n}
	nHist := scale(40, 600)
	perHist := scale(12, 18)
	ntTx := map[string]struct{}{} // distinct non-trivial transactions (with their configuration)
	stat := &c08RunStats{}

	for hi := 0; hi < nHist; hi++ {
		// history start: clean fee allowances, ample balances; the starting state is observed
		ctx := n.ctx()
		for i := 1; i <= c08NAcc; i++ {
			for j := 1; j <= c08NAcc; j++ {
				if i != j {
					n.setAllow(ctx, i, j, c08Allow{})
				}
			}
			for d := 0; d < c08NDen; d++ {
				n.setBal(ctx, i, c08Denoms[d], c08Ample[d])
			}
		}
		n.setBal(ctx, c08Gov, c08Denoms[2], sdkmath.NewInt(1000))
		n.applyConfig(ctx, c08GenConfig(r))
		h := &c08Hist{t: t, n: n, g: g, w: w, r: r, idx: hi, ctx: ctx, touched: map[[2]int]bool{}, ntTx: ntTx, stat: stat}
		h.st = n.observe(ctx)
		h.init = n.observe(ctx)
		switch hi % 8 {
		case 3:
			h.kind = "mempool-recheck"
			for i := range c08RecheckWhy {
				h.stepRecheck(i)
			}
			h.stepRecheck(1)
			h.stepRecheck(3)
		case 2:
			h.kind = "governance-rollback"
			h.govRollback()
		case 5:
			h.kind = "conversion-denom"
			h.conversion()
		case 6:
			h.kind = "gas-phases"
			h.gasPhases()
		default:
			h.kind = "random"
			for s := 0; s < perHist; s++ {
				switch k := r.Intn(100); {
				case k < 45:
					h.stepSingle(true)
				case k < 60:
					h.stepSingle(false)
				case k < 80:
					h.stepMulti()
				case k < 88:
					h.stepRecheck(-1)
				default:
					h.stepGov()
					if r.Intn(2) == 0 {
						h.stepSingle(false)
					}
				}
			}
		}
		h.finish()
	}
	w.Stats["distinct_nontrivial_transactions"] = int64(len(ntTx))
	w.Stats["gas_used_min"] = stat.gasUsedMin
	w.Stats["gas_used_max"] = stat.gasUsedMax
	w.Flush(t)
}
