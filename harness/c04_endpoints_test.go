//go:build c04

package harness

// C04, second part: the three send restrictions together (sanctioned senders, quarantined receivers,
// the quarantine pay-out) and the REAL endpoints that reach the bank with marker context flags set:
// marker MsgTransferRequest (markertypes.WithBypass), exchange MsgMarketSettle (the market admin as
// transfer agent, quarantine bypassed), metadata MsgUpdateValueOwners (the signers as transfer
// agents).  Every endpoint runs through the message router in a scratch copy of the world.

import (
	"fmt"

	sdkmath "cosmossdk.io/math"
	sdk "github.com/cosmos/cosmos-sdk/types"
	"github.com/google/uuid"

	"github.com/provenance-io/provenance/x/exchange"
	markertypes "github.com/provenance-io/provenance/x/marker/types"
	mdtypes "github.com/provenance-io/provenance/x/metadata/types"
	"github.com/provenance-io/provenance/x/quarantine"
	"github.com/provenance-io/provenance/x/sanction"
)

func (e *c04Env) deliver(ctx sdk.Context, msg sdk.Msg) error {
	return try(func() error {
		if vb, ok := msg.(interface{ ValidateBasic() error }); ok {
			if err := vb.ValidateBasic(); err != nil {
				return err
			}
		}
		h := e.app.MsgServiceRouter().Handler(msg)
		if h == nil {
			return fmt.Errorf("no handler for %T", msg)
		}
		_, err := h(ctx, msg)
		return err
	})
}

func (e *c04Env) markerOf(w *c04World, denom string) *c04MarkerCfg {
	return w.byAddr[string(markertypes.MustGetMarkerAddress(denom))]
}

func (e *c04Env) restrictedActive(w *c04World) []*c04MarkerCfg {
	var out []*c04MarkerCfg
	for _, m := range w.markers {
		if m.kind == c04Marker && m.restricted && m.status == markertypes.StatusActive {
			out = append(out, m)
		}
	}
	return out
}

// ---- (e) sanction x quarantine x marker, through the real bank ----
func (e *c04Env) quarantineSanctionMatrix(w *c04World) {
	r := e.r
	ra := e.restrictedActive(w)
	var denoms []*c04MarkerCfg
	for _, i := range r.Perm(len(ra))[:4] {
		denoms = append(denoms, ra[i])
	}
	for _, m := range w.markers { // one unrestricted active marker, one denom without a marker
		if m.kind == c04Marker && !m.restricted && m.status == markertypes.StatusActive {
			denoms = append(denoms, m)
			break
		}
	}
	denoms = append(denoms, w.markers[0])
	froms := []sdk.AccAddress{e.plain[0].addr, e.plain[1].addr, e.sanct.addr, e.holder.addr, e.agents[0].addr}
	tos := []sdk.AccAddress{e.quars[0].addr, e.quars[1].addr, e.quars[2].addr, e.recv[0].addr, e.holder.addr, e.sanct.addr}
	type fl struct {
		qb, sb bool
		agent  bool
	}
	flags := []fl{{false, false, false}, {true, false, false}, {false, true, false}, {false, false, true}, {true, true, true}}
	n := 0
	for _, m := range denoms {
		for _, from := range froms {
			for _, to := range tos {
				for _, f := range flags {
					q := &c04Query{from: from, to: to, qbypass: f.qb, sbypass: f.sb, amt: sdk.NewCoins(sdk.NewInt64Coin(m.denom, int64(1+r.Intn(50))))}
					if f.agent {
						q.agents = []sdk.AccAddress{e.agents[r.Intn(3)].addr}
					}
					e.emit(w, q, true, n%2 == 0, false, "sanction_quarantine_matrix")
					if from.Equals(e.holder.addr) && f.qb && w.optin[string(to)] {
						e.w.Count("quarantine_payout_shape")
					}
					n++
				}
			}
		}
	}
}

// deltas3 measures the balance change of (from, to, holder) for one coin around run.
func (e *c04Env) deltas3(ctx sdk.Context, w *c04World, from, to sdk.AccAddress, denom string, run func() error) (string, string, error) {
	bk := e.app.BankKeeper
	b := []sdkmath.Int{bk.GetBalance(ctx, from, denom).Amount, bk.GetBalance(ctx, to, denom).Amount, bk.GetBalance(ctx, e.holder.addr, denom).Amount}
	err := run()
	if err != nil {
		return "BDenied", "denied", err
	}
	a := []sdkmath.Int{bk.GetBalance(ctx, from, denom).Amount, bk.GetBalance(ctx, to, denom).Amount, bk.GetBalance(ctx, e.holder.addr, denom).Amount}
	obs := fmt.Sprintf("(BMoved [(D %d, %s, %s, %s)])", e.markerOf(w, denom).idx, zInt(a[0].Sub(b[0])), zInt(a[1].Sub(b[1])), zInt(a[2].Sub(b[2])))
	d := "accepted"
	if a[2].GT(b[2]) && !to.Equals(e.holder.addr) {
		d = "accepted, funds went to the quarantine holder"
	}
	return obs, d, nil
}

func (e *c04Env) hasGrant(m *c04MarkerCfg, a sdk.AccAddress, perms ...markertypes.Access) bool {
	for _, g := range m.grants {
		if g.addr.Equals(a) {
			for _, p := range g.perms {
				for _, want := range perms {
					if p == want {
						return true
					}
				}
			}
		}
	}
	return false
}

// granteeWith picks an address that holds one of the access rights on the marker (nil when nobody does).
func (e *c04Env) granteeWith(m *c04MarkerCfg, r interface{ Perm(int) []int }, perms ...markertypes.Access) sdk.AccAddress {
	for _, j := range r.Perm(len(m.grants)) {
		if e.hasGrant(m, m.grants[j].addr, perms...) {
			return m.grants[j].addr
		}
	}
	return nil
}

// forcible mirrors what the harness set up for canForceTransferFrom: no account, a sequence <> 0,
// or a marker account (there are no group or market accounts among the actors).
func (e *c04Env) forcible(ctx sdk.Context, a sdk.AccAddress) bool {
	acc := e.app.AccountKeeper.GetAccount(ctx, a)
	if acc == nil || acc.GetSequence() != 0 {
		return true
	}
	_, isMarker := acc.(markertypes.MarkerAccountI)
	return isMarker
}

// ---- (f) marker MsgTransferRequest ----
func (e *c04Env) transferCases(w *c04World, n int) {
	r := e.r
	ra := e.restrictedActive(w)
	var markers []*c04MarkerCfg
	for _, m := range w.markers {
		if m.kind == c04Marker {
			markers = append(markers, m)
		}
	}
	admins := append(append(append([]*c04Actor{}, e.plain...), e.agents...), e.sanct)
	sources := []*c04Actor{e.plain[0], e.plain[1], e.plain[2], e.plain[4], e.plain[5], e.recv[1], e.sanct, e.quars[1], e.bypass[0], e.agents[1]}
	dests := []sdk.AccAddress{e.recv[0].addr, e.recv[1].addr, e.recv[3].addr, e.plain[4].addr, e.plain[5].addr, e.recv[2].addr, e.quars[0].addr, e.quars[1].addr, e.quars[2].addr,
		e.feeColl.addr, e.bypass[0].addr, e.holder.addr, e.ghost.addr, e.sanct.addr, e.recv[4].addr, e.plain[3].addr}
	for i := 0; i < n; i++ {
		var m *c04MarkerCfg
		switch r.Intn(10) {
		case 0:
			m = w.markers[r.Intn(len(w.markers))] // anything, also denoms without a marker
		case 1:
			m = markers[r.Intn(len(markers))]
		default:
			m = ra[r.Intn(len(ra))]
		}
		if m.unfunded {
			continue
		}
		admin := admins[r.Intn(len(admins))].addr
		switch x := r.Intn(10); {
		case x < 6: // mostly somebody who holds TRANSFER or FORCE_TRANSFER on the marker
			if g := e.granteeWith(m, r, markertypes.Access_Transfer, markertypes.Access_ForceTransfer); g != nil {
				admin = g
			}
		case x < 8: // somebody who holds some other access
			if len(m.grants) > 0 {
				admin = m.grants[r.Intn(len(m.grants))].addr
			}
		}
		var from sdk.AccAddress
		switch r.Intn(8) {
		case 0, 1, 2:
			from = admin
		case 3:
			fm := markers[r.Intn(len(markers))] // out of a marker account (forced transfer only)
			from = fm.addr
		default:
			from = sources[r.Intn(len(sources))].addr
		}
		if !e.funded(w, from) {
			from = e.plain[r.Intn(4)].addr
		}
		if r.Intn(12) == 0 { // a forced transfer out of a marker account
			var forced []*c04MarkerCfg
			for _, x := range ra {
				if x.forced && e.granteeWith(x, r, markertypes.Access_ForceTransfer) != nil {
					forced = append(forced, x)
				}
			}
			var srcs []*c04MarkerCfg
			for _, x := range markers {
				if x.funded {
					srcs = append(srcs, x)
				}
			}
			if len(forced) > 0 && len(srcs) > 0 {
				m = forced[r.Intn(len(forced))]
				admin = e.granteeWith(m, r, markertypes.Access_ForceTransfer)
				from = srcs[r.Intn(len(srcs))].addr
			}
		}
		to := dests[r.Intn(len(dests))]
		if r.Intn(5) == 0 {
			to = markers[r.Intn(len(markers))].addr // a deposit
		}
		if to.Equals(from) {
			continue
		}
		amt := int64(1 + r.Intn(40))
		coin := sdk.NewInt64Coin(m.denom, amt)
		cctx, _ := w.ctx.CacheContext()
		authzOK := false
		_, fromIsMarker := w.byAddr[string(from)]
		if !from.Equals(admin) && !fromIsMarker && r.Intn(2) == 0 {
			limit := amt + int64(r.Intn(3)) - 1 // sometimes one short
			if limit > 0 {
				auth := markertypes.NewMarkerTransferAuthorization(sdk.NewCoins(sdk.NewInt64Coin(m.denom, limit)), nil)
				if err := e.app.AuthzKeeper.SaveGrant(cctx, admin, from, auth, nil); err != nil {
					e.t.Fatalf("save grant: %v", err)
				}
				authzOK = limit >= amt
			}
		}
		forcible := e.forcible(cctx, from)
		blocked := e.app.BankKeeper.BlockedAddr(to)
		// the administrator is not a context agent here, but its grants must be part of the configuration
		e.relExtra = []sdk.AccAddress{admin}
		cfg, desc, _ := e.appTerm(w, from, []sdk.AccAddress{to}, nil, false, false, false, false, []string{m.denom})
		e.relExtra = nil
		obs, od, _ := e.deltas3(cctx, w, from, to, m.denom, func() error {
			return e.deliver(cctx, markertypes.NewMsgTransferRequest(admin, from, to, coin))
		})
		term := fmt.Sprintf("CTransfer %s %s %s %s (D %d) %d %s %s %s %s", cfg, e.coqAddr(w, admin), e.coqAddr(w, from), e.coqAddr(w, to),
			m.idx, amt, coqBool(authzOK), coqBool(forcible), coqBool(blocked), obs)
		desc["kind"] = "marker MsgTransferRequest"
		desc["administrator"] = e.role(w, admin)
		desc["receiver"] = e.role(w, to)
		desc["amount"] = coin.String()
		desc["authz_grant_covers_amount"] = authzOK
		desc["source_can_be_forced"] = forcible
		desc["receiver_blocked_by_bank"] = blocked
		desc["outcome"] = od
		delete(desc, "transfer_agents")
		e.w.Add(term, desc)
		e.w.Count("endpoint_transfer_request")
		if obs != "BDenied" {
			e.w.Count("endpoint_transfer_request_accepted")
			e.w.Nontrivial(term)
			if !from.Equals(admin) {
				e.w.Count("endpoint_transfer_request_accepted_third_party_source")
			}
			if fromIsMarker {
				e.w.Count("endpoint_transfer_request_accepted_out_of_marker_account")
			}
			if w.optin[string(to)] {
				e.w.Count("endpoint_transfer_request_accepted_to_quarantined_receiver")
			}
		}
	}
}

// ---- (g) exchange MsgMarketSettle with the market admin as transfer agent ----
func (e *c04Env) ensureMarket(w *c04World) {
	if w.market != 0 {
		return
	}
	var grants []exchange.AccessGrant
	for _, a := range e.agents {
		grants = append(grants, exchange.AccessGrant{Address: a.addr.String(), Permissions: exchange.AllPermissions()})
	}
	mid, err := e.app.ExchangeKeeper.CreateMarket(w.ctx, exchange.Market{
		MarketDetails: exchange.MarketDetails{Name: "c04"}, AcceptingOrders: true, AllowUserSettlement: false, AccessGrants: grants})
	if err != nil {
		e.t.Fatalf("create market: %v", err)
	}
	w.market = mid
}

func (e *c04Env) lastOrder(ctx sdk.Context, owner sdk.AccAddress) uint64 {
	var id uint64
	e.app.ExchangeKeeper.IterateAddressOrders(ctx, owner, func(oid uint64, _ byte) bool {
		if oid > id {
			id = oid
		}
		return false
	})
	return id
}

func (e *c04Env) settleCases(w *c04World, n int) {
	r := e.r
	e.ensureMarket(w)
	ra := e.restrictedActive(w)
	var circ []*c04MarkerCfg
	for _, m := range w.markers {
		if !m.unfunded {
			circ = append(circ, m)
		}
	}
	sellers := []*c04Actor{e.plain[0], e.plain[1], e.plain[2], e.plain[3], e.plain[4], e.plain[5], e.sanct}
	buyers := []*c04Actor{e.plain[0], e.plain[1], e.plain[2], e.plain[3], e.plain[4], e.plain[5], e.recv[1], e.quars[1], e.sanct}
	for i := 0; i < n; i++ {
		asset := ra[r.Intn(len(ra))]
		if r.Intn(6) == 0 {
			asset = circ[r.Intn(len(circ))]
		}
		price := circ[r.Intn(len(circ))]
		if r.Intn(3) != 0 {
			price = w.markers[0] // a denom without a marker
		}
		if price == asset {
			continue
		}
		seller := sellers[r.Intn(len(sellers))].addr
		buyer := buyers[r.Intn(len(buyers))].addr
		if seller.Equals(buyer) {
			continue
		}
		admin := e.agents[r.Intn(len(e.agents))].addr
		if r.Intn(3) != 0 { // mostly a market admin that is a transfer agent of the asset's marker
			for _, j := range r.Perm(len(e.agents)) {
				if e.hasGrant(asset, e.agents[j].addr, markertypes.Access_Transfer) {
					admin = e.agents[j].addr
					break
				}
			}
		}
		assets := sdk.NewInt64Coin(asset.denom, int64(1+r.Intn(30)))
		pr := sdk.NewInt64Coin(price.denom, int64(1+r.Intn(30)))
		cctx, _ := w.ctx.CacheContext()
		// order creation is set-up: a sanctioned account cannot be made to look unsanctioned, so sanctioned
		// parties are sanctioned AFTER their orders exist (as a governance proposal would)
		lateSanction := map[string]bool{}
		for _, a := range []sdk.AccAddress{seller, buyer} {
			if w.sanctioned[string(a)] {
				if err := e.app.SanctionKeeper.UnsanctionAddresses(cctx, a); err != nil {
					e.t.Fatal(err)
				}
				lateSanction[string(a)] = true
			}
		}
		if err := e.deliver(cctx, &exchange.MsgCreateAskRequest{AskOrder: exchange.AskOrder{MarketId: w.market, Seller: seller.String(), Assets: assets, Price: pr}}); err != nil {
			e.w.Count("endpoint_market_settle_order_creation_failed")
			continue
		}
		askID := e.lastOrder(cctx, seller)
		if err := e.deliver(cctx, &exchange.MsgCreateBidRequest{BidOrder: exchange.BidOrder{MarketId: w.market, Buyer: buyer.String(), Assets: assets, Price: pr}}); err != nil {
			e.w.Count("endpoint_market_settle_order_creation_failed")
			continue
		}
		bidID := e.lastOrder(cctx, buyer)
		for a := range lateSanction {
			if err := e.app.SanctionKeeper.SanctionAddresses(cctx, sdk.AccAddress(a)); err != nil {
				e.t.Fatal(err)
			}
		}
		bk := e.app.BankKeeper
		type key struct {
			a sdk.AccAddress
			d string
		}
		keys := []key{{seller, asset.denom}, {buyer, asset.denom}, {seller, price.denom}, {buyer, price.denom}, {e.holder.addr, asset.denom}, {e.holder.addr, price.denom}}
		before := make([]sdkmath.Int, len(keys))
		for j, k := range keys {
			before[j] = bk.GetBalance(cctx, k.a, k.d).Amount
		}
		err := e.deliver(cctx, &exchange.MsgMarketSettleRequest{Admin: admin.String(), MarketId: w.market, AskOrderIds: []uint64{askID}, BidOrderIds: []uint64{bidID}})
		var ds []string
		for j, k := range keys {
			ds = append(ds, fmt.Sprintf("(%s, D %d, %s)", e.coqAddr(w, k.a), e.markerOf(w, k.d).idx, zInt(bk.GetBalance(cctx, k.a, k.d).Amount.Sub(before[j]))))
		}
		e.relExtra = []sdk.AccAddress{admin}
		cfg, desc, _ := e.appTerm(w, seller, []sdk.AccAddress{buyer}, nil, false, false, false, false, []string{asset.denom, price.denom})
		e.relExtra = nil
		legs := []string{
			fmt.Sprintf("(%s, %s, %s, %s)", e.coqAddr(w, seller), e.coqAddr(w, buyer), e.coinsTerm(w, sdk.NewCoins(assets)), coqBool(bk.BlockedAddr(buyer))),
			fmt.Sprintf("(%s, %s, %s, %s)", e.coqAddr(w, buyer), e.coqAddr(w, seller), e.coinsTerm(w, sdk.NewCoins(pr)), coqBool(bk.BlockedAddr(seller))),
		}
		term := fmt.Sprintf("CSettle %s %s %s %s %s", cfg, e.coqAddr(w, admin), coqList(legs), coqBool(err == nil), coqList(ds))
		desc["kind"] = "exchange MsgMarketSettle"
		desc["market_admin_as_transfer_agent"] = e.role(w, admin)
		desc["seller"] = e.role(w, seller)
		desc["buyer"] = e.role(w, buyer)
		desc["assets"] = assets.String()
		desc["price"] = pr.String()
		desc["outcome"] = map[bool]string{true: "settled", false: "refused"}[err == nil]
		delete(desc, "sender")
		delete(desc, "transfer_agents")
		e.w.Add(term, desc)
		e.w.Count("endpoint_market_settle")
		if err == nil {
			e.w.Count("endpoint_market_settle_accepted")
			e.w.Nontrivial(term)
		}
	}
}

// ---- (h) metadata MsgUpdateValueOwners ----
func (e *c04Env) valueOwnerCases(w *c04World, n int) {
	r := e.r
	var markers []*c04MarkerCfg
	for _, m := range w.markers {
		if m.kind == c04Marker {
			markers = append(markers, m)
		}
	}
	ra := e.restrictedActive(w)
	owners := []*c04Actor{e.plain[0], e.plain[1], e.plain[2], e.plain[3], e.sanct, e.agents[0]}
	dests := []sdk.AccAddress{e.recv[0].addr, e.recv[1].addr, e.plain[4].addr, e.quars[0].addr, e.quars[1].addr, e.feeColl.addr, e.holder.addr, e.ghost.addr, e.plain[0].addr}
	signerPool := append(append([]*c04Actor{}, e.plain[:4]...), e.agents...)
	for i := 0; i < n; i++ {
		var owner sdk.AccAddress
		var ownerMarker *c04MarkerCfg
		if r.Intn(3) == 0 {
			ownerMarker = markers[r.Intn(len(markers))] // a withdrawal of the scope coin out of a marker account
			owner = ownerMarker.addr
		} else {
			owner = owners[r.Intn(len(owners))].addr
		}
		var to sdk.AccAddress
		switch r.Intn(5) {
		case 0, 1:
			to = ra[r.Intn(len(ra))].addr // to a restricted marker: deposit access of a signer
		case 2:
			to = markers[r.Intn(len(markers))].addr
		default:
			to = dests[r.Intn(len(dests))]
		}
		var signers []sdk.AccAddress
		pickGrantee := func(m *c04MarkerCfg) sdk.AccAddress {
			if m != nil && len(m.grants) > 0 && r.Intn(4) != 0 {
				for _, j := range r.Perm(len(m.grants)) {
					for _, s := range signerPool {
						if s.addr.Equals(m.grants[j].addr) {
							return s.addr
						}
					}
				}
			}
			return signerPool[r.Intn(len(signerPool))].addr
		}
		toMarker := w.byAddr[string(to)]
		switch r.Intn(6) {
		case 0:
			signers = []sdk.AccAddress{signerPool[r.Intn(len(signerPool))].addr} // probably not the owner
		case 1, 2:
			signers = []sdk.AccAddress{pickGrantee(ownerMarker), pickGrantee(toMarker)}
		default:
			signers = []sdk.AccAddress{pickGrantee(toMarker)}
		}
		if ownerMarker == nil && r.Intn(5) != 0 {
			signers[0] = owner
		}
		if len(signers) == 2 && signers[0].Equals(signers[1]) {
			signers = signers[:1]
		}
		cctx, _ := w.ctx.CacheContext()
		w.nscopes++
		id := mdtypes.ScopeMetadataAddress(uuid.MustParse(fmt.Sprintf("00000000-0000-4000-a000-%012d", w.nscopes)))
		denom := id.Coin().Denom
		sm := w.extraDenom(denom)
		// set-up: the scope exists with its value owner (no marker / sanction / quarantine check on the minting hop)
		setup := quarantine.WithBypass(sanction.WithBypass(markertypes.WithBypass(cctx)))
		if err := e.app.MetadataKeeper.SetScope(setup, mdtypes.Scope{ScopeId: id, SpecificationId: mdtypes.ScopeSpecMetadataAddress(uuid.MustParse("00000000-0000-4000-9000-0000000000c4")),
			Owners: []mdtypes.Party{{Address: e.plain[0].addr.String(), Role: mdtypes.PartyType_PARTY_TYPE_OWNER}}, ValueOwnerAddress: owner.String()}); err != nil {
			e.t.Fatalf("SetScope: %v", err)
		}
		blocked := e.app.BankKeeper.BlockedAddr(to)
		var ss []string
		for _, s := range signers {
			ss = append(ss, s.String())
		}
		msg := &mdtypes.MsgUpdateValueOwnersRequest{ScopeIds: []mdtypes.MetadataAddress{id}, ValueOwnerAddress: to.String(), Signers: ss}
		obs, od, _ := e.deltas3(cctx, w, owner, to, denom, func() error { return e.deliver(cctx, msg) })
		e.relExtra = signers
		cfg, desc, _ := e.appTerm(w, owner, []sdk.AccAddress{to}, nil, false, false, false, false, []string{denom})
		e.relExtra = nil
		var sg, sd []string
		for _, s := range signers {
			sg = append(sg, e.coqAddr(w, s))
			sd = append(sd, e.role(w, s))
		}
		term := fmt.Sprintf("CValueOwner %s %s %s %s (D %d) %s %s", cfg, coqList(sg), e.coqAddr(w, owner), e.coqAddr(w, to), sm.idx, coqBool(blocked), obs)
		desc["kind"] = "metadata MsgUpdateValueOwners"
		desc["signers_as_transfer_agents"] = sd
		desc["value_owner"] = e.role(w, owner)
		desc["new_value_owner"] = e.role(w, to)
		desc["receiver_blocked_by_bank"] = blocked
		desc["outcome"] = od
		delete(desc, "sender")
		delete(desc, "transfer_agents")
		e.w.Add(term, desc)
		e.w.Count("endpoint_update_value_owners")
		if obs != "BDenied" {
			e.w.Count("endpoint_update_value_owners_accepted")
			if w.optin[string(to)] {
				e.w.Count("endpoint_update_value_owners_accepted_to_quarantined_owner")
			}
			if toMarker != nil && toMarker.kind == c04Marker && toMarker.restricted {
				e.w.Count("endpoint_update_value_owners_accepted_into_restricted_marker")
				e.w.Nontrivial(term)
			}
			if ownerMarker != nil {
				e.w.Count("endpoint_update_value_owners_accepted_out_of_marker")
				e.w.Nontrivial(term)
			}
		}
	}
}
