//go:build c17

package harness

import (
	"fmt"
	"strconv"
	"strings"
	"testing"
	"time"

	storetypes "cosmossdk.io/store/types"

	codectypes "github.com/cosmos/cosmos-sdk/codec/types"
	sdk "github.com/cosmos/cosmos-sdk/types"
	sdktx "github.com/cosmos/cosmos-sdk/types/tx"
	"github.com/cosmos/cosmos-sdk/x/authz"
	banktypes "github.com/cosmos/cosmos-sdk/x/bank/types"

	markertypes "github.com/provenance-io/provenance/x/marker/types"
	nametypes "github.com/provenance-io/provenance/x/name/types"
	triggertypes "github.com/provenance-io/provenance/x/trigger/types"
)

// ---------- transactions of a block ----------

type c17Plan struct {
	kind   string // create | destroy | tsend | emit
	bz     []byte
	gas    uint64
	coqPre string // Coq term of the tx up to (not including) the trailing `used` of a create
	desc   string
	shape  string
	lowGas bool
	acts   []c17Act
	auths  []int
	band   string
	noAnte bool // fails in ValidateBasic or in the ante handler: sequences do not advance
}

// c17Cal is measured once per run on the binary under test.
type c17Cal struct {
	cMin, cTyp uint64    // gas of one successful bank send through the router's handler: least over state shapes, typical
	used       [4]uint64 // gas a precise-shape creation with n actions has consumed when the limit is computed
	len1       int       // length of the one-send creation tx
	slope      float64   // further gas consumed per further tx byte
}

// estUsed: what a creation of this tx length consumes before the limit is computed (rough, a little high)
func (c *c17Cal) estUsed(txLen int) uint64 {
	v := float64(c.used[1]) + c.slope*1.08*float64(txLen-c.len1) + 2500
	if v < 60000 {
		v = 60000
	}
	return uint64(v)
}

// the ample-gas bounds of Corr/C17.v gas_hi0 and the model's gas_lo, checked against the binary
var c17GasHi = map[string]uint64{"send": 45000, "multisend1": 65000, "multisend3": 115000, "marker-transfer": 60000, "bind-name": 60000, "authz-grant": 40000, "destroy": 30000}

// c17Calibrate measures (a) what one bank-send action costs when run the way the dispatcher runs it (the
// router's handler on a context with its own gas meter) for the state shapes that change the cost
// (receiver without balance, sender left without balance, self send, longer amounts), the cost of the
// other action kinds against the bounds the correspondence assumes, (b) the overhead of
// the precise-shape creation and how it grows with the size of the transaction, and (c) cross-checks (a)
// with real one-action triggers around the cost.
func c17Calibrate(t *testing.T, w *CaseWriter) *c17Cal {
	accts := c17Accts(5)
	n := c17NewNet(t, accts, c17Setup{trigBal: []int64{100000, 100000, 0, 50, 0}, rBal: []int64{1000, 1000, 0, 0, 0}, xfer: []int{0, 1}, rootOwner: 0})
	cal := &c17Cal{}
	run := func(msg sdk.Msg) (uint64, error) {
		ctx, _ := n.queryCtx().CacheContext()
		ctx = ctx.WithGasMeter(storetypes.NewGasMeter(10_000_000))
		_, err := n.app.MsgServiceRouter().Handler(msg)(ctx, msg)
		return ctx.GasMeter().GasConsumed(), err
	}
	coin := func(d string, v int64) sdk.Coins { return sdk.NewCoins(sdk.NewInt64Coin(d, v)) }
	measure := func(from, to int, amt int64) uint64 {
		c, err := run(banktypes.NewMsgSend(accts[from].addr, accts[to].addr, coin(c17TrigDen, amt)))
		if err != nil {
			t.Fatalf("calibration send: %v", err)
		}
		return c
	}
	cal.cTyp = measure(0, 1, 7)
	cal.cMin = cal.cTyp
	for _, sh := range [][3]int64{{0, 1, 7}, {0, 2, 7}, {3, 1, 50}, {3, 2, 50}, {0, 0, 7}, {3, 3, 50}, {0, 1, 99999}, {3, 4, 1}, {0, 1, 1}} {
		if c := measure(int(sh[0]), int(sh[1]), sh[2]); c < cal.cMin {
			cal.cMin = c
		}
	}
	// the other kinds
	grant, _ := authz.NewMsgGrant(accts[0].addr, accts[1].addr, authz.NewGenericAuthorization(sdk.MsgTypeURL(&banktypes.MsgSend{})), nil)
	kinds := []struct {
		k string
		m sdk.Msg
	}{
		{"multisend1", banktypes.NewMsgMultiSend(banktypes.NewInput(accts[0].addr, coin(c17TrigDen, 4)), []banktypes.Output{banktypes.NewOutput(accts[2].addr, coin(c17TrigDen, 4))})},
		{"multisend3", banktypes.NewMsgMultiSend(banktypes.NewInput(accts[0].addr, coin(c17TrigDen, 12)), []banktypes.Output{banktypes.NewOutput(accts[2].addr, coin(c17TrigDen, 4)),
			banktypes.NewOutput(accts[3].addr, coin(c17TrigDen, 4)), banktypes.NewOutput(accts[4].addr, coin(c17TrigDen, 4))})},
		{"marker-transfer", markertypes.NewMsgTransferRequest(accts[0].addr, accts[0].addr, accts[4].addr, sdk.NewInt64Coin(c17RDen, 7))},
		{"bind-name", nametypes.NewMsgBindNameRequest(nametypes.NewNameRecord("n1", accts[2].addr, false), nametypes.NewNameRecord(c17Root, accts[0].addr, true))},
		{"authz-grant", grant},
	}
	for _, k := range kinds {
		c, err := run(k.m)
		if err != nil {
			t.Fatalf("calibration %s: %v", k.k, err)
		}
		w.CountN("calibrated_gas:"+k.k, int64(c))
		if c > c17GasHi[k.k] {
			w.Count("calibration_gas_hi_exceeded:" + k.k)
		}
		if c < 4000 {
			w.Count("calibration_gas_lo_violated:" + k.k)
		}
	}
	if cal.cTyp > c17GasHi["send"] || cal.cMin < 4000 {
		w.Count("calibration_gas_bounds_violated:send")
	}
	var lastLen int
	mk := func(gas uint64, msgs ...sdk.Msg) []byte {
		m := triggertypes.MustNewCreateTriggerRequest([]string{accts[0].addr.String()}, &triggertypes.BlockHeightEvent{BlockHeight: uint64(n.height + 3)}, msgs)
		bz, err := n.signTx(gas, []int{0}, m)
		if err != nil {
			t.Fatal(err)
		}
		n.pendingSeq[0]++
		lastLen = len(bz)
		return bz
	}
	sends := func(na int) []sdk.Msg {
		var msgs []sdk.Msg
		for i := 0; i < na; i++ {
			msgs = append(msgs, banktypes.NewMsgSend(accts[0].addr, accts[1].addr, coin(c17TrigDen, 7)))
		}
		return msgs
	}
	limits := func() map[uint64]uint64 {
		out := map[uint64]uint64{}
		gls, err := n.app.TriggerKeeper.GetAllGasLimits(n.queryCtx())
		if err != nil {
			t.Fatal(err)
		}
		for _, gl := range gls {
			out[gl.TriggerId] = gl.Amount
		}
		return out
	}
	tx1 := mk(400000, sends(1)...)
	cal.len1 = lastLen
	tx2, tx3 := mk(400000, sends(2)...), mk(400000, sends(3)...)
	var big []sdk.Msg
	for _, k := range kinds {
		big = append(big, k.m)
	}
	tx4 := mk(600000, big...)
	lenBig := lastLen
	res := n.block(n.now.Add(5*time.Second), [][]byte{tx1, tx2, tx3, tx4})
	if res == nil {
		t.Fatalf("calibration block: %v", n.haltErr)
	}
	lim := limits()
	for na := 1; na <= 4; na++ {
		if res.TxResults[na-1].Code != 0 || lim[uint64(na)] == 0 {
			t.Fatalf("calibration create %d: %s", na, res.TxResults[na-1].Log)
		}
		if na <= 3 {
			cal.used[na] = 400000 - 2510 - lim[uint64(na)]
		}
	}
	usedBig := 600000 - 2510 - lim[4]
	cal.slope = float64(usedBig-cal.used[1]) / float64(lenBig-cal.len1)
	w.CountN("calibrated_create_gas_per_tx_byte_x100", int64(cal.slope*100))
	// cross-check with real triggers: one action, limits just below / above the typical cost
	offs := []int64{-400, -150, 150, 400}
	var txs [][]byte
	for _, d := range offs {
		txs = append(txs, mk(cal.used[1]+2510+uint64(int64(cal.cTyp)+d), sends(1)...))
	}
	if res = n.block(n.now.Add(5*time.Second), txs); res == nil {
		t.Fatalf("calibration block: %v", n.haltErr)
	}
	lim = limits()
	okByID := map[uint64]bool{}
	for i := 0; i < 6; i++ {
		if res = n.block(n.now.Add(5*time.Second), nil); res == nil {
			t.Fatalf("calibration block: %v", n.haltErr)
		}
		for _, e := range res.Events {
			if e.Type == "provenance.trigger.v1.EventTriggerExecuted" {
				idq, _ := c17Attr(e, "trigger_id")
				id, _ := strconv.ParseUint(strings.Trim(idq, "\""), 10, 64)
				okS, _ := c17Attr(e, "success")
				okByID[id] = okS == "true"
			}
		}
	}
	for i := range offs {
		id := uint64(5 + i)
		ok, seen := okByID[id]
		if !seen {
			w.Count("calibration_trigger_not_executed")
			continue
		}
		if ok != (lim[id] >= cal.cTyp) {
			w.Count("calibration_cross_check_disagrees") // the handler measurement does not predict the trigger outcome
		} else {
			w.Count("calibration_cross_check_agrees")
		}
	}
	w.CountN("calibrated_send_gas_min", int64(cal.cMin))
	w.CountN("calibrated_send_gas_typical", int64(cal.cTyp))
	w.CountN("calibrated_create_overhead_1_action", int64(cal.used[1]))
	return cal
}

// planPrecise: one authority, height condition, 1-3 affordable sends, and a gas limit aimed between k and
// k+1 times the cost of one send (k = 0: not even one action fits ... k > n: everything fits).
func (g *c17Gen) planPrecise() *c17Plan {
	r, n := g.r, g.n
	owner := -1
	for _, o := range r.Perm(g.nAcc) {
		if g.bal(o, c17TrigDen) >= 300 {
			owner = o
			break
		}
	}
	if owner < 0 {
		return nil
	}
	na := 1 + r.Intn(3)
	k := r.Intn(na + 2)
	c := int64(g.cal.cTyp)
	target := int64(k)*c + c/2 + int64(r.Intn(int(c/2))) - c/4
	h := uint64(n.height+1) + 1 + uint64(r.Intn(3))
	if g.burstH > uint64(n.height+1) && r.Intn(100) < 40 {
		h = g.burstH
	}
	var acts []c17Act
	for i := 0; i < na; i++ {
		to := r.Intn(g.nAcc)
		amt := int64(1 + r.Intn(9))
		acts = append(acts, c17Act{msg: banktypes.NewMsgSend(g.accts[owner].addr, g.accts[to].addr, sdk.NewCoins(sdk.NewInt64Coin(c17TrigDen, amt))),
			coq: fmt.Sprintf("(ASend %d %d %d)", owner, to, amt), kind: "send"})
	}
	msgs, terms, _ := c17ActTerms(acts)
	gas := g.cal.used[na] + 2510 + uint64(target)
	m := triggertypes.MustNewCreateTriggerRequest([]string{g.addrStr(owner)}, &triggertypes.BlockHeightEvent{BlockHeight: h}, msgs)
	bz, err := n.signTx(gas, []int{owner}, m)
	if err != nil {
		g.t.Fatalf("sign create: %v", err)
	}
	return &c17Plan{kind: "create", bz: bz, gas: gas, shape: "precise-gas", acts: acts, auths: []int{owner}, band: fmt.Sprintf("n=%d,k=%d", na, k),
		coqPre: fmt.Sprintf("TCreate [%d] [%d] (EvHeight %d) %s %d", owner, owner, h, coqList(terms), gas),
		desc:   fmt.Sprintf("create by [%d] on height>=%d, %d actions, gas %d (limit aimed at %d = %d..%d x one send)", owner, h, na, gas, target, k, k+1)}
}

// buildCreate signs a creation with the given parts; gasTarget < 0 = too little gas for the creation itself
func (g *c17Gen) buildCreate(auths, signers []int, ev c17Ev, acts []c17Act, gasTarget int64, shape string, noAnte bool) *c17Plan {
	n := g.n
	msgs, terms, kinds := c17ActTerms(acts)
	authStrs := make([]string, len(auths))
	for i, a := range auths {
		authStrs[i] = g.addrStr(a)
	}
	eventAny, err := codectypes.NewAnyWithValue(ev.ev)
	if err != nil {
		g.t.Fatal(err)
	}
	actAnys, err := sdktx.SetMsgs(msgs)
	if err != nil {
		g.t.Fatal(err)
	}
	msg := &triggertypes.MsgCreateTriggerRequest{Authorities: authStrs, Event: eventAny, Actions: actAnys}
	bz, err := n.signTx(1_000_000, signers, msg)
	if err != nil {
		g.t.Fatalf("sign create: %v", err)
	}
	est := g.cal.estUsed(len(bz)) + uint64(1500*(len(signers)-1))
	lowGas := false
	var gas uint64
	if gasTarget < 0 {
		gas = est - uint64(3000+g.r.Intn(20000)) // probably not enough gas for the creation itself
		lowGas = true
	} else {
		gas = est + 2510 + uint64(gasTarget)
		if gasTarget < 15000 {
			lowGas = true // the estimate of the overhead is rough: the creation itself may run out of gas
		}
	}
	if gas > 3900000 {
		gas = 3900000
	}
	if bz, err = n.signTx(gas, signers, msg); err != nil {
		g.t.Fatalf("sign create: %v", err)
	}
	return &c17Plan{kind: "create", bz: bz, gas: gas, shape: shape, lowGas: lowGas, noAnte: noAnte, acts: acts, auths: auths,
		coqPre: fmt.Sprintf("TCreate %s %s %s %s %d", c17NList(signers), c17NList(auths), ev.coq, coqList(terms), gas),
		desc:   fmt.Sprintf("create by %v signed %v on %s, actions %v, gas %d (%s)", auths, signers, ev.desc, kinds, gas, shape)}
}

// planCreate builds a create-trigger transaction; most are valid.
func (g *c17Gen) planCreate() *c17Plan {
	r := g.r
	if g.cal != nil && r.Intn(100) < 18 {
		if p := g.planPrecise(); p != nil {
			return p
		}
	}
	owner := r.Intn(g.nAcc)
	auths := []int{owner}
	if r.Intn(4) == 0 {
		o2 := (owner + 1 + r.Intn(g.nAcc-1)) % g.nAcc
		auths = append(auths, o2)
	}
	ev := g.genEvent()
	shape := ev.shape
	noAnte := ev.invalid
	acts, bad := g.genActions(auths, true)
	if bad {
		noAnte = true
		if shape == "valid" {
			shape = "invalid-action-or-signer"
			if len(acts) == 0 {
				shape = "no-actions"
			}
		}
	}
	for _, a := range acts {
		if a.create && shape == "valid" {
			shape = "valid-with-nested-create"
		}
	}
	// signers
	signers := append([]int{}, auths...)
	if r.Intn(30) == 0 {
		switch r.Intn(3) {
		case 0:
			if len(signers) > 1 {
				signers = signers[:1]
			} else {
				signers = []int{(auths[0] + 1) % g.nAcc}
			}
		case 1:
			signers = []int{(auths[0] + 1 + r.Intn(g.nAcc-1)) % g.nAcc}
		default:
			extra := (auths[len(auths)-1] + 1) % g.nAcc
			if extra != auths[0] {
				signers = append(signers, extra)
			}
		}
		if fmt.Sprint(signers) != fmt.Sprint(auths) {
			noAnte = true
			if shape == "valid" {
				shape = "authority-did-not-sign"
			}
		}
	}
	// gas: the limit the trigger gets is what is left of the tx gas
	var target int64
	gc := r.Intn(100)
	if g.style == 1 { // heavy-gas histories
		gc = 60 + r.Intn(40)
	}
	switch {
	case gc < 15:
		target = int64(500 + r.Intn(30000))
	case gc < 75:
		target = int64(len(acts))*int64(30000+r.Intn(30000)) + int64(20000+r.Intn(60000))
	case gc < 90:
		target = int64(300000 + r.Intn(900000))
	case gc < 97:
		target = int64(1900000 + r.Intn(900000))
	default:
		target = -1
		if shape == "valid" {
			shape = "low-gas"
		}
	}
	return g.buildCreate(auths, signers, ev, acts, target, shape, noAnte)
}

func (g *c17Gen) planDestroy() *c17Plan {
	r, n := g.r, g.n
	var id uint64
	who := r.Intn(g.nAcc)
	shape := "unknown-id"
	noAnte := false
	k := r.Intn(20)
	switch {
	case k < 13 && len(g.reg) > 0:
		tr := g.reg[r.Intn(len(g.reg))]
		id = tr.id
		switch c := r.Intn(8); {
		case c < 2:
			who = (tr.owner + 1 + r.Intn(g.nAcc-1)) % g.nAcc
			shape = "stranger"
		case c < 4 && len(g.auths[id]) > 1:
			who = g.auths[id][1+r.Intn(len(g.auths[id])-1)] // an authority of the creation that is not the owner
			shape = "co-authority"
		default:
			who = tr.owner
			shape = "owner"
		}
	case k < 17 && len(g.queue) > 0:
		tr := g.queue[r.Intn(len(g.queue))]
		id, who, shape = tr.id, tr.owner, "queued"
	case k == 17:
		id, shape, noAnte = 0, "zero-id", true
	case k == 18:
		id, shape = g.nextID, "maybe-created-this-block"
	default:
		if g.maxID > 0 {
			id = 1 + uint64(r.Intn(int(g.maxID)))
		} else {
			id = 3
		}
		shape = "random-id"
	}
	msg := triggertypes.NewDestroyTriggerRequest(g.addrStr(who), id)
	bz, err := n.signTx(150000, []int{who}, msg)
	if err != nil {
		g.t.Fatalf("sign destroy: %v", err)
	}
	return &c17Plan{kind: "destroy", bz: bz, gas: 150000, shape: shape, noAnte: noAnte,
		coqPre: fmt.Sprintf("TDestroy %d %d", who, id), desc: fmt.Sprintf("destroy %d by %d (%s)", id, who, shape)}
}

// planSend: a plain send of the action coin (a model transaction) or an event emitter (not one): a send of
// the event coin, alone, twice in one tx, or wrapped once or twice in authz MsgExec (the executor is the
// sender, so no grant is needed); each MsgExec level appends one more authz_msg_index attribute to the events
// it passes on, so nested ones carry that key twice.
func (g *c17Gen) planSend(den string) *c17Plan {
	r, n := g.r, g.n
	from := r.Intn(g.nAcc)
	to := r.Intn(g.nAcc)
	amt := int64(7 + r.Intn(3))
	if den == c17TrigDen {
		bal := g.bal(from, c17TrigDen)
		amt = int64(1 + r.Intn(300))
		if r.Intn(5) == 0 {
			amt = bal + int64(r.Intn(3))
		}
		if amt == 0 {
			amt = 1
		}
		msg := banktypes.NewMsgSend(g.accts[from].addr, g.accts[to].addr, sdk.NewCoins(sdk.NewInt64Coin(den, amt)))
		bz, err := n.signTx(200000, []int{from}, msg)
		if err != nil {
			g.t.Fatalf("sign send: %v", err)
		}
		return &c17Plan{kind: "tsend", bz: bz, gas: 200000, shape: "tsend",
			coqPre: fmt.Sprintf("TSend %d %d %d", from, to, amt), desc: fmt.Sprintf("send %d%s %d->%d", amt, den, from, to)}
	}
	if r.Intn(12) == 0 {
		amt = 2_000_000_000 // fails: its events never reach the history
	}
	send := func() sdk.Msg {
		return banktypes.NewMsgSend(g.accts[from].addr, g.accts[r.Intn(g.nAcc)].addr, sdk.NewCoins(sdk.NewInt64Coin(den, int64(7+r.Intn(3)))))
	}
	first := banktypes.NewMsgSend(g.accts[from].addr, g.accts[to].addr, sdk.NewCoins(sdk.NewInt64Coin(den, amt)))
	exec := func(msgs ...sdk.Msg) sdk.Msg {
		m := authz.NewMsgExec(g.accts[from].addr, msgs)
		return &m
	}
	var msgs []sdk.Msg
	shape := "emit"
	switch k := r.Intn(20); {
	case k < 9:
		msgs = []sdk.Msg{first}
	case k < 11:
		msgs, shape = []sdk.Msg{first, send()}, "emit-two-msgs"
	case k < 14:
		msgs, shape = []sdk.Msg{exec(first)}, "emit-exec"
	case k < 16:
		msgs, shape = []sdk.Msg{exec(exec(first, send()))}, "emit-exec-exec"
	case k < 18:
		msgs, shape = []sdk.Msg{exec(send(), exec(first))}, "emit-exec-mixed"
	case k < 19:
		msgs, shape = []sdk.Msg{exec(exec(exec(first)))}, "emit-exec-3-deep"
	default:
		// the first message emits its events, the second fails: the transaction fails and none of its events
		// may reach the block's event history
		msgs, shape = []sdk.Msg{first, banktypes.NewMsgSend(g.accts[from].addr, g.accts[to].addr, sdk.NewCoins(sdk.NewInt64Coin(den, 2_000_000_000)))}, "emit-then-fail"
	}
	bz, err := n.signTx(500000, []int{from}, msgs...)
	if err != nil {
		g.t.Fatalf("sign emit: %v", err)
	}
	return &c17Plan{kind: "emit", bz: bz, gas: 500000, shape: shape, desc: fmt.Sprintf("%s %d%s %d->%d", shape, amt, den, from, to)}
}

// planRace: a creation on a transaction event, the transaction emitting exactly that event, and the owner's
// destroy of the id the creation will get, in a random order in one block.
func (g *c17Gen) planRace() []*c17Plan {
	r, n := g.r, g.n
	owner, from, to := r.Intn(g.nAcc), r.Intn(g.nAcc), r.Intn(g.nAcc)
	for from == owner {
		from = r.Intn(g.nAcc)
	}
	amt := int64(7 + r.Intn(3))
	type at = triggertypes.Attribute
	attrs := []at{{Name: "receiver", Value: g.addrStr(to)}, {Name: "amount", Value: fmt.Sprintf("%d%s", amt, c17EvtDen)}}
	ev := c17Ev{ev: &triggertypes.TransactionEvent{Name: "coin_received", Attributes: attrs}, isTx: true, shape: "race",
		coq:  fmt.Sprintf("(EvTx %s %s [(%s, %s); (%s, %s)])", g.sym("coin_received"), g.lsym("coin_received"), g.sym("receiver"), g.sym(g.addrStr(to)), g.sym("amount"), g.sym(attrs[1].Value)),
		desc: fmt.Sprintf("tx coin_received %v", attrs)}
	acts, bad := g.genActions([]int{owner}, false)
	for bad { // the race needs a creation that passes ValidateBasic
		acts, bad = g.genActions([]int{owner}, false)
	}
	var out []*c17Plan
	for _, k := range r.Perm(3) {
		n.lastSigners = nil
		switch k {
		case 0:
			out = append(out, g.buildCreate([]int{owner}, []int{owner}, ev, acts, int64(150000+r.Intn(100000)), "race-create", false))
			n.pendingSeq[owner]++
		case 1:
			msg := banktypes.NewMsgSend(g.accts[from].addr, g.accts[to].addr, sdk.NewCoins(sdk.NewInt64Coin(c17EvtDen, amt)))
			bz, err := n.signTx(300000, []int{from}, msg)
			if err != nil {
				g.t.Fatal(err)
			}
			n.pendingSeq[from]++
			out = append(out, &c17Plan{kind: "emit", bz: bz, gas: 300000, shape: "race-emit", desc: fmt.Sprintf("race emit %d%s %d->%d", amt, c17EvtDen, from, to)})
		default:
			if r.Intn(4) == 0 {
				continue // no destroy: the trigger must be detected whatever the order of creation and event
			}
			msg := triggertypes.NewDestroyTriggerRequest(g.addrStr(owner), g.nextID)
			bz, err := n.signTx(150000, []int{owner}, msg)
			if err != nil {
				g.t.Fatal(err)
			}
			n.pendingSeq[owner]++
			out = append(out, &c17Plan{kind: "destroy", bz: bz, gas: 150000, shape: "race-destroy",
				coqPre: fmt.Sprintf("TDestroy %d %d", owner, g.nextID), desc: fmt.Sprintf("race destroy %d by %d", g.nextID, owner)})
		}
	}
	return out
}

// planOrder: two triggers on DIFFERENT event types, created in this block, and two sends: the first send
// emits an event of X's type that does not meet X's condition and then the event Y waits for, the second
// emits the event X waits for.  Y's condition is met first, so Y must be queued first, whatever the ids and
// although X's event type shows up first in the block.
func (g *c17Gen) planOrder() []*c17Plan {
	r, n := g.r, g.n
	p := r.Perm(g.nAcc)
	s1, s2, q, owner := p[0], p[1], p[2], p[3]
	type at = triggertypes.Attribute
	mkEv := func(name, key, val string) c17Ev {
		return c17Ev{ev: &triggertypes.TransactionEvent{Name: name, Attributes: []at{{Name: key, Value: val}}}, isTx: true, shape: "order",
			coq:  fmt.Sprintf("(EvTx %s %s [(%s, %s)])", g.sym(name), g.lsym(name), g.sym(key), g.sym(val)),
			desc: fmt.Sprintf("tx %s {%s=%s}", name, key, val)}
	}
	// within one send the events come as coin_spent, coin_received, transfer, message
	pairs := [][2]c17Ev{
		{mkEv("coin_spent", "spender", g.addrStr(s2)), mkEv("coin_received", "receiver", g.addrStr(q))},
		{mkEv("coin_spent", "spender", g.addrStr(s2)), mkEv("transfer", "recipient", g.addrStr(q))},
		{mkEv("coin_received", "receiver", g.addrStr(owner)), mkEv("transfer", "sender", g.addrStr(s1))},
		{mkEv("coin_spent", "spender", g.addrStr(s2)), mkEv("message", "sender", g.addrStr(s1))},
	}
	pair := pairs[r.Intn(len(pairs))]
	evX, evY := pair[0], pair[1]
	send := func(from, to int) *c17Plan {
		n.lastSigners = nil
		msg := banktypes.NewMsgSend(g.accts[from].addr, g.accts[to].addr, sdk.NewCoins(sdk.NewInt64Coin(c17EvtDen, int64(7+r.Intn(3)))))
		bz, err := n.signTx(300000, []int{from}, msg)
		if err != nil {
			g.t.Fatal(err)
		}
		n.pendingSeq[from]++
		return &c17Plan{kind: "emit", bz: bz, gas: 300000, shape: "order-emit", desc: fmt.Sprintf("order emit %d->%d", from, to)}
	}
	create := func(ev c17Ev) *c17Plan {
		n.lastSigners = nil
		acts, bad := g.genActions([]int{owner}, false)
		for bad { // must pass ValidateBasic: a refused creation would not advance the owner's sequence
			acts, bad = g.genActions([]int{owner}, false)
		}
		pl := g.buildCreate([]int{owner}, []int{owner}, ev, acts, int64(150000+r.Intn(100000)), "order-create", false)
		n.pendingSeq[owner]++
		return pl
	}
	var out []*c17Plan
	if r.Intn(2) == 0 {
		out = append(out, create(evX), create(evY))
	} else {
		out = append(out, create(evY), create(evX))
	}
	// first send: s1 -> q (not X's spender / receiver; meets Y), second: s2 -> owner (meets X)
	out = append(out, send(s1, q), send(s2, owner))
	return out
}
