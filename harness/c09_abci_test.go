//go:build c09

package harness

import (
	"fmt"
	"testing"
	"time"

	abci "github.com/cometbft/cometbft/abci/types"
	cmtproto "github.com/cometbft/cometbft/proto/tendermint/types"

	storetypes "cosmossdk.io/store/types"
	"cosmossdk.io/x/feegrant"

	"github.com/cosmos/cosmos-sdk/client/tx"
	"github.com/cosmos/cosmos-sdk/crypto/keys/secp256k1"
	cryptotypes "github.com/cosmos/cosmos-sdk/crypto/types"
	sdk "github.com/cosmos/cosmos-sdk/types"
	"github.com/cosmos/cosmos-sdk/types/tx/signing"
	authsigning "github.com/cosmos/cosmos-sdk/x/auth/signing"
	authtypes "github.com/cosmos/cosmos-sdk/x/auth/types"
	banktypes "github.com/cosmos/cosmos-sdk/x/bank/types"

	simapp "github.com/provenance-io/provenance/app"
	"github.com/provenance-io/provenance/internal/pioconfig"
)

// ---------------------------------------------------------------------------------------------
// C09, ABCI route: a real chain per history.  The six ordinary accounts of the cast have keys; every
// message of the history is delivered in a transaction signed by exactly the message's signers,
// through CheckTx (committed state) and then a block (FinalizeBlock + Commit); about half of the
// transactions name a fee granter (an account outside the cast with an unlimited allowance for
// everybody), so that the fee is paid by somebody else.  Environment steps (marker administration,
// authz keeper, sanctions, block time) are keeper writes on an otherwise empty block.  Whoever pays
// the fee is not an input of the model: the same model, the same checkers.
// ---------------------------------------------------------------------------------------------

const (
	c09Chain      = "verif-c09"
	c09FeeGranter = 13 // outside the model's cast: never signs a message, never holds a scope token
	c09TxGas      = 4_000_000
)

type c09Net struct {
	t      *testing.T
	app    *simapp.App
	env    *c09Env
	privs  map[int]cryptotypes.PrivKey
	feeGr  sdk.AccAddress
	height int64
	now    time.Time
}

func c09NewNet(t *testing.T) *c09Net {
	pioconfig.SetProvenanceConfig(sdk.DefaultBondDenom, 1)
	n := &c09Net{t: t, privs: map[int]cryptotypes.PrivKey{}}
	users := map[int]sdk.AccAddress{}
	var gen []authtypes.GenesisAccount
	var bals []banktypes.Balance
	for k, i := range []int{1, 2, 3, 4, 5, 6, c09FeeGranter} {
		priv := secp256k1.GenPrivKeyFromSecret([]byte(fmt.Sprintf("verif-c09-key-%d", i)))
		addr := sdk.AccAddress(priv.PubKey().Address())
		n.privs[i] = priv
		if i == c09FeeGranter {
			n.feeGr = addr
		} else {
			users[i] = addr
		}
		// accounts with a public key: not what the metadata module takes for a smart contract
		gen = append(gen, authtypes.NewBaseAccount(addr, priv.PubKey(), uint64(k), 0))
		bals = append(bals, banktypes.Balance{Address: addr.String(), Coins: sdk.NewCoins(sdk.NewInt64Coin(sdk.DefaultBondDenom, 1_000_000_000_000_000))})
	}
	n.app = simapp.SetupWithGenesisAccounts(t, c09Chain, gen, bals...)
	n.now = time.Unix(1_700_000_000, 0).UTC()
	n.height = n.app.LastBlockHeight() + 1 // the block opened by the setup
	ctx := n.openCtx()
	n.env = c09Populate(t, n.app, ctx, n.now, users)
	n.env.onChain = true
	for i := 1; i <= 6; i++ {
		if err := n.app.FeeGrantKeeper.GrantAllowance(ctx, n.feeGr, users[i], &feegrant.BasicAllowance{}); err != nil {
			t.Fatalf("fee allowance: %v", err)
		}
	}
	return n
}

// openCtx is the state of the block that is open (FinalizeBlock done or chain just set up, Commit not
// yet): writes made through it are committed by commitOpen.
func (n *c09Net) openCtx() sdk.Context {
	return n.app.BaseApp.NewContextLegacy(false, cmtproto.Header{ChainID: c09Chain, Height: n.height, Time: n.now})
}

func (n *c09Net) commitOpen() {
	// FinalizeBlock has flushed the block's own writes already; what the keepers wrote on the open
	// block afterwards is flushed here
	n.openCtx().MultiStore().(storetypes.CacheMultiStore).Write()
	if _, err := n.app.Commit(); err != nil {
		n.t.Fatalf("Commit(%d): %v", n.height, err)
	}
}

// queryCtx reads the last committed state.
func (n *c09Net) queryCtx() sdk.Context {
	return n.app.BaseApp.NewUncachedContext(false, cmtproto.Header{ChainID: c09Chain, Height: n.height, Time: n.now})
}

// txSigners: the cast indexes of the accounts that have to sign a transaction with this message.
func (n *c09Net) txSigners(m sdk.Msg) ([]int, bool) {
	raw, _, err := n.app.AppCodec().GetMsgV1Signers(m)
	if err != nil || len(raw) == 0 {
		return nil, false
	}
	var out []int
	for _, a := range raw {
		i := n.env.idx(sdk.AccAddress(a))
		if _, ok := n.privs[i]; !ok || i == c09FeeGranter {
			return nil, false
		}
		dup := false
		for _, x := range out {
			dup = dup || x == i
		}
		if !dup {
			out = append(out, i)
		}
	}
	return out, true
}

func (n *c09Net) signable(op c09Op) bool {
	if op.msg == nil {
		return true
	}
	ok := false
	_ = try(func() error { _, ok = n.txSigners(op.msg); return nil })
	return ok
}

func (n *c09Net) sign(m sdk.Msg, signers []int, granter bool) ([]byte, error) {
	ctx := n.queryCtx()
	cfg := n.app.GetEncodingConfig().TxConfig
	b := cfg.NewTxBuilder()
	b.SetFeeAmount(sdk.NewCoins(sdk.NewInt64Coin(sdk.DefaultBondDenom, c09TxGas)))
	b.SetGasLimit(c09TxGas)
	if granter {
		b.SetFeeGranter(n.feeGr)
	}
	if err := b.SetMsgs(m); err != nil {
		return nil, err
	}
	mode := signing.SignMode(cfg.SignModeHandler().DefaultMode())
	nums := make([]uint64, len(signers))
	seqs := make([]uint64, len(signers))
	sigs := make([]signing.SignatureV2, len(signers))
	for i, s := range signers {
		acc := n.app.AccountKeeper.GetAccount(ctx, n.env.addrs[s])
		if acc == nil {
			return nil, fmt.Errorf("no account %d", s)
		}
		nums[i], seqs[i] = acc.GetAccountNumber(), acc.GetSequence()
		sigs[i] = signing.SignatureV2{PubKey: n.privs[s].PubKey(), Data: &signing.SingleSignatureData{SignMode: mode}, Sequence: seqs[i]}
	}
	if err := b.SetSignatures(sigs...); err != nil {
		return nil, err
	}
	for i, s := range signers {
		sd := authsigning.SignerData{Address: n.env.addrs[s].String(), ChainID: c09Chain, AccountNumber: nums[i], Sequence: seqs[i], PubKey: n.privs[s].PubKey()}
		sig, err := tx.SignWithPrivKey(ctx, mode, sd, b, n.privs[s], cfg, seqs[i])
		if err != nil {
			return nil, err
		}
		sigs[i] = sig
	}
	if err := b.SetSignatures(sigs...); err != nil {
		return nil, err
	}
	return cfg.TxEncoder()(b.GetTx())
}

// block runs one block with the given transactions; the block stays open for keeper writes.
func (n *c09Net) block(txs [][]byte) *abci.ResponseFinalizeBlock {
	n.height++
	res, err := n.app.FinalizeBlock(&abci.RequestFinalizeBlock{Height: n.height, Time: n.now, Txs: txs})
	if err != nil {
		n.t.Fatalf("FinalizeBlock(%d): %v", n.height, err)
	}
	return res
}

// deliver executes one step of a history on the chain.  Returns a note for the description.
func (n *c09Net) deliver(h *c09Hist, op c09Op, w *CaseWriter) (string, error) {
	e := n.env
	// every block starts with the authz BeginBlocker, which deletes the grants whose expiration is before
	// the block time: when there is one, an empty block makes that a step of its own (OPrune)
	for _, g := range h.allGrants() {
		if g.hasExp && g.exp < h.now {
			n.block(nil)
			n.commitOpen()
			h.ctx = n.queryCtx()
			h.extra = append(h.extra, [2]string{fmt.Sprintf("(OPrune, %s)", h.observe(true)), "an empty block: the authz BeginBlocker deletes expired grants -> true"})
			w.Count("abci blocks pruning expired grants")
			break
		}
	}
	if op.msg == nil {
		// an environment step: an empty block, then keeper writes on the open block
		n.block(nil)
		cctx, write := n.openCtx().CacheContext()
		err := op.run(cctx)
		if err == nil {
			write()
		}
		n.commitOpen()
		n.now = e.t0.Add(time.Duration(h.now) * time.Second)
		h.ctx = n.queryCtx()
		return " [keeper write on an empty block]", err
	}
	signers, ok := n.txSigners(op.msg)
	if !ok {
		n.t.Fatalf("unsignable message reached the chain: %s", op.dsc)
	}
	granter := h.r.Intn(2) == 0
	if op.granter > 0 {
		granter = op.granter == 1
	}
	if e.app.SanctionKeeper.IsSanctionedAddr(h.ctx, e.addrs[signers[0]]) {
		granter = true // a sanctioned fee payer could not even pay the fee
	}
	note := " [tx]"
	if granter {
		note = " [tx, fee paid by a fee granter]"
		w.Count("abci transactions with a fee granter")
	} else {
		w.Count("abci transactions without fee granter")
	}
	bz, err := n.sign(op.msg, signers, granter)
	if err != nil {
		n.t.Fatalf("sign: %v", err)
	}
	chk, err := n.app.CheckTx(&abci.RequestCheckTx{Tx: bz, Type: abci.CheckTxType_New})
	if err != nil {
		n.t.Fatalf("CheckTx: %v", err)
	}
	if chk.Code != 0 {
		// not admitted (a message that fails its basic validation): nothing happens
		w.Count(fmt.Sprintf("abci transactions not admitted by CheckTx (code %d)", chk.Code))
		if chk.Codespace == "sdk" && (chk.Code == 4 || chk.Code == 5 || chk.Code == 13 || chk.Code == 32) {
			n.t.Fatalf("CheckTx refused a transaction for its signature, funds, fee or sequence: %s: %s", op.dsc, chk.Log)
		}
		n.block(nil)
		n.commitOpen()
		h.ctx = n.queryCtx()
		return note + " [not admitted]", fmt.Errorf("not admitted: %s", chk.Log)
	}
	res := n.block([][]byte{bz})
	n.commitOpen()
	h.ctx = n.queryCtx()
	if r := res.TxResults[0]; r.Code != 0 {
		if r.Codespace == "sdk" && r.Code == 11 {
			n.t.Fatalf("out of gas: %s", op.dsc)
		}
		return note, fmt.Errorf("tx failed: %s", r.Log)
	}
	if op.done != nil {
		op.done()
	}
	return note, nil
}
