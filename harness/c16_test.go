//go:build c16

package harness

import (
	"bytes"
	"crypto/sha256"
	"encoding/binary"
	"fmt"
	"hash/fnv"
	"math/rand"
	"sort"
	"strings"
	"testing"
	"time"

	"github.com/google/uuid"

	storetypes "cosmossdk.io/store/types"

	sdk "github.com/cosmos/cosmos-sdk/types"
	"github.com/cosmos/cosmos-sdk/types/address"
	"github.com/cosmos/cosmos-sdk/types/query"
	authtypes "github.com/cosmos/cosmos-sdk/x/auth/types"
	govtypes "github.com/cosmos/cosmos-sdk/x/gov/types"

	simapp "github.com/provenance-io/provenance/app"
	"github.com/provenance-io/provenance/x/attribute"
	attrtypes "github.com/provenance-io/provenance/x/attribute/types"
	metadatatypes "github.com/provenance-io/provenance/x/metadata/types"
	nametypes "github.com/provenance-io/provenance/x/name/types"
)

// C16: histories of attribute writes (real message handlers), account-data writes (message and
// keeper), parameter updates, name binds / transfers / deletions (real name message handlers,
// restricted and unrestricted parents, arbitrary spellings), direct purges and blocks (block time
// moved; the real BeginBlocker, or DeleteExpiredAttributes with a small limit), over account and
// scope holders.  After every step the harness projects: all attributes of every holder (keeper),
// AccountsByAttribute and GetRecordByName of every name of the universe, Params.MaxValueLength,
// and the gRPC queries Attributes / Attribute / Scan / AttributeAccounts (followed page by page)
// and AccountData for one holder and one arbitrarily spelled name.

const (
	c16Gov    = 0
	c16NoAcct = 4 // a user that never has an auth account
	c16Scope  = 5 // a scope metadata address (valid holder)
	c16Sess   = 6 // a session metadata address (NOT a valid holder)
	c16Mod    = 8 // the attribute module account (owner of "accountdata")
	c16Root   = 9 // owner of the root names
	c16Limit  = 100000
)

type c16Rec struct {
	acct int64
	name string
	val  int64
	typ  int64
	exp  *int64
}

func (r c16Rec) key() string {
	return fmt.Sprintf("%d|%s|%d", r.acct, strings.ToLower(strings.TrimSpace(r.name)), r.val)
}

type c16NameRec struct {
	bound  bool
	stored string
	owner  int64
	restr  bool
}

type c16Q struct {
	acct    int64
	name    string
	suffix  string
	limit   int64
	attrs   [][]c16Rec
	attr    [][]c16Rec
	scanned [][]c16Rec
	accts   [][]int64
	totals  []int64
	adata   *int64 // nil = error
}

// c16QE is one key of the expiration queue (store range 0x04) decoded: time, account id, the name
// whose GetNameKeyBytes the key carries ("?" when it is none of the universe), value id (-1 unknown)
type c16QE struct {
	t    int64
	acct int64
	name string
	val  int64
}

type c16Obs struct {
	ok     bool
	recs   []c16Rec
	accts  [][]int64    // per name
	owners []c16NameRec // per name
	maxlen int64
	queue  []c16QE // the raw expiration queue
	q      c16Q
}

type c16Env struct {
	app        *simapp.App
	r          *rand.Rand
	addrStr    map[int64]string // id -> bech32 as used in messages (Account / Owner fields)
	addrBz     map[int64][]byte // id -> raw bytes
	idByStr    map[string]int64
	idByBz     map[string]int64
	values     []string // index i -> value of id i+1
	valID      map[string]int64
	nameByHash map[string]string // GetNameKeyBytes(n) -> n, for every name of the universes
	valByHash  map[string]int64  // sha256(value) -> value id
	holders    []int64           // every id whose attributes are dumped / listed
	names      []string
	genesis    string
	cfg        string // the Cfg term (constant per universe)
}

func (e *c16Env) acc(id int64) sdk.AccAddress { return sdk.AccAddress(e.addrBz[id]) }

func (e *c16Env) idOfStr(s string) int64 {
	if id, ok := e.idByStr[s]; ok {
		return id
	}
	return -1
}

func (e *c16Env) idOfBz(b []byte) int64 {
	if id, ok := e.idByBz[string(b)]; ok {
		return id
	}
	return -1
}

func (e *c16Env) rec(at attrtypes.Attribute) c16Rec {
	r := c16Rec{acct: e.idOfStr(at.Address), name: at.Name, typ: int64(at.AttributeType), val: -1}
	if id, ok := e.valID[string(at.Value)]; ok {
		r.val = id
	}
	if at.ExpirationDate != nil {
		x := at.ExpirationDate.Unix()
		r.exp = &x
	}
	return r
}

// pages follows a paginated query to its end: by next_key (first page offset 0) or by offset.
func c16Pages[T any](byKey, reverse, countTotal bool, limit uint64, call func(*query.PageRequest) ([]T, *query.PageResponse, error)) ([][]T, int64, error) {
	var pages [][]T
	total := int64(-1)
	req := &query.PageRequest{Limit: limit, Reverse: reverse, CountTotal: countTotal}
	for i := 0; i < 200; i++ {
		items, resp, err := call(req)
		if err != nil {
			return nil, -1, err
		}
		if i == 0 && countTotal && resp != nil {
			total = int64(resp.Total)
		}
		pages = append(pages, items)
		if byKey {
			if resp == nil || len(resp.NextKey) == 0 {
				break
			}
			req = &query.PageRequest{Key: resp.NextKey, Limit: limit, Reverse: reverse}
		} else {
			if uint64(len(items)) < limit {
				break
			}
			req = &query.PageRequest{Offset: uint64(i+1) * limit, Limit: limit, Reverse: reverse}
		}
	}
	return pages, total, nil
}

func (e *c16Env) queries(ctx sdk.Context, q c16Q, byKey, reverse, countTotal bool) c16Q {
	k := e.app.AttributeKeeper
	lim := uint64(q.limit)
	conv := func(pages [][]attrtypes.Attribute) [][]c16Rec {
		out := make([][]c16Rec, len(pages))
		for i, pg := range pages {
			out[i] = []c16Rec{}
			for _, at := range pg {
				out[i] = append(out[i], e.rec(at))
			}
		}
		return out
	}
	acct := e.addrStr[q.acct]
	q.totals = nil
	p1, t1, err1 := c16Pages(byKey, reverse, countTotal, lim, func(pr *query.PageRequest) ([]attrtypes.Attribute, *query.PageResponse, error) {
		resp, err := k.Attributes(ctx, &attrtypes.QueryAttributesRequest{Account: acct, Pagination: pr})
		if err != nil {
			return nil, nil, err
		}
		return resp.Attributes, resp.Pagination, nil
	})
	p2, t2, err2 := c16Pages(byKey, reverse, countTotal, lim, func(pr *query.PageRequest) ([]attrtypes.Attribute, *query.PageResponse, error) {
		resp, err := k.Attribute(ctx, &attrtypes.QueryAttributeRequest{Account: acct, Name: q.name, Pagination: pr})
		if err != nil {
			return nil, nil, err
		}
		return resp.Attributes, resp.Pagination, nil
	})
	p3, t3, err3 := c16Pages(byKey, reverse, countTotal, lim, func(pr *query.PageRequest) ([]attrtypes.Attribute, *query.PageResponse, error) {
		resp, err := k.Scan(ctx, &attrtypes.QueryScanRequest{Account: acct, Suffix: q.suffix, Pagination: pr})
		if err != nil {
			return nil, nil, err
		}
		return resp.Attributes, resp.Pagination, nil
	})
	p4, t4, err4 := c16Pages(byKey, reverse, countTotal, lim, func(pr *query.PageRequest) ([]string, *query.PageResponse, error) {
		resp, err := k.AttributeAccounts(ctx, &attrtypes.QueryAttributeAccountsRequest{AttributeName: q.name, Pagination: pr})
		if err != nil {
			return nil, nil, err
		}
		return resp.Accounts, resp.Pagination, nil
	})
	if err1 == nil && err2 == nil && err3 == nil && err4 == nil {
		q.attrs, q.attr, q.scanned = conv(p1), conv(p2), conv(p3)
		for _, pg := range p4 {
			ids := []int64{}
			for _, s := range pg {
				a, err := sdk.AccAddressFromBech32(s)
				if err != nil {
					ids = append(ids, -1)
				} else {
					ids = append(ids, e.idOfBz(a))
				}
			}
			q.accts = append(q.accts, ids)
		}
		q.totals = []int64{t1, t2, t3, t4}
	} // else: totals stay empty and the checker reports prop:query_totals
	resp, err := k.AccountData(ctx, &attrtypes.QueryAccountDataRequest{Account: acct})
	if err == nil {
		v := int64(-1)
		if resp.Value == "" {
			v = 0
		} else if id, ok := e.valID[resp.Value]; ok {
			v = id
		}
		q.adata = &v
	}
	return q
}

func (e *c16Env) observe(ctx sdk.Context, ok bool, q *c16Q, byKey, reverse, countTotal bool) c16Obs {
	o := c16Obs{ok: ok}
	for _, a := range e.holders {
		attrs, err := e.app.AttributeKeeper.GetAllAttributesAddr(ctx, e.addrBz[a])
		if err != nil {
			panic(err)
		}
		for _, at := range attrs {
			o.recs = append(o.recs, e.rec(at))
		}
	}
	for _, n := range e.names {
		as, err := e.app.AttributeKeeper.AccountsByAttribute(ctx, n)
		if err != nil {
			panic(err)
		}
		ids := []int64{}
		for _, a := range as {
			ids = append(ids, e.idOfBz(a))
		}
		o.accts = append(o.accts, ids)
		rec, err := e.app.NameKeeper.GetRecordByName(ctx, n)
		if err != nil || rec == nil {
			o.owners = append(o.owners, c16NameRec{})
		} else {
			o.owners = append(o.owners, c16NameRec{bound: true, stored: rec.Name, owner: e.idOfStr(rec.Address), restr: rec.Restricted})
		}
	}
	o.maxlen = int64(e.app.AttributeKeeper.GetMaxValueLength(ctx))
	o.queue = e.rawQueue(ctx)
	if q != nil {
		o.q = e.queries(ctx, *q, byKey, reverse, countTotal)
	}
	return o
}

// rawQueue reads the expiration queue straight from the attribute store:
// 0x04 | unix seconds (8 bytes BE) | len | account bytes | name hash (32) | value hash (32)
func (e *c16Env) rawQueue(ctx sdk.Context) []c16QE {
	store := ctx.KVStore(e.app.GetKey(attrtypes.StoreKey))
	it := storetypes.KVStorePrefixIterator(store, attrtypes.AttributeExpirationKeyPrefix)
	defer it.Close()
	out := []c16QE{}
	for ; it.Valid(); it.Next() {
		k := it.Key()
		q := c16QE{acct: -1, name: "?", val: -1}
		if len(k) >= 10 {
			q.t = int64(binary.BigEndian.Uint64(k[1:9]))
			l := int(k[9])
			if len(k) == 10+l+64 {
				q.acct = e.idOfBz(k[10 : 10+l])
				if n, ok := e.nameByHash[string(k[10+l:10+l+32])]; ok {
					q.name = n
				}
				if v, ok := e.valByHash[string(k[10+l+32:])]; ok {
					q.val = v
				}
			}
		}
		out = append(out, q)
	}
	return out
}

func nN(x int64) string {
	if x < 0 {
		return "999999%N" // an id outside every universe
	}
	return fmt.Sprintf("%d%%N", x)
}

func c16OptZ(x *int64) string {
	if x == nil {
		return "None"
	}
	return "(Some " + zI64(*x) + ")"
}

func (r c16Rec) term() string {
	return fmt.Sprintf("(%s, %s, %s, %s, %s)", nN(r.acct), coqStr(r.name), zI64(r.val), zI64(r.typ), strings.Trim(c16OptZ(r.exp), "()"))
}

func c16RecList(rs []c16Rec) string {
	xs := []string{}
	for _, r := range rs {
		xs = append(xs, r.term())
	}
	return coqList(xs)
}

func c16NList(ids []int64) string {
	xs := []string{}
	for _, a := range ids {
		xs = append(xs, nN(a))
	}
	return coqList(xs)
}

func (q c16Q) term() string {
	pages := func(ps [][]c16Rec) string {
		xs := []string{}
		for _, p := range ps {
			xs = append(xs, c16RecList(p))
		}
		return coqList(xs)
	}
	var ap []string
	for _, p := range q.accts {
		ap = append(ap, c16NList(p))
	}
	var ts []string
	for _, t := range q.totals {
		ts = append(ts, zI64(t))
	}
	return fmt.Sprintf("(QObs %s %s %s %d %s %s %s %s %s %s)", nN(q.acct), coqStr(q.name), coqStr(q.suffix), q.limit,
		pages(q.attrs), pages(q.attr), pages(q.scanned), coqList(ap), coqList(ts), c16OptZ(q.adata))
}

func (o c16Obs) term() string {
	var accts []string
	for _, l := range o.accts {
		accts = append(accts, c16NList(l))
	}
	var owners []string
	for _, ow := range o.owners {
		if !ow.bound {
			owners = append(owners, "None")
		} else {
			owners = append(owners, fmt.Sprintf("Some (%s, %s, %s)", coqStr(ow.stored), nN(ow.owner), coqBool(ow.restr)))
		}
	}
	var qs []string
	for _, q := range o.queue {
		qs = append(qs, fmt.Sprintf("(%s, %s, %s, %s)", zI64(q.t), nN(q.acct), coqStr(q.name), zI64(q.val)))
	}
	return "Obs " + coqBool(o.ok) + " " + c16RecList(o.recs) + " " + coqList(accts) + " " + coqList(owners) + " " + zI64(o.maxlen) + " " + coqList(qs) + " " + o.q.term()
}

// one operation: its Coq term and how to run it on the real code
type c16Op struct {
	kind  string
	term  string
	desc  map[string]any
	run   func(ctx sdk.Context) error // nil for blocks
	dt    int64
	limit int64
	name  string // the name as sent, for attribute writes
	spelt bool   // the name was not sent in canonical form
}

func (e *c16Env) handle(ctx sdk.Context, msg sdk.Msg) error {
	if vb, ok := msg.(sdk.HasValidateBasic); ok {
		if err := vb.ValidateBasic(); err != nil {
			return err
		}
	}
	h := e.app.MsgServiceRouter().Handler(msg)
	if h == nil {
		return fmt.Errorf("no handler for %T", msg)
	}
	_, err := h(ctx, msg)
	return err
}

// c16Spell renders the normalised name n in a spelling class: 0 canonical; 1 white space around
// the whole name; 2 other letter case (maybe with outer white space); 3 white space inside, next
// to a dot (or around the only segment); 4 inside white space and other letter case; 5 not a
// valid name at all (blank, short / illegal segment, empty segment).
func c16Spell(r *rand.Rand, n string, class int) string {
	segs := strings.Split(n, ".")
	i := r.Intn(len(segs))
	upper := func(x string) string {
		switch r.Intn(3) {
		case 0:
			return strings.ToUpper(x)
		case 1:
			return strings.ToUpper(x[:1]) + x[1:]
		default:
			return x[:1] + strings.ToUpper(x[1:])
		}
	}
	pad := func(x string) string {
		return []string{" ", "  ", "\t", ""}[r.Intn(4)] + x + []string{" ", "", " \t", "\t"}[r.Intn(4)]
	}
	inner := func() {
		switch r.Intn(3) {
		case 0:
			segs[i] = segs[i] + " "
		case 1:
			segs[i] = " " + segs[i]
		default:
			segs[i] = " " + segs[i] + "\t"
		}
	}
	switch class {
	case 1:
		x := pad(n)
		if x == n {
			x = " " + n
		}
		return x
	case 2:
		segs[i] = upper(segs[i])
		x := strings.Join(segs, ".")
		if r.Intn(3) == 0 {
			x = pad(x)
		}
		return x
	case 3:
		if len(segs) == 1 {
			return " " + n + " "
		}
		inner()
		if i == 0 && strings.HasPrefix(segs[0], " ") && len(segs) > 1 { // keep it an INNER space
			segs[0] = strings.TrimLeft(segs[0], " ") + " "
		}
		if i == len(segs)-1 && len(segs) > 1 {
			segs[i] = " " + strings.TrimSpace(segs[i])
		}
		return strings.Join(segs, ".")
	case 4:
		if len(segs) > 1 {
			inner()
			if i == 0 {
				segs[0] = strings.TrimLeft(segs[0], " ") + " "
			}
			if i == len(segs)-1 {
				segs[i] = " " + strings.TrimSpace(segs[i])
			}
		}
		j := r.Intn(len(segs))
		segs[j] = strings.Replace(segs[j], strings.TrimSpace(segs[j]), upper(strings.TrimSpace(segs[j])), 1)
		return strings.Join(segs, ".")
	case 5:
		switch r.Intn(5) {
		case 0:
			return ""
		case 1:
			return " \t "
		case 2:
			segs[i] = segs[i][:1]
			return strings.Join(segs, ".")
		case 3:
			segs[i] = segs[i] + "_"
			return strings.Join(segs, ".")
		default:
			return n + "."
		}
	default:
		return n
	}
}

func c16Time(x *int64) *time.Time {
	if x == nil {
		return nil
	}
	t := time.Unix(*x, 0).UTC()
	return &t
}

func (e *c16Env) opBind(parent string, signer int64, child string, owner int64, restr bool) c16Op {
	return c16Op{kind: "bind", term: fmt.Sprintf("OBind %s %s %s %s %s", coqStr(parent), nN(signer), coqStr(child), nN(owner), coqBool(restr)),
		desc: map[string]any{"op": "bind_name", "parent": parent, "signer": signer, "child": child, "owner": owner, "restricted": restr},
		run: func(ctx sdk.Context) error {
			return e.handle(ctx, &nametypes.MsgBindNameRequest{
				Parent: nametypes.NameRecord{Name: parent, Address: e.addrStr[signer]},
				Record: nametypes.NameRecord{Name: child, Address: e.addrStr[owner], Restricted: restr}})
		}}
}

func (e *c16Env) opModify(signer int64, name string, owner int64, restr bool) c16Op {
	return c16Op{kind: "modify_name", term: fmt.Sprintf("OModifyName %s %s %s %s", nN(signer), coqStr(name), nN(owner), coqBool(restr)),
		desc: map[string]any{"op": "modify_name", "authority": signer, "name": name, "new_owner": owner, "restricted": restr},
		run: func(ctx sdk.Context) error {
			return e.handle(ctx, &nametypes.MsgModifyNameRequest{Authority: e.addrStr[signer],
				Record: nametypes.NameRecord{Name: name, Address: e.addrStr[owner], Restricted: restr}})
		}}
}

func (e *c16Env) opDeleteName(name string, signer int64) c16Op {
	return c16Op{kind: "delete_name", name: name, term: fmt.Sprintf("ODeleteName %s %s", coqStr(name), nN(signer)),
		desc: map[string]any{"op": "delete_name", "caller": signer, "name": name},
		run: func(ctx sdk.Context) error {
			return e.handle(ctx, &nametypes.MsgDeleteNameRequest{Record: nametypes.NameRecord{Name: name, Address: e.addrStr[signer]}})
		}}
}

func (e *c16Env) opAdd(c, a int64, name string, v, ty int64, exp *int64) c16Op {
	return c16Op{kind: "add", name: name, term: fmt.Sprintf("OAdd %s %s %s %d %d %s", nN(c), nN(a), coqStr(name), v, ty, c16OptZ(exp)),
		desc: map[string]any{"op": "add", "caller": c, "account": a, "name": name, "value": v, "type": ty, "exp": exp},
		run: func(ctx sdk.Context) error {
			return e.handle(ctx, &attrtypes.MsgAddAttributeRequest{Name: name, Value: []byte(e.values[v-1]),
				AttributeType: attrtypes.AttributeType(ty), Account: e.addrStr[a], Owner: e.addrStr[c], ExpirationDate: c16Time(exp)})
		}}
}

func (e *c16Env) opUpdate(c, a int64, name string, ov, oty, nv, nty int64) c16Op {
	return c16Op{kind: "update", name: name, term: fmt.Sprintf("OUpdate %s %s %s %d %d %d %d", nN(c), nN(a), coqStr(name), ov, oty, nv, nty),
		desc: map[string]any{"op": "update", "caller": c, "account": a, "name": name, "orig_value": ov, "orig_type": oty, "value": nv, "type": nty},
		run: func(ctx sdk.Context) error {
			return e.handle(ctx, &attrtypes.MsgUpdateAttributeRequest{Name: name, OriginalValue: []byte(e.values[ov-1]), UpdateValue: []byte(e.values[nv-1]),
				OriginalAttributeType: attrtypes.AttributeType(oty), UpdateAttributeType: attrtypes.AttributeType(nty), Account: e.addrStr[a], Owner: e.addrStr[c]})
		}}
}

func (e *c16Env) opUpdateExp(c, a int64, name string, v int64, exp *int64) c16Op {
	return c16Op{kind: "update_exp", name: name, term: fmt.Sprintf("OUpdateExp %s %s %s %d %s", nN(c), nN(a), coqStr(name), v, c16OptZ(exp)),
		desc: map[string]any{"op": "update_expiration", "caller": c, "account": a, "name": name, "value": v, "exp": exp},
		run: func(ctx sdk.Context) error {
			return e.handle(ctx, &attrtypes.MsgUpdateAttributeExpirationRequest{Name: name, Value: []byte(e.values[v-1]),
				ExpirationDate: c16Time(exp), Account: e.addrStr[a], Owner: e.addrStr[c]})
		}}
}

func (e *c16Env) opDelete(c, a int64, name string) c16Op {
	return c16Op{kind: "delete", name: name, term: fmt.Sprintf("ODelete %s %s %s", nN(c), nN(a), coqStr(name)),
		desc: map[string]any{"op": "delete", "caller": c, "account": a, "name": name},
		run: func(ctx sdk.Context) error {
			return e.handle(ctx, &attrtypes.MsgDeleteAttributeRequest{Name: name, Account: e.addrStr[a], Owner: e.addrStr[c]})
		}}
}

func (e *c16Env) opDeleteDistinct(c, a int64, name string, v int64) c16Op {
	return c16Op{kind: "delete_distinct", name: name, term: fmt.Sprintf("ODeleteDistinct %s %s %s %d", nN(c), nN(a), coqStr(name), v),
		desc: map[string]any{"op": "delete_distinct", "caller": c, "account": a, "name": name, "value": v},
		run: func(ctx sdk.Context) error {
			return e.handle(ctx, &attrtypes.MsgDeleteDistinctAttributeRequest{Name: name, Value: []byte(e.values[v-1]), Account: e.addrStr[a], Owner: e.addrStr[c]})
		}}
}

func (e *c16Env) opPurge(c int64, name string) c16Op {
	return c16Op{kind: "purge", name: name, term: fmt.Sprintf("OPurge %s %s", nN(c), coqStr(name)),
		desc: map[string]any{"op": "purge (keeper)", "caller": c, "name": name},
		run: func(ctx sdk.Context) error {
			return e.app.AttributeKeeper.PurgeAttribute(ctx, name, e.acc(c))
		}}
}

func (e *c16Env) opSetAccountData(viaMsg bool, a, v int64) c16Op {
	val := ""
	if v > 0 {
		val = e.values[v-1]
	}
	return c16Op{kind: "set_account_data", term: fmt.Sprintf("OSetAccountData %s %s %d", coqBool(viaMsg), nN(a), v),
		desc: map[string]any{"op": "set_account_data", "via_msg": viaMsg, "account": a, "value": v},
		run: func(ctx sdk.Context) error {
			if viaMsg {
				return e.handle(ctx, &attrtypes.MsgSetAccountDataRequest{Value: val, Account: e.addrStr[a]})
			}
			return e.app.AttributeKeeper.SetAccountData(ctx, e.addrStr[a], val)
		}}
}

func (e *c16Env) opSetMaxLen(auth, m int64) c16Op {
	return c16Op{kind: "set_max_length", term: fmt.Sprintf("OSetMaxLen %s %d", nN(auth), m),
		desc: map[string]any{"op": "update_params", "authority": auth, "max_value_length": m},
		run: func(ctx sdk.Context) error {
			return e.handle(ctx, &attrtypes.MsgUpdateParamsRequest{Authority: e.addrStr[auth], Params: attrtypes.Params{MaxValueLength: uint32(m)}})
		}}
}

func (e *c16Env) opBlock(dt, limit int64) c16Op {
	return c16Op{kind: "block", term: fmt.Sprintf("OBlock %d %d", dt, limit), dt: dt, limit: limit,
		desc: map[string]any{"op": "block", "dt": dt, "sweep_limit": limit}}
}

var c16GoodTypes = []int64{2, 3, 5, 6, 7, 8}
var c16BadTypes = []int64{0, 1, 4}

// generator state for one history (everything read back from the implementation's observations)
type c16Gen struct {
	r        *rand.Rand
	e        *c16Env
	now      int64
	last     c16Obs
	expPool  []int64 // every expiration ever submitted (targets for block times)
	attrName []string
	parent   map[string]string // attribute name -> its parent name
	users    []int64
	targets  []int64
}

func (g *c16Gen) pick(xs []int64) int64    { return xs[g.r.Intn(len(xs))] }
func (g *c16Gen) pickS(xs []string) string { return xs[g.r.Intn(len(xs))] }

func (g *c16Gen) goodType() int64 {
	if g.r.Intn(25) == 0 {
		return g.pick(c16BadTypes)
	}
	return g.pick(c16GoodTypes)
}

func (g *c16Gen) nameRec(n string) c16NameRec {
	for i, m := range g.e.names {
		if m == n {
			return g.last.owners[i]
		}
	}
	return c16NameRec{}
}

func (g *c16Gen) boundNames() []string {
	var out []string
	for _, n := range g.attrName {
		if g.nameRec(n).bound {
			out = append(out, n)
		}
	}
	return out
}

func (g *c16Gen) anyName() string {
	if b := g.boundNames(); len(b) > 0 && g.r.Intn(12) != 0 {
		return g.pickS(b)
	}
	if g.r.Intn(10) == 0 { // a root, or the account-data name
		return g.pickS(g.e.names)
	}
	return g.pickS(g.attrName)
}

// caller for a write under name n: mostly the current owner
func (g *c16Gen) caller(n string) int64 {
	nr := g.nameRec(n)
	if nr.bound && nr.owner >= 0 && g.r.Intn(100) < 82 {
		return nr.owner
	}
	return g.pick([]int64{1, 2, 3, 1, 2, 3, c16NoAcct, c16Mod, c16Root})
}

// spell: the name as sent; canonical most of the time.  With a non-canonical spelling the caller is
// a non-owner half of the time (a request whose name merely looks different must not get past
// the ownership check).
func (g *c16Gen) spell(n string) (string, bool) {
	x := g.r.Intn(100)
	if x < 68 {
		return n, false
	}
	if x < 71 {
		return c16Spell(g.r, n, 5), true
	}
	return c16Spell(g.r, n, g.r.Intn(4)+1), true
}

func (g *c16Gen) callerSp(n string, spelt bool) int64 {
	if spelt && g.r.Intn(2) == 0 {
		return g.pick([]int64{1, 2, 3, c16NoAcct})
	}
	return g.caller(n)
}

func (g *c16Gen) target() int64 {
	if g.r.Intn(14) == 0 {
		return g.pick([]int64{c16Sess, c16NoAcct, c16Root})
	}
	return g.pick(g.targets)
}

func (g *c16Gen) value() int64 {
	switch x := g.r.Intn(40); {
	case x == 0:
		return 5 // longer than the default limit
	case x < 6:
		return 4
	default:
		return int64(g.r.Intn(3) + 1)
	}
}

func (g *c16Gen) newExp() *int64 {
	switch x := g.r.Intn(100); {
	case x < 22:
		return nil
	case x < 30: // in the past (rejected) or exactly now (accepted)
		v := g.now - int64(g.r.Intn(3))
		g.expPool = append(g.expPool, v)
		return &v
	default:
		v := g.now + int64(g.r.Intn(40))
		if g.r.Intn(4) == 0 {
			v = g.now + int64(g.r.Intn(6))
		}
		g.expPool = append(g.expPool, v)
		return &v
	}
}

func (g *c16Gen) existing() (c16Rec, bool) {
	if len(g.last.recs) == 0 {
		return c16Rec{}, false
	}
	return g.last.recs[g.r.Intn(len(g.last.recs))], true
}

func (g *c16Gen) blockDt() int64 {
	// half of the blocks aim at an expiration that was submitted at some point: land exactly on
	// it, one second past it, or one second before it
	if len(g.expPool) > 0 && g.r.Intn(2) == 0 {
		t := g.expPool[g.r.Intn(len(g.expPool))] + int64(g.r.Intn(3)) - 1
		if t >= g.now {
			return t - g.now
		}
	}
	return []int64{0, 1, 1, 2, 3, 5, 8, 13, 21}[g.r.Intn(9)]
}

func (g *c16Gen) blockLimit() int64 {
	switch x := g.r.Intn(20); {
	case x < 15:
		return c16Limit // the real BeginBlocker
	case x == 15:
		return 0 // DeleteExpiredAttributes without limit
	default:
		return int64(g.r.Intn(3) + 1)
	}
}

// bind of attribute name n (child.parent) by a signer who may do it most of the time
func (g *c16Gen) bindOp(n string) c16Op {
	e := g.e
	parent := g.parent[n]
	child := strings.TrimSuffix(n, "."+parent)
	pr := g.nameRec(parent)
	signer := g.pick([]int64{1, 2, 3, c16Root})
	if pr.bound && pr.restr && g.r.Intn(100) < 85 {
		signer = pr.owner
	}
	if g.r.Intn(40) == 0 {
		signer = c16Gov
	}
	owner := g.pick([]int64{1, 2, 3, 1, 2, 3, 1, 2, 3, c16NoAcct, c16Root})
	if g.r.Intn(100) < 22 {
		if g.r.Intn(2) == 0 {
			parent = c16Spell(g.r, parent, g.r.Intn(5)+1)
		} else {
			child = c16Spell(g.r, child, []int{1, 2, 5}[g.r.Intn(3)])
		}
	}
	return e.opBind(parent, signer, child, owner, g.r.Intn(3) != 0)
}

func (g *c16Gen) next() c16Op {
	e := g.e
	var free []string
	for _, n := range g.attrName {
		if !g.nameRec(n).bound {
			free = append(free, n)
		}
	}
	x := g.r.Intn(100)
	switch {
	case x < 6 || (len(free) == len(g.attrName)):
		n := g.pickS(g.attrName)
		if len(free) > 0 && g.r.Intn(8) != 0 {
			n = g.pickS(free)
		}
		return g.bindOp(n)
	case x < 10:
		n := g.anyName()
		auth := g.caller(n)
		if g.r.Intn(12) == 0 {
			auth = c16Gov
		}
		owner := g.pick([]int64{1, 2, 3, 1, 2, 3, c16NoAcct})
		name, _ := g.spell(n)
		return e.opModify(auth, name, owner, g.r.Intn(3) != 0)
	case x < 13:
		n := g.anyName()
		name, spelt := g.spell(n)
		return e.opDeleteName(name, g.callerSp(n, spelt))
	case x < 41:
		// add; a third of the time re-add an attribute that exists (same account, name, value)
		if rec, ok := g.existing(); ok && g.r.Intn(3) == 0 {
			ty := rec.typ
			if g.r.Intn(2) == 0 {
				ty = g.goodType()
			}
			name, _ := g.spell(rec.name)
			if rec.exp != nil && *rec.exp >= g.now && g.r.Intn(4) == 0 { // same expiration, maybe another type
				same := *rec.exp
				return e.opAdd(g.caller(rec.name), rec.acct, name, rec.val, ty, &same)
			}
			return e.opAdd(g.caller(rec.name), rec.acct, name, rec.val, ty, g.newExp())
		}
		n := g.anyName()
		name, spelt := g.spell(n)
		return e.opAdd(g.callerSp(n, spelt && g.r.Intn(2) == 0), g.target(), name, g.value(), g.goodType(), g.newExp())
	case x < 50:
		if rec, ok := g.existing(); ok && g.r.Intn(8) != 0 {
			oty := rec.typ
			if g.r.Intn(8) == 0 {
				oty = g.pick(c16GoodTypes)
			}
			name, _ := g.spell(rec.name)
			return e.opUpdate(g.caller(rec.name), rec.acct, name, rec.val, oty, g.value(), g.goodType())
		}
		n := g.anyName()
		name, _ := g.spell(n)
		return e.opUpdate(g.caller(n), g.target(), name, int64(g.r.Intn(3)+1), g.pick(c16GoodTypes), g.value(), g.goodType())
	case x < 59:
		if rec, ok := g.existing(); ok && g.r.Intn(8) != 0 {
			name, _ := g.spell(rec.name)
			return e.opUpdateExp(g.caller(rec.name), rec.acct, name, rec.val, g.newExp())
		}
		n := g.anyName()
		name, _ := g.spell(n)
		return e.opUpdateExp(g.caller(n), g.target(), name, int64(g.r.Intn(3)+1), g.newExp())
	case x < 64:
		if rec, ok := g.existing(); ok && g.r.Intn(6) != 0 {
			name, spelt := g.spell(rec.name)
			return e.opDelete(g.callerSp(rec.name, spelt), rec.acct, name)
		}
		n := g.anyName()
		name, spelt := g.spell(n)
		return e.opDelete(g.callerSp(n, spelt), g.target(), name)
	case x < 70:
		if rec, ok := g.existing(); ok && g.r.Intn(6) != 0 {
			name, spelt := g.spell(rec.name)
			return e.opDeleteDistinct(g.callerSp(rec.name, spelt), rec.acct, name, rec.val)
		}
		n := g.anyName()
		name, spelt := g.spell(n)
		return e.opDeleteDistinct(g.callerSp(n, spelt), g.target(), name, int64(g.r.Intn(3)+1))
	case x < 72:
		n := g.anyName()
		name, spelt := g.spell(n)
		return e.opPurge(g.callerSp(n, spelt), name)
	case x < 75:
		a := g.pick([]int64{1, 2, 3, c16Scope, c16Scope, c16Sess})
		viaMsg := a != c16Scope && a != c16Sess
		if g.r.Intn(6) == 0 {
			viaMsg = !viaMsg
		}
		v := g.pick([]int64{0, 1, 2, 3, 1, 2, 3, 4, 5})
		return e.opSetAccountData(viaMsg, a, v)
	case x < 77:
		auth := int64(c16Gov)
		if g.r.Intn(4) == 0 {
			auth = g.pick([]int64{1, c16Mod, c16Root})
		}
		return e.opSetMaxLen(auth, g.pick([]int64{1, 2, 9, 10, 10000, 10001, 4294967295}))
	default:
		return e.opBlock(g.blockDt(), g.blockLimit())
	}
}

// an unbound attribute name, bound to owner ow by someone entitled to
func (g *c16Gen) scBind(n string, ow int64) c16Op {
	parent := g.parent[n]
	child := strings.TrimSuffix(n, "."+parent)
	pr := g.nameRec(parent)
	signer := ow
	if pr.bound && pr.restr {
		signer = pr.owner
	}
	return g.e.opBind(parent, signer, child, ow, g.r.Intn(2) == 0)
}

func (g *c16Gen) topName() string {
	var tops []string
	for _, n := range g.attrName {
		if strings.Count(n, ".") == 1 {
			tops = append(tops, n)
		}
	}
	return g.pickS(tops)
}

// directed opening: the shape behind the repaired defect (an identical attribute re-added with a
// later / no expiration, or added again after a purge, then a block between the two times)
func (g *c16Gen) scenario() []c16Op {
	e := g.e
	n := g.topName()
	ow := g.pick(g.users)
	a := g.pick(g.targets)
	v := int64(g.r.Intn(3) + 1)
	e1 := g.now + int64(g.r.Intn(5)+1)
	var e2 *int64
	if g.r.Intn(3) != 0 {
		x := e1 + int64(g.r.Intn(10)+1)
		e2 = &x
		g.expPool = append(g.expPool, x)
	}
	g.expPool = append(g.expPool, e1)
	n1, _ := g.spell(n)
	n2, _ := g.spell(n)
	ops := []c16Op{g.scBind(n, ow), e.opAdd(ow, a, n1, v, g.pick(c16GoodTypes), &e1)}
	switch g.r.Intn(3) {
	case 0:
		ops = append(ops, e.opPurge(ow, n))
	case 1:
		ops = append(ops, e.opDeleteName(n, ow), g.scBind(n, ow))
	}
	ops = append(ops, e.opAdd(ow, a, n2, v, g.pick(c16GoodTypes), e2))
	dt := e1 - g.now + 1
	if e2 != nil && g.r.Intn(2) == 0 {
		dt = *e2 - g.now // exactly at the new expiration: still not due
	}
	ops = append(ops, e.opBlock(dt, c16Limit))
	return ops
}

// second directed opening: an identical attribute re-added with the SAME expiration (only the
// type changes, or nothing at all), so that the old and the new queue entry are one and the same
// store key; then the block time passes that expiration and the attribute must be gone.
// Variants: 0 one re-add with another type; 1 re-added twice; 2 re-add then update-expiration to
// the same time; 3 re-add under a non-canonical spelling of the name.
func (g *c16Gen) scenarioSameExp(variant int) []c16Op {
	e := g.e
	n := g.topName()
	ow := g.pick(g.users)
	a := g.pick(g.targets)
	v := int64(g.r.Intn(3) + 1)
	e1 := g.now + int64(g.r.Intn(6)+1)
	g.expPool = append(g.expPool, e1)
	t1 := g.pick(c16GoodTypes)
	t2 := g.pick(c16GoodTypes)
	for t2 == t1 {
		t2 = g.pick(c16GoodTypes)
	}
	ops := []c16Op{g.scBind(n, ow), e.opAdd(ow, a, n, v, t1, &e1)}
	if g.r.Intn(3) == 0 { // some time passes first, not reaching e1
		ops = append(ops, e.opBlock(int64(g.r.Intn(int(e1-g.now))), c16Limit))
	}
	switch variant {
	case 1:
		ops = append(ops, e.opAdd(ow, a, n, v, t2, &e1), e.opAdd(ow, a, n, v, t1, &e1))
	case 2:
		ops = append(ops, e.opAdd(ow, a, n, v, t2, &e1), e.opUpdateExp(ow, a, n, v, &e1))
	case 3:
		ops = append(ops, e.opAdd(ow, a, c16Spell(g.r, n, g.r.Intn(4)+1), v, t2, &e1))
	default:
		ops = append(ops, e.opAdd(ow, a, n, v, t2, &e1))
	}
	// the dts are relative to the block time at which each block op runs
	elapsed := int64(0)
	for _, o := range ops {
		elapsed += o.dt
	}
	left := e1 - g.now - elapsed
	if g.r.Intn(2) == 0 { // first land exactly on e1 (not due yet), then one second later
		ops = append(ops, e.opBlock(left, c16Limit), e.opBlock(1, c16Limit))
	} else {
		ops = append(ops, e.opBlock(left+1+int64(g.r.Intn(3)), c16Limit))
	}
	return ops
}

// third directed opening: more attributes fall due in one block than the sweep's limit allows;
// several blocks with a small limit, then the real BeginBlocker.
func (g *c16Gen) scenarioLimit() []c16Op {
	e := g.e
	n := g.topName()
	ow := g.pick(g.users)
	ops := []c16Op{g.scBind(n, ow)}
	k := 3 + g.r.Intn(4)
	base := g.now + 1 + int64(g.r.Intn(3))
	last := base
	for i := 0; i < k; i++ {
		ex := base + int64(g.r.Intn(3))
		if ex > last {
			last = ex
		}
		g.expPool = append(g.expPool, ex)
		ops = append(ops, e.opAdd(ow, g.pick(g.targets), n, int64(i%3+1), g.pick(c16GoodTypes), &ex))
	}
	if g.r.Intn(2) == 0 { // one of them re-added with a later expiration: a stale entry among the due ones
		later := last + 5
		g.expPool = append(g.expPool, later)
		ops = append(ops, e.opAdd(ow, g.pick(g.targets), n, 1, g.pick(c16GoodTypes), &later))
	}
	lim := int64(1 + g.r.Intn(2))
	ops = append(ops, e.opBlock(last-g.now+1, lim))
	// further blocks with the same small limit: as many as it takes for the limit to get through
	// everything that has expired (and sometimes one fewer, or a few more); the checker demands
	// "all gone" exactly when the limits of the run add up to the number expired
	more := (int64(k)+1+lim-1)/lim - 1 + int64(g.r.Intn(3)) - 1
	if more < 1 {
		more = 1
	}
	for i := int64(0); i < more; i++ {
		ops = append(ops, e.opBlock(int64(g.r.Intn(2)), lim))
	}
	if g.r.Intn(2) == 0 {
		ops = append(ops, e.opBlock(0, c16Limit))
	}
	return ops
}

// fourth directed opening: the name changes hands (transfer; deletion and re-binding by a
// DIFFERENT owner); the former owner's writes must be refused, the new owner's accepted.
func (g *c16Gen) scenarioTransfer() []c16Op {
	e := g.e
	n := g.topName()
	us := append([]int64{}, g.users...)
	g.r.Shuffle(len(us), func(i, j int) { us[i], us[j] = us[j], us[i] })
	a1, a2, a3 := us[0], us[1], us[2]
	h := g.pick(g.targets)
	ex := g.now + 20 + int64(g.r.Intn(10))
	g.expPool = append(g.expPool, ex)
	sp := func() string { x, _ := g.spell(n); return x }
	ops := []c16Op{g.scBind(n, a1), e.opAdd(a1, h, sp(), 1, 3, &ex), e.opAdd(a1, g.pick(g.targets), sp(), 2, 5, nil)}
	auth := a1
	if g.r.Intn(4) == 0 {
		auth = c16Gov
	}
	ops = append(ops, e.opModify(auth, n, a2, g.r.Intn(2) == 0))
	ops = append(ops, e.opAdd(a1, h, sp(), 3, 3, nil), e.opDelete(a1, h, n), e.opUpdateExp(a1, h, sp(), 1, nil)) // former owner: refused
	ops = append(ops, e.opUpdate(a2, h, sp(), 1, 3, 2, 5), e.opAdd(a2, h, sp(), 3, 3, nil))                      // new owner
	// only the new owner may delete the name — spelled, half of the time, with white space next to
	// a dot (the name module normalises per segment, the attribute store keys only the whole);
	// once the name is gone nothing may be left under it for a stranger to delete
	delName := sp()
	if g.r.Intn(2) == 0 {
		delName = c16Spell(g.r, n, 3)
	}
	ops = append(ops, e.opDeleteName(n, a1), e.opDeleteName(delName, a2), e.opDelete(a1, h, n))
	ops = append(ops, g.scBind(n, a3), e.opAdd(a2, h, sp(), 1, 3, nil), e.opAdd(a3, h, sp(), 1, 3, nil), e.opDeleteDistinct(a3, h, n, 1))
	return ops
}

// fifth directed opening: C15's known finding seen through attributes — the name-module key of
// "ccaa.bb" equals that of "aa.bbcc", so the owner of aa.bbcc is accepted as writer under the
// never-bound ccaa.bb (reported by bin/check as KNOWN-FINDING, fingerprint
// "name-key-preimage-collision (attribute write)").
func (g *c16Gen) scenarioCollision() []c16Op {
	e := g.e
	us := append([]int64{}, g.users...)
	g.r.Shuffle(len(us), func(i, j int) { us[i], us[j] = us[j], us[i] })
	a1, a3 := us[0], us[2]
	h := g.pick(g.targets)
	ops := []c16Op{e.opBind("bbcc", c16Root, "aa", a1, true),
		e.opAdd(a1, h, "aa.bbcc", 2, 3, nil),
		e.opAdd(a1, h, "ccaa.bb", 1, 3, nil), // accepted: a1 owns only aa.bbcc
		e.opBind("bb", c16Root, "ccaa", a3, true),
		e.opDeleteName("aa.bbcc", a1),
		e.opDelete(a3, h, "ccaa.bb")}
	return ops
}

func c16Ranks[T comparable](ids []T, keyOf func(T) []byte) map[T]int64 {
	sorted := append([]T{}, ids...)
	sort.Slice(sorted, func(i, j int) bool { return bytes.Compare(keyOf(sorted[i]), keyOf(sorted[j])) < 0 })
	out := map[T]int64{}
	for i, x := range sorted {
		out[x] = int64(i + 1)
	}
	return out
}

func TestC16(t *testing.T) {
	r := newRand("C16")
	w := NewCaseWriter("C16", "PV.Corr.C16", "check_all", 20)
	app, baseCtx := newApp(t)

	env := &c16Env{app: app, r: r, addrStr: map[int64]string{}, addrBz: map[int64][]byte{}, idByStr: map[string]int64{}, idByBz: map[string]int64{},
		values: []string{"11", "22", "33", "4444444444", strings.Repeat("5", 10001)}, valID: map[string]int64{},
		holders: []int64{1, 2, 3, c16NoAcct, c16Scope, c16Sess, c16Mod, c16Root}}
	for i, v := range env.values {
		env.valID[v] = int64(i + 1)
	}
	put := func(id int64, s string, bz []byte) {
		env.addrStr[id], env.addrBz[id] = s, bz
		env.idByStr[s], env.idByBz[string(bz)] = id, id
	}
	for _, id := range []int64{1, 2, 3, c16NoAcct, c16Root} {
		a := addrN(160 + int(id))
		put(id, a.String(), a)
	}
	govAddr := authtypes.NewModuleAddress(govtypes.ModuleName)
	put(c16Gov, govAddr.String(), govAddr)
	modAddr := authtypes.NewModuleAddress(attrtypes.ModuleName)
	put(c16Mod, modAddr.String(), modAddr)
	scopeID, sessID := uuid.MustParse("91978ba2-5f35-459a-86a7-feca1b0512e0"), uuid.MustParse("5803f8bc-6067-4eb5-951f-2121671c2ec0")
	scope := metadatatypes.ScopeMetadataAddress(scopeID)
	sess := metadatatypes.SessionMetadataAddress(scopeID, sessID)
	put(c16Scope, scope.String(), scope.Bytes())
	put(c16Sess, sess.String(), sess.Bytes())
	haveAcct := []int64{1, 2, 3, c16Mod, c16Root}
	for _, id := range haveAcct {
		ensureAccount(app, baseCtx, env.acc(id))
	}
	if app.AccountKeeper.GetAccount(baseCtx, env.acc(c16Mod)) == nil {
		t.Fatalf("the attribute module account does not exist")
	}
	if app.AccountKeeper.GetAccount(baseCtx, env.acc(c16NoAcct)) != nil {
		t.Fatalf("address %d is meant to have no account", c16NoAcct)
	}
	if app.AccountKeeper.GetAccount(baseCtx, env.acc(c16Gov)) != nil {
		haveAcct = append(haveAcct, c16Gov)
	}
	// names bound before the histories: the genesis account-data name and the harness' roots
	type root struct {
		name  string
		owner int64
		restr bool
	}
	roots := []root{{"c16", c16Root, true}, {"open", c16Root, false}, {"bbcc", c16Root, true}, {"bb", c16Root, true}}
	var genesis []string
	if err := app.NameKeeper.IterateRecords(baseCtx, nametypes.NameKeyPrefix, func(rec nametypes.NameRecord) error {
		genesis = append(genesis, fmt.Sprintf("(%s, %s, %s)", coqStr(rec.Name), nN(env.idOfStr(rec.Address)), coqBool(rec.Restricted)))
		if env.idOfStr(rec.Address) < 0 {
			return fmt.Errorf("genesis name %q is owned by an address outside the universe", rec.Name)
		}
		return nil
	}); err != nil {
		t.Fatalf("genesis names: %v", err)
	}
	for _, rt := range roots {
		if err := app.NameKeeper.SetNameRecord(baseCtx, rt.name, env.acc(rt.owner), rt.restr); err != nil {
			t.Fatalf("root name: %v", err)
		}
		genesis = append(genesis, fmt.Sprintf("(%s, %s, %s)", coqStr(rt.name), nN(rt.owner), coqBool(rt.restr)))
	}
	np := app.NameKeeper.GetParams(baseCtx)
	t0 := int64(1_700_000_000)
	baseCtx = baseCtx.WithBlockTime(time.Unix(t0, 0).UTC())

	// the two universes of attribute names
	stdNames := []string{"aa.c16", "bb.c16", "aa.open", "xx.aa.c16"}
	stdParent := map[string]string{"aa.c16": "c16", "bb.c16": "c16", "aa.open": "open", "xx.aa.c16": "aa.c16"}
	colNames := []string{"aa.bbcc", "ccaa.bb"}
	colParent := map[string]string{"aa.bbcc": "bbcc", "ccaa.bb": "bb"}
	universe := func(attrNames []string, rootNames ...string) []string {
		return append(append(append([]string{}, attrNames...), rootNames...), attrtypes.AccountDataName)
	}
	cfgTerm := func(names []string) string {
		var have, kinds, vlens, ar, nr, vr []string
		for _, id := range haveAcct {
			have = append(have, nN(id))
		}
		kinds = append(kinds, fmt.Sprintf("(%s, 1)", nN(c16Scope)), fmt.Sprintf("(%s, 2)", nN(c16Sess)))
		for i, v := range env.values {
			vlens = append(vlens, fmt.Sprintf("(%d, %d)", i+1, len(v)))
		}
		for id, rk := range c16Ranks(env.holders, func(id int64) []byte { return address.MustLengthPrefix(env.addrBz[id]) }) {
			ar = append(ar, fmt.Sprintf("(%s, %d)", nN(id), rk))
		}
		sort.Strings(ar)
		for n, rk := range c16Ranks(names, func(n string) []byte { return attrtypes.GetNameKeyBytes(n) }) {
			nr = append(nr, fmt.Sprintf("(%s, %d)", coqStr(n), rk))
		}
		sort.Strings(nr)
		vids := []int64{1, 2, 3, 4, 5}
		for id, rk := range c16Ranks(vids, func(id int64) []byte { h := sha256.Sum256([]byte(env.values[id-1])); return h[:] }) {
			vr = append(vr, fmt.Sprintf("(%d, %d)", id, rk))
		}
		sort.Strings(vr)
		return fmt.Sprintf("(Cfg %d%%N %d%%N %d%%N %s %s %s %s %s %s %s %d)", np.MinSegmentLength, np.MaxSegmentLength, np.MaxNameLevels,
			coqList(genesis), coqList(have), coqList(kinds), coqList(vlens), coqList(ar), coqList(nr), coqList(vr),
			app.AttributeKeeper.GetMaxValueLength(baseCtx))
	}
	env.nameByHash, env.valByHash = map[string]string{}, map[string]int64{}
	for _, n := range append(append(append([]string{}, stdNames...), colNames...), "c16", "open", "bbcc", "bb", attrtypes.AccountDataName) {
		env.nameByHash[string(attrtypes.GetNameKeyBytes(n))] = n
	}
	for i, v := range env.values {
		h := sha256.Sum256([]byte(v))
		env.valByHash[string(h[:])] = int64(i + 1)
	}
	stdUniverse := universe(stdNames, "c16", "open")
	colUniverse := universe(colNames, "bbcc", "bb")
	stdCfg, colCfg := cfgTerm(stdUniverse), cfgTerm(colUniverse)

	nHist := scale(240, 4000)
	for h := 0; h < nHist; h++ {
		ctx, _ := baseCtx.CacheContext()
		g := &c16Gen{r: r, e: env, now: t0, attrName: stdNames, parent: stdParent, users: []int64{1, 2, 3}, targets: []int64{1, 2, 3, c16Scope}}
		env.names, env.cfg = stdUniverse, stdCfg
		isCollision := h%12 == 7 // a fixed twelfth of the histories opens with the key-collision shape (known finding)
		if isCollision {
			g.attrName, g.parent = colNames, colParent
			env.names, env.cfg = colUniverse, colCfg
		}
		obs0 := env.observe(ctx, true, nil, false, false, false)
		g.last = obs0
		nSteps := 12 + r.Intn(scale(30, 50))
		var pending []c16Op
		switch {
		case isCollision:
			pending = g.scenarioCollision()
			w.Count("scripted_name_key_collision")
		case h%5 == 1: // a fixed fifth of the histories: identical re-add with the same expiration
			pending = g.scenarioSameExp((h / 5) % 4)
			w.Count("scripted_same_expiration_readd")
			w.Count(fmt.Sprintf("scripted_same_expiration_readd_variant_%d", (h/5)%4))
		case h%5 == 2:
			pending = g.scenarioLimit()
			w.Count("scripted_sweep_limit")
		case h%5 == 3:
			pending = g.scenarioTransfer()
			w.Count("scripted_name_changes_hands")
		case r.Intn(3) == 0:
			pending = g.scenario()
			w.Count("scripted_readd_after_purge_or_rebind")
		}
		if len(pending) > nSteps {
			nSteps = len(pending) + 4
		}
		sameExpKeys := map[string]int64{} // keys re-added with an unchanged expiration -> that time
		var steps []string
		var descs []map[string]any
		nontrivial := false
		stale := map[string][]int64{} // key -> expirations that were replaced while the record stayed
		formerOwners := map[string]map[int64]bool{}
		for i := 0; i < nSteps; i++ {
			var op c16Op
			if len(pending) > 0 {
				op, pending = pending[0], pending[1:]
			} else {
				op = g.next()
			}
			// what the name of an attribute write resolves to before the op (for the replay and the fingerprint)
			if op.name != "" {
				if norm, err := app.NameKeeper.Normalize(ctx, op.name); err == nil {
					op.desc["name_normalised"] = norm
					if rec, err := app.NameKeeper.GetRecordByName(ctx, norm); err == nil && rec != nil {
						op.desc["resolves_to_record_named"] = rec.Name
					}
					if norm != op.name {
						op.spelt = true
					}
				} else {
					op.spelt = true
				}
			}
			var ok bool
			if op.run == nil {
				g.now += op.dt
				ctx = ctx.WithBlockTime(time.Unix(g.now, 0).UTC())
				err := try(func() error {
					if op.limit == c16Limit {
						attribute.BeginBlocker(ctx, app.AttributeKeeper)
					} else {
						app.AttributeKeeper.DeleteExpiredAttributes(ctx, int(op.limit))
					}
					return nil
				})
				ok = err == nil
			} else {
				cctx, write := ctx.CacheContext()
				err := try(func() error { return op.run(cctx) })
				ok = err == nil
				if ok {
					write()
				}
			}
			// the queries of this step
			q := c16Q{acct: g.pick([]int64{1, 2, 3, c16Scope, 1, 2, 3, c16Scope, c16NoAcct, c16Root}), limit: int64(r.Intn(4) + 1)}
			if r.Intn(8) == 0 {
				q.limit = 100
			}
			qn := g.pickS(env.names)
			if len(g.last.recs) > 0 && r.Intn(3) != 0 {
				rec := g.last.recs[r.Intn(len(g.last.recs))]
				qn, q.acct = rec.name, rec.acct
				if q.acct < 0 {
					q.acct = 1
				}
			}
			q.name = qn
			if r.Intn(3) == 0 {
				q.name = c16Spell(r, qn, r.Intn(4)+1)
			}
			sufs := []string{qn, qn[1:], "." + qn[strings.LastIndex(qn, ".")+1:], qn[strings.LastIndex(qn, ".")+1:], "6", "a", "data", "xx"}
			q.suffix = sufs[r.Intn(len(sufs))]
			byKey, reverse, countTotal := r.Intn(2) == 0, r.Intn(3) == 0, r.Intn(2) == 0
			cur := env.observe(ctx, ok, &q, byKey, reverse, countTotal)
			w.Count("op_" + op.kind)
			if op.spelt {
				w.Count("noncanonical_spelling")
				if ok {
					w.Count("accepted_noncanonical_spelling")
				}
			}
			if ok {
				w.Count("accepted_" + op.kind)
				w.Count("accepted")
			} else {
				w.Count("rejected")
			}
			for _, pg := range [][][]c16Rec{cur.q.attrs, cur.q.attr, cur.q.scanned} {
				if len(pg) > 1 {
					w.Count("queries_with_more_than_one_page")
				}
			}
			// bookkeeping for the statistics and the non-triviality rule
			prevByKey := map[string]c16Rec{}
			for _, rec := range g.last.recs {
				prevByKey[rec.key()] = rec
			}
			curByKey := map[string]c16Rec{}
			for _, rec := range cur.recs {
				curByKey[rec.key()] = rec
			}
			for i, n := range env.names { // ownership changes
				was, is := g.last.owners[i], cur.owners[i]
				if was.bound && (!is.bound || is.owner != was.owner) {
					if formerOwners[n] == nil {
						formerOwners[n] = map[int64]bool{}
					}
					formerOwners[n][was.owner] = true
					w.Count("name_changed_hands_or_was_deleted")
				}
			}
			if norm, okn := op.desc["name_normalised"].(string); okn && ok && (op.kind == "add" || op.kind == "update" || op.kind == "update_exp" || op.kind == "delete" || op.kind == "delete_distinct") {
				if c, okc := op.desc["caller"].(int64); okc && len(formerOwners[norm]) > 0 && !formerOwners[norm][c] {
					w.Count("write_by_a_new_owner_after_the_name_changed_hands")
					nontrivial = true
				}
			}
			switch op.kind {
			case "add":
				if ok {
					a, _ := op.desc["account"].(int64)
					v, _ := op.desc["value"].(int64)
					norm, _ := op.desc["name_normalised"].(string)
					k := c16Rec{acct: a, name: norm, val: v}.key()
					rec := curByKey[k]
					if old, was := prevByKey[k]; was && old.exp != nil && c16SameExp(old.exp, rec.exp) {
						w.Count("readd_identical_same_expiration")
						sameExpKeys[k] = *old.exp
						nontrivial = true
					}
					if old, was := prevByKey[k]; was && (old.typ != rec.typ || !c16SameExp(old.exp, rec.exp)) {
						w.Count("readd_identical_changed")
						nontrivial = true
						if old.exp != nil {
							stale[k] = append(stale[k], *old.exp)
						}
					}
					if a == c16Scope {
						w.Count("accepted_add_on_scope")
					}
				}
			case "purge", "delete_name":
				if ok {
					for k, old := range prevByKey {
						if _, still := curByKey[k]; !still && old.exp != nil {
							stale[k] = append(stale[k], *old.exp)
						}
					}
				}
			case "block":
				gone := 0
				expired := 0
				for k, old := range prevByKey {
					if _, still := curByKey[k]; !still {
						gone++
					}
					if old.exp != nil && *old.exp < g.now {
						expired++
					}
				}
				if op.limit != 0 && int64(expired) > op.limit {
					w.Count("sweeps_cut_off_by_the_limit")
					nontrivial = true
				}
				if op.limit != c16Limit {
					w.Count("sweeps_with_small_or_no_limit")
				}
				for k, at := range sameExpKeys {
					if _, was := prevByKey[k]; !was {
						delete(sameExpKeys, k)
						continue
					}
					if cr, still := curByKey[k]; !still {
						w.Count("same_expiration_readd_then_expired")
						delete(sameExpKeys, k)
					} else if cr.exp == nil || *cr.exp != at {
						delete(sameExpKeys, k)
					}
				}
				if gone > 0 {
					w.Count("blocks_that_expired_something")
					w.CountN("attributes_expired", int64(gone))
					nontrivial = true
				}
				for k, rec := range curByKey {
					for _, se := range stale[k] {
						if se < g.now && (rec.exp == nil || *rec.exp >= g.now) {
							w.Count("stale_queue_entry_crossed_while_attribute_alive")
							nontrivial = true
							break
						}
					}
				}
				for k, ss := range stale { // entries before now have been swept (unless the limit cut in)
					var keep []int64
					for _, se := range ss {
						if se >= g.now {
							keep = append(keep, se)
						}
					}
					stale[k] = keep
				}
			}
			g.last = cur
			steps = append(steps, "("+op.term+", "+cur.term()+")")
			d := op.desc
			d["accepted"] = ok
			d["step"] = i
			descs = append(descs, d)
		}
		term := fmt.Sprintf("History %d %s %s %s\n    (%s) [\n    %s]", t0, env.cfg, c16NList(env.holders), c16StrList(env.names), obs0.term(), strings.Join(steps, ";\n    "))
		w.Add(term, map[string]any{"kind": "history", "t0": t0, "names": env.names, "steps": descs})
		w.Count("histories")
		w.CountN("steps", int64(nSteps))
		if nontrivial {
			hh := fnv.New64a()
			hh.Write([]byte(term))
			w.Nontrivial(fmt.Sprintf("%x", hh.Sum64()))
		}
	}
	w.Flush(t)
}

func c16StrList(xs []string) string {
	var out []string
	for _, x := range xs {
		out = append(out, coqStr(x))
	}
	return coqList(out)
}

func c16SameExp(a, b *int64) bool {
	if a == nil || b == nil {
		return a == nil && b == nil
	}
	return *a == *b
}
