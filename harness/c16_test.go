//go:build c16

package harness

import (
	"fmt"
	"hash/fnv"
	"math/rand"
	"sort"
	"strings"
	"testing"
	"time"

	sdk "github.com/cosmos/cosmos-sdk/types"
	authtypes "github.com/cosmos/cosmos-sdk/x/auth/types"
	govtypes "github.com/cosmos/cosmos-sdk/x/gov/types"

	simapp "github.com/provenance-io/provenance/app"
	"github.com/provenance-io/provenance/x/attribute"
	attrtypes "github.com/provenance-io/provenance/x/attribute/types"
	nametypes "github.com/provenance-io/provenance/x/name/types"
)

// C16: histories of attribute writes (through the real message handlers), name binds /
// transfers / deletions (real name message handlers) and blocks (block time moved, the real
// attribute BeginBlocker run), over 3 target accounts, 3 names, 3 values.  After every step the
// harness projects: all attributes of every account, AccountsByAttribute of every name, the
// owner of every name, accepted/rejected.

type c16Rec struct {
	acct, name, val, typ int64
	exp                  *int64
}

func (r c16Rec) key() [3]int64 { return [3]int64{r.acct, r.name, r.val} }

type c16Obs struct {
	ok     bool
	recs   []c16Rec
	accts  [][]int64 // per name
	owners []int64   // per name; -1 = unbound
}

type c16Env struct {
	app      *simapp.App
	addrs    map[int64]sdk.AccAddress // id -> address (callers 1..4, admin 9)
	ids      map[string]int64         // bech32 -> id
	gov      string
	names    []string // index i -> full name of name id i+1
	segs     []string
	values   []string
	root     string
	targets  []int64 // attribute accounts
	nameIDs  []int64
	haveAcct []int64
}

func (e *c16Env) addrStr(id int64) string {
	if id == 0 {
		return e.gov
	}
	return e.addrs[id].String()
}

func (e *c16Env) idOf(bech string) int64 {
	if id, ok := e.ids[bech]; ok {
		return id
	}
	return -1
}

func (e *c16Env) observe(ctx sdk.Context, ok bool) c16Obs {
	o := c16Obs{ok: ok}
	nameID := map[string]int64{}
	for i, n := range e.names {
		nameID[n] = int64(i + 1)
	}
	valID := map[string]int64{}
	for i, v := range e.values {
		valID[v] = int64(i + 1)
	}
	for _, a := range e.targets {
		attrs, err := e.app.AttributeKeeper.GetAllAttributesAddr(ctx, e.addrs[a])
		if err != nil {
			panic(err)
		}
		for _, at := range attrs {
			r := c16Rec{acct: e.idOf(at.Address), typ: int64(at.AttributeType)}
			if id, ok := nameID[at.Name]; ok {
				r.name = id
			} else {
				r.name = -1
			}
			if id, ok := valID[string(at.Value)]; ok {
				r.val = id
			} else {
				r.val = -1
			}
			if at.ExpirationDate != nil {
				x := at.ExpirationDate.Unix()
				r.exp = &x
			}
			o.recs = append(o.recs, r)
		}
	}
	sort.Slice(o.recs, func(i, j int) bool {
		a, b := o.recs[i].key(), o.recs[j].key()
		for k := 0; k < 3; k++ {
			if a[k] != b[k] {
				return a[k] < b[k]
			}
		}
		return false
	})
	for _, n := range e.names {
		as, err := e.app.AttributeKeeper.AccountsByAttribute(ctx, n)
		if err != nil {
			panic(err)
		}
		var ids []int64
		for _, a := range as {
			ids = append(ids, e.idOf(a.String()))
		}
		sort.Slice(ids, func(i, j int) bool { return ids[i] < ids[j] })
		o.accts = append(o.accts, ids)
		rec, err := e.app.NameKeeper.GetRecordByName(ctx, n)
		if err != nil || rec == nil {
			o.owners = append(o.owners, -1)
		} else {
			o.owners = append(o.owners, e.idOf(rec.Address))
		}
	}
	return o
}

func c16OptZ(x *int64) string {
	if x == nil {
		return "None"
	}
	return "(Some " + zI64(*x) + ")"
}

func (o c16Obs) term() string {
	var recs []string
	for _, r := range o.recs {
		recs = append(recs, fmt.Sprintf("(%s, %s, %s, %s, %s)", zI64(r.acct), zI64(r.name), zI64(r.val), zI64(r.typ), strings.Trim(c16OptZ(r.exp), "()")))
	}
	var accts []string
	for _, l := range o.accts {
		var xs []string
		for _, a := range l {
			xs = append(xs, zI64(a))
		}
		accts = append(accts, coqList(xs))
	}
	var owners []string
	for _, ow := range o.owners {
		if ow < 0 {
			owners = append(owners, "None")
		} else {
			owners = append(owners, "Some "+zI64(ow))
		}
	}
	return "Obs " + coqBool(o.ok) + " " + coqList(recs) + " " + coqList(accts) + " " + coqList(owners)
}

// one operation: its Coq term and how to run it on the real code
type c16Op struct {
	kind string
	term string
	desc map[string]any
	run  func(ctx sdk.Context) error // nil for blocks
	dt   int64
	sp   int64 // spelling class of the name in the request
}

func (e *c16Env) handle(ctx sdk.Context, msg sdk.Msg) error {
	if vb, ok := msg.(sdk.HasValidateBasic); ok {
		if err := vb.ValidateBasic(); err != nil {
			return err
		}
	}
	h := e.app.MsgServiceRouter().Handler(msg)
	if h == nil {
		return fmt.Errorf("no handler for %T", msg)
	}
	_, err := h(ctx, msg)
	return err
}

// spell renders name id n in spelling class sp (see "Spelling" in coq/Attribute/Attribute.v):
// 0 canonical; 1 spaces around the whole name; 2 other letter case (maybe with outer spaces);
// 3 spaces inside, next to the dot; 4 inside spaces and other letter case.
func (e *c16Env) spell(n, sp int64, variant int) string {
	seg, root := e.segs[n-1], e.root
	upper := func(x string) string {
		switch variant % 3 {
		case 0:
			return strings.ToUpper(x)
		case 1:
			return strings.ToUpper(x[:1]) + x[1:]
		default:
			return x[:1] + strings.ToUpper(x[1:])
		}
	}
	switch sp {
	case 1:
		return []string{" ", "  ", "\t"}[variant%3] + seg + "." + root + []string{" ", "", " \t"}[(variant/3)%3]
	case 2:
		name := []string{upper(seg) + "." + root, seg + "." + strings.ToUpper(root), upper(seg) + "." + upper(root)}[(variant/3)%3]
		if (variant/9)%2 == 1 {
			name = " " + name + " "
		}
		return name
	case 3:
		return []string{seg + " ." + root, seg + ". " + root, seg + " . " + root}[variant%3]
	case 4:
		return []string{upper(seg) + " ." + root, seg + ". " + strings.ToUpper(root), upper(seg) + " . " + upper(root)}[variant%3]
	default:
		return seg + "." + root
	}
}

func c16Time(x *int64) *time.Time {
	if x == nil {
		return nil
	}
	t := time.Unix(*x, 0).UTC()
	return &t
}

func (e *c16Env) opBind(n, owner int64) c16Op {
	return c16Op{kind: "bind", term: fmt.Sprintf("OBind %d %d", n, owner),
		desc: map[string]any{"op": "bind_name", "name": n, "owner": owner},
		run: func(ctx sdk.Context) error {
			return e.handle(ctx, &nametypes.MsgBindNameRequest{
				Parent: nametypes.NameRecord{Name: e.root, Address: e.addrStr(9), Restricted: true},
				Record: nametypes.NameRecord{Name: e.segs[n-1], Address: e.addrStr(owner), Restricted: true}})
		}}
}

func (e *c16Env) opModify(auth, n, owner int64) c16Op {
	return c16Op{kind: "modify_name", term: fmt.Sprintf("OModifyName %d %d %d", auth, n, owner),
		desc: map[string]any{"op": "modify_name", "authority": auth, "name": n, "new_owner": owner},
		run: func(ctx sdk.Context) error {
			return e.handle(ctx, &nametypes.MsgModifyNameRequest{Authority: e.addrStr(auth),
				Record: nametypes.NameRecord{Name: e.names[n-1], Address: e.addrStr(owner), Restricted: true}})
		}}
}

func (e *c16Env) opDeleteName(c, n int64) c16Op {
	return c16Op{kind: "delete_name", term: fmt.Sprintf("ODeleteName %d %d", c, n),
		desc: map[string]any{"op": "delete_name", "caller": c, "name": n},
		run: func(ctx sdk.Context) error {
			return e.handle(ctx, &nametypes.MsgDeleteNameRequest{Record: nametypes.NameRecord{Name: e.names[n-1], Address: e.addrStr(c)}})
		}}
}

func (e *c16Env) opAdd(c, a, n, v, ty int64, exp *int64, sp int64, vr int) c16Op {
	name := e.spell(n, sp, vr)
	return c16Op{kind: "add", sp: sp, term: fmt.Sprintf("OAdd %d %d %d %d %d %s %d", c, a, n, v, ty, c16OptZ(exp), sp),
		desc: map[string]any{"op": "add", "caller": c, "account": a, "name": n, "name_as_sent": name, "value": v, "type": ty, "exp": exp},
		run: func(ctx sdk.Context) error {
			return e.handle(ctx, &attrtypes.MsgAddAttributeRequest{Name: name, Value: []byte(e.values[v-1]),
				AttributeType: attrtypes.AttributeType(ty), Account: e.addrStr(a), Owner: e.addrStr(c), ExpirationDate: c16Time(exp)})
		}}
}

func (e *c16Env) opUpdate(c, a, n, ov, oty, nv, nty int64, sp int64, vr int) c16Op {
	name := e.spell(n, sp, vr)
	return c16Op{kind: "update", sp: sp, term: fmt.Sprintf("OUpdate %d %d %d %d %d %d %d %d", c, a, n, ov, oty, nv, nty, sp),
		desc: map[string]any{"op": "update", "caller": c, "account": a, "name": n, "name_as_sent": name, "orig_value": ov, "orig_type": oty, "value": nv, "type": nty},
		run: func(ctx sdk.Context) error {
			return e.handle(ctx, &attrtypes.MsgUpdateAttributeRequest{Name: name, OriginalValue: []byte(e.values[ov-1]), UpdateValue: []byte(e.values[nv-1]),
				OriginalAttributeType: attrtypes.AttributeType(oty), UpdateAttributeType: attrtypes.AttributeType(nty), Account: e.addrStr(a), Owner: e.addrStr(c)})
		}}
}

func (e *c16Env) opUpdateExp(c, a, n, v int64, exp *int64, sp int64, vr int) c16Op {
	name := e.spell(n, sp, vr)
	return c16Op{kind: "update_exp", sp: sp, term: fmt.Sprintf("OUpdateExp %d %d %d %d %s %d", c, a, n, v, c16OptZ(exp), sp),
		desc: map[string]any{"op": "update_expiration", "caller": c, "account": a, "name": n, "name_as_sent": name, "value": v, "exp": exp},
		run: func(ctx sdk.Context) error {
			return e.handle(ctx, &attrtypes.MsgUpdateAttributeExpirationRequest{Name: name, Value: []byte(e.values[v-1]),
				ExpirationDate: c16Time(exp), Account: e.addrStr(a), Owner: e.addrStr(c)})
		}}
}

func (e *c16Env) opDelete(c, a, n int64, sp int64, vr int) c16Op {
	name := e.spell(n, sp, vr)
	return c16Op{kind: "delete", sp: sp, term: fmt.Sprintf("ODelete %d %d %d %d", c, a, n, sp),
		desc: map[string]any{"op": "delete", "caller": c, "account": a, "name": n, "name_as_sent": name},
		run: func(ctx sdk.Context) error {
			return e.handle(ctx, &attrtypes.MsgDeleteAttributeRequest{Name: name, Account: e.addrStr(a), Owner: e.addrStr(c)})
		}}
}

func (e *c16Env) opDeleteDistinct(c, a, n, v int64, sp int64, vr int) c16Op {
	name := e.spell(n, sp, vr)
	return c16Op{kind: "delete_distinct", sp: sp, term: fmt.Sprintf("ODeleteDistinct %d %d %d %d %d", c, a, n, v, sp),
		desc: map[string]any{"op": "delete_distinct", "caller": c, "account": a, "name": n, "name_as_sent": name, "value": v},
		run: func(ctx sdk.Context) error {
			return e.handle(ctx, &attrtypes.MsgDeleteDistinctAttributeRequest{Name: name, Value: []byte(e.values[v-1]), Account: e.addrStr(a), Owner: e.addrStr(c)})
		}}
}

func (e *c16Env) opPurge(c, n int64) c16Op {
	return c16Op{kind: "purge", term: fmt.Sprintf("OPurge %d %d", c, n),
		desc: map[string]any{"op": "purge (keeper)", "caller": c, "name": n},
		run: func(ctx sdk.Context) error {
			return e.app.AttributeKeeper.PurgeAttribute(ctx, e.names[n-1], e.addrs[c])
		}}
}

func (e *c16Env) opBlock(dt int64) c16Op {
	return c16Op{kind: "block", term: fmt.Sprintf("OBlock %d", dt), dt: dt,
		desc: map[string]any{"op": "block", "dt": dt}}
}

var c16GoodTypes = []int64{2, 3, 5, 6, 7, 8}
var c16BadTypes = []int64{0, 1, 4}

// generator state for one history (everything read back from the implementation's observations)
type c16Gen struct {
	r       *rand.Rand
	e       *c16Env
	now     int64
	last    c16Obs
	expPool []int64 // every expiration ever submitted (targets for block times)
}

func (g *c16Gen) pick(xs []int64) int64 { return xs[g.r.Intn(len(xs))] }

func (g *c16Gen) goodType() int64 {
	if g.r.Intn(25) == 0 {
		return g.pick(c16BadTypes)
	}
	return g.pick(c16GoodTypes)
}

func (g *c16Gen) boundNames() []int64 {
	var out []int64
	for i, o := range g.last.owners {
		if o >= 0 {
			out = append(out, int64(i+1))
		}
	}
	return out
}

func (g *c16Gen) anyName() int64 {
	if b := g.boundNames(); len(b) > 0 && g.r.Intn(12) != 0 {
		return g.pick(b)
	}
	return g.pick(g.e.nameIDs)
}

// caller for a write under name n: mostly the current owner
func (g *c16Gen) caller(n int64) int64 {
	ow := g.last.owners[n-1]
	if ow > 0 && g.r.Intn(100) < 82 {
		return ow
	}
	return g.pick([]int64{1, 2, 3, 4})
}

// callerSp: with a non-canonical spelling the caller is a non-owner half of the time (a request
// whose name merely looks different must not get past the ownership check)
func (g *c16Gen) callerSp(n, sp int64) int64 {
	if sp != 0 && g.r.Intn(2) == 0 {
		return g.pick([]int64{1, 2, 3, 4})
	}
	return g.caller(n)
}

func (g *c16Gen) newExp() *int64 {
	switch x := g.r.Intn(100); {
	case x < 22:
		return nil
	case x < 30: // in the past (rejected) or exactly now (accepted)
		v := g.now - int64(g.r.Intn(3))
		g.expPool = append(g.expPool, v)
		return &v
	default:
		v := g.now + int64(g.r.Intn(40))
		if g.r.Intn(4) == 0 {
			v = g.now + int64(g.r.Intn(6))
		}
		g.expPool = append(g.expPool, v)
		return &v
	}
}

// sp picks how the name is spelled in the request: canonical most of the time
func (g *c16Gen) sp() (int64, int) {
	if g.r.Intn(100) < 70 {
		return 0, 0
	}
	return int64(g.r.Intn(4) + 1), g.r.Intn(54)
}

func (g *c16Gen) existing() (c16Rec, bool) {
	if len(g.last.recs) == 0 {
		return c16Rec{}, false
	}
	return g.last.recs[g.r.Intn(len(g.last.recs))], true
}

func (g *c16Gen) blockDt() int64 {
	// half of the blocks aim at an expiration that was submitted at some point: land exactly on
	// it, one second past it, or one second before it
	if len(g.expPool) > 0 && g.r.Intn(2) == 0 {
		t := g.expPool[g.r.Intn(len(g.expPool))] + int64(g.r.Intn(3)) - 1
		if t >= g.now {
			return t - g.now
		}
	}
	return []int64{0, 1, 1, 2, 3, 5, 8, 13, 21}[g.r.Intn(9)]
}

func (g *c16Gen) next() c16Op {
	e := g.e
	free := []int64{}
	for i, o := range g.last.owners {
		if o < 0 {
			free = append(free, int64(i+1))
		}
	}
	x := g.r.Intn(100)
	switch {
	case x < 5 || (len(free) == len(e.nameIDs)):
		n := g.pick(e.nameIDs)
		if len(free) > 0 && g.r.Intn(8) != 0 {
			n = g.pick(free)
		}
		return e.opBind(n, g.pick([]int64{1, 2, 3}))
	case x < 9:
		n := g.anyName()
		auth := g.caller(n)
		if g.r.Intn(15) == 0 {
			auth = 0 // governance
		}
		owner := g.pick([]int64{1, 2, 3, 1, 2, 3, 4})
		return e.opModify(auth, n, owner)
	case x < 12:
		n := g.anyName()
		return e.opDeleteName(g.caller(n), n)
	case x < 42:
		// add; a third of the time re-add an attribute that exists (same account, name, value)
		if rec, ok := g.existing(); ok && g.r.Intn(3) == 0 {
			ty := rec.typ
			if g.r.Intn(2) == 0 {
				ty = g.goodType()
			}
			if rec.exp != nil && *rec.exp >= g.now && g.r.Intn(4) == 0 { // same expiration, maybe another type
				same := *rec.exp
				sp, vr := g.sp()
				return e.opAdd(g.caller(rec.name), rec.acct, rec.name, rec.val, ty, &same, sp, vr)
			}
			sp, vr := g.sp()
			return e.opAdd(g.caller(rec.name), rec.acct, rec.name, rec.val, ty, g.newExp(), sp, vr)
		}
		n := g.anyName()
		sp, vr := g.sp()
		return e.opAdd(g.caller(n), g.pick(e.targets), n, int64(g.r.Intn(3)+1), g.goodType(), g.newExp(), sp, vr)
	case x < 52:
		if rec, ok := g.existing(); ok && g.r.Intn(8) != 0 {
			oty := rec.typ
			if g.r.Intn(8) == 0 {
				oty = g.pick(c16GoodTypes)
			}
			sp, vr := g.sp()
			return e.opUpdate(g.caller(rec.name), rec.acct, rec.name, rec.val, oty, int64(g.r.Intn(3)+1), g.goodType(), sp, vr)
		}
		n := g.anyName()
		sp, vr := g.sp()
		return e.opUpdate(g.caller(n), g.pick(e.targets), n, int64(g.r.Intn(3)+1), g.pick(c16GoodTypes), int64(g.r.Intn(3)+1), g.goodType(), sp, vr)
	case x < 62:
		if rec, ok := g.existing(); ok && g.r.Intn(8) != 0 {
			sp, vr := g.sp()
			return e.opUpdateExp(g.caller(rec.name), rec.acct, rec.name, rec.val, g.newExp(), sp, vr)
		}
		n := g.anyName()
		sp, vr := g.sp()
		return e.opUpdateExp(g.caller(n), g.pick(e.targets), n, int64(g.r.Intn(3)+1), g.newExp(), sp, vr)
	case x < 67:
		if rec, ok := g.existing(); ok && g.r.Intn(6) != 0 {
			sp, vr := g.sp()
			return e.opDelete(g.callerSp(rec.name, sp), rec.acct, rec.name, sp, vr)
		}
		n := g.anyName()
		sp, vr := g.sp()
		return e.opDelete(g.callerSp(n, sp), g.pick(e.targets), n, sp, vr)
	case x < 73:
		if rec, ok := g.existing(); ok && g.r.Intn(6) != 0 {
			sp, vr := g.sp()
			return e.opDeleteDistinct(g.callerSp(rec.name, sp), rec.acct, rec.name, rec.val, sp, vr)
		}
		n := g.anyName()
		sp, vr := g.sp()
		return e.opDeleteDistinct(g.callerSp(n, sp), g.pick(e.targets), n, int64(g.r.Intn(3)+1), sp, vr)
	case x < 75:
		n := g.anyName()
		return e.opPurge(g.caller(n), n)
	default:
		return e.opBlock(g.blockDt())
	}
}

// directed opening: the shape behind the repaired defect (an identical attribute re-added with a
// later / no expiration, or added again after a purge, then a block between the two times)
func (g *c16Gen) scenario() []c16Op {
	e := g.e
	n := g.pick(e.nameIDs)
	ow := g.pick([]int64{1, 2, 3})
	a := g.pick(e.targets)
	v := int64(g.r.Intn(3) + 1)
	e1 := g.now + int64(g.r.Intn(5)+1)
	var e2 *int64
	if g.r.Intn(3) != 0 {
		x := e1 + int64(g.r.Intn(10)+1)
		e2 = &x
		g.expPool = append(g.expPool, x)
	}
	g.expPool = append(g.expPool, e1)
	sp1, vr1 := g.sp()
	sp2, vr2 := g.sp()
	ops := []c16Op{e.opBind(n, ow), e.opAdd(ow, a, n, v, g.pick(c16GoodTypes), &e1, sp1, vr1)}
	switch g.r.Intn(3) {
	case 0:
		ops = append(ops, e.opPurge(ow, n))
	case 1:
		ops = append(ops, e.opDeleteName(ow, n), e.opBind(n, ow))
	}
	ops = append(ops, e.opAdd(ow, a, n, v, g.pick(c16GoodTypes), e2, sp2, vr2))
	dt := e1 - g.now + 1
	if e2 != nil && g.r.Intn(2) == 0 {
		dt = *e2 - g.now // exactly at the new expiration: still not due
	}
	ops = append(ops, e.opBlock(dt))
	return ops
}

// second directed opening: an identical attribute re-added with the SAME expiration (only the
// type changes, or nothing at all), so that the old and the new queue entry are one and the same
// store key; then the block time passes that expiration and the attribute must be gone.
// Variants: 0 one re-add with another type; 1 re-added twice; 2 re-add then update-expiration to
// the same time; 3 re-add under a non-canonical spelling of the name.
func (g *c16Gen) scenarioSameExp(variant int) []c16Op {
	e := g.e
	n := g.pick(e.nameIDs)
	ow := g.pick([]int64{1, 2, 3})
	a := g.pick(e.targets)
	v := int64(g.r.Intn(3) + 1)
	e1 := g.now + int64(g.r.Intn(6)+1)
	g.expPool = append(g.expPool, e1)
	t1 := g.pick(c16GoodTypes)
	t2 := g.pick(c16GoodTypes)
	for t2 == t1 {
		t2 = g.pick(c16GoodTypes)
	}
	ops := []c16Op{e.opBind(n, ow), e.opAdd(ow, a, n, v, t1, &e1, 0, 0)}
	if g.r.Intn(3) == 0 { // some time passes first, not reaching e1
		ops = append(ops, e.opBlock(int64(g.r.Intn(int(e1-g.now)))))
	}
	switch variant {
	case 1:
		ops = append(ops, e.opAdd(ow, a, n, v, t2, &e1, 0, 0), e.opAdd(ow, a, n, v, t1, &e1, 0, 0))
	case 2:
		ops = append(ops, e.opAdd(ow, a, n, v, t2, &e1, 0, 0), e.opUpdateExp(ow, a, n, v, &e1, 0, 0))
	case 3:
		ops = append(ops, e.opAdd(ow, a, n, v, t2, &e1, int64(g.r.Intn(4)+1), g.r.Intn(54)))
	default:
		ops = append(ops, e.opAdd(ow, a, n, v, t2, &e1, 0, 0))
	}
	// the dts are relative to the block time at which each block op runs
	elapsed := int64(0)
	for _, o := range ops {
		elapsed += o.dt
	}
	left := e1 - g.now - elapsed
	if g.r.Intn(2) == 0 { // first land exactly on e1 (not due yet), then one second later
		ops = append(ops, e.opBlock(left), e.opBlock(1))
	} else {
		ops = append(ops, e.opBlock(left+1+int64(g.r.Intn(3))))
	}
	return ops
}

func TestC16(t *testing.T) {
	r := newRand("C16")
	w := NewCaseWriter("C16", "PV.Corr.C16", "check_all", 250)
	app, baseCtx := newApp(t)

	env := &c16Env{app: app, addrs: map[int64]sdk.AccAddress{}, ids: map[string]int64{},
		gov:  authtypes.NewModuleAddress(govtypes.ModuleName).String(),
		root: "c16", segs: []string{"aa", "bb", "cc"}, values: []string{"11", "22", "33"},
		targets: []int64{1, 2, 3}, nameIDs: []int64{1, 2, 3}, haveAcct: []int64{1, 2, 3, 9}}
	for _, id := range []int64{1, 2, 3, 4, 9} {
		env.addrs[id] = addrN(160 + int(id))
		env.ids[env.addrs[id].String()] = id
	}
	env.ids[env.gov] = 0
	for _, id := range env.haveAcct { // address 4 owns names at times but never has an account
		ensureAccount(app, baseCtx, env.addrs[id])
	}
	for _, s := range env.segs {
		env.names = append(env.names, s+"."+env.root)
	}
	if err := app.NameKeeper.SetNameRecord(baseCtx, env.root, env.addrs[9], true); err != nil {
		t.Fatalf("root name: %v", err)
	}
	t0 := int64(1_700_000_000)
	baseCtx = baseCtx.WithBlockTime(time.Unix(t0, 0).UTC())

	nHist := scale(240, 4000)
	for h := 0; h < nHist; h++ {
		ctx, _ := baseCtx.CacheContext()
		g := &c16Gen{r: r, e: env, now: t0}
		g.last = env.observe(ctx, true)
		nSteps := 12 + r.Intn(scale(30, 50))
		var pending []c16Op
		if r.Intn(3) == 0 {
			pending = g.scenario()
		}
		if h%5 == 1 { // a fixed fifth of the histories: identical re-add with the same expiration
			pending = g.scenarioSameExp((h / 5) % 4)
			w.Count("scripted_same_expiration_readd")
			w.Count(fmt.Sprintf("scripted_same_expiration_readd_variant_%d", (h/5)%4))
		}
		sameExpKeys := map[[3]int64]int64{} // keys re-added with an unchanged expiration -> that time
		var steps []string
		var descs []map[string]any
		nontrivial := false
		stale := map[[3]int64][]int64{} // key -> expirations that were replaced while the record stayed
		for i := 0; i < nSteps; i++ {
			var op c16Op
			if len(pending) > 0 {
				op, pending = pending[0], pending[1:]
			} else {
				op = g.next()
			}
			var ok bool
			if op.run == nil {
				g.now += op.dt
				ctx = ctx.WithBlockTime(time.Unix(g.now, 0).UTC())
				err := try(func() error { attribute.BeginBlocker(ctx, app.AttributeKeeper); return nil })
				ok = err == nil
			} else {
				cctx, write := ctx.CacheContext()
				err := try(func() error { return op.run(cctx) })
				ok = err == nil
				if ok {
					write()
				}
			}
			cur := env.observe(ctx, ok)
			w.Count("op_" + op.kind)
			if op.sp != 0 {
				w.Count(fmt.Sprintf("spelling_class_%d", op.sp))
				if ok {
					w.Count("accepted_noncanonical_spelling")
				}
			}
			if ok {
				w.Count("accepted_" + op.kind)
				w.Count("accepted")
			} else {
				w.Count("rejected")
			}
			// bookkeeping for the statistics and the non-triviality rule
			prevByKey := map[[3]int64]c16Rec{}
			for _, rec := range g.last.recs {
				prevByKey[rec.key()] = rec
			}
			curByKey := map[[3]int64]c16Rec{}
			for _, rec := range cur.recs {
				curByKey[rec.key()] = rec
			}
			switch op.kind {
			case "add":
				if ok {
					for k, rec := range curByKey {
						if old, was := prevByKey[k]; was && old.exp != nil && c16SameExp(old.exp, rec.exp) && op.term == c16AddTermFor(op, k) {
							w.Count("readd_identical_same_expiration")
							sameExpKeys[k] = *old.exp
							nontrivial = true
						}
						if old, was := prevByKey[k]; was && (old.typ != rec.typ || !c16SameExp(old.exp, rec.exp)) {
							w.Count("readd_identical_changed")
							nontrivial = true
							if old.exp != nil {
								stale[k] = append(stale[k], *old.exp)
							}
						}
					}
				}
			case "purge", "delete_name":
				if ok {
					for k, old := range prevByKey {
						if _, still := curByKey[k]; !still && old.exp != nil {
							stale[k] = append(stale[k], *old.exp)
						}
					}
				}
			case "block":
				gone := 0
				for k := range prevByKey {
					if _, still := curByKey[k]; !still {
						gone++
					}
				}
				for k, at := range sameExpKeys {
					if _, was := prevByKey[k]; !was {
						delete(sameExpKeys, k)
						continue
					}
					if cr, still := curByKey[k]; !still {
						w.Count("same_expiration_readd_then_expired")
						delete(sameExpKeys, k)
					} else if cr.exp == nil || *cr.exp != at {
						delete(sameExpKeys, k)
					}
				}
				if gone > 0 {
					w.Count("blocks_that_expired_something")
					w.CountN("attributes_expired", int64(gone))
					nontrivial = true
				}
				for k, rec := range curByKey {
					for _, se := range stale[k] {
						if se < g.now && (rec.exp == nil || *rec.exp >= g.now) {
							w.Count("stale_queue_entry_crossed_while_attribute_alive")
							nontrivial = true
							break
						}
					}
				}
				for k, ss := range stale { // entries before now have been swept
					var keep []int64
					for _, se := range ss {
						if se >= g.now {
							keep = append(keep, se)
						}
					}
					stale[k] = keep
				}
			}
			g.last = cur
			steps = append(steps, "("+op.term+", "+cur.term()+")")
			d := op.desc
			d["accepted"] = ok
			descs = append(descs, d)
		}
		term := fmt.Sprintf("History %d %s %s %s %s", t0, "[1; 2; 3; 9]", "[1; 2; 3]", "[1; 2; 3]", "[\n    "+strings.Join(steps, ";\n    ")+"]")
		w.Add(term, map[string]any{"t0": t0, "steps": descs})
		w.Count("histories")
		w.CountN("steps", int64(nSteps))
		if nontrivial {
			hh := fnv.New64a()
			hh.Write([]byte(term))
			w.Nontrivial(fmt.Sprintf("%x", hh.Sum64()))
		}
	}
	w.Flush(t)
}

// c16AddTermFor: the add op's own key (only the record the op addressed counts as re-added)
func c16AddTermFor(op c16Op, k [3]int64) string {
	d := op.desc
	if d["account"] == k[0] && d["name"] == k[1] && d["value"] == k[2] {
		return op.term
	}
	return ""
}

func c16SameExp(a, b *int64) bool {
	if a == nil || b == nil {
		return a == nil && b == nil
	}
	return *a == *b
}
