//go:build c06

package harness

import (
	"fmt"
	"math/rand"
	"time"

	sdk "github.com/cosmos/cosmos-sdk/types"
	authtypes "github.com/cosmos/cosmos-sdk/x/auth/types"
	"github.com/cosmos/cosmos-sdk/x/authz"
	distrtypes "github.com/cosmos/cosmos-sdk/x/distribution/types"
	minttypes "github.com/cosmos/cosmos-sdk/x/mint/types"
	banktypes "github.com/cosmos/cosmos-sdk/x/bank/types"
	"github.com/cosmos/cosmos-sdk/x/gov"
	govv1 "github.com/cosmos/cosmos-sdk/x/gov/types/v1"
	stakingtypes "github.com/cosmos/cosmos-sdk/x/staking/types"

	"github.com/provenance-io/provenance/x/exchange"
	markertypes "github.com/provenance-io/provenance/x/marker/types"
	"github.com/provenance-io/provenance/x/quarantine"
	"github.com/provenance-io/provenance/x/sanction"
)

// Route matrix of C06: one account, brought into some sanction status through the real gov and
// sanction modules, attempts to move funds by every route the harness knows; the case records the
// IsSanctioned answer before the attempt, accept/reject and the balance of the moved denom.

type c06Route struct {
	name  string
	denom string // "" = bond denom
	// prep runs before the account's sanction status is set up (e.g. places the ask order that a
	// later settlement fills)
	prep func(rc *c06RouteCtx, amt int64) error
	run  func(rc *c06RouteCtx, amt int64) error
	// flow: the route moves nothing out of the watched account's balance (funds come back to it,
	// are released, or are paid out of another account): it must be accepted whatever the account's
	// status, and the balance must not go down
	flow bool
	// markerAcct: the watched account is the marker account of [denom] itself (its escrowed supply)
	markerAcct bool
}

type c06RouteCtx struct {
	e      *c06Env
	ctx    sdk.Context
	acct   sdk.AccAddress
	other  sdk.AccAddress
	helper sdk.AccAddress // funded proposer / second input / buyer
	admin  sdk.AccAddress
	denom  string
	market uint32
	askID  uint64
}

func (rc *c06RouteCtx) deliver(msg sdk.Msg) error { return c06Deliver(rc.e.app, rc.ctx, msg) }

func (rc *c06RouteCtx) mkMarker(denom string, supply int64, forced bool, grants ...markertypes.AccessGrant) error {
	maddr := markertypes.MustGetMarkerAddress(denom)
	ma := markertypes.NewMarkerAccount(authtypes.NewBaseAccountWithAddress(maddr), sdk.NewInt64Coin(denom, supply), rc.admin, grants,
		markertypes.StatusProposed, markertypes.MarkerType_RestrictedCoin, true, true, forced, nil)
	return rc.e.app.MarkerKeeper.AddFinalizeAndActivateMarker(rc.ctx, ma)
}

func c06Routes() []c06Route {
	coins := func(d string, v int64) sdk.Coins { return sdk.NewCoins(sdk.NewInt64Coin(d, v)) }
	return []c06Route{
		{name: "MsgSend", run: func(rc *c06RouteCtx, amt int64) error {
			return rc.deliver(banktypes.NewMsgSend(rc.acct, rc.other, coins(rc.denom, amt)))
		}},
		{name: "MsgMultiSend", run: func(rc *c06RouteCtx, amt int64) error {
			return rc.deliver(banktypes.NewMsgMultiSend(banktypes.NewInput(rc.acct, coins(rc.denom, amt)),
				[]banktypes.Output{banktypes.NewOutput(rc.other, coins(rc.denom, amt))}))
		}},
		{name: "one of two inputs (InputOutputCoinsProv)", run: func(rc *c06RouteCtx, amt int64) error {
			return rc.e.app.BankKeeper.InputOutputCoinsProv(rc.ctx,
				[]banktypes.Input{banktypes.NewInput(rc.helper, coins(rc.denom, 7)), banktypes.NewInput(rc.acct, coins(rc.denom, amt))},
				[]banktypes.Output{banktypes.NewOutput(rc.other, coins(rc.denom, amt+7))})
		}},
		{name: "MsgDelegate", run: func(rc *c06RouteCtx, amt int64) error {
			return rc.deliver(stakingtypes.NewMsgDelegate(rc.acct.String(), rc.e.valAddr, sdk.NewInt64Coin(rc.denom, amt)))
		}},
		{name: "gov MsgDeposit", prep: func(rc *c06RouteCtx, amt int64) error {
			msg, err := govv1.NewMsgSubmitProposal(nil, coins(rc.denom, 1), rc.helper.String(), "c06 metadata", "c06 route", "c06 route", false)
			if err != nil {
				return err
			}
			return rc.deliver(msg)
		}, run: func(rc *c06RouteCtx, amt int64) error {
			// the text proposal made by prep is the first one of this case
			var pid uint64
			_ = rc.e.app.GovKeeper.Proposals.Walk(rc.ctx, nil, func(id uint64, p govv1.Proposal) (bool, error) {
				if p.Title == "c06 route" && (p.Status == govv1.StatusDepositPeriod || p.Status == govv1.StatusVotingPeriod) {
					pid = id
					return true, nil
				}
				return false, nil
			})
			if pid == 0 { // the set-up let it expire: a fresh one
				next, err := rc.e.app.GovKeeper.ProposalID.Peek(rc.ctx)
				if err != nil {
					return err
				}
				msg, err := govv1.NewMsgSubmitProposal(nil, coins(rc.denom, 1), rc.helper.String(), "c06 metadata", "c06 route", "c06 route", false)
				if err != nil {
					return err
				}
				if err := rc.deliver(msg); err != nil {
					return fmt.Errorf("helper proposal: %w", err)
				}
				pid = next
			}
			return rc.deliver(govv1.NewMsgDeposit(rc.acct, pid, coins(rc.denom, amt)))
		}},
		{name: "gov MsgSubmitProposal initial deposit", run: func(rc *c06RouteCtx, amt int64) error {
			msg, err := govv1.NewMsgSubmitProposal(nil, coins(rc.denom, amt), rc.acct.String(), "c06 metadata", "c06 own", "c06 own", false)
			if err != nil {
				return err
			}
			return rc.deliver(msg)
		}},
		{name: "fee transfer (account to fee collector)", run: func(rc *c06RouteCtx, amt int64) error {
			return rc.e.app.BankKeeper.SendCoinsFromAccountToModule(rc.ctx, rc.acct, authtypes.FeeCollectorName, coins(rc.denom, amt))
		}},
		{name: "restricted marker transfer by the holder", denom: "rstcsix", run: func(rc *c06RouteCtx, amt int64) error {
			return rc.deliver(markertypes.NewMsgTransferRequest(rc.acct, rc.acct, rc.other, sdk.NewInt64Coin(rc.denom, amt)))
		}},
		{name: "forced marker transfer by an administrator on its behalf", denom: "frccsix", run: func(rc *c06RouteCtx, amt int64) error {
			return rc.deliver(markertypes.NewMsgTransferRequest(rc.admin, rc.acct, rc.other, sdk.NewInt64Coin(rc.denom, amt)))
		}},
		{name: "exchange settlement of its ask order by the market", denom: "assetcsix", prep: func(rc *c06RouteCtx, amt int64) error {
			if err := rc.deliver(&exchange.MsgCreateAskRequest{AskOrder: exchange.AskOrder{MarketId: rc.market, Seller: rc.acct.String(),
				Assets: sdk.NewInt64Coin(rc.denom, amt), Price: sdk.NewInt64Coin("pricecsix", 10)}}); err != nil {
				return err
			}
			rc.e.app.ExchangeKeeper.IterateAddressOrders(rc.ctx, rc.acct, func(id uint64, _ byte) bool { rc.askID = id; return false })
			return nil
		}, run: func(rc *c06RouteCtx, amt int64) error {
			if rc.askID == 0 {
				return fmt.Errorf("no ask order")
			}
			if err := rc.deliver(&exchange.MsgCreateBidRequest{BidOrder: exchange.BidOrder{MarketId: rc.market, Buyer: rc.helper.String(),
				Assets: sdk.NewInt64Coin(rc.denom, amt), Price: sdk.NewInt64Coin("pricecsix", 10)}}); err != nil {
				return fmt.Errorf("bid: %w", err)
			}
			var bidID uint64
			rc.e.app.ExchangeKeeper.IterateAddressOrders(rc.ctx, rc.helper, func(id uint64, _ byte) bool { bidID = id; return false })
			return rc.deliver(&exchange.MsgMarketSettleRequest{Admin: rc.admin.String(), MarketId: rc.market, AskOrderIds: []uint64{rc.askID}, BidOrderIds: []uint64{bidID}})
		}},
		{name: "authz MsgExec of a MsgSend from the granter", prep: func(rc *c06RouteCtx, amt int64) error {
			g, err := authz.NewMsgGrant(rc.acct, rc.helper, authz.NewGenericAuthorization(sdk.MsgTypeURL(&banktypes.MsgSend{})), nil)
			if err != nil {
				return err
			}
			return rc.deliver(g)
		}, run: func(rc *c06RouteCtx, amt int64) error {
			ex := authz.NewMsgExec(rc.helper, []sdk.Msg{banktypes.NewMsgSend(rc.acct, rc.other, coins(rc.denom, amt))})
			return rc.deliver(&ex)
		}},
		{name: "marker withdraw out of the marker account", denom: "mkwcsix", markerAcct: true, run: func(rc *c06RouteCtx, amt int64) error {
			return rc.deliver(markertypes.NewMsgWithdrawRequest(rc.admin, rc.other, rc.denom, coins(rc.denom, amt)))
		}},
		{name: "marker burn out of the marker account", denom: "mkbcsix", markerAcct: true, run: func(rc *c06RouteCtx, amt int64) error {
			return rc.deliver(markertypes.NewMsgBurnRequest(rc.admin, sdk.NewInt64Coin(rc.denom, amt)))
		}},
		{name: "exchange payment of the source accepted by the target", prep: func(rc *c06RouteCtx, amt int64) error {
			return rc.deliver(&exchange.MsgCreatePaymentRequest{Payment: exchange.Payment{Source: rc.acct.String(), SourceAmount: coins(rc.denom, amt), Target: rc.helper.String(), ExternalId: "c06"}})
		}, run: func(rc *c06RouteCtx, amt int64) error {
			return rc.deliver(&exchange.MsgAcceptPaymentRequest{Payment: exchange.Payment{Source: rc.acct.String(), SourceAmount: coins(rc.denom, amt), Target: rc.helper.String(), ExternalId: "c06"}})
		}},
		{name: "exchange payment accepted by the target who pays the target amount", prep: func(rc *c06RouteCtx, amt int64) error {
			return rc.deliver(&exchange.MsgCreatePaymentRequest{Payment: exchange.Payment{Source: rc.helper.String(), SourceAmount: coins("pricecsix", 5), Target: rc.acct.String(), TargetAmount: coins(rc.denom, amt), ExternalId: "c06"}})
		}, run: func(rc *c06RouteCtx, amt int64) error {
			return rc.deliver(&exchange.MsgAcceptPaymentRequest{Payment: exchange.Payment{Source: rc.helper.String(), SourceAmount: coins("pricecsix", 5), Target: rc.acct.String(), TargetAmount: coins(rc.denom, amt), ExternalId: "c06"}})
		}},
		{name: "exchange payment of the source rejected by the target (hold released)", flow: true, prep: func(rc *c06RouteCtx, amt int64) error {
			return rc.deliver(&exchange.MsgCreatePaymentRequest{Payment: exchange.Payment{Source: rc.acct.String(), SourceAmount: coins(rc.denom, amt), Target: rc.helper.String(), ExternalId: "c06"}})
		}, run: func(rc *c06RouteCtx, amt int64) error {
			return rc.deliver(&exchange.MsgRejectPaymentRequest{Target: rc.helper.String(), Source: rc.acct.String(), ExternalId: "c06"})
		}},
		{name: "MsgUndelegate", flow: true, prep: func(rc *c06RouteCtx, amt int64) error {
			return rc.deliver(stakingtypes.NewMsgDelegate(rc.acct.String(), rc.e.valAddr, sdk.NewInt64Coin(rc.denom, amt)))
		}, run: func(rc *c06RouteCtx, amt int64) error {
			return rc.deliver(stakingtypes.NewMsgUndelegate(rc.acct.String(), rc.e.valAddr, sdk.NewInt64Coin(rc.denom, amt)))
		}},
		{name: "MsgWithdrawDelegatorReward", flow: true, prep: func(rc *c06RouteCtx, amt int64) error {
			if err := rc.deliver(stakingtypes.NewMsgDelegate(rc.acct.String(), rc.e.valAddr, sdk.NewInt64Coin(rc.denom, amt))); err != nil {
				return err
			}
			// a later block in which the validator earns rewards
			rc.ctx = rc.ctx.WithBlockHeight(rc.ctx.BlockHeight() + 1)
			rew := coins(rc.denom, 1_000_000_000)
			if err := rc.e.app.BankKeeper.MintCoins(rc.ctx, minttypes.ModuleName, rew); err != nil {
				return err
			}
			if err := rc.e.app.BankKeeper.SendCoinsFromModuleToModule(rc.ctx, minttypes.ModuleName, distrtypes.ModuleName, rew); err != nil {
				return err
			}
			vb, err := sdk.ValAddressFromBech32(rc.e.valAddr)
			if err != nil {
				return err
			}
			val, err := rc.e.app.StakingKeeper.GetValidator(rc.ctx, vb)
			if err != nil {
				return err
			}
			return rc.e.app.DistrKeeper.AllocateTokensToValidator(rc.ctx, val, sdk.NewDecCoinsFromCoins(rew...))
		}, run: func(rc *c06RouteCtx, amt int64) error {
			rc.ctx = rc.ctx.WithBlockHeight(rc.ctx.BlockHeight() + 1)
			return rc.deliver(distrtypes.NewMsgWithdrawDelegatorReward(rc.acct.String(), rc.e.valAddr))
		}},
		{name: "quarantine: the receiver accepts funds this account sent before", flow: true, prep: func(rc *c06RouteCtx, amt int64) error {
			if err := rc.deliver(quarantine.NewMsgOptIn(rc.other)); err != nil {
				return err
			}
			return rc.deliver(banktypes.NewMsgSend(rc.acct, rc.other, coins(rc.denom, amt)))
		}, run: func(rc *c06RouteCtx, amt int64) error {
			if rec := rc.e.app.QuarantineKeeper.GetQuarantineRecord(rc.ctx, rc.other, rc.acct); rec == nil || !rec.Coins.IsAllGTE(coins(rc.denom, amt)) {
				return fmt.Errorf("no quarantine record")
			}
			b0 := rc.e.app.BankKeeper.GetBalance(rc.ctx, rc.other, rc.denom).Amount.Int64()
			if err := rc.deliver(quarantine.NewMsgAccept(rc.other, []string{rc.acct.String()}, false)); err != nil {
				return err
			}
			if got := rc.e.app.BankKeeper.GetBalance(rc.ctx, rc.other, rc.denom).Amount.Int64(); got != b0+amt {
				return fmt.Errorf("accepted funds not received: %d -> %d", b0, got)
			}
			return nil
		}},
	}
}

type c06How struct {
	name  string
	setup func(rc *c06RouteCtx) error
}

func c06Hows() []c06How {
	govAuth := func(rc *c06RouteCtx) string { return rc.e.govAddr.String() }
	submit := func(rc *c06RouteCtx, dep int64, msgs ...sdk.Msg) (uint64, error) {
		id, err := rc.e.app.GovKeeper.ProposalID.Peek(rc.ctx)
		if err != nil {
			return 0, err
		}
		msg, err := govv1.NewMsgSubmitProposal(msgs, sdk.NewCoins(sdk.NewInt64Coin(rc.e.bond, dep)), rc.helper.String(), "", "c06 how", "c06 how", false)
		if err != nil {
			return 0, err
		}
		return id, rc.deliver(msg)
	}
	endBlockAt := func(rc *c06RouteCtx, dt int64) error {
		rc.ctx = rc.ctx.WithBlockTime(rc.ctx.BlockTime().Add(time.Duration(dt) * time.Second))
		return gov.EndBlocker(rc.ctx, &rc.e.app.GovKeeper)
	}
	vote := func(rc *c06RouteCtx, id uint64, opt govv1.VoteOption) error {
		return rc.deliver(govv1.NewMsgVote(rc.e.voter, id, opt, ""))
	}
	return []c06How{
		{"never sanctioned", func(rc *c06RouteCtx) error { return nil }},
		{"permanently sanctioned", func(rc *c06RouteCtx) error { return rc.deliver(sanction.NewMsgSanction(govAuth(rc), rc.acct)) }},
		{"temporarily sanctioned, proposal in deposit period", func(rc *c06RouteCtx) error {
			_, err := submit(rc, 300, sanction.NewMsgSanction(govAuth(rc), rc.acct))
			return err
		}},
		{"temporarily sanctioned, proposal in voting period", func(rc *c06RouteCtx) error {
			_, err := submit(rc, c06GovMin, sanction.NewMsgSanction(govAuth(rc), rc.acct))
			return err
		}},
		{"sanction proposal below the immediate minimum", func(rc *c06RouteCtx) error {
			_, err := submit(rc, 299, sanction.NewMsgSanction(govAuth(rc), rc.acct))
			return err
		}},
		{"permanently sanctioned, temporarily unsanctioned", func(rc *c06RouteCtx) error {
			if err := rc.deliver(sanction.NewMsgSanction(govAuth(rc), rc.acct)); err != nil {
				return err
			}
			_, err := submit(rc, 400, sanction.NewMsgUnsanction(govAuth(rc), rc.acct))
			return err
		}},
		{"earlier proposal unsanctions, later proposal sanctions", func(rc *c06RouteCtx) error {
			if _, err := submit(rc, 400, sanction.NewMsgUnsanction(govAuth(rc), rc.acct)); err != nil {
				return err
			}
			_, err := submit(rc, 300, sanction.NewMsgSanction(govAuth(rc), rc.acct))
			return err
		}},
		{"earlier proposal sanctions, later proposal unsanctions", func(rc *c06RouteCtx) error {
			if _, err := submit(rc, 300, sanction.NewMsgSanction(govAuth(rc), rc.acct)); err != nil {
				return err
			}
			_, err := submit(rc, 400, sanction.NewMsgUnsanction(govAuth(rc), rc.acct))
			return err
		}},
		{"sanction proposal passed", func(rc *c06RouteCtx) error {
			id, err := submit(rc, c06GovMin, sanction.NewMsgSanction(govAuth(rc), rc.acct))
			if err != nil {
				return err
			}
			if err := vote(rc, id, govv1.OptionYes); err != nil {
				return err
			}
			return endBlockAt(rc, 100000)
		}},
		{"sanction proposal rejected", func(rc *c06RouteCtx) error {
			id, err := submit(rc, c06GovMin, sanction.NewMsgSanction(govAuth(rc), rc.acct))
			if err != nil {
				return err
			}
			if err := vote(rc, id, govv1.OptionNo); err != nil {
				return err
			}
			return endBlockAt(rc, 100000)
		}},
		{"sanction proposal expired in deposit period", func(rc *c06RouteCtx) error {
			if _, err := submit(rc, 300, sanction.NewMsgSanction(govAuth(rc), rc.acct)); err != nil {
				return err
			}
			return endBlockAt(rc, 100000)
		}},
		{"sanction proposal cancelled by its proposer", func(rc *c06RouteCtx) error {
			id, err := submit(rc, 300, sanction.NewMsgSanction(govAuth(rc), rc.acct))
			if err != nil {
				return err
			}
			return rc.deliver(govv1.NewMsgCancelProposal(id, rc.helper.String()))
		}},
	}
}

func c06RouteMatrix(e *c06Env, r *rand.Rand, w *CaseWriter) {
	app := e.app
	base, _ := e.base.CacheContext()
	admin := addrN(7003)
	ensureAccount(app, base, admin)
	fund(e.t, app, base, admin, sdk.NewCoins(sdk.NewInt64Coin(e.bond, 1_000_000)))
	mid, err := app.ExchangeKeeper.CreateMarket(base, exchange.Market{
		MarketDetails: exchange.MarketDetails{Name: "c06"}, AcceptingOrders: true, AllowUserSettlement: true,
		AccessGrants: []exchange.AccessGrant{{Address: admin.String(), Permissions: exchange.AllPermissions()}},
	})
	if err != nil {
		e.t.Fatalf("create market: %v", err)
	}
	if err := app.SanctionKeeper.SetParams(base, &sanction.Params{
		ImmediateSanctionMinDeposit:   sdk.NewCoins(sdk.NewInt64Coin(e.bond, 300)),
		ImmediateUnsanctionMinDeposit: sdk.NewCoins(sdk.NewInt64Coin(e.bond, 400))}); err != nil {
		e.t.Fatal(err)
	}
	gp, _ := app.GovKeeper.Params.Get(base)
	gp.MinDeposit = sdk.NewCoins(sdk.NewInt64Coin(e.bond, c06GovMin)) // the matrix deposits in the bond denom only
	d, v := 1000*time.Second, 1000*time.Second
	gp.MaxDepositPeriod, gp.VotingPeriod = &d, &v
	if err := app.GovKeeper.Params.Set(base, gp); err != nil {
		e.t.Fatal(err)
	}
	n := 0
	rounds := scale(1, 6)
	for round := 0; round < rounds; round++ {
		for _, rt := range c06Routes() {
			for _, how := range c06Hows() {
				for variant := 0; variant < 3; variant++ {
					n++
					ctx, _ := base.CacheContext()
					rc := &c06RouteCtx{e: e, ctx: ctx, acct: addrN(700000 + n*4), other: addrN(700001 + n*4), helper: addrN(700002 + n*4), admin: admin, market: mid}
					rc.denom = rt.denom
					if rc.denom == "" {
						rc.denom = e.bond
					}
					for _, a := range []sdk.AccAddress{rc.acct, rc.other, rc.helper} {
						ensureAccount(app, ctx, a)
					}
					// an account that has signed a transaction (forced marker transfers require it)
					if acc := app.AccountKeeper.GetAccount(ctx, rc.acct); acc != nil {
						_ = acc.SetSequence(1)
						app.AccountKeeper.SetAccount(ctx, acc)
					}
					fund(e.t, app, ctx, rc.helper, sdk.NewCoins(sdk.NewInt64Coin(e.bond, 100_000), sdk.NewInt64Coin("pricecsix", 1000)))
					before := int64(500 + r.Intn(5000))
					switch rc.denom {
					case "rstcsix", "frccsix":
						grants := []markertypes.AccessGrant{
							*markertypes.NewAccessGrant(admin, markertypes.AccessList{markertypes.Access_Withdraw, markertypes.Access_Admin, markertypes.Access_Transfer, markertypes.Access_ForceTransfer}),
							*markertypes.NewAccessGrant(rc.acct, markertypes.AccessList{markertypes.Access_Transfer})}
						if err := rc.mkMarker(rc.denom, before+100, rc.denom == "frccsix", grants...); err != nil {
							w.Count("route_setup_failed:marker")
							continue
						}
						if err := rc.deliver(markertypes.NewMsgWithdrawRequest(admin, rc.acct, rc.denom, sdk.NewCoins(sdk.NewInt64Coin(rc.denom, before)))); err != nil {
							w.Count("route_setup_failed:withdraw")
							continue
						}
					case "mkwcsix", "mkbcsix":
						// the watched account is the marker account itself, holding its whole supply
						grants := []markertypes.AccessGrant{
							*markertypes.NewAccessGrant(admin, markertypes.AccessList{markertypes.Access_Withdraw, markertypes.Access_Admin, markertypes.Access_Burn, markertypes.Access_Mint})}
						if err := rc.mkMarker(rc.denom, before, false, grants...); err != nil {
							w.Count("route_setup_failed:marker")
							continue
						}
						rc.acct = markertypes.MustGetMarkerAddress(rc.denom)
					default:
						fund(e.t, app, ctx, rc.acct, sdk.NewCoins(sdk.NewInt64Coin(rc.denom, before)))
						if rt.name == "one of two inputs (InputOutputCoinsProv)" {
							fund(e.t, app, ctx, rc.helper, sdk.NewCoins(sdk.NewInt64Coin(rc.denom, 7)))
						}
					}
					var amt int64
					switch variant {
					case 0:
						amt = 1 + r.Int63n(before/2)
					case 1:
						amt = before
					default:
						amt = before + 1
					}
					if rt.prep != nil {
						if variant == 2 {
							continue // an order / deposit larger than the balance cannot be prepared
						}
						if err := try(func() error { return rt.prep(rc, amt) }); err != nil {
							w.Count("route_setup_failed:prep " + rt.name)
							continue
						}
					}
					if err := try(func() error { return how.setup(rc) }); err != nil {
						// (a changed tree may refuse a set-up step; the case is skipped and counted)
						w.Count("route_setup_failed:" + how.name)
						continue
					}
					sanctioned := app.SanctionKeeper.IsSanctionedAddr(rc.ctx, rc.acct)
					balBefore := app.BankKeeper.GetBalance(rc.ctx, rc.acct, rc.denom).Amount.Int64()
					cctx, write := rc.ctx.CacheContext()
					outer := rc.ctx
					rc.ctx = cctx
					err := try(func() error { return rt.run(rc, amt) })
					rc.ctx = outer
					if err == nil {
						write()
					}
					balAfter := app.BankKeeper.GetBalance(rc.ctx, rc.acct, rc.denom).Amount.Int64()
					term := fmt.Sprintf("CRoute %s %s %s %s %s %s %s", coqStr(rt.name), coqStr(how.name), coqBool(sanctioned), zI64(balBefore), zI64(amt), coqBool(err == nil), zI64(balAfter))
					if rt.flow {
						term = fmt.Sprintf("CFlow %s %s %s %s %s %s", coqStr(rt.name), coqStr(how.name), coqBool(sanctioned), zI64(balBefore), coqBool(err == nil), zI64(balAfter))
					}
					w.Add(term, map[string]any{"kind": "route", "route": rt.name, "status_setup": how.name, "sanctioned": sanctioned, "balance_before": balBefore,
						"amount": amt, "accepted": err == nil, "balance_after": balAfter, "error": fmt.Sprint(err)})
					w.Count("routes")
					w.Count("route:" + rt.name)
					if err == nil {
						w.Count("routes_accepted")
					} else {
						w.Count("routes_rejected")
					}
					if sanctioned {
						w.Count("routes_from_sanctioned_account")
						w.Nontrivial(fmt.Sprintf("route/%s/%s/%d/%d", rt.name, how.name, balBefore, amt))
					}
				}
			}
		}
	}
}
