//go:build c04

package harness

// C04 — the marker module's bank send restriction.
//
// A "world" is a scratch copy of the chain state in which the REAL keepers have created ~30
// markers covering every (kind, type, status, required-attribute set) class with random access
// grants and deny lists, a set of accounts with attributes, and funded senders.  A query is
// (sender, receiver, transfer agents, context flags, coins); for each query the harness calls
// Keeper.SendRestrictionFn directly and the bank's SendCoins / InputOutputCoins / DelegateCoins,
// and emits the slice of the world the decision can depend on as the abstract configuration.

import (
	"encoding/json"
	"fmt"
	"math/rand"
	"sort"
	"strings"
	"testing"

	sdkmath "cosmossdk.io/math"
	sdk "github.com/cosmos/cosmos-sdk/types"
	authtypes "github.com/cosmos/cosmos-sdk/x/auth/types"
	banktypes "github.com/cosmos/cosmos-sdk/x/bank/types"
	distrtypes "github.com/cosmos/cosmos-sdk/x/distribution/types"
	govtypes "github.com/cosmos/cosmos-sdk/x/gov/types"
	minttypes "github.com/cosmos/cosmos-sdk/x/mint/types"
	stakingtypes "github.com/cosmos/cosmos-sdk/x/staking/types"
	ibctransfertypes "github.com/cosmos/ibc-go/v8/modules/apps/transfer/types"

	simapp "github.com/provenance-io/provenance/app"
	internalsdk "github.com/provenance-io/provenance/internal/sdk"
	attrtypes "github.com/provenance-io/provenance/x/attribute/types"
	"github.com/provenance-io/provenance/x/marker"
	markerkeeper "github.com/provenance-io/provenance/x/marker/keeper"
	markertypes "github.com/provenance-io/provenance/x/marker/types"
	"github.com/provenance-io/provenance/x/quarantine"
	"github.com/provenance-io/provenance/x/sanction"
)

const (
	c04Absent = iota
	c04Squatted
	c04Marker
)

var c04AttrNames = []string{"kyc.cfour.pb", "aa.kyc.cfour.pb", "cfour.pb", "xcfour.pb", "other.pb", "kyc.cfour.pb.zz"}

var c04ReqSets = [][]string{
	nil,
	{"kyc.cfour.pb"},
	{"*.cfour.pb"},
	{"kyc.cfour.pb", "*.kyc.cfour.pb"},
	{"*.pb"},
	{"other.pb", "*.cfour.pb"},
}

var c04Statuses = []markertypes.MarkerStatus{markertypes.StatusProposed, markertypes.StatusFinalized,
	markertypes.StatusActive, markertypes.StatusCancelled, markertypes.StatusDestroyed}

var c04StatusCoq = map[markertypes.MarkerStatus]string{markertypes.StatusProposed: "SProposed", markertypes.StatusFinalized: "SFinalized",
	markertypes.StatusActive: "SActive", markertypes.StatusCancelled: "SCancelled", markertypes.StatusDestroyed: "SDestroyed"}

var c04AccessCoq = map[markertypes.Access]string{markertypes.Access_Mint: "AcMint", markertypes.Access_Burn: "AcBurn",
	markertypes.Access_Deposit: "AcDeposit", markertypes.Access_Withdraw: "AcWithdraw", markertypes.Access_Delete: "AcDelete",
	markertypes.Access_Admin: "AcAdmin", markertypes.Access_Transfer: "AcTransfer", markertypes.Access_ForceTransfer: "AcForceTransfer"}

type c04Grant struct {
	addr  sdk.AccAddress
	perms []markertypes.Access
}

type c04MarkerCfg struct {
	idx        int // 1-based index = Coq denom number
	denom      string
	addr       sdk.AccAddress
	kind       int
	restricted bool
	status     markertypes.MarkerStatus
	reqAttrs   []string
	grants     []c04Grant // in AccessControl order
	deny       map[string]bool
	forced     bool
	funded     bool // the marker account holds coins (can be a sender in the bank paths)
	// life: how the status was reached.  "" = stored with that status directly (as genesis import does);
	// otherwise the REAL lifecycle: "cancel-proposed" (proposed -> MsgCancel by the manager, coins of the
	// denom stay in circulation), "cancel-active" (activated -> MsgCancel, needs the whole supply in escrow),
	// "delete" (... -> MsgDelete: supply burned, status destroyed), "remove" (... -> the marker module's
	// BeginBlocker removes the destroyed marker account: no account is left).
	life     string
	unfunded bool // nobody outside the marker's escrow holds this denom (the lifecycle demands it)
}

type c04Actor struct {
	role   string
	addr   sdk.AccAddress
	exists bool // an account exists at the address
	funded bool
	module bool
	macc   string // registered module account name, if any
}

type c04World struct {
	ctx     sdk.Context
	markers []*c04MarkerCfg
	byAddr  map[string]*c04MarkerCfg
	attrs   map[string][]string
	// sanction and quarantine state realised with the real keepers
	sanctioned map[string]bool
	optin      map[string]bool
	auto       map[string]bool // receiver + sender
	market     uint32
	nscopes    int
}

// extraDenom registers a denom without a marker (e.g. a scope's value-owner coin) so that it gets a
// Coq denom number.
func (w *c04World) extraDenom(denom string) *c04MarkerCfg {
	addr := markertypes.MustGetMarkerAddress(denom)
	if m, ok := w.byAddr[string(addr)]; ok {
		return m
	}
	m := &c04MarkerCfg{idx: len(w.markers) + 1, denom: denom, addr: addr, kind: c04Absent, deny: map[string]bool{}, unfunded: true}
	w.markers = append(w.markers, m)
	w.byAddr[string(addr)] = m
	return m
}

type c04Env struct {
	t       *testing.T
	app     *simapp.App
	r       *rand.Rand
	w       *CaseWriter
	owner   sdk.AccAddress
	plain   []*c04Actor
	agents  []*c04Actor
	recv    []*c04Actor
	bypass  []*c04Actor // bypass accounts other than the fee collector
	feeColl *c04Actor
	mmod    *c04Actor
	ibcmod  *c04Actor
	ghost   *c04Actor // no account, no funds
	sanct   *c04Actor   // sanctioned in every world (funded before the sanction)
	quars   []*c04Actor // quarantined in every world: [0] holds "kyc.cfour.pb", [1] auto-accepts plain0 and agent0, [2] no attributes
	holder  *c04Actor   // the quarantine funds holder (a required-attribute bypass address)
	attrRecv *c04Actor  // ordinary account without attributes; group (k) gives it attributes per case
	actors  map[string]*c04Actor
	order   []*c04Actor
	intern  map[string]int
	bypassList []sdk.AccAddress
	accepted, denied int64
	sampled map[string]bool
	relExtra []sdk.AccAddress // further addresses whose grants / deny entries / attributes the configuration must show
}

func (e *c04Env) actor(role string, addr sdk.AccAddress, exists, funded, module bool) *c04Actor {
	a := &c04Actor{role: role, addr: addr, exists: exists, funded: funded, module: module}
	e.actors[string(addr)] = a
	e.order = append(e.order, a)
	e.intern[string(addr)] = len(e.intern) + 1
	return a
}

// c04Fund mints and moves coins with the keeper-level SendCoins (module accounts are blocked
// recipients for SendCoinsFromModuleToAccount).
func c04Fund(t *testing.T, app *simapp.App, ctx sdk.Context, addr sdk.AccAddress, coins sdk.Coins) {
	if err := app.BankKeeper.MintCoins(ctx, minttypes.ModuleName, coins); err != nil {
		t.Fatalf("mint: %v", err)
	}
	if err := app.BankKeeper.SendCoins(ctx, authtypes.NewModuleAddress(minttypes.ModuleName), addr, coins); err != nil {
		t.Fatalf("fund %s: %v", addr, err)
	}
}

func c04Perm(p markertypes.Access) string { return c04AccessCoq[p] }

// ---------- world construction (real keepers) ----------

func (e *c04Env) buildWorld(base sdk.Context, wi int) *c04World {
	t, app, r := e.t, e.app, e.r
	ctx, _ := base.CacheContext()
	w := &c04World{ctx: ctx, byAddr: map[string]*c04MarkerCfg{}, attrs: map[string][]string{},
		sanctioned: map[string]bool{}, optin: map[string]bool{}, auto: map[string]bool{}}

	// marker classes
	add := func(kind int, restricted bool, status markertypes.MarkerStatus, req []string) {
		idx := len(w.markers) + 1
		denom := fmt.Sprintf("cfour%02d", idx)
		m := &c04MarkerCfg{idx: idx, denom: denom, addr: markertypes.MustGetMarkerAddress(denom), kind: kind,
			restricted: restricted, status: status, reqAttrs: req, deny: map[string]bool{}}
		w.markers = append(w.markers, m)
		w.byAddr[string(m.addr)] = m
	}
	last := func() *c04MarkerCfg { return w.markers[len(w.markers)-1] }
	add(c04Absent, false, 0, nil)
	add(c04Squatted, false, 0, nil) // the shape of the finding fixed by f4bdf3346 (findings/C04.md)
	for _, st := range c04Statuses {
		add(c04Marker, false, st, nil)
		if st == markertypes.StatusCancelled {
			last().life = "cancel-proposed" // real MsgCancel of a proposed marker; the denom stays in circulation
		}
		if st == markertypes.StatusActive {
			for _, rs := range c04ReqSets {
				add(c04Marker, true, st, rs)
			}
		} else {
			add(c04Marker, true, st, nil)
			add(c04Marker, true, st, c04ReqSets[1+r.Intn(len(c04ReqSets)-1)])
			if st == markertypes.StatusCancelled {
				last().life = "cancel-proposed"
			}
		}
	}
	// the rest of the real lifecycle needs the whole supply in the marker's escrow: denoms nobody else holds
	add(c04Marker, true, markertypes.StatusCancelled, c04ReqSets[r.Intn(len(c04ReqSets))])
	last().life, last().unfunded = "cancel-active", true
	add(c04Marker, r.Intn(2) == 0, markertypes.StatusDestroyed, c04ReqSets[r.Intn(len(c04ReqSets))])
	last().life, last().unfunded = "delete", true
	add(c04Marker, true, markertypes.StatusDestroyed, nil)
	last().life, last().unfunded = "remove", true
	for i := 0; i < 9; i++ { // more active restricted markers: the access matrix is what varies
		add(c04Marker, true, markertypes.StatusActive, c04ReqSets[r.Intn(len(c04ReqSets))])
	}
	// marker-less denoms that sort AFTER the marker denoms (the first two sort before them): the
	// per-coin loops must not stop at a coin without a marker, whatever its position
	add(c04Absent, false, 0, nil)
	add(c04Squatted, false, 0, nil)

	// accounts
	for _, a := range e.order {
		if a.macc != "" {
			app.AccountKeeper.GetModuleAccount(ctx, a.macc) // creates the module account when missing
		} else if a.exists {
			ensureAccount(app, ctx, a.addr)
		}
	}
	ensureAccount(app, ctx, e.owner)

	// funding happens under the context bypass: it is set-up, not the behaviour under test.
	var all sdk.Coins
	for _, m := range w.markers {
		if !m.unfunded {
			all = all.Add(sdk.NewInt64Coin(m.denom, 1000))
		}
	}
	bctx := markertypes.WithBypass(ctx)
	c04Fund(t, app, bctx, e.feeColl.addr, all) // first: nothing is in the way yet
	for _, a := range e.order {
		if a.funded && a != e.feeColl {
			c04Fund(t, app, bctx, a.addr, all)
		}
	}
	for _, m := range w.markers {
		if m.kind == c04Squatted || (m.kind == c04Marker && r.Intn(3) != 0 && m.life != "delete" && m.life != "remove") {
			c04Fund(t, app, bctx, m.addr, all) // creates a plain account at the marker address
			m.funded = true
		}
	}

	// names and attributes (real name + attribute keepers)
	for _, n := range c04AttrNames {
		if err := app.NameKeeper.SetNameRecord(ctx, n, e.owner, false); err != nil {
			t.Fatalf("SetNameRecord %s: %v", n, err)
		}
	}
	setAttrs := func(addr sdk.AccAddress, names []string) {
		for _, n := range names {
			err := app.AttributeKeeper.SetAttribute(ctx, attrtypes.Attribute{Name: n, Value: []byte("v"), Address: addr.String(),
				AttributeType: attrtypes.AttributeType_String}, e.owner)
			if err != nil {
				t.Fatalf("SetAttribute %s: %v", n, err)
			}
		}
		w.attrs[string(addr)] = names
	}
	subset := func(p float64) []string {
		var out []string
		for _, n := range c04AttrNames {
			if r.Float64() < p {
				out = append(out, n)
			}
		}
		return out
	}
	fixed := [][]string{nil, {"kyc.cfour.pb"}, {"aa.kyc.cfour.pb"}, {"cfour.pb", "xcfour.pb", "kyc.cfour.pb.zz"}, {"other.pb", "kyc.cfour.pb"}}
	for i, a := range e.recv {
		if i < len(fixed) && wi == 0 {
			setAttrs(a.addr, fixed[i])
		} else if a.exists {
			setAttrs(a.addr, subset(0.4))
		}
	}
	for _, a := range e.plain {
		setAttrs(a.addr, subset(0.3))
	}
	setAttrs(e.bypass[0].addr, subset(0.3))
	setAttrs(e.sanct.addr, subset(0.3))
	setAttrs(e.quars[0].addr, []string{"kyc.cfour.pb"})
	setAttrs(e.quars[1].addr, []string{"aa.kyc.cfour.pb", "other.pb"})

	// markers (real marker keeper)
	grantable := append(append(append([]*c04Actor{}, e.plain...), e.agents...), e.bypass[0], e.recv[0], e.sanct, e.holder)
	deliver := func(msg sdk.Msg) error {
		return try(func() error {
			if vb, ok := msg.(interface{ ValidateBasic() error }); ok {
				if err := vb.ValidateBasic(); err != nil {
					return err
				}
			}
			_, err := app.MsgServiceRouter().Handler(msg)(ctx, msg)
			return err
		})
	}
	// the marker to be removed goes first: the begin blocker that removes it would also remove every other
	// destroyed marker (those driven to that status by MsgDelete and those stored with it directly)
	var ordered []*c04MarkerCfg
	for _, m := range w.markers {
		if m.kind == c04Marker && m.life == "remove" {
			ordered = append(ordered, m)
		}
	}
	ordered = append(ordered, nil) // marks the begin block
	for _, m := range w.markers {
		if m.kind == c04Marker && m.life != "" && m.life != "remove" {
			ordered = append(ordered, m)
		}
	}
	for _, m := range w.markers {
		if m.kind == c04Marker && m.life == "" {
			ordered = append(ordered, m)
		}
	}
	for _, m := range ordered {
		if m == nil {
			marker.BeginBlocker(ctx, app.MarkerKeeper, app.BankKeeper) // the REAL begin blocker
			for _, x := range w.markers {
				if x.life == "remove" {
					if acc := app.AccountKeeper.GetAccount(ctx, x.addr); acc != nil {
						t.Fatalf("destroyed marker %s survived the begin blocker", x.denom)
					}
					x.kind, x.grants, x.deny = c04Absent, nil, map[string]bool{}
					e.w.Count("lifecycle_removed_by_begin_block")
				}
			}
			continue
		}
		var grants []markertypes.AccessGrant
		for _, a := range grantable {
			var perms []markertypes.Access
			for _, p := range []markertypes.Access{markertypes.Access_Deposit, markertypes.Access_Withdraw} {
				if r.Float64() < 0.45 {
					perms = append(perms, p)
				}
			}
			if m.restricted && r.Float64() < 0.4 {
				perms = append(perms, markertypes.Access_Transfer)
			}
			if m.restricted && r.Float64() < 0.25 {
				perms = append(perms, markertypes.Access_ForceTransfer)
			}
			if r.Float64() < 0.2 {
				perms = append(perms, markertypes.Access_Admin)
			}
			if len(perms) == 0 {
				continue
			}
			r.Shuffle(len(perms), func(i, j int) { perms[i], perms[j] = perms[j], perms[i] })
			m.grants = append(m.grants, c04Grant{addr: a.addr, perms: perms})
			grants = append(grants, markertypes.AccessGrant{Address: a.addr.String(), Permissions: perms})
		}
		if m.life != "" { // the owner drives the lifecycle; it is never an endpoint or agent of a query
			grants = append(grants, markertypes.AccessGrant{Address: e.owner.String(), Permissions: []markertypes.Access{markertypes.Access_Delete}})
		}
		m.forced = m.restricted && r.Intn(3) == 0
		mk := func(status markertypes.MarkerStatus) *markertypes.MarkerAccount {
			return markertypes.NewMarkerAccount(authtypes.NewBaseAccountWithAddress(m.addr), sdk.NewInt64Coin(m.denom, 10_000_000),
				e.owner, grants, status, map[bool]markertypes.MarkerType{false: markertypes.MarkerType_Coin, true: markertypes.MarkerType_RestrictedCoin}[m.restricted],
				false, true, m.forced, m.reqAttrs)
		}
		var err error
		switch {
		case m.life == "cancel-proposed":
			if err = app.MarkerKeeper.AddMarkerAccount(ctx, mk(markertypes.StatusProposed)); err == nil {
				err = deliver(markertypes.NewMsgCancelRequest(m.denom, e.owner))
			}
			e.w.Count("lifecycle_cancelled_from_proposed")
		case m.life != "":
			if err = app.MarkerKeeper.AddFinalizeAndActivateMarker(ctx, mk(markertypes.StatusProposed)); err == nil {
				err = deliver(markertypes.NewMsgCancelRequest(m.denom, e.owner))
			}
			if err == nil && m.life != "cancel-active" {
				err = deliver(markertypes.NewMsgDeleteRequest(m.denom, e.owner))
			}
			e.w.Count("lifecycle_" + m.life)
		}
		if m.life != "" {
			if err != nil {
				t.Fatalf("lifecycle %s of marker %s: %v", m.life, m.denom, err)
			}
		} else {
		switch m.status {
		case markertypes.StatusProposed:
			err = app.MarkerKeeper.AddMarkerAccount(ctx, mk(markertypes.StatusProposed))
		case markertypes.StatusFinalized:
			if err = app.MarkerKeeper.AddMarkerAccount(ctx, mk(markertypes.StatusProposed)); err == nil {
				err = app.MarkerKeeper.FinalizeMarker(ctx, e.owner, m.denom)
			}
		case markertypes.StatusActive:
			err = app.MarkerKeeper.AddFinalizeAndActivateMarker(ctx, mk(markertypes.StatusProposed))
		default: // cancelled / destroyed: stored with that status, as genesis import does
			err = app.MarkerKeeper.AddMarkerAccount(ctx, mk(m.status))
		}
		}
		if err != nil {
			t.Fatalf("creating marker %s (%v): %v", m.denom, m.status, err)
		}
		got, gerr := app.MarkerKeeper.GetMarker(ctx, m.addr)
		if gerr != nil || got == nil || got.GetStatus() != m.status ||
			(got.GetMarkerType() == markertypes.MarkerType_RestrictedCoin) != m.restricted {
			t.Fatalf("marker %s not realised as configured: %v %v", m.denom, got, gerr)
		}
		// deny list
		for _, a := range grantable {
			if r.Float64() < 0.25 {
				app.MarkerKeeper.AddSendDeny(ctx, m.addr, a.addr)
				m.deny[string(a.addr)] = true
			}
		}
	}

	// accounts that sign metadata messages must not look like smart contracts (sequence 0, no key);
	// the same sequence decides whether funds may be forced out of an account (canForceTransferFrom)
	for _, a := range append(append(append([]*c04Actor{}, e.plain[:4]...), e.agents...), e.sanct) {
		acc := app.AccountKeeper.GetAccount(ctx, a.addr)
		if err := acc.SetSequence(1); err != nil {
			t.Fatal(err)
		}
		app.AccountKeeper.SetAccount(ctx, acc)
	}

	// sanction and quarantine state (real keepers), after all funding
	sanctionIt := func(a sdk.AccAddress) {
		if err := app.SanctionKeeper.SanctionAddresses(ctx, a); err != nil {
			t.Fatalf("sanction: %v", err)
		}
		w.sanctioned[string(a)] = true
	}
	optIn := func(a sdk.AccAddress) {
		if err := app.QuarantineKeeper.SetOptIn(ctx, a); err != nil {
			t.Fatalf("quarantine opt-in: %v", err)
		}
		w.optin[string(a)] = true
	}
	autoAccept := func(to, from sdk.AccAddress) {
		app.QuarantineKeeper.SetAutoResponse(ctx, to, from, quarantine.AUTO_RESPONSE_ACCEPT)
		w.auto[string(to)+string(from)] = true
	}
	sanctionIt(e.sanct.addr)
	for _, q := range e.quars {
		optIn(q.addr)
	}
	autoAccept(e.quars[1].addr, e.plain[0].addr)
	autoAccept(e.quars[1].addr, e.agents[0].addr)
	app.QuarantineKeeper.SetAutoResponse(ctx, e.quars[2].addr, e.plain[0].addr, quarantine.AUTO_RESPONSE_DECLINE) // declines are still quarantined
	if wi > 0 { // further worlds: random sanction / quarantine state over the ordinary actors
		for _, a := range e.plain[1:] {
			if r.Intn(6) == 0 {
				sanctionIt(a.addr)
			}
		}
		for _, a := range append(append([]*c04Actor{}, e.recv...), e.plain[4], e.plain[5]) {
			if a.exists && r.Intn(3) == 0 {
				optIn(a.addr)
				for _, f := range e.plain {
					if r.Intn(4) == 0 {
						autoAccept(a.addr, f.addr)
					}
				}
			}
		}
	}
	return w
}

// ---------- queries ----------

type c04Query struct {
	from, to   sdk.AccAddress
	agents     []sdk.AccAddress
	bypass, fg bool
	sbypass    bool // sanction.WithBypass (no site in the application sets it; the flag exists)
	qbypass    bool // quarantine.WithBypass (exchange transfers, accepting quarantined funds)
	amt        sdk.Coins
	toModule   string // when set, the "send" bank path is SendCoinsFromAccountToModule(from, toModule)
}

func (e *c04Env) qctx(ctx sdk.Context, q *c04Query) sdk.Context {
	if len(q.agents) > 0 {
		ctx = markertypes.WithTransferAgents(ctx, q.agents...)
	}
	if q.bypass {
		ctx = markertypes.WithBypass(ctx)
	}
	if q.fg {
		ctx = internalsdk.WithFeeGrantInUse(ctx)
	}
	if q.sbypass {
		ctx = sanction.WithBypass(ctx)
	}
	if q.qbypass {
		ctx = quarantine.WithBypass(ctx)
	}
	return ctx
}

func (e *c04Env) coqAddr(w *c04World, a sdk.AccAddress) string {
	if m, ok := w.byAddr[string(a)]; ok {
		return fmt.Sprintf("(M %d)", m.idx)
	}
	n, ok := e.intern[string(a)]
	if !ok {
		n = len(e.intern) + 1
		e.intern[string(a)] = n
	}
	return fmt.Sprintf("(A %d)", n)
}

func (e *c04Env) role(w *c04World, a sdk.AccAddress) string {
	if m, ok := w.byAddr[string(a)]; ok {
		return "marker-account:" + m.denom
	}
	if ac, ok := e.actors[string(a)]; ok {
		return ac.role
	}
	return a.String()
}

func (e *c04Env) accountExists(w *c04World, a sdk.AccAddress) bool {
	if m, ok := w.byAddr[string(a)]; ok {
		return m.kind != c04Absent
	}
	if ac, ok := e.actors[string(a)]; ok {
		return ac.exists
	}
	return false
}

func (e *c04Env) funded(w *c04World, a sdk.AccAddress) bool {
	if m, ok := w.byAddr[string(a)]; ok {
		return m.funded
	}
	if ac, ok := e.actors[string(a)]; ok {
		return ac.funded
	}
	return false
}

// configTerm renders the slice of the world that the decision for these endpoints / denoms can
// depend on, plus a description of it.
func (e *c04Env) configTerm(w *c04World, from sdk.AccAddress, tos []sdk.AccAddress, agents []sdk.AccAddress, bypass, fg bool, denoms []string) (string, map[string]any, bool) {
	relevant := []sdk.AccAddress{from}
	relevant = append(relevant, tos...)
	relevant = append(relevant, agents...)
	relevant = append(relevant, e.relExtra...) // e.g. the administrator of a MsgTransferRequest
	seenAddr := map[string]bool{}
	var rel []sdk.AccAddress
	for _, a := range relevant {
		if !seenAddr[string(a)] {
			seenAddr[string(a)] = true
			rel = append(rel, a)
		}
	}
	// accounts to describe: endpoints, agents, and the marker address of every denom
	acctAddrs := append([]sdk.AccAddress{}, rel...)
	for _, d := range denoms {
		ma := markertypes.MustGetMarkerAddress(d)
		if !seenAddr[string(ma)] {
			seenAddr[string(ma)] = true
			acctAddrs = append(acctAddrs, ma)
		}
	}
	var accts, deny, attrs []string
	var mdesc []map[string]any
	squat := false
	for _, a := range acctAddrs {
		if m, ok := w.byAddr[string(a)]; ok {
			switch m.kind {
			case c04Absent:
				mdesc = append(mdesc, map[string]any{"denom": m.denom, "marker": "none"})
			case c04Squatted:
				accts = append(accts, fmt.Sprintf("(M %d, AcctOther)", m.idx))
				mdesc = append(mdesc, map[string]any{"denom": m.denom, "marker": "none; a non-marker account sits at the marker address"})
				for _, d := range denoms {
					if d == m.denom {
						squat = true
					}
				}
			case c04Marker:
				var gs []string
				gd := map[string][]string{}
				for _, g := range m.grants {
					keep := false
					for _, x := range rel {
						if x.Equals(g.addr) {
							keep = true
						}
					}
					if !keep {
						continue
					}
					var ps, pn []string
					for _, p := range g.perms {
						ps = append(ps, c04Perm(p))
						pn = append(pn, strings.TrimPrefix(p.String(), "ACCESS_"))
					}
					gs = append(gs, fmt.Sprintf("(%s, %s)", e.coqAddr(w, g.addr), coqList(ps)))
					gd[e.role(w, g.addr)] = pn
				}
				var reqs []string
				for _, ra := range m.reqAttrs {
					reqs = append(reqs, coqStr(ra))
				}
				ty := "MCoin"
				if m.restricted {
					ty = "MRestricted"
				}
				accts = append(accts, fmt.Sprintf("(M %d, MK %d %s %s %s %s %s)", m.idx, m.idx, ty, c04StatusCoq[m.status], coqList(reqs), coqList(gs), coqBool(m.forced)))
				var dn []string
				for _, x := range rel {
					if m.deny[string(x)] {
						deny = append(deny, fmt.Sprintf("(M %d, %s)", m.idx, e.coqAddr(w, x)))
						dn = append(dn, e.role(w, x))
					}
				}
				mdesc = append(mdesc, map[string]any{"denom": m.denom, "marker": map[string]any{"restricted": m.restricted, "status": strings.TrimPrefix(m.status.String(), "MARKER_STATUS_"),
					"required_attributes": m.reqAttrs, "access": gd, "deny_list": dn}})
			}
			continue
		}
		if e.accountExists(w, a) {
			accts = append(accts, fmt.Sprintf("(%s, AcctOther)", e.coqAddr(w, a)))
		}
	}
	adesc := map[string][]string{}
	for _, a := range rel {
		if names := w.attrs[string(a)]; len(names) > 0 {
			var ns []string
			for _, n := range names {
				ns = append(ns, coqStr(n))
			}
			attrs = append(attrs, fmt.Sprintf("AT %s %s", e.coqAddr(w, a), coqList(ns)))
			adesc[e.role(w, a)] = names
		}
	}
	var bl, ags, agd []string
	for _, a := range e.bypassList {
		bl = append(bl, e.coqAddr(w, a))
	}
	for _, a := range agents {
		ags = append(ags, e.coqAddr(w, a))
		agd = append(agd, e.role(w, a))
	}
	term := fmt.Sprintf("(Build_config %s %s %s %s %s %s %s %s %s %s)", coqList(accts), coqList(deny), coqList(attrs), coqList(bl),
		e.coqAddr(w, e.feeColl.addr), e.coqAddr(w, e.mmod.addr), e.coqAddr(w, e.ibcmod.addr), coqBool(bypass), coqBool(fg), coqList(ags))
	desc := map[string]any{"sender": e.role(w, from), "transfer_agents": agd, "context_bypass": bypass, "fee_grant_in_use": fg,
		"denoms": mdesc, "attributes": adesc, "squatted_in_amount": squat}
	return term, desc, squat
}

// appTerm renders the application configuration: the marker slice (configTerm) plus the sanction and
// quarantine state the composed restriction can depend on for these endpoints.
func (e *c04Env) appTerm(w *c04World, from sdk.AccAddress, tos []sdk.AccAddress, agents []sdk.AccAddress, bypass, fg, sbypass, qbypass bool, denoms []string) (string, map[string]any, bool) {
	all := append([]sdk.AccAddress{from}, tos...)
	all = append(all, e.holder.addr) // the holder can be a destination
	cfg, desc, squat := e.configTerm(w, from, tos, agents, bypass, fg, denoms)
	var sanc, opt, auto, sd, od, ad []string
	seen := map[string]bool{}
	for _, a := range all {
		if seen[string(a)] {
			continue
		}
		seen[string(a)] = true
		if w.sanctioned[string(a)] {
			sanc = append(sanc, e.coqAddr(w, a))
			sd = append(sd, e.role(w, a))
		}
		if w.optin[string(a)] {
			opt = append(opt, e.coqAddr(w, a))
			od = append(od, e.role(w, a))
		}
	}
	seenTo := map[string]bool{}
	for _, to := range tos {
		if seenTo[string(to)] {
			continue
		}
		seenTo[string(to)] = true
		seenFrom := map[string]bool{}
		for _, f := range all {
			if seenFrom[string(f)] {
				continue
			}
			seenFrom[string(f)] = true
			if w.auto[string(to)+string(f)] {
				auto = append(auto, fmt.Sprintf("(%s, %s)", e.coqAddr(w, to), e.coqAddr(w, f)))
				ad = append(ad, e.role(w, to)+" accepts "+e.role(w, f))
			}
		}
	}
	term := fmt.Sprintf("(AC %s %s %s %s %s %s %s)", cfg, coqList(sanc), coqBool(sbypass), coqList(opt), coqList(auto), e.coqAddr(w, e.holder.addr), coqBool(qbypass))
	desc["sanctioned"] = sd
	desc["quarantined"] = od
	desc["auto_accept"] = ad
	desc["sanction_bypass"] = sbypass
	desc["quarantine_bypass"] = qbypass
	return term, desc, squat
}

func (e *c04Env) coinsTerm(w *c04World, amt sdk.Coins) string {
	var cs []string
	for _, c := range amt {
		cs = append(cs, fmt.Sprintf("(D %d, %s)", w.byAddr[string(markertypes.MustGetMarkerAddress(c.Denom))].idx, zInt(c.Amount)))
	}
	return coqList(cs)
}

func (e *c04Env) fnOK(w *c04World, q *c04Query, amt sdk.Coins, to sdk.AccAddress) (bool, bool) {
	var got sdk.AccAddress
	err := try(func() error {
		var er error
		got, er = e.app.MarkerKeeper.SendRestrictionFn(e.qctx(w.ctx, q), q.from, to, amt)
		return er
	})
	return err == nil, err == nil && got.Equals(to)
}

// bank runs one bank path in a scratch copy of the world and reports the balance movement.
func (e *c04Env) bank(w *c04World, q *c04Query, which string) (string, string) {
	cctx, _ := w.ctx.CacheContext()
	cctx = e.qctx(cctx, q)
	bk := e.app.BankKeeper
	before := func(a sdk.AccAddress) []sdkmath.Int {
		var out []sdkmath.Int
		for _, c := range q.amt {
			out = append(out, bk.GetBalance(cctx, a, c.Denom).Amount)
		}
		return out
	}
	bf, bt, bh := before(q.from), before(q.to), before(e.holder.addr)
	err := try(func() error {
		switch which {
		case "send":
			if q.toModule != "" {
				return bk.SendCoinsFromAccountToModule(cctx, q.from, q.toModule, q.amt)
			}
			return bk.SendCoins(cctx, q.from, q.to, q.amt)
		case "io":
			return bk.InputOutputCoins(cctx, banktypes.Input{Address: q.from.String(), Coins: q.amt},
				[]banktypes.Output{{Address: q.to.String(), Coins: q.amt}})
		default:
			return bk.DelegateCoins(cctx, q.from, q.to, q.amt)
		}
	})
	if err != nil {
		return "BDenied", "denied"
	}
	af, at, ah := before(q.from), before(q.to), before(e.holder.addr)
	var ds []string
	redirected := false
	for i, c := range q.amt {
		ds = append(ds, fmt.Sprintf("(D %d, %s, %s, %s)", w.byAddr[string(markertypes.MustGetMarkerAddress(c.Denom))].idx, zInt(af[i].Sub(bf[i])), zInt(at[i].Sub(bt[i])), zInt(ah[i].Sub(bh[i]))))
		if ah[i].GT(bh[i]) && !q.to.Equals(e.holder.addr) {
			redirected = true
		}
	}
	if redirected {
		return "(BMoved " + coqList(ds) + ")", "accepted, funds went to the quarantine holder"
	}
	return "(BMoved " + coqList(ds) + ")", "accepted"
}

func (e *c04Env) emit(w *c04World, q *c04Query, bankSend, bankIO, bankDeleg bool, group string) {
	var denoms []string
	for _, c := range q.amt {
		denoms = append(denoms, c.Denom)
	}
	cfg, desc, squat := e.appTerm(w, q.from, []sdk.AccAddress{q.to}, q.agents, q.bypass, q.fg, q.sbypass, q.qbypass, denoms)
	ok, same := e.fnOK(w, q, q.amt, q.to)
	var singles []string
	for _, c := range q.amt {
		s, _ := e.fnOK(w, q, sdk.Coins{c}, q.to)
		singles = append(singles, coqBool(s))
	}
	send, io, deleg := "BNotRun", "BNotRun", "BNotRun"
	sd, id, dd := "not run", "not run", "not run"
	circulating := true // every denom of the amount is held outside marker escrows
	for _, c := range q.amt {
		if w.byAddr[string(markertypes.MustGetMarkerAddress(c.Denom))].unfunded {
			circulating = false
		}
	}
	if e.funded(w, q.from) && circulating {
		if bankSend {
			send, sd = e.bank(w, q, "send")
		}
		if bankIO {
			io, id = e.bank(w, q, "io")
		}
		if bankDeleg && e.accountExists(w, q.to) {
			deleg, dd = e.bank(w, q, "deleg")
		}
	}
	term := fmt.Sprintf("CSend %s %s %s %s %s %s %s %s %s %s", cfg, e.coqAddr(w, q.from), e.coqAddr(w, q.to), e.coinsTerm(w, q.amt),
		coqBool(ok), coqBool(same), coqList(singles), send, io, deleg)
	desc["receiver"] = e.role(w, q.to)
	desc["amount"] = q.amt.String()
	desc["kind"] = "send"
	desc["send_restriction_fn_allowed"] = ok
	desc["send_coins"] = sd
	if q.toModule != "" {
		desc["send_coins_via"] = "SendCoinsFromAccountToModule(" + q.toModule + ")"
	}
	desc["input_output_coins"] = id
	desc["delegate_coins"] = dd
	e.w.Add(term, desc)
	e.w.Count(group)
	if ok {
		e.accepted++
		e.w.Count("allowed")
	} else {
		e.denied++
		e.w.Count("denied")
	}
	if squat {
		e.w.Count("squatted_denom_in_amount")
	}
	if send != "BNotRun" {
		e.w.Count("bank_send_coins")
		if w.sanctioned[string(q.from)] {
			e.w.Count("bank_send_coins_sanctioned_sender")
		}
		if w.optin[string(q.to)] {
			e.w.Count("bank_send_coins_quarantined_receiver")
		}
		if strings.HasSuffix(sd, "quarantine holder") {
			e.w.Count("bank_send_coins_redirected_to_holder")
		}
	}
	for _, c := range q.amt {
		if m := w.byAddr[string(markertypes.MustGetMarkerAddress(c.Denom))]; m.life != "" {
			e.w.Count("denom_with_lifecycle_driven_marker")
			break
		}
	}
	if io != "BNotRun" {
		e.w.Count("bank_input_output_coins")
	}
	if deleg != "BNotRun" {
		e.w.Count("bank_delegate_coins")
	}
	if len(q.amt) > 1 {
		e.w.Count("multi_denom")
	}
	nontrivial := false
	for _, c := range q.amt {
		m := w.byAddr[string(markertypes.MustGetMarkerAddress(c.Denom))]
		if m.kind == c04Marker && m.restricted && m.status == markertypes.StatusActive {
			nontrivial = true
		}
	}
	if nontrivial && !q.bypass {
		e.w.Nontrivial(term)
		// evidence samples: the first non-trivial case of each of a few shapes
		shape := fmt.Sprintf("allowed=%v agents=%v markerSender=%v denoms=%d", ok, len(q.agents) > 0, w.byAddr[string(q.from)] != nil, len(q.amt))
		if e.sampled == nil {
			e.sampled = map[string]bool{}
		}
		if !e.sampled[shape] && len(e.sampled) < 6 {
			e.sampled[shape] = true
			if bz, err := json.Marshal(desc); err == nil {
				e.w.Samples = append(e.w.Samples, bz)
			}
		}
	}
}

func (e *c04Env) emitMulti(w *c04World, q *c04Query, outs []banktypes.Output, outAddrs []sdk.AccAddress) {
	denomSet := map[string]bool{}
	var total sdk.Coins
	for _, o := range outs {
		total = total.Add(o.Coins...)
		for _, c := range o.Coins {
			denomSet[c.Denom] = true
		}
	}
	var denoms []string
	for d := range denomSet {
		denoms = append(denoms, d)
	}
	sort.Strings(denoms)
	for _, d := range denoms {
		if w.byAddr[string(markertypes.MustGetMarkerAddress(d))].unfunded {
			e.w.Count("multi_send_skipped_uncirculated_denom")
			return
		}
	}
	cfg, desc, squat := e.appTerm(w, q.from, outAddrs, q.agents, q.bypass, q.fg, q.sbypass, q.qbypass, denoms)
	var oks, outTerms []string
	var outDesc []map[string]any
	for i, o := range outs {
		ok, _ := e.fnOK(w, q, o.Coins, outAddrs[i])
		oks = append(oks, coqBool(ok))
		outTerms = append(outTerms, fmt.Sprintf("(%s, %s)", e.coqAddr(w, outAddrs[i]), e.coinsTerm(w, o.Coins)))
		outDesc = append(outDesc, map[string]any{"receiver": e.role(w, outAddrs[i]), "amount": o.Coins.String(), "send_restriction_fn_allowed": ok})
	}
	cctx, _ := w.ctx.CacheContext()
	cctx = e.qctx(cctx, q)
	bk := e.app.BankKeeper
	idx := func(d string) int { return w.byAddr[string(markertypes.MustGetMarkerAddress(d))].idx }
	bal := func(a sdk.AccAddress, cs sdk.Coins) []sdkmath.Int {
		var out []sdkmath.Int
		for _, c := range cs {
			out = append(out, bk.GetBalance(cctx, a, c.Denom).Amount)
		}
		return out
	}
	bf, bh := bal(q.from, total), bal(e.holder.addr, total)
	var bo [][]sdkmath.Int
	for i, o := range outs {
		bo = append(bo, bal(outAddrs[i], o.Coins))
	}
	err := try(func() error {
		return bk.InputOutputCoins(cctx, banktypes.Input{Address: q.from.String(), Coins: total}, outs)
	})
	io := "MDenied"
	if err == nil {
		af, ah := bal(q.from, total), bal(e.holder.addr, total)
		var fd, od, hd []string
		for i, c := range total {
			fd = append(fd, fmt.Sprintf("(D %d, %s)", idx(c.Denom), zInt(af[i].Sub(bf[i]))))
			hd = append(hd, fmt.Sprintf("(D %d, %s)", idx(c.Denom), zInt(ah[i].Sub(bh[i]))))
			if ah[i].GT(bh[i]) {
				e.w.Count("multi_send_redirected_to_holder")
			}
		}
		for i, o := range outs {
			ao := bal(outAddrs[i], o.Coins)
			var one []string
			for j, c := range o.Coins {
				one = append(one, fmt.Sprintf("(D %d, %s)", idx(c.Denom), zInt(ao[j].Sub(bo[i][j]))))
			}
			od = append(od, coqList(one))
		}
		io = "(MMoved " + coqList(fd) + " " + coqList(od) + " " + coqList(hd) + ")"
		e.w.Count("multi_send_accepted")
	}
	desc["kind"] = "multi-send"
	desc["outputs"] = outDesc
	desc["input_output_coins"] = map[bool]string{true: "accepted", false: "denied"}[err == nil]
	e.w.Add(fmt.Sprintf("CMulti %s %s %s %s %s", cfg, e.coqAddr(w, q.from), coqList(outTerms), coqList(oks), io), desc)
	e.w.Count("multi_send")
	if squat {
		e.w.Count("squatted_denom_in_amount")
	}
}

func TestC04(t *testing.T) {
	r := newRand("C04")
	cw := NewCaseWriter("C04", "PV.Corr.C04", "check_all", 400)
	app, base := newApp(t)
	e := &c04Env{t: t, app: app, r: r, w: cw, actors: map[string]*c04Actor{}, intern: map[string]int{}, owner: addrN(499)}

	for i := 0; i < 6; i++ {
		e.plain = append(e.plain, e.actor(fmt.Sprintf("plain%d", i), addrN(400+i), true, true, false))
	}
	for i := 0; i < 3; i++ {
		e.agents = append(e.agents, e.actor(fmt.Sprintf("agent%d", i), addrN(410+i), true, true, false))
	}
	for i := 0; i < 6; i++ {
		e.recv = append(e.recv, e.actor(fmt.Sprintf("receiver%d", i), addrN(420+i), i != 5, i == 1, false))
	}
	e.ghost = e.actor("no-account", addrN(430), false, false, false)
	e.sanct = e.actor("sanctioned-plain", addrN(431), true, true, false)
	e.attrRecv = e.actor("attribute-receiver", addrN(436), true, false, false)
	for i := 0; i < 3; i++ {
		e.quars = append(e.quars, e.actor(fmt.Sprintf("quarantined%d", i), addrN(432+i), true, i == 1, false))
	}
	e.feeColl = e.actor("fee-collector", authtypes.NewModuleAddress(authtypes.FeeCollectorName), true, true, true)
	e.feeColl.macc = authtypes.FeeCollectorName
	e.mmod = e.actor("marker-module", authtypes.NewModuleAddress(markertypes.CoinPoolName), true, true, true)
	e.mmod.macc = markertypes.CoinPoolName
	e.ibcmod = e.actor("ibc-transfer-module", authtypes.NewModuleAddress(ibctransfertypes.ModuleName), true, true, true)
	e.ibcmod.macc = ibctransfertypes.ModuleName
	for _, n := range []string{govtypes.ModuleName, stakingtypes.BondedPoolName, quarantine.ModuleName, distrtypes.ModuleName, stakingtypes.NotBondedPoolName} {
		a := e.actor("bypass:"+n, authtypes.NewModuleAddress(n), true, true, true)
		if n != quarantine.ModuleName {
			a.macc = n
		}
		e.bypass = append(e.bypass, a)
		if n == quarantine.ModuleName {
			e.holder = a
		}
	}
	if !app.QuarantineKeeper.GetFundsHolder().Equals(e.holder.addr) {
		t.Fatalf("quarantine funds holder is %s", app.QuarantineKeeper.GetFundsHolder())
	}
	// the bypass list the keeper was really constructed with (app.go)
	e.bypassList = app.MarkerKeeper.GetReqAttrBypassAddrs()
	for _, a := range e.bypassList {
		if _, ok := e.actors[string(a)]; !ok {
			e.actor("bypass:"+a.String(), a, true, true, true)
		}
	}
	cw.CountN("bypass_addresses_in_app", int64(len(e.bypassList)))

	// ---- MatchAttribute (pure function) ----
	{
		reqs := []string{"*.b.a", "b.a", "*", "*.", "", "*b.a", "x.*.a", "*.a", "*.*.a", ".b.a", "*.kyc.cfour.pb", "kyc.cfour.pb"}
		attrs := []string{"c.b.a", "b.a", "xb.a", ".b.a", "c.b.a.x", "e.d.c.b.a", "", "a", ".a", "*.b.a", "b.x.a", "kyc.cfour.pb", "aa.kyc.cfour.pb", "x.", "."}
		alpha := "ab.*x"
		rnd := func() string {
			n := r.Intn(7)
			var sb strings.Builder
			for i := 0; i < n; i++ {
				sb.WriteByte(alpha[r.Intn(len(alpha))])
			}
			return sb.String()
		}
		one := func(req, attr string) {
			obs := markerkeeper.MatchAttribute(req, attr)
			cw.Add(fmt.Sprintf("CMatch %s %s %s", coqStr(req), coqStr(attr), coqBool(obs)), map[string]any{"kind": "match-attribute", "required": req, "attribute": attr, "matched": obs})
			cw.Count("match_attribute")
			if obs {
				cw.Count("match_attribute_matched")
			}
		}
		for _, rq := range reqs {
			for _, at := range attrs {
				one(rq, at)
			}
		}
		for i := 0; i < scale(600, 20000); i++ {
			rq, at := rnd(), rnd()
			switch r.Intn(4) {
			case 0:
				rq = "*." + at
			case 1:
				rq = "*." + rnd()
				at = rnd() + rq[1:]
			case 2:
				at = rq
			}
			one(rq, at)
		}
	}

	worlds := scale(3, 10)
	for wi := 0; wi < worlds; wi++ {
		w := e.buildWorld(base, wi)
		var active, restrictedActive, anyMarker []*c04MarkerCfg
		for _, m := range w.markers {
			if m.kind == c04Marker {
				anyMarker = append(anyMarker, m)
				if m.status == markertypes.StatusActive {
					active = append(active, m)
					if m.restricted {
						restrictedActive = append(restrictedActive, m)
					}
				}
			}
		}
		fundedMarkers := func(pred func(*c04MarkerCfg) bool) []*c04MarkerCfg {
			var out []*c04MarkerCfg
			for _, m := range anyMarker {
				if m.funded && pred(m) {
					out = append(out, m)
				}
			}
			return out
		}
		pick := func(ms []*c04MarkerCfg) *c04MarkerCfg {
			if len(ms) == 0 {
				return anyMarker[r.Intn(len(anyMarker))]
			}
			return ms[r.Intn(len(ms))]
		}
		amtOf := func(ms ...*c04MarkerCfg) sdk.Coins {
			var cs sdk.Coins
			for _, m := range ms {
				cs = cs.Add(sdk.NewInt64Coin(m.denom, int64(1+r.Intn(50))))
			}
			return cs
		}

		// ---- (a) every single-denom configuration over the main dimensions ----
		if wi == 0 { // thorough widens the sender / receiver / flag sets below
			senders := []sdk.AccAddress{e.plain[0].addr, e.plain[1].addr, e.plain[2].addr, e.agents[0].addr, e.bypass[0].addr, e.bypass[1].addr,
				e.feeColl.addr, e.mmod.addr, e.sanct.addr}
			for _, m := range []*c04MarkerCfg{pick(fundedMarkers(func(m *c04MarkerCfg) bool { return m.restricted && m.status == markertypes.StatusActive })),
				pick(fundedMarkers(func(m *c04MarkerCfg) bool { return m.status != markertypes.StatusActive }))} {
				senders = append(senders, m.addr)
			}
			receivers := []sdk.AccAddress{e.recv[0].addr, e.recv[1].addr, e.recv[2].addr, e.recv[3].addr, e.plain[4].addr,
				e.bypass[0].addr, e.bypass[1].addr, e.feeColl.addr, pick(restrictedActive).addr,
				pick(fundedMarkers(func(m *c04MarkerCfg) bool { return !m.restricted })).addr, e.quars[0].addr}
			if tier() == "thorough" {
				senders = append(senders, e.plain[3].addr, e.plain[5].addr, e.ibcmod.addr, e.ghost.addr, pick(anyMarker).addr)
				receivers = append(receivers, e.recv[4].addr, e.recv[5].addr, pick(anyMarker).addr, e.bypass[2].addr, e.quars[1].addr)
			}
			type af struct {
				agents     func(from sdk.AccAddress) []sdk.AccAddress
				bypass, fg bool
			}
			none := func(sdk.AccAddress) []sdk.AccAddress { return nil }
			one := func(sdk.AccAddress) []sdk.AccAddress { return []sdk.AccAddress{e.agents[0].addr} }
			two := func(sdk.AccAddress) []sdk.AccAddress { return []sdk.AccAddress{e.agents[1].addr, e.agents[2].addr} }
			self := func(f sdk.AccAddress) []sdk.AccAddress { return []sdk.AccAddress{f} }
			combos := []af{{none, false, false}, {one, false, false}, {two, false, false}, {self, false, false},
				{none, false, true}, {one, false, true}, {none, true, false}}
			if tier() == "thorough" {
				combos = append(combos, af{two, false, true}, af{self, false, true}, af{one, true, false}, af{none, true, true}, af{two, true, true})
			}
			n := 0
			for _, m := range w.markers {
				for _, from := range senders {
					for _, to := range receivers {
						for ci, c := range combos {
							// markers that are not active deny everything outside the bypass branch: four of
							// the agent/flag combinations (none, one agent, fee grant, context bypass) suffice
							if tier() != "thorough" && (m.kind != c04Marker || m.status != markertypes.StatusActive) && (ci == 2 || ci == 3 || ci == 5) {
								continue
							}
							q := &c04Query{from: from, to: to, agents: c.agents(from), bypass: c.bypass, fg: c.fg, amt: amtOf(m)}
							toIsModule := false
							if a, ok := e.actors[string(to)]; ok && a.module {
								toIsModule = true
							}
							e.emit(w, q, true, n%4 == 0, toIsModule && n%2 == 0, "single_denom_product")
							n++
						}
					}
				}
			}
		}

		// ---- (d) bypass branch x fee collector x every order of marker-less / unrestricted /
		// restricted denoms in a two- or three-denom amount (each coin must be looked at) ----
		if wi == 0 || tier() == "thorough" {
			var pool []*c04MarkerCfg
			seenClass := map[string]int{}
			for _, m := range w.markers {
				cl := fmt.Sprintf("%d/%v/%v", m.kind, m.restricted, m.status)
				lim := 2
				if m.kind == c04Marker && m.restricted && m.status == markertypes.StatusActive {
					lim = 3
				}
				if seenClass[cl] < lim && (m.kind != c04Marker || m.status == markertypes.StatusActive || seenClass[cl] < 1) {
					seenClass[cl]++
					pool = append(pool, m)
				}
			}
			// the last active restricted marker as well, so that a restricted denom also sorts late
			pool = append(pool, restrictedActive[len(restrictedActive)-1])
			type sf struct {
				from       sdk.AccAddress
				bypass, fg bool
			}
			srcs := []sf{{e.plain[0].addr, true, false}, {e.mmod.addr, false, false}, {e.ibcmod.addr, false, false}, {e.agents[0].addr, true, true}, {e.plain[1].addr, false, false}}
			dsts := []sdk.AccAddress{e.feeColl.addr, e.bypass[0].addr}
			var amounts [][]*c04MarkerCfg
			for i := 0; i < len(pool); i++ {
				for j := i + 1; j < len(pool); j++ {
					if pool[i] == pool[j] {
						continue
					}
					amounts = append(amounts, []*c04MarkerCfg{pool[i], pool[j]})
					for k := j + 1; k < len(pool); k++ {
						if pool[k] != pool[i] && pool[k] != pool[j] {
							amounts = append(amounts, []*c04MarkerCfg{pool[i], pool[j], pool[k]})
						}
					}
				}
			}
			n := 0
			for _, ms := range amounts {
				for _, sfrom := range srcs {
					for _, to := range dsts {
						q := &c04Query{from: sfrom.from, to: to, bypass: sfrom.bypass, fg: sfrom.fg, amt: amtOf(ms...)}
						if to.Equals(e.feeColl.addr) {
							q.toModule = authtypes.FeeCollectorName
						}
						e.emit(w, q, true, n%3 == 0, n%3 == 1, "bypass_fee_collector_orders")
						n++
						kinds := map[string]bool{}
						first := ""
						for _, c := range q.amt {
							m := w.byAddr[string(markertypes.MustGetMarkerAddress(c.Denom))]
							k := "none"
							if m.kind == c04Marker {
								k = map[bool]string{true: "restricted", false: "coin"}[m.restricted]
							}
							kinds[k] = true
							if first == "" {
								first = k
							}
						}
						if to.Equals(e.feeColl.addr) && (sfrom.bypass || !sfrom.from.Equals(e.plain[1].addr)) && first == "none" && kinds["restricted"] {
							cw.Count("bypass_to_fee_collector_markerless_first_then_restricted")
						}
					}
				}
			}
		}

		// ---- (b) random configurations with one to three denoms ----
		var allFrom, allTo []sdk.AccAddress
		for _, a := range e.plain {
			allFrom = append(allFrom, a.addr, a.addr)
			allTo = append(allTo, a.addr)
		}
		for _, a := range e.agents {
			allFrom = append(allFrom, a.addr)
			allTo = append(allTo, a.addr)
		}
		for _, a := range e.recv {
			allTo = append(allTo, a.addr, a.addr)
		}
		for _, a := range e.bypass {
			allFrom = append(allFrom, a.addr)
			allTo = append(allTo, a.addr)
		}
		allFrom = append(allFrom, e.feeColl.addr, e.mmod.addr, e.ibcmod.addr, e.ghost.addr, e.recv[1].addr, e.sanct.addr, e.quars[1].addr)
		allTo = append(allTo, e.feeColl.addr, e.feeColl.addr, e.mmod.addr, e.ghost.addr, e.sanct.addr)
		for _, a := range e.quars {
			allTo = append(allTo, a.addr, a.addr)
		}
		for _, m := range anyMarker {
			if m.funded && r.Intn(2) == 0 {
				allFrom = append(allFrom, m.addr)
			}
			if r.Intn(2) == 0 {
				allTo = append(allTo, m.addr)
			}
		}
		agentPool := []sdk.AccAddress{e.agents[0].addr, e.agents[1].addr, e.agents[2].addr, e.plain[0].addr, e.plain[1].addr}
		randQuery := func() *c04Query {
			q := &c04Query{from: allFrom[r.Intn(len(allFrom))], to: allTo[r.Intn(len(allTo))]}
			switch r.Intn(10) {
			case 0, 1, 2, 3:
			case 4, 5, 6:
				q.agents = []sdk.AccAddress{agentPool[r.Intn(len(agentPool))]}
			case 7, 8:
				p := r.Perm(len(agentPool))
				q.agents = []sdk.AccAddress{agentPool[p[0]], agentPool[p[1]]}
			default:
				q.agents = []sdk.AccAddress{q.from}
			}
			q.bypass = r.Intn(12) == 0
			q.fg = r.Intn(5) == 0
			q.sbypass = r.Intn(25) == 0
			q.qbypass = r.Intn(10) == 0
			return q
		}
		randMarkers := func(n int) []*c04MarkerCfg {
			seen := map[int]bool{}
			var out []*c04MarkerCfg
			for len(out) < n {
				var m *c04MarkerCfg
				switch r.Intn(10) {
				case 0:
					m = w.markers[r.Intn(len(w.markers))]
				case 1, 2:
					m = pick(active)
				default:
					m = pick(restrictedActive)
				}
				if !seen[m.idx] {
					seen[m.idx] = true
					out = append(out, m)
				}
			}
			return out
		}
		nb := scale(1500, 10000)
		for i := 0; i < nb; i++ {
			q := randQuery()
			ms := randMarkers(1 + r.Intn(3))
			if fm, ok := w.byAddr[string(q.from)]; ok && r.Intn(2) == 0 {
				// a marker account sending its own denom
				dup := false
				for _, m := range ms {
					if m == fm {
						dup = true
					}
				}
				if !dup {
					ms = append(ms, fm)
				}
			}
			q.amt = amtOf(ms...)
			toIsModule := false
			if a, ok := e.actors[string(q.to)]; ok && a.module {
				toIsModule = true
			}
			e.emit(w, q, true, i%3 == 0, toIsModule, "random_configurations")
		}

		// ---- (c) multi-send: one input, two or three outputs judged separately ----
		nm := scale(150, 1000)
		for i := 0; i < nm; i++ {
			q := randQuery()
			if !e.funded(w, q.from) {
				continue
			}
			k := 2 + r.Intn(2)
			var outs []banktypes.Output
			var outAddrs []sdk.AccAddress
			used := map[string]bool{string(q.from): true}
			for len(outs) < k {
				to := allTo[r.Intn(len(allTo))]
				if used[string(to)] {
					continue
				}
				used[string(to)] = true
				cs := amtOf(randMarkers(1 + r.Intn(2))...)
				outs = append(outs, banktypes.Output{Address: to.String(), Coins: cs})
				outAddrs = append(outAddrs, to)
			}
			e.emitMulti(w, q, outs, outAddrs)
		}

		// ---- (e) sanction x quarantine x marker through the real bank; (f)-(h) the real endpoints ----
		if wi == 0 || tier() == "thorough" {
			e.quarantineSanctionMatrix(w)
		}
		e.overlappingRequiredAttributes(w, scale(120, 1500)) // (k)
		if wi == 0 { // (i) every subset of the relevant access rights (world 0 has the fixed attribute sets)
			e.accessSubsets(w)
		}
		e.transferCases(w, scale(150, 600))
		e.settleCases(w, scale(60, 300))
		e.valueOwnerCases(w, scale(120, 500))
	}
	if tot := e.accepted + e.denied; tot > 0 {
		cw.CountN("allowed_percent", 100*e.accepted/tot)
	}
	cw.Flush(t)
}
