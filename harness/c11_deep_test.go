//go:build c11

package harness

import (
	"crypto/sha256"
	"encoding/hex"
	"fmt"
	"reflect"
	"sort"
	"strings"

	storetypes "cosmossdk.io/store/types"
	abci "github.com/cometbft/cometbft/abci/types"
	sdk "github.com/cosmos/cosmos-sdk/types"
	"github.com/cosmos/cosmos-sdk/x/authz"
	banktypes "github.com/cosmos/cosmos-sdk/x/bank/types"
	"github.com/cosmos/gogoproto/proto"
	"google.golang.org/protobuf/reflect/protoreflect"

	"github.com/provenance-io/provenance/x/exchange"
	markertypes "github.com/provenance-io/provenance/x/marker/types"
	"github.com/provenance-io/provenance/x/trigger"
	triggertypes "github.com/provenance-io/provenance/x/trigger/types"
)

// ---------------------------------------------------------------- requests for any of the markets

// c11Items: the order / commitment ids the harness set up in a market (0 = none).
func (e *c11Env) items(m uint32) (ask, bid uint64, hasCommit bool) {
	switch m {
	case 1:
		return e.askID, e.bidID, true
	case 2:
		return e.ask2ID, e.bid2ID, true
	}
	return 0, 0, false
}

// c11CallEndpoints: the market endpoints a history calls (MarketManagePermissions is a history
// operation of its own).
var c11CallEndpoints = []string{"MarketSettle", "MarketCommitmentSettle", "MarketReleaseCommitments", "MarketSetOrderExternalID",
	"MarketWithdraw", "MarketUpdateDetails", "MarketUpdateAcceptingOrders", "MarketUpdateUserSettle", "MarketUpdateAcceptingCommitments",
	"MarketUpdateIntermediaryDenom", "MarketManageReqAttrs", "MarketUpdateEnabled"}

// endpoints whose request is valid on a market that was only just created (no orders, no commitments)
var c11ValidOnNewMarket = map[string]bool{"MarketWithdraw": true, "MarketUpdateDetails": true, "MarketUpdateAcceptingOrders": true,
	"MarketUpdateUserSettle": true, "MarketUpdateAcceptingCommitments": true, "MarketUpdateIntermediaryDenom": true, "MarketManageReqAttrs": true}

// epMsg builds the request of a market endpoint for market m signed by caller; valid = the request
// goes through for a permitted caller in the state the harness set up (market exists and holds the
// items / funds it needs).
func (e *c11Env) epMsg(ctx sdk.Context, name string, m uint32, c string) (msg sdk.Msg, valid bool) {
	ask, bid, hasCommit := e.items(m)
	exists := e.app.ExchangeKeeper.IsMarketKnown(ctx, m)
	full := exists && ask != 0
	switch name {
	case "MarketSettle":
		return &exchange.MsgMarketSettleRequest{Admin: c, MarketId: m, AskOrderIds: []uint64{max64(ask, 1)}, BidOrderIds: []uint64{max64(bid, 2)}}, full
	case "MarketCommitmentSettle":
		return &exchange.MsgMarketCommitmentSettleRequest{Admin: c, MarketId: m,
			Inputs:  []exchange.AccountAmount{{Account: e.committer.String(), Amount: e.coins("20cherry")}},
			Outputs: []exchange.AccountAmount{{Account: e.recipient.String(), Amount: e.coins("20cherry")}}}, full && hasCommit
	case "MarketReleaseCommitments":
		return &exchange.MsgMarketReleaseCommitmentsRequest{Admin: c, MarketId: m,
			ToRelease: []exchange.AccountAmount{{Account: e.committer.String(), Amount: e.coins("5cherry")}}}, full && hasCommit
	case "MarketSetOrderExternalID":
		return &exchange.MsgMarketSetOrderExternalIDRequest{Admin: c, MarketId: m, OrderId: max64(ask, 1), ExternalId: "c11-world-id"}, full
	case "MarketWithdraw":
		return &exchange.MsgMarketWithdrawRequest{Admin: c, MarketId: m, ToAddress: e.recipient.String(), Amount: e.coins("7nhash")}, exists
	case "MarketUpdateDetails":
		return &exchange.MsgMarketUpdateDetailsRequest{Admin: c, MarketId: m, MarketDetails: exchange.MarketDetails{Name: "renamed by history", Description: "d"}}, exists
	case "MarketUpdateAcceptingOrders":
		return &exchange.MsgMarketUpdateAcceptingOrdersRequest{Admin: c, MarketId: m, AcceptingOrders: false}, exists
	case "MarketUpdateUserSettle":
		return &exchange.MsgMarketUpdateUserSettleRequest{Admin: c, MarketId: m, AllowUserSettlement: true}, exists
	case "MarketUpdateAcceptingCommitments":
		return &exchange.MsgMarketUpdateAcceptingCommitmentsRequest{Admin: c, MarketId: m, AcceptingCommitments: false}, exists
	case "MarketUpdateIntermediaryDenom":
		return &exchange.MsgMarketUpdateIntermediaryDenomRequest{Admin: c, MarketId: m, IntermediaryDenom: "newinterm"}, exists
	case "MarketManageReqAttrs":
		return &exchange.MsgMarketManageReqAttrsRequest{Admin: c, MarketId: m, CreateAskToAdd: []string{"kyc.c11.world"}}, exists
	case "MarketUpdateEnabled":
		return &exchange.MsgMarketUpdateEnabledRequest{Admin: c, MarketId: m, AcceptingOrders: false}, true //nolint:staticcheck
	}
	e.t.Fatalf("unknown endpoint %s", name)
	return nil, false
}

func max64(a, b uint64) uint64 {
	if a != 0 {
		return a
	}
	return b
}

// ---------------------------------------------------------------- world histories

type c11World struct {
	e        *c11Env
	markets  []uint32 // market ids whose grants are read back (1, 2 and the ones a history may create)
	actors   []string
	universe string
}

func (wd *c11World) grants(ctx sdk.Context) []string {
	var out []string
	for _, m := range wd.markets {
		for _, ag := range wd.e.app.ExchangeKeeper.GetAccessGrants(ctx, m) {
			for _, p := range ag.Permissions {
				out = append(out, fmt.Sprintf("(%s, %s, %s)", nTerm(int64(m)), nTerm(wd.e.id(ag.Address)), c11PermNames[p]))
			}
		}
	}
	return out
}

func (wd *c11World) knownMarkets(ctx sdk.Context) string {
	var out []string
	for _, m := range wd.markets {
		if wd.e.app.AccountKeeper.HasAccount(ctx, exchange.GetMarketAddress(m)) {
			out = append(out, nTerm(int64(m)))
		}
	}
	return coqList(out)
}

func (e *c11Env) permsTerm(ps []exchange.Permission) string {
	var s []string
	for _, p := range ps {
		s = append(s, c11PermNames[p])
	}
	return coqList(s)
}

func (e *c11Env) updTerm(req *exchange.MsgMarketManagePermissionsRequest) string {
	var ra []int64
	for _, a := range req.RevokeAll {
		ra = append(ra, e.id(a))
	}
	return fmt.Sprintf("{| u_market := %s; u_revoke_all := %s; u_to_revoke := %s; u_to_grant := %s |}",
		nTerm(int64(req.MarketId)), e.nList(ra), e.grantsTerm(req.ToRevoke), e.grantsTerm(req.ToGrant))
}

func (e *c11Env) createTerm(m uint32, ags []exchange.AccessGrant) string {
	return fmt.Sprintf("{| c_market := %s; c_grants := %s |}", nTerm(int64(m)), e.grantsTerm(ags))
}

type c11Hist struct {
	wd    *c11World
	ctx   sdk.Context
	steps []string
	descs []map[string]any
	okN   int
	nonQ  int
}

func (h *c11Hist) add(op string, valid, ok bool, after []string, wrote bool, desc map[string]any) {
	h.steps = append(h.steps, fmt.Sprintf("{| ws_op := %s; ws_valid := %s; ws_ok := %s; ws_after := %s; ws_wrote := %s |}",
		op, coqBool(valid), coqBool(ok), coqList(after), coqBool(wrote)))
	desc["passed"] = ok
	desc["otherwise_valid"] = valid
	h.descs = append(h.descs, desc)
	h.wd.e.w.Count("world_steps")
	if ok {
		h.okN++
		h.wd.e.w.Count("world_steps_accepted")
	}
}

// manage: a MarketManagePermissions request on the history's context, written when accepted.
func (h *c11Hist) manage(req *exchange.MsgMarketManagePermissionsRequest) bool {
	e := h.wd.e
	h0 := e.dumpHash(h.ctx)
	sctx, write := h.ctx.CacheContext()
	err := e.send(sctx, req)
	after := h.wd.grants(sctx)
	wrote := false
	if err == nil {
		write()
	} else {
		wrote = e.dumpHash(sctx) != h0
		after = h.wd.grants(h.ctx) // the branch is dropped: the history goes on from here
	}
	h.add(fmt.Sprintf("(WManage %s %s)", nTerm(e.id(req.Admin)), e.updTerm(req)), true, err == nil, after, wrote,
		map[string]any{"op": "MarketManagePermissions", "admin": e.id(req.Admin), "market": req.MarketId,
			"revoke_all": len(req.RevokeAll), "to_revoke": len(req.ToRevoke), "to_grant": len(req.ToGrant)})
	e.w.Count("world_manage")
	return err == nil
}

func (h *c11Hist) create(caller string, m uint32, ags []exchange.AccessGrant) bool {
	e := h.wd.e
	h0 := e.dumpHash(h.ctx)
	sctx, write := h.ctx.CacheContext()
	msg := &exchange.MsgGovCreateMarketRequest{Authority: caller, Market: exchange.Market{MarketId: m,
		MarketDetails: exchange.MarketDetails{Name: fmt.Sprintf("c11 history market %d", m)}, AcceptingOrders: true, AcceptingCommitments: true,
		AccessGrants: ags}}
	err := e.send(sctx, msg)
	after := h.wd.grants(sctx)
	wrote := false
	if err == nil {
		write()
		fund(e.t, e.app, h.ctx, exchange.GetMarketAddress(m), e.coins("5000nhash"))
	} else {
		wrote = e.dumpHash(sctx) != h0
		after = h.wd.grants(h.ctx)
	}
	h.add(fmt.Sprintf("(WCreate %s %s)", nTerm(e.id(caller)), e.createTerm(m, ags)), true, err == nil, after, wrote,
		map[string]any{"op": "GovCreateMarket", "caller": e.id(caller), "market": m, "access_grants": len(ags)})
	e.w.Count("world_create")
	return err == nil
}

// call: a market endpoint on a throw-away branch of the history's context.
func (h *c11Hist) call(name string, m uint32, caller string) bool {
	e := h.wd.e
	h0 := e.dumpHash(h.ctx)
	sctx, _ := h.ctx.CacheContext()
	msg, valid := e.epMsg(sctx, name, m, caller)
	err := e.send(sctx, msg)
	after := h.wd.grants(sctx)
	wrote := err != nil && e.dumpHash(sctx) != h0
	h.add(fmt.Sprintf("(WCall %s %s %s)", coqStr(name), nTerm(int64(m)), nTerm(e.id(caller))), valid, err == nil, after, wrote,
		map[string]any{"op": name, "market": m, "caller": e.id(caller)})
	e.w.Count("world_call")
	if err == nil {
		e.w.Count("world_call_accepted")
	}
	return err == nil
}

// query: Query/<name> carrying a create-market request, executed on the history's OWN context (the
// way the interchain-query host or an in-process caller would run it): its writes are not discarded.
func (h *c11Hist) query(name, authority string, m uint32, ags []exchange.AccessGrant) bool {
	e := h.wd.e
	h0 := e.dumpHash(h.ctx)
	req := &exchange.QueryValidateCreateMarketRequest{CreateMarketRequest: &exchange.MsgGovCreateMarketRequest{Authority: authority,
		Market: exchange.Market{MarketId: m, MarketDetails: exchange.MarketDetails{Name: fmt.Sprintf("c11 dry run %d", m)}, AcceptingOrders: true, AccessGrants: ags}}}
	ok := false
	err := try(func() error {
		bz, err := e.app.AppCodec().Marshal(req)
		if err != nil {
			return err
		}
		path := "/provenance.exchange.v1.Query/" + name
		route := e.app.GRPCQueryRouter().Route(path)
		if route == nil {
			return fmt.Errorf("no route %s", path)
		}
		res, err := route(h.ctx, &abci.RequestQuery{Data: bz, Path: path})
		if err != nil {
			return err
		}
		var resp exchange.QueryValidateCreateMarketResponse
		if err := e.app.AppCodec().Unmarshal(res.Value, &resp); err != nil {
			return err
		}
		ok = resp.GovPropWillPass
		return nil
	})
	wrote := e.dumpHash(h.ctx) != h0
	h.add(fmt.Sprintf("(WQuery %s %s %s)", coqStr(name), nTerm(e.id(authority)), e.createTerm(m, ags)), true, ok && err == nil, h.wd.grants(h.ctx), wrote,
		map[string]any{"op": "Query/" + name, "authority_field": e.id(authority), "market": m, "store_digest_changed": wrote})
	e.w.Count("world_query")
	return ok
}

func (e *c11Env) worldHistories() {
	wd := &c11World{e: e, markets: []uint32{1, 2, 9, 77}}
	A := []string{addrN(150).String(), addrN(151).String(), addrN(152).String(), addrN(153).String()}
	U, E, O := addrN(154).String(), addrN(155).String(), addrN(156).String()
	wd.actors = append(append([]string{}, A...), U, E, O)
	ctx0, _ := e.base.CacheContext()
	var universe []string
	for _, m := range wd.markets {
		for _, a := range append(append([]string{}, wd.actors...), addrN(111).String()) {
			for _, p := range c11Perms {
				universe = append(universe, fmt.Sprintf("(%s, %s, %s)", nTerm(int64(m)), nTerm(e.id(a)), c11PermNames[p]))
			}
		}
	}
	wd.universe = coqList(universe)
	newHist := func() *c11Hist {
		c, _ := ctx0.CacheContext()
		return &c11Hist{wd: wd, ctx: c}
	}
	flush := func(h *c11Hist, w0grants []string, w0markets, kind string) {
		e.w.Add(fmt.Sprintf("CWorld 0%%N {| w_grants := %s; w_markets := %s |} %s %s", coqList(w0grants), w0markets, wd.universe, coqList(h.steps)),
			map[string]any{"kind": "world_history", "shape": kind, "steps": h.descs})
		e.w.Count("world_histories")
		if h.okN > 0 {
			e.w.Nontrivial(fmt.Sprintf("w/%s/%s", kind, strings.Join(h.steps, "")))
		}
	}
	grant := func(admin string, m uint32, a string, ps ...exchange.Permission) *exchange.MsgMarketManagePermissionsRequest {
		return &exchange.MsgMarketManagePermissionsRequest{Admin: admin, MarketId: m, ToGrant: []exchange.AccessGrant{{Address: a, Permissions: ps}}}
	}
	revoke := func(admin string, m uint32, a string, ps ...exchange.Permission) *exchange.MsgMarketManagePermissionsRequest {
		return &exchange.MsgMarketManagePermissionsRequest{Admin: admin, MarketId: m, ToRevoke: []exchange.AccessGrant{{Address: a, Permissions: ps}}}
	}
	epPerm := map[string]exchange.Permission{"MarketSettle": exchange.Permission_settle, "MarketCommitmentSettle": exchange.Permission_settle,
		"MarketReleaseCommitments": exchange.Permission_cancel, "MarketSetOrderExternalID": exchange.Permission_set_ids, "MarketWithdraw": exchange.Permission_withdraw,
		"MarketUpdateDetails": exchange.Permission_update, "MarketUpdateAcceptingOrders": exchange.Permission_update, "MarketUpdateUserSettle": exchange.Permission_update,
		"MarketUpdateAcceptingCommitments": exchange.Permission_update, "MarketUpdateIntermediaryDenom": exchange.Permission_update, "MarketManageReqAttrs": exchange.Permission_attributes}

	// S1: cross-market confusion.  The same address holds a subset on market 2 and the complement on
	// market 1, and calls every endpoint of both markets.
	masks := []int{0x7f, 0x00, 0x15, 0x2a, 0x01, 0x40, 0x08}
	for i, mask := range masks {
		h := newHist()
		g0, m0 := wd.grants(h.ctx), wd.knownMarkets(h.ctx)
		if mask != 0 {
			h.manage(grant(e.auth, 2, A[0], subsetPerms(mask)...))
		}
		if mask != 0x7f {
			h.manage(grant(e.auth, 1, A[0], subsetPerms(0x7f&^mask)...))
		}
		for _, m := range []uint32{1, 2} {
			for _, ep := range c11CallEndpoints {
				h.call(ep, m, A[0])
			}
			// MarketManagePermissions itself, with what he holds on the OTHER market
			h.manage(grant(A[0], m, U, exchange.Permission_settle))
			h.manage(revoke(A[0], m, U, exchange.Permission_settle))
		}
		flush(h, g0, m0, fmt.Sprintf("cross_market_confusion_%d", i))
	}

	// S2: revocation between two calls, for every endpoint with a permission; by ToRevoke and by RevokeAll,
	// by the authority and by a holder of PERMISSION_PERMISSIONS.
	for i, ep := range c11CallEndpoints {
		p, has := epPerm[ep]
		if !has {
			continue
		}
		for _, m := range []uint32{1, 2} {
			h := newHist()
			g0, m0 := wd.grants(h.ctx), wd.knownMarkets(h.ctx)
			other := uint32(3 - m)
			admin := e.auth
			if (i+int(m))%2 == 0 {
				h.manage(grant(e.auth, m, A[3], exchange.Permission_permissions))
				admin = A[3]
			}
			h.call(ep, m, A[1])
			h.manage(grant(admin, m, A[1], p))
			h.manage(grant(e.auth, other, A[1], c11Perms...))
			h.call(ep, m, A[1])
			if i%2 == 0 {
				h.manage(revoke(admin, m, A[1], p))
			} else {
				h.manage(&exchange.MsgMarketManagePermissionsRequest{Admin: admin, MarketId: m, RevokeAll: []string{A[1]}})
			}
			h.call(ep, m, A[1])     // revoked: rejected although he still holds everything on the other market
			h.call(ep, other, A[1]) // and passes there
			h.manage(grant(admin, m, A[1], p))
			h.call(ep, m, A[1])
			flush(h, g0, m0, "revocation_between_calls")
		}
	}

	// S3: permissions granted for a market id BEFORE the market exists, then GovCreateMarket for that id
	// with access grants that omit the early account; the early account calls every endpoint.
	earlySets := [][]exchange.Permission{{exchange.Permission_withdraw, exchange.Permission_permissions}, append([]exchange.Permission{}, c11Perms...),
		{exchange.Permission_update}, {exchange.Permission_settle, exchange.Permission_cancel, exchange.Permission_set_ids, exchange.Permission_attributes}}
	for i, early := range earlySets {
		for _, m := range []uint32{9, 77} {
			h := newHist()
			g0, m0 := wd.grants(h.ctx), wd.knownMarkets(h.ctx)
			h.manage(grant(E, m, E, early...))      // nobody but the authority passes for a market that does not exist
			h.manage(grant(e.auth, m, E, early...)) // the authority does
			h.call("MarketUpdateDetails", m, E)     // (market does not exist yet)
			ownerGrants := []exchange.AccessGrant{{Address: O, Permissions: exchange.AllPermissions()}}
			if i%2 == 1 {
				ownerGrants = append(ownerGrants, exchange.AccessGrant{Address: A[2], Permissions: []exchange.Permission{exchange.Permission_update}})
			}
			h.create(E, m, ownerGrants)      // not the authority
			h.create(e.auth, m, ownerGrants) // the authority: the market now has exactly ownerGrants
			for _, ep := range c11CallEndpoints {
				h.call(ep, m, E)
			}
			h.manage(&exchange.MsgMarketManagePermissionsRequest{Admin: E, MarketId: m, RevokeAll: []string{O},
				ToGrant: []exchange.AccessGrant{{Address: U, Permissions: exchange.AllPermissions()}}})
			for _, ep := range c11CallEndpoints {
				if c11ValidOnNewMarket[ep] {
					h.call(ep, m, O)
				}
			}
			h.call("MarketUpdateDetails", m, A[2])
			h.call("MarketWithdraw", m, A[2])
			h.create(e.auth, m, ownerGrants) // a second creation under the same id is refused
			flush(h, g0, m0, "grants_before_market_creation")
		}
	}

	// S4: the dry-run query with the governance address as authority STRING, a fresh market id and access
	// grants naming a stranger, executed on a context that persists; then the stranger's attempts.
	for _, m := range []uint32{77, 9} {
		for _, authStr := range []string{e.auth, U} {
			h := newHist()
			g0, m0 := wd.grants(h.ctx), wd.knownMarkets(h.ctx)
			strangerAll := []exchange.AccessGrant{{Address: U, Permissions: exchange.AllPermissions()}}
			h.query("ValidateCreateMarket", authStr, m, strangerAll)
			for _, ep := range c11CallEndpoints {
				h.call(ep, m, U)
			}
			h.manage(grant(U, m, A[0], exchange.Permission_withdraw))
			h.query("ValidateCreateMarket", authStr, 1, strangerAll) // an id that exists: the dry run fails
			h.call("MarketWithdraw", 1, U)
			h.create(e.auth, m, []exchange.AccessGrant{{Address: O, Permissions: exchange.AllPermissions()}}) // the id is still free
			h.call("MarketWithdraw", m, U)
			h.call("MarketWithdraw", m, O)
			flush(h, g0, m0, "dry_run_query_on_persistent_context")
		}
	}

	// random histories
	nh := scale(120, 3000)
	for hi := 0; hi < nh; hi++ {
		h := newHist()
		g0, m0 := wd.grants(h.ctx), wd.knownMarkets(h.ctx)
		newM := []uint32{9, 77}[e.r.Intn(2)]
		mkts := []uint32{1, 2, newM}
		pick := func(l []string) string { return l[e.r.Intn(len(l))] }
		for i := 0; i < 12; i++ {
			m := mkts[e.r.Intn(3)]
			switch k := e.r.Intn(20); {
			case k < 6: // grant / revoke by the authority or by whoever holds PERMISSION_PERMISSIONS there
				admin := e.auth
				var holders []string
				for _, ag := range e.app.ExchangeKeeper.GetAccessGrants(h.ctx, m) {
					if ag.Contains(exchange.Permission_permissions) {
						holders = append(holders, ag.Address)
					}
				}
				switch r := e.r.Intn(10); {
				case r < 4 && len(holders) > 0:
					admin = pick(holders)
				case r >= 8:
					admin = pick(wd.actors)
				}
				a := pick(A)
				has := e.app.ExchangeKeeper.GetUserPermissions(h.ctx, m, sdk.MustAccAddressFromBech32(a))
				var lacks []exchange.Permission
				for _, p := range c11Perms {
					found := false
					for _, q := range has {
						found = found || q == p
					}
					if !found {
						lacks = append(lacks, p)
					}
				}
				sub := func(ps []exchange.Permission) []exchange.Permission {
					var out []exchange.Permission
					for _, p := range ps {
						if e.r.Intn(2) == 0 {
							out = append(out, p)
						}
					}
					if len(out) == 0 {
						out = append(out, ps[e.r.Intn(len(ps))])
					}
					return out
				}
				switch {
				case len(has) > 0 && e.r.Intn(2) == 0:
					if e.r.Intn(3) == 0 {
						h.manage(&exchange.MsgMarketManagePermissionsRequest{Admin: admin, MarketId: m, RevokeAll: []string{a}})
					} else {
						h.manage(revoke(admin, m, a, sub(has)...))
					}
				case len(lacks) > 0:
					h.manage(grant(admin, m, a, sub(lacks)...))
				default:
					h.manage(revoke(admin, m, a, sub(has)...))
				}
			case k < 8: // creation of the new market
				caller := e.auth
				if e.r.Intn(5) == 0 {
					caller = pick(wd.actors)
				}
				var ags []exchange.AccessGrant
				for _, a := range append([]string{O}, A...) {
					if e.r.Intn(3) == 0 {
						var ps []exchange.Permission
						for _, p := range c11Perms {
							if e.r.Intn(2) == 0 {
								ps = append(ps, p)
							}
						}
						if len(ps) > 0 {
							ags = append(ags, exchange.AccessGrant{Address: a, Permissions: ps})
						}
					}
				}
				h.create(caller, newM, ags)
			case k < 9:
				authStr := e.auth
				if e.r.Intn(3) == 0 {
					authStr = pick(wd.actors)
				}
				h.query("ValidateCreateMarket", authStr, mkts[e.r.Intn(3)], []exchange.AccessGrant{{Address: pick(wd.actors), Permissions: exchange.AllPermissions()}})
			default:
				caller := pick(A)
				if e.r.Intn(8) == 0 {
					caller = e.auth
				}
				h.call(c11CallEndpoints[e.r.Intn(len(c11CallEndpoints))], m, caller)
			}
		}
		flush(h, g0, m0, "random")
	}
}

// ---------------------------------------------------------------- Query services: nothing may be written

// fillRequest puts plausible values into the fields of a query request by field name.
func (e *c11Env) fillRequest(v reflect.Value, variant int, depth int) {
	if depth > 3 {
		return
	}
	t := v.Type()
	for i := 0; i < t.NumField(); i++ {
		f := v.Field(i)
		if !f.CanSet() {
			continue
		}
		name := strings.ToLower(t.Field(i).Name)
		switch f.Kind() {
		case reflect.String:
			switch {
			case strings.Contains(name, "denom"):
				f.SetString([]string{"govcoin", "nhash", "apple"}[variant%3])
			case strings.Contains(name, "name"):
				f.SetString("c11root")
			case strings.Contains(name, "external"):
				f.SetString("e1")
			case strings.Contains(name, "address") || strings.Contains(name, "account") || strings.Contains(name, "owner") || strings.Contains(name, "source") ||
				strings.Contains(name, "target") || strings.Contains(name, "admin") || strings.Contains(name, "authority") || strings.Contains(name, "holder") || name == "id":
				f.SetString([]string{addrN(141).String(), e.seller.String(), addrN(120).String()}[variant%3])
			case strings.Contains(name, "asset"):
				f.SetString("apple")
			case strings.Contains(name, "msgtypeurl") || strings.Contains(name, "typeurl"):
				f.SetString("/cosmos.bank.v1beta1.MsgSend")
			}
		case reflect.Uint32, reflect.Uint64:
			if strings.Contains(name, "market") {
				f.SetUint(uint64(1 + variant%2))
			} else if strings.Contains(name, "id") || strings.Contains(name, "height") {
				f.SetUint(uint64(1 + variant))
			}
		case reflect.Ptr:
			if f.Type().Elem().Kind() == reflect.Struct && strings.HasPrefix(f.Type().Elem().PkgPath(), "github.com/provenance-io/provenance") {
				nv := reflect.New(f.Type().Elem())
				e.fillRequest(nv.Elem(), variant, depth+1)
				f.Set(nv)
			}
		case reflect.Struct:
			if strings.HasPrefix(f.Type().PkgPath(), "github.com/provenance-io/provenance") {
				e.fillRequest(f, variant, depth+1)
			}
		}
	}
}

func (e *c11Env) querySweep() {
	files, err := proto.MergedRegistry()
	e.must(err, "merged proto registry")
	type method struct{ module, service, name, input string }
	var methods []method
	files.RangeFiles(func(fd protoreflect.FileDescriptor) bool {
		pkg := string(fd.Package())
		parts := strings.Split(pkg, ".")
		if len(parts) < 2 || !(parts[0] == "provenance" || (parts[0] == "cosmos" && (parts[1] == "sanction" || parts[1] == "quarantine"))) {
			return true
		}
		svcs := fd.Services()
		for i := 0; i < svcs.Len(); i++ {
			sd := svcs.Get(i)
			if sd.Name() != "Query" {
				continue
			}
			ms := sd.Methods()
			for j := 0; j < ms.Len(); j++ {
				md := ms.Get(j)
				methods = append(methods, method{parts[1], string(sd.FullName()), string(md.Name()), string(md.Input().FullName())})
			}
		}
		return true
	})
	sort.Slice(methods, func(i, j int) bool {
		if methods[i].service != methods[j].service {
			return methods[i].service < methods[j].service
		}
		return methods[i].name < methods[j].name
	})
	// the state the queries look at: the gov-sweep fixtures (marker, name, trigger), payments, and the
	// exchange set-up; everything is run on ONE context whose writes are never discarded
	qctx, _ := e.base.CacheContext()
	c11GovFills(e, qctx)
	stranger := addrN(160)
	ensureAccount(e.app, qctx, stranger)
	fund(e.t, e.app, qctx, stranger, e.coins("100000nhash"))
	for _, a := range []sdk.AccAddress{addrN(120), addrN(121)} {
		ensureAccount(e.app, qctx, a)
		fund(e.t, e.app, qctx, a, e.coins("100000plum,100000pear"))
	}
	e.must(e.app.ExchangeKeeper.CreatePayment(qctx, &exchange.Payment{Source: addrN(120).String(), SourceAmount: e.coins("10plum"),
		Target: addrN(121).String(), TargetAmount: e.coins("5pear"), ExternalId: "e1"}), "payment for the query sweep")
	strangerAll := []exchange.AccessGrant{{Address: stranger.String(), Permissions: exchange.AllPermissions()}}
	freshID := uint32(4242)
	special := map[string][]proto.Message{
		"/provenance.exchange.v1.Query/ValidateCreateMarket": {
			&exchange.QueryValidateCreateMarketRequest{CreateMarketRequest: &exchange.MsgGovCreateMarketRequest{Authority: e.auth,
				Market: exchange.Market{MarketId: freshID, MarketDetails: exchange.MarketDetails{Name: "dry run"}, AcceptingOrders: true, AccessGrants: strangerAll}}},
			&exchange.QueryValidateCreateMarketRequest{CreateMarketRequest: &exchange.MsgGovCreateMarketRequest{Authority: e.auth,
				Market: exchange.Market{MarketDetails: exchange.MarketDetails{Name: "dry run next id"}, AcceptingOrders: true, AccessGrants: strangerAll,
					FeeCreateAskFlat: []sdk.Coin{sdk.NewInt64Coin("nhash", 5)}, ReqAttrCreateAsk: []string{"kyc.dry.run"}}}},
			&exchange.QueryValidateCreateMarketRequest{CreateMarketRequest: &exchange.MsgGovCreateMarketRequest{Authority: stranger.String(),
				Market: exchange.Market{MarketId: freshID + 1, MarketDetails: exchange.MarketDetails{Name: "dry run"}, AccessGrants: strangerAll}}},
		},
		"/provenance.exchange.v1.Query/ValidateManageFees": {
			&exchange.QueryValidateManageFeesRequest{ManageFeesRequest: &exchange.MsgGovManageFeesRequest{Authority: e.auth, MarketId: 1,
				AddFeeCreateAskFlat: []sdk.Coin{sdk.NewInt64Coin("nhash", 3)}, AddFeeCreateBidFlat: []sdk.Coin{sdk.NewInt64Coin("nhash", 4)},
				RemoveFeeCreateCommitmentFlat: []sdk.Coin{sdk.NewInt64Coin("nhash", 1)},
				AddFeeSellerSettlementRatios:  []exchange.FeeRatio{{Price: sdk.NewInt64Coin("peach", 100), Fee: sdk.NewInt64Coin("peach", 1)}}}},
			&exchange.QueryValidateManageFeesRequest{ManageFeesRequest: &exchange.MsgGovManageFeesRequest{Authority: stranger.String(), MarketId: 1,
				AddFeeCreateAskFlat: []sdk.Coin{sdk.NewInt64Coin("nhash", 3)}}},
		},
		"/provenance.exchange.v1.Query/ValidateMarket": {&exchange.QueryValidateMarketRequest{MarketId: 1}, &exchange.QueryValidateMarketRequest{MarketId: 2}},
		"/provenance.exchange.v1.Query/OrderFeeCalc": {&exchange.QueryOrderFeeCalcRequest{AskOrder: &exchange.AskOrder{MarketId: 1, Seller: e.seller.String(),
			Assets: sdk.NewInt64Coin("apple", 10), Price: sdk.NewInt64Coin("peach", 100)}}},
		"/provenance.exchange.v1.Query/CommitmentSettlementFeeCalc": {&exchange.QueryCommitmentSettlementFeeCalcRequest{Settlement: &exchange.MsgMarketCommitmentSettleRequest{
			Admin: e.auth, MarketId: 1, Inputs: []exchange.AccountAmount{{Account: e.committer.String(), Amount: e.coins("20cherry")}},
			Outputs: []exchange.AccountAmount{{Account: e.recipient.String(), Amount: e.coins("20cherry")}}}}},
		"/provenance.exchange.v1.Query/PaymentFeeCalc": {&exchange.QueryPaymentFeeCalcRequest{Payment: exchange.Payment{Source: addrN(120).String(), SourceAmount: e.coins("10plum"),
			Target: addrN(121).String(), TargetAmount: e.coins("5pear"), ExternalId: "e1"}}},
		"/provenance.exchange.v1.Query/GetOrder":   {&exchange.QueryGetOrderRequest{OrderId: e.askID}},
		"/provenance.exchange.v1.Query/GetPayment": {&exchange.QueryGetPaymentRequest{Source: addrN(120).String(), ExternalId: "e1"}},
	}
	prev := e.dumpHash(qctx)
	for _, m := range methods {
		path := "/" + m.service + "/" + m.name
		route := e.app.GRPCQueryRouter().Route(path)
		if route == nil {
			e.w.Count("query_methods_without_route")
			continue
		}
		rt := proto.MessageType(m.input)
		if rt == nil {
			e.w.Count("query_methods_without_go_type")
			continue
		}
		var reqs []proto.Message
		reqs = append(reqs, special[path]...)
		for variant := 0; variant < 3; variant++ {
			nv := reflect.New(rt.Elem())
			if variant > 0 {
				e.fillRequest(nv.Elem(), variant, 0)
			}
			reqs = append(reqs, nv.Interface().(proto.Message))
		}
		e.w.Count("query_methods")
		ranAny := false
		for ri, req := range reqs {
			ran := false
			err := try(func() error {
				bz, err := e.app.AppCodec().Marshal(req)
				if err != nil {
					return err
				}
				_, err = route(qctx, &abci.RequestQuery{Data: bz, Path: path})
				return err
			})
			ran = err == nil
			ranAny = ranAny || ran
			now := e.dumpHash(qctx)
			wrote := now != prev
			prev = now
			strangerAccepted := false
			if m.module == "exchange" {
				// the stranger named in the dry-run requests tries the market endpoints on the fresh ids and on market 1
				for _, mid := range []uint32{freshID, freshID + 1, 3, 1} {
					for _, msg := range []sdk.Msg{
						&exchange.MsgMarketWithdrawRequest{Admin: stranger.String(), MarketId: mid, ToAddress: stranger.String(), Amount: e.coins("1nhash")},
						&exchange.MsgMarketManagePermissionsRequest{Admin: stranger.String(), MarketId: mid,
							ToGrant: []exchange.AccessGrant{{Address: addrN(161).String(), Permissions: []exchange.Permission{exchange.Permission_settle}}}},
						&exchange.MsgMarketUpdateDetailsRequest{Admin: stranger.String(), MarketId: mid, MarketDetails: exchange.MarketDetails{Name: "taken over"}},
					} {
						sctx, _ := qctx.CacheContext()
						if e.send(sctx, msg) == nil {
							strangerAccepted = true
						}
					}
				}
			}
			e.w.Add(fmt.Sprintf("CQuery %s %s %s %s %s", coqStr(m.module), coqStr(m.name), coqBool(ran), coqBool(wrote), coqBool(strangerAccepted)),
				map[string]any{"kind": "query_sweep", "service": m.service, "method": m.name, "request_variant": ri, "returned_without_error": ran,
					"store_digest_changed": wrote, "stranger_then_accepted": strangerAccepted})
			e.w.Count("query_cases")
			if ran {
				e.w.Count("query_cases_answered")
			}
		}
		if ranAny {
			e.w.Nontrivial("q/" + path)
		}
	}
}

// ---------------------------------------------------------------- what the authority is

func swapCaseAt(s string, i int) string {
	b := []byte(s)
	for ; i < len(b); i++ {
		if b[i] >= 'a' && b[i] <= 'z' {
			b[i] = b[i] - 'a' + 'A'
			return string(b)
		}
	}
	return s
}

func (e *c11Env) authorityCases() {
	// every keeper's configured authority is the governance module account
	for _, ka := range []struct{ module, got string }{
		{"attribute", e.app.AttributeKeeper.GetAuthority()}, {"exchange", e.app.ExchangeKeeper.GetAuthority()},
		{"ibchooks", e.app.IBCHooksKeeper.GetAuthority()}, {"ibcratelimit", e.app.RateLimitingKeeper.GetAuthority()},
		{"marker", e.app.MarkerKeeper.GetAuthority()}, {"msgfees", e.app.MsgFeesKeeper.GetAuthority()},
		{"name", e.app.NameKeeper.GetAuthority()}, {"oracle", e.app.OracleKeeper.GetAuthority()},
		{"sanction", e.app.SanctionKeeper.GetAuthority()},
	} {
		e.w.Add(fmt.Sprintf("CKeeperAuthority %s %s", coqStr(ka.module), coqBool(ka.got == e.auth)),
			map[string]any{"kind": "keeper_authority", "module": ka.module, "is_gov_module_account": ka.got == e.auth})
		e.w.Count("keeper_authority_cases")
	}
	// spelling variants of the authority string on every governance request of the modules under x/
	gctx, _ := e.base.CacheContext()
	fills, alts := c11GovFills(e, gctx)
	var urls []string
	for u := range fills {
		urls = append(urls, u)
	}
	sort.Strings(urls)
	upper := strings.ToUpper(e.auth)
	mixed := swapCaseAt(e.auth, len(e.auth)-6)
	other := addrN(162).String()
	for _, url := range urls {
		module, request := c11Module(url)
		if _, isAlt := alts[url]; isAlt || module == "" || url == "/provenance.oracle.v1.MsgSendQueryOracleRequest" {
			continue
		}
		for _, v := range []struct {
			name, s string
			same    bool
		}{{"upper_case", upper, true}, {"mixed_case", mixed, false}, {"other_account", other, false}, {"upper_case_other_account", strings.ToUpper(other), false}, {"empty", "", false}} {
			ctx, _ := gctx.CacheContext()
			obs := e.send(ctx, fills[url](v.s)) == nil
			e.w.Add(fmt.Sprintf("CAuthString %s %s %s %s %s", coqStr(module), coqStr(request), coqStr(v.name), coqBool(v.same), coqBool(obs)),
				map[string]any{"kind": "authority_string_variant", "type_url": url, "variant": v.name, "decodes_to_the_authority_address": v.same, "passed": obs})
			e.w.Count("authority_string_cases")
			if obs {
				e.w.Count("authority_string_accepted")
			}
			e.w.Nontrivial("as/" + url + "/" + v.name)
		}
	}
	// marker endpoints that compare ANOTHER field with the authority (governance is an alternative to a
	// marker access right there): stranger rejected, authority and right holder accepted
	const denom = "govcoin"
	admin, stranger := addrN(141).String(), addrN(163).String()
	ensureAccount(e.app, gctx, addrN(163))
	uses := []struct {
		endpoint string
		msg      func(s string) sdk.Msg
	}{
		{"UpdateRequiredAttributes", func(s string) sdk.Msg {
			return &markertypes.MsgUpdateRequiredAttributesRequest{Denom: denom, TransferAuthority: s, AddRequiredAttributes: []string{"kyc.c11.use"}}
		}},
		{"SetAccountData", func(s string) sdk.Msg {
			return &markertypes.MsgSetAccountDataRequest{Denom: denom, Value: "c11 account data", Signer: s}
		}},
		{"AddNetAssetValues", func(s string) sdk.Msg {
			return &markertypes.MsgAddNetAssetValuesRequest{Denom: denom, Administrator: s,
				NetAssetValues: []markertypes.NetAssetValue{{Price: sdk.NewInt64Coin("usd", 100), Volume: 1}}}
		}},
	}
	h0 := e.dumpHash(gctx)
	for _, u := range uses {
		for _, k := range []struct{ kind, who string }{{"stranger", stranger}, {"authority", e.auth}, {"holder", admin}} {
			ctx, _ := gctx.CacheContext()
			err := e.send(ctx, u.msg(k.who))
			obs := err == nil
			wrote := !obs && e.dumpHash(ctx) != h0
			if !obs && k.kind != "stranger" {
				e.t.Logf("authority use %s by %s rejected: %.200v", u.endpoint, k.kind, err)
			}
			e.w.Add(fmt.Sprintf("CAuthUse %s %s %s %s %s", coqStr("marker"), coqStr(u.endpoint), coqStr(k.kind), coqBool(obs), coqBool(wrote)),
				map[string]any{"kind": "authority_as_alternative", "endpoint": "marker." + u.endpoint, "caller": k.kind, "passed": obs, "rejected_call_wrote": wrote})
			e.w.Count("authority_use_cases")
			e.w.Nontrivial("au/" + u.endpoint + "/" + k.kind)
		}
	}
}

// ---------------------------------------------------------------- governance messages wrapped by a non-authority

// wrappedSweep: every governance-only request of the modules under x/, carrying the AUTHORITY's address
// in its Authority field, handed by a stranger to the two message types that run other messages on
// somebody's behalf: a trigger (the actions run later without signature checks, so creation must
// refuse actions the trigger's authorities do not sign) and an authz MsgExec (needs a grant).
func (e *c11Env) wrappedSweep() {
	gctx, _ := e.base.CacheContext()
	fills, alts := c11GovFills(e, gctx)
	stranger := addrN(164)
	ensureAccount(e.app, gctx, stranger)
	fund(e.t, e.app, gctx, stranger, e.coins("100000nhash"))
	var urls []string
	for u := range fills {
		urls = append(urls, u)
	}
	sort.Strings(urls)
	own := &banktypes.MsgSend{FromAddress: stranger.String(), ToAddress: addrN(143).String(), Amount: e.coins("1nhash")}
	h0 := e.dumpHash(gctx)
	for _, url := range urls {
		module, request := c11Module(url)
		if _, isAlt := alts[url]; isAlt || module == "" || url == "/provenance.oracle.v1.MsgSendQueryOracleRequest" {
			continue
		}
		govMsg := fills[url](e.auth)
		type wrapped struct {
			name   string
			byAuth bool
			mk     func() (sdk.Msg, error)
		}
		trig := func(authorities []string, actions ...sdk.Msg) func() (sdk.Msg, error) {
			return func() (sdk.Msg, error) {
				return triggertypes.NewCreateTriggerRequest(authorities, &triggertypes.BlockHeightEvent{BlockHeight: 2_000_000}, actions)
			}
		}
		ws := []wrapped{
			{"trigger_gov_action_first", false, trig([]string{stranger.String()}, govMsg, own)},
			{"trigger_gov_action_last", false, trig([]string{stranger.String()}, own, govMsg)},
			{"trigger_gov_action_only", false, trig([]string{stranger.String()}, govMsg)},
			{"trigger_gov_action_between", false, trig([]string{stranger.String()}, own, govMsg, own)},
			{"authz_exec", false, func() (sdk.Msg, error) { m := authz.NewMsgExec(stranger, []sdk.Msg{govMsg}); return &m, nil }},
			{"authz_exec_after_own", false, func() (sdk.Msg, error) { m := authz.NewMsgExec(stranger, []sdk.Msg{own, govMsg}); return &m, nil }},
			{"trigger_gov_action_only", true, trig([]string{e.auth}, govMsg)},
		}
		for _, wv := range ws {
			ctx, _ := gctx.CacheContext()
			err := try(func() error {
				m, err := wv.mk()
				if err != nil {
					return err
				}
				return e.send(ctx, m)
			})
			obs := err == nil
			// (MsgExec runs its messages in order inside the transaction's branch: the stranger's own send
			// has been applied there when the governance message is refused; the runtime drops the branch)
			wrote := !obs && wv.name != "authz_exec_after_own" && e.dumpHash(ctx) != h0
			e.w.Add(fmt.Sprintf("CGovWrapped %s %s %s %s %s %s", coqStr(module), coqStr(request), coqStr(wv.name), coqBool(wv.byAuth), coqBool(obs), coqBool(wrote)),
				map[string]any{"kind": "governance_message_wrapped", "type_url": url, "wrapper": wv.name, "wrapped_by_the_authority": wv.byAuth, "passed": obs, "rejected_call_wrote": wrote})
			e.w.Count("gov_wrapped_cases")
			if obs && wv.byAuth {
				e.w.Count("gov_wrapped_control_accepted")
				e.w.Nontrivial("gw/" + url) // the wrapper works when the authority builds it: the stranger's rejection is about the signer
			}
			if obs && !wv.byAuth {
				e.w.Count("gov_wrapped_by_stranger_accepted")
			}
		}
	}
}

// ---------------------------------------------------------------- nested create-trigger actions naming a foreign authority

// storeHashes: one digest per KV store.
func (e *c11Env) storeHashes(ctx sdk.Context) map[string]string {
	out := map[string]string{}
	for _, k := range e.app.GetStoreKeys() {
		kv, ok := k.(*storetypes.KVStoreKey)
		if !ok {
			continue
		}
		h := sha256.New()
		it := ctx.KVStore(kv).Iterator(nil, nil)
		for ; it.Valid(); it.Next() {
			kb, vb := it.Key(), it.Value()
			h.Write([]byte(fmt.Sprintf("%d:%d:", len(kb), len(vb))))
			h.Write(kb)
			h.Write(vb)
		}
		it.Close()
		out[kv.Name()] = hex.EncodeToString(h.Sum(nil))
	}
	return out
}

// nestedTriggerSweep: a stranger creates a trigger whose action is itself a create-trigger request
// (nested 2 or 3 deep) in which the innermost trigger names a FOREIGN account as its authority and
// carries a message only that account may send: a governance-only request of any module with the
// governance address, a market endpoint signed by a market's admin, a bank send of another user.
// Trigger actions run later through the router WITHOUT signature checks, so the creation must be
// refused.  Whatever creation says, the chain is then run through the blocks needed (outer event,
// begin-block execution, inner event, execution, ...) and every store but the trigger module's must
// be what it was.
func (e *c11Env) nestedTriggerSweep() {
	gctx, _ := e.base.CacheContext()
	fills, alts := c11GovFills(e, gctx)
	stranger, other := addrN(165), addrN(166)
	for _, a := range []sdk.AccAddress{stranger, other} {
		ensureAccount(e.app, gctx, a)
		fund(e.t, e.app, gctx, a, e.coins("100000nhash"))
	}
	admin := addrN(111).String() // all permissions on market 2
	type target struct {
		module, request, kind, authority string
		msg                              sdk.Msg
	}
	var targets []target
	var urls []string
	for u := range fills {
		urls = append(urls, u)
	}
	sort.Strings(urls)
	for _, url := range urls {
		module, request := c11Module(url)
		if _, isAlt := alts[url]; isAlt || module == "" || url == "/provenance.oracle.v1.MsgSendQueryOracleRequest" {
			continue
		}
		targets = append(targets, target{module, request, "governance_account", e.auth, fills[url](e.auth)})
	}
	for _, ep := range c11CallEndpoints {
		if ep == "MarketUpdateEnabled" {
			continue
		}
		msg, _ := e.epMsg(gctx, ep, 2, admin)
		targets = append(targets, target{"exchange", ep, "market_admin", admin, msg})
	}
	targets = append(targets, target{"bank", "MsgSend", "another_user", other.String(),
		&banktypes.MsgSend{FromAddress: other.String(), ToAddress: stranger.String(), Amount: e.coins("777nhash")}})
	controls := []target{{"bank", "MsgSend", "the_stranger_itself", stranger.String(),
		&banktypes.MsgSend{FromAddress: stranger.String(), ToAddress: other.String(), Amount: e.coins("5nhash")}}}

	h0 := uint64(gctx.BlockHeight())
	mk := func(authority string, height uint64, actions ...sdk.Msg) sdk.Msg {
		m, err := triggertypes.NewCreateTriggerRequest([]string{authority}, &triggertypes.BlockHeightEvent{BlockHeight: height}, actions)
		e.must(err, "nested create-trigger request")
		return m
	}
	type shape struct {
		name  string
		depth int
		build func(t target) sdk.Msg
	}
	s := stranger.String()
	shapes := []shape{
		{"stranger>foreign", 2, func(t target) sdk.Msg { return mk(s, h0+1, mk(t.authority, h0+4, t.msg)) }},
		{"stranger>foreign>foreign", 3, func(t target) sdk.Msg { return mk(s, h0+1, mk(t.authority, h0+4, mk(t.authority, h0+7, t.msg))) }},
		{"stranger>stranger>foreign", 3, func(t target) sdk.Msg { return mk(s, h0+1, mk(s, h0+4, mk(t.authority, h0+7, t.msg))) }},
		{"stranger>foreign(with own action beside it)", 2, func(t target) sdk.Msg {
			own := &banktypes.MsgSend{FromAddress: s, ToAddress: other.String(), Amount: e.coins("1nhash")}
			// (registering the nested trigger hands it all the gas that is left, so it has to come last)
			return mk(s, h0+1, own, mk(t.authority, h0+4, t.msg))
		}},
	}
	run := func(t target, sh shape, control bool) {
		cctx, _ := gctx.CacheContext()
		before := e.storeHashes(cctx)
		created := try(func() error {
			return e.send(cctx.WithGasMeter(storetypes.NewGasMeter(5_000_000)), sh.build(t))
		}) == nil
		var changed []string
		if created {
			for h := int64(h0) + 1; h <= int64(h0)+12; h++ {
				bctx := cctx.WithBlockHeight(h).WithEventManager(sdk.NewEventManagerWithHistory(nil)).
					WithGasMeter(storetypes.NewInfiniteGasMeter()).WithBlockGasMeter(storetypes.NewInfiniteGasMeter())
				_ = try(func() error { trigger.BeginBlocker(bctx, e.app.TriggerKeeper); return nil })
				_ = try(func() error { trigger.EndBlocker(bctx, e.app.TriggerKeeper); return nil })
			}
			after := e.storeHashes(cctx)
			for name, hv := range after {
				if name != triggertypes.StoreKey && before[name] != hv {
					changed = append(changed, name)
				}
			}
			sort.Strings(changed)
		}
		e.w.Add(fmt.Sprintf("CNestedTrigger %s %s %s %d%%N %s %s %s", coqStr(t.module), coqStr(t.request), coqStr(t.kind), sh.depth, coqBool(control), coqBool(created), coqBool(len(changed) > 0)),
			map[string]any{"kind": "nested_create_trigger", "target": t.module + "." + t.request, "innermost_authority": t.kind, "nesting": sh.name, "control": control,
				"outer_trigger_created": created, "blocks_run": 12, "stores_changed_besides_trigger": changed})
		e.w.Count("nested_trigger_cases")
		if control {
			if created && len(changed) > 0 {
				e.w.Count("nested_trigger_controls_ran")
				e.w.Nontrivial("nt/control/" + sh.name)
			}
		} else {
			e.w.Nontrivial("nt/" + t.module + "." + t.request + "/" + sh.name)
			if created {
				e.w.Count("nested_trigger_foreign_created")
			}
		}
	}
	for _, sh := range shapes {
		for _, t := range controls {
			run(t, sh, true)
		}
		for _, t := range targets {
			run(t, sh, false)
		}
	}
}

// ---------------------------------------------------------------- the governance-reserved branch: accepting commitments

func (e *c11Env) commitHistories() {
	k := e.app.ExchangeKeeper
	ctx0, _ := e.base.CacheContext()
	U, V, W := addrN(180).String(), addrN(181).String(), addrN(182).String()
	allBut := func(skip exchange.Permission) []exchange.Permission {
		var out []exchange.Permission
		for _, p := range c11Perms {
			if p != skip {
				out = append(out, p)
			}
		}
		return out
	}
	cfeeCoin := sdk.NewInt64Coin("nhash", 7)
	type conf struct{ acc, bips, cfee, denom bool }
	marketOf := map[conf]uint32{}
	id := uint32(300)
	for mask := 0; mask < 16; mask++ {
		c := conf{mask&1 != 0, mask&2 != 0, mask&4 != 0, mask&8 != 0}
		mk := exchange.Market{MarketId: id, MarketDetails: exchange.MarketDetails{Name: fmt.Sprintf("c11 commitments %d", mask)}, AcceptingOrders: true,
			AcceptingCommitments: c.acc,
			AccessGrants: []exchange.AccessGrant{{Address: U, Permissions: []exchange.Permission{exchange.Permission_update}},
				{Address: V, Permissions: allBut(exchange.Permission_update)}}}
		if c.bips {
			mk.CommitmentSettlementBips = 25
		}
		if c.cfee {
			mk.FeeCreateCommitmentFlat = []sdk.Coin{cfeeCoin}
		}
		if c.denom {
			mk.IntermediaryDenom = "cherry"
		}
		_, err := k.CreateMarket(ctx0, mk)
		e.must(err, "create commitments market")
		marketOf[c] = id
		id++
	}
	confTerm := func(c conf) string {
		return fmt.Sprintf("{| mc_accepting := %s; mc_bips := %s; mc_cfee := %s; mc_denom := %s |}", coqBool(c.acc), coqBool(c.bips), coqBool(c.cfee), coqBool(c.denom))
	}
	read := func(ctx sdk.Context, m uint32) conf {
		mk := k.GetMarket(ctx, m)
		if mk == nil {
			e.t.Fatalf("market %d not found", m)
		}
		return conf{mk.AcceptingCommitments, mk.CommitmentSettlementBips > 0, len(mk.FeeCreateCommitmentFlat) > 0, mk.IntermediaryDenom != ""}
	}
	grantsOf := func(ctx sdk.Context, m uint32) string {
		var out []string
		for _, ag := range k.GetAccessGrants(ctx, m) {
			for _, p := range ag.Permissions {
				out = append(out, fmt.Sprintf("(%s, %s, %s)", nTerm(int64(m)), nTerm(e.id(ag.Address)), c11PermNames[p]))
			}
		}
		return coqList(out)
	}
	type op struct {
		term string
		msg  sdk.Msg
		desc map[string]any
	}
	accepting := func(m uint32, c string, v bool) op {
		return op{fmt.Sprintf("(CoAccepting %s %s)", nTerm(e.id(c)), coqBool(v)),
			&exchange.MsgMarketUpdateAcceptingCommitmentsRequest{Admin: c, MarketId: m, AcceptingCommitments: v},
			map[string]any{"op": "MarketUpdateAcceptingCommitments", "caller": e.id(c), "accepting_commitments": v}}
	}
	denom := func(m uint32, c string, v bool) op {
		d := ""
		if v {
			d = "cherry"
		}
		return op{fmt.Sprintf("(CoDenom %s %s)", nTerm(e.id(c)), coqBool(v)),
			&exchange.MsgMarketUpdateIntermediaryDenomRequest{Admin: c, MarketId: m, IntermediaryDenom: d},
			map[string]any{"op": "MarketUpdateIntermediaryDenom", "caller": e.id(c), "denom": d}}
	}
	fees := func(m uint32, c string, add, remove, set, unset bool) op {
		msg := &exchange.MsgGovManageFeesRequest{Authority: c, MarketId: m, UnsetFeeCommitmentSettlementBips: unset}
		if add {
			msg.AddFeeCreateCommitmentFlat = []sdk.Coin{cfeeCoin}
		}
		if remove {
			msg.RemoveFeeCreateCommitmentFlat = []sdk.Coin{cfeeCoin}
		}
		if set {
			msg.SetFeeCommitmentSettlementBips = 25
		}
		return op{fmt.Sprintf("(CoFees %s %s %s %s %s)", nTerm(e.id(c)), coqBool(add), coqBool(remove), coqBool(set), coqBool(unset)), msg,
			map[string]any{"op": "GovManageFees", "caller": e.id(c), "add_create_commitment_fee": add, "remove_create_commitment_fee": remove, "set_bips": set, "unset_bips": unset}}
	}
	runHist := func(kind string, m uint32, ops func(ctx sdk.Context) []op, steps int) {
		hctx, _ := ctx0.CacheContext()
		c0 := read(hctx, m)
		st := grantsOf(hctx, m)
		var terms []string
		var descs []map[string]any
		okN := 0
		for i := 0; i < steps; i++ {
			list := ops(hctx)
			if i >= len(list) && kind != "random" {
				break
			}
			o := list[0]
			if kind != "random" {
				o = list[i]
			}
			h0 := e.dumpHash(hctx)
			sctx, write := hctx.CacheContext()
			err := e.send(sctx, o.msg)
			after := read(sctx, m)
			wrote := false
			if err == nil {
				write()
				okN++
				e.w.Count("commit_steps_accepted")
			} else {
				wrote = e.dumpHash(sctx) != h0
			}
			e.w.Count("commit_steps")
			terms = append(terms, fmt.Sprintf("{| co_op := %s; co_ok := %s; co_after := %s; co_wrote := %s |}", o.term, coqBool(err == nil), confTerm(after), coqBool(wrote)))
			o.desc["passed"] = err == nil
			o.desc["market_after"] = map[string]bool{"accepting_commitments": after.acc, "settlement_bips": after.bips, "create_commitment_fee": after.cfee, "intermediary_denom": after.denom}
			descs = append(descs, o.desc)
		}
		e.w.Add(fmt.Sprintf("CCommit 0%%N %s %s %s %s", st, nTerm(int64(m)), confTerm(c0), coqList(terms)),
			map[string]any{"kind": "commitment_settings_history", "shape": kind, "market": m,
				"market_before": map[string]bool{"accepting_commitments": c0.acc, "settlement_bips": c0.bips, "create_commitment_fee": c0.cfee, "intermediary_denom": c0.denom}, "steps": descs})
		e.w.Count("commit_histories")
		if okN > 0 {
			e.w.Nontrivial(fmt.Sprintf("ch/%s/%d/%s", kind, m, strings.Join(terms, "")))
		}
	}
	callers := []string{U, V, W, e.auth}
	// matrix: every configuration x caller x new value, one request each
	for c, m := range marketOf {
		_ = c
		for _, who := range callers {
			for _, v := range []bool{true, false} {
				who, v, m := who, v, m
				runHist("single", m, func(sdk.Context) []op { return []op{accepting(m, who, v)} }, 1)
			}
		}
	}
	// the sequences: rejected, change the market so that a condition on OTHER fields would flip, try again
	for _, c0 := range []conf{{false, false, false, false}, {false, false, false, true}, {true, false, false, false}} {
		m := marketOf[c0]
		runHist("reserved_branch_sequence", m, func(sdk.Context) []op {
			return []op{
				accepting(m, U, true), // no commitment fees: reserved for the authority
				denom(m, U, true),     // legal with PERMISSION_UPDATE
				accepting(m, U, true), // an intermediary denom is not a commitment fee
				denom(m, U, false), accepting(m, U, true),
				denom(m, V, true),                            // no PERMISSION_UPDATE
				fees(m, U, true, false, false, false),        // fees are governance's
				fees(m, e.auth, true, false, false, false),   // a creation fee appears
				accepting(m, W, true), accepting(m, V, true), // still need the permission
				accepting(m, U, true), accepting(m, U, true), // now allowed; then "already"
				accepting(m, U, false),
				fees(m, e.auth, false, true, false, false), // fee removed again
				accepting(m, U, true),                      // reserved again
				denom(m, U, true), accepting(m, U, true),
				fees(m, e.auth, false, false, true, false), // settlement bips
				accepting(m, U, true), accepting(m, U, false),
				fees(m, e.auth, false, false, false, true), // bips unset: no fees at all
				accepting(m, U, true),
				accepting(m, e.auth, true), // the authority may
				accepting(m, U, false),     // switching OFF is always the holder's
				accepting(m, U, true),
			}
		}, 40)
	}
	// random histories
	nh := scale(80, 2000)
	confs := make([]conf, 0, 16)
	for c := range marketOf {
		confs = append(confs, c)
	}
	sort.Slice(confs, func(i, j int) bool { return marketOf[confs[i]] < marketOf[confs[j]] })
	for h := 0; h < nh; h++ {
		m := marketOf[confs[e.r.Intn(len(confs))]]
		runHist("random", m, func(ctx sdk.Context) []op {
			cur := read(ctx, m)
			who := callers[e.r.Intn(len(callers))]
			if e.r.Intn(2) == 0 {
				who = U
			}
			switch k := e.r.Intn(10); {
			case k < 5:
				v := !cur.acc
				if e.r.Intn(6) == 0 {
					v = cur.acc
				}
				return []op{accepting(m, who, v)}
			case k < 7:
				return []op{denom(m, who, e.r.Intn(2) == 0)}
			default:
				if e.r.Intn(3) != 0 {
					who = e.auth
				}
				switch e.r.Intn(4) {
				case 0:
					return []op{fees(m, who, true, false, false, false)}
				case 1:
					return []op{fees(m, who, false, true, false, false)}
				case 2:
					return []op{fees(m, who, false, false, true, false)}
				}
				return []op{fees(m, who, false, false, false, true)}
			}
		}, 10)
	}
}

// ---------------------------------------------------------------- orders of two markets with interleaved ids

func (e *c11Env) orderRoles() {
	ctx0, _ := e.base.CacheContext()
	k := e.app.ExchangeKeeper
	type ord struct {
		id     uint64
		market uint32
		owner  sdk.AccAddress
		isAsk  bool
	}
	var orders []ord
	for i := 0; i < 6; i++ { // ids n, n+1, …: markets alternate, so the two markets' orders share one id range
		m := uint32(1 + i%2)
		var id uint64
		var err error
		owner := e.seller
		if i%3 == 0 {
			id, err = k.CreateBidOrder(ctx0, exchange.BidOrder{MarketId: m, Buyer: e.buyer.String(), Assets: sdk.NewInt64Coin("apple", 1), Price: sdk.NewInt64Coin("peach", 10)}, nil)
			owner = e.buyer
		} else {
			id, err = k.CreateAskOrder(ctx0, exchange.AskOrder{MarketId: m, Seller: e.seller.String(), Assets: sdk.NewInt64Coin("apple", 1), Price: sdk.NewInt64Coin("peach", 10)}, nil)
		}
		e.must(err, "interleaved order")
		orders = append(orders, ord{id, m, owner, i%3 != 0})
	}
	type role struct {
		name   string
		addr   string
		market uint32
		perms  []exchange.Permission
	}
	roles := []role{
		{"cancel_holder_market_1", addrN(170).String(), 1, []exchange.Permission{exchange.Permission_cancel}},
		{"cancel_holder_market_2", addrN(171).String(), 2, []exchange.Permission{exchange.Permission_cancel}},
		{"set_ids_holder_market_1", addrN(172).String(), 1, []exchange.Permission{exchange.Permission_set_ids}},
		{"set_ids_holder_market_2", addrN(173).String(), 2, []exchange.Permission{exchange.Permission_set_ids}},
		{"all_but_cancel_and_set_ids_both_markets", addrN(174).String(), 0, []exchange.Permission{exchange.Permission_settle, exchange.Permission_withdraw,
			exchange.Permission_update, exchange.Permission_permissions, exchange.Permission_attributes}},
		{"stranger", addrN(175).String(), 0, nil},
		{"authority", e.auth, 0, nil},
		{"seller", e.seller.String(), 0, nil},
		{"buyer", e.buyer.String(), 0, nil},
	}
	for _, r := range roles {
		for _, m := range []uint32{1, 2} {
			if len(r.perms) > 0 && (r.market == 0 || r.market == m) {
				e.must(k.UpdatePermissions(ctx0, &exchange.MsgMarketManagePermissionsRequest{Admin: e.auth, MarketId: m,
					ToGrant: []exchange.AccessGrant{{Address: r.addr, Permissions: r.perms}}}), "order roles grant")
			}
		}
	}
	st := coqList(e.grants(ctx0))
	for _, o := range orders {
		for _, r := range roles {
			{ // CancelOrder names no market
				ctx, _ := ctx0.CacheContext()
				err := e.send(ctx, &exchange.MsgCancelOrderRequest{Signer: r.addr, OrderId: o.id})
				got, _ := k.GetOrder(ctx, o.id)
				e.w.Add(fmt.Sprintf("CCancel 0%%N %s {| o_id := %s; o_market := %s; o_owner := %s |} %s %s %s",
					st, nTerm(int64(o.id)), nTerm(int64(o.market)), nTerm(e.id(o.owner.String())), nTerm(e.id(r.addr)), coqBool(err == nil), coqBool(got != nil)),
					map[string]any{"kind": "cancel_order_roles", "order_market": o.market, "order_is_ask": o.isAsk, "signer": r.name, "passed": err == nil, "order_still_there": got != nil})
				e.w.Count("cancel_cases")
				if err == nil {
					e.w.Count("cancel_passed")
				}
				e.w.Nontrivial(fmt.Sprintf("or/c/%d/%s", o.id, r.name))
			}
			for _, reqM := range []uint32{1, 2} { // MarketSetOrderExternalID names a market
				ctx, _ := ctx0.CacheContext()
				before, _ := k.GetOrder(ctx, o.id)
				err := e.send(ctx, &exchange.MsgMarketSetOrderExternalIDRequest{Admin: r.addr, MarketId: reqM, OrderId: o.id, ExternalId: "c11-role-id"})
				after, _ := k.GetOrder(ctx, o.id)
				changed := err == nil && before != nil && after != nil && before.String() != after.String()
				e.w.Add(fmt.Sprintf("CCross %s 0%%N %s %s %s %s %s", coqStr("MarketSetOrderExternalID"), st, nTerm(int64(reqM)), nTerm(int64(o.market)), nTerm(e.id(r.addr)), coqBool(changed)),
					map[string]any{"kind": "set_order_external_id_roles", "request_market": reqM, "order_market": o.market, "order_is_ask": o.isAsk, "caller": r.name,
						"passed": err == nil, "item_changed": changed})
				e.w.Count("cross_cases")
				if changed {
					e.w.Count("cross_item_changed")
				}
				e.w.Nontrivial(fmt.Sprintf("or/s/%d/%d/%s", o.id, reqM, r.name))
			}
		}
	}
}

// ---------------------------------------------------------------- payment roles: scripted histories around a change of target

func (e *c11Env) paymentRoleHistories() {
	S, T, X, W := e.payAccounts()
	ctx0, _ := e.base.CacheContext()
	for _, a := range []sdk.AccAddress{S, T, X, W} {
		ensureAccount(e.app, ctx0, a)
		fund(e.t, e.app, ctx0, a, e.coins("100000plum,100000pear,100000nhash"))
	}
	s, t, x, w := S.String(), T.String(), X.String(), W.String()
	run := func(kind string, ops func(cur func() map[string]*exchange.Payment) []func() c11PayOp) {
		hctx, _ := ctx0.CacheContext()
		st0, _ := e.listPayments(hctx)
		var steps []string
		var descs []map[string]any
		cur := func() map[string]*exchange.Payment { _, m := e.listPayments(hctx); return m }
		okN := 0
		for _, mk := range ops(cur) {
			op := mk()
			sctx, write := hctx.CacheContext()
			err := e.send(sctx, op.msg)
			after, _ := e.listPayments(sctx)
			if err == nil {
				write()
				okN++
				e.w.Count("payment_history_ops_accepted")
			}
			e.w.Count("payment_history_ops")
			steps = append(steps, fmt.Sprintf("(%s, %s, %s)", op.term, coqBool(err == nil), after))
			op.desc["passed"] = err == nil
			descs = append(descs, op.desc)
		}
		e.w.Add(fmt.Sprintf("CPayHist %s %s", st0, coqList(steps)), map[string]any{"kind": "payment_role_history", "shape": kind, "steps": descs})
		e.w.Count("payment_histories")
		if okN > 0 {
			e.w.Nontrivial("prh/" + kind)
		}
	}
	// every account tries every operation on one payment, before and after its target is changed, and
	// after it was cancelled and re-created by somebody else under the same external id
	signers := []string{s, t, x, w, e.auth}
	run("retarget", func(cur func() map[string]*exchange.Payment) []func() c11PayOp {
		var ops []func() c11PayOp
		ops = append(ops, func() c11PayOp { return e.payOpCreate(s, "r1", t) })
		ops = append(ops, func() c11PayOp { return e.payOpCreate(x, "r1", t) }) // same external id, another source
		tryAll := func() {
			for _, who := range signers {
				who := who
				if who != s && who != x { // (the sources' own cancellations and retargets come later, in order)
					ops = append(ops, func() c11PayOp { return e.payOpCancel(who, []string{"r1"}) })
					ops = append(ops, func() c11PayOp { return e.payOpRetarget(who, "r1", w) })
				}
				ops = append(ops, func() c11PayOp { return e.payOpRejectAll(who, []string{w}) }) // nobody has a payment from W
			}
		}
		tryAll()
		ops = append(ops, func() c11PayOp { return e.payOpRetarget(t, "r1", t) })      // the TARGET retargeting: not his payment
		ops = append(ops, func() c11PayOp { return e.payOpRetarget(s, "r1", w) })      // the source: T -> W
		ops = append(ops, func() c11PayOp { return e.payOpAccept(t, s, "r1", cur()) }) // the old target
		ops = append(ops, func() c11PayOp { return e.payOpReject(t, s, "r1") })        // the old target
		ops = append(ops, func() c11PayOp { return e.payOpRejectAll(t, []string{s}) }) // T still has no payment from S …
		ops = append(ops, func() c11PayOp { return e.payOpRejectAll(t, []string{x}) }) // … but has one from X: goes through
		ops = append(ops, func() c11PayOp { return e.payOpCancel(x, []string{"r1"}) }) // already rejected
		ops = append(ops, func() c11PayOp { return e.payOpReject(x, s, "r1") })        // a non-target naming another's payment
		ops = append(ops, func() c11PayOp { return e.payOpRejectAll(x, []string{s}) }) // a non-target naming another's source
		ops = append(ops, func() c11PayOp { return e.payOpCancel(x, []string{"r1"}) }) // another's external id
		ops = append(ops, func() c11PayOp { return e.payOpCancel(w, []string{"r1"}) }) // the new target cancelling
		ops = append(ops, func() c11PayOp { return e.payOpAccept(w, x, "r1", cur()) }) // wrong source
		ops = append(ops, func() c11PayOp { return e.payOpAccept(w, s, "r1", cur()) }) // the new target accepts
		ops = append(ops, func() c11PayOp { return e.payOpAccept(w, s, "r1", cur()) }) // gone
		ops = append(ops, func() c11PayOp { return e.payOpCreate(x, "r1", "") })       // X re-uses the id, no target
		ops = append(ops, func() c11PayOp { return e.payOpAccept(t, x, "r1", cur()) }) // nobody can accept a payment without target
		ops = append(ops, func() c11PayOp { return e.payOpReject(t, x, "r1") })
		ops = append(ops, func() c11PayOp { return e.payOpCancel(s, []string{"r1"}) }) // S has no r1 any more
		ops = append(ops, func() c11PayOp { return e.payOpRetarget(x, "r1", s) })
		ops = append(ops, func() c11PayOp { return e.payOpReject(s, x, "r1") })
		return ops
	})
	run("cancel_lists", func(cur func() map[string]*exchange.Payment) []func() c11PayOp {
		var ops []func() c11PayOp
		ops = append(ops, func() c11PayOp { return e.payOpCreate(s, "c1", t) })
		ops = append(ops, func() c11PayOp { return e.payOpCreate(s, "c2", x) })
		ops = append(ops, func() c11PayOp { return e.payOpCreate(x, "c3", s) })
		ops = append(ops, func() c11PayOp { return e.payOpCancel(s, []string{"c1", "c3"}) }) // c3 is X's: all or nothing
		ops = append(ops, func() c11PayOp { return e.payOpCancel(x, []string{"c3", "c1"}) }) // c1 is S's
		ops = append(ops, func() c11PayOp { return e.payOpCancel(t, []string{"c1"}) })       // the target cancelling
		ops = append(ops, func() c11PayOp { return e.payOpRejectAll(s, []string{x, t}) })    // S has nothing from T
		ops = append(ops, func() c11PayOp { return e.payOpRejectAll(s, []string{x}) })       // rejects c3
		ops = append(ops, func() c11PayOp { return e.payOpCancel(s, []string{"c1", "c2"}) }) // both his
		ops = append(ops, func() c11PayOp { return e.payOpCancel(s, []string{"c1"}) })
		return ops
	})
}
