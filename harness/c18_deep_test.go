//go:build c18

package harness

// C18 — exchange, marker and metadata genesis against their Coq models (Genesis/ExchangeGenesis.v,
// MarkerGenesis.v, MetadataGenesis.v): the genesis the real modules export, the raw secondary-index
// entries of their stores, the tables the models take from outside, perturbed genesis files.

import (
	"crypto/sha256"
	"encoding/hex"
	"encoding/json"
	"fmt"
	"math/rand"
	"strings"
	"testing"
	"time"

	sdkmath "cosmossdk.io/math"
	storetypes "cosmossdk.io/store/types"

	"github.com/cosmos/cosmos-sdk/codec"
	sdk "github.com/cosmos/cosmos-sdk/types"
	authtypes "github.com/cosmos/cosmos-sdk/x/auth/types"

	"github.com/provenance-io/provenance/x/exchange"
	"github.com/provenance-io/provenance/x/hold"
	markertypes "github.com/provenance-io/provenance/x/marker/types"
	mdtypes "github.com/provenance-io/provenance/x/metadata/types"
)

type c18Deep struct {
	Exch exchange.GenesisState
	Mark markertypes.GenesisState
	Md   mdtypes.GenesisState
}

func c18ParseDeep(cdc codec.Codec, st map[string]json.RawMessage) (d c18Deep, err error) {
	err = try(func() error {
		cdc.MustUnmarshalJSON(st[exchange.ModuleName], &d.Exch)
		cdc.MustUnmarshalJSON(st[markertypes.ModuleName], &d.Mark)
		cdc.MustUnmarshalJSON(st[mdtypes.ModuleName], &d.Md)
		return nil
	})
	return
}

// keeper-level export of the three modules from the current (possibly uncommitted InitChain) state
func (n *c18Net) keeperDeep() (d c18Deep, err error) {
	err = try(func() error {
		ctx := n.queryCtx()
		d.Exch = *n.app.ExchangeKeeper.ExportGenesis(ctx)
		d.Mark = *n.app.MarkerKeeper.ExportGenesis(ctx)
		d.Md = *n.app.MetadataKeeper.ExportGenesis(ctx)
		return nil
	})
	return
}

// ---------- Coq terms ----------

func c18AddrOpt(s string) []byte {
	if s == "" {
		return nil
	}
	a, err := sdk.AccAddressFromBech32(s)
	if err != nil {
		return nil
	}
	return a
}

func c18Hash(bz []byte, err error) string {
	if err != nil {
		return hxs("unmarshalable")
	}
	h := sha256.Sum256(bz)
	return hx(h[:12])
}

func c18CoinList(cs []sdk.Coin) string {
	var items []string
	for _, c := range cs {
		items = append(items, c18Coin(c))
	}
	return coqList(items)
}

func c18Coin(c sdk.Coin) string {
	amt := "0"
	if !c.Amount.IsNil() {
		amt = zInt(c.Amount)
	}
	return fmt.Sprintf("(%s, %s)", hxs(c.Denom), amt)
}

func c18StrKeys(xs []string) string {
	var items []string
	for _, x := range xs {
		items = append(items, hxs(x))
	}
	return coqList(items)
}

func c18AddrKeys(xs []string) string {
	var items []string
	for _, x := range xs {
		items = append(items, hx(c18AddrOpt(x)))
	}
	return coqList(items)
}

func c18Ratios(rs []exchange.FeeRatio) string {
	var items []string
	for _, r := range rs {
		items = append(items, fmt.Sprintf("{| rt_price := %s; rt_fee := %s |}", c18Coin(r.Price), c18Coin(r.Fee)))
	}
	return coqList(items)
}

func c18ExchCoq(g exchange.GenesisState) string {
	params := "None"
	if g.Params != nil {
		var sp []string
		for _, d := range g.Params.DenomSplits {
			sp = append(sp, fmt.Sprintf("(%s, %s)", hxs(d.Denom), c18N(uint64(d.Split))))
		}
		params = fmt.Sprintf("(Some {| xp_default := %s; xp_splits := %s; xp_fee_create := %s; xp_fee_accept := %s |})",
			c18N(uint64(g.Params.DefaultSplit)), coqList(sp), c18CoinList(g.Params.FeeCreatePaymentFlat), c18CoinList(g.Params.FeeAcceptPaymentFlat))
	}
	var ms, os, cs, ps []string
	for _, m := range g.Markets {
		var gr []string
		for _, ag := range m.AccessGrants {
			var perms []string
			for _, p := range ag.Permissions {
				perms = append(perms, c18N(uint64(uint32(p))))
			}
			gr = append(gr, fmt.Sprintf("{| gr_addr := %s; gr_perms := %s |}", hx(c18AddrOpt(ag.Address)), coqList(perms)))
		}
		ms = append(ms, fmt.Sprintf("{| mk_id := %s; mk_details := %s; mk_ask_flat := %s; mk_bid_flat := %s; mk_seller_flat := %s; mk_buyer_flat := %s; mk_commit_flat := %s; "+
			"mk_seller_ratios := %s; mk_buyer_ratios := %s; mk_accepting_orders := %s; mk_user_settle := %s; mk_accepting_commitments := %s; mk_grants := %s; "+
			"mk_req_ask := %s; mk_req_bid := %s; mk_req_commit := %s; mk_bips := %s; mk_intermediary := %s |}",
			c18N(uint64(m.MarketId)), c18Hash(m.MarketDetails.Marshal()), c18CoinList(m.FeeCreateAskFlat), c18CoinList(m.FeeCreateBidFlat),
			c18CoinList(m.FeeSellerSettlementFlat), c18CoinList(m.FeeBuyerSettlementFlat), c18CoinList(m.FeeCreateCommitmentFlat),
			c18Ratios(m.FeeSellerSettlementRatios), c18Ratios(m.FeeBuyerSettlementRatios), coqBool(m.AcceptingOrders), coqBool(m.AllowUserSettlement),
			coqBool(m.AcceptingCommitments), coqList(gr), c18StrKeys(m.ReqAttrCreateAsk), c18StrKeys(m.ReqAttrCreateBid), c18StrKeys(m.ReqAttrCreateCommitment),
			c18N(uint64(m.CommitmentSettlementBips)), hxs(m.IntermediaryDenom)))
	}
	for _, o := range g.Orders {
		var owner, ext string
		var assets, price sdk.Coin
		var fees []sdk.Coin
		bid, partial, market := false, false, uint32(0)
		if a := o.GetAskOrder(); a != nil {
			owner, ext, assets, price, partial, market = a.Seller, a.ExternalId, a.Assets, a.Price, a.AllowPartial, a.MarketId
			if a.SellerSettlementFlatFee != nil {
				fees = []sdk.Coin{*a.SellerSettlementFlatFee}
			}
		} else if b := o.GetBidOrder(); b != nil {
			bid = true
			owner, ext, assets, price, partial, market = b.Buyer, b.ExternalId, b.Assets, b.Price, b.AllowPartial, b.MarketId
			fees = b.BuyerSettlementFees
		}
		os = append(os, fmt.Sprintf("{| od_id := %s; od_bid := %s; od_market := %s; od_owner := %s; od_assets := %s; od_price := %s; od_fees := %s; od_partial := %s; od_ext := %s |}",
			c18N(o.OrderId), coqBool(bid), c18N(uint64(market)), hx(c18AddrOpt(owner)), c18Coin(assets), c18Coin(price), c18CoinList(fees), coqBool(partial), hxs(ext)))
	}
	for _, c := range g.Commitments {
		cs = append(cs, fmt.Sprintf("{| cm_market := %s; cm_addr := %s; cm_amount := %s |}", c18N(uint64(c.MarketId)), hx(c18AddrOpt(c.Account)), c18CoinList(c.Amount)))
	}
	for _, p := range g.Payments {
		ps = append(ps, fmt.Sprintf("{| py_source := %s; py_source_amt := %s; py_target := %s; py_target_amt := %s; py_ext := %s |}",
			hx(c18AddrOpt(p.Source)), c18CoinList(p.SourceAmount), hx(c18AddrOpt(p.Target)), c18CoinList(p.TargetAmount), hxs(p.ExternalId)))
	}
	return fmt.Sprintf("{| xg_params := %s;\n  xg_markets := %s;\n  xg_orders := %s;\n  xg_last_market := %s; xg_last_order := %s;\n  xg_commitments := %s;\n  xg_payments := %s |}",
		params, coqList(ms), coqList(os), c18N(uint64(g.LastMarketId)), c18N(g.LastOrderId), coqList(cs), coqList(ps))
}

func c18MarkerTerm(m markertypes.MarkerAccount) string {
	var addr []byte
	var num, seq uint64
	if m.BaseAccount != nil {
		addr, num, seq = c18AddrOpt(m.BaseAccount.Address), m.BaseAccount.AccountNumber, m.BaseAccount.Sequence
	}
	var acc []string
	for _, ag := range m.AccessControl {
		var perms []string
		for _, p := range ag.Permissions {
			perms = append(perms, c18N(uint64(uint32(p))))
		}
		acc = append(acc, fmt.Sprintf("{| ac_addr := %s; ac_perms := %s |}", hx(c18AddrOpt(ag.Address)), coqList(perms)))
	}
	supply := "0"
	if !m.Supply.IsNil() {
		supply = zInt(m.Supply)
	}
	return fmt.Sprintf("{| mr_addr := %s; mr_accnum := %s; mr_seq := %s; mr_manager := %s; mr_access := %s; mr_status := %s; mr_denom := %s; mr_supply := %s; mr_type := %s; mr_fixed := %s; mr_gov := %s; mr_forced := %s; mr_req := %s |}",
		hx(addr), c18N(num), c18N(seq), hx(c18AddrOpt(m.Manager)), coqList(acc), c18N(uint64(uint32(m.Status))), hxs(m.Denom), supply,
		c18N(uint64(uint32(m.MarkerType))), coqBool(m.SupplyFixed), coqBool(m.AllowGovernanceControl), coqBool(m.AllowForcedTransfer), c18StrKeys(m.RequiredAttributes))
}

func c18MarkerCoq(g markertypes.GenesisState) string {
	var ms, ds, ns []string
	for _, m := range g.Markers {
		ms = append(ms, c18MarkerTerm(m))
	}
	for _, d := range g.DenySendAddresses {
		ds = append(ds, fmt.Sprintf("(%s, %s)", hx(c18AddrOpt(d.MarkerAddress)), hx(c18AddrOpt(d.DenyAddress))))
	}
	for _, grp := range g.NetAssetValues {
		var navs []string
		for _, nv := range grp.NetAssetValues {
			navs = append(navs, fmt.Sprintf("{| nv_denom := %s; nv_amount := %s; nv_volume := %s; nv_height := %s |}", hxs(nv.Price.Denom), zInt(nv.Price.Amount), c18N(nv.Volume), c18N(nv.UpdatedBlockHeight)))
		}
		ns = append(ns, fmt.Sprintf("(%s, %s)", hx(c18AddrOpt(grp.Address)), coqList(navs)))
	}
	return fmt.Sprintf("{| mkg_params := %s;\n  mkg_markers := %s;\n  mkg_deny := %s;\n  mkg_navs := %s |}", c18Hash(g.Params.Marshal()), coqList(ms), coqList(ds), coqList(ns))
}

func c18MdAddr(s string) []byte {
	a, err := mdtypes.MetadataAddressFromBech32(s)
	if err != nil {
		return nil
	}
	return a.Bytes()
}

func c18MdCoq(g mdtypes.GenesisState) string {
	var scs, ses, rcs, sss, css, rss, los, ns []string
	for _, s := range g.Scopes {
		var ow []string
		for _, p := range s.Owners {
			ow = append(ow, fmt.Sprintf("{| pt_addr := %s; pt_role := %s; pt_optional := %s |}", hx(c18AddrOpt(p.Address)), c18N(uint64(uint32(p.Role))), coqBool(p.Optional)))
		}
		scs = append(scs, fmt.Sprintf("{| sc_id := %s; sc_spec := %s; sc_owners := %s; sc_access := %s; sc_vo := %s; sc_rollup := %s |}",
			hx(s.ScopeId.Bytes()), hx(s.SpecificationId.Bytes()), coqList(ow), c18AddrKeys(s.DataAccess), hx(c18AddrOpt(s.ValueOwnerAddress)), coqBool(s.RequirePartyRollup)))
	}
	for _, s := range g.Sessions {
		ses = append(ses, fmt.Sprintf("{| se_id := %s; se_body := %s |}", hx(s.SessionId.Bytes()), c18Hash(s.Marshal())))
	}
	for _, r := range g.Records {
		rcs = append(rcs, fmt.Sprintf("{| rc_session := %s; rc_name := %s; rc_body := %s |}", hx(r.SessionId.Bytes()), hxs(r.Name), c18Hash(r.Marshal())))
	}
	for _, s := range g.ScopeSpecifications {
		var cs []string
		for _, c := range s.ContractSpecIds {
			cs = append(cs, hx(c.Bytes()))
		}
		sss = append(sss, fmt.Sprintf("{| ss_id := %s; ss_owners := %s; ss_cspecs := %s; ss_body := %s |}", hx(s.SpecificationId.Bytes()), c18AddrKeys(s.OwnerAddresses), coqList(cs), c18Hash(s.Marshal())))
	}
	for _, s := range g.ContractSpecifications {
		css = append(css, fmt.Sprintf("{| cs_id := %s; cs_owners := %s; cs_body := %s |}", hx(s.SpecificationId.Bytes()), c18AddrKeys(s.OwnerAddresses), c18Hash(s.Marshal())))
	}
	for _, s := range g.RecordSpecifications {
		rss = append(rss, fmt.Sprintf("{| rs_id := %s; rs_body := %s |}", hx(s.SpecificationId.Bytes()), c18Hash(s.Marshal())))
	}
	for _, l := range g.ObjectStoreLocators {
		los = append(los, fmt.Sprintf("{| lo_owner := %s; lo_uri := %s; lo_enc := %s |}", hx(c18AddrOpt(l.Owner)), hxs(l.LocatorUri), hx(c18AddrOpt(l.EncryptionKey))))
	}
	for _, grp := range g.NetAssetValues {
		var navs []string
		for _, nv := range grp.NetAssetValues {
			navs = append(navs, fmt.Sprintf("{| sn_denom := %s; sn_amount := %s; sn_volume := %s; sn_height := %s |}", hxs(nv.Price.Denom), zInt(nv.Price.Amount), c18N(nv.Volume), c18N(nv.UpdatedBlockHeight)))
		}
		ns = append(ns, fmt.Sprintf("(%s, %s)", hx(c18MdAddr(grp.Address)), coqList(navs)))
	}
	return fmt.Sprintf("{| mg_params' := %s;\n  mg_scopes := %s;\n  mg_sessions := %s;\n  mg_records := %s;\n  mg_sspecs := %s;\n  mg_cspecs := %s;\n  mg_rspecs := %s;\n  mg_locators := %s;\n  mg_navs := %s |}",
		c18Hash(g.OSLocatorParams.Marshal()), coqList(scs), coqList(ses), coqList(rcs), coqList(sss), coqList(css), coqList(rss), coqList(los), coqList(ns))
}

func (d c18Deep) coq() string {
	return fmt.Sprintf("{| dg_exch := %s;\n dg_marker := %s;\n dg_md := %s |}", c18ExchCoq(d.Exch), c18MarkerCoq(d.Mark), c18MdCoq(d.Md))
}

// ---------- raw secondary-index entries ----------

// c18RawIndex lists the entries of a module store whose first key byte is NOT one of the given
// primary-record prefixes, as Coq pairs (key, value), in store order.
func (n *c18Net) rawIndex(storeKey string, primary ...byte) string {
	var items []string
	_ = try(func() error {
		st := n.queryCtx().KVStore(n.app.GetKey(storeKey))
		it := storetypes.KVStorePrefixIterator(st, nil)
		defer it.Close()
		for ; it.Valid(); it.Next() {
			k := it.Key()
			skip := len(k) == 0
			for _, p := range primary {
				if len(k) > 0 && k[0] == p {
					skip = true
				}
			}
			if !skip {
				items = append(items, fmt.Sprintf("(%s, %s)", hx(k), hx(it.Value())))
			}
		}
		return nil
	})
	return coqList(items)
}

func (n *c18Net) deepIndex() string {
	return fmt.Sprintf("{| di_exch := %s;\n di_marker := %s;\n di_md := %s |}",
		n.rawIndex(exchange.StoreKey, 0x00, 0x01, 0x02, 0x06, 0x07, 0x08, 0x63, 0x70),
		n.rawIndex(markertypes.StoreKey, 0x03, 0x04, 0x05),
		n.rawIndex(mdtypes.StoreKey, 0x00, 0x01, 0x02, 0x03, 0x04, 0x05, 0x21, 0x22, 0x23))
}

// ---------- the tables the models take from outside ----------

// c18DeepTables: holds as the hold genesis has them, the marker accounts of the auth genesis, the
// record addresses of every record named in any of the genesis values, the holders of the scope
// coins (the exported scopes carry them; the bank genesis holds the coins).
func c18DeepTables(cdc codec.Codec, st map[string]json.RawMessage, holds hold.GenesisState, stateMarkers string, base c18Deep, gs ...c18Deep) string {
	var held, pre, nums, recs, vo []string
	for _, h := range holds.Holds {
		for _, c := range h.Amount {
			held = append(held, fmt.Sprintf("(%s, %s, %s)", hx(c18Addr(h.Address)), hxs(c.Denom), zInt(c.Amount)))
		}
	}
	var ag authtypes.GenesisState
	nextAcc := uint64(0)
	if err := try(func() error { cdc.MustUnmarshalJSON(st[authtypes.ModuleName], &ag); return nil }); err == nil {
		if accs, err := authtypes.UnpackAccounts(ag.Accounts); err == nil {
			for _, a := range accs {
				if a.GetAccountNumber() >= nextAcc {
					nextAcc = a.GetAccountNumber() + 1
				}
				nums = append(nums, fmt.Sprintf("(%s, %s)", hx(a.GetAddress()), c18N(a.GetAccountNumber())))
				if m, ok := a.(*markertypes.MarkerAccount); ok {
					pre = append(pre, c18MarkerTerm(*m))
				}
			}
		}
	}
	seen := map[string]bool{}
	for _, g := range append([]c18Deep{base}, gs...) {
		for _, r := range g.Md.Records {
			id := string(r.SessionId.Bytes()) + "|" + r.Name
			if seen[id] {
				continue
			}
			seen[id] = true
			var ra mdtypes.MetadataAddress
			if err := try(func() error { ra = r.SessionId.MustGetAsRecordAddress(r.Name); return nil }); err == nil {
				recs = append(recs, fmt.Sprintf("(%s, %s, %s)", hx(r.SessionId.Bytes()), hxs(r.Name), hx(ra.Bytes())))
			}
		}
	}
	for _, s := range base.Md.Scopes {
		if a := c18AddrOpt(s.ValueOwnerAddress); len(a) > 0 {
			vo = append(vo, fmt.Sprintf("(%s, %s)", hx(s.ScopeId.Bytes()), hx(a)))
		}
	}
	return fmt.Sprintf("{| dt_held := %s; dt_pre_markers := %s; dt_accnums := %s; dt_next_acc := %s; dt_rec_addrs := %s; dt_vo0 := %s; dt_blocked := []; dt_state_markers := %s |}",
		coqList(held), coqList(pre), coqList(nums), c18N(nextAcc), coqList(recs), coqList(vo), stateMarkers)
}

// ---------- perturbed genesis of the three modules ----------

func c18DeepPerturbed(t *testing.T, r *rand.Rand, w *CaseWriter, label string, ref *c18Net, g1 c18Genesis, st1 map[string]json.RawMessage, holds hold.GenesisState, d1 c18Deep) {
	cdc := ref.app.AppCodec()
	d := d1
	what := ""
	rev := func(n int, swap func(i, j int)) {
		for i, j := 0, n-1; i < j; i, j = i+1, j-1 {
			swap(i, j)
		}
	}
	switch k := r.Intn(16); k {
	case 0:
		what = "exchange:orders-reversed"
		os := append([]exchange.Order{}, d.Exch.Orders...)
		rev(len(os), func(i, j int) { os[i], os[j] = os[j], os[i] })
		d.Exch.Orders = os
	case 1:
		what = "exchange:order-duplicate"
		if len(d.Exch.Orders) == 0 {
			return
		}
		d.Exch.Orders = append(append([]exchange.Order{}, d.Exch.Orders...), d.Exch.Orders[r.Intn(len(d.Exch.Orders))])
	case 2:
		what = "exchange:last-order-id-too-small"
		if len(d.Exch.Orders) == 0 {
			return
		}
		d.Exch.LastOrderId = d.Exch.Orders[len(d.Exch.Orders)-1].OrderId - 1
	case 3:
		what = "exchange:payment-duplicate"
		if len(d.Exch.Payments) == 0 {
			return
		}
		d.Exch.Payments = append(append([]exchange.Payment{}, d.Exch.Payments...), d.Exch.Payments[r.Intn(len(d.Exch.Payments))])
	case 4:
		what = "exchange:commitment-split-in-two"
		if len(d.Exch.Commitments) == 0 {
			return
		}
		cs := append([]exchange.Commitment{}, d.Exch.Commitments...)
		i := r.Intn(len(cs))
		c := cs[i]
		if len(c.Amount) == 0 || !c.Amount[0].Amount.GT(sdkmath.OneInt()) {
			return
		}
		part := sdk.NewCoins(sdk.NewCoin(c.Amount[0].Denom, sdkmath.OneInt()))
		cs[i].Amount = c.Amount.Sub(part...)
		cs = append(cs, exchange.Commitment{Account: c.Account, MarketId: c.MarketId, Amount: part})
		d.Exch.Commitments = cs
	case 5:
		what = "exchange:commitment-duplicate-exceeds-hold"
		if len(d.Exch.Commitments) == 0 {
			return
		}
		d.Exch.Commitments = append(append([]exchange.Commitment{}, d.Exch.Commitments...), d.Exch.Commitments[r.Intn(len(d.Exch.Commitments))])
	case 6:
		what = "exchange:markets-reversed+market-id-zero"
		ms := append([]exchange.Market{}, d.Exch.Markets...)
		rev(len(ms), func(i, j int) { ms[i], ms[j] = ms[j], ms[i] })
		extra := exchange.Market{MarketDetails: exchange.MarketDetails{Name: "auto id"}, AcceptingOrders: true,
			FeeCreateAskFlat: []sdk.Coin{sdk.NewInt64Coin("zcoin", 2), sdk.NewInt64Coin("acoin", 1)}}
		d.Exch.Markets = append(ms, extra)
	case 7:
		what = "exchange:external-id-clash"
		if len(d.Exch.Orders) < 2 {
			return
		}
		os := append([]exchange.Order{}, d.Exch.Orders...)
		set := func(o *exchange.Order, market uint32, id string) {
			if a := o.GetAskOrder(); a != nil {
				c := *a
				c.ExternalId, c.MarketId = id, market
				*o = *exchange.NewOrder(o.OrderId).WithAsk(&c)
			} else if b := o.GetBidOrder(); b != nil {
				c := *b
				c.ExternalId, c.MarketId = id, market
				*o = *exchange.NewOrder(o.OrderId).WithBid(&c)
			}
		}
		set(&os[0], 1, "clash")
		set(&os[len(os)-1], 1, "clash")
		d.Exch.Orders = os
	case 8:
		what = "marker:markers-reversed"
		ms := append([]markertypes.MarkerAccount{}, d.Mark.Markers...)
		rev(len(ms), func(i, j int) { ms[i], ms[j] = ms[j], ms[i] })
		d.Mark.Markers = ms
	case 9:
		what = "marker:deny-duplicate+navs-reversed"
		if len(d.Mark.DenySendAddresses) > 0 {
			d.Mark.DenySendAddresses = append(append([]markertypes.DenySendAddress{}, d.Mark.DenySendAddresses...), d.Mark.DenySendAddresses[0])
		}
		ns := append([]markertypes.MarkerNetAssetValues{}, d.Mark.NetAssetValues...)
		rev(len(ns), func(i, j int) { ns[i], ns[j] = ns[j], ns[i] })
		d.Mark.NetAssetValues = ns
	case 10:
		what = "marker:marker-dropped-from-marker-genesis"
		if len(d.Mark.Markers) == 0 {
			return
		}
		d.Mark.Markers = append([]markertypes.MarkerAccount{}, d.Mark.Markers[1:]...)
	case 11:
		what = "metadata:scopes-reversed"
		ss := append([]mdtypes.Scope{}, d.Md.Scopes...)
		rev(len(ss), func(i, j int) { ss[i], ss[j] = ss[j], ss[i] })
		d.Md.Scopes = ss
	case 12:
		what = "metadata:scope-duplicate-other-owner"
		if len(d.Md.Scopes) == 0 {
			return
		}
		s := d.Md.Scopes[r.Intn(len(d.Md.Scopes))]
		s.Owners = []mdtypes.Party{{Address: ref.accts[11].addr.String(), Role: mdtypes.PartyType_PARTY_TYPE_OWNER}}
		s.DataAccess = []string{ref.accts[10].addr.String(), ref.accts[10].addr.String()}
		s.SpecificationId = nil
		d.Md.Scopes = append(append([]mdtypes.Scope{}, d.Md.Scopes...), s)
	case 13:
		what = "metadata:locator-duplicate"
		if len(d.Md.ObjectStoreLocators) == 0 {
			return
		}
		d.Md.ObjectStoreLocators = append(append([]mdtypes.ObjectStoreLocator{}, d.Md.ObjectStoreLocators...), d.Md.ObjectStoreLocators[0])
	case 14:
		what = "metadata:specs-reversed+scope-spec-duplicate-fewer-owners"
		ss := append([]mdtypes.ScopeSpecification{}, d.Md.ScopeSpecifications...)
		rev(len(ss), func(i, j int) { ss[i], ss[j] = ss[j], ss[i] })
		if len(ss) > 0 {
			dup := ss[0]
			dup.OwnerAddresses = []string{ref.accts[11].addr.String()}
			dup.ContractSpecIds = nil
			ss = append(ss, dup)
		}
		d.Md.ScopeSpecifications = ss
	default:
		what = "metadata:nav-volume-zero+sessions-reversed"
		ns := append([]mdtypes.MarkerNetAssetValues{}, d.Md.NetAssetValues...)
		for i := range ns {
			if len(ns[i].NetAssetValues) > 0 {
				nv := append([]mdtypes.NetAssetValue{}, ns[i].NetAssetValues...)
				nv[0].Volume = 0
				ns[i].NetAssetValues = nv
				break
			}
		}
		d.Md.NetAssetValues = ns
		se := append([]mdtypes.Session{}, d.Md.Sessions...)
		rev(len(se), func(i, j int) { se[i], se[j] = se[j], se[i] })
		d.Md.Sessions = se
	}
	st := map[string]json.RawMessage{}
	for k, v := range st1 {
		st[k] = v
	}
	if err := try(func() error {
		st[exchange.ModuleName] = cdc.MustMarshalJSON(&d.Exch)
		st[markertypes.ModuleName] = cdc.MustMarshalJSON(&d.Mark)
		st[mdtypes.ModuleName] = cdc.MustMarshalJSON(&d.Md)
		return nil
	}); err != nil {
		w.Count("deep_perturbed_unencodable")
		return
	}
	bz, err := json.Marshal(st)
	if err != nil {
		return
	}
	gp := g1
	gp.AppState = bz
	obs := "None"
	accepted := false
	var do c18Deep
	if e, err := c18Start(t, gp, ""); err == nil {
		do, err = e.keeperDeep()
		if err == nil {
			accepted = true
			obs = "(Some (" + do.coq() + ",\n " + e.deepIndex() + "))"
		}
		e.close()
	}
	w.Count("deep_perturbed_" + strings.SplitN(what, ":", 2)[0])
	if accepted {
		w.Count("deep_perturbed_accepted")
	} else {
		w.Count("deep_perturbed_rejected")
	}
	tabs := c18DeepTables(cdc, st1, holds, "[]", d1, d, do)
	w.Add(fmt.Sprintf("CDeepImport %s\n (%s)\n (%s)\n %s", coqStr(label+" "+what), tabs, d.coq(), obs),
		map[string]any{"kind": "deep_perturbed_import", "label": label, "perturbation": what, "accepted": accepted})
	w.Nontrivial(what + fmt.Sprint(accepted))
}

var _ = hex.EncodeToString
var _ = time.Second
