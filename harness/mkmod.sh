#!/bin/sh
# Regenerates go.mod/go.sum for the harness module from /repo's current go.mod
# (same requirements and replace block, plus the replace of provenance itself by /repo).
set -e
cd "$(dirname "$0")"
REPO=${VERIF_REPO:-/repo}
{
  echo "module github.com/provenance-io/provenance/verifharness"
  sed -e '/^module /d' "$REPO/go.mod"
  echo
  echo "require github.com/provenance-io/provenance v0.0.0-00010101000000-000000000000"
  echo "replace github.com/provenance-io/provenance => $REPO"
} > go.mod.new.$$
if ! cmp -s go.mod.new.$$ go.mod 2>/dev/null; then mv go.mod.new.$$ go.mod; else rm go.mod.new.$$; fi
# go.sum is replaced atomically and only when it differs: other harness builds may be reading it
cp "$REPO/go.sum" go.sum.new.$$
if ! cmp -s go.sum.new.$$ go.sum 2>/dev/null; then mv go.sum.new.$$ go.sum; else rm go.sum.new.$$; fi
