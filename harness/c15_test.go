//go:build c15

package harness

import (
	"bytes"
	"fmt"
	"math/rand"
	"sort"
	"strings"
	"testing"

	sdk "github.com/cosmos/cosmos-sdk/types"
	"github.com/cosmos/cosmos-sdk/types/query"
	authtypes "github.com/cosmos/cosmos-sdk/x/auth/types"
	govtypes "github.com/cosmos/cosmos-sdk/x/gov/types"

	simapp "github.com/provenance-io/provenance/app"
	nametypes "github.com/provenance-io/provenance/x/name/types"
)

// ---------- C15: name module ----------
//
// Streams:
//   1. histories over a name tree through the real message path (ValidateBasic + message router) for
//      the four name messages and MsgUpdateParams, plus Keeper.InitGenesis calls, observing after
//      every step GetRecordByName / ResolvesTo / ReverseLookup / the Resolve query for the whole
//      universe and the Params query; at the end of a history paged ReverseLookup walks and the
//      upper-case spelling of an address;
//   2. pair search: every name over a 3-letter alphabet within the limits, grouped by the real
//      GetNameKeyPrefix, and an exhaustive enumeration over {a,b,1,2} with 1-4 segments;
//   3. Normalize / GetNameKeyPrefix on raw (mixed case, padded, malformed, uuid, non-ASCII) inputs.

type c15Params struct{ min, max, levels uint32 }

func (p c15Params) coq() string {
	return fmt.Sprintf("{| p_min_seg := %d; p_max_seg := %d; p_max_levels := %d |}", p.min, p.max, p.levels)
}

type c15Env struct {
	app   *simapp.App
	addrs []sdk.AccAddress // index = model id; 0 = governance authority
}

func (e *c15Env) id(bech string) int {
	for i, a := range e.addrs {
		if a.String() == bech {
			return i
		}
	}
	return 99 // an address outside the universe
}

func c15Key(name string) []byte {
	k, err := nametypes.GetNameKeyPrefix(name)
	if err != nil {
		return nil
	}
	return k
}

// revcat is the pre-image the key function hashes (used to classify collisions on the Go side;
// the Coq side recomputes it from the model for every emitted pair).
func c15Revcat(name string) string {
	segs := strings.Split(name, ".")
	var sb strings.Builder
	for i := len(segs) - 1; i >= 0; i-- {
		sb.WriteString(strings.TrimSpace(segs[i]))
	}
	return sb.String()
}

type c15Obs struct {
	term      string
	anomalies [][2]string // (queried, stored) where the lookup returned a record of another name
	recs      map[string]*nametypes.NameRecord
	listed    map[int][]string
	params    nametypes.Params
}

func (e *c15Env) observe(t *testing.T, ctx sdk.Context, names []string) c15Obs {
	o := c15Obs{recs: map[string]*nametypes.NameRecord{}, listed: map[int][]string{}}
	var recs, res, rev, qry []string
	for _, n := range names {
		var rec *nametypes.NameRecord
		err := try(func() error {
			var e2 error
			rec, e2 = e.app.NameKeeper.GetRecordByName(ctx, n)
			return e2
		})
		if err != nil || rec == nil {
			recs = append(recs, "None")
		} else {
			recs = append(recs, fmt.Sprintf("(Some (%s, %d%%N, %s))", c15Str(rec.Name), e.id(rec.Address), coqBool(rec.Restricted)))
			o.recs[n] = rec
			if rec.Name != n {
				o.anomalies = append(o.anomalies, [2]string{n, rec.Name})
			}
		}
		var row []string
		for _, a := range e.addrs {
			row = append(row, coqBool(e.app.NameKeeper.ResolvesTo(ctx, n, a)))
		}
		res = append(res, coqList(row))
		// the Resolve gRPC query (normalises, then looks the record up)
		var qr *nametypes.QueryResolveResponse
		qerr := try(func() error {
			var e2 error
			qr, e2 = e.app.NameKeeper.Resolve(ctx, &nametypes.QueryResolveRequest{Name: n})
			return e2
		})
		if qerr != nil || qr == nil {
			qry = append(qry, "None")
		} else {
			qry = append(qry, fmt.Sprintf("(Some (%d%%N, %s))", e.id(qr.Address), coqBool(qr.Restricted)))
		}
	}
	for i, a := range e.addrs {
		resp, err := e.app.NameKeeper.ReverseLookup(ctx, &nametypes.QueryReverseLookupRequest{Address: a.String(), Pagination: &query.PageRequest{Limit: 10000}})
		if err != nil {
			t.Fatalf("ReverseLookup: %v", err)
		}
		listed := append([]string{}, resp.Name...)
		sort.Strings(listed)
		o.listed[i] = listed
		// the keeper-level listing must say the same as the query
		krecs, err := e.app.NameKeeper.GetRecordsByAddress(ctx, a)
		if err != nil {
			t.Fatalf("GetRecordsByAddress: %v", err)
		}
		var kl []string
		for _, r := range krecs {
			kl = append(kl, r.Name)
		}
		sort.Strings(kl)
		if strings.Join(kl, "|") != strings.Join(listed, "|") {
			// reported through the listing itself: make the query's listing carry the difference
			listed = append(listed, "<GetRecordsByAddress differs: "+strings.Join(kl, ",")+">")
		}
		rev = append(rev, coqList(mapStr(listed, c15Str)))
	}
	pr, err := e.app.NameKeeper.Params(ctx, &nametypes.QueryParamsRequest{})
	if err != nil {
		t.Fatalf("Params: %v", err)
	}
	o.params = pr.Params
	par := "(" + c15Params{pr.Params.MinSegmentLength, pr.Params.MaxSegmentLength, pr.Params.MaxNameLevels}.coq() + ", " + coqBool(pr.Params.AllowUnrestrictedNames) + ")"
	o.term = "((" + coqList(recs) + ", " + coqList(res) + ", " + coqList(rev) + "), " + coqList(qry) + ", " + par + ")"
	return o
}

type c15Binding struct {
	name  string
	owner int
	restr bool
}

type c15Op struct {
	kind   string // root, bind, modify, delete, params, genesis
	signer int
	name   string // root/modify/delete: the name as given; bind: the record name
	parent string // bind only
	owner  int
	restr  bool
	upper  bool // spell the record / parent address in upper-case bech32 (same account)
	p      c15Params
	allow  bool
	binds  []c15Binding
}

func (o c15Op) coq() string {
	switch o.kind {
	case "root":
		return fmt.Sprintf("MOp (OpCreateRoot %d%%N %s %d%%N %s)", o.signer, c15Str(o.name), o.owner, coqBool(o.restr))
	case "bind":
		return fmt.Sprintf("MOp (OpBind %s %d%%N %s %d%%N %s)", c15Str(o.parent), o.signer, c15Str(o.name), o.owner, coqBool(o.restr))
	case "modify":
		return fmt.Sprintf("MOp (OpModify %d%%N %s %d%%N %s)", o.signer, c15Str(o.name), o.owner, coqBool(o.restr))
	case "delete":
		return fmt.Sprintf("MOp (OpDelete %s %d%%N)", c15Str(o.name), o.signer)
	case "params":
		return fmt.Sprintf("MParams %d%%N %s %s", o.signer, o.p.coq(), coqBool(o.allow))
	default:
		var bs []string
		for _, b := range o.binds {
			bs = append(bs, fmt.Sprintf("(%s, %d%%N, %s)", c15Str(b.name), b.owner, coqBool(b.restr)))
		}
		return fmt.Sprintf("MGenesis %s %s %s", o.p.coq(), coqBool(o.allow), coqList(bs))
	}
}

func (e *c15Env) spell(i int, upper bool) string {
	s := e.addrs[i].String()
	if upper {
		return strings.ToUpper(s)
	}
	return s
}

func (e *c15Env) msg(o c15Op) sdk.Msg {
	switch o.kind {
	case "root":
		return nametypes.NewMsgCreateRootNameRequest(e.addrs[o.signer].String(), o.name, e.spell(o.owner, o.upper), o.restr)
	case "bind":
		return nametypes.NewMsgBindNameRequest(
			nametypes.NameRecord{Name: o.name, Address: e.spell(o.owner, o.upper), Restricted: o.restr},
			nametypes.NameRecord{Name: o.parent, Address: e.spell(o.signer, o.upper)})
	case "modify":
		m := nametypes.NewMsgModifyNameRequest(e.addrs[o.signer].String(), o.name, e.addrs[o.owner], o.restr)
		m.Record.Address = e.spell(o.owner, o.upper)
		return m
	case "delete":
		return nametypes.NewMsgDeleteNameRequest(nametypes.NameRecord{Name: o.name, Address: e.spell(o.signer, o.upper)})
	case "params":
		return nametypes.NewMsgUpdateParamsRequest(o.p.max, o.p.min, o.p.levels, o.allow, e.spell(o.signer, o.upper))
	}
	return nil
}

// exec runs the message the way a transaction does — ValidateBasic (baseapp runs it for every
// message that has one), then the handler registered in the message router — on a cache of ctx;
// the cache is written only when the handler succeeds (a failed tx is rolled back).  An
// InitGenesis call is run the same way (a panic voids the import).
func (e *c15Env) exec(ctx sdk.Context, o c15Op) bool {
	cctx, write := ctx.CacheContext()
	var err error
	if o.kind == "genesis" {
		gs := nametypes.GenesisState{Params: nametypes.NewParams(o.p.max, o.p.min, o.p.levels, o.allow)}
		for _, b := range o.binds {
			gs.Bindings = append(gs.Bindings, nametypes.NameRecord{Name: b.name, Address: e.addrs[b.owner].String(), Restricted: b.restr})
		}
		err = try(func() error {
			e.app.NameKeeper.InitGenesis(cctx, gs)
			return nil
		})
	} else {
		m := e.msg(o)
		err = try(func() error {
			if vb, ok := m.(sdk.HasValidateBasic); ok {
				if e1 := vb.ValidateBasic(); e1 != nil {
					return e1
				}
			}
			h := e.app.MsgServiceRouter().Handler(m)
			if h == nil {
				return fmt.Errorf("no handler")
			}
			_, e2 := h(cctx, m)
			return e2
		})
	}
	if err == nil {
		write()
	}
	return err == nil
}

// ---- universes ----

func c15Seg(r *rand.Rand, alpha string, lo, hi int) string {
	n := lo + r.Intn(hi-lo+1)
	b := make([]byte, n)
	for i := range b {
		b[i] = alpha[r.Intn(len(alpha))]
	}
	return string(b)
}

// c15Tree builds a parent-closed name tree: roots, children, grandchildren, a few
// great-grandchildren (parents listed before children).
func c15Tree(r *rand.Rand) []string {
	const alpha = "abcde12"
	seen := map[string]bool{}
	var names []string
	add := func(n string) bool {
		if seen[n] {
			return false
		}
		seen[n] = true
		names = append(names, n)
		return true
	}
	for len(names) < 2 {
		s := c15Seg(r, alpha, 2, 4)
		if r.Intn(6) == 0 {
			s = s[:1] + "-" + s[1:]
		}
		add(s)
	}
	roots := append([]string{}, names...)
	var kids, grand []string
	for _, rt := range roots {
		for k := 0; k < 2+r.Intn(2); k++ {
			c := c15Seg(r, alpha, 2, 4) + "." + rt
			if add(c) {
				kids = append(kids, c)
			}
		}
	}
	for _, kd := range kids {
		for k := 0; k < r.Intn(3); k++ {
			g := c15Seg(r, alpha, 2, 3) + "." + kd
			if add(g) {
				grand = append(grand, g)
			}
		}
	}
	for _, g := range grand {
		if r.Intn(3) == 0 {
			add(c15Seg(r, alpha, 2, 3) + "." + g)
		}
	}
	return names
}

// c15Colliding builds a universe around a pair u.(vw) / (wu).v, whose keys coincide.
func c15Colliding(r *rand.Rand, canonical bool) []string {
	u, v, w := "aa", "bb", "cc"
	if !canonical {
		const alpha = "abcde"
		for {
			u, v, w = c15Seg(r, alpha, 2, 3), c15Seg(r, alpha, 2, 3), c15Seg(r, alpha, 2, 3)
			if v+w != v && u != w+u && v != v+w {
				break
			}
		}
	}
	names := []string{v + w, v, u + "." + v + w, w + u + "." + v, "x1." + u + "." + v + w, "zz." + v, "y2." + w + u + "." + v}
	return names
}

// c15UUID is a random uuid in the canonical lower-case dashed spelling (36 characters).
func c15UUID(r *rand.Rand) string {
	const hexd = "0123456789abcdef"
	b := make([]byte, 36)
	for i := range b {
		if i == 8 || i == 13 || i == 18 || i == 23 {
			b[i] = '-'
		} else {
			b[i] = hexd[r.Intn(16)]
		}
	}
	return string(b)
}

// c15Twin changes the characters of s from position `from` on (hex digits stay hex digits, letters
// stay letters or digits), so that s and its twin agree exactly on the first `from` bytes.
func c15Twin(r *rand.Rand, s string, from int) string {
	const hexd = "0123456789abcdef"
	b := []byte(s)
	for {
		for i := from; i < len(b); i++ {
			if b[i] != '-' {
				b[i] = hexd[r.Intn(16)]
			}
		}
		if string(b) != s {
			return string(b)
		}
	}
}

// c15LongPair is a pair of ordinary segments of n >= 33 characters (legal only after governance
// raised max_segment_length) that agree on their first `common` bytes and differ afterwards.
func c15LongPair(r *rand.Rand, n, common int) (string, string) {
	a := c15Seg(r, "abcdef0123456789", n, n)
	return a, c15Twin(r, a, common)
}

// c15LongTree is a parent-closed universe with long segments in pairs that share their first 32
// bytes: two uuid-shaped children (36 characters, exempt from the maximum segment length), two
// ordinary children of 33-64 characters (valid once max_segment_length is 64), one 32-character
// child, and sub-names under them.
func c15LongTree(r *rand.Rand) []string {
	const alpha = "abcde12"
	root, root2 := c15Seg(r, alpha, 2, 4), "r"+c15Seg(r, alpha, 2, 3)
	for root2 == root {
		root2 = "r" + c15Seg(r, alpha, 2, 3)
	}
	u1 := c15UUID(r)
	u2 := c15Twin(r, u1, 32)
	ln, cm := 33+r.Intn(32), 32
	if ln > 33 && r.Intn(2) == 0 {
		cm = 33
	}
	l1, l2 := c15LongPair(r, ln, cm)
	m1, m2 := c15LongPair(r, 64, 40+r.Intn(20))
	h32 := c15Seg(r, "abcdef0123456789", 32, 32)
	return []string{root, root2,
		u1 + "." + root, u2 + "." + root, l1 + "." + root, l2 + "." + root, h32 + "." + root,
		m1 + "." + root2, m2 + "." + root2, u1 + "." + root2,
		"x1." + u1 + "." + root, "x1." + u2 + "." + root, "zz." + l1 + "." + root, "zz." + l2 + "." + root}
}

func c15Collisions(names []string) [][2]string {
	var out [][2]string
	for i := range names {
		for j := i + 1; j < len(names); j++ {
			ki, kj := c15Key(names[i]), c15Key(names[j])
			if ki != nil && bytes.Equal(ki, kj) {
				out = append(out, [2]string{names[i], names[j]})
			}
		}
	}
	return out
}

func c15Parent(n string) (child, parent string) {
	i := strings.Index(n, ".")
	if i < 0 {
		return n, ""
	}
	return n[:i], n[i+1:]
}

// c15Split2 splits a name with at least three segments into a two-level record name and the rest.
func c15Split2(n string) (rec, parent string, ok bool) {
	segs := strings.Split(n, ".")
	if len(segs) < 3 {
		return "", "", false
	}
	return segs[0] + "." + segs[1], strings.Join(segs[2:], "."), true
}

// c15Raw occasionally dresses a canonical name up (padding, capitals) — the handlers normalise.
func c15Raw(r *rand.Rand, n string) string {
	switch r.Intn(14) {
	case 0:
		return " " + n
	case 1:
		return strings.ToUpper(n[:1]) + n[1:]
	case 2:
		return strings.ReplaceAll(n, ".", " . ")
	case 3:
		return n + "\t"
	}
	return n
}

var c15ParamChoices = []c15Params{{2, 32, 16}, {2, 3, 2}, {3, 32, 16}, {2, 32, 2}, {1, 4, 3}, {2, 32, 16}, {2, 4, 3}, {5, 3, 16}, {2, 32, 0}, {2, 32, 16}, {2, 64, 16}, {2, 64, 16}}

type c15Counters struct {
	gov, dotted, dottedImpliedExists, dottedImpliedRestrictedForeign, multiLevelParent int64
	deleteWithChildren, upper, genesisOK, genesisPanic, paramsOK                       int64
	frozen                                                                             int64
}

var w15 c15Counters

// nextOp proposes the next message from what the real keeper currently stores.
func (e *c15Env) nextOp(r *rand.Rand, ctx sdk.Context, names []string, cur c15Obs) c15Op {
	users := len(e.addrs) - 1
	user := func() int { return 1 + r.Intn(users) }
	otherThan := func(x int) int {
		for {
			u := user()
			if u != x {
				return u
			}
		}
	}
	validNow := func(n string) bool {
		nn, err := e.app.NameKeeper.Normalize(ctx, n)
		return err == nil && nn == n
	}
	var bound, unbound []string
	for _, n := range names {
		if rec := cur.recs[n]; rec != nil && rec.Name == n {
			bound = append(bound, n)
		} else if rec == nil {
			unbound = append(unbound, n)
		}
	}
	ownerOf := func(n string) int {
		if rec := cur.recs[n]; rec != nil {
			if i := e.id(rec.Address); i != 99 {
				return i
			}
		}
		return user()
	}
	pick := func(l []string) string { return l[r.Intn(len(l))] }
	curP := c15Params{cur.params.MinSegmentLength, cur.params.MaxSegmentLength, cur.params.MaxNameLevels}
	honest := r.Intn(100) < 66
	for tries := 0; tries < 60; tries++ {
		switch k := r.Intn(100); {
		case k < 4: // MsgUpdateParams
			signer := 0
			if !honest && r.Intn(2) == 0 {
				signer = user()
			}
			p := c15ParamChoices[r.Intn(len(c15ParamChoices))]
			if honest && r.Intn(3) != 0 {
				p = c15ParamChoices[0] // mostly back to the defaults, so that histories stay lively
			}
			return c15Op{kind: "params", signer: signer, p: p, allow: r.Intn(2) == 0, upper: r.Intn(4) == 0}
		case k < 7: // InitGenesis on top of the current store
			op := c15Op{kind: "genesis", p: curP, allow: cur.params.AllowUnrestrictedNames}
			if r.Intn(4) == 0 {
				op.p = c15ParamChoices[r.Intn(len(c15ParamChoices))]
				op.allow = r.Intn(2) == 0
			}
			src := unbound
			if !honest || len(src) == 0 {
				src = names
			}
			nb := 1 + r.Intn(4)
			perm := r.Perm(len(src))
			for i := 0; i < nb && i < len(src); i++ {
				n := src[perm[i]]
				if honest && !validNow(n) && op.p == curP {
					continue
				}
				b := c15Binding{name: n, owner: user(), restr: r.Intn(2) == 0}
				switch r.Intn(12) {
				case 0:
					b.name = " " + strings.ToUpper(n[:1]) + n[1:] + " " // un-normalised spelling
				case 1:
					b.name = strings.ReplaceAll(n, ".", " .")
				}
				op.binds = append(op.binds, b)
			}
			if len(op.binds) > 0 && !honest {
				switch r.Intn(4) {
				case 0: // the same name twice
					op.binds = append(op.binds, c15Binding{name: strings.ToUpper(op.binds[0].name), owner: user(), restr: false})
				case 1: // an invalid name
					op.binds = append(op.binds, c15Binding{name: "a..b", owner: user()})
				}
			}
			return op
		case k < 17: // root creation
			var roots []string
			for _, n := range names {
				if !strings.Contains(n, ".") {
					roots = append(roots, n)
				}
			}
			n := pick(names)
			if r.Intn(4) != 0 {
				n = pick(roots)
			}
			signer := 0
			if !honest && r.Intn(2) == 0 {
				signer = user()
			}
			return c15Op{kind: "root", signer: signer, name: c15Raw(r, n), owner: user(), restr: r.Intn(2) == 0, upper: r.Intn(8) == 0}
		case k < 55: // bind
			var cands []string
			src := unbound
			if !honest && r.Intn(3) == 0 {
				src = names
			}
			for _, n := range src {
				if _, p := c15Parent(n); p != "" {
					if honest && (cur.recs[p] == nil || !validNow(n)) {
						continue
					}
					cands = append(cands, n)
				}
			}
			if len(cands) == 0 {
				continue
			}
			full := pick(cands)
			child, parent := c15Parent(full)
			signer := ownerOf(parent)
			if !honest || r.Intn(5) == 0 {
				signer = user() // a stranger: accepted only under an unrestricted parent
			}
			if r.Intn(10) == 0 {
				signer = 0 // the governance authority has no special right to bind
			}
			owner := signer
			if r.Intn(3) == 0 {
				owner = user()
			}
			if owner == 0 {
				owner = user()
			}
			op := c15Op{kind: "bind", signer: signer, name: child, parent: parent, owner: owner, restr: r.Intn(2) == 0, upper: r.Intn(8) == 0}
			if strings.Contains(parent, ".") {
				w15.multiLevelParent++
			}
			switch r.Intn(30) {
			case 0:
				op.name = strings.ToUpper(child)
			case 1:
				op.parent = " " + parent + " "
			case 2:
				op.parent = strings.ToUpper(parent[:1]) + parent[1:]
			case 3:
				op.name = child + "." + child
			case 4:
				op.name = child[:1] // too short (unless the limits in force allow one character: then an illegal one)
				if curP.min <= 1 {
					op.name = "_"
				}
			case 5:
				op.name = " "
			}
			// a record name that spans two levels: <seg>.<seg> under the grand parent.  The
			// message's parent and the direct parent of the resulting name differ; the signer
			// is chosen to be entitled with respect to the MESSAGE's parent (its owner, or
			// anybody when it is unrestricted), whatever the implied parent says.
			if r.Intn(7) == 0 {
				var deep []string
				for _, n := range names {
					if _, _, ok := c15Split2(n); ok && (cur.recs[n] == nil || r.Intn(4) == 0) {
						deep = append(deep, n)
					}
				}
				if len(deep) > 0 {
					n := pick(deep)
					rec, gp, _ := c15Split2(n)
					op.name, op.parent = rec, gp
					_, implied := c15Parent(n)
					w15.dotted++
					if gprec := cur.recs[gp]; gprec != nil {
						op.signer = ownerOf(gp)
						if !gprec.Restricted && r.Intn(2) == 0 {
							op.signer = user()
						}
						op.owner = op.signer
						if op.owner == 0 {
							op.owner = user()
						}
					}
					if irec := cur.recs[implied]; irec != nil {
						w15.dottedImpliedExists++
						if irec.Restricted && e.id(irec.Address) != op.signer && cur.recs[gp] != nil {
							w15.dottedImpliedRestrictedForeign++
						}
					}
				}
			}
			return op
		case k < 82: // modify
			if len(bound) == 0 && honest {
				continue
			}
			n := pick(names)
			if len(bound) > 0 && (honest || r.Intn(2) == 0) {
				n = pick(bound)
			}
			signer := ownerOf(n)
			if honest {
				if r.Intn(5) == 0 {
					signer = 0
				}
			} else if r.Intn(3) != 0 {
				signer = otherThan(signer)
			}
			newOwner := ownerOf(n)
			if r.Intn(2) == 0 || newOwner == 0 {
				newOwner = user()
			}
			restr := r.Intn(2) == 0
			if rec := cur.recs[n]; rec != nil && r.Intn(2) == 0 {
				restr = !rec.Restricted
			}
			return c15Op{kind: "modify", signer: signer, name: c15Raw(r, n), owner: newOwner, restr: restr, upper: r.Intn(8) == 0}
		default: // delete
			if len(bound) == 0 && honest {
				continue
			}
			n := pick(names)
			if len(bound) > 0 && (honest || r.Intn(2) == 0) {
				n = pick(bound)
			}
			signer := ownerOf(n)
			if !honest && r.Intn(3) != 0 {
				signer = otherThan(signer)
			}
			if r.Intn(7) == 0 {
				signer = 0 // the governance authority may modify a name but not delete it
				w15.gov++
			}
			return c15Op{kind: "delete", signer: signer, name: c15Raw(r, n), upper: r.Intn(8) == 0}
		}
	}
	return c15Op{kind: "root", signer: 0, name: names[0], owner: 1, restr: false}
}

// addr32N is a 32-byte account address (contract / group / derived addresses have this length).
func addr32N(n int) sdk.AccAddress {
	b := make([]byte, 32)
	copy(b, fmt.Sprintf("verifaddr32_%09d_long_address", n))
	return sdk.AccAddress(b)
}

// addr32Ext is a 32-byte address whose first 20 bytes are those of the 20-byte address a.
func addr32Ext(a sdk.AccAddress) sdk.AccAddress {
	b := make([]byte, 32)
	copy(b, a)
	copy(b[20:], "_extension__")
	return sdk.AccAddress(b)
}

// walk pages through ReverseLookup: mode 0 next keys, 1 offsets, 2 next keys reverse, 3 offsets
// reverse.  Returns the pages and the total of the first page (requested with count_total).
func (e *c15Env) walk(ctx sdk.Context, addr string, limit uint64, mode int) (pages [][]string, total uint64) {
	req := &query.PageRequest{Limit: limit, CountTotal: true, Reverse: mode >= 2}
	for i := 0; i < 200; i++ {
		var resp *nametypes.QueryReverseLookupResponse
		err := try(func() error {
			var e2 error
			resp, e2 = e.app.NameKeeper.ReverseLookup(ctx, &nametypes.QueryReverseLookupRequest{Address: addr, Pagination: req})
			return e2
		})
		if err != nil || resp == nil {
			pages = append(pages, []string{"<error>"})
			return pages, total
		}
		if i == 0 && resp.Pagination != nil {
			total = resp.Pagination.Total
		}
		pages = append(pages, append([]string{}, resp.Name...))
		if resp.Pagination == nil || len(resp.Pagination.NextKey) == 0 {
			return pages, total
		}
		if mode == 0 || mode == 2 {
			req = &query.PageRequest{Key: resp.Pagination.NextKey, Limit: limit, Reverse: mode >= 2}
		} else {
			req = &query.PageRequest{Offset: uint64(i+1) * limit, Limit: limit, Reverse: mode >= 2}
		}
	}
	pages = append(pages, []string{"<too many pages>"})
	return pages, total
}

func c15Pages(pages [][]string) string {
	var ps []string
	for _, p := range pages {
		ps = append(ps, coqList(mapStr(p, c15Str)))
	}
	return coqList(ps)
}

func TestC15(t *testing.T) {
	r := newRand("C15")
	w := NewCaseWriter("C15", "PV.Corr.C15", "check_all", scale(40, 50))
	app, baseCtx := newApp(t)
	type desc map[string]any

	govAddr := authtypes.NewModuleAddress(govtypes.ModuleName)
	if govAddr.String() != app.NameKeeper.GetAuthority() {
		t.Fatalf("authority is %s, expected the gov module account", app.NameKeeper.GetAuthority())
	}
	// users 1..3 have 20-byte addresses, 4 and 5 32-byte ones; the bytes of user 1 are a prefix of
	// those of user 4 (the index key must keep them apart by its length byte)
	env := &c15Env{app: app, addrs: []sdk.AccAddress{govAddr, addrN(1), addrN(2), addrN(3), addr32Ext(addrN(1)), addr32N(5)}}
	if !bytes.HasPrefix(env.addrs[4], env.addrs[1]) {
		t.Fatalf("address 4 does not extend address 1")
	}
	// the governance module account must exist, else a delete signed by it fails only in PurgeAttribute
	app.AccountKeeper.GetModuleAccount(baseCtx, govtypes.ModuleName)
	for _, a := range env.addrs[1:] {
		ensureAccount(app, baseCtx, a)
	}
	// The model starts from an empty name store.  Genesis binds a few module names (the attribute
	// module's account-data name, owned by a module account): they are outside every universe,
	// which is checked below for every universe (no shared key, no shared owner).
	var genesisKeys [][]byte
	_ = app.NameKeeper.IterateRecords(baseCtx, nametypes.NameKeyPrefix, func(rec nametypes.NameRecord) error {
		genesisKeys = append(genesisKeys, c15Key(rec.Name))
		if env.id(rec.Address) != 99 {
			t.Fatalf("genesis name %q belongs to an address of the universe", rec.Name)
		}
		return nil
	})
	w.CountN("genesis_names_outside_universe", int64(len(genesisKeys)))
	clashesWithGenesis := func(names []string) bool {
		for _, n := range names {
			for _, g := range genesisKeys {
				if bytes.Equal(c15Key(n), g) {
					return true
				}
			}
		}
		return false
	}
	kp := app.NameKeeper.GetParams(baseCtx)
	defP := c15Params{kp.MinSegmentLength, kp.MaxSegmentLength, kp.MaxNameLevels}

	var addrIDs []string
	for i := range env.addrs {
		addrIDs = append(addrIDs, fmt.Sprintf("%d%%N", i))
	}
	// ---------- 1. histories ----------
	nHist := scale(170, 2000)
	steps := scale(30, 45)
	var accepted, total int64
	for h := 0; h < nHist; h++ {
		ctx, _ := baseCtx.CacheContext()
		p := defP
		if h%5 == 4 { // start under tight limits: some universe names are invalid until the limits are relaxed
			p = c15Params{2, 3, 2}
			if h%10 == 9 {
				p = c15Params{3, 32, 16}
			}
		}
		allow0 := h%3 != 0
		np := kp
		np.MinSegmentLength, np.MaxSegmentLength, np.MaxNameLevels, np.AllowUnrestrictedNames = p.min, p.max, p.levels, allow0
		app.NameKeeper.SetParams(ctx, np)
		colliding := h%8 == 3
		long := h%8 == 5
		var names []string
		if long {
			// long segments: start under max_segment_length 64 (governance raised it), except every
			// other such history, which starts under the defaults (only the uuid-shaped and the
			// 32-character children are valid until a MsgUpdateParams raises the limit)
			p = defP
			if h%16 == 5 {
				p = c15Params{2, 64, 16}
			}
			np.MinSegmentLength, np.MaxSegmentLength, np.MaxNameLevels = p.min, p.max, p.levels
			app.NameKeeper.SetParams(ctx, np)
			for {
				names = c15LongTree(r)
				if !clashesWithGenesis(names) {
					break
				}
			}
			w.Count("histories_with_long_segment_universe")
		} else if colliding {
			names = c15Colliding(r, h == 3)
			if clashesWithGenesis(names) {
				t.Fatalf("colliding universe clashes with a genesis name")
			}
			w.Count("histories_with_colliding_universe")
		} else {
			for {
				names = c15Tree(r)
				if len(c15Collisions(names)) == 0 && !clashesWithGenesis(names) {
					break
				}
				w.Count("universe_regenerated_because_of_key_collision")
			}
		}
		uni := names
		cur := env.observe(t, ctx, uni)
		o0 := cur.term
		var stepTerms []string
		var opDescs []desc
		nAcc := 0
		kinds := map[string]bool{}
		var script []c15Op
		if colliding {
			// make the colliding pair meet: root vw (unrestricted), bind u.vw for user 1, root v
			// restricted for user 3, then the owner of v tries to bind wu under it
			c1, p1 := c15Parent(names[2])
			c2, p2 := c15Parent(names[3])
			script = []c15Op{
				{kind: "root", signer: 0, name: p1, owner: 2, restr: false},
				{kind: "bind", signer: 1, name: c1, parent: p1, owner: 1, restr: true},
				{kind: "root", signer: 0, name: p2, owner: 3, restr: true},
				{kind: "bind", signer: 3, name: c2, parent: p2, owner: 3, restr: false},
				{kind: "modify", signer: 1, name: names[3], owner: 2, restr: false},
			}
		} else if long {
			// make the twins meet: root (unrestricted), the first uuid child bound by user 2
			// (restricted), its twin (same first 32 characters) by user 3, then the long ordinary
			// twins, and a sub-name under each uuid child by its owner
			c1, p1 := c15Parent(names[2])
			c2, _ := c15Parent(names[3])
			c3, _ := c15Parent(names[4])
			c4, _ := c15Parent(names[5])
			script = []c15Op{
				{kind: "root", signer: 0, name: p1, owner: 1, restr: false},
				{kind: "bind", signer: 2, name: c1, parent: p1, owner: 2, restr: true},
				{kind: "bind", signer: 3, name: c2, parent: p1, owner: 3, restr: true},
				{kind: "params", signer: 0, p: c15Params{2, 64, 16}, allow: allow0},
				{kind: "bind", signer: 4, name: c3, parent: p1, owner: 4, restr: false},
				{kind: "bind", signer: 5, name: c4, parent: p1, owner: 5, restr: false},
				{kind: "bind", signer: 2, name: "x1", parent: names[2], owner: 2, restr: false},
				{kind: "bind", signer: 3, name: "x1", parent: names[3], owner: 3, restr: false},
				{kind: "modify", signer: 3, name: names[3], owner: 1, restr: false},
				{kind: "delete", signer: 5, name: names[5]},
			}
		} else if h%6 == 1 {
			// a fresh chain: the first thing that happens is a genesis import (parents before
			// children, plus one orphan whose parent is not imported, plus one padded spelling)
			op := c15Op{kind: "genesis", p: p, allow: allow0}
			for i, n := range names {
				if i%3 == 2 {
					continue
				}
				nm := n
				if i == 1 {
					nm = " " + strings.ToUpper(n) + "  "
				}
				op.binds = append(op.binds, c15Binding{name: nm, owner: 1 + r.Intn(len(env.addrs)-1), restr: r.Intn(2) == 0})
			}
			script = []c15Op{op}
		} else if h%6 == 2 {
			// the seeded shape of C15-E as a directed prelude: restricted child of an unrestricted
			// root, owned by user 2; user 3 then names the root as parent and "<x>.<child>" as record
			var deep string
			for _, n := range names {
				if _, _, ok := c15Split2(n); ok {
					deep = n
					break
				}
			}
			if deep != "" {
				rec, gp, _ := c15Split2(deep)
				_, implied := c15Parent(deep)
				script = []c15Op{
					{kind: "params", signer: 0, p: defP, allow: allow0},
					{kind: "root", signer: 0, name: implied, owner: 2, restr: true},
					{kind: "modify", signer: 0, name: gp, owner: 1, restr: false},
					{kind: "bind", signer: 3, name: rec, parent: gp, owner: 3, restr: false},
					{kind: "bind", signer: 2, name: rec, parent: gp, owner: 2, restr: false},
				}
				w15.dotted += 2
				w15.dottedImpliedExists += 2
				w15.dottedImpliedRestrictedForeign++
			}
		}
		if script == nil && h%6 == 4 {
			// an orphan in the way of a root creation (the seeded shape of C15-G): P is created, a
			// stranger binds C = c.P, P's owner deletes P (sub-names are not looked at), governance
			// then creates the root name d.c.P, which lies BELOW the surviving C: the missing level P
			// is created again, the existing level C must be left alone
			var deep string
			for _, n := range names {
				if _, _, ok := c15Split2(n); ok {
					deep = n
					break
				}
			}
			if deep != "" {
				_, cName := c15Parent(deep)
				c, pName := c15Parent(cName)
				script = []c15Op{
					{kind: "params", signer: 0, p: defP, allow: allow0},
					{kind: "root", signer: 0, name: pName, owner: 1, restr: false},
					{kind: "bind", signer: 2, name: c, parent: pName, owner: 2, restr: true},
					{kind: "delete", signer: 1, name: pName},
					{kind: "root", signer: 0, name: deep, owner: 3, restr: true},
					{kind: "modify", signer: 2, name: cName, owner: 2, restr: false},
				}
				w.Count("histories_with_root_creation_through_an_orphan")
			}
		}
		for s := 0; s < steps; s++ {
			var op c15Op
			if s < len(script) {
				op = script[s]
			} else {
				op = env.nextOp(r, ctx, names, cur)
			}
			var prevOwner *nametypes.NameRecord
			hadChildren := false
			if op.kind == "modify" {
				prevOwner = cur.recs[nametypes.NormalizeName(op.name)]
			}
			if op.kind == "delete" {
				nn := nametypes.NormalizeName(op.name)
				for _, m := range names {
					if _, pm := c15Parent(m); pm == nn && cur.recs[m] != nil {
						hadChildren = true
					}
				}
			}
			ok := env.exec(ctx, op)
			if ok && prevOwner != nil {
				if old := env.id(prevOwner.Address); old < len(env.addrs) && len(env.addrs[old]) != len(env.addrs[op.owner]) {
					w.Count("modify_accepted_between_20_and_32_byte_owners")
				}
				if old := env.id(prevOwner.Address); (old == 1 && op.owner == 4) || (old == 4 && op.owner == 1) {
					w.Count("modify_accepted_between_prefix_related_owners")
				}
			}
			if ok && hadChildren {
				w15.deleteWithChildren++
			}
			if ok && op.upper {
				w15.upper++
			}
			if op.kind == "genesis" {
				if ok {
					w15.genesisOK++
				} else {
					w15.genesisPanic++
				}
			}
			if op.kind == "params" && ok {
				w15.paramsOK++
			}
			cur = env.observe(t, ctx, uni)
			stepTerms = append(stepTerms, "("+op.coq()+", "+coqBool(ok)+", "+cur.term+")")
			d := desc{"op": op.kind, "signer": op.signer, "name": op.name, "owner": op.owner, "restricted": op.restr, "accepted": ok}
			switch op.kind {
			case "bind":
				d["parent"] = op.parent
			case "params":
				d = desc{"op": op.kind, "signer": op.signer, "params": []uint32{op.p.min, op.p.max, op.p.levels}, "allow": op.allow, "accepted": ok}
			case "genesis":
				var bs []string
				for _, b := range op.binds {
					bs = append(bs, fmt.Sprintf("%q->%d", b.name, b.owner))
				}
				d = desc{"op": op.kind, "params": []uint32{op.p.min, op.p.max, op.p.levels}, "bindings": bs, "accepted": ok}
			}
			if op.upper {
				d["upper_case_addresses"] = true
			}
			if len(cur.anomalies) > 0 {
				d["lookup_returned_other_name"] = cur.anomalies
			}
			opDescs = append(opDescs, d)
			total++
			w.Count("ops_" + op.kind)
			if ok {
				accepted++
				nAcc++
				kinds[op.kind] = true
				w.Count("ops_" + op.kind + "_accepted")
			}
		}
		// names bound but invalid under the parameters now in force (frozen: neither modify nor
		// delete nor the Resolve query accept them)
		for _, n := range uni {
			if cur.recs[n] != nil {
				if nn, err := app.NameKeeper.Normalize(ctx, n); err != nil || nn != n {
					w15.frozen++
				}
			}
		}
		// paged walks over the final state: the address with the most names and a random one
		best := 1
		for i := range env.addrs {
			if len(cur.listed[i]) > len(cur.listed[best]) {
				best = i
			}
		}
		var paged []string
		for _, ai := range []int{best, 1 + r.Intn(len(env.addrs)-1)} {
			for _, mode := range []int{0, 1, 2, 3} {
				limit := uint64(1 + r.Intn(3))
				pages, tot := env.walk(ctx, env.addrs[ai].String(), limit, mode)
				paged = append(paged, fmt.Sprintf("(%d%%nat, %d%%nat, %d%%N, %s, %d%%N)", ai, limit, mode, c15Pages(pages), tot))
				w.Count("paged_walks")
				if len(pages) > 1 {
					w.Count("paged_walks_with_several_pages")
				}
			}
		}
		term := "CHist " + p.coq() + " " + coqBool(allow0) + " " + coqList(mapStr(uni, coqStr)) + " " + coqList(addrIDs) + " " + o0 + " " + coqList(stepTerms) + " " + coqList(paged)
		w.Add(term, desc{"kind": "history", "params": []uint32{p.min, p.max, p.levels}, "names": uni,
			"collision_pairs": c15Collisions(uni), "steps": opDescs})
		w.Count("histories")
		if len(kinds) >= 3 && nAcc >= 8 {
			w.Nontrivial("h/" + term)
		}
		// export / import round trip of the module's genesis: ExportGenesis of the final state, the
		// store emptied through DeleteRecord, InitGenesis of what was exported (panics when a stored
		// name is no longer valid under the exported parameters)
		{
			rctx, _ := ctx.CacheContext()
			gs := app.NameKeeper.ExportGenesis(rctx)
			for _, rec := range gs.Bindings {
				_ = app.NameKeeper.DeleteRecord(rctx, rec.Name)
			}
			left := 0
			_ = app.NameKeeper.IterateRecords(rctx, nametypes.NameKeyPrefix, func(nametypes.NameRecord) error { left++; return nil })
			_ = app.NameKeeper.IterateRecords(rctx, nametypes.AddressKeyPrefix, func(nametypes.NameRecord) error { left++; return nil })
			if left != 0 {
				// stale entries (only possible when the index is already out of step, which the
				// lookup checks of the history report): counted, the import then runs on top of them
				w.CountN("round_trip_entries_left_after_deleting_every_record", int64(left))
			}
			ierr := try(func() error {
				app.NameKeeper.InitGenesis(rctx, *gs)
				return nil
			})
			same := false
			if ierr == nil {
				same = env.observe(t, rctx, uni).term == cur.term
			}
			var bs []string
			for _, b := range gs.Bindings {
				bs = append(bs, fmt.Sprintf("(%s, %d%%N, %s)", c15Str(b.Name), env.id(b.Address), coqBool(b.Restricted)))
			}
			ep := c15Params{gs.Params.MinSegmentLength, gs.Params.MaxSegmentLength, gs.Params.MaxNameLevels}
			w.Add(fmt.Sprintf("CRoundTrip %s %s %s %s", ep.coq(), coqList(bs), coqBool(ierr == nil), coqBool(same)),
				desc{"kind": "export_import", "params": []uint32{ep.min, ep.max, ep.levels}, "records": len(gs.Bindings), "import_ok": ierr == nil, "same_lookups": same})
			w.Count("export_import_round_trips")
			if ierr != nil {
				w.Count("export_import_round_trips_panicked")
			}
		}
		// the same account spelled in upper-case bech32 must get the same listing (detector of the
		// finding repaired by /repo 52091505f: the query compared the request's spelling)
		{
			lower, _ := env.walk(ctx, env.addrs[best].String(), 1000, 0)
			upper, _ := env.walk(ctx, strings.ToUpper(env.addrs[best].String()), 1000, 0)
			flat := func(pp [][]string) []string {
				var out []string
				for _, p := range pp {
					out = append(out, p...)
				}
				sort.Strings(out)
				return out
			}
			lo, up := flat(lower), flat(upper)
			w.Add("CSpell "+coqList(mapStr(lo, c15Str))+" "+coqList(mapStr(up, c15Str)),
				desc{"kind": "spelling", "address": env.addrs[best].String(), "lower": lo, "upper": up})
			w.Count("reverse_lookup_spelling_cases")
			if len(lo) > 0 {
				w.Nontrivial("s/" + strings.Join(lo, ","))
			}
		}
	}
	w.CountN("delete_attempts_signed_by_gov_authority", w15.gov)
	w.CountN("bind_attempts_with_dotted_record_name", w15.dotted)
	w.CountN("bind_attempts_with_dotted_record_name_implied_parent_exists", w15.dottedImpliedExists)
	w.CountN("bind_attempts_with_dotted_record_name_implied_parent_restricted_and_foreign", w15.dottedImpliedRestrictedForeign)
	w.CountN("bind_attempts_under_multi_level_parent", w15.multiLevelParent)
	w.CountN("delete_accepted_with_existing_sub_names", w15.deleteWithChildren)
	w.CountN("accepted_ops_with_upper_case_bech32", w15.upper)
	w.CountN("genesis_imports_accepted", w15.genesisOK)
	w.CountN("genesis_imports_panicked", w15.genesisPanic)
	w.CountN("params_updates_accepted", w15.paramsOK)
	w.CountN("names_bound_but_invalid_under_final_params", w15.frozen)
	w.CountN("addresses_32_bytes", 2)
	w.CountN("address_pairs_prefix_related", 1)
	w.CountN("ops_total", total)
	w.CountN("ops_accepted", accepted)
	if total > 0 {
		w.CountN("ops_accepted_percent", accepted*100/total)
	}

	// ---------- 2a. pair search over a 3-letter alphabet ----------
	{
		const alpha = "abc"
		var segs []string
		var gen func(prefix string, n int)
		gen = func(prefix string, n int) {
			if n == 0 {
				segs = append(segs, prefix)
				return
			}
			for i := 0; i < len(alpha); i++ {
				gen(prefix+string(alpha[i]), n-1)
			}
		}
		maxSeg := scale(3, 4)
		for l := 2; l <= maxSeg; l++ {
			gen("", l)
		}
		maxTotal := scale(7, 8)
		var all []string
		var build func(cur string, levels, total int)
		build = func(cur string, levels, total int) {
			if cur != "" {
				all = append(all, cur)
			}
			if levels == 3 {
				return
			}
			for _, s := range segs {
				if total+len(s) > maxTotal {
					continue
				}
				n := s
				if cur != "" {
					n = s + "." + cur
				}
				build(n, levels+1, total+len(s))
			}
		}
		build("", 0, 0)
		ctx, _ := baseCtx.CacheContext()
		isValid := func(n string) bool {
			nn, err := app.NameKeeper.Normalize(ctx, n)
			return err == nil && nn == n
		}
		groups := map[string][]string{}
		for _, n := range all {
			groups[string(c15Key(n))] = append(groups[string(c15Key(n))], n)
		}
		w.CountN("pair_search_names", int64(len(all)))
		w.CountN("pair_search_pairs_compared", int64(len(all))*int64(len(all)-1)/2)
		keys := make([]string, 0, len(groups))
		for k := range groups {
			keys = append(keys, k)
		}
		sort.Strings(keys)
		var collisions [][2]string
		for _, k := range keys {
			g := groups[k]
			for i := range g {
				for j := i + 1; j < len(g); j++ {
					collisions = append(collisions, [2]string{g[i], g[j]})
				}
			}
		}
		w.CountN("pair_search_colliding_pairs", int64(len(collisions)))
		emit := func(n1, n2 string) {
			same := c15Key(n1) != nil && bytes.Equal(c15Key(n1), c15Key(n2))
			w.Add(fmt.Sprintf("CPair %s %s %s %s %s %s", defP.coq(), coqStr(n1), coqStr(n2), coqBool(isValid(n1)), coqBool(isValid(n2)), coqBool(same)),
				desc{"kind": "pair", "n1": n1, "n2": n2, "same_key": same})
			if same {
				w.Nontrivial("p/" + n1 + "/" + n2)
			}
		}
		// the same under max_segment_length 64 (governance raised the limit)
		p64 := c15Params{2, 64, 16}
		ctx64, _ := baseCtx.CacheContext()
		{
			np := kp
			np.MaxSegmentLength = 64
			app.NameKeeper.SetParams(ctx64, np)
		}
		isValid64 := func(n string) bool {
			nn, err := app.NameKeeper.Normalize(ctx64, n)
			return err == nil && nn == n
		}
		emit64 := func(n1, n2 string) {
			same := c15Key(n1) != nil && bytes.Equal(c15Key(n1), c15Key(n2))
			w.Add(fmt.Sprintf("CPair %s %s %s %s %s %s", p64.coq(), coqStr(n1), coqStr(n2), coqBool(isValid64(n1)), coqBool(isValid64(n2)), coqBool(same)),
				desc{"kind": "pair", "n1": n1, "n2": n2, "same_key": same, "max_segment_length": 64})
			w.Count("pairs_with_long_segments")
			if same {
				w.Nontrivial("p/" + n1 + "/" + n2)
			}
		}
		// ---------- 2a'. long segments: twins that agree on the first 31 / 32 / 33 / ... bytes ----------
		for i := 0; i < scale(12, 400); i++ {
			u := c15UUID(r)
			par := c15Seg(r, "abcde12", 2, 4)
			// uuid-shaped segments are exempt from the maximum length: valid under the defaults
			emit(u+"."+par, c15Twin(r, u, 32)+"."+par)
			emit(u+"."+par, c15Twin(r, u, 35)+"."+par)
			emit(u+"."+par, c15Twin(r, u, 24+r.Intn(8))+"."+par)
			emit("x1."+u+"."+par, "x1."+c15Twin(r, u, 32)+"."+par)
			emit(u, c15Twin(r, u, 32))
			emit("urn:uuid:"+u+"."+par, "urn:uuid:"+c15Twin(r, u, 32)+"."+par)
			emit("{"+u+"}."+par, "{"+c15Twin(r, u, 32)+"}."+par)
			emit(u+"."+u, c15Twin(r, u, 33)+"."+c15Twin(r, u, 34))
			// ordinary segments of 33-64 characters: valid once max_segment_length is 64
			for _, n := range []int{33, 34, 40, 63, 64} {
				a, b := c15LongPair(r, n, 32)
				emit64(a+"."+par, b+"."+par)
				a, b = c15LongPair(r, n, 32+r.Intn(n-32))
				emit64(par+"."+a, par+"."+b)
				a, b = c15LongPair(r, n, 31)
				emit64(a+"."+par, b+"."+par)
			}
			a, b := c15LongPair(r, 64, 32)
			emit64(a+"."+u+"."+par, b+"."+u+"."+par)
			emit64(a+"."+u, a+"."+c15Twin(r, u, 32))
		}
		// every collision whose shape is NOT "same reversed concatenation" is always emitted; of
		// the others (the known finding) the canonical witness and a sample
		emit("aa.bbcc", "ccaa.bb")
		sample := scale(40, 2000)
		perm := r.Perm(len(collisions))
		for i, pi := range perm {
			c := collisions[pi]
			if c15Revcat(c[0]) != c15Revcat(c[1]) || i < sample {
				emit(c[0], c[1])
			}
		}
		// non-colliding pairs: a sample
		for i := 0; i < scale(200, 20000); i++ {
			a, b := all[r.Intn(len(all))], all[r.Intn(len(all))]
			if a == b {
				continue
			}
			emit(a, b)
		}

		// ---------- 2b. exhaustive classes over {a,b,1,2}, segments of 2-3 characters, 1-4 segments ----------
		const alpha4 = "ab12"
		maxT := scale(8, 9)
		type cls struct {
			first string
			n     int
			multi bool // holds names with different numbers of segments
			segs  int
		}
		byKey := map[[33]byte]*cls{}
		byPre := map[string]*cls{}
		var nNames, mismatches int64
		var sampleNames []string
		var rec func(cur string, nseg, tot int)
		var word func(prefix string, n int, f func(string))
		word = func(prefix string, n int, f func(string)) {
			if n == 0 {
				f(prefix)
				return
			}
			for i := 0; i < len(alpha4); i++ {
				word(prefix+string(alpha4[i]), n-1, f)
			}
		}
		var mismatchPairs [][2]string
		rec = func(cur string, nseg, tot int) {
			if cur != "" {
				nNames++
				var k33 [33]byte
				copy(k33[:], c15Key(cur))
				pre := c15Revcat(cur)
				ck, okK := byKey[k33]
				cp, okP := byPre[pre]
				if !okK {
					ck = &cls{first: cur, segs: nseg}
					byKey[k33] = ck
				}
				if !okP {
					cp = &cls{first: cur, segs: nseg}
					byPre[pre] = cp
				}
				ck.n++
				cp.n++
				if ck.segs != nseg {
					ck.multi = true
				}
				// the two partitions must agree: same class representative
				if ck.first != cp.first {
					mismatches++
					if len(mismatchPairs) < 20 {
						mismatchPairs = append(mismatchPairs, [2]string{cur, ck.first}, [2]string{cur, cp.first})
					}
				}
				if r.Intn(4000) == 0 {
					sampleNames = append(sampleNames, cur)
				}
			}
			if nseg == 4 {
				return
			}
			for l := 2; l <= 3; l++ {
				if tot+l > maxT {
					continue
				}
				word("", l, func(s string) {
					n := s
					if cur != "" {
						n = s + "." + cur
					}
					rec(n, nseg+1, tot+l)
				})
			}
		}
		rec("", 0, 0)
		var classesMulti, biggest int64
		sizes := map[int]int64{}
		for _, c := range byKey {
			sizes[c.n]++
			if c.n > 1 {
				classesMulti++
			}
			if int64(c.n) > biggest {
				biggest = int64(c.n)
			}
		}
		w.CountN("enum_names", nNames)
		w.CountN("enum_classes_by_real_key", int64(len(byKey)))
		w.CountN("enum_classes_by_reversed_concatenation", int64(len(byPre)))
		w.CountN("enum_classes_with_several_names", classesMulti)
		w.CountN("enum_largest_class", biggest)
		w.CountN("enum_partition_mismatches", mismatches)
		for sz, n := range sizes {
			w.CountN(fmt.Sprintf("enum_classes_of_size_%02d", sz), n)
		}
		w.Add(fmt.Sprintf("CEnum %d%%N %d%%N %d%%N %d%%N", nNames, len(byKey), len(byPre), mismatches),
			desc{"kind": "enumeration", "alphabet": alpha4, "names": nNames, "classes_by_key": len(byKey), "classes_by_preimage": len(byPre), "mismatches": mismatches})
		for _, mp := range mismatchPairs {
			emit(mp[0], mp[1])
		}
		// for a sample of names: the name against its class representative (same key) and
		// against a neighbour with one character changed (different key)
		for _, n := range sampleNames {
			var k33 [33]byte
			copy(k33[:], c15Key(n))
			if rep := byKey[k33].first; rep != n {
				emit(n, rep)
			}
			b := []byte(n)
			i := r.Intn(len(b))
			if b[i] != '.' {
				b[i] = alpha4[(strings.IndexByte(alpha4, b[i])+1)%4]
				emit(n, string(b))
			}
		}
	}

	// ---------- 2c. enumeration over a pool with LONG segments (twins sharing their first 32 bytes) ----------
	{
		ctx64, _ := baseCtx.CacheContext()
		np := kp
		np.MaxSegmentLength = 64
		app.NameKeeper.SetParams(ctx64, np)
		p64 := c15Params{2, 64, 16}
		u := c15UUID(r)
		l1, l2 := c15LongPair(r, 33, 32)
		m1, m2 := c15LongPair(r, 64, 48)
		k1, k2 := c15LongPair(r, 40, 31)
		h32 := c15Seg(r, "abcdef0123456789", 32, 32)
		pool := []string{"ab", "b1", "ab1", u, c15Twin(r, u, 32), c15Twin(r, u, 35), c15UUID(r), l1, l2, m1, m2, k1, k2, h32, h32 + "0", h32[:31], "urn:uuid:" + u, "urn:uuid:" + c15Twin(r, u, 32)}
		var all []string
		var build func(cur string, levels int)
		build = func(cur string, levels int) {
			if cur != "" {
				all = append(all, cur)
			}
			if levels == scale(3, 4) {
				return
			}
			for _, sg := range pool {
				n := sg
				if cur != "" {
					n = sg + "." + cur
				}
				build(n, levels+1)
			}
		}
		build("", 0)
		byKey := map[string]string{}
		byPre := map[string]string{}
		var mismatches int64
		var mism [][2]string
		for _, n := range all {
			k, pre := string(c15Key(n)), c15Revcat(n)
			fk, okK := byKey[k]
			fp, okP := byPre[pre]
			if !okK {
				byKey[k], fk = n, n
			}
			if !okP {
				byPre[pre], fp = n, n
			}
			if fk != fp {
				mismatches++
				if len(mism) < 30 {
					mism = append(mism, [2]string{n, fk}, [2]string{n, fp})
				}
			}
		}
		w.CountN("enum_long_names", int64(len(all)))
		w.CountN("enum_long_classes_by_real_key", int64(len(byKey)))
		w.CountN("enum_long_classes_by_reversed_concatenation", int64(len(byPre)))
		w.CountN("enum_long_partition_mismatches", mismatches)
		w.Add(fmt.Sprintf("CEnum %d%%N %d%%N %d%%N %d%%N", len(all), len(byKey), len(byPre), mismatches),
			map[string]any{"kind": "enumeration", "pool": pool, "names": len(all), "classes_by_key": len(byKey), "classes_by_preimage": len(byPre), "mismatches": mismatches})
		isValid64 := func(n string) bool {
			nn, err := app.NameKeeper.Normalize(ctx64, n)
			return err == nil && nn == n
		}
		emit64 := func(n1, n2 string) {
			if n1 == n2 {
				return
			}
			same := c15Key(n1) != nil && bytes.Equal(c15Key(n1), c15Key(n2))
			w.Add(fmt.Sprintf("CPair %s %s %s %s %s %s", p64.coq(), coqStr(n1), coqStr(n2), coqBool(isValid64(n1)), coqBool(isValid64(n2)), coqBool(same)),
				map[string]any{"kind": "pair", "n1": n1, "n2": n2, "same_key": same, "max_segment_length": 64})
			w.Count("pairs_with_long_segments")
		}
		for _, mp := range mism {
			emit64(mp[0], mp[1])
		}
		// a sample of names against their class representative and against a twin name
		for i := 0; i < scale(60, 1500); i++ {
			n := all[r.Intn(len(all))]
			emit64(n, byKey[string(c15Key(n))])
			emit64(n, all[r.Intn(len(all))])
		}
	}

	// ---------- 3. Normalize / key function on raw inputs ----------
	{
		ctx, _ := baseCtx.CacheContext()
		uuid := "123e4567-e89b-12d3-a456-426614174000"
		hex32 := strings.ReplaceAll(uuid, "-", "")
		fixed := []string{"", " ", ".", "a", "ab", "ab.", ".ab", "a..b", "ab..cd", "AB.cd", " ab . cd ", "ab.c", "a-b", "a-b-c", "-ab", "ab-", "--",
			"ab_cd", "ab cd", "ab.cd.ef.gh.ij.kl.mn.op.qr.st.uv.wx.yz.ab.cd.ef", "ab.cd.ef.gh.ij.kl.mn.op.qr.st.uv.wx.yz.ab.cd.ef.gh",
			strings.Repeat("a", 32), strings.Repeat("a", 33), strings.Repeat("a", 33) + ".pb",
			uuid, uuid + ".pb", strings.ToUpper(uuid) + ".pb", "urn:uuid:" + uuid, "URN:UUID:" + uuid + ".pb", "{" + uuid + "}", "x" + uuid + "y", "{" + uuid + "}.pb",
			hex32, hex32 + ".pb", strings.ToUpper(hex32) + ".pb", hex32 + "0", "123e4567-e89b-12d3-a456-42661417400g", "123e4567+e89b-12d3-a456-426614174000",
			" " + uuid + " .pb", "(" + uuid + ").pb", "X" + uuid + "Y.pb", " {" + uuid + "} .pb", uuid + "." + hex32, "urn:uuid:" + hex32,
			"urn:uuix:" + uuid, "ab\t.cd", "\nab.cd\r", "ab.cd\v", "ab.\fcd", "a1.2b", "0.1", "00.11", "ab.cd ", "ab .cd", "a b.cd", "ab:cd", "ab/cd", "ab.cd!", "ab\x00.cd", "ab\x7f",
			"a-.b-", "-a.-b", "a--b.cd", "ab.-", "ab.--", "ab. - ", "AB-CD.EF", "ab . . cd", "...", "ab.\t.cd", " . ", "ab.cd.", ".ab.cd"}
		const raws = "abAB1-. \t_:"
		n := scale(400, 20000)
		params := []c15Params{defP, {1, 4, 2}, {0, 40, 3}}
		for i := 0; i < len(fixed)+n; i++ {
			var raw string
			if i < len(fixed) {
				raw = fixed[i]
			} else {
				raw = c15Seg(r, raws, 0, 9)
				if r.Intn(3) == 0 {
					raw = c15Seg(r, "abc1-", 1, 5) + "." + c15Seg(r, "abC ", 1, 5)
				}
			}
			for pi, p := range params {
				if pi > 0 && i%3 != pi-1 && i >= len(fixed) {
					continue
				}
				c15EmitNorm(w, app, ctx, kp, p, raw, "CNorm")
			}
		}
		// non-ASCII inputs (valid and invalid UTF-8)
		fixedU := []string{"ñandú.pb", "ÑANDÚ.pb", "İi.pb", "ii̇.pb", "٣٤.pb", "３４.pb", "aa .pb", " ab.pb", "ab　.cd", "\u0085ab.cd",
			"Ωmega.pb", "ωmega.pb", "K1.pb", "ǅa.pb", "ß.pb", "é.pb", "É.pb", "\xff\xfe.pb", "ab\xc3.pb", "\xc3\x28.pb", "��.pb",
			"😀😀.pb", "一二.pb", "ⅷⅷ.pb", "ⅧⅧ.pb", "ab­.pb", "дом.pb", "ДОМ.pb", "straße.pb", "STRASSE.pb", "ǆ.pb", "Ǆ.pb", "ϒa.pb",
			"aa. ", "aa.  bb ", "\xa0ab.pb", "ab\x85.pb", "é" + uuid + ".pb", "x" + uuid + "é", "é-é.pb", "é--é.pb",
			"٠١.pb", "۱۲.pb", "१२.pb", "ａｂ.pb", "ＡＢ.pb", "²³.pb", "½½.pb", "ªº.pb"}
		pool := []string{"a", "b", "A", "1", "-", ".", " ", "é", "É", "ñ", "ß", "İ", "ı", "ω", "Ω", "д", "Д", "٣", "３", " ", " ", "　",
			"\xff", "\xc3", "\x80", "�", "ǅ", "K", "ⅷ", "一", "😀", "²", "ª"}
		nU := scale(250, 8000)
		for i := 0; i < len(fixedU)+nU; i++ {
			var raw string
			if i < len(fixedU) {
				raw = fixedU[i]
			} else {
				var sb strings.Builder
				for k := 0; k < 1+r.Intn(6); k++ {
					sb.WriteString(pool[r.Intn(len(pool))])
				}
				raw = sb.String()
			}
			p := params[0]
			if i%4 == 3 {
				p = params[1]
			}
			c15EmitNorm(w, app, ctx, kp, p, raw, "CNormU")
		}
	}
	w.Flush(t)
}

func c15EmitNorm(w *CaseWriter, app *simapp.App, ctx sdk.Context, kp nametypes.Params, p c15Params, raw, ctor string) {
	np := kp
	np.MinSegmentLength, np.MaxSegmentLength, np.MaxNameLevels = p.min, p.max, p.levels
	app.NameKeeper.SetParams(ctx, np)
	var nn, nn2 string
	err := try(func() error {
		var e2 error
		nn, e2 = app.NameKeeper.Normalize(ctx, raw)
		return e2
	})
	var err2 error = fmt.Errorf("not run")
	if err == nil {
		err2 = try(func() error {
			var e2 error
			nn2, e2 = app.NameKeeper.Normalize(ctx, nn)
			return e2
		})
	}
	_, kerr := nametypes.GetNameKeyPrefix(raw)
	w.Add(fmt.Sprintf("%s %s %s %s %s %s", ctor, p.coq(), c15Str(raw), coqOpt(err == nil, c15Str(nn)), coqOpt(err2 == nil, c15Str(nn2)), coqBool(kerr == nil)),
		map[string]any{"kind": "normalize", "raw": raw, "ok": err == nil, "normalized": nn, "key_ok": kerr == nil})
	if ctor == "CNorm" {
		w.Count("normalize_inputs")
	} else {
		w.Count("normalize_inputs_non_ascii")
		if c15Modelled(raw) {
			w.Count("normalize_inputs_non_ascii_inside_modelled_tables")
		}
	}
	if err == nil {
		w.Count("normalize_accepted")
		if nn != raw {
			w.Nontrivial("n/" + raw)
		}
	}
}

// c15Modelled says whether every rune of s lies in the ranges Name/NameUnicode.v has tables for
// (statistics only: the Coq side decides for itself).
func c15Modelled(s string) bool {
	ranges := [][2]rune{{0, 591}, {880, 1023}, {1024, 1327}, {1632, 1641}, {1776, 1785}, {2406, 2415}, {5760, 5760}, {8192, 8303},
		{8448, 8591}, {12288, 12288}, {19968, 19983}, {65296, 65370}, {65533, 65533}, {128512, 128527}}
	for _, c := range s {
		in := false
		for _, rg := range ranges {
			if c >= rg[0] && c <= rg[1] {
				in = true
			}
		}
		if !in {
			return false
		}
	}
	return true
}

// c15Str renders any byte string as a Coq string term (control characters and bytes >= 128 are
// spelled out).
func c15Str(s string) string {
	plain := true
	for i := 0; i < len(s); i++ {
		if s[i] < 0x20 || s[i] > 0x7e || s[i] == '"' {
			plain = false
		}
	}
	if plain {
		return coqStr(s)
	}
	out := "\"\""
	for i := len(s) - 1; i >= 0; i-- {
		out = fmt.Sprintf("(String (Coq.Strings.Ascii.ascii_of_N %d) %s)", s[i], out)
	}
	return out
}

func mapStr(l []string, f func(string) string) []string {
	out := make([]string, len(l))
	for i, s := range l {
		out[i] = f(s)
	}
	return out
}
