//go:build c15

package harness

import (
	"bytes"
	"fmt"
	"math/rand"
	"sort"
	"strings"
	"testing"

	sdk "github.com/cosmos/cosmos-sdk/types"
	"github.com/cosmos/cosmos-sdk/types/query"
	authtypes "github.com/cosmos/cosmos-sdk/x/auth/types"
	govtypes "github.com/cosmos/cosmos-sdk/x/gov/types"

	simapp "github.com/provenance-io/provenance/app"
	nametypes "github.com/provenance-io/provenance/x/name/types"
)

// ---------- C15: name module ----------
//
// Three streams:
//   1. histories over a small name tree through the real message handlers, observing after every
//      step GetRecordByName / ResolvesTo / ReverseLookup for the whole universe;
//   2. pair search: every name over a 3-letter alphabet within the limits, grouped by the real
//      GetNameKeyPrefix;
//   3. Normalize / GetNameKeyPrefix on raw (mixed case, padded, malformed, uuid) inputs.

type c15Params struct{ min, max, levels uint32 }

func (p c15Params) coq() string {
	return fmt.Sprintf("{| p_min_seg := %d; p_max_seg := %d; p_max_levels := %d |}", p.min, p.max, p.levels)
}

type c15Env struct {
	app   *simapp.App
	addrs []sdk.AccAddress // index = model id; 0 = governance authority
}

func (e *c15Env) id(bech string) int {
	for i, a := range e.addrs {
		if a.String() == bech {
			return i
		}
	}
	return 99 // an address outside the universe
}

func c15Key(name string) []byte {
	k, err := nametypes.GetNameKeyPrefix(name)
	if err != nil {
		return nil
	}
	return k
}

// revcat is the pre-image the key function hashes (only used to classify collisions for the
// description of a case; the Coq side recomputes it from the model).
func c15Revcat(name string) string {
	segs := strings.Split(name, ".")
	var sb strings.Builder
	for i := len(segs) - 1; i >= 0; i-- {
		sb.WriteString(strings.TrimSpace(segs[i]))
	}
	return sb.String()
}

type c15Obs struct {
	term      string
	anomalies [][2]string // (queried, stored) where the lookup returned a record of another name
	recs      map[string]*nametypes.NameRecord
}

func (e *c15Env) observe(t *testing.T, ctx sdk.Context, names []string) c15Obs {
	o := c15Obs{recs: map[string]*nametypes.NameRecord{}}
	var recs, res, rev []string
	for _, n := range names {
		var rec *nametypes.NameRecord
		err := try(func() error {
			var e2 error
			rec, e2 = e.app.NameKeeper.GetRecordByName(ctx, n)
			return e2
		})
		if err != nil || rec == nil {
			recs = append(recs, "None")
		} else {
			recs = append(recs, fmt.Sprintf("(Some (%s, %d%%N, %s))", coqStr(rec.Name), e.id(rec.Address), coqBool(rec.Restricted)))
			o.recs[n] = rec
			if rec.Name != n {
				o.anomalies = append(o.anomalies, [2]string{n, rec.Name})
			}
		}
		var row []string
		for _, a := range e.addrs {
			row = append(row, coqBool(e.app.NameKeeper.ResolvesTo(ctx, n, a)))
		}
		res = append(res, coqList(row))
	}
	for _, a := range e.addrs {
		resp, err := e.app.NameKeeper.ReverseLookup(ctx, &nametypes.QueryReverseLookupRequest{Address: a.String(), Pagination: &query.PageRequest{Limit: 10000}})
		if err != nil {
			t.Fatalf("ReverseLookup: %v", err)
		}
		listed := append([]string{}, resp.Name...)
		sort.Strings(listed)
		// the keeper-level listing must say the same as the query
		krecs, err := e.app.NameKeeper.GetRecordsByAddress(ctx, a)
		if err != nil {
			t.Fatalf("GetRecordsByAddress: %v", err)
		}
		var kl []string
		for _, r := range krecs {
			kl = append(kl, r.Name)
		}
		sort.Strings(kl)
		if strings.Join(kl, "|") != strings.Join(listed, "|") {
			t.Errorf("ReverseLookup %v and GetRecordsByAddress %v differ for %s", listed, kl, a)
		}
		var ls []string
		for _, n := range listed {
			ls = append(ls, coqStr(n))
		}
		rev = append(rev, coqList(ls))
	}
	o.term = "(" + coqList(recs) + ", " + coqList(res) + ", " + coqList(rev) + ")"
	return o
}

type c15Op struct {
	kind   string // root, bind, modify, delete
	signer int
	name   string // root/modify/delete: the name as given; bind: the child segment
	parent string // bind only
	owner  int
	restr  bool
}

func (o c15Op) coq() string {
	switch o.kind {
	case "root":
		return fmt.Sprintf("OpCreateRoot %d%%N %s %d%%N %s", o.signer, c15Str(o.name), o.owner, coqBool(o.restr))
	case "bind":
		return fmt.Sprintf("OpBind %s %d%%N %s %d%%N %s", c15Str(o.parent), o.signer, c15Str(o.name), o.owner, coqBool(o.restr))
	case "modify":
		return fmt.Sprintf("OpModify %d%%N %s %d%%N %s", o.signer, c15Str(o.name), o.owner, coqBool(o.restr))
	default:
		return fmt.Sprintf("OpDelete %s %d%%N", c15Str(o.name), o.signer)
	}
}

func (e *c15Env) msg(o c15Op) sdk.Msg {
	switch o.kind {
	case "root":
		return nametypes.NewMsgCreateRootNameRequest(e.addrs[o.signer].String(), o.name, e.addrs[o.owner].String(), o.restr)
	case "bind":
		return nametypes.NewMsgBindNameRequest(
			nametypes.NameRecord{Name: o.name, Address: e.addrs[o.owner].String(), Restricted: o.restr},
			nametypes.NameRecord{Name: o.parent, Address: e.addrs[o.signer].String()})
	case "modify":
		return nametypes.NewMsgModifyNameRequest(e.addrs[o.signer].String(), o.name, e.addrs[o.owner], o.restr)
	default:
		return nametypes.NewMsgDeleteNameRequest(nametypes.NameRecord{Name: o.name, Address: e.addrs[o.signer].String()})
	}
}

// exec runs the message through the real router on a cache of ctx; the cache is written only
// when the handler succeeds (a failed tx is rolled back).
func (e *c15Env) exec(ctx sdk.Context, o c15Op) bool {
	cctx, write := ctx.CacheContext()
	m := e.msg(o)
	err := try(func() error {
		h := e.app.MsgServiceRouter().Handler(m)
		if h == nil {
			return fmt.Errorf("no handler")
		}
		_, e2 := h(cctx, m)
		return e2
	})
	if err == nil {
		write()
	}
	return err == nil
}

// ---- universes ----

func c15Seg(r *rand.Rand, alpha string, lo, hi int) string {
	n := lo + r.Intn(hi-lo+1)
	b := make([]byte, n)
	for i := range b {
		b[i] = alpha[r.Intn(len(alpha))]
	}
	return string(b)
}

// c15Tree builds a name tree: roots, children, grandchildren (parents listed before children).
func c15Tree(r *rand.Rand) []string {
	const alpha = "abcde12"
	seen := map[string]bool{}
	var names []string
	add := func(n string) bool {
		if seen[n] {
			return false
		}
		seen[n] = true
		names = append(names, n)
		return true
	}
	for len(names) < 2 {
		s := c15Seg(r, alpha, 2, 4)
		if r.Intn(6) == 0 {
			s = s[:1] + "-" + s[1:]
		}
		add(s)
	}
	roots := append([]string{}, names...)
	var kids []string
	for _, rt := range roots {
		for k := 0; k < 2+r.Intn(2); k++ {
			c := c15Seg(r, alpha, 2, 4) + "." + rt
			if add(c) {
				kids = append(kids, c)
			}
		}
	}
	for _, kd := range kids {
		for k := 0; k < r.Intn(3); k++ {
			add(c15Seg(r, alpha, 2, 3) + "." + kd)
		}
	}
	return names
}

// c15Colliding builds a universe around a pair u.(vw) / (wu).v, whose keys coincide.
func c15Colliding(r *rand.Rand, canonical bool) []string {
	u, v, w := "aa", "bb", "cc"
	if !canonical {
		const alpha = "abcde"
		for {
			u, v, w = c15Seg(r, alpha, 2, 3), c15Seg(r, alpha, 2, 3), c15Seg(r, alpha, 2, 3)
			if v+w != v && u != w+u && v != v+w {
				break
			}
		}
	}
	names := []string{v + w, v, u + "." + v + w, w + u + "." + v, "x1." + u + "." + v + w, "zz." + v, "y2." + w + u + "." + v}
	return names
}

func c15Collisions(names []string) [][2]string {
	var out [][2]string
	for i := range names {
		for j := i + 1; j < len(names); j++ {
			ki, kj := c15Key(names[i]), c15Key(names[j])
			if ki != nil && bytes.Equal(ki, kj) {
				out = append(out, [2]string{names[i], names[j]})
			}
		}
	}
	return out
}

func c15Parent(n string) (child, parent string) {
	i := strings.Index(n, ".")
	if i < 0 {
		return n, ""
	}
	return n[:i], n[i+1:]
}

// c15Raw occasionally dresses a canonical name up (padding, capitals) — the handlers normalise.
func c15Raw(r *rand.Rand, n string) string {
	switch r.Intn(14) {
	case 0:
		return " " + n
	case 1:
		return strings.ToUpper(n[:1]) + n[1:]
	case 2:
		return strings.ReplaceAll(n, ".", " . ")
	case 3:
		return n + "\t"
	}
	return n
}

// nextOp proposes the next message from what the real keeper currently stores.
func (e *c15Env) nextOp(r *rand.Rand, names []string, cur c15Obs) c15Op {
	users := len(e.addrs) - 1
	user := func() int { return 1 + r.Intn(users) }
	otherThan := func(x int) int {
		for {
			u := user()
			if u != x {
				return u
			}
		}
	}
	var bound, unbound []string
	for _, n := range names {
		if rec := cur.recs[n]; rec != nil && rec.Name == n {
			bound = append(bound, n)
		} else if rec == nil {
			unbound = append(unbound, n)
		}
	}
	ownerOf := func(n string) int {
		if rec := cur.recs[n]; rec != nil {
			return e.id(rec.Address)
		}
		return user()
	}
	pick := func(l []string) string { return l[r.Intn(len(l))] }
	honest := r.Intn(100) < 62
	for tries := 0; tries < 50; tries++ {
		switch k := r.Intn(100); {
		case k < 12: // root creation
			var roots []string
			for _, n := range names {
				if !strings.Contains(n, ".") {
					roots = append(roots, n)
				}
			}
			n := pick(names)
			if r.Intn(4) != 0 {
				n = pick(roots)
			}
			signer := 0
			if !honest && r.Intn(2) == 0 {
				signer = user()
			}
			return c15Op{kind: "root", signer: signer, name: c15Raw(r, n), owner: user(), restr: r.Intn(2) == 0}
		case k < 52: // bind
			var cands []string
			src := unbound
			if !honest && r.Intn(3) == 0 {
				src = names
			}
			for _, n := range src {
				if _, p := c15Parent(n); p != "" {
					if honest && cur.recs[p] == nil {
						continue
					}
					cands = append(cands, n)
				}
			}
			if len(cands) == 0 {
				continue
			}
			child, parent := c15Parent(pick(cands))
			signer := ownerOf(parent)
			if !honest || r.Intn(5) == 0 {
				signer = user() // a stranger: accepted only under an unrestricted parent
			}
			if r.Intn(10) == 0 {
				signer = 0 // the governance authority has no special right to bind
			}
			owner := signer
			if r.Intn(3) == 0 {
				owner = user()
			}
			if owner == 0 {
				owner = user()
			}
			op := c15Op{kind: "bind", signer: signer, name: child, parent: parent, owner: owner, restr: r.Intn(2) == 0}
			switch r.Intn(30) {
			case 0:
				op.name = strings.ToUpper(child)
			case 1:
				op.parent = " " + parent + " "
			case 2:
				op.parent = strings.ToUpper(parent[:1]) + parent[1:]
			case 3:
				op.name = child + "." + child
			case 4:
				op.name = child[:1]
			case 5:
				op.name = " "
			}
			return op
		case k < 80: // modify
			if len(bound) == 0 && honest {
				continue
			}
			n := pick(names)
			if len(bound) > 0 && (honest || r.Intn(2) == 0) {
				n = pick(bound)
			}
			signer := ownerOf(n)
			if honest {
				if r.Intn(5) == 0 {
					signer = 0
				}
			} else if r.Intn(3) != 0 {
				signer = otherThan(signer)
			}
			newOwner := ownerOf(n)
			if r.Intn(2) == 0 || newOwner == 0 {
				newOwner = user()
			}
			restr := r.Intn(2) == 0
			if rec := cur.recs[n]; rec != nil && r.Intn(2) == 0 {
				restr = !rec.Restricted
			}
			return c15Op{kind: "modify", signer: signer, name: c15Raw(r, n), owner: newOwner, restr: restr}
		default: // delete
			if len(bound) == 0 && honest {
				continue
			}
			n := pick(names)
			if len(bound) > 0 && (honest || r.Intn(2) == 0) {
				n = pick(bound)
			}
			signer := ownerOf(n)
			if !honest && r.Intn(3) != 0 {
				signer = otherThan(signer)
			}
			if r.Intn(7) == 0 {
				signer = 0 // the governance authority may modify a name but not delete it
				w15gov++
			}
			return c15Op{kind: "delete", signer: signer, name: c15Raw(r, n)}
		}
	}
	return c15Op{kind: "root", signer: 0, name: names[0], owner: 1, restr: false}
}

var w15gov int64 // delete attempts signed by the governance authority

// addr32N is a 32-byte account address (contract / group / derived addresses have this length).
func addr32N(n int) sdk.AccAddress {
	b := make([]byte, 32)
	copy(b, fmt.Sprintf("verifaddr32_%09d_long_address", n))
	return sdk.AccAddress(b)
}

func TestC15(t *testing.T) {
	r := newRand("C15")
	w := NewCaseWriter("C15", "PV.Corr.C15", "check_all", scale(40, 50))
	app, baseCtx := newApp(t)
	type desc map[string]any

	govAddr := authtypes.NewModuleAddress(govtypes.ModuleName)
	if govAddr.String() != app.NameKeeper.GetAuthority() {
		t.Fatalf("authority is %s, expected the gov module account", app.NameKeeper.GetAuthority())
	}
	env := &c15Env{app: app, addrs: []sdk.AccAddress{govAddr, addrN(1), addrN(2), addrN(3), addr32N(4), addr32N(5)}}
	// the governance module account must exist, else a delete signed by it fails only in PurgeAttribute
	app.AccountKeeper.GetModuleAccount(baseCtx, govtypes.ModuleName)
	for _, a := range env.addrs[1:] {
		ensureAccount(app, baseCtx, a)
	}
	// The model starts from an empty name store.  Genesis binds a few module names (the attribute
	// module's account-data name, owned by a module account): they are outside every universe,
	// which is checked below for every universe (no shared key, no shared owner).
	var genesisKeys [][]byte
	_ = app.NameKeeper.IterateRecords(baseCtx, nametypes.NameKeyPrefix, func(rec nametypes.NameRecord) error {
		genesisKeys = append(genesisKeys, c15Key(rec.Name))
		if env.id(rec.Address) != 99 {
			t.Fatalf("genesis name %q belongs to an address of the universe", rec.Name)
		}
		return nil
	})
	w.CountN("genesis_names_outside_universe", int64(len(genesisKeys)))
	clashesWithGenesis := func(names []string) bool {
		for _, n := range names {
			for _, g := range genesisKeys {
				if bytes.Equal(c15Key(n), g) {
					return true
				}
			}
		}
		return false
	}
	kp := app.NameKeeper.GetParams(baseCtx)
	defP := c15Params{kp.MinSegmentLength, kp.MaxSegmentLength, kp.MaxNameLevels}

	var addrIDs []string
	for i := range env.addrs {
		addrIDs = append(addrIDs, fmt.Sprintf("%d%%N", i))
	}
	// ---------- 1. histories ----------
	nHist := scale(160, 3000)
	steps := scale(30, 45)
	var accepted, total int64
	for h := 0; h < nHist; h++ {
		ctx, _ := baseCtx.CacheContext()
		p := defP
		if h%5 == 4 { // tight limits: some universe names become invalid and must be rejected
			p = c15Params{2, 3, 2}
			if h%10 == 9 {
				p = c15Params{3, 32, 16}
			}
			np := kp
			np.MinSegmentLength, np.MaxSegmentLength, np.MaxNameLevels = p.min, p.max, p.levels
			app.NameKeeper.SetParams(ctx, np)
		}
		colliding := h%8 == 3
		var names []string
		if colliding {
			names = c15Colliding(r, h == 3)
			if clashesWithGenesis(names) {
				t.Fatalf("colliding universe clashes with a genesis name")
			}
			w.Count("histories_with_colliding_universe")
		} else {
			for {
				names = c15Tree(r)
				if len(c15Collisions(names)) == 0 && !clashesWithGenesis(names) {
					break
				}
				w.Count("universe_regenerated_because_of_key_collision")
			}
		}
		// only names that are valid under the history's parameters are observed
		var uni []string
		for _, n := range names {
			if nn, err := app.NameKeeper.Normalize(ctx, n); err == nil && nn == n {
				uni = append(uni, n)
			}
		}
		if len(uni) == 0 {
			continue
		}
		cur := env.observe(t, ctx, uni)
		o0 := cur.term
		var stepTerms []string
		var opDescs []desc
		nAcc := 0
		kinds := map[string]bool{}
		var script []c15Op
		if colliding {
			// make the colliding pair meet: root vw (unrestricted), bind u.vw for user 1, root v
			// restricted for user 3, then the owner of v tries to bind wu under it
			c1, p1 := c15Parent(names[2])
			c2, p2 := c15Parent(names[3])
			script = []c15Op{
				{kind: "root", signer: 0, name: p1, owner: 2, restr: false},
				{kind: "bind", signer: 1, name: c1, parent: p1, owner: 1, restr: true},
				{kind: "root", signer: 0, name: p2, owner: 3, restr: true},
				{kind: "bind", signer: 3, name: c2, parent: p2, owner: 3, restr: false},
				{kind: "modify", signer: 1, name: names[3], owner: 2, restr: false},
			}
		}
		for s := 0; s < steps; s++ {
			var op c15Op
			if s < len(script) {
				op = script[s]
			} else {
				op = env.nextOp(r, names, cur)
			}
			var prevOwner *nametypes.NameRecord
			if op.kind == "modify" {
				prevOwner = cur.recs[nametypes.NormalizeName(op.name)]
			}
			ok := env.exec(ctx, op)
			if ok && prevOwner != nil {
				if old := env.id(prevOwner.Address); old < len(env.addrs) && len(env.addrs[old]) != len(env.addrs[op.owner]) {
					w.Count("modify_accepted_between_20_and_32_byte_owners")
				}
			}
			cur = env.observe(t, ctx, uni)
			stepTerms = append(stepTerms, "("+op.coq()+", "+coqBool(ok)+", "+cur.term+")")
			d := desc{"op": op.kind, "signer": op.signer, "name": op.name, "owner": op.owner, "restricted": op.restr, "accepted": ok}
			if op.kind == "bind" {
				d["parent"] = op.parent
			}
			if len(cur.anomalies) > 0 {
				d["lookup_returned_other_name"] = cur.anomalies
			}
			opDescs = append(opDescs, d)
			total++
			w.Count("ops_" + op.kind)
			if ok {
				accepted++
				nAcc++
				kinds[op.kind] = true
				w.Count("ops_" + op.kind + "_accepted")
			}
		}
		term := "CHist " + p.coq() + " " + coqList(mapStr(uni, coqStr)) + " " + coqList(addrIDs) + " " + o0 + " " + coqList(stepTerms)
		w.Add(term, desc{"kind": "history", "params": []uint32{p.min, p.max, p.levels}, "names": uni,
			"collision_pairs": c15Collisions(uni), "steps": opDescs})
		w.Count("histories")
		if len(kinds) >= 3 && nAcc >= 8 {
			w.Nontrivial("h/" + term)
		}
	}
	w.CountN("delete_attempts_signed_by_gov_authority", w15gov)
	w.CountN("addresses_32_bytes", 2)
	w.CountN("ops_total", total)
	w.CountN("ops_accepted", accepted)
	if total > 0 {
		w.CountN("ops_accepted_percent", accepted*100/total)
	}

	// ---------- 2. pair search over a 3-letter alphabet ----------
	{
		const alpha = "abc"
		var segs []string
		var gen func(prefix string, n int)
		gen = func(prefix string, n int) {
			if n == 0 {
				segs = append(segs, prefix)
				return
			}
			for i := 0; i < len(alpha); i++ {
				gen(prefix+string(alpha[i]), n-1)
			}
		}
		maxSeg := scale(3, 4)
		for l := 2; l <= maxSeg; l++ {
			gen("", l)
		}
		maxTotal := scale(7, 8)
		var all []string
		var build func(cur string, levels, total int)
		build = func(cur string, levels, total int) {
			if cur != "" {
				all = append(all, cur)
			}
			if levels == 3 {
				return
			}
			for _, s := range segs {
				if total+len(s) > maxTotal {
					continue
				}
				n := s
				if cur != "" {
					n = s + "." + cur
				}
				build(n, levels+1, total+len(s))
			}
		}
		build("", 0, 0)
		ctx, _ := baseCtx.CacheContext()
		isValid := func(n string) bool {
			nn, err := app.NameKeeper.Normalize(ctx, n)
			return err == nil && nn == n
		}
		groups := map[string][]string{}
		for _, n := range all {
			groups[string(c15Key(n))] = append(groups[string(c15Key(n))], n)
		}
		w.CountN("pair_search_names", int64(len(all)))
		w.CountN("pair_search_pairs_compared", int64(len(all))*int64(len(all)-1)/2)
		keys := make([]string, 0, len(groups))
		for k := range groups {
			keys = append(keys, k)
		}
		sort.Strings(keys)
		var collisions [][2]string
		for _, k := range keys {
			g := groups[k]
			for i := range g {
				for j := i + 1; j < len(g); j++ {
					collisions = append(collisions, [2]string{g[i], g[j]})
				}
			}
		}
		w.CountN("pair_search_colliding_pairs", int64(len(collisions)))
		emit := func(n1, n2 string) {
			same := c15Key(n1) != nil && bytes.Equal(c15Key(n1), c15Key(n2))
			w.Add(fmt.Sprintf("CPair %s %s %s %s %s %s", defP.coq(), coqStr(n1), coqStr(n2), coqBool(isValid(n1)), coqBool(isValid(n2)), coqBool(same)),
				desc{"kind": "pair", "n1": n1, "n2": n2, "same_key": same})
			if same {
				w.Nontrivial("p/" + n1 + "/" + n2)
			}
		}
		// every collision whose shape is NOT "same reversed concatenation" is always emitted; of
		// the others (the known finding) the canonical witness and a sample
		emit("aa.bbcc", "ccaa.bb")
		sample := scale(60, 2000)
		perm := r.Perm(len(collisions))
		for i, pi := range perm {
			c := collisions[pi]
			if c15Revcat(c[0]) != c15Revcat(c[1]) || i < sample {
				emit(c[0], c[1])
			}
		}
		// non-colliding pairs: a sample, biased to pairs with equal multiset of letters
		for i := 0; i < scale(300, 20000); i++ {
			a, b := all[r.Intn(len(all))], all[r.Intn(len(all))]
			if a == b {
				continue
			}
			emit(a, b)
		}
	}

	// ---------- 3. Normalize / key function on raw inputs ----------
	{
		ctx, _ := baseCtx.CacheContext()
		uuid := "123e4567-e89b-12d3-a456-426614174000"
		fixed := []string{"", " ", ".", "a", "ab", "ab.", ".ab", "a..b", "ab..cd", "AB.cd", " ab . cd ", "ab.c", "a-b", "a-b-c", "-ab", "ab-", "--",
			"ab_cd", "ab cd", "ab.cd.ef.gh.ij.kl.mn.op.qr.st.uv.wx.yz.ab.cd.ef", "ab.cd.ef.gh.ij.kl.mn.op.qr.st.uv.wx.yz.ab.cd.ef.gh",
			strings.Repeat("a", 32), strings.Repeat("a", 33), strings.Repeat("a", 33) + ".pb",
			uuid, uuid + ".pb", strings.ToUpper(uuid) + ".pb", "urn:uuid:" + uuid, "URN:UUID:" + uuid + ".pb", "{" + uuid + "}", "x" + uuid + "y", "{" + uuid + "}.pb",
			strings.ReplaceAll(uuid, "-", ""), strings.ReplaceAll(uuid, "-", "") + "0", "123e4567-e89b-12d3-a456-42661417400g", "123e4567+e89b-12d3-a456-426614174000",
			"urn:uuix:" + uuid, "ab\t.cd", "\nab.cd\r", "ab.cd\v", "ab.\fcd", "a1.2b", "0.1", "00.11", "ab.cd ", "ab .cd", "a b.cd", "ab:cd", "ab/cd", "ab.cd!", "ab\x00.cd", "ab\x7f"}
		const raws = "abAB1-. \t_:"
		n := scale(400, 20000)
		for i := 0; i < len(fixed)+n; i++ {
			var raw string
			if i < len(fixed) {
				raw = fixed[i]
			} else {
				raw = c15Seg(r, raws, 0, 9)
				if r.Intn(3) == 0 {
					raw = c15Seg(r, "abc1-", 1, 5) + "." + c15Seg(r, "abC ", 1, 5)
				}
			}
			for _, p := range []c15Params{defP, {1, 4, 2}} {
				if p != defP && i%3 != 0 {
					continue
				}
				np := kp
				np.MinSegmentLength, np.MaxSegmentLength, np.MaxNameLevels = p.min, p.max, p.levels
				app.NameKeeper.SetParams(ctx, np)
				var nn string
				err := try(func() error {
					var e2 error
					nn, e2 = app.NameKeeper.Normalize(ctx, raw)
					return e2
				})
				_, kerr := nametypes.GetNameKeyPrefix(raw)
				w.Add(fmt.Sprintf("CNorm %s %s %s %s", p.coq(), c15Str(raw), coqOpt(err == nil, c15Str(nn)), coqBool(kerr == nil)),
					desc{"kind": "normalize", "raw": raw, "ok": err == nil, "key_ok": kerr == nil})
				w.Count("normalize_inputs")
				if err == nil {
					w.Count("normalize_accepted")
					if nn != raw {
						w.Nontrivial("n/" + raw)
					}
				}
			}
		}
	}
	w.Flush(t)
}

// c15Str renders any byte string as a Coq string term (control characters are spelled out).
func c15Str(s string) string {
	plain := true
	for i := 0; i < len(s); i++ {
		if s[i] < 0x20 || s[i] > 0x7e {
			plain = false
		}
	}
	if plain {
		return coqStr(s)
	}
	out := "\"\""
	for i := len(s) - 1; i >= 0; i-- {
		out = fmt.Sprintf("(String (Coq.Strings.Ascii.ascii_of_N %d) %s)", s[i], out)
	}
	return out
}

func mapStr(l []string, f func(string) string) []string {
	out := make([]string, len(l))
	for i, s := range l {
		out[i] = f(s)
	}
	return out
}
