//go:build c09

package harness

import (
	"fmt"
	"math/rand"
	"sort"
	"strings"
	"testing"
	"time"

	sdkmath "cosmossdk.io/math"
	"github.com/google/uuid"

	sdk "github.com/cosmos/cosmos-sdk/types"
	"github.com/cosmos/cosmos-sdk/types/query"
	authtypes "github.com/cosmos/cosmos-sdk/x/auth/types"
	"github.com/cosmos/cosmos-sdk/x/authz"
	banktypes "github.com/cosmos/cosmos-sdk/x/bank/types"

	simapp "github.com/provenance-io/provenance/app"
	markertypes "github.com/provenance-io/provenance/x/marker/types"
	mdkeeper "github.com/provenance-io/provenance/x/metadata/keeper"
	mdtypes "github.com/provenance-io/provenance/x/metadata/types"
	"github.com/provenance-io/provenance/x/quarantine"
)

// ---------------------------------------------------------------------------------------------
// C09: a scope has one value owner, changed only with the current owner's consent.
//
// Histories over 2-4 scopes (bulk histories: 20 and 105 scopes) and a fixed cast of accounts, every
// step through the REAL message handlers (MsgWriteScopeRequest, MsgUpdateValueOwnersRequest,
// MsgMigrateValueOwnerRequest, MsgDeleteScopeRequest, MsgAddScopeDataAccessRequest, bank MsgSend and
// MsgMultiSend of scope tokens, quarantine MsgOptIn / MsgOptOut / MsgUpdateAutoResponses / MsgAccept /
// MsgDecline) with the Signers field drawn from the cast; authz grants (generic and count-limited,
// with and without expiration) through the real authz keeper; marker access lists and marker STATUS
// through the real marker keeper; sanctions through the real sanction keeper; block time advanced on
// the context.  After every step: every bank balance and the supply of every scope denom, keeper
// GetScopeValueOwner, gRPC Scope and ValueOwnership queries, every authz grant, every quarantine
// record, accept/reject.
//
// The last histories of a run are CHAIN histories (c09_abci_test.go): the same generator, every
// message in a signed transaction through CheckTx / FinalizeBlock, with and without a fee granter.
// The marker module is also pointed at scope-token denoms (add a marker on the denom, mint, forced
// transfer, withdraw): refused on the pinned code.
//
// Cast (model index): 0 metadata module account, 1-3 users (scope owners), 4 authz grantee,
// 5 stranger, 6 marker administrator, 7 unrestricted marker, 8 restricted marker, 9 smart contract
// (base account, sequence 0, no public key), 10 another module account (blocked), 11 the quarantine
// funds holder, 12 restricted marker with forced transfer, 99 anybody else.
// ---------------------------------------------------------------------------------------------

const (
	c09Module   = 0
	c09Grantee  = 4
	c09Stranger = 5
	c09Admin    = 6
	c09Mk1      = 7
	c09Mk2      = 8
	c09Wasm     = 9
	c09Blocked  = 10
	c09QHold    = 11
	c09Mk3      = 12
	c09Other    = 99
)

var c09Markers = []int{c09Mk1, c09Mk2, c09Mk3}

var c09Kinds = []string{"KWrite", "KUpdate", "KMigrate", "KDelete", "KAddData"}
var c09KindURL = []string{
	mdtypes.TypeURLMsgWriteScopeRequest, mdtypes.TypeURLMsgUpdateValueOwnersRequest,
	mdtypes.TypeURLMsgMigrateValueOwnerRequest, mdtypes.TypeURLMsgDeleteScopeRequest,
	mdtypes.TypeURLMsgAddScopeDataAccessRequest,
}

// party roles (PartyType enum values) and the required roles of the existing scope specifications
const (
	c09Owner      = int(mdtypes.PartyType_PARTY_TYPE_OWNER)
	c09Investor   = int(mdtypes.PartyType_PARTY_TYPE_INVESTOR)
	c09Servicer   = int(mdtypes.PartyType_PARTY_TYPE_SERVICER)
	c09Custodian  = int(mdtypes.PartyType_PARTY_TYPE_CUSTODIAN)
	c09Provenance = int(mdtypes.PartyType_PARTY_TYPE_PROVENANCE)
	c09Controller = int(mdtypes.PartyType_PARTY_TYPE_CONTROLLER)
)

// specifications 1-4 exist, 5 does not
var c09SpecRoles = map[int][]int{1: {c09Owner}, 2: {c09Owner, c09Investor},
	3: {c09Owner, c09Servicer, c09Provenance}, 4: {c09Owner, c09Owner, c09Custodian}}

const c09NoSpec = 5

var c09MarkerStatus = []string{"", "proposed", "finalized", "active", "cancelled", "destroyed"}

type c09Env struct {
	t       *testing.T
	app     *simapp.App
	base    sdk.Context
	t0      time.Time
	addrs   map[int]sdk.AccAddress
	order   []int // model indexes in a fixed order
	specs   []mdtypes.MetadataAddress
	mkDen   map[int]string
	onChain bool // ABCI route: begin/end blockers run between the steps
}

func (e *c09Env) idx(a sdk.AccAddress) int {
	for _, i := range e.order {
		if e.addrs[i].Equals(a) {
			return i
		}
	}
	return c09Other
}

func c09N(i int) string { return fmt.Sprintf("%d%%N", i) }
func c09Ns(l []int) string {
	out := make([]string, len(l))
	for i, x := range l {
		out[i] = c09N(x)
	}
	return coqList(out)
}
func c09OptN(i int) string {
	if i < 0 {
		return "None"
	}
	return "(Some " + c09N(i) + ")"
}
func c09OptZ(ok bool, v int64) string {
	if !ok {
		return "None"
	}
	return "(Some " + zI64(v) + ")"
}

type c09Marker struct {
	restricted, forced bool
	status             int
	withdraw, deposit  []int
}

func (m c09Marker) term() string {
	return fmt.Sprintf("{| mk_restricted := %s; mk_status := %s; mk_forced := %s; mk_withdraw := %s; mk_deposit := %s |}",
		coqBool(m.restricted), c09N(m.status), coqBool(m.forced), c09Ns(m.withdraw), c09Ns(m.deposit))
}

func c09Setup(t *testing.T) *c09Env {
	app, ctx := newApp(t)
	t0 := time.Unix(1_700_000_000, 0).UTC()
	ctx = ctx.WithBlockTime(t0)
	users := map[int]sdk.AccAddress{}
	for i := 1; i <= 6; i++ {
		users[i] = addrN(9000 + i)
	}
	// ordinary accounts have signed before (sequence 1): the metadata module treats an existing base
	// account with sequence 0 and no public key as a smart contract
	for i := 1; i <= 6; i++ {
		acc := app.AccountKeeper.NewAccount(ctx, authtypes.NewBaseAccountWithAddress(users[i]))
		if err := acc.SetSequence(1); err != nil {
			t.Fatal(err)
		}
		app.AccountKeeper.SetAccount(ctx, acc)
	}
	return c09Populate(t, app, ctx, t0, users)
}

// c09Populate builds the cast around the six ordinary accounts (which exist already) and writes the
// markers and scope specifications through ctx.
func c09Populate(t *testing.T, app *simapp.App, ctx sdk.Context, t0 time.Time, users map[int]sdk.AccAddress) *c09Env {
	e := &c09Env{t: t, app: app, base: ctx, t0: t0, addrs: map[int]sdk.AccAddress{},
		mkDen: map[int]string{c09Mk1: "cninecoin", c09Mk2: "cninerest", c09Mk3: "cnineforced"}}
	e.addrs[c09Module] = authtypes.NewModuleAddress(mdtypes.ModuleName)
	e.addrs[c09Blocked] = authtypes.NewModuleAddress("mint")
	e.addrs[c09QHold] = app.QuarantineKeeper.GetFundsHolder()
	for i := 1; i <= 6; i++ {
		e.addrs[i] = users[i]
	}
	e.addrs[c09Wasm] = addrN(9009)
	for _, mi := range c09Markers {
		e.addrs[mi] = markertypes.MustGetMarkerAddress(e.mkDen[mi])
	}
	e.order = []int{0, 1, 2, 3, 4, 5, 6, 7, 8, 9, 10, 11, 12}
	ensureAccount(app, ctx, e.addrs[c09Wasm])
	// markers
	for _, mi := range c09Markers {
		mt := markertypes.MarkerType_Coin
		if mi != c09Mk1 {
			mt = markertypes.MarkerType_RestrictedCoin
		}
		ma := markertypes.NewMarkerAccount(authtypes.NewBaseAccountWithAddress(e.addrs[mi]), sdk.NewInt64Coin(e.mkDen[mi], 1000), e.addrs[c09Admin],
			[]markertypes.AccessGrant{{Address: e.addrs[c09Admin].String(), Permissions: []markertypes.Access{markertypes.Access_Mint, markertypes.Access_Admin}}},
			markertypes.StatusProposed, mt, true, false, mi == c09Mk3, nil)
		if err := app.MarkerKeeper.AddFinalizeAndActivateMarker(ctx, ma); err != nil {
			t.Fatalf("marker %s: %v", e.mkDen[mi], err)
		}
	}
	// four scope specifications exist, a fifth id does not
	for i := 1; i <= c09NoSpec; i++ {
		id := mdtypes.ScopeSpecMetadataAddress(uuid.MustParse(fmt.Sprintf("00000000-0000-4000-9000-0000000000%02d", i)))
		e.specs = append(e.specs, id)
		if i < c09NoSpec {
			var roles []mdtypes.PartyType
			for _, r := range c09SpecRoles[i] {
				roles = append(roles, mdtypes.PartyType(r))
			}
			app.MetadataKeeper.SetScopeSpecification(ctx, mdtypes.ScopeSpecification{SpecificationId: id,
				OwnerAddresses: []string{e.addrs[1].String()}, PartiesInvolved: roles})
		}
	}
	for _, i := range []int{c09Module, c09Blocked} {
		if !app.BankKeeper.BlockedAddr(e.addrs[i]) {
			t.Fatalf("account %d expected to be blocked", i)
		}
	}
	if app.BankKeeper.BlockedAddr(e.addrs[c09QHold]) {
		t.Fatalf("the quarantine funds holder is expected NOT to be a blocked address")
	}
	return e
}

// setMarker writes withdraw/deposit access lists and the status of a marker through the marker keeper.
func (e *c09Env) setMarker(ctx sdk.Context, mi int, m c09Marker) {
	mk, err := e.app.MarkerKeeper.GetMarkerByDenom(ctx, e.mkDen[mi])
	if err != nil {
		e.t.Fatal(err)
	}
	ma := mk.(*markertypes.MarkerAccount)
	perms := map[int][]markertypes.Access{}
	for _, a := range m.withdraw {
		perms[a] = append(perms[a], markertypes.Access_Withdraw)
	}
	for _, a := range m.deposit {
		perms[a] = append(perms[a], markertypes.Access_Deposit)
	}
	perms[c09Admin] = append(perms[c09Admin], markertypes.Access_Mint, markertypes.Access_Admin)
	var keys []int
	for a := range perms {
		keys = append(keys, a)
	}
	sort.Ints(keys)
	var list []markertypes.AccessGrant
	for _, a := range keys {
		list = append(list, markertypes.AccessGrant{Address: e.addrs[a].String(), Permissions: perms[a]})
	}
	ma.AccessControl = list
	ma.Status = markertypes.MarkerStatus(m.status)
	e.app.MarkerKeeper.SetMarker(ctx, ma)
}

func (e *c09Env) randMarker(r *rand.Rand, mi int) c09Marker {
	m := c09Marker{restricted: mi != c09Mk1, forced: mi == c09Mk3, status: int(markertypes.StatusActive)}
	if r.Intn(5) < 3 {
		m.status = []int{1, 2, 4, 5}[r.Intn(4)]
		if e.onChain && m.status == 5 {
			m.status = 4 // on a chain the marker module's BeginBlocker deletes a destroyed marker in the next block
		}
	}
	cands := []int{c09Admin, 1, c09Grantee, c09Wasm}
	for _, a := range cands {
		p := 4
		if a == c09Admin {
			p = 2
		}
		if r.Intn(p) == 0 || (a == c09Admin && r.Intn(3) > 0) {
			m.withdraw = append(m.withdraw, a)
		}
		if r.Intn(p) == 0 || (a == c09Admin && r.Intn(3) > 0) {
			m.deposit = append(m.deposit, a)
		}
	}
	return m
}

type c09VB interface {
	sdk.Msg
	ValidateBasic() error
}

func (e *c09Env) runMsg(ctx sdk.Context, m sdk.Msg) error {
	return try(func() error {
		if vb, ok := m.(c09VB); ok {
			if err := vb.ValidateBasic(); err != nil {
				return err
			}
		}
		h := e.app.MsgServiceRouter().Handler(m)
		if h == nil {
			return fmt.Errorf("no handler for %T", m)
		}
		_, err := h(ctx, m)
		return err
	})
}

type c09Party struct {
	a, role int
	opt     bool
}

type c09Scope struct {
	parties []c09Party
	spec    int // 1..5
	data    []int
	rollup  bool
}

func (sc *c09Scope) clone() c09Scope {
	return c09Scope{parties: append([]c09Party{}, sc.parties...), spec: sc.spec, data: append([]int{}, sc.data...), rollup: sc.rollup}
}

func c09PartiesTerm(ps []c09Party) string {
	out := make([]string, len(ps))
	for i, p := range ps {
		out[i] = fmt.Sprintf("(%s, %s, %s)", c09N(p.a), c09N(p.role), coqBool(p.opt))
	}
	return coqList(out)
}

// need: the addresses whose signature (or authz grant) the party rules ask for on a change of the
// scope: all parties (no rollup), or the required parties plus one party per role the given
// specification requires (rollup).
func (sc *c09Scope) need(spec int) []int {
	var out []int
	seen := map[int]bool{}
	add := func(a int) {
		if !seen[a] {
			seen[a] = true
			out = append(out, a)
		}
	}
	if !sc.rollup {
		for _, p := range sc.parties {
			add(p.a)
		}
		return out
	}
	used := make([]bool, len(sc.parties))
	for _, p := range sc.parties {
		if !p.opt {
			add(p.a)
		}
	}
	for _, role := range c09SpecRoles[spec] {
		found := false
		for i, p := range sc.parties {
			if !used[i] && p.role == role && seen[p.a] {
				used[i], found = true, true
				break
			}
		}
		if !found {
			for i, p := range sc.parties {
				if !used[i] && p.role == role {
					used[i] = true
					add(p.a)
					break
				}
			}
		}
	}
	return out
}

func (h *c09Hist) mkScope(d int, sc c09Scope, vo int) mdtypes.Scope {
	e := h.e
	scope := mdtypes.Scope{ScopeId: h.ids[d], SpecificationId: e.specs[sc.spec-1], RequirePartyRollup: sc.rollup}
	for _, p := range sc.parties {
		scope.Owners = append(scope.Owners, mdtypes.Party{Address: e.addrs[p.a].String(), Role: mdtypes.PartyType(p.role), Optional: p.opt})
	}
	for _, x := range sc.data {
		scope.DataAccess = append(scope.DataAccess, addrN(9100+x).String())
	}
	if vo >= 0 {
		scope.ValueOwnerAddress = e.addrs[vo].String()
	}
	return scope
}

// c09Op: run executes the operation through the message router / keepers on a context (keeper
// mode); msg (when the operation is a message) and done (the generator's bookkeeping after an accepted
// message) let the ABCI route deliver the same operation in a signed transaction instead.
type c09Op struct {
	term, dsc, cls string
	run            func(sdk.Context) error
	msg            sdk.Msg
	done           func()
	granter        int // ABCI route: 0 = a fee granter at random, 1 = with, 2 = without
}

func c09WriteTerm(sg []int, d int, sc c09Scope, vo int) string {
	return fmt.Sprintf("OWrite %s %s %s %s %s %s %s", c09Ns(sg), c09N(d+1), c09PartiesTerm(sc.parties), c09N(sc.spec), c09Ns(sc.data), coqBool(sc.rollup), c09OptN(vo))
}

func (h *c09Hist) opWrite(cls string, sg []int, d int, sc c09Scope, vo int) c09Op {
	msg := &mdtypes.MsgWriteScopeRequest{Scope: h.mkScope(d, sc, vo), Signers: h.strs(sg)}
	return c09Op{cls: cls,
		term: c09WriteTerm(sg, d, sc, vo),
		dsc:  fmt.Sprintf("%s scope %d parties %v spec %d data %v rollup %v vo %d signers %v", cls, d+1, sc.parties, sc.spec, sc.data, sc.rollup, vo, sg),
		msg:  msg, done: func() { cp := sc.clone(); h.scopes[d] = &cp },
		run: func(c sdk.Context) error {
			err := h.e.runMsg(c, msg)
			if err == nil {
				cp := sc.clone()
				h.scopes[d] = &cp
			}
			return err
		}}
}

func (h *c09Hist) opUpdate(sg []int, ds []int, to int) c09Op {
	ids := make([]mdtypes.MetadataAddress, len(ds))
	dn := make([]int, len(ds))
	for i, d := range ds {
		ids[i] = h.ids[d]
		dn[i] = d + 1
	}
	msg := &mdtypes.MsgUpdateValueOwnersRequest{ScopeIds: ids, ValueOwnerAddress: h.e.addrs[to].String(), Signers: h.strs(sg)}
	return c09Op{cls: "update", term: fmt.Sprintf("OUpdate %s %s %s", c09Ns(sg), c09Ns(dn), c09N(to)),
		dsc: fmt.Sprintf("update scopes %v to %d signers %v", dn, to, sg),
		msg: msg, run: func(c sdk.Context) error { return h.e.runMsg(c, msg) }}
}

func (h *c09Hist) opMigrate(sg []int, from, to int) c09Op {
	e := h.e
	msg := &mdtypes.MsgMigrateValueOwnerRequest{Existing: e.addrs[from].String(), Proposed: e.addrs[to].String(), Signers: h.strs(sg)}
	return c09Op{cls: "migrate", term: fmt.Sprintf("OMigrate %s %s %s", c09Ns(sg), c09N(from), c09N(to)),
		dsc: fmt.Sprintf("migrate %d to %d signers %v", from, to, sg),
		msg: msg, run: func(c sdk.Context) error { return e.runMsg(c, msg) }}
}

func (h *c09Hist) opAddData(sg []int, d int, da []int) c09Op {
	var strs []string
	for _, x := range da {
		strs = append(strs, addrN(9100+x).String())
	}
	msg := &mdtypes.MsgAddScopeDataAccessRequest{ScopeId: h.ids[d], DataAccess: strs, Signers: h.strs(sg)}
	return c09Op{cls: "add-data-access", term: fmt.Sprintf("OAddData %s %s %s", c09Ns(sg), c09N(d+1), c09Ns(da)),
		dsc: fmt.Sprintf("add data access %v to scope %d signers %v", da, d+1, sg),
		msg: msg, done: func() {
			if h.scopes[d] != nil {
				h.scopes[d].data = append(h.scopes[d].data, da...)
			}
		},
		run: func(c sdk.Context) error {
			err := h.e.runMsg(c, msg)
			if err == nil && h.scopes[d] != nil {
				h.scopes[d].data = append(h.scopes[d].data, da...)
			}
			return err
		}}
}

func (h *c09Hist) opGrant(granter, grantee, k int, hasExp bool, exp int64, hasLeft bool, left int64) c09Op {
	e := h.e
	var a authz.Authorization = authz.NewGenericAuthorization(c09KindURL[k])
	if hasLeft {
		a = authz.NewCountAuthorization(c09KindURL[k], int32(left))
	}
	var expT *time.Time
	if hasExp {
		t := e.t0.Add(time.Duration(exp) * time.Second)
		expT = &t
	}
	return c09Op{cls: "grant", term: fmt.Sprintf("OGrant %s %s %s %s %s", c09N(granter), c09N(grantee), c09Kinds[k], c09OptZ(hasExp, exp), c09OptZ(hasLeft, left)),
		dsc: fmt.Sprintf("grant %d/%d/%d exp %v %d uses %v %d", granter, grantee, k, hasExp, exp, hasLeft, left),
		run: func(c sdk.Context) error {
			return try(func() error { return e.app.AuthzKeeper.SaveGrant(c, e.addrs[grantee], e.addrs[granter], a, expT) })
		}}
}

// markerScript (chain histories): a scope is put into the unrestricted marker by its value owner, then
// the stranger -- who has no access on any marker -- tries to take it out by every value-owner-changing
// message, in a transaction without and with a fee granter.
func (h *c09Hist) markerScript(nIds int) []func() c09Op {
	for _, d := range h.r.Perm(nIds) {
		a := h.holder(d)
		if a < 1 || a > c09Admin || h.scopes[d] == nil {
			continue
		}
		with := func(o c09Op, g int) c09Op { o.granter = g; return o }
		sc := h.scopes[d]
		return []func() c09Op{
			func() c09Op { return h.opUpdate([]int{a}, []int{d}, c09Mk1) },
			func() c09Op { return with(h.opUpdate([]int{c09Stranger}, []int{d}, c09Stranger), 2) },
			func() c09Op { return with(h.opUpdate([]int{c09Stranger}, []int{d}, c09Stranger), 1) },
			func() c09Op { return with(h.opMigrate([]int{c09Stranger}, c09Mk1, c09Stranger), 1) },
			func() c09Op {
				return with(h.opWrite("write-vo-only", []int{c09Stranger}, d, sc.clone(), c09Stranger), 1)
			},
			func() c09Op { return with(h.opDelete(h.goodSigners(3, nil, -1, sc.need(sc.spec)), d), 1) },
		}
	}
	return nil
}

// expiryScript: a value owner lets the grantee update its scopes until a deadline; the grantee uses
// the grant exactly at the deadline (still valid; a count authorization with more than one use left
// cannot be saved back then: the message fails) or one second after it (expired), twice.
func (h *c09Hist) expiryScript(nIds int) []func() c09Op {
	r := h.r
	for _, d := range r.Perm(nIds) {
		a := h.holder(d)
		if a < 1 || a > c09Admin || a == c09Grantee {
			continue
		}
		exp := h.now + 1 + int64(r.Intn(5))
		hasLeft, left := r.Intn(2) == 0, int64(1+r.Intn(3))
		at := exp + int64(r.Intn(2))
		to := []int{c09Stranger, 1, 2, 3}[r.Intn(4)]
		upd := func() c09Op {
			var ds []int
			for _, x := range h.heldBy(a) {
				if len(ds) == 0 || r.Intn(2) == 0 {
					ds = append(ds, x)
				}
			}
			if len(ds) == 0 {
				ds = []int{d}
			}
			return h.opUpdate([]int{c09Grantee}, ds, to)
		}
		return []func() c09Op{
			func() c09Op { return h.opGrant(a, c09Grantee, 1, true, exp, hasLeft, left) },
			func() c09Op { return h.opSetTime(at) },
			upd, upd,
		}
	}
	return nil
}

func (h *c09Hist) opDelete(sg []int, d int) c09Op {
	msg := &mdtypes.MsgDeleteScopeRequest{ScopeId: h.ids[d], Signers: h.strs(sg)}
	return c09Op{cls: "delete", term: fmt.Sprintf("ODelete %s %s", c09Ns(sg), c09N(d+1)),
		dsc: fmt.Sprintf("delete scope %d signers %v", d+1, sg),
		msg: msg, done: func() { delete(h.scopes, d) },
		run: func(c sdk.Context) error {
			err := h.e.runMsg(c, msg)
			if err == nil {
				delete(h.scopes, d)
			}
			return err
		}}
}

func (h *c09Hist) opSend(from, to, d int, amt int64) c09Op {
	e := h.e
	msg := &banktypes.MsgSend{FromAddress: e.addrs[from].String(), ToAddress: e.addrs[to].String(),
		Amount: sdk.Coins{sdk.Coin{Denom: h.ids[d].Denom(), Amount: sdkmath.NewInt(amt)}}}
	return c09Op{cls: "send", term: fmt.Sprintf("OSend %s %s %s %s", c09N(from), c09N(to), c09N(d+1), zI64(amt)),
		dsc: fmt.Sprintf("bank send scope %d token from %d to %d amount %d", d+1, from, to, amt),
		msg: msg, run: func(c sdk.Context) error { return e.runMsg(c, msg) }}
}

func (h *c09Hist) opOptIn(a int) c09Op {
	msg := &quarantine.MsgOptIn{ToAddress: h.e.addrs[a].String()}
	return c09Op{cls: "opt-in", term: fmt.Sprintf("OOptIn %s", c09N(a)), dsc: fmt.Sprintf("quarantine opt-in %d", a),
		msg: msg, run: func(c sdk.Context) error { return h.e.runMsg(c, msg) }}
}

func (h *c09Hist) opAccept(to int, froms []int, perm bool) c09Op {
	msg := &quarantine.MsgAccept{ToAddress: h.e.addrs[to].String(), FromAddresses: h.strs(froms), Permanent: perm}
	return c09Op{cls: "accept", term: fmt.Sprintf("OAccept %s %s %s", c09N(to), c09Ns(froms), coqBool(perm)),
		dsc: fmt.Sprintf("quarantine accept by %d from %v permanent %v", to, froms, perm),
		msg: msg, run: func(c sdk.Context) error { return h.e.runMsg(c, msg) }}
}

// c09Script: the histories of the observation Examples of coq/Properties/C09.v, run on the real
// handlers on every run.
func (h *c09Hist) c09Script(k int) []func() c09Op {
	sc := c09Scope{parties: []c09Party{{1, c09Owner, false}}, spec: 1}
	wr := func(sg []int, vo int) func() c09Op {
		return func() c09Op { return h.opWrite("script-write", sg, 0, sc, vo) }
	}
	op := func(o c09Op) func() c09Op { return func() c09Op { return o } }
	switch k {
	case 1: // a quarantined transfer: the funds holder is reported as value owner; nobody can move or delete
		return []func() c09Op{op(h.opOptIn(2)), wr([]int{1}, 1), op(h.opUpdate([]int{1}, []int{0}, 2)),
			op(h.opDelete([]int{1}, 0)), op(h.opDelete([]int{1, 2}, 0)), op(h.opUpdate([]int{1, 2}, []int{0}, 1)),
			wr([]int{1, 2}, 1), op(h.opSend(2, 1, 0, 1)), op(h.opAccept(2, []int{1}, false))}
	case 2: // a token sent to the funds holder directly has no record and stays
		return []func() c09Op{wr([]int{1}, 1), op(h.opSend(1, c09QHold, 0, 1)), op(h.opOptIn(1)),
			op(h.opAccept(1, []int{1, c09QHold}, false)), op(h.opUpdate([]int{1}, []int{0}, 1)), op(h.opDelete([]int{1}, 0))}
	default: // count authorizations in the second of their expiration (k-3 = uses: 0 unlimited, 1, 2)
		uses := int64(k - 3)
		return []func() c09Op{wr([]int{1}, 1),
			op(h.opGrant(1, c09Grantee, 1, true, 10, uses > 0, uses)), func() c09Op { return h.opSetTime(10) },
			op(h.opUpdate([]int{c09Grantee}, []int{0}, c09Stranger))}
	}
}

// The marker module on a scope token's denom (refused on the pinned code: the unrestricted-denom
// expression does not match a denom with a '/', and without a marker the other messages find nothing).
func (h *c09Hist) opMarkerAdd(a, d int, supply int64, activate, restricted bool) c09Op {
	e := h.e
	den := h.ids[d].Denom()
	mt := markertypes.MarkerType_Coin
	perms := []markertypes.Access{markertypes.Access_Admin, markertypes.Access_Mint, markertypes.Access_Burn, markertypes.Access_Deposit,
		markertypes.Access_Withdraw, markertypes.Access_Delete}
	if restricted {
		mt = markertypes.MarkerType_RestrictedCoin
		perms = append(perms, markertypes.Access_Transfer, markertypes.Access_ForceTransfer)
	}
	access := []markertypes.AccessGrant{{Address: e.addrs[a].String(), Permissions: perms}}
	var msg sdk.Msg
	if activate {
		msg = &markertypes.MsgAddFinalizeActivateMarkerRequest{Amount: sdk.NewInt64Coin(den, supply), Manager: e.addrs[a].String(),
			FromAddress: e.addrs[a].String(), MarkerType: mt, AccessList: access, AllowForcedTransfer: restricted}
	} else {
		msg = &markertypes.MsgAddMarkerRequest{Amount: sdk.NewInt64Coin(den, supply), Manager: e.addrs[a].String(),
			FromAddress: e.addrs[a].String(), Status: markertypes.StatusFinalized, MarkerType: mt, AccessList: access, AllowForcedTransfer: restricted}
	}
	return c09Op{cls: "marker-on-scope-denom add", term: fmt.Sprintf("OMarkerAdd %s %s %s %s", c09N(a), c09N(d+1), zI64(supply), coqBool(activate)),
		dsc: fmt.Sprintf("marker module: %d adds a marker (supply %d, activate %v, restricted %v) on the denom of scope %d", a, supply, activate, restricted, d+1),
		msg: msg, run: func(c sdk.Context) error { return e.runMsg(c, msg) }}
}

func (h *c09Hist) opMarkerMint(a, d int, amt int64) c09Op {
	e := h.e
	msg := &markertypes.MsgMintRequest{Amount: sdk.NewInt64Coin(h.ids[d].Denom(), amt), Administrator: e.addrs[a].String()}
	return c09Op{cls: "marker-on-scope-denom mint", term: fmt.Sprintf("OMarkerMint %s %s %s", c09N(a), c09N(d+1), zI64(amt)),
		dsc: fmt.Sprintf("marker module: %d mints %d of the denom of scope %d", a, amt, d+1),
		msg: msg, run: func(c sdk.Context) error { return e.runMsg(c, msg) }}
}

func (h *c09Hist) opMarkerTransfer(a, from, to, d int) c09Op {
	e := h.e
	msg := &markertypes.MsgTransferRequest{Amount: sdk.NewInt64Coin(h.ids[d].Denom(), 1), Administrator: e.addrs[a].String(),
		FromAddress: e.addrs[from].String(), ToAddress: e.addrs[to].String()}
	return c09Op{cls: "marker-on-scope-denom transfer", term: fmt.Sprintf("OMarkerTransfer %s %s %s %s", c09N(a), c09N(from), c09N(to), c09N(d+1)),
		dsc: fmt.Sprintf("marker module: %d transfers the token of scope %d from %d to %d", a, d+1, from, to),
		msg: msg, run: func(c sdk.Context) error { return e.runMsg(c, msg) }}
}

func (h *c09Hist) opMarkerWithdraw(a, to, d int) c09Op {
	e := h.e
	den := h.ids[d].Denom()
	msg := &markertypes.MsgWithdrawRequest{Denom: den, Administrator: e.addrs[a].String(), ToAddress: e.addrs[to].String(),
		Amount: sdk.NewCoins(sdk.NewInt64Coin(den, 1))}
	return c09Op{cls: "marker-on-scope-denom withdraw", term: fmt.Sprintf("OMarkerWithdraw %s %s %s", c09N(a), c09N(to), c09N(d+1)),
		dsc: fmt.Sprintf("marker module: %d withdraws the token of scope %d to %d", a, d+1, to),
		msg: msg, run: func(c sdk.Context) error { return e.runMsg(c, msg) }}
}

func (h *c09Hist) opSetTime(t int64) c09Op {
	return c09Op{cls: "set-time", term: fmt.Sprintf("OSetTime %s", zI64(t)), dsc: fmt.Sprintf("block time %d", t),
		run: func(sdk.Context) error {
			h.now = t
			h.ctx = h.ctx.WithBlockTime(h.e.t0.Add(time.Duration(t) * time.Second))
			return nil
		}}
}

type c09Hist struct {
	e       *c09Env
	r       *rand.Rand
	ctx     sdk.Context
	ids     []mdtypes.MetadataAddress
	scopes  map[int]*c09Scope // accepted writes, by scope index
	mks     map[int]c09Marker
	now     int64
	profile string
	paged   bool
	pending []func() c09Op // follow-up operations of a scripted sequence
	extra   [][2]string    // steps (term with observation, description) that the chain inserted before the current one
}

func (h *c09Hist) strs(l []int) []string {
	out := make([]string, len(l))
	for i, a := range l {
		out[i] = h.e.addrs[a].String()
	}
	return out
}

func (h *c09Hist) holder(d int) int {
	vo, err := h.e.app.MetadataKeeper.GetScopeValueOwner(h.ctx, h.ids[d])
	if err != nil || len(vo) == 0 {
		return -1
	}
	return h.e.idx(vo)
}

// hasGrant: the real authz keeper has an unexpired authorization from granter to grantee for the kind.
func (h *c09Hist) hasGrant(granter, grantee, kind int) bool {
	a, _ := h.e.app.AuthzKeeper.GetAuthorization(h.ctx, h.e.addrs[grantee], h.e.addrs[granter], c09KindURL[kind])
	return a != nil
}

// storedGrant: the authz store has a grant under the key, expired or not.
func (h *c09Hist) storedGrant(granter, grantee, kind int) bool {
	for _, g := range h.allGrants() {
		if g.granter == granter && g.grantee == grantee && g.kind == kind {
			return true
		}
	}
	return false
}

type c09Grant struct {
	granter, grantee, kind int
	exp, left              int64
	hasExp, hasLeft        bool
}

func c09KindOfURL(u string) int {
	for i, x := range c09KindURL {
		if x == u {
			return i
		}
	}
	return -1
}

func (h *c09Hist) allGrants() []c09Grant {
	var out []c09Grant
	e := h.e
	e.app.AuthzKeeper.IterateGrants(h.ctx, func(granter, grantee sdk.AccAddress, g authz.Grant) bool {
		a, err := g.GetAuthorization()
		if err != nil {
			e.t.Fatalf("grant: %v", err)
		}
		k := c09KindOfURL(a.MsgTypeURL())
		if k < 0 {
			return false
		}
		gr := c09Grant{granter: e.idx(granter), grantee: e.idx(grantee), kind: k}
		if g.Expiration != nil {
			gr.hasExp, gr.exp = true, g.Expiration.Unix()-e.t0.Unix()
		}
		if ca, ok := a.(*authz.CountAuthorization); ok {
			gr.hasLeft, gr.left = true, int64(ca.AllowedAuthorizations)
		}
		out = append(out, gr)
		return false
	})
	return out
}

type c09QRec struct {
	to, from int
	coins    map[int]int64 // scope index -> amount
}

func (h *c09Hist) allQRecs() []c09QRec {
	e := h.e
	denIdx := map[string]int{}
	for i, id := range h.ids {
		denIdx[id.Denom()] = i
	}
	var out []c09QRec
	e.app.QuarantineKeeper.IterateQuarantineRecords(h.ctx, nil, func(to, _ sdk.AccAddress, rec *quarantine.QuarantineRecord) bool {
		if len(rec.UnacceptedFromAddresses)+len(rec.AcceptedFromAddresses) != 1 {
			e.t.Fatalf("quarantine record with several senders: %v", rec)
		}
		from := append(append([]sdk.AccAddress{}, rec.UnacceptedFromAddresses...), rec.AcceptedFromAddresses...)[0]
		q := c09QRec{to: e.idx(to), from: e.idx(from), coins: map[int]int64{}}
		for _, c := range rec.Coins {
			if i, ok := denIdx[c.Denom]; ok {
				q.coins[i] += c.Amount.Int64()
			}
		}
		out = append(out, q)
		return false
	})
	return out
}

// observe projects the real state.
func (h *c09Hist) observe(ok bool) string {
	e := h.e
	app := e.app
	bals := make([]map[int]int64, len(h.ids))
	denIdx := map[string]int{}
	for i, id := range h.ids {
		bals[i] = map[int]int64{}
		denIdx[id.Denom()] = i
	}
	app.BankKeeper.IterateAllBalances(h.ctx, func(a sdk.AccAddress, c sdk.Coin) bool {
		if i, ok := denIdx[c.Denom]; ok {
			bals[i][e.idx(a)] += c.Amount.Int64()
		}
		return false
	})
	var obal, osup, ovo, oq, oown []string
	for i, id := range h.ids {
		var ks []int
		for a := range bals[i] {
			ks = append(ks, a)
		}
		sort.Ints(ks)
		var ent []string
		for _, a := range ks {
			ent = append(ent, fmt.Sprintf("(%s, %s)", c09N(a), zI64(bals[i][a])))
		}
		obal = append(obal, fmt.Sprintf("(%s, %s)", c09N(i+1), coqList(ent)))
		osup = append(osup, fmt.Sprintf("(%s, %s)", c09N(i+1), zInt(app.BankKeeper.GetSupply(h.ctx, id.Denom()).Amount)))
		ovo = append(ovo, fmt.Sprintf("(%s, %s)", c09N(i+1), c09OptN(h.holder(i))))
		q := "None"
		var resp *mdtypes.ScopeResponse
		err := try(func() error {
			var err error
			resp, err = app.MetadataKeeper.Scope(h.ctx, &mdtypes.ScopeRequest{ScopeId: id.String()})
			return err
		})
		if err != nil {
			e.t.Fatalf("scope query: %v", err)
		}
		if resp.Scope != nil && resp.Scope.Scope != nil {
			v := -1
			if s := resp.Scope.Scope.ValueOwnerAddress; s != "" {
				v = e.idx(sdk.MustAccAddressFromBech32(s))
			}
			q = "(Some " + c09OptN(v) + ")"
		}
		oq = append(oq, fmt.Sprintf("(%s, %s)", c09N(i+1), q))
	}
	uu := map[string]int{}
	for i, id := range h.ids {
		u, _ := id.PrimaryUUID()
		uu[u.String()] = i + 1
	}
	for _, a := range e.order {
		var uuids []string
		var next []byte
		for page := 0; ; page++ {
			req := &mdtypes.ValueOwnershipRequest{Address: e.addrs[a].String()}
			if h.paged {
				// the default page size (100) and the next keys the query hands back
				req.Pagination = &query.PageRequest{Key: next}
			}
			var resp *mdtypes.ValueOwnershipResponse
			err := try(func() error {
				var err error
				resp, err = app.MetadataKeeper.ValueOwnership(h.ctx, req)
				return err
			})
			if err != nil {
				e.t.Fatalf("value ownership query: %v", err)
			}
			uuids = append(uuids, resp.ScopeUuids...)
			if !h.paged || resp.Pagination == nil || len(resp.Pagination.NextKey) == 0 || page > 50 {
				break
			}
			next = resp.Pagination.NextKey
		}
		var l []int
		for _, u := range uuids {
			if i, ok := uu[u]; ok {
				l = append(l, i)
			} else {
				l = append(l, 0)
			}
		}
		if len(l) > 0 {
			oown = append(oown, fmt.Sprintf("(%s, %s)", c09N(a), c09Ns(l)))
		}
	}
	var ogr, oqr []string
	for _, g := range h.allGrants() {
		ogr = append(ogr, fmt.Sprintf("{| g_granter := %s; g_grantee := %s; g_kind := %s; g_exp := %s; g_left := %s |}",
			c09N(g.granter), c09N(g.grantee), c09Kinds[g.kind], c09OptZ(g.hasExp, g.exp), c09OptZ(g.hasLeft, g.left)))
	}
	for _, q := range h.allQRecs() {
		var ks []int
		for d := range q.coins {
			ks = append(ks, d)
		}
		sort.Ints(ks)
		var cs []string
		for _, d := range ks {
			cs = append(cs, fmt.Sprintf("(%s, %s)", c09N(d+1), zI64(q.coins[d])))
		}
		oqr = append(oqr, fmt.Sprintf("{| q_to := %s; q_from := %s; q_coins := %s |}", c09N(q.to), c09N(q.from), coqList(cs)))
	}
	return fmt.Sprintf("{| o_ok := %s; o_bal := %s; o_sup := %s; o_vo := %s; o_q := %s; o_own := %s; o_gr := %s; o_qr := %s |}",
		coqBool(ok), coqList(obal), coqList(osup), coqList(ovo), coqList(oq), coqList(oown), coqList(ogr), coqList(oqr))
}

// pick helpers
func (h *c09Hist) anyAcct() int {
	// weights: users and markers common, contract/blocked/module/quarantine holder rare
	switch x := h.r.Intn(22); {
	case x < 9:
		return 1 + h.r.Intn(3)
	case x < 11:
		return c09Grantee
	case x < 12:
		return c09Stranger
	case x < 13:
		return c09Admin
	case x < 15:
		return c09Mk1
	case x < 17:
		return c09Mk2
	case x < 18:
		return c09Wasm
	case x < 19:
		return c09Stranger
	case x < 21:
		return c09Mk3
	default:
		switch h.r.Intn(3) {
		case 0:
			return c09Blocked
		case 1:
			return c09QHold
		}
		return c09Module
	}
}

// goodSigners: the signers that should make a value owner change from [holders] to [to] pass
// (plus the owners of [owners] when owner signatures are needed).  A smart contract goes first.
func (h *c09Hist) goodSigners(kind int, holders []int, to int, owners []int) []int {
	var sg []int
	add := func(a int) {
		for _, x := range sg {
			if x == a {
				return
			}
		}
		if a == c09Wasm {
			sg = append([]int{a}, sg...)
			return
		}
		sg = append(sg, a)
	}
	viaGrant := func(a int) bool {
		if (h.hasGrant(a, c09Grantee, kind) || (kind == 4 && h.hasGrant(a, c09Grantee, 0))) && h.r.Intn(3) > 0 {
			add(c09Grantee)
			return true
		}
		// an EXPIRED grant for this message type must not help: try it every other time
		if h.r.Intn(2) == 0 && h.storedGrant(a, c09Grantee, kind) {
			add(c09Grantee)
			return true
		}
		// a grant for ANOTHER message type must not help: try it now and then
		for k := 0; k < 5; k++ {
			if k != kind && h.r.Intn(3) == 0 && h.hasGrant(a, c09Grantee, k) {
				add(c09Grantee)
				return true
			}
		}
		return false
	}
	for _, a := range owners {
		if !viaGrant(a) {
			add(a)
		}
	}
	for _, a := range holders {
		if a < 0 || a == c09QHold {
			continue // the quarantine funds holder has no key: nobody can sign for it
		}
		if m, ok := h.mks[a]; ok {
			if len(m.withdraw) > 0 {
				add(m.withdraw[h.r.Intn(len(m.withdraw))])
			} else {
				add(c09Admin)
			}
		} else if !viaGrant(a) {
			add(a)
		}
	}
	if m, ok := h.mks[to]; ok && m.restricted && len(m.deposit) > 0 && h.r.Intn(4) > 0 {
		add(m.deposit[h.r.Intn(len(m.deposit))])
	}
	if len(sg) == 0 {
		add(1 + h.r.Intn(3))
	}
	return sg
}

func (h *c09Hist) randSigners() []int {
	pool := []int{1, 2, 3, c09Grantee, c09Stranger, c09Admin, c09Wasm}
	var sg []int
	for _, i := range h.r.Perm(len(pool)) {
		if h.r.Intn(3) == 0 {
			sg = append(sg, pool[i])
		}
	}
	if len(sg) == 0 && h.r.Intn(8) > 0 {
		sg = []int{pool[h.r.Intn(len(pool))]}
	}
	return sg
}

func (h *c09Hist) grantedSomething(a int) bool {
	for k := 0; k < 5; k++ {
		if h.hasGrant(a, c09Grantee, k) {
			return true
		}
	}
	return false
}

// signers: mostly the right ones, sometimes with one dropped or a stranger instead, sometimes random.
func (h *c09Hist) signers(kind int, holders []int, to int, owners []int) []int {
	standIn := func() []int {
		sg := h.goodSigners(kind, nil, to, owners)
		for _, a := range sg {
			if a == c09Grantee {
				return sg
			}
		}
		return append(sg, c09Grantee)
	}
	for _, a := range holders {
		// a value owner that granted the grantee SOMETHING: the grantee tries to act for it
		if a >= 0 && h.r.Intn(8) == 0 && h.grantedSomething(a) {
			return standIn()
		}
	}
	switch x := h.r.Intn(13); {
	case x < 6:
		sg := h.goodSigners(kind, holders, to, owners)
		if h.r.Intn(6) == 0 {
			sg = append(sg, c09Stranger)
		}
		if h.r.Intn(12) == 0 && (len(sg) == 0 || sg[0] != c09Wasm) {
			sg = append([]int{c09Wasm}, sg...)
		}
		return sg
	case x < 7: // the scope owners' side only (no consent of the value owner unless it is an owner)
		return h.goodSigners(kind, nil, to, owners)
	case x < 8: // the value owner's side only
		return h.goodSigners(kind, holders, to, nil)
	case x < 9: // the grantee stands in for the value owner, whatever its grants are for
		return standIn()
	case x < 11:
		sg := h.goodSigners(kind, holders, to, owners)
		i := h.r.Intn(len(sg))
		if h.r.Intn(2) == 0 {
			sg[i] = c09Stranger
		} else {
			sg = append(sg[:i], sg[i+1:]...)
		}
		return sg
	default:
		return h.randSigners()
	}
}

func (h *c09Hist) existingIdx() []int {
	var out []int
	for d := range h.ids {
		if h.scopes[d] != nil {
			out = append(out, d)
		}
	}
	sort.Ints(out)
	return out
}

// partyPool: accounts that appear as scope parties.
var c09PartyPool = []int{1, 2, 3, 1, 2, 3, c09Grantee, c09Admin}

func (h *c09Hist) newScope() c09Scope {
	r := h.r
	sc := c09Scope{rollup: r.Intn(2) == 0, spec: 1 + r.Intn(2)}
	switch r.Intn(15) {
	case 0:
		sc.spec = c09NoSpec
	case 1, 2:
		sc.spec = 3
	case 3, 4:
		sc.spec = 4
	}
	has := func(a, role int) bool {
		for _, p := range sc.parties {
			if p.a == a && p.role == role {
				return true
			}
		}
		return false
	}
	add := func(a, role int, opt bool) {
		if !has(a, role) {
			sc.parties = append(sc.parties, c09Party{a, role, opt && sc.rollup})
		}
	}
	add(1+r.Intn(3), c09Owner, r.Intn(6) == 0)
	if r.Intn(4) == 0 || sc.spec == 4 {
		add(1+r.Intn(3), c09Owner, r.Intn(2) == 0)
		if sc.spec == 4 && len(sc.parties) < 2 && r.Intn(4) > 0 {
			add(1+(sc.parties[0].a%3), c09Owner, r.Intn(2) == 0)
		}
	}
	if sc.spec == 2 || r.Intn(2) == 0 {
		add(c09PartyPool[r.Intn(len(c09PartyPool))], c09Investor, r.Intn(3) > 0)
	}
	if sc.spec == 3 || r.Intn(3) == 0 {
		add(c09PartyPool[r.Intn(len(c09PartyPool))], c09Servicer, r.Intn(2) == 0)
	}
	if sc.spec == 4 && r.Intn(5) > 0 {
		add(c09PartyPool[r.Intn(len(c09PartyPool))], c09Custodian, r.Intn(2) == 0)
	}
	if r.Intn(8) == 0 {
		add(c09PartyPool[r.Intn(len(c09PartyPool))], c09Controller, r.Intn(2) == 0)
	}
	if (sc.spec == 3 && r.Intn(5) > 0) || r.Intn(12) == 0 { // a contract with the PROVENANCE role
		add(c09Wasm, c09Provenance, r.Intn(2) == 0)
	}
	if r.Intn(5) == 0 { // one account in two roles
		add(sc.parties[0].a, c09Servicer, r.Intn(2) == 0)
	}
	for x := 1; x <= 3; x++ {
		if r.Intn(4) == 0 {
			sc.data = append(sc.data, x)
		}
	}
	switch r.Intn(32) {
	case 0:
		sc.parties = nil
	case 1: // an optional party without rollup
		if !sc.rollup {
			sc.parties[0].opt = true
		}
	case 2: // a role the specification requires is missing
		sc.parties = sc.parties[1:]
		if len(sc.parties) == 0 {
			sc.parties = []c09Party{{1 + r.Intn(3), c09Servicer, false}}
		}
	case 3: // a contract as owner
		sc.parties = append(sc.parties, c09Party{c09Wasm, c09Owner, false})
	case 4: // the PROVENANCE role for an account that is not a contract
		if !has(1+r.Intn(3), c09Provenance) {
			sc.parties = append(sc.parties, c09Party{1 + r.Intn(3), c09Provenance, sc.rollup && r.Intn(2) == 0})
		}
	}
	return sc
}

// pickVO: (a) an account that is not a party, (b) a required party, (c) an optional party.
func (h *c09Hist) pickVO(sc *c09Scope) (int, string) {
	var req, opt []int
	for _, p := range sc.parties {
		if p.opt {
			opt = append(opt, p.a)
		} else {
			req = append(req, p.a)
		}
	}
	switch x := h.r.Intn(10); {
	case x < 4 && len(opt) > 0:
		return opt[h.r.Intn(len(opt))], "vo-optional-party"
	case x < 7 && len(req) > 0:
		return req[h.r.Intn(len(req))], "vo-required-party"
	default:
		return h.anyAcct(), "vo-any"
	}
}

func (h *c09Hist) voClass(d, a int) string {
	sc := h.scopes[d]
	if sc == nil || a < 0 {
		return "n/a"
	}
	cls := "not-a-party"
	for _, p := range sc.parties {
		if p.a == a {
			if !p.opt {
				return "required-party"
			}
			cls = "optional-party"
		}
	}
	return cls
}

// changeOther changes something other than the value owner.
func (h *c09Hist) changeOther(cur *c09Scope) c09Scope {
	r := h.r
	sc := cur.clone()
	switch r.Intn(6) {
	case 0, 1: // data access
		x := 1 + r.Intn(3)
		kept := sc.data[:0:0]
		found := false
		for _, y := range sc.data {
			if y == x {
				found = true
			} else {
				kept = append(kept, y)
			}
		}
		if !found {
			kept = append(kept, x)
		}
		sc.data = kept
	case 2: // add or drop a party
		a, role := c09PartyPool[r.Intn(len(c09PartyPool))], []int{c09Owner, c09Investor, c09Servicer, c09Custodian}[r.Intn(4)]
		idx := -1
		for i, p := range sc.parties {
			if p.a == a && p.role == role {
				idx = i
			}
		}
		if idx < 0 {
			sc.parties = append(sc.parties, c09Party{a, role, sc.rollup && r.Intn(2) == 0})
		} else if len(sc.parties) > 1 {
			sc.parties = append(sc.parties[:idx], sc.parties[idx+1:]...)
		} else {
			sc.data = append(sc.data, 1+r.Intn(3))
		}
	case 3: // flip an optional flag
		if sc.rollup {
			i := r.Intn(len(sc.parties))
			sc.parties[i].opt = !sc.parties[i].opt
		} else {
			sc.data = append(sc.data, 1+r.Intn(3))
		}
	case 4: // another specification
		sc.spec = 1 + (cur.spec+r.Intn(3))%4
		if r.Intn(6) == 0 {
			sc.spec = c09NoSpec
		}
	default: // switch party rollup
		sc.rollup = !sc.rollup
		if !sc.rollup {
			for i := range sc.parties {
				sc.parties[i].opt = false
			}
		}
	}
	return sc
}

// weights of the operation kinds per history profile:
// write, update, migrate, delete, add-data, send, multisend, authz, marker, time, sanction, quarantine-admin, accept,
// marker module on a scope denom
var c09Profiles = map[string][]int{
	"plain":      {30, 18, 9, 10, 7, 10, 3, 8, 5, 0, 0, 0, 0, 2},
	"authz":      {22, 16, 9, 9, 8, 4, 1, 18, 3, 10, 0, 0, 0, 1},
	"quarantine": {20, 13, 7, 6, 2, 12, 7, 3, 3, 1, 0, 13, 13, 1},
	"sanction":   {24, 15, 8, 9, 3, 12, 4, 4, 4, 0, 13, 2, 2, 1},
	"marker":     {20, 20, 9, 10, 2, 14, 4, 3, 16, 0, 1, 1, 0, 3},
	"mixed":      {20, 13, 7, 7, 4, 9, 4, 9, 6, 5, 5, 6, 5, 2},
}
var c09ProfileOrder = []string{"plain", "plain", "authz", "quarantine", "sanction", "marker", "mixed", "quarantine", "authz", "marker"}

// depositMarkerOf: a restricted marker on which account a has deposit access.
func (h *c09Hist) depositMarkerOf(a int) (int, bool) {
	for _, mi := range []int{c09Mk2, c09Mk3} {
		for _, x := range h.mks[mi].deposit {
			if x == a {
				return mi, true
			}
		}
	}
	return 0, false
}

func (h *c09Hist) heldBy(a int) []int {
	var out []int
	for d := range h.ids {
		if h.holder(d) == a {
			out = append(out, d)
		}
	}
	return out
}

func (h *c09Hist) genOp(nIds int) c09Op {
	e, r := h.e, h.r
	w := c09Profiles[h.profile]
	total := 0
	for _, x := range w {
		total += x
	}
	x := r.Intn(total)
	kind := 0
	for i, wi := range w {
		if x < wi {
			kind = i
			break
		}
		x -= wi
	}
	existing := h.existingIdx()
	if len(existing) == 0 && kind != 7 && kind != 8 && kind != 9 && kind != 10 && kind != 11 {
		kind = 0
	}
	switch kind {
	case 0: // write scope
		d := r.Intn(nIds)
		if len(existing) > 0 && len(existing) < nIds && r.Intn(3) == 0 {
			for _, c := range r.Perm(nIds) {
				if h.scopes[c] == nil {
					d = c
					break
				}
			}
		}
		cur := h.scopes[d]
		hold := h.holder(d)
		if cur == nil {
			sc := h.newScope()
			vo, vcls := -1, "no-vo"
			if r.Intn(5) > 0 && len(sc.parties) > 0 {
				vo, vcls = h.pickVO(&sc)
			}
			return h.opWrite("write-new "+vcls, h.signers(0, nil, vo, nil), d, sc, vo)
		}
		sc := cur.clone()
		vo := -1
		cls := ""
		var need []int
		switch v := r.Intn(10); {
		case v < 4:
			cls = "write-vo-only"
			vo, _ = h.pickVO(cur)
			if hold < 0 || cur.rollup {
				need = cur.need(cur.spec)
			}
		case v < 6:
			cls = "write-vo-and-other"
			vo, _ = h.pickVO(cur)
			sc = h.changeOther(cur)
			need = cur.need(sc.spec)
		case v < 8:
			cls = "write-other"
			sc = h.changeOther(cur)
			need = cur.need(sc.spec)
		case v < 9:
			cls = "write-same-vo-other"
			vo = hold
			sc = h.changeOther(cur)
			need = cur.need(sc.spec)
		default:
			cls = "write-identical"
			vo = hold
			if r.Intn(2) == 0 {
				vo = -1
			}
			if len(sc.parties) > 1 {
				sc.parties[0], sc.parties[1] = sc.parties[1], sc.parties[0]
			}
			if cur.rollup {
				need = cur.need(cur.spec)
			}
		}
		var holders []int
		if vo >= 0 && hold >= 0 && hold != vo {
			holders = []int{hold}
		}
		sg := h.signers(0, holders, vo, need)
		if len(holders) > 0 && len(need) > 0 && r.Intn(3) == 0 {
			// everybody the party rules ask for signs, the value owner is not asked
			sg = h.goodSigners(0, nil, vo, need)
		}
		return h.opWrite(cls, sg, d, sc, vo)
	case 1: // update value owners
		var ds []int
		for _, d := range r.Perm(nIds) {
			if h.holder(d) >= 0 && (len(ds) == 0 || r.Intn(2) == 0) {
				ds = append(ds, d)
			}
		}
		if len(ds) == 0 || r.Intn(12) == 0 {
			ds = append(ds, r.Intn(nIds)) // a scope without token, or a duplicate
		}
		if r.Intn(40) == 0 {
			ds = nil
		}
		to := h.anyAcct()
		var holders []int
		for _, d := range ds {
			holders = append(holders, h.holder(d))
		}
		if r.Intn(3) > 0 {
			for tries := 0; tries < 5; tries++ {
				clash := false
				for _, a := range holders {
					if a == to {
						clash = true
					}
				}
				if !clash {
					break
				}
				to = h.anyAcct()
			}
		}
		if len(holders) == 1 && r.Intn(3) == 0 {
			if mi, ok := h.depositMarkerOf(holders[0]); ok {
				to = mi
			}
		}
		sg := h.signers(1, holders, to, nil)
		if len(holders) == 1 && holders[0] >= 0 && h.hasGrant(holders[0], c09Grantee, 1) && r.Intn(3) == 0 {
			sg = []int{c09Grantee}
		}
		if len(ds) > 0 && h.scopes[ds[0]] != nil && r.Intn(6) == 0 {
			// the scope's parties try to move the token without its holder
			sg = h.goodSigners(1, nil, to, h.scopes[ds[0]].need(h.scopes[ds[0]].spec))
		}
		return h.opUpdate(sg, ds, to)
	case 2: // migrate
		from := h.anyAcct()
		if r.Intn(4) > 0 {
			for _, d := range r.Perm(nIds) {
				if a := h.holder(d); a >= 0 {
					from = a
					break
				}
			}
		}
		to := h.anyAcct()
		if mi, ok := h.depositMarkerOf(from); ok && r.Intn(3) == 0 {
			to = mi // a restricted marker on which the current owner itself (not a signer) may deposit
		}
		sg := h.signers(2, []int{from}, to, nil)
		if h.hasGrant(from, c09Grantee, 2) && r.Intn(2) == 0 {
			sg = []int{c09Grantee}
		}
		return h.opMigrate(sg, from, to)
	case 3: // delete
		d := r.Intn(nIds)
		if len(existing) > 0 && r.Intn(8) > 0 {
			d = existing[r.Intn(len(existing))]
			if r.Intn(2) == 0 {
				// prefer a scope whose value owner is an optional party
				for _, c := range existing {
					if h.voClass(c, h.holder(c)) == "optional-party" {
						d = c
					}
				}
			}
		}
		var need []int
		if sc := h.scopes[d]; sc != nil {
			need = sc.need(sc.spec)
		}
		hold := h.holder(d)
		sg := h.signers(3, []int{hold}, -1, need)
		_, isMk := h.mks[hold]
		if h.voClass(d, hold) == "optional-party" && len(need) > 0 && r.Intn(2) == 0 {
			sg = h.goodSigners(3, nil, -1, need)
		} else if (isMk || h.voClass(d, hold) == "not-a-party") && len(need) > 0 && r.Intn(3) == 0 {
			// the parties the rules ask for delete the scope; its value owner (a marker, an optional
			// party that does not sign, an outsider) is not asked
			sg = h.goodSigners(3, nil, -1, need)
		}
		msg := &mdtypes.MsgDeleteScopeRequest{ScopeId: h.ids[d], Signers: h.strs(sg)}
		return c09Op{cls: "delete vo-" + h.voClass(d, hold), term: fmt.Sprintf("ODelete %s %s", c09Ns(sg), c09N(d+1)),
			dsc: fmt.Sprintf("delete scope %d signers %v", d+1, sg),
			msg: msg, done: func() { delete(h.scopes, d) },
			run: func(c sdk.Context) error {
				err := e.runMsg(c, msg)
				if err == nil {
					delete(h.scopes, d)
				}
				return err
			}}
	case 4: // add data access (rewrites the stored scope through SetScope)
		d := existing[r.Intn(len(existing))]
		if r.Intn(10) == 0 {
			d = r.Intn(nIds)
		}
		da := []int{1 + r.Intn(3)}
		if sc := h.scopes[d]; sc != nil && r.Intn(4) > 0 {
			for x := 1; x <= 4; x++ {
				used := false
				for _, y := range sc.data {
					used = used || y == x
				}
				if !used {
					da = []int{x}
					break
				}
			}
		}
		var need []int
		if sc := h.scopes[d]; sc != nil {
			need = sc.need(sc.spec)
		}
		return h.opAddData(h.signers(4, nil, -1, need), d, da)
	case 5: // plain bank send of the token
		d := r.Intn(nIds)
		from := h.holder(d)
		if from < 0 || r.Intn(5) == 0 {
			from = h.anyAcct()
		}
		for from == c09QHold {
			from = h.anyAcct() // no key: cannot send
		}
		to := h.anyAcct()
		if h.profile == "quarantine" && r.Intn(2) == 0 {
			to = 1 + r.Intn(3)
		}
		amt := int64(1)
		if v := r.Intn(20); v == 0 {
			amt = 2
		} else if v == 1 {
			amt = 0
		}
		msg := &banktypes.MsgSend{FromAddress: e.addrs[from].String(), ToAddress: e.addrs[to].String(),
			Amount: sdk.Coins{sdk.Coin{Denom: h.ids[d].Denom(), Amount: sdkmath.NewInt(amt)}}}
		return c09Op{cls: "send", term: fmt.Sprintf("OSend %s %s %s %s", c09N(from), c09N(to), c09N(d+1), zI64(amt)),
			dsc: fmt.Sprintf("bank send scope %d token from %d to %d amount %d", d+1, from, to, amt),
			msg: msg, run: func(c sdk.Context) error { return e.runMsg(c, msg) }}
	case 6: // bank multi-send of the tokens an account holds
		from := h.anyAcct()
		for _, d := range r.Perm(nIds) {
			if a := h.holder(d); a >= 0 && r.Intn(4) > 0 {
				from = a
				break
			}
		}
		for from == c09QHold {
			from = h.anyAcct() // no key: cannot send
		}
		held := h.heldBy(from)
		nOut := 1 + r.Intn(3)
		outs := make([][]int, nOut)
		tos := make([]int, nOut)
		for i := range tos {
			tos[i] = h.anyAcct()
			if h.profile == "quarantine" && r.Intn(2) == 0 {
				tos[i] = 1 + r.Intn(3)
			}
		}
		for _, d := range held {
			if r.Intn(4) > 0 {
				i := r.Intn(nOut)
				outs[i] = append(outs[i], d)
			}
		}
		switch r.Intn(12) {
		case 0: // a token the sender does not hold
			outs[0] = append(outs[0], r.Intn(nIds))
		case 1: // the same token to two receivers
			if len(held) > 0 && nOut > 1 {
				outs[0] = append(outs[0], held[0])
				outs[1] = append(outs[1], held[0])
			}
		}
		var terms, dscs []string
		var outputs []banktypes.Output
		total := sdk.Coins{}
		for i := range outs {
			seen := map[int]bool{}
			var ds []int
			for _, d := range outs[i] {
				if !seen[d] {
					seen[d] = true
					ds = append(ds, d)
				}
			}
			coins := sdk.Coins{}
			dn := make([]int, len(ds))
			for j, d := range ds {
				coins = coins.Add(sdk.NewInt64Coin(h.ids[d].Denom(), 1))
				dn[j] = d + 1
			}
			total = total.Add(coins...)
			outputs = append(outputs, banktypes.Output{Address: e.addrs[tos[i]].String(), Coins: coins})
			terms = append(terms, fmt.Sprintf("(%s, %s)", c09N(tos[i]), c09Ns(dn)))
			dscs = append(dscs, fmt.Sprintf("%d:%v", tos[i], dn))
		}
		msg := &banktypes.MsgMultiSend{Inputs: []banktypes.Input{{Address: e.addrs[from].String(), Coins: total}}, Outputs: outputs}
		return c09Op{cls: "multisend", term: fmt.Sprintf("OMultiSend %s %s", c09N(from), coqList(terms)),
			dsc: fmt.Sprintf("bank multi-send from %d: %s", from, strings.Join(dscs, " ")),
			msg: msg, run: func(c sdk.Context) error { return e.runMsg(c, msg) }}
	case 7: // authz grant / revoke
		granter := 1 + r.Intn(3)
		if r.Intn(4) == 0 {
			// any account that can sign a MsgGrant (markers and module accounts have no key)
			granter = []int{1, 2, 3, c09Grantee, c09Stranger, c09Admin, c09Wasm}[r.Intn(7)]
		} else if r.Intn(2) == 0 {
			if a := h.holder(r.Intn(nIds)); a > 0 && a <= c09Admin || a == c09Wasm {
				granter = a // a current value owner
			}
		}
		grantee := c09Grantee
		if r.Intn(5) == 0 {
			grantee = c09Wasm
		}
		k := []int{0, 0, 1, 1, 2, 3, 3, 4}[r.Intn(8)]
		if r.Intn(4) == 0 {
			// a current value owner that may deposit into a restricted marker lets the grantee move its scopes
			for _, d := range r.Perm(nIds) {
				a := h.holder(d)
				if _, ok := h.depositMarkerOf(a); ok && (a > 0 && a <= c09Admin) {
					granter, grantee, k = a, c09Grantee, 1+r.Intn(2)
					break
				}
			}
		}
		if gs := h.allGrants(); len(gs) > 0 && r.Intn(4) == 0 || r.Intn(25) == 0 {
			if len(gs) > 0 && r.Intn(8) > 0 {
				g := gs[r.Intn(len(gs))]
				granter, grantee, k = g.granter, g.grantee, g.kind
			}
			return c09Op{cls: "revoke", term: fmt.Sprintf("ORevoke %s %s %s", c09N(granter), c09N(grantee), c09Kinds[k]),
				dsc: fmt.Sprintf("revoke %d/%d/%d", granter, grantee, k),
				run: func(c sdk.Context) error {
					return e.app.AuthzKeeper.DeleteGrant(c, e.addrs[grantee], e.addrs[granter], c09KindURL[k])
				}}
		}
		var hasExp, hasLeft bool
		var exp, left int64
		switch v := r.Intn(10); {
		case v < 4:
		case v < 6:
			hasExp, exp = true, h.now+1+int64(r.Intn(40))
		case v < 8:
			hasLeft, left = true, 1+int64(r.Intn(3))
		default:
			hasExp, exp = true, h.now+1+int64(r.Intn(40))
			hasLeft, left = true, 1+int64(r.Intn(3))
		}
		if hasExp && r.Intn(12) == 0 {
			exp = h.now - int64(r.Intn(2)) // not after the block time: refused
		}
		return h.opGrant(granter, grantee, k, hasExp, exp, hasLeft, left)
	case 8: // marker access and status administration
		mi := c09Markers[r.Intn(len(c09Markers))]
		if r.Intn(3) > 0 {
			// prefer a marker that holds a scope
			for _, d := range r.Perm(nIds) {
				if _, ok := h.mks[h.holder(d)]; ok {
					mi = h.holder(d)
					break
				}
			}
		}
		m := e.randMarker(r, mi)
		if r.Intn(2) == 0 { // only the status changes
			old := h.mks[mi]
			m.withdraw, m.deposit = old.withdraw, old.deposit
		}
		return c09Op{cls: "set-marker", term: fmt.Sprintf("OSetMarker %s %s", c09N(mi), m.term()),
			dsc: fmt.Sprintf("marker %d status %s withdraw %v deposit %v", mi, c09MarkerStatus[m.status], m.withdraw, m.deposit),
			run: func(c sdk.Context) error {
				e.setMarker(c, mi, m)
				h.mks[mi] = m
				return nil
			}}
	case 9: // a later block
		t := h.now + 1 + int64(r.Intn(15))
		if gs := h.allGrants(); len(gs) > 0 && r.Intn(2) == 0 {
			// exactly the expiration of a grant, or just past it
			if g := gs[r.Intn(len(gs))]; g.hasExp && g.exp >= h.now {
				t = g.exp + int64(r.Intn(2))
			}
		}
		return h.opSetTime(t)
	case 10: // sanction / unsanction
		a := []int{1, 2, 3, c09Grantee, c09Stranger, c09Admin, c09Mk1, c09Mk2, c09Wasm}[r.Intn(9)]
		if r.Intn(2) == 0 {
			if hd := h.holder(r.Intn(nIds)); hd > 0 {
				a = hd
			}
		}
		if r.Intn(15) == 0 {
			a = []int{c09Module, c09Blocked, c09QHold}[r.Intn(3)]
		}
		if e.app.SanctionKeeper.IsSanctionedAddr(h.ctx, e.addrs[a]) && r.Intn(4) > 0 || r.Intn(10) == 0 {
			return c09Op{cls: "unsanction", term: fmt.Sprintf("OUnsanction %s", c09N(a)), dsc: fmt.Sprintf("unsanction %d", a),
				run: func(c sdk.Context) error { return e.app.SanctionKeeper.UnsanctionAddresses(c, e.addrs[a]) }}
		}
		return c09Op{cls: "sanction", term: fmt.Sprintf("OSanction %s", c09N(a)), dsc: fmt.Sprintf("sanction %d", a),
			run: func(c sdk.Context) error { return e.app.SanctionKeeper.SanctionAddresses(c, e.addrs[a]) }}
	case 11: // quarantine administration
		a := []int{1, 2, 3, 1, 2, 3, c09Grantee, c09Stranger, c09Mk1}[r.Intn(9)]
		switch v := r.Intn(10); {
		case v < 5:
			msg := &quarantine.MsgOptIn{ToAddress: e.addrs[a].String()}
			return c09Op{cls: "opt-in", term: fmt.Sprintf("OOptIn %s", c09N(a)), dsc: fmt.Sprintf("quarantine opt-in %d", a),
				msg: msg, run: func(c sdk.Context) error { return e.runMsg(c, msg) }}
		case v < 6:
			msg := &quarantine.MsgOptOut{ToAddress: e.addrs[a].String()}
			return c09Op{cls: "opt-out", term: fmt.Sprintf("OOptOut %s", c09N(a)), dsc: fmt.Sprintf("quarantine opt-out %d", a),
				msg: msg, run: func(c sdk.Context) error { return e.runMsg(c, msg) }}
		default:
			from := h.anyAcct()
			if r.Intn(3) == 0 {
				from = c09Module // newly minted tokens come from the metadata module account
			}
			on := r.Intn(3) > 0
			resp := quarantine.AUTO_RESPONSE_UNSPECIFIED
			if on {
				resp = quarantine.AUTO_RESPONSE_ACCEPT
			} else if r.Intn(2) == 0 {
				resp = quarantine.AUTO_RESPONSE_DECLINE
			}
			msg := &quarantine.MsgUpdateAutoResponses{ToAddress: e.addrs[a].String(),
				Updates: []*quarantine.AutoResponseUpdate{{FromAddress: e.addrs[from].String(), Response: resp}}}
			return c09Op{cls: "auto-response", term: fmt.Sprintf("OAutoAccept %s %s %s", c09N(a), c09N(from), coqBool(on)),
				dsc: fmt.Sprintf("quarantine auto-response of %d for %d: %v", a, from, resp),
				msg: msg, run: func(c sdk.Context) error { return e.runMsg(c, msg) }}
		}
	case 13: // the marker module pointed at a scope token's denom: create a marker on it, then mint / force-transfer / withdraw
		d := existing[r.Intn(len(existing))]
		for _, c := range r.Perm(nIds) {
			if h.holder(c) >= 0 {
				d = c
				break
			}
		}
		a := []int{c09Stranger, c09Admin, 1, 2, 3}[r.Intn(5)]
		hold := h.holder(d)
		if hold < 0 {
			hold = 1 + r.Intn(3)
		}
		ops := []func() c09Op{
			func() c09Op { return h.opMarkerAdd(a, d, int64(1+r.Intn(2)), r.Intn(3) > 0, r.Intn(4) > 0) },
			func() c09Op { return h.opMarkerMint(a, d, 1) },
			func() c09Op { return h.opMarkerTransfer(a, hold, a, d) },
			func() c09Op { return h.opMarkerWithdraw(a, a, d) },
		}
		h.pending = append(h.pending, ops[1:]...)
		return ops[0]()
	default: // accept / decline quarantined funds
		to := 1 + r.Intn(3)
		froms := []int{h.anyAcct()}
		if qs := h.allQRecs(); len(qs) > 0 && r.Intn(6) > 0 {
			q := qs[r.Intn(len(qs))]
			to, froms = q.to, []int{q.from}
			if r.Intn(4) == 0 {
				froms = append(froms, h.anyAcct())
			}
			if r.Intn(10) == 0 {
				to = 1 + r.Intn(3) // somebody else tries to accept
			}
		}
		if r.Intn(30) == 0 {
			froms = nil
		}
		if r.Intn(6) == 0 {
			msg := &quarantine.MsgDecline{ToAddress: e.addrs[to].String(), FromAddresses: h.strs(froms)}
			return c09Op{cls: "decline", term: fmt.Sprintf("ODecline %s %s", c09N(to), c09Ns(froms)), dsc: fmt.Sprintf("quarantine decline by %d from %v", to, froms),
				msg: msg, run: func(c sdk.Context) error { return e.runMsg(c, msg) }}
		}
		perm := r.Intn(4) == 0
		msg := &quarantine.MsgAccept{ToAddress: e.addrs[to].String(), FromAddresses: h.strs(froms), Permanent: perm}
		return c09Op{cls: "accept", term: fmt.Sprintf("OAccept %s %s %s", c09N(to), c09Ns(froms), coqBool(perm)),
			dsc: fmt.Sprintf("quarantine accept by %d from %v permanent %v", to, froms, perm),
			msg: msg, run: func(c sdk.Context) error { return e.runMsg(c, msg) }}
	}
}

func (e *c09Env) startTerm(h *c09Hist) string {
	var sp, mk []string
	for i := 1; i < c09NoSpec; i++ {
		sp = append(sp, fmt.Sprintf("(%s, %s)", c09N(i), c09Ns(c09SpecRoles[i])))
	}
	for _, mi := range c09Markers {
		mk = append(mk, fmt.Sprintf("(%s, %s)", c09N(mi), h.mks[mi].term()))
	}
	return fmt.Sprintf("(init %s %s [%s] [%s; %s])", coqList(sp), coqList(mk), c09N(c09Wasm), c09N(c09Module), c09N(c09Blocked))
}

func (h *c09Hist) holderKind(a int, bcls string) string {
	if a < 0 {
		return "mint"
	}
	if m, ok := h.mks[a]; ok {
		s := "from-marker"
		if m.restricted {
			s = "from-restricted-marker"
		}
		return s + "-" + c09MarkerStatus[m.status]
	}
	if a == c09QHold {
		return "from-quarantine"
	}
	return "from-" + bcls
}

// c09History runs one history.  legacy > 0: scope 1 is first created as PRE-MIGRATION state (the
// value owner stored inside the scope record, through Keeper.V3WriteNewScope) and moved to the
// bank by Migrator.Migrate3To4, which leaves the old value_owner_address in the stored record; the
// history then starts with a scripted value-owner update by the holder followed by an
// AddScopeDataAccess by the owner (an endpoint that rewrites the STORED scope through SetScope).
// bulk = 20: twenty scopes with DIFFERENT value owners, then bulk updates over 1-20 of them;
// bulk = 110: more scopes (105) than the ValueOwnership page size held by one account, then migrations.
func c09History(e *c09Env, r *rand.Rand, w *CaseWriter, hi int, legacy int, bulk int) {
	c09HistoryOn(e, nil, r, w, hi, legacy, bulk)
}

// c09HistoryOn: net == nil runs the history in keeper mode on a cache of e.base; otherwise every
// step is a block of the chain net (a signed transaction, or keeper writes on the open block).
func c09HistoryOn(e *c09Env, net *c09Net, r *rand.Rand, w *CaseWriter, hi int, legacy int, bulk int) {
	var ctx sdk.Context
	if net == nil {
		ctx, _ = e.base.CacheContext()
	} else {
		ctx = net.openCtx()
	}
	h := &c09Hist{e: e, r: r, ctx: ctx, scopes: map[int]*c09Scope{}, mks: map[int]c09Marker{},
		profile: c09ProfileOrder[hi%len(c09ProfileOrder)]}
	if net != nil && hi%2 == 0 {
		h.profile = "marker" // every other chain history: scopes owned by markers, taken out with and without withdraw access
	}
	nIds := 2 + r.Intn(3)
	if bulk < 0 {
		nIds = 1
		h.profile = "script"
	}
	if bulk > 0 {
		nIds = bulk
		h.profile = "plain"
		h.paged = bulk > 100
	}
	for i := 0; i < nIds; i++ {
		h.ids = append(h.ids, mdtypes.ScopeMetadataAddress(uuid.MustParse(fmt.Sprintf("10000000-0000-4000-8000-%06d%06d", hi%1000000, i+1))))
	}
	for _, mi := range c09Markers {
		m := e.randMarker(r, mi)
		if bulk > 0 { // the administrator can always withdraw and deposit; the status stays random
			m.withdraw, m.deposit = []int{c09Admin}, []int{c09Admin}
		}
		h.mks[mi] = m
		e.setMarker(ctx, mi, m)
	}
	start := e.startTerm(h)
	var queue []func() c09Op
	if legacy > 0 {
		owner, vo, next := 1+legacy%3, 1+(legacy+1)%3, []int{c09Stranger, c09Grantee, 1 + (legacy+2)%3}[legacy%3]
		sc := c09Scope{parties: []c09Party{{owner, c09Owner, false}}, spec: 1}
		if err := e.app.MetadataKeeper.V3WriteNewScope(ctx, h.mkScope(0, sc, vo)); err != nil {
			e.t.Fatalf("legacy scope: %v", err)
		}
		if err := mdkeeper.NewMigrator(e.app.MetadataKeeper).Migrate3To4(ctx); err != nil {
			e.t.Fatalf("migrate 3 to 4: %v", err)
		}
		h.scopes[0] = &sc
		// the same state in the model: the scope written with that value owner
		start = fmt.Sprintf("(run %s [%s])", start, c09WriteTerm([]int{owner}, 0, sc, vo))
		queue = append(queue, func() c09Op { return h.opUpdate([]int{vo}, []int{0}, next) }, func() c09Op { return h.opAddData([]int{owner}, 0, []int{1}) })
		w.Count("legacy histories")
	}
	nSteps := 10 + r.Intn(21)
	if bulk < 0 {
		// markers cannot interfere: the scripts use plain accounts only
		queue = h.c09Script(-bulk)
		nSteps = len(queue)
		w.Count("scripted observation histories")
	}
	if bulk > 0 {
		// the scopes are written for real (and in the model) before the observed history starts
		var writes []string
		owners := []int{1, 2, 3, c09Grantee, c09Admin, c09Mk1, c09Mk2, c09Mk3}
		for d := 0; d < nIds; d++ {
			sc := c09Scope{parties: []c09Party{{1 + d%3, c09Owner, false}}, spec: 1}
			vo := 1
			if bulk <= 100 {
				vo = owners[(d+hi)%len(owners)]
			} else if d%20 == 19 {
				vo = 2
			}
			sg := []int{1 + d%3}
			if m, ok := h.mks[vo]; ok && m.restricted {
				dep := -1
				for _, a := range m.deposit {
					if a != c09Wasm {
						dep = a
						break
					}
				}
				if dep < 0 {
					vo = c09Mk1
				} else if dep != sg[0] {
					sg = append(sg, dep)
				}
			}
			op := h.opWrite("bulk-setup", sg, d, sc, vo)
			if err := op.run(ctx); err != nil {
				e.t.Fatalf("bulk set-up write %d: %v", d, err)
			}
			writes = append(writes, op.term)
		}
		start = fmt.Sprintf("(run %s %s)", start, coqList(writes))
		all := make([]int, nIds)
		for i := range all {
			all[i] = i
		}
		// every current holder consents: itself, or for a marker an account with withdraw access (never
		// the contract, whose signature would hide all the others)
		consent := func(ds []int) []int {
			var sg []int
			add := func(a int) {
				for _, x := range sg {
					if x == a {
						return
					}
				}
				sg = append(sg, a)
			}
			for _, d := range ds {
				a := h.holder(d)
				if m, ok := h.mks[a]; ok {
					w := c09Admin
					for _, x := range m.withdraw {
						if x != c09Wasm {
							w = x
							break
						}
					}
					add(w)
				} else if a >= 0 {
					add(a)
				}
			}
			return sg
		}
		if bulk <= 100 {
			k := 1 + r.Intn(nIds)
			part := r.Perm(nIds)[:k]
			queue = append(queue,
				func() c09Op { sg := consent(all); return h.opUpdate(sg[:len(sg)-1], all, c09Stranger) }, // one consent missing: nothing moves
				func() c09Op { return h.opUpdate(consent(part), part, c09Stranger) },
				func() c09Op { return h.opUpdate(consent(all), append(append([]int{}, all...), all[0]), c09Wasm) }, // a duplicate id
				func() c09Op { return h.opUpdate(consent(all), all, c09Wasm) })
			w.Count("bulk-update histories")
		} else {
			queue = append(queue,
				func() c09Op { return h.opMigrate([]int{c09Stranger}, 1, 3) },
				func() c09Op { return h.opMigrate([]int{1}, 1, 3) },
				func() c09Op { return h.opMigrate([]int{3, 2}, 3, 2) })
			w.Count("bulk-migrate histories")
		}
		nSteps = len(queue) + 3
	}
	if net != nil {
		net.commitOpen()
		h.ctx = net.queryCtx()
		w.Count("abci histories")
	}
	obs0 := h.observe(true)

	var steps, descs []string
	accepted, changed := 0, 0
	scripted := false
	for s := 0; s < nSteps; s++ {
		var op c09Op
		if net != nil && len(queue) == 0 && !scripted && s >= 2 && r.Intn(4) == 0 {
			if q := h.markerScript(nIds); q != nil {
				queue, scripted = q, true
				w.Count("marker scripts (chain)")
			}
		}
		if len(queue) == 0 && !scripted && bulk == 0 && s >= 3 && (h.profile == "authz" || h.profile == "mixed") && r.Intn(5) == 0 {
			if q := h.expiryScript(nIds); q != nil {
				queue, scripted = q, true
				w.Count("expiry scripts")
			}
		}
		fromQueue := false
		for len(queue) > 0 && !fromQueue {
			op, queue = queue[0](), queue[1:]
			// a scripted message of an account without a key cannot come in a transaction: skipped
			fromQueue = net == nil || net.signable(op)
		}
		if fromQueue {
			if bulk > 0 {
				op.cls = "bulk " + op.cls
			} else if bulk < 0 {
				op.cls = "script " + op.cls
			} else if scripted {
				op.cls = "scripted " + op.cls
			} else {
				op.cls = "legacy " + op.cls
			}
		} else if len(h.pending) > 0 {
			op, h.pending = h.pending[0](), h.pending[1:]
		} else {
			op = h.genOp(nIds)
			for tries := 0; net != nil && !net.signable(op) && tries < 40; tries++ {
				h.pending = nil
				op = h.genOp(nIds) // a message of an account without a key cannot come in a transaction
			}
		}
		cls := op.cls
		before := make([]int, nIds)
		bcls := make([]string, nIds)
		bkind := make([]string, nIds)
		for d := range h.ids {
			before[d] = h.holder(d)
			bcls[d] = h.voClass(d, before[d])
			bkind[d] = h.holderKind(before[d], bcls[d])
		}
		var err error
		note := ""
		if net != nil {
			note, err = net.deliver(h, op, w)
		} else {
			cctx, write := h.ctx.CacheContext()
			if err = op.run(cctx); err == nil {
				write()
			}
		}
		if err == nil {
			accepted++
			w.Count("accepted " + cls)
		} else {
			w.Count("rejected " + cls)
			if strings.Contains(err.Error(), "panic") {
				w.Count("panics")
			}
		}
		moved := 0
		for d := range h.ids {
			if a := h.holder(d); a != before[d] {
				changed++
				moved++
				w.Count("holder changes")
				kindOf := bkind[d]
				if a < 0 {
					kindOf += "/burn"
				} else if m, ok := h.mks[a]; ok {
					if m.restricted {
						kindOf += "/to-restricted-marker-" + c09MarkerStatus[m.status]
					} else {
						kindOf += "/to-marker-" + c09MarkerStatus[m.status]
					}
				} else if a == c09QHold {
					kindOf += "/to-quarantine"
				}
				base := strings.SplitN(cls, " ", 2)[0]
				if bulk > 0 {
					base = "bulk"
				} else if bulk < 0 {
					base = "script"
				}
				w.Count("holder change " + base + " " + kindOf)
				w.Nontrivial(base + " " + kindOf)
			}
		}
		if moved > 1 {
			w.Count("steps moving several tokens")
			if moved > 100 {
				w.Count("steps moving more than 100 tokens")
			}
		}
		for _, x := range h.extra {
			steps, descs = append(steps, x[0]), append(descs, x[1])
		}
		h.extra = nil
		steps = append(steps, fmt.Sprintf("(%s, %s)", op.term, h.observe(err == nil)))
		descs = append(descs, fmt.Sprintf("%s%s -> %v", op.dsc, note, err == nil))
	}
	idN := make([]int, nIds)
	for i := range idN {
		idN[i] = i + 1
	}
	accN := append(append([]int{}, e.order...), c09Other)
	term := fmt.Sprintf("CHist %s %s %s %s %s", c09Ns(idN), c09Ns(accN), start, obs0, coqList(steps))
	w.Add(term, map[string]any{"history": hi, "scopes": nIds, "legacy": legacy, "bulk": bulk, "profile": h.profile, "abci": net != nil, "steps": descs})
	w.Count("histories")
	w.Count("histories profile " + h.profile)
	w.CountN("history_steps", int64(len(steps)))
	w.CountN("history_steps_accepted", int64(accepted))
	if changed > 0 {
		w.Nontrivial(fmt.Sprintf("hist/%d", hi))
	}
}

func TestC09(t *testing.T) {
	e := c09Setup(t)
	r := newRand("C09")
	w := NewCaseWriter("C09", "PV.Corr.C09", "check_all", 40)
	n := scale(320, 2400)
	for hi := 0; hi < n; hi++ {
		legacy := 0
		if hi%20 == 0 {
			legacy = 1 + hi/20 // scripted pre-migration start state
		}
		c09History(e, r, w, hi, legacy, 0)
	}
	for i := 0; i < scale(4, 24); i++ {
		c09History(e, r, w, n+2*i, 0, 20)
		c09History(e, r, w, n+2*i+1, 0, 110)
	}
	for k := 1; k <= 5; k++ {
		c09History(e, r, w, n+1000+k, 0, -k) // the observation Examples of Properties/C09.v
	}
	// the ABCI route: the same histories with every message in a signed transaction through CheckTx and
	// FinalizeBlock, with and without a fee granter (one chain per history)
	for i := 0; i < scale(24, 200); i++ {
		net := c09NewNet(t)
		c09HistoryOn(net.env, net, r, w, n+2000+i, 0, 0)
	}
	w.Flush(t)
}
